/-
  C11 — concurrent evaluation over shared values is race-free and gives serial results.

  `Impl.Sync`: every piece of lazily initialised shared state of arr.ai, transliterated as a
  transition system over interleavings: each caller is a little program of atomic steps (one `PC`
  value per step), a schedule is a list of thread ids, `run` folds `step` over the schedule.  A step
  of a thread that is blocked (mutex held by someone else, asleep on the condition variable) or
  finished leaves the state unchanged, so *every* list of thread ids is a schedule.

    Once      sync.Once.Do(f) followed by the read of the guarded variable
              (GenericTuple.Names / getBucket / TupleOrderedNames, positionalRelation.getMeta,
               syntax.FixFuncs / StdScope / SafeStdScope / implicitDecoder, deprecate.delayDuration)
    Keyed     Lock; lookup; on a miss compute *while holding the lock*; store; Unlock
              (positionalRelationMetadata.computeIndex, syntax.mustReadEmbeddedFile)
    Stream    the same over a consuming resource (stdOsStdin.read drains a reader), with the narrowed-lock
              variant as a parameter
    GetOrAdd  importCache.getOrAdd: mutex + condition variable, in-flight marker, deferred clean-up
    Seen      deprecate.sourceContextCache.encountered: RWMutex, test under RLock then set under Lock

  Core-only.
-/
import Arrai.Core.Canon

namespace Arrai.C11

/-- point update of a per-thread (or per-key) component -/
def upd {α : Type} (f : Nat → α) (t : Nat) (x : α) : Nat → α := fun u => if u = t then x else f u

@[simp] theorem upd_same {α : Type} (f : Nat → α) (t : Nat) (x : α) : upd f t x t = x := by simp [upd]
@[simp] theorem upd_other {α : Type} (f : Nat → α) (t u : Nat) (x : α) (h : u ≠ t) : upd f t x u = f u := by
  simp [upd, h]

/-! ## sync.Once.Do(f); return guarded variable

```go
func (o *Once) Do(f func()) { if o.done.Load() == 0 { o.doSlow(f) } }
func (o *Once) doSlow(f func()) {
	o.m.Lock(); defer o.m.Unlock()
	if o.done.Load() == 0 { defer o.done.Store(1); f() }
}
func (t *GenericTuple) Names() Names { t.cachedNamesOnce.Do(func() { …; t.cachedNames = … }); return t.cachedNames }
```
-/
namespace Once

inductive PC where
  | fast     -- o.done.Load() == 0 ?
  | lock     -- o.m.Lock()                      (blocks while the mutex is held)
  | chk      -- o.done.Load() == 0 ?            (under the mutex)
  | run      -- f() starts
  | store    -- f's assignment to the guarded variable
  | setdone  -- deferred o.done.Store(1)
  | unlock   -- deferred o.m.Unlock()
  | ret      -- return <guarded variable>
  | fin
  deriving DecidableEq, Repr

structure St (α : Type) where
  done : Bool := false
  mu : Option Nat := none
  cache : Option α := none             -- the guarded variable; `none` = Go zero value
  runs : Nat := 0                      -- ghost: how often f was started
  pc : Nat → PC := fun _ => .fast
  res : Nat → Option (Option α) := fun _ => none

def init {α : Type} : St α := {}

def step {α : Type} (v : α) (s : St α) (t : Nat) : St α :=
  match s.pc t with
  | .fast => { s with pc := upd s.pc t (if s.done then .ret else .lock) }
  | .lock => if s.mu = none then { s with mu := some t, pc := upd s.pc t .chk } else s
  | .chk => { s with pc := upd s.pc t (if s.done then .unlock else .run) }
  | .run => { s with runs := s.runs + 1, pc := upd s.pc t .store }
  | .store => { s with cache := some v, pc := upd s.pc t .setdone }
  | .setdone => { s with done := true, pc := upd s.pc t .unlock }
  | .unlock => { s with mu := none, pc := upd s.pc t .ret }
  | .ret => { s with res := upd s.res t (some s.cache), pc := upd s.pc t .fin }
  | .fin => s

def run {α : Type} (v : α) (sched : List Nat) (s : St α) : St α := sched.foldl (step v) s

/-- a thread can make a step that changes the state -/
def enabled {α : Type} (s : St α) (t : Nat) : Bool :=
  match s.pc t with
  | .fin => false
  | .lock => s.mu.isNone
  | _ => true

end Once

/-! ## mutex-guarded keyed cache, computing while the lock is held

```go
func (prm *positionalRelationMetadata) computeIndex(key any, fn func() any) any {
	prm.Lock(); defer prm.Unlock()
	if index, has := prm.indices.Get(key); has { return index }
	index := fn()
	prm.indices = prm.indices.With(key, index)
	return index
}
```
`mustReadEmbeddedFile(path)` has the same shape (key = path), `stdOsStdin.read` is the one-key instance. -/
namespace Keyed

inductive PC where
  | lock | look | compute | store | unlock | fin
  deriving DecidableEq, Repr

structure St (α : Type) where
  mu : Option Nat := none
  idx : Nat → Option α := fun _ => none       -- prm.indices
  runs : Nat → Nat := fun _ => 0               -- ghost: calls of fn per key
  pc : Nat → PC := fun _ => .lock
  tmp : Nat → Option α := fun _ => none        -- the local `index`
  res : Nat → Option α := fun _ => none

def init {α : Type} : St α := {}

/-- `f k` is what `fn()` computes for key `k`; `key t` the key thread `t` asks for -/
def step {α : Type} (f : Nat → α) (key : Nat → Nat) (s : St α) (t : Nat) : St α :=
  match s.pc t with
  | .lock => if s.mu = none then { s with mu := some t, pc := upd s.pc t .look } else s
  | .look =>
    match s.idx (key t) with
    | some x => { s with tmp := upd s.tmp t (some x), pc := upd s.pc t .unlock }
    | none => { s with pc := upd s.pc t .compute }
  | .compute => { s with tmp := upd s.tmp t (some (f (key t))), runs := upd s.runs (key t) (s.runs (key t) + 1),
                         pc := upd s.pc t .store }
  | .store => { s with idx := upd s.idx (key t) (s.tmp t), pc := upd s.pc t .unlock }
  | .unlock => { s with mu := none, res := upd s.res t (s.tmp t), pc := upd s.pc t .fin }
  | .fin => s

def run {α : Type} (f : Nat → α) (key : Nat → Nat) (sched : List Nat) (s : St α) : St α :=
  sched.foldl (step f key) s

end Keyed

/-! ## compute-and-store over a *consuming* resource: stdin's read-once

```go
func (d *stdOsStdin) read(context.Context, rel.Value) (rel.Value, error) {
	d.mutex.Lock(); defer d.mutex.Unlock()
	if d.bytes != nil { return d.bytes, nil }
	f, err := io.ReadAll(stdOsStdinVar.reader)     // many Read calls, each consumes what has arrived
	if err != nil { return nil, err }
	d.bytes = rel.NewBytes(f)
	return d.bytes, nil
}
```
Unlike `fn()` of the keyed cache the computation is not repeatable: what one caller reads is gone for the others.
`held = true` is the code above (the mutex spans ReadAll).  `held = false` is the narrowed variant — lock, fetch
(cache, reader), unlock, drain, re-lock, store if nobody has stored yet — in which every field access is still
locked (no data race, nothing for the race detector) but two first callers drain the same stream. -/
namespace Stream

inductive PC where
  | lock | look | drain | relock | store | unlock | fin
  deriving DecidableEq, Repr

structure St where
  mu : Option Nat := none
  cache : Option (List Nat) := none       -- d.bytes
  src : List (List Nat) := []             -- the chunks the reader has not delivered yet; [] = EOF
  runs : Nat := 0                          -- ghost: callers that started to drain the reader
  pc : Nat → PC := fun _ => .lock
  acc : Nat → List Nat := fun _ => []     -- ReadAll's buffer
  tmp : Nat → Option (List Nat) := fun _ => none
  res : Nat → Option (List Nat) := fun _ => none

def init (chunks : List (List Nat)) : St := { src := chunks }

def step (held : Bool) (s : St) (t : Nat) : St :=
  match s.pc t with
  | .lock => if s.mu = none then { s with mu := some t, pc := upd s.pc t .look } else s
  | .look =>
    match s.cache with
    | some x => { s with tmp := upd s.tmp t (some x), pc := upd s.pc t .unlock }
    | none => { s with mu := (if held then s.mu else none), runs := s.runs + 1, pc := upd s.pc t .drain }
  | .drain =>
    match s.src with
    | c :: rest => { s with src := rest, acc := upd s.acc t (s.acc t ++ c) }      -- one Read
    | [] => { s with pc := upd s.pc t (if held then .store else .relock) }        -- EOF
  | .relock => if s.mu = none then { s with mu := some t, pc := upd s.pc t .store } else s
  | .store =>
    { s with cache := (match s.cache with | none => some (s.acc t) | c => c),
             tmp := upd s.tmp t (some (s.acc t)), pc := upd s.pc t .unlock }
  | .unlock => { s with mu := none, res := upd s.res t (s.tmp t), pc := upd s.pc t .fin }
  | .fin => s

def run (held : Bool) (sched : List Nat) (s : St) : St := sched.foldl (step held) s

end Stream

/-! ## importCache.getOrAdd

```go
func (service *importCache) getOrAdd(key string, add func() (rel.Expr, error)) (rel.Expr, error) {
	adding := false
	service.mutex.Lock()
	defer func() {
		if adding {                       // failed (or panicked) while adding
			service.mutex.Lock()
			delete(service.cache, key)
			service.cond.Broadcast()      // <- the repair; absent before
		}
		service.mutex.Unlock()
	}()
	for {
		if val, has := service.cache[key]; has {
			if val != nil { return val, nil }
			service.cond.Wait()           // another goroutine is adding
		} else { break }
	}
	service.cache[key] = nil              // in-flight marker
	service.mutex.Unlock()
	adding = true
	val, err := add()
	if err != nil { return nil, err }
	adding = false
	service.mutex.Lock()
	if val != nil { service.cache[key] = val } else { delete(service.cache, key) }
	service.cond.Broadcast()
	return val, nil
}
```
-/
namespace GetOrAdd

/-- what `add()` returned: `(val, nil)`, `(nil, err)` or `(nil, nil)` -/
inductive Outcome (ν ε : Type) where
  | val (v : ν) | err (e : ε) | nil
  deriving DecidableEq, Repr

/-- `service.cache[key]`; the in-flight marker (`nil` in Go) is annotated with the thread that set it (ghost) -/
inductive Entry (ν : Type) where
  | absent | inflight (owner : Nat) | val (v : ν)
  deriving DecidableEq, Repr

inductive PC where
  | start     -- service.mutex.Lock()
  | check     -- one round of the `for` loop, under the mutex
  | asleep    -- inside cond.Wait(), mutex released, not yet woken
  | woken     -- woken by Broadcast: cond.Wait() re-acquires the mutex
  | adding    -- val, err := add()    (mutex released, adding = true)
  | errLock   -- deferred clean-up after an error: service.mutex.Lock()
  | errFin    --   delete(cache, key); [Broadcast]; Unlock; return nil, err
  | okLock    -- service.mutex.Lock() after a successful add
  | okFin     --   store / delete; Broadcast; return val, nil; deferred Unlock
  | fin
  deriving DecidableEq, Repr

structure St (ν ε : Type) where
  mu : Option Nat := none
  cache : Nat → Entry ν := fun _ => .absent
  attempts : Nat → Nat := fun _ => 0           -- per key: calls of add() started so far
  wins : Nat → Nat := fun _ => 0               -- ghost: calls of add() that returned a value
  pc : Nat → PC := fun _ => .start
  out : Nat → Option (Outcome ν ε) := fun _ => none   -- the caller's own (val, err)
  att : Nat → Option Nat := fun _ => none      -- ghost: the number of the attempt the caller ran
  res : Nat → Option (Outcome ν ε) := fun _ => none   -- what the caller returned

def init {ν ε : Type} : St ν ε := {}

/-- cond.Broadcast(): every goroutine inside Wait() is woken -/
def wake (pc : Nat → PC) : Nat → PC := fun u => if pc u = .asleep then .woken else pc u

def isVal {ν ε : Type} : Outcome ν ε → Bool
  | .val _ => true
  | _ => false
def isErr {ν ε : Type} : Outcome ν ε → Bool
  | .err _ => true
  | _ => false

/-- `repaired = false` is the code before the repair: no Broadcast in the clean-up after a failed add.
`add k n` is the outcome of the `n`-th call of `add` for key `k`; `key t` the key of caller `t`. -/
def step {ν ε : Type} (repaired : Bool) (add : Nat → Nat → Outcome ν ε) (key : Nat → Nat)
    (s : St ν ε) (t : Nat) : St ν ε :=
  let k := key t
  match s.pc t with
  | .start => if s.mu = none then { s with mu := some t, pc := upd s.pc t .check } else s
  | .woken => if s.mu = none then { s with mu := some t, pc := upd s.pc t .check } else s
  | .check =>
    match s.cache k with
    | .val v => { s with mu := none, res := upd s.res t (some (.val v)), pc := upd s.pc t .fin }
    | .inflight _ => { s with mu := none, pc := upd s.pc t .asleep }
    | .absent => { s with mu := none, cache := upd s.cache k (.inflight t), pc := upd s.pc t .adding }
  | .asleep => s
  | .adding =>
    let n := s.attempts k
    let o := add k n
    { s with attempts := upd s.attempts k (n + 1),
             wins := upd s.wins k (s.wins k + (if isVal o then 1 else 0)),
             out := upd s.out t (some o), att := upd s.att t (some n),
             pc := upd s.pc t (if isErr o then .errLock else .okLock) }
  | .errLock => if s.mu = none then { s with mu := some t, pc := upd s.pc t .errFin } else s
  | .okLock => if s.mu = none then { s with mu := some t, pc := upd s.pc t .okFin } else s
  | .errFin =>
    { s with mu := none, cache := upd s.cache k .absent, res := upd s.res t (s.out t),
             pc := upd (if repaired then wake s.pc else s.pc) t .fin }
  | .okFin =>
    { s with mu := none,
             cache := upd s.cache k (match s.out t with | some (.val v) => .val v | _ => .absent),
             res := upd s.res t (s.out t),
             pc := upd (wake s.pc) t .fin }
  | .fin => s

def run {ν ε : Type} (repaired : Bool) (add : Nat → Nat → Outcome ν ε) (key : Nat → Nat)
    (sched : List Nat) (s : St ν ε) : St ν ε := sched.foldl (step repaired add key) s

def enabled {ν ε : Type} (s : St ν ε) (t : Nat) : Bool :=
  match s.pc t with
  | .fin | .asleep => false
  | .start | .woken | .errLock | .okLock => s.mu.isNone
  | _ => true

/-! ### `add` that itself calls getOrAdd (a script that imports other scripts)

`child t = some c`: caller `t`'s `add` consists of the nested call `c` (made by the same goroutine inside `add`), so
`t` cannot finish its `adding` step before `c` has returned, and `c` starts only once `t` is inside `add`.
With `child = parent = fun _ => none` this is `step true`. -/
def enabledN {ν ε : Type} (child parent : Nat → Option Nat) (s : St ν ε) (t : Nat) : Bool :=
  enabled s t &&
  (match s.pc t, child t with
   | .adding, some c => s.pc c == .fin
   | _, _ => true) &&
  (match s.pc t, parent t with
   | .start, some p => s.pc p == .adding
   | _, _ => true)

def stepN {ν ε : Type} (child parent : Nat → Option Nat) (add : Nat → Nat → Outcome ν ε) (key : Nat → Nat)
    (s : St ν ε) (t : Nat) : St ν ε :=
  if enabledN child parent s t then step true add key s t else s

def runN {ν ε : Type} (child parent : Nat → Option Nat) (add : Nat → Nat → Outcome ν ε) (key : Nat → Nat)
    (sched : List Nat) (s : St ν ε) : St ν ε := sched.foldl (stepN child parent add key) s

end GetOrAdd

/-! ## deprecate.sourceContextCache.encountered

```go
func (d *sourceContextCache) encountered(scanner parser.Scanner) bool {
	s := scanner.String()
	d.RLock()
	if _, has := d.m[s]; has { defer d.RUnlock(); return true }
	d.RUnlock()
	d.Lock(); defer d.Unlock()
	d.m[s] = struct{}{}
	return false
}
```
-/
namespace Seen

inductive PC where
  | rlock | test | runlockT | runlockF | lock | set | fin
  deriving DecidableEq, Repr

structure St where
  writer : Option Nat := none
  readers : Nat := 0                   -- number of read-lock holders
  m : Nat → Bool := fun _ => false      -- d.m
  pc : Nat → PC := fun _ => .rlock
  res : Nat → Option Bool := fun _ => none

def init : St := {}

def step (key : Nat → Nat) (s : St) (t : Nat) : St :=
  match s.pc t with
  | .rlock => if s.writer = none then { s with readers := s.readers + 1, pc := upd s.pc t .test } else s
  | .test => { s with pc := upd s.pc t (if s.m (key t) then .runlockT else .runlockF) }
  | .runlockT => { s with readers := s.readers - 1, res := upd s.res t (some true), pc := upd s.pc t .fin }
  | .runlockF => { s with readers := s.readers - 1, pc := upd s.pc t .lock }
  | .lock => if s.writer = none ∧ s.readers = 0 then { s with writer := some t, pc := upd s.pc t .set } else s
  | .set => { s with writer := none, m := upd s.m (key t) true, res := upd s.res t (some false),
                     pc := upd s.pc t .fin }
  | .fin => s

def run (key : Nat → Nat) (sched : List Nat) (s : St) : St := sched.foldl (step key) s

end Seen

/-! ## Happens-before over abstract traces, data races, locking disciplines

A trace is the list of (goroutine, event) pairs of one execution in the order the events were observed.
`hb` is the smallest transitive relation containing program order and the synchronisation edges the Go
memory model documents: Unlock → later Lock (RUnlock → later Lock, Unlock → later RLock), completion of
the single call of `f` in `once.Do(f)` → return of any `once.Do`, send → corresponding receive,
`go` statement → start of the goroutine.  The Go scheduler, the memory model below this level and the
internals of dependencies are *not* modelled. -/
namespace HB

inductive Ev where
  | rd (loc : Nat) | wr (loc : Nat)
  | acq (excl : Bool) (m : Nat)        -- Lock (excl) / RLock
  | rel (excl : Bool) (m : Nat)        -- Unlock (excl) / RUnlock
  | onceBegin (k : Nat) | onceEnd (k : Nat)   -- f() of once k starts / completes (in the goroutine that won)
  | onceRet (k : Nat)                  -- a call of once k .Do(...) returns
  | send (c n : Nat) | recv (c n : Nat)       -- n-th send on channel c / its receive
  | go (child : Nat) | start          -- `go` statement / first event of the new goroutine
  deriving DecidableEq, Repr

abbrev Trace := List (Nat × Ev)

def isWr : Ev → Bool
  | .wr _ => true
  | _ => false

def onLoc (l : Nat) : Ev → Bool
  | .rd x => x == l
  | .wr x => x == l
  | _ => false

inductive hb (tr : Trace) : Nat → Nat → Prop where
  | po {i j t e e'} : i < j → tr[i]? = some (t, e) → tr[j]? = some (t, e') → hb tr i j
  | mutex {i j t u m x y} : i < j → tr[i]? = some (t, .rel x m) → tr[j]? = some (u, .acq y m) →
      (x = true ∨ y = true) → hb tr i j
  | once {i j t u k} : i < j → tr[i]? = some (t, .onceEnd k) → tr[j]? = some (u, .onceRet k) → hb tr i j
  | chan {i j t u c n} : i < j → tr[i]? = some (t, .send c n) → tr[j]? = some (u, .recv c n) → hb tr i j
  | spawn {i j t u} : i < j → tr[i]? = some (t, .go u) → tr[j]? = some (u, .start) → hb tr i j
  | trans {i j k} : hb tr i j → hb tr j k → hb tr i k

/-- two accesses to `l` by different goroutines, at least one a write, not ordered by happens-before -/
def Race (tr : Trace) (l : Nat) : Prop :=
  ∃ i j t u a b, i < j ∧ tr[i]? = some (t, a) ∧ tr[j]? = some (u, b) ∧ t ≠ u ∧
    onLoc l a = true ∧ onLoc l b = true ∧ (isWr a = true ∨ isWr b = true) ∧ ¬ hb tr i j

/-- goroutine `t` holds mutex `m` (exclusively if `x`) when event `i` happens -/
def holds (tr : Trace) (t m : Nat) (x : Bool) (i : Nat) : Prop :=
  ∃ a, a < i ∧ tr[a]? = some (t, .acq x m) ∧ ∀ b, a < b → b < i → tr[b]? ≠ some (t, .rel x m)

/-- event `i` of goroutine `t` lies inside the single run of `f` of once `k` -/
def inside (tr : Trace) (t k i : Nat) : Prop :=
  ∃ b, b < i ∧ tr[b]? = some (t, .onceBegin k) ∧ ∀ e, b < e → e < i → tr[e]? ≠ some (t, .onceEnd k)

/-- goroutine `t` has returned from a `Do` of once `k` before event `i` -/
def afterDo (tr : Trace) (t k i : Nat) : Prop := ∃ r, r < i ∧ tr[r]? = some (t, .onceRet k)

/-- what Go guarantees about the primitives (for `Once` these are exactly the theorems `once_serial` proves
of the `Once` machine: f runs at most once, and `Do` returns only after that run has completed) -/
structure WF (tr : Trace) : Prop where
  excl : ∀ (m i t u : Nat) (x : Bool), t ≠ u → holds tr t m true i → holds tr u m x i → False
  beginUnique : ∀ (k i j t u : Nat), tr[i]? = some (t, Ev.onceBegin k) → tr[j]? = some (u, Ev.onceBegin k) → i = j
  endBegin : ∀ (k e t : Nat), tr[e]? = some (t, Ev.onceEnd k) → ∃ b, b < e ∧ tr[b]? = some (t, Ev.onceBegin k)
  retEnd : ∀ (k r u : Nat), tr[r]? = some (u, Ev.onceRet k) → ∃ (e t : Nat), e < r ∧ tr[e]? = some (t, Ev.onceEnd k)

/-- the locking disciplines recognised in arr.ai's sources -/
inductive Disc where
  | once (k : Nat)     -- written only inside once k's function; read inside it or after a Do of once k returned
  | mutex (m : Nat)    -- written holding m exclusively; read holding m (shared or exclusively)
  | readonly           -- never written after publication
  deriving DecidableEq, Repr

def PostOK (tr : Trace) (d : Disc) (i t : Nat) (e : Ev) : Prop :=
  match d with
  | .once k => inside tr t k i ∨ (isWr e = false ∧ afterDo tr t k i)
  | .mutex m => holds tr t m true i ∨ (isWr e = false ∧ holds tr t m false i)
  | .readonly => isWr e = false

/-- `pub = some (c, p)`: the location is created by goroutine `c`, which may access it freely before its event
`p` (the publication: constructor return, package initialisation); everybody else sees it only after `p` -/
def Respects (tr : Trace) (l : Nat) (d : Disc) (pub : Option (Nat × Nat)) : Prop :=
  (∀ c p, pub = some (c, p) → ∃ e, tr[p]? = some (c, e)) ∧
  ∀ i t e, tr[i]? = some (t, e) → onLoc l e = true →
    (∃ c p, pub = some (c, p) ∧ t = c ∧ i < p) ∨
    ((∀ c p, pub = some (c, p) → hb tr p i) ∧ PostOK tr d i t e)

end HB

/-! ## Serial semantics of the programs of the `conc` support runs

The correspondence runs evaluate small programs over one shared value `s` from many goroutines; the property
demands that each goroutine gets the serial result.  `Conc.eval` is that serial result (a `V`, or `none` for an
evaluation error), computed from the meaning of the operators — it is the `Spec` side; the `Impl` side of a
`conc` case is the same function, because the protocols proved above make every cache transparent. -/
namespace Conc

/-- the shared value -/
inductive Shared where
  | ints (n : Nat)        -- {0, …, n-1}
  | rel (n m : Nat)       -- {(a: i, b: i % m) | i < n}          (m ≥ 1)
  | tups (n : Nat)        -- {(t: (x: i % 3, y: i), u: (z: i)) | i < n}
  deriving Repr, Inhabited

def Shared.src : Shared → String
  | .ints n => s!"//seq.repeat({n}, [0]) => .@"
  | .rel n m => s!"//seq.repeat({n}, [0]) => (a: .@, b: .@ % {m})"
  | .tups n => s!"//seq.repeat({n}, [0]) => (t: (x: .@ % 3, y: .@), u: (z: .@))"

inductive Prog where
  -- over ints
  | whereMod (m r : Nat) | whereErr (m r : Nat) | mapMod (m : Nat) | count | countWhere (m r : Nat)
  | unionShift (d : Nat) | interShift (d : Nat) | diffShift (d : Nat) | whereLt (c : Nat) | self | orderby
  -- over rel
  | rWhereA (m r : Nat) | rWhereErr (r : Nat) | rJoin | rJoinCommon | rProjB | rMapA | rNest
  -- over tups
  | tInner | tSum | tUnion | tCountWhere (r : Nat) | tMerge | tProjX
  deriving Repr, Inhabited

def Prog.src : Prog → String
  | .whereMod m r => s!"s where (. % {m} = {r})"
  | .whereErr m r => s!"s where (. % {m} = {r} && .(1))"
  | .mapMod m => s!"s => (. % {m})"
  | .count => "s count"
  | .countWhere m r => s!"(s where (. % {m} = {r})) count"
  | .unionShift d => s!"s | (s => (. + {d}))"
  | .interShift d => s!"s & (s => (. + {d}))"
  | .diffShift d => s!"s &~ (s => (. + {d}))"
  | .whereLt c => s!"s where (. < {c})"
  | .self => "s"
  | .orderby => "s orderby ."
  | .rWhereA m r => s!"s where (.a % {m} = {r})"
  | .rWhereErr r => s!"s where (.b = {r} && .a(1))"
  | .rJoin => "s <&> {|b,c| (0, 10), (1, 11)}"
  | .rJoinCommon => "s -&- {|b,c| (0, 10), (1, 11)}"
  | .rProjB => "s => (b: .b)"
  | .rMapA => "s => .a"
  | .rNest => "s nest |a|as"
  | .tInner => "s => .t"
  | .tSum => "s => (.t.x + .u.z)"
  | .tUnion => "(s => .t) | (s => .u)"
  | .tCountWhere r => s!"(s where (.t.x = {r})) count"
  | .tMerge => "s => (.t +> .u)"
  | .tProjX => "s => .t.|x|"

def num (n : Nat) : V := .num (Int.ofNat n)
def nums (l : List Nat) : V := .set (l.map num)
def rowAB (m i : Nat) : V := .tup [("a", num i), ("b", num (i % m))]
def rowT (i : Nat) : V := .tup [("x", num (i % 3)), ("y", num i)]
def rowU (i : Nat) : V := .tup [("z", num i)]

/-- serial result of `p` over the shared value; `none` = evaluation error -/
def eval (sh : Shared) (p : Prog) : Option V :=
  match sh with
  | .ints n =>
    let S := List.range n
    match p with
    | .whereMod m r => some (nums (S.filter (fun x => x % m == r)))
    | .whereErr m r => if S.any (fun x => x % m == r) then none else some (nums [])
    | .mapMod m => some (nums (S.map (· % m)))
    | .count => some (num n)
    | .countWhere m r => some (num (S.filter (fun x => x % m == r)).length)
    | .unionShift d => some (nums (S ++ S.map (· + d)))
    | .interShift d => some (nums (S.filter (fun x => decide (d ≤ x))))
    | .diffShift d => some (nums (S.filter (fun x => decide (x < d))))
    | .whereLt c => some (nums (S.filter (fun x => decide (x < c))))
    | .self => some (nums S)
    | .orderby => some (V.mkArr (S.map num))
    | _ => none
  | .rel n m =>
    let S := List.range n
    match p with
    | .rWhereA m2 r => some (.set ((S.filter (fun i => i % m2 == r)).map (rowAB m)))
    | .rWhereErr r => if S.any (fun i => i % m == r) then none else some (.set [])
    | .rJoin => some (.set ((S.filter (fun i => decide (i % m < 2))).map
        (fun i => .tup [("a", num i), ("b", num (i % m)), ("c", num (10 + i % m))])))
    | .rJoinCommon => some (.set ((S.filter (fun i => decide (i % m < 2))).map (fun i => .tup [("b", num (i % m))])))
    | .rProjB => some (.set (S.map (fun i => .tup [("b", num (i % m))])))
    | .rMapA => some (nums S)
    | .rNest => some (.set (S.map (fun i =>
        .tup [("as", .set ((S.filter (fun j => j % m == i % m)).map (fun j => .tup [("a", num j)]))),
              ("b", num (i % m))])))
    | .count => some (num n)
    | .self => some (.set (S.map (rowAB m)))
    | _ => none
  | .tups n =>
    let S := List.range n
    match p with
    | .tInner => some (.set (S.map rowT))
    | .tSum => some (nums (S.map (fun i => i % 3 + i)))
    | .tUnion => some (.set (S.map rowT ++ S.map rowU))
    | .tCountWhere r => some (num (S.filter (fun i => i % 3 == r)).length)
    | .tMerge => some (.set (S.map (fun i => .tup [("x", num (i % 3)), ("y", num i), ("z", num i)])))
    | .tProjX => some (.set (S.map (fun i => .tup [("x", num (i % 3))])))
    | .count => some (num n)
    | .self => some (.set (S.map (fun i => .tup [("t", rowT i), ("u", rowU i)])))
    | _ => none

def obs1 (sh : Shared) (p : Prog) : String :=
  match eval sh p with
  | some v => v.canon
  | none => "error"

/-- observable of a `conc` case: what every goroutine must get for every program -/
def obs (sh : Shared) (ps : List Prog) : String := " ; ".intercalate (ps.map (obs1 sh))

end Conc

/-! ## Closed form of the results of N concurrent callers of getOrAdd (the `impc` support runs)

Per key the calls of `add` happen one after the other (there is one in-flight marker): call i gives its error
or nil to exactly one caller, and the first call that returns a value serves all remaining callers. -/
namespace ImpSpec

/-- `script`: outcome letters of the successive `add` calls of one key ('e' error, 'n' nil, anything else value;
value after the script ends); `c` callers.  Result strings as printed by the harness. -/
def results (script : List Char) (c : Nat) : List String :=
  go script c 0
where
  go : List Char → Nat → Nat → List String
    | _, 0, _ => []
    | [], c + 1, i => List.replicate (c + 1) s!"v{i}"
    | o :: rest, c + 1, i =>
      if o == 'e' then s!"e{i}" :: go rest c (i + 1)
      else if o == 'n' then "nil" :: go rest c (i + 1)
      else List.replicate (c + 1) s!"v{i}"

end ImpSpec

end Arrai.C11
