/-
  C11: the hand-written expectation for the regenerated fact table `lazyState` (extract/facts_c11.go),
  read off the pinned tree *after* the repair of the captured `err` in GenericSet.Where /
  positionalRelation.Where, and the classification of every row into a locking discipline of
  `Arrai.C11.HB`.  Core-only.

  Row = (kind, location, guard sets of the writes, guard sets of the reads ([] = an unguarded read), writers).
    guards: ("once", k)   inside the function literal passed to k.Do
            ("after", k)  after a statement k.Do(...) of the same function
            ("mutex", m)  between m.Lock() and m.Unlock();  ("rmutex", m) between m.RLock() and m.RUnlock()
            ("init", "")  in a function that is called from package-level initialisers only
-/
namespace Arrai.C11.Expected

abbrev Guard := String × String
abbrev Row := String × String × List (List Guard) × List (List Guard) × List String

set_option synthInstance.maxSize 2000 in
instance instDecEqRow : DecidableEq Row := inferInstance

def lazyState : List Row := [
  ("state", "pkg/ctxfs.defaultFs", [[]], [[]], ["SetDefaultFs"]),
  ("state", "pkg/deprecate.sleepDuration", [[("once", "sleepDurationSync")]], [[("after", "sleepDurationSync")]], ["delayDuration"]),
  ("state", "pkg/deprecate.sourceContextCache.m", [[("mutex", "d")]], [[("rmutex", "d")]], ["sourceContextCache.encountered"]),
  ("state", "pkg/importcache.importCache.cache", [[("mutex", "mutex")]], [[("mutex", "mutex")]], ["importCache.getOrAdd"]),
  ("state", "rel.GenericTuple.cachedBucket", [[("once", "cachedBucketOnce")]], [[("after", "cachedBucketOnce")]], ["GenericTuple.getBucket"]),
  ("state", "rel.GenericTuple.cachedNames", [[("once", "cachedNamesOnce")]], [[("after", "cachedNamesOnce")]], ["GenericTuple.Names"]),
  ("state", "rel.GenericTuple.names", [[("once", "orderNamesOnce")]], [[("after", "orderNamesOnce")], [("once", "orderNamesOnce")]], ["TupleOrderedNames"]),
  ("state", "rel.firstError.err", [[("mutex", "mu")]], [[("mutex", "mu")]], ["firstError.set"]),
  ("state", "rel.kinds", [[("init", "")]], [[("init", "")]], ["registerKind"]),
  ("state", "rel.positionalRelation.meta", [[("once", "once")]], [[("after", "once")]], ["positionalRelation.getMeta"]),
  ("state", "rel.positionalRelationMetadata.indices", [[("mutex", "prm")]], [[("mutex", "prm")]], ["positionalRelationMetadata.computeIndex"]),
  ("state", "syntax.embeddedFileCache", [[("mutex", "embeddedFileMutex")]], [[("mutex", "embeddedFileMutex")]], ["mustReadEmbeddedFile"]),
  ("state", "syntax.fix", [[("once", "fixOnce")]], [[("after", "fixOnce")]], ["FixFuncs"]),
  ("state", "syntax.fixt", [[("once", "fixOnce")]], [[("after", "fixOnce")]], ["FixFuncs"]),
  ("state", "syntax.implicitDecode", [[("once", "implicitDecoderSyncOnce")]], [[("after", "implicitDecoderSyncOnce")]], ["implicitDecoder"]),
  ("state", "syntax.stdOsStdin.bytes", [[("mutex", "mutex")]], [[("mutex", "mutex")]], ["stdOsStdin.read", "stdOsStdin.reset"]),
  ("state", "syntax.stdOsStdin.reader", [[("mutex", "mutex")]], [[("mutex", "mutex")]], ["stdOsStdin.reset"]),
  ("state", "syntax.stdSafeScopeVar", [[("once", "stdSafeScopeOnce")]], [[("after", "stdSafeScopeOnce")]], ["SafeStdScope"]),
  ("state", "syntax.stdUnsafeScopeVar", [[("once", "stdUnsafeScopeOnce")]], [[("after", "stdUnsafeScopeOnce")]], ["StdScope"])
]

/-- locations that are assigned only by an exported configuration function which an embedding host has to call
before it starts evaluating (an assumption of this check, listed in the evidence): (location, the setter) -/
def hostSetup : List (String × String) := [("pkg/ctxfs.defaultFs", "SetDefaultFs")]

inductive Kind where
  | once (k : String)      -- HB.Disc.once: written inside k.Do's function only, read inside it or after a k.Do
  | mutex (m : String)     -- HB.Disc.mutex: written under m.Lock, read under m.Lock or m.RLock
  | init                   -- HB.Disc.readonly after publication: written during package initialisation only
  | setup                  -- HB.Disc.readonly after publication: written by the host before it starts evaluating
  deriving DecidableEq, Repr

def hasGuard (k n : String) (set : List Guard) : Bool := set.any (fun x => x.1 == k && x.2 == n)

/-- the discipline a row follows, if any; `none` = an unsynchronised access exists -/
def classify (r : Row) : Option Kind :=
  let kind := r.1
  let loc := r.2.1
  let ws := r.2.2.1
  let rs := r.2.2.2.1
  let writers := r.2.2.2.2
  if kind != "state" then
    -- a variable captured by a callback that may run on other goroutines and assigned there:
    -- acceptable only if every assignment holds one and the same mutex
    match ws with
    | (("mutex", m) :: _) :: _ =>
      if ws.all (hasGuard "mutex" m) && rs.all (hasGuard "mutex" m) then some (.mutex m) else none
    | _ => none
  else
    match ws with
    | (("once", k) :: _) :: _ =>
      if ws.all (hasGuard "once" k) && rs.all (fun s => hasGuard "after" k s || hasGuard "once" k s)
      then some (.once k) else none
    | (("mutex", m) :: _) :: _ =>
      if ws.all (hasGuard "mutex" m) && rs.all (fun s => hasGuard "mutex" m s || hasGuard "rmutex" m s)
      then some (.mutex m) else none
    | (("init", _) :: _) :: _ =>
      if ws.all (hasGuard "init" "") && rs.all (hasGuard "init" "") then some .init else none
    | _ =>
      if writers.all (fun w => hostSetup.any (fun p => p.1 == loc && p.2 == w)) && !writers.isEmpty
      then some .setup else none

/-! ### compute-and-store under a mutex: does the guarded region span the computation?

Row = (mutex-guarded location, storing function, a call the stored value is computed from (through local
variables, transitively), whether the mutex that guards the store is held during that call). -/
def lazyCompute : List (String × String × String × Bool) := [
  ("pkg/importcache.importCache.cache", "importCache.getOrAdd", "add", false),
  ("rel.positionalRelationMetadata.indices", "positionalRelationMetadata.computeIndex", "fn", true),
  ("rel.positionalRelationMetadata.indices", "positionalRelationMetadata.computeIndex", "prm.indices.Get", true),
  ("rel.positionalRelationMetadata.indices", "positionalRelationMetadata.computeIndex", "prm.indices.With", true),
  ("syntax.embeddedFileCache", "mustReadEmbeddedFile", "bindata.Open", true),
  ("syntax.embeddedFileCache", "mustReadEmbeddedFile", "io.ReadAll", true),
  ("syntax.stdOsStdin.bytes", "stdOsStdin.read", "io.ReadAll", true),
  ("syntax.stdOsStdin.bytes", "stdOsStdin.read", "rel.NewBytes", true)
]

/-- stores whose value is computed with the lock released *on purpose*: the protocol first publishes an in-flight
marker under the lock and makes later callers wait for it — proved separately (the GetOrAdd machine) -/
def inflightProtocols : List (String × String) := [("pkg/importcache.importCache.cache", "importCache.getOrAdd")]

/-- the lock that guards the store is held while the stored value is computed (the premise of `index_serial` and
`stdin_serial`), or the function is one of the in-flight-marker protocols -/
def computeOK (r : String × String × String × Bool) : Bool :=
  r.2.2.2 || inflightProtocols.any (fun p => p.1 == r.1 && p.2 == r.2.1)

end Arrai.C11.Expected
