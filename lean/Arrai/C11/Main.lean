import Arrai.Core.DriverMain
import Arrai.C11.Gen

def main (args : List String) : IO UInt32 := Arrai.driverMain Arrai.C11.gen args
