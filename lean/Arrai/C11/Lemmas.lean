/-
  C11 helper lemmas: inductive invariants of the protocol machines of `Arrai.C11.Model`,
  each proved preserved by every step of every thread (hence by every schedule).
-/
import Arrai.C11.Model

set_option linter.unusedSimpArgs false
set_option linter.unusedVariables false

namespace Arrai.C11

/-! ## Once -/
namespace Once

def inCS : PC → Bool
  | .chk | .run | .store | .setdone | .unlock => true
  | _ => false

structure Inv {α : Type} (v : α) (s : St α) : Prop where
  cs : ∀ t, inCS (s.pc t) = true ↔ s.mu = some t
  done : s.done = true → s.cache = some v ∧ s.runs = 1
  free : s.mu = none → s.done = false → s.runs = 0 ∧ s.cache = none
  chk : ∀ t, s.pc t = .chk → s.done = false → s.runs = 0 ∧ s.cache = none
  run : ∀ t, s.pc t = .run → s.done = false ∧ s.runs = 0 ∧ s.cache = none
  store : ∀ t, s.pc t = .store → s.done = false ∧ s.runs = 1
  setdone : ∀ t, s.pc t = .setdone → s.cache = some v ∧ s.runs = 1
  unlock : ∀ t, s.pc t = .unlock → s.done = true
  ret : ∀ t, s.pc t = .ret → s.done = true
  fin : ∀ t, s.pc t = .fin → s.res t = some (some v)

theorem inv_init {α : Type} (v : α) : Inv v (init : St α) := by
  constructor <;> simp [init, inCS]

/-- two different threads are never both inside the critical section -/
theorem Inv.excl {α : Type} {v : α} {s : St α} (h : Inv v s) {t u : Nat}
    (ht : inCS (s.pc t) = true) (hu : inCS (s.pc u) = true) : u = t := by
  have a := (h.cs t).1 ht
  have b := (h.cs u).1 hu
  rw [a] at b
  exact (Option.some.inj b).symm

theorem inv_step {α : Type} (v : α) (s : St α) (t : Nat) (h : Inv v s) : Inv v (step v s t) := by
  unfold step
  split
  next hp =>  -- fast
    have hncs : ¬ s.mu = some t := by
      intro hm; have := (h.cs t).2 hm; simp [hp, inCS] at this
    constructor
    · intro u
      by_cases hu : u = t
      · subst hu; cases hd : s.done <;> simp [hd, inCS, hncs]
      · simp [hu]; exact h.cs u
    · exact h.done
    · exact h.free
    · intro u; by_cases hu : u = t
      · subst hu; cases hd : s.done <;> simp [hd]
      · simp [hu]; exact h.chk u
    · intro u; by_cases hu : u = t
      · subst hu; cases hd : s.done <;> simp [hd]
      · simp [hu]; exact h.run u
    · intro u; by_cases hu : u = t
      · subst hu; cases hd : s.done <;> simp [hd]
      · simp [hu]; exact h.store u
    · intro u; by_cases hu : u = t
      · subst hu; cases hd : s.done <;> simp [hd]
      · simp [hu]; exact h.setdone u
    · intro u; by_cases hu : u = t
      · subst hu; cases hd : s.done <;> simp [hd]
      · simp [hu]; exact h.unlock u
    · intro u; by_cases hu : u = t
      · subst hu; cases hd : s.done <;> simp [hd]
      · simp [hu]; exact h.ret u
    · intro u; by_cases hu : u = t
      · subst hu; cases hd : s.done <;> simp [hd]
      · simp [hu]; exact h.fin u
  next hp =>  -- lock
    split
    next hm =>
      have hfree := h.free hm
      have nocs : ∀ u, inCS (s.pc u) = false := by
        intro u
        cases hc : inCS (s.pc u) with
        | false => rfl
        | true => have := (h.cs u).1 hc; rw [hm] at this; cases this
      constructor
      · intro u
        by_cases hu : u = t
        · subst hu; simp [inCS]
        · simp [hu, nocs u]; intro hh; exact hu hh.symm
      · exact h.done
      · intro hh; cases hh
      · intro u; by_cases hu : u = t
        · subst hu; intro _ hd; exact hfree hd
        · simp [hu]; exact h.chk u
      · intro u; by_cases hu : u = t
        · subst hu; simp
        · simp [hu]; exact h.run u
      · intro u; by_cases hu : u = t
        · subst hu; simp
        · simp [hu]; exact h.store u
      · intro u; by_cases hu : u = t
        · subst hu; simp
        · simp [hu]; exact h.setdone u
      · intro u; by_cases hu : u = t
        · subst hu; simp
        · simp [hu]; exact h.unlock u
      · intro u; by_cases hu : u = t
        · subst hu; simp
        · simp [hu]; exact h.ret u
      · intro u; by_cases hu : u = t
        · subst hu; simp
        · simp [hu]; exact h.fin u
    next => exact h
  next hp =>  -- chk
    have hcs : s.mu = some t := (h.cs t).1 (by simp [hp, inCS])
    have hchk := h.chk t hp
    constructor
    · intro u
      by_cases hu : u = t
      · subst hu; cases hd : s.done <;> simp [hd, inCS, hcs]
      · simp [hu]; exact h.cs u
    · exact h.done
    · exact h.free
    · intro u; by_cases hu : u = t
      · subst hu; cases hd : s.done <;> simp [hd]
      · simp [hu]; exact h.chk u
    · intro u; by_cases hu : u = t
      · subst hu; cases hd : s.done <;> simp [hd]
        exact hchk hd
      · simp [hu]; exact h.run u
    · intro u; by_cases hu : u = t
      · subst hu; cases hd : s.done <;> simp [hd]
      · simp [hu]; exact h.store u
    · intro u; by_cases hu : u = t
      · subst hu; cases hd : s.done <;> simp [hd]
      · simp [hu]; exact h.setdone u
    · intro u; by_cases hu : u = t
      · subst hu; cases hd : s.done <;> simp [hd]
      · simp [hu]; exact h.unlock u
    · intro u; by_cases hu : u = t
      · subst hu; cases hd : s.done <;> simp [hd]
      · simp [hu]; exact h.ret u
    · intro u; by_cases hu : u = t
      · subst hu; cases hd : s.done <;> simp [hd]
      · simp [hu]; exact h.fin u
  next hp =>  -- run
    have hcs : s.mu = some t := (h.cs t).1 (by simp [hp, inCS])
    obtain ⟨hd, hr, hc⟩ := h.run t hp
    have others : ∀ u, u ≠ t → inCS (s.pc u) = false := by
      intro u hu
      cases hc : inCS (s.pc u) with
      | false => rfl
      | true => exact absurd (h.excl (by simp [hp, inCS]) hc) hu
    constructor
    · intro u
      by_cases hu : u = t
      · subst hu; simp [inCS, hcs]
      · simp [hu]; exact h.cs u
    · intro hh; simp [hd] at hh
    · intro hm; simp [hcs] at hm
    · intro u; by_cases hu : u = t
      · subst hu; simp
      · simp [hu]; intro hpu; have := others u hu; simp [hpu, inCS] at this
    · intro u; by_cases hu : u = t
      · subst hu; simp
      · simp [hu]; intro hpu; have := others u hu; simp [hpu, inCS] at this
    · intro u; by_cases hu : u = t
      · subst hu; simp [hd, hr]
      · simp [hu]; intro hpu; have := others u hu; simp [hpu, inCS] at this
    · intro u; by_cases hu : u = t
      · subst hu; simp
      · simp [hu]; intro hpu; have := others u hu; simp [hpu, inCS] at this
    · intro u; by_cases hu : u = t
      · subst hu; simp
      · simp [hu]; exact h.unlock u
    · intro u; by_cases hu : u = t
      · subst hu; simp
      · simp [hu]; exact h.ret u
    · intro u; by_cases hu : u = t
      · subst hu; simp
      · simp [hu]; exact h.fin u
  next hp =>  -- store
    have hcs : s.mu = some t := (h.cs t).1 (by simp [hp, inCS])
    obtain ⟨hd, hr⟩ := h.store t hp
    have others : ∀ u, u ≠ t → inCS (s.pc u) = false := by
      intro u hu
      cases hc : inCS (s.pc u) with
      | false => rfl
      | true => exact absurd (h.excl (by simp [hp, inCS]) hc) hu
    constructor
    · intro u
      by_cases hu : u = t
      · subst hu; simp [inCS, hcs]
      · simp [hu]; exact h.cs u
    · intro hh; simp [hd] at hh
    · intro hm; simp [hcs] at hm
    · intro u; by_cases hu : u = t
      · subst hu; simp
      · simp [hu]; intro hpu; have := others u hu; simp [hpu, inCS] at this
    · intro u; by_cases hu : u = t
      · subst hu; simp
      · simp [hu]; intro hpu; have := others u hu; simp [hpu, inCS] at this
    · intro u; by_cases hu : u = t
      · subst hu; simp
      · simp [hu]; intro hpu; have := others u hu; simp [hpu, inCS] at this
    · intro u; by_cases hu : u = t
      · subst hu; simp [hr]
      · simp [hu]; intro hpu; have := others u hu; simp [hpu, inCS] at this
    · intro u; by_cases hu : u = t
      · subst hu; simp
      · simp [hu]; exact h.unlock u
    · intro u; by_cases hu : u = t
      · subst hu; simp
      · simp [hu]; exact h.ret u
    · intro u; by_cases hu : u = t
      · subst hu; simp
      · simp [hu]; exact h.fin u
  next hp =>  -- setdone
    have hcs : s.mu = some t := (h.cs t).1 (by simp [hp, inCS])
    obtain ⟨hc, hr⟩ := h.setdone t hp
    have others : ∀ u, u ≠ t → inCS (s.pc u) = false := by
      intro u hu
      cases hc : inCS (s.pc u) with
      | false => rfl
      | true => exact absurd (h.excl (by simp [hp, inCS]) hc) hu
    constructor
    · intro u
      by_cases hu : u = t
      · subst hu; simp [inCS, hcs]
      · simp [hu]; exact h.cs u
    · intro _; exact ⟨hc, hr⟩
    · intro hm; simp [hcs] at hm
    · intro u; by_cases hu : u = t
      · subst hu; simp
      · simp [hu]
    · intro u; by_cases hu : u = t
      · subst hu; simp
      · simp [hu]; intro hpu; have := others u hu; simp [hpu, inCS] at this
    · intro u; by_cases hu : u = t
      · subst hu; simp
      · simp [hu]; intro hpu; have := others u hu; simp [hpu, inCS] at this
    · intro u; by_cases hu : u = t
      · subst hu; simp
      · simp [hu]; intro hpu; have := others u hu; simp [hpu, inCS] at this
    · intro u; by_cases hu : u = t
      · subst hu; simp
      · simp [hu]
    · intro u; by_cases hu : u = t
      · subst hu; simp
      · simp [hu]
    · intro u; by_cases hu : u = t
      · subst hu; simp
      · simp [hu]; exact h.fin u
  next hp =>  -- unlock
    have hcs : s.mu = some t := (h.cs t).1 (by simp [hp, inCS])
    have hd := h.unlock t hp
    have others : ∀ u, u ≠ t → inCS (s.pc u) = false := by
      intro u hu
      cases hc : inCS (s.pc u) with
      | false => rfl
      | true => exact absurd (h.excl (by simp [hp, inCS]) hc) hu
    constructor
    · intro u
      by_cases hu : u = t
      · subst hu; simp [inCS]
      · simp [hu, others u hu]
    · exact h.done
    · intro _ hh; simp [hd] at hh
    · intro u; by_cases hu : u = t
      · subst hu; simp
      · simp [hu]; intro hpu; have := others u hu; simp [hpu, inCS] at this
    · intro u; by_cases hu : u = t
      · subst hu; simp
      · simp [hu]; exact h.run u
    · intro u; by_cases hu : u = t
      · subst hu; simp
      · simp [hu]; exact h.store u
    · intro u; by_cases hu : u = t
      · subst hu; simp
      · simp [hu]; exact h.setdone u
    · intro u; by_cases hu : u = t
      · subst hu; simp
      · simp [hu]; exact h.unlock u
    · intro u; by_cases hu : u = t
      · subst hu; simp [hd]
      · simp [hu]; exact h.ret u
    · intro u; by_cases hu : u = t
      · subst hu; simp
      · simp [hu]; exact h.fin u
  next hp =>  -- ret
    have hncs : ¬ s.mu = some t := by
      intro hm; have := (h.cs t).2 hm; simp [hp, inCS] at this
    have hd := h.ret t hp
    have hc := (h.done hd).1
    constructor
    · intro u
      by_cases hu : u = t
      · subst hu; simp [inCS, hncs]
      · simp [hu]; exact h.cs u
    · exact h.done
    · exact h.free
    · intro u; by_cases hu : u = t
      · subst hu; simp
      · simp [hu]; exact h.chk u
    · intro u; by_cases hu : u = t
      · subst hu; simp
      · simp [hu]; exact h.run u
    · intro u; by_cases hu : u = t
      · subst hu; simp
      · simp [hu]; exact h.store u
    · intro u; by_cases hu : u = t
      · subst hu; simp
      · simp [hu]; exact h.setdone u
    · intro u; by_cases hu : u = t
      · subst hu; simp
      · simp [hu]; exact h.unlock u
    · intro u; by_cases hu : u = t
      · subst hu; simp
      · simp [hu]; exact h.ret u
    · intro u; by_cases hu : u = t
      · subst hu; simp [hc]
      · simp [hu]; exact h.fin u
  next => exact h

theorem inv_run {α : Type} (v : α) (sched : List Nat) (s : St α) (h : Inv v s) : Inv v (run v sched s) := by
  induction sched generalizing s with
  | nil => exact h
  | cons t r ih => exact ih _ (inv_step v s t h)

theorem Inv.runs_le {α : Type} {v : α} {s : St α} (h : Inv v s) : s.runs ≤ 1 := by
  cases hd : s.done with
  | true => have := (h.done hd).2; omega
  | false =>
    cases hm : s.mu with
    | none => have := (h.free hm hd).1; omega
    | some t =>
      have hcs := (h.cs t).2 hm
      cases hp : s.pc t <;> simp [hp, inCS] at hcs
      · have := (h.chk t hp hd).1; omega
      · have := (h.run t hp).2.1; omega
      · have := (h.store t hp).2; omega
      · have := (h.setdone t hp).2; omega
      · have := h.unlock t hp; simp [hd] at this

end Once

/-! ## Keyed -/
namespace Keyed

def inCS : PC → Bool
  | .look | .compute | .store | .unlock => true
  | _ => false

structure Inv {α : Type} (f : Nat → α) (key : Nat → Nat) (s : St α) : Prop where
  cs : ∀ t, inCS (s.pc t) = true ↔ s.mu = some t
  hit : ∀ k x, s.idx k = some x → x = f k ∧ s.runs k = 1
  miss : ∀ k, s.idx k = none → s.runs k = 0 ∨ ∃ t, s.pc t = .store ∧ key t = k
  compute : ∀ t, s.pc t = .compute → s.idx (key t) = none ∧ s.runs (key t) = 0
  store : ∀ t, s.pc t = .store → s.tmp t = some (f (key t)) ∧ s.idx (key t) = none ∧ s.runs (key t) = 1
  unlock : ∀ t, s.pc t = .unlock → s.tmp t = some (f (key t))
  fin : ∀ t, s.pc t = .fin → s.res t = some (f (key t))

theorem inv_init {α : Type} (f : Nat → α) (key : Nat → Nat) : Inv f key (init : St α) := by
  constructor <;> simp [init, inCS]

theorem Inv.excl {α : Type} {f : Nat → α} {key : Nat → Nat} {s : St α} (h : Inv f key s) {t u : Nat}
    (ht : inCS (s.pc t) = true) (hu : inCS (s.pc u) = true) : u = t := by
  have a := (h.cs t).1 ht
  have b := (h.cs u).1 hu
  rw [a] at b
  exact (Option.some.inj b).symm

theorem inv_step {α : Type} (f : Nat → α) (key : Nat → Nat) (s : St α) (t : Nat) (h : Inv f key s) :
    Inv f key (step f key s t) := by
  unfold step
  split
  next hp =>  -- lock
    split
    next hm =>
      have nocs : ∀ u, inCS (s.pc u) = false := by
        intro u
        cases hc : inCS (s.pc u) with
        | false => rfl
        | true => have := (h.cs u).1 hc; rw [hm] at this; cases this
      constructor
      · intro u
        by_cases hu : u = t
        · subst hu; simp [inCS]
        · simp [hu, nocs u]; intro hh; exact hu hh.symm
      · exact h.hit
      · intro k hk
        rcases h.miss k hk with h0 | ⟨w, hw, hkw⟩
        · exact Or.inl h0
        · have := nocs w; simp [hw, inCS] at this
      · intro u; by_cases hu : u = t
        · subst hu; simp
        · simp [hu]; exact h.compute u
      · intro u; by_cases hu : u = t
        · subst hu; simp
        · simp [hu]; exact h.store u
      · intro u; by_cases hu : u = t
        · subst hu; simp
        · simp [hu]; exact h.unlock u
      · intro u; by_cases hu : u = t
        · subst hu; simp
        · simp [hu]; exact h.fin u
    next => exact h
  next hp =>  -- look
    have hcs : s.mu = some t := (h.cs t).1 (by simp [hp, inCS])
    have others : ∀ u, u ≠ t → inCS (s.pc u) = false := by
      intro u hu
      cases hc : inCS (s.pc u) with
      | false => rfl
      | true => exact absurd (h.excl (by simp [hp, inCS]) hc) hu
    have nostore : ∀ w, s.pc w = .store → False := by
      intro w hw
      by_cases hwt : w = t
      · subst hwt; rw [hp] at hw; cases hw
      · have := others w hwt; simp [hw, inCS] at this
    split
    next x hx =>
      constructor
      · intro u
        by_cases hu : u = t
        · subst hu; simp [inCS, hcs]
        · simp [hu]; exact h.cs u
      · exact h.hit
      · intro k hk
        rcases h.miss k hk with h0 | ⟨w, hw, _⟩
        · exact Or.inl h0
        · exact (nostore w hw).elim
      · intro u; by_cases hu : u = t
        · subst hu; simp
        · simp [hu]; exact h.compute u
      · intro u; by_cases hu : u = t
        · subst hu; simp
        · simp [hu]; exact h.store u
      · intro u; by_cases hu : u = t
        · subst hu; simp; exact (h.hit _ _ hx).1
        · simp [hu]; exact h.unlock u
      · intro u; by_cases hu : u = t
        · subst hu; simp
        · simp [hu]; exact h.fin u
    next hx =>
      constructor
      · intro u
        by_cases hu : u = t
        · subst hu; simp [inCS, hcs]
        · simp [hu]; exact h.cs u
      · exact h.hit
      · intro k hk
        rcases h.miss k hk with h0 | ⟨w, hw, _⟩
        · exact Or.inl h0
        · exact (nostore w hw).elim
      · intro u; by_cases hu : u = t
        · subst hu; simp
          refine ⟨hx, ?_⟩
          rcases h.miss _ hx with h0 | ⟨w, hw, _⟩
          · exact h0
          · exact (nostore w hw).elim
        · simp [hu]; exact h.compute u
      · intro u; by_cases hu : u = t
        · subst hu; simp
        · simp [hu]; exact h.store u
      · intro u; by_cases hu : u = t
        · subst hu; simp
        · simp [hu]; exact h.unlock u
      · intro u; by_cases hu : u = t
        · subst hu; simp
        · simp [hu]; exact h.fin u
  next hp =>  -- compute
    have hcs : s.mu = some t := (h.cs t).1 (by simp [hp, inCS])
    obtain ⟨hx, hr⟩ := h.compute t hp
    have others : ∀ u, u ≠ t → inCS (s.pc u) = false := by
      intro u hu
      cases hc : inCS (s.pc u) with
      | false => rfl
      | true => exact absurd (h.excl (by simp [hp, inCS]) hc) hu
    have nostore : ∀ w, s.pc w = .store → False := by
      intro w hw
      by_cases hwt : w = t
      · subst hwt; rw [hp] at hw; cases hw
      · have := others w hwt; simp [hw, inCS] at this
    constructor
    · intro u
      by_cases hu : u = t
      · subst hu; simp [inCS, hcs]
      · simp [hu]; exact h.cs u
    · intro k x hk
      by_cases hkk : k = key t
      · subst hkk; simp at hk; rw [hx] at hk; cases hk
      · simp [hkk]; exact h.hit k x hk
    · intro k hk
      by_cases hkk : k = key t
      · subst hkk; exact Or.inr ⟨t, by simp, rfl⟩
      · simp [hkk]
        rcases h.miss k hk with h0 | ⟨w, hw, _⟩
        · exact Or.inl h0
        · exact (nostore w hw).elim
    · intro u; by_cases hu : u = t
      · subst hu; simp
      · simp [hu]; intro hpu; have := others u hu; simp [hpu, inCS] at this
    · intro u; by_cases hu : u = t
      · subst hu; simp [hx, hr]
      · simp [hu]; intro hpu; have := others u hu; simp [hpu, inCS] at this
    · intro u; by_cases hu : u = t
      · subst hu; simp
      · simp [hu]; exact h.unlock u
    · intro u; by_cases hu : u = t
      · subst hu; simp
      · simp [hu]; exact h.fin u
  next hp =>  -- store
    have hcs : s.mu = some t := (h.cs t).1 (by simp [hp, inCS])
    obtain ⟨htmp, hx, hr⟩ := h.store t hp
    have others : ∀ u, u ≠ t → inCS (s.pc u) = false := by
      intro u hu
      cases hc : inCS (s.pc u) with
      | false => rfl
      | true => exact absurd (h.excl (by simp [hp, inCS]) hc) hu
    constructor
    · intro u
      by_cases hu : u = t
      · subst hu; simp [inCS, hcs]
      · simp [hu]; exact h.cs u
    · intro k x hk
      by_cases hkk : k = key t
      · subst hkk; simp [htmp] at hk; exact ⟨hk.symm, hr⟩
      · simp [hkk] at hk; exact h.hit k x hk
    · intro k hk
      by_cases hkk : k = key t
      · subst hkk; simp [htmp] at hk
      · simp [hkk] at hk
        rcases h.miss k hk with h0 | ⟨w, hw, hkw⟩
        · exact Or.inl h0
        · by_cases hwt : w = t
          · subst hwt; exact absurd hkw.symm hkk
          · have := others w hwt; simp [hw, inCS] at this
    · intro u; by_cases hu : u = t
      · subst hu; simp
      · simp [hu]; intro hpu; have := others u hu; simp [hpu, inCS] at this
    · intro u; by_cases hu : u = t
      · subst hu; simp
      · simp [hu]; intro hpu; have := others u hu; simp [hpu, inCS] at this
    · intro u; by_cases hu : u = t
      · subst hu; simp [htmp]
      · simp [hu]; exact h.unlock u
    · intro u; by_cases hu : u = t
      · subst hu; simp
      · simp [hu]; exact h.fin u
  next hp =>  -- unlock
    have hcs : s.mu = some t := (h.cs t).1 (by simp [hp, inCS])
    have htmp := h.unlock t hp
    have others : ∀ u, u ≠ t → inCS (s.pc u) = false := by
      intro u hu
      cases hc : inCS (s.pc u) with
      | false => rfl
      | true => exact absurd (h.excl (by simp [hp, inCS]) hc) hu
    constructor
    · intro u
      by_cases hu : u = t
      · subst hu; simp [inCS]
      · simp [hu, others u hu]
    · exact h.hit
    · intro k hk
      rcases h.miss k hk with h0 | ⟨w, hw, hkw⟩
      · exact Or.inl h0
      · by_cases hwt : w = t
        · subst hwt; rw [hp] at hw; cases hw
        · have := others w hwt; simp [hw, inCS] at this
    · intro u; by_cases hu : u = t
      · subst hu; simp
      · simp [hu]; exact h.compute u
    · intro u; by_cases hu : u = t
      · subst hu; simp
      · simp [hu]; exact h.store u
    · intro u; by_cases hu : u = t
      · subst hu; simp
      · simp [hu]; exact h.unlock u
    · intro u; by_cases hu : u = t
      · subst hu; simp [htmp]
      · simp [hu]; exact h.fin u
  next => exact h

theorem inv_run {α : Type} (f : Nat → α) (key : Nat → Nat) (sched : List Nat) (s : St α) (h : Inv f key s) :
    Inv f key (run f key sched s) := by
  induction sched generalizing s with
  | nil => exact h
  | cons t r ih => exact ih _ (inv_step f key s t h)

theorem Inv.runs_le {α : Type} {f : Nat → α} {key : Nat → Nat} {s : St α} (h : Inv f key s) (k : Nat) :
    s.runs k ≤ 1 := by
  cases hx : s.idx k with
  | some x => have := (h.hit k x hx).2; omega
  | none =>
    rcases h.miss k hx with h0 | ⟨w, hw, hkw⟩
    · omega
    · have := (h.store w hw).2.2; rw [hkw] at this; omega

end Keyed

/-! ## Stream (the lock spans the draining of the reader) -/
namespace Stream

def inCS : PC → Bool
  | .look | .drain | .store | .unlock => true
  | _ => false

structure Inv (W : List Nat) (s : St) : Prop where
  cs : ∀ t, inCS (s.pc t) = true ↔ s.mu = some t
  hit : ∀ x, s.cache = some x → x = W ∧ s.runs = 1
  free : s.mu = none → s.cache = none → s.src.flatten = W ∧ s.runs = 0
  fresh : ∀ t, (s.pc t = .lock ∨ s.pc t = .look) → s.acc t = []
  look : ∀ t, s.pc t = .look → s.cache = none → s.src.flatten = W ∧ s.runs = 0
  drain : ∀ t, s.pc t = .drain → s.cache = none ∧ s.acc t ++ s.src.flatten = W ∧ s.runs = 1
  store : ∀ t, s.pc t = .store → s.cache = none ∧ s.acc t = W ∧ s.runs = 1
  unlock : ∀ t, s.pc t = .unlock → s.tmp t = some W ∧ s.cache = some W
  fin : ∀ t, s.pc t = .fin → s.res t = some W
  norelock : ∀ t, s.pc t ≠ .relock

theorem inv_init (chunks : List (List Nat)) : Inv chunks.flatten (init chunks) := by
  constructor <;> simp [init, inCS]

theorem Inv.excl {W : List Nat} {s : St} (h : Inv W s) {t u : Nat}
    (ht : inCS (s.pc t) = true) (hu : inCS (s.pc u) = true) : u = t := by
  have a := (h.cs t).1 ht
  have b := (h.cs u).1 hu
  rw [a] at b
  exact (Option.some.inj b).symm

theorem inv_step (W : List Nat) (s : St) (t : Nat) (h : Inv W s) : Inv W (step true s t) := by
  unfold step
  split
  next hp =>  -- lock
    split
    next hm =>
      have nocs : ∀ u, inCS (s.pc u) = false := by
        intro u
        cases hc : inCS (s.pc u) with
        | false => rfl
        | true => have := (h.cs u).1 hc; rw [hm] at this; cases this
      constructor
      · intro u
        by_cases hu : u = t
        · subst hu; simp [inCS]
        · simp [hu, nocs u]; intro hh; exact hu hh.symm
      · exact h.hit
      · intro hh; cases hh
      · intro u; by_cases hu : u = t
        · subst hu; simp; exact h.fresh u (Or.inl hp)
        · simp [hu]; exact h.fresh u
      · intro u; by_cases hu : u = t
        · subst hu; intro _ hc; exact h.free hm hc
        · simp [hu]; exact h.look u
      · intro u; by_cases hu : u = t
        · subst hu; simp
        · simp [hu]; exact h.drain u
      · intro u; by_cases hu : u = t
        · subst hu; simp
        · simp [hu]; exact h.store u
      · intro u; by_cases hu : u = t
        · subst hu; simp
        · simp [hu]; exact h.unlock u
      · intro u; by_cases hu : u = t
        · subst hu; simp
        · simp [hu]; exact h.fin u
      · intro u; by_cases hu : u = t
        · subst hu; simp
        · simp [hu]; exact h.norelock u
    next => exact h
  next hp =>  -- look
    have hcs : s.mu = some t := (h.cs t).1 (by simp [hp, inCS])
    have others : ∀ u, u ≠ t → inCS (s.pc u) = false := by
      intro u hu
      cases hc : inCS (s.pc u) with
      | false => rfl
      | true => exact absurd (h.excl (by simp [hp, inCS]) hc) hu
    split
    next x hx =>  -- cached
      have hxW := (h.hit x hx).1
      constructor
      · intro u
        by_cases hu : u = t
        · subst hu; simp [inCS, hcs]
        · simp [hu]; exact h.cs u
      · exact h.hit
      · exact h.free
      · intro u; by_cases hu : u = t
        · subst hu; simp
        · simp [hu]; exact h.fresh u
      · intro u; by_cases hu : u = t
        · subst hu; simp
        · simp [hu]; exact h.look u
      · intro u; by_cases hu : u = t
        · subst hu; simp
        · simp [hu]; exact h.drain u
      · intro u; by_cases hu : u = t
        · subst hu; simp
        · simp [hu]; exact h.store u
      · intro u; by_cases hu : u = t
        · subst hu; simp [hx, hxW]
        · simp [hu]; exact h.unlock u
      · intro u; by_cases hu : u = t
        · subst hu; simp
        · simp [hu]; exact h.fin u
      · intro u; by_cases hu : u = t
        · subst hu; simp
        · simp [hu]; exact h.norelock u
    next hx =>  -- miss: start draining, the lock stays held
      obtain ⟨hsrc, hr0⟩ := h.look t hp hx
      have hacc := h.fresh t (Or.inr hp)
      constructor
      · intro u
        by_cases hu : u = t
        · subst hu; simp [inCS, hcs]
        · simp [hu]; exact h.cs u
      · intro x hxx; simp at hxx; rw [hx] at hxx; cases hxx
      · intro hm; simp [hcs] at hm
      · intro u; by_cases hu : u = t
        · subst hu; simp
        · simp [hu]; exact h.fresh u
      · intro u; by_cases hu : u = t
        · subst hu; simp
        · simp [hu]; intro hpu; have := others u hu; simp [hpu, inCS] at this
      · intro u; by_cases hu : u = t
        · subst hu; simp [hx, hacc, hsrc, hr0]
        · simp [hu]; intro hpu; have := others u hu; simp [hpu, inCS] at this
      · intro u; by_cases hu : u = t
        · subst hu; simp
        · simp [hu]; intro hpu; have := others u hu; simp [hpu, inCS] at this
      · intro u; by_cases hu : u = t
        · subst hu; simp
        · simp [hu]; intro hpu; have := others u hu; simp [hpu, inCS] at this
      · intro u; by_cases hu : u = t
        · subst hu; simp
        · simp [hu]; exact h.fin u
      · intro u; by_cases hu : u = t
        · subst hu; simp
        · simp [hu]; exact h.norelock u
  next hp =>  -- drain
    have hcs : s.mu = some t := (h.cs t).1 (by simp [hp, inCS])
    obtain ⟨hc, hW, hr⟩ := h.drain t hp
    have others : ∀ u, u ≠ t → inCS (s.pc u) = false := by
      intro u hu
      cases hc : inCS (s.pc u) with
      | false => rfl
      | true => exact absurd (h.excl (by simp [hp, inCS]) hc) hu
    split
    next c rest hsrc =>  -- one Read
      rw [hsrc] at hW
      constructor
      · exact h.cs
      · exact h.hit
      · intro hm; simp [hcs] at hm
      · intro u; by_cases hu : u = t
        · subst hu; intro hh; rcases hh with hh | hh <;> rw [hp] at hh <;> cases hh
        · simp [hu]; exact h.fresh u
      · intro u hpu; by_cases hu : u = t
        · subst hu; rw [hp] at hpu; cases hpu
        · have hq : s.pc u = .look := hpu
          have := others u hu; simp [hq, inCS] at this
      · intro u hpu; by_cases hu : u = t
        · subst hu; simp [hc, hr]; simpa [List.append_assoc] using hW
        · have hq : s.pc u = .drain := hpu
          have := others u hu; simp [hq, inCS] at this
      · intro u hpu; by_cases hu : u = t
        · subst hu; rw [hp] at hpu; cases hpu
        · have hq : s.pc u = .store := hpu
          have := others u hu; simp [hq, inCS] at this
      · exact h.unlock
      · exact h.fin
      · exact h.norelock
    next hsrc =>  -- EOF
      rw [hsrc] at hW
      constructor
      · intro u
        by_cases hu : u = t
        · subst hu; simp [inCS, hcs]
        · simp [hu]; exact h.cs u
      · exact h.hit
      · exact h.free
      · intro u; by_cases hu : u = t
        · subst hu; simp
        · simp [hu]; exact h.fresh u
      · intro u; by_cases hu : u = t
        · subst hu; simp
        · simp [hu]; exact h.look u
      · intro u; by_cases hu : u = t
        · subst hu; simp
        · simp [hu]; exact h.drain u
      · intro u; by_cases hu : u = t
        · subst hu; simp [hc, hr]; simpa using hW
        · simp [hu]; exact h.store u
      · intro u; by_cases hu : u = t
        · subst hu; simp
        · simp [hu]; exact h.unlock u
      · intro u; by_cases hu : u = t
        · subst hu; simp
        · simp [hu]; exact h.fin u
      · intro u; by_cases hu : u = t
        · subst hu; simp
        · simp [hu]; exact h.norelock u
  next hp => exact absurd hp (h.norelock t)  -- relock: not reachable while the lock spans the computation
  next hp =>  -- store
    have hcs : s.mu = some t := (h.cs t).1 (by simp [hp, inCS])
    obtain ⟨hc, hW, hr⟩ := h.store t hp
    have others : ∀ u, u ≠ t → inCS (s.pc u) = false := by
      intro u hu
      cases hc : inCS (s.pc u) with
      | false => rfl
      | true => exact absurd (h.excl (by simp [hp, inCS]) hc) hu
    constructor
    · intro u
      by_cases hu : u = t
      · subst hu; simp [inCS, hcs]
      · simp [hu]; exact h.cs u
    · intro x hx; simp [hc] at hx; exact ⟨by rw [← hx, hW], hr⟩
    · intro hm; simp [hcs] at hm
    · intro u; by_cases hu : u = t
      · subst hu; simp
      · simp [hu]; exact h.fresh u
    · intro u; by_cases hu : u = t
      · subst hu; simp
      · simp [hu]; intro hpu; have := others u hu; simp [hpu, inCS] at this
    · intro u; by_cases hu : u = t
      · subst hu; simp
      · simp [hu]; intro hpu; have := others u hu; simp [hpu, inCS] at this
    · intro u; by_cases hu : u = t
      · subst hu; simp
      · simp [hu]; intro hpu; have := others u hu; simp [hpu, inCS] at this
    · intro u; by_cases hu : u = t
      · subst hu; simp [hc, hW]
      · simp [hu]; intro hpu; have := others u hu; simp [hpu, inCS] at this
    · intro u; by_cases hu : u = t
      · subst hu; simp
      · simp [hu]; exact h.fin u
    · intro u; by_cases hu : u = t
      · subst hu; simp
      · simp [hu]; exact h.norelock u
  next hp =>  -- unlock
    have hcs : s.mu = some t := (h.cs t).1 (by simp [hp, inCS])
    obtain ⟨htmp, hcache⟩ := h.unlock t hp
    have others : ∀ u, u ≠ t → inCS (s.pc u) = false := by
      intro u hu
      cases hc : inCS (s.pc u) with
      | false => rfl
      | true => exact absurd (h.excl (by simp [hp, inCS]) hc) hu
    constructor
    · intro u
      by_cases hu : u = t
      · subst hu; simp [inCS]
      · simp [hu, others u hu]
    · exact h.hit
    · intro _ hc; simp [hcache] at hc
    · intro u; by_cases hu : u = t
      · subst hu; simp
      · simp [hu]; exact h.fresh u
    · intro u; by_cases hu : u = t
      · subst hu; simp
      · simp [hu]; exact h.look u
    · intro u; by_cases hu : u = t
      · subst hu; simp
      · simp [hu]; exact h.drain u
    · intro u; by_cases hu : u = t
      · subst hu; simp
      · simp [hu]; exact h.store u
    · intro u; by_cases hu : u = t
      · subst hu; simp
      · simp [hu]; exact h.unlock u
    · intro u; by_cases hu : u = t
      · subst hu; simp [htmp]
      · simp [hu]; exact h.fin u
    · intro u; by_cases hu : u = t
      · subst hu; simp
      · simp [hu]; exact h.norelock u
  next => exact h

theorem inv_run (W : List Nat) (sched : List Nat) (s : St) (h : Inv W s) : Inv W (run true sched s) := by
  induction sched generalizing s with
  | nil => exact h
  | cons t r ih => exact ih _ (inv_step W s t h)

theorem Inv.runs_le {W : List Nat} {s : St} (h : Inv W s) : s.runs ≤ 1 := by
  cases hc : s.cache with
  | some x => have := (h.hit x hc).2; omega
  | none =>
    cases hm : s.mu with
    | none => have := (h.free hm hc).2; omega
    | some t =>
      have hcs := (h.cs t).2 hm
      cases hp : s.pc t <;> simp [hp, inCS] at hcs
      · have := (h.look t hp hc).2; omega
      · have := (h.drain t hp).2.2; omega
      · have := (h.store t hp).2.2; omega
      · have := (h.unlock t hp).2; rw [hc] at this; cases this

end Stream

/-! ## GetOrAdd -/
namespace GetOrAdd

def locked : PC → Bool
  | .check | .errFin | .okFin => true
  | _ => false

def adder : PC → Bool
  | .adding | .errLock | .errFin | .okLock | .okFin => true
  | _ => false

theorem wake_locked (pc : Nat → PC) (u : Nat) : locked (wake pc u) = locked (pc u) := by
  unfold wake; by_cases h : pc u = .asleep <;> simp [h, locked]
theorem wake_adder (pc : Nat → PC) (u : Nat) : adder (wake pc u) = adder (pc u) := by
  unfold wake; by_cases h : pc u = .asleep <;> simp [h, adder]
theorem wake_eq_iff (pc : Nat → PC) (u : Nat) (X : PC) (h1 : X ≠ .asleep) (h2 : X ≠ .woken) :
    wake pc u = X ↔ pc u = X := by
  unfold wake
  by_cases h : pc u = .asleep
  · simp [h]; constructor
    · intro hh; exact absurd hh.symm h2
    · intro hh; exact absurd hh.symm h1
  · simp [h]
theorem wake_ne_asleep (pc : Nat → PC) (u : Nat) : wake pc u ≠ .asleep := by
  unfold wake; by_cases h : pc u = .asleep <;> simp [h]

/-- what a finished caller returned is justified -/
def ResOK {ν ε : Type} (add : Nat → Nat → Outcome ν ε) (key : Nat → Nat) (s : St ν ε) (t : Nat) :
    Outcome ν ε → Prop
  | .val v => s.cache (key t) = .val v
  | .err e => ∃ n, s.att t = some n ∧ add (key t) n = .err e
  | .nil => ∃ n, s.att t = some n ∧ add (key t) n = .nil

structure Inv {ν ε : Type} (add : Nat → Nat → Outcome ν ε) (key : Nat → Nat) (s : St ν ε) : Prop where
  cs : ∀ t, locked (s.pc t) = true ↔ s.mu = some t
  own : ∀ t, adder (s.pc t) = true ↔ s.cache (key t) = .inflight t
  ownk : ∀ k t, s.cache k = .inflight t → key t = k
  hitv : ∀ k v, s.cache k = .val v → s.wins k = 1 ∧ ∃ n, n < s.attempts k ∧ add k n = .val v
  absent : ∀ k, s.cache k = .absent → s.wins k = 0
  adding : ∀ t, s.pc t = .adding → s.wins (key t) = 0
  errs : ∀ t, (s.pc t = .errLock ∨ s.pc t = .errFin) → s.wins (key t) = 0 ∧
            ∃ n, s.att t = some n ∧ ∃ e, s.out t = some (.err e) ∧ add (key t) n = .err e
  oks : ∀ t, (s.pc t = .okLock ∨ s.pc t = .okFin) →
            ∃ n, s.att t = some n ∧ n < s.attempts (key t) ∧ s.out t = some (add (key t) n) ∧
                 isErr (add (key t) n) = false ∧ s.wins (key t) = (if isVal (add (key t) n) then 1 else 0)
  fin : ∀ t, s.pc t = .fin → ∃ r, s.res t = some r ∧ ResOK add key s t r

theorem inv_init {ν ε : Type} (add : Nat → Nat → Outcome ν ε) (key : Nat → Nat) : Inv add key (init : St ν ε) := by
  constructor <;> simp [init, locked, adder]

theorem Inv.excl {ν ε : Type} {add : Nat → Nat → Outcome ν ε} {key : Nat → Nat} {s : St ν ε}
    (h : Inv add key s) {t u : Nat} (ht : locked (s.pc t) = true) (hu : locked (s.pc u) = true) : u = t := by
  have a := (h.cs t).1 ht
  have b := (h.cs u).1 hu
  rw [a] at b
  exact (Option.some.inj b).symm

/-- the adder of a key is unique -/
theorem Inv.adder_key {ν ε : Type} {add : Nat → Nat → Outcome ν ε} {key : Nat → Nat} {s : St ν ε}
    (h : Inv add key s) {t u : Nat} (ht : adder (s.pc t) = true) (hu : adder (s.pc u) = true)
    (hk : key u = key t) : u = t := by
  have a := (h.own t).1 ht
  have b := (h.own u).1 hu
  rw [hk, a] at b
  exact (Entry.inflight.inj b).symm

/-- acquiring the mutex (start, woken, errLock, okLock): only `mu` and the thread's own pc change, to a locked pc
with the same adder status -/
theorem inv_acquire {ν ε : Type} (add : Nat → Nat → Outcome ν ε) (key : Nat → Nat) (s : St ν ε) (t : Nat)
    (h : Inv add key s) (X : PC) (hm : s.mu = none) (hX : locked X = true) (hA : adder X = adder (s.pc t))
    (hnotfin : X ≠ .fin) (hnadd : X ≠ .adding)
    (herr : X = .errFin → s.pc t = .errLock) (hok : X = .okFin → s.pc t = .okLock)
    (hne : X ≠ .errLock) (hno : X ≠ .okLock) :
    Inv add key { s with mu := some t, pc := upd s.pc t X } := by
  have nocs : ∀ u, locked (s.pc u) = false := by
    intro u
    cases hc : locked (s.pc u) with
    | false => rfl
    | true => have := (h.cs u).1 hc; rw [hm] at this; cases this
  constructor
  · intro u
    by_cases hu : u = t
    · subst hu; simp [hX]
    · simp [hu, nocs u]; intro hh; exact hu hh.symm
  · intro u
    by_cases hu : u = t
    · subst hu; simp [hA]; exact h.own u
    · simp [hu]; exact h.own u
  · exact h.ownk
  · exact h.hitv
  · exact h.absent
  · intro u; by_cases hu : u = t
    · subst hu; simp [hnadd]
    · simp [hu]; exact h.adding u
  · intro u; by_cases hu : u = t
    · subst hu; simp [hne]; intro hx; exact h.errs u (Or.inl (herr hx))
    · simp [hu]; exact h.errs u
  · intro u; by_cases hu : u = t
    · subst hu; simp [hno]; intro hx; exact h.oks u (Or.inl (hok hx))
    · simp [hu]; exact h.oks u
  · intro u; by_cases hu : u = t
    · subst hu; simp [hnotfin]
    · simp [hu]; exact h.fin u

theorem resOK_congr {ν ε : Type} (add : Nat → Nat → Outcome ν ε) (key : Nat → Nat) (s s' : St ν ε) (u : Nat)
    (r : Outcome ν ε) (hatt : s'.att u = s.att u)
    (hc : ∀ v, s.cache (key u) = .val v → s'.cache (key u) = .val v) (h : ResOK add key s u r) :
    ResOK add key s' u r := by
  cases r with
  | val v => exact hc v h
  | err e => obtain ⟨n, hn, ha⟩ := h; exact ⟨n, by rw [hatt]; exact hn, ha⟩
  | nil => obtain ⟨n, hn, ha⟩ := h; exact ⟨n, by rw [hatt]; exact hn, ha⟩

theorem inv_step {ν ε : Type} (repaired : Bool) (add : Nat → Nat → Outcome ν ε) (key : Nat → Nat)
    (s : St ν ε) (t : Nat) (h : Inv add key s) : Inv add key (step repaired add key s t) := by
  unfold step
  simp only []
  split
  next hp =>  -- start
    split
    next hm => exact inv_acquire add key s t h .check hm rfl (by simp [hp, adder]) (by simp) (by simp)
                 (by simp) (by simp) (by simp) (by simp)
    next => exact h
  next hp =>  -- woken
    split
    next hm => exact inv_acquire add key s t h .check hm rfl (by simp [hp, adder]) (by simp) (by simp)
                 (by simp) (by simp) (by simp) (by simp)
    next => exact h
  next hp =>  -- check
    have hcs : s.mu = some t := (h.cs t).1 (by simp [hp, locked])
    have others : ∀ u, u ≠ t → locked (s.pc u) = false := by
      intro u hu
      cases hc : locked (s.pc u) with
      | false => rfl
      | true => exact absurd (h.excl (by simp [hp, locked]) hc) hu
    have hnown : ¬ s.cache (key t) = .inflight t := by
      intro hh; have := (h.own t).2 hh; simp [hp, adder] at this
    split
    next v hv =>  -- hit
      constructor
      · intro u
        by_cases hu : u = t
        · subst hu; simp [locked]
        · simp [hu, others u hu]
      · intro u
        by_cases hu : u = t
        · subst hu; simp [adder, hv]
        · simp [hu]; exact h.own u
      · exact h.ownk
      · exact h.hitv
      · exact h.absent
      · intro u; by_cases hu : u = t
        · subst hu; simp
        · simp [hu]; exact h.adding u
      · intro u; by_cases hu : u = t
        · subst hu; simp
        · simp [hu]; exact h.errs u
      · intro u; by_cases hu : u = t
        · subst hu; simp
        · simp [hu]; exact h.oks u
      · intro u; by_cases hu : u = t
        · subst hu; simp [ResOK, hv]
        · simp [hu]; intro hpu
          obtain ⟨r, hr, hok⟩ := h.fin u hpu
          exact ⟨r, hr, resOK_congr add key s _ u r rfl (fun _ hh => hh) hok⟩
    next w hw =>  -- someone else is adding: cond.Wait()
      constructor
      · intro u
        by_cases hu : u = t
        · subst hu; simp [locked]
        · simp [hu, others u hu]
      · intro u
        by_cases hu : u = t
        · subst hu; simp [adder, hnown]
        · simp [hu]; exact h.own u
      · exact h.ownk
      · exact h.hitv
      · exact h.absent
      · intro u; by_cases hu : u = t
        · subst hu; simp
        · simp [hu]; exact h.adding u
      · intro u; by_cases hu : u = t
        · subst hu; simp
        · simp [hu]; exact h.errs u
      · intro u; by_cases hu : u = t
        · subst hu; simp
        · simp [hu]; exact h.oks u
      · intro u; by_cases hu : u = t
        · subst hu; simp
        · simp [hu]; intro hpu
          obtain ⟨r, hr, hok⟩ := h.fin u hpu
          exact ⟨r, hr, resOK_congr add key s _ u r rfl (fun _ hh => hh) hok⟩
    next ha =>  -- absent: mark in flight
      constructor
      · intro u
        by_cases hu : u = t
        · subst hu; simp [locked]
        · simp [hu, others u hu]
      · intro u
        by_cases hu : u = t
        · subst hu; simp [adder]
        · simp [hu]
          by_cases hk : key u = key t
          · simp [hk]
            have : ¬ s.cache (key u) = .inflight u := by rw [hk, ha]; simp
            constructor
            · intro hh; exact absurd ((h.own u).1 hh) this
            · intro hh; exact absurd hh.symm hu
          · simp [hk]; exact h.own u
      · intro k w
        by_cases hk : k = key t
        · subst hk; simp; intro hh; rw [← hh]
        · simp [hk]; exact h.ownk k w
      · intro k v
        by_cases hk : k = key t
        · subst hk; simp
        · simp [hk]; exact h.hitv k v
      · intro k
        by_cases hk : k = key t
        · subst hk; simp
        · simp [hk]; exact h.absent k
      · intro u; by_cases hu : u = t
        · subst hu; simp; exact h.absent _ ha
        · simp [hu]; exact h.adding u
      · intro u; by_cases hu : u = t
        · subst hu; simp
        · simp [hu]; exact h.errs u
      · intro u; by_cases hu : u = t
        · subst hu; simp
        · simp [hu]; intro hpu; exact h.oks u hpu
      · intro u; by_cases hu : u = t
        · subst hu; simp
        · simp [hu]; intro hpu
          obtain ⟨r, hr, hok⟩ := h.fin u hpu
          refine ⟨r, hr, resOK_congr add key s _ u r rfl ?_ hok⟩
          intro v hh
          by_cases hk : key u = key t
          · rw [hk, ha] at hh; cases hh
          · simp [hk]; exact hh
  next hp => exact h  -- asleep
  next hp =>  -- adding
    have hown : s.cache (key t) = .inflight t := (h.own t).1 (by simp [hp, adder])
    have hw0 := h.adding t hp
    have hnl : ¬ s.mu = some t := by
      intro hm; have := (h.cs t).2 hm; simp [hp, locked] at this
    have otherkey : ∀ u, u ≠ t → adder (s.pc u) = true → key u ≠ key t := by
      intro u hu ha hk
      exact hu (h.adder_key (by simp [hp, adder]) ha hk)
    constructor
    · intro u
      by_cases hu : u = t
      · subst hu; cases hi : isErr (add (key u) (s.attempts (key u))) <;> simp [hi, locked, hnl]
      · simp [hu]; exact h.cs u
    · intro u
      by_cases hu : u = t
      · subst hu; cases hi : isErr (add (key u) (s.attempts (key u))) <;> simp [hi, adder, hown]
      · simp [hu]; exact h.own u
    · exact h.ownk
    · intro k v hc
      by_cases hk : k = key t
      · subst hk; rw [hown] at hc; cases hc
      · simp [hk]; exact h.hitv k v hc
    · intro k hc
      by_cases hk : k = key t
      · subst hk; rw [hown] at hc; cases hc
      · simp [hk]; exact h.absent k hc
    · intro u; by_cases hu : u = t
      · subst hu; cases hi : isErr (add (key u) (s.attempts (key u))) <;> simp [hi]
      · simp [hu]; intro hpu
        have := otherkey u hu (by simp [hpu, adder])
        simp [this]; exact h.adding u hpu
    · intro u; by_cases hu : u = t
      · subst hu
        cases ho : add (key u) (s.attempts (key u)) with
        | val v => simp [isErr]
        | nil => simp [isErr]
        | err e => simp [isErr, isVal, hw0, ho]
      · simp [hu]; intro hpu
        have := otherkey u hu (by rcases hpu with hpu | hpu <;> simp [hpu, adder])
        simp [this]; exact h.errs u hpu
    · intro u; by_cases hu : u = t
      · subst hu
        cases ho : add (key u) (s.attempts (key u)) with
        | val v => simp [isErr, isVal, hw0, ho]
        | nil => simp [isErr, isVal, hw0, ho]
        | err e => simp [isErr]
      · simp [hu]; intro hpu
        have := otherkey u hu (by rcases hpu with hpu | hpu <;> simp [hpu, adder])
        simp [this]; exact h.oks u hpu
    · intro u; by_cases hu : u = t
      · subst hu; cases hi : isErr (add (key u) (s.attempts (key u))) <;> simp [hi]
      · simp [hu]; intro hpu
        obtain ⟨r, hr, hok⟩ := h.fin u hpu
        exact ⟨r, hr, resOK_congr add key s _ u r (by simp [hu]) (fun _ hh => hh) hok⟩
  next hp =>  -- errLock
    split
    next hm => exact inv_acquire add key s t h .errFin hm rfl (by simp [hp, adder]) (by simp) (by simp)
                 (fun _ => hp) (by simp) (by simp) (by simp)
    next => exact h
  next hp =>  -- okLock
    split
    next hm => exact inv_acquire add key s t h .okFin hm rfl (by simp [hp, adder]) (by simp) (by simp)
                 (by simp) (fun _ => hp) (by simp) (by simp)
    next => exact h
  next hp =>  -- errFin
    have hcs : s.mu = some t := (h.cs t).1 (by simp [hp, locked])
    have hown : s.cache (key t) = .inflight t := (h.own t).1 (by simp [hp, adder])
    obtain ⟨hw0, n, hatt, e, hout, hadd⟩ := h.errs t (Or.inr hp)
    have others : ∀ u, u ≠ t → locked (s.pc u) = false := by
      intro u hu
      cases hc : locked (s.pc u) with
      | false => rfl
      | true => exact absurd (h.excl (by simp [hp, locked]) hc) hu
    have otherkey : ∀ u, u ≠ t → adder (s.pc u) = true → key u ≠ key t := by
      intro u hu ha hk
      exact hu (h.adder_key (by simp [hp, adder]) ha hk)
    -- the pcs of the other threads after the (possible) Broadcast
    generalize hP : (if repaired = true then wake s.pc else s.pc) = P
    have hPl : ∀ u, locked (P u) = locked (s.pc u) := by
      intro u; subst hP; cases repaired <;> simp [wake_locked]
    have hPa : ∀ u, adder (P u) = adder (s.pc u) := by
      intro u; subst hP; cases repaired <;> simp [wake_adder]
    have hPe : ∀ u X, X ≠ .asleep → X ≠ .woken → (P u = X ↔ s.pc u = X) := by
      intro u X h1 h2; subst hP; cases repaired <;> simp [wake_eq_iff _ _ _ h1 h2]
    constructor
    · intro u
      by_cases hu : u = t
      · subst hu; simp [locked]
      · simp [hu, hPl, others u hu]
    · intro u
      by_cases hu : u = t
      · subst hu; simp [adder]
      · simp [hu, hPa]
        by_cases hk : key u = key t
        · have hfalse : adder (s.pc u) = false := by
            cases ha : adder (s.pc u) with
            | false => rfl
            | true => exact absurd hk (otherkey u hu ha)
          simp [hk, hfalse]
        · simp [hk]; exact h.own u
    · intro k w
      by_cases hk : k = key t
      · subst hk; simp
      · simp [hk]; exact h.ownk k w
    · intro k v
      by_cases hk : k = key t
      · subst hk; simp
      · simp [hk]; exact h.hitv k v
    · intro k
      by_cases hk : k = key t
      · subst hk; simp [hw0]
      · simp [hk]; exact h.absent k
    · intro u; by_cases hu : u = t
      · subst hu; simp
      · simp [hu, hPe]; exact h.adding u
    · intro u; by_cases hu : u = t
      · subst hu; simp
      · simp [hu, hPe]; exact h.errs u
    · intro u; by_cases hu : u = t
      · subst hu; simp
      · simp [hu, hPe]; exact h.oks u
    · intro u; by_cases hu : u = t
      · subst hu; simp [hout, ResOK]; exact ⟨n, hatt, hadd⟩
      · simp [hu, hPe]; intro hpu
        obtain ⟨r, hr, hok⟩ := h.fin u hpu
        refine ⟨r, hr, resOK_congr add key s _ u r rfl ?_ hok⟩
        intro v hh
        by_cases hk : key u = key t
        · rw [hk, hown] at hh; cases hh
        · simp [hk]; exact hh
  next hp =>  -- okFin
    have hcs : s.mu = some t := (h.cs t).1 (by simp [hp, locked])
    have hown : s.cache (key t) = .inflight t := (h.own t).1 (by simp [hp, adder])
    obtain ⟨n, hatt, hlt, hout, hne, hwins⟩ := h.oks t (Or.inr hp)
    have others : ∀ u, u ≠ t → locked (s.pc u) = false := by
      intro u hu
      cases hc : locked (s.pc u) with
      | false => rfl
      | true => exact absurd (h.excl (by simp [hp, locked]) hc) hu
    have otherkey : ∀ u, u ≠ t → adder (s.pc u) = true → key u ≠ key t := by
      intro u hu ha hk
      exact hu (h.adder_key (by simp [hp, adder]) ha hk)
    have hPe : ∀ u X, X ≠ .asleep → X ≠ .woken → (wake s.pc u = X ↔ s.pc u = X) :=
      fun u X h1 h2 => wake_eq_iff _ _ _ h1 h2
    have hnotinfl : ∀ w, (match s.out t with | some (.val v) => Entry.val v | _ => Entry.absent) ≠ .inflight w := by
      intro w; rw [hout]; cases add (key t) n <;> simp
    constructor
    · intro u
      by_cases hu : u = t
      · subst hu; simp [locked]
      · simp [hu, wake_locked, others u hu]
    · intro u
      by_cases hu : u = t
      · subst hu; simp [adder]; exact hnotinfl u
      · simp [hu, wake_adder]
        by_cases hk : key u = key t
        · have hfalse : adder (s.pc u) = false := by
            cases ha : adder (s.pc u) with
            | false => rfl
            | true => exact absurd hk (otherkey u hu ha)
          simp [hk, hfalse]; exact hnotinfl u
        · simp [hk]; exact h.own u
    · intro k w
      by_cases hk : k = key t
      · subst hk; simp; intro hh; exact absurd hh (hnotinfl w)
      · simp [hk]; exact h.ownk k w
    · intro k v
      by_cases hk : k = key t
      · subst hk; simp [hout]
        cases ho : add (key t) n with
        | val v' =>
          simp; intro hv; subst hv
          rw [ho] at hwins; simp [isVal] at hwins
          exact ⟨hwins, n, hlt, ho⟩
        | nil => simp
        | err e => simp
      · simp [hk]; exact h.hitv k v
    · intro k
      by_cases hk : k = key t
      · subst hk; simp [hout]
        cases ho : add (key t) n with
        | val v' => simp
        | nil => simp; rw [ho] at hwins; simpa [isVal] using hwins
        | err e => rw [ho] at hne; simp [isErr] at hne
      · simp [hk]; exact h.absent k
    · intro u; by_cases hu : u = t
      · subst hu; simp
      · simp [hu, hPe]; exact h.adding u
    · intro u; by_cases hu : u = t
      · subst hu; simp
      · simp [hu, hPe]; exact h.errs u
    · intro u; by_cases hu : u = t
      · subst hu; simp
      · simp [hu, hPe]; exact h.oks u
    · intro u; by_cases hu : u = t
      · subst hu; simp [hout]
        cases ho : add (key u) n with
        | val v' => simp [ResOK, hout, ho]
        | nil => simp [ResOK]; exact ⟨n, hatt, ho⟩
        | err e => rw [ho] at hne; simp [isErr] at hne
      · simp [hu, hPe]; intro hpu
        obtain ⟨r, hr, hok⟩ := h.fin u hpu
        refine ⟨r, hr, resOK_congr add key s _ u r rfl ?_ hok⟩
        intro v hh
        by_cases hk : key u = key t
        · rw [hk, hown] at hh; cases hh
        · simp [hk]; exact hh
  next => exact h

theorem inv_run {ν ε : Type} (repaired : Bool) (add : Nat → Nat → Outcome ν ε) (key : Nat → Nat)
    (sched : List Nat) (s : St ν ε) (h : Inv add key s) : Inv add key (run repaired add key sched s) := by
  induction sched generalizing s with
  | nil => exact h
  | cons t r ih => exact ih _ (inv_step repaired add key s t h)

/-! ### liveness side (the repaired protocol): nobody sleeps unless somebody is adding its key -/

structure Live {ν ε : Type} (key : Nat → Nat) (N : Nat) (s : St ν ε) : Prop where
  sleep : ∀ t, s.pc t = .asleep → ∃ w, s.cache (key t) = .inflight w
  idle : ∀ t, N ≤ t → s.pc t = .start

theorem live_init {ν ε : Type} (key : Nat → Nat) (N : Nat) : Live key N (init : St ν ε) := by
  constructor <;> simp [init]

theorem live_step {ν ε : Type} (add : Nat → Nat → Outcome ν ε) (key : Nat → Nat) (N : Nat)
    (s : St ν ε) (t : Nat) (ht : t < N) (hi : Inv add key s) (h : Live key N s) :
    Live key N (step true add key s t) := by
  have hidle : ∀ u, N ≤ u → u ≠ t := fun u hu he => by omega
  have acquire : ∀ X : PC, X ≠ .asleep → Live key N { s with mu := some t, pc := upd s.pc t X } := by
    intro X hX
    constructor
    · intro u; by_cases hu : u = t
      · subst hu; simp [hX]
      · simp [hu]; exact h.sleep u
    · intro u hN; simp [hidle u hN]; exact h.idle u hN
  unfold step
  simp only []
  split
  next hp => split
             · exact acquire .check (by simp)
             · exact h
  next hp => split
             · exact acquire .check (by simp)
             · exact h
  next hp =>
    split
    next v hv =>
      constructor
      · intro u; by_cases hu : u = t
        · subst hu; simp
        · simp [hu]; exact h.sleep u
      · intro u hN; simp [hidle u hN]; exact h.idle u hN
    next w hw =>
      constructor
      · intro u; by_cases hu : u = t
        · subst hu; simp; exact ⟨w, hw⟩
        · simp [hu]; exact h.sleep u
      · intro u hN; simp [hidle u hN]; exact h.idle u hN
    next ha =>
      constructor
      · intro u; by_cases hu : u = t
        · subst hu; simp
        · simp [hu]; intro hpu
          by_cases hk : key u = key t
          · exact ⟨t, by simp [hk]⟩
          · obtain ⟨w, hw⟩ := h.sleep u hpu
            exact ⟨w, by simp [hk]; exact hw⟩
      · intro u hN; simp [hidle u hN]; exact h.idle u hN
  next hp => exact h
  next hp =>
    constructor
    · intro u; by_cases hu : u = t
      · subst hu; cases hi : isErr (add (key u) (s.attempts (key u))) <;> simp [hi]
      · simp [hu]; exact h.sleep u
    · intro u hN; simp [hidle u hN]; exact h.idle u hN
  next hp => split
             · exact acquire .errFin (by simp)
             · exact h
  next hp => split
             · exact acquire .okFin (by simp)
             · exact h
  next hp =>
    constructor
    · intro u; by_cases hu : u = t
      · subst hu; simp
      · simp [hu, wake_ne_asleep]
    · intro u hN; simp [hidle u hN, wake_eq_iff]; exact h.idle u hN
  next hp =>
    constructor
    · intro u; by_cases hu : u = t
      · subst hu; simp
      · simp [hu, wake_ne_asleep]
    · intro u hN; simp [hidle u hN, wake_eq_iff]; exact h.idle u hN
  next => exact h

theorem live_run {ν ε : Type} (add : Nat → Nat → Outcome ν ε) (key : Nat → Nat) (N : Nat)
    (sched : List Nat) (hs : ∀ x ∈ sched, x < N) (s : St ν ε) (hi : Inv add key s) (h : Live key N s) :
    Live key N (run true add key sched s) := by
  induction sched generalizing s with
  | nil => exact h
  | cons t r ih =>
    have ht : t < N := hs t (by simp)
    exact ih (fun x hx => hs x (by simp [hx])) _ (inv_step true add key s t hi) (live_step add key N s t ht hi h)

/-- no deadlock: while some of the N callers has not returned, one of them can take a step -/
theorem no_deadlock {ν ε : Type} {add : Nat → Nat → Outcome ν ε} {key : Nat → Nat} {N : Nat} {s : St ν ε}
    (hi : Inv add key s) (h : Live key N s) (t : Nat) (ht : t < N) (hnf : s.pc t ≠ .fin) :
    ∃ u, u < N ∧ enabled s u = true := by
  have small : ∀ u, s.pc u ≠ .start → u < N := by
    intro u hu
    by_cases hN : N ≤ u
    · exact absurd (h.idle u hN) hu
    · omega
  cases hm : s.mu with
  | some w =>
    have hl := (hi.cs w).2 hm
    refine ⟨w, small w ?_, ?_⟩
    · intro hh; simp [hh, locked] at hl
    · cases hp : s.pc w <;> simp [hp, locked] at hl <;> simp [enabled, hp]
  | none =>
    have nolock : ∀ u, locked (s.pc u) = false := by
      intro u
      cases hc : locked (s.pc u) with
      | false => rfl
      | true => have := (hi.cs u).1 hc; rw [hm] at this; cases this
    have adderEnabled : ∀ w, adder (s.pc w) = true → w < N ∧ enabled s w = true := by
      intro w hw
      refine ⟨small w ?_, ?_⟩
      · intro hh; simp [hh, adder] at hw
      · have hl := nolock w
        cases hp : s.pc w <;> simp [hp, adder] at hw <;> simp [hp, locked] at hl <;> simp [enabled, hp, hm]
    cases hp : s.pc t with
    | start => exact ⟨t, ht, by simp [enabled, hp, hm]⟩
    | woken => exact ⟨t, ht, by simp [enabled, hp, hm]⟩
    | errLock => exact ⟨t, ht, by simp [enabled, hp, hm]⟩
    | okLock => exact ⟨t, ht, by simp [enabled, hp, hm]⟩
    | adding => exact ⟨t, ht, by simp [enabled, hp]⟩
    | check => have := nolock t; simp [hp, locked] at this
    | errFin => have := nolock t; simp [hp, locked] at this
    | okFin => have := nolock t; simp [hp, locked] at this
    | fin => exact absurd hp hnf
    | asleep =>
      obtain ⟨w, hw⟩ := h.sleep t hp
      have hkw := hi.ownk _ _ hw
      have : adder (s.pc w) = true := (hi.own w).2 (by rw [hkw]; exact hw)
      obtain ⟨h1, h2⟩ := adderEnabled w this
      exact ⟨w, h1, h2⟩

/-- a step of a finished or sleeping caller changes nothing -/
theorem step_fin {ν ε : Type} (r : Bool) (add : Nat → Nat → Outcome ν ε) (key : Nat → Nat) (s : St ν ε) (t : Nat)
    (h : s.pc t = .fin) : step r add key s t = s := by
  unfold step; simp [h]
theorem step_asleep {ν ε : Type} (r : Bool) (add : Nat → Nat → Outcome ν ε) (key : Nat → Nat) (s : St ν ε)
    (t : Nat) (h : s.pc t = .asleep) : step r add key s t = s := by
  unfold step; simp [h]

/-! ### termination measure: every effective step of one of the N callers decreases it -/

def sumTo (N : Nat) (g : Nat → Nat) : Nat :=
  match N with
  | 0 => 0
  | n + 1 => sumTo n g + g n

theorem sumTo_congr (N : Nat) (g g' : Nat → Nat) (h : ∀ u, u < N → g' u = g u) : sumTo N g' = sumTo N g := by
  induction N with
  | zero => rfl
  | succ n ih =>
    simp [sumTo]
    rw [ih (fun u hu => h u (by omega)), h n (by omega)]

theorem sumTo_upd (N : Nat) (g : Nat → Nat) (t : Nat) (ht : t < N) (x : Nat) :
    sumTo N (upd g t x) + g t = sumTo N g + x := by
  induction N with
  | zero => omega
  | succ n ih =>
    simp [sumTo]
    by_cases hn : t = n
    · subst hn
      have : sumTo t (upd g t x) = sumTo t g := sumTo_congr t g _ (fun u hu => by simp [upd]; omega)
      simp [this]; omega
    · have := ih (by omega)
      have hne : n ≠ t := fun hh => hn hh.symm
      simp [hne]; omega

theorem sumTo_le_add (N : Nat) (g g' : Nat → Nat) (c : Nat) (h : ∀ u, g' u ≤ g u + c) :
    sumTo N g' ≤ sumTo N g + N * c := by
  induction N with
  | zero => simp [sumTo]
  | succ n ih =>
    simp [sumTo]
    have := h n
    have : (n + 1) * c = n * c + c := by rw [Nat.add_mul]; simp
    omega

def rank : PC → Nat
  | .start => 4 | .woken => 4 | .check => 3 | .adding => 2 | .errLock => 1 | .okLock => 1
  | .errFin => 0 | .okFin => 0 | .asleep => 0 | .fin => 0

/-- weight of a caller: 0 once returned, otherwise large enough to pay for one Broadcast -/
def weight (N : Nat) (p : PC) : Nat := if p = .fin then 0 else 4 * N + 1 + rank p

def measure {ν ε : Type} (N : Nat) (s : St ν ε) : Nat := sumTo N (fun u => weight N (s.pc u))

theorem weight_wake (N : Nat) (pc : Nat → PC) (u : Nat) : weight N (wake pc u) ≤ weight N (pc u) + 4 := by
  unfold wake
  by_cases h : pc u = .asleep
  · simp [h, weight, rank]
  · simp [h]

theorem measure_own {ν ε : Type} (N : Nat) (s s' : St ν ε) (t : Nat) (ht : t < N) (X : PC)
    (hpc : s'.pc = upd s.pc t X) (hlt : weight N X < weight N (s.pc t)) : measure N s' < measure N s := by
  unfold measure
  rw [hpc]
  have e : (fun u => weight N (upd s.pc t X u)) = upd (fun u => weight N (s.pc u)) t (weight N X) := by
    funext u; by_cases hu : u = t <;> simp [upd, hu]
  rw [e]
  have := sumTo_upd N (fun u => weight N (s.pc u)) t ht (weight N X)
  omega

theorem measure_bcast {ν ε : Type} (N : Nat) (s s' : St ν ε) (t : Nat) (ht : t < N) (P : Nat → PC)
    (hP : ∀ u, weight N (P u) ≤ weight N (s.pc u) + 4) (hPt : weight N (P t) = 4 * N + 1)
    (hpc : s'.pc = upd P t .fin) : measure N s' < measure N s := by
  unfold measure
  rw [hpc]
  have e : (fun u => weight N (upd P t .fin u)) = upd (fun u => weight N (P u)) t 0 := by
    funext u; by_cases hu : u = t <;> simp [upd, hu, weight]
  rw [e]
  have h1 := sumTo_upd N (fun u => weight N (P u)) t ht 0
  have h2 := sumTo_le_add N (fun u => weight N (s.pc u)) (fun u => weight N (P u)) 4 hP
  rw [hPt] at h1
  omega

theorem measure_step {ν ε : Type} (r : Bool) (add : Nat → Nat → Outcome ν ε) (key : Nat → Nat) (N : Nat)
    (s : St ν ε) (t : Nat) (ht : t < N) (he : enabled s t = true) :
    measure N (step r add key s t) < measure N s := by
  unfold enabled at he
  unfold step
  simp only []
  split
  next hp =>
    simp [hp] at he
    simp [he]
    exact measure_own N s _ t ht .check rfl (by simp [hp, weight, rank])
  next hp =>
    simp [hp] at he
    simp [he]
    exact measure_own N s _ t ht .check rfl (by simp [hp, weight, rank])
  next hp =>
    split
    · exact measure_own N s _ t ht .fin rfl (by simp [hp, weight, rank])
    · exact measure_own N s _ t ht .asleep rfl (by simp [hp, weight, rank])
    · exact measure_own N s _ t ht .adding rfl (by simp [hp, weight, rank])
  next hp => simp [hp] at he
  next hp =>
    cases hi : isErr (add (key t) (s.attempts (key t)))
    · exact measure_own N s _ t ht .okLock (by simp [hi]) (by simp [hp, weight, rank])
    · exact measure_own N s _ t ht .errLock (by simp [hi]) (by simp [hp, weight, rank])
  next hp =>
    simp [hp] at he
    simp [he]
    exact measure_own N s _ t ht .errFin rfl (by simp [hp, weight, rank])
  next hp =>
    simp [hp] at he
    simp [he]
    exact measure_own N s _ t ht .okFin rfl (by simp [hp, weight, rank])
  next hp =>
    cases r
    · exact measure_own N s _ t ht .fin rfl (by simp [hp, weight, rank])
    · exact measure_bcast N s _ t ht (wake s.pc) (weight_wake N s.pc) (by simp [wake, hp, weight, rank]) rfl
  next hp =>
    exact measure_bcast N s _ t ht (wake s.pc) (weight_wake N s.pc) (by simp [wake, hp, weight, rank]) rfl
  next hp => simp [hp] at he

/-- number of scheduled steps that were enabled when they were taken -/
def effective {ν ε : Type} (r : Bool) (add : Nat → Nat → Outcome ν ε) (key : Nat → Nat) :
    List Nat → St ν ε → Nat
  | [], _ => 0
  | t :: rest, s => (if enabled s t then 1 else 0) + effective r add key rest (step r add key s t)

theorem step_disabled {ν ε : Type} (r : Bool) (add : Nat → Nat → Outcome ν ε) (key : Nat → Nat) (s : St ν ε)
    (t : Nat) (he : enabled s t = false) : step r add key s t = s := by
  unfold enabled at he
  unfold step
  cases hp : s.pc t <;> simp [hp] at he <;> simp
  all_goals (intro hm; rw [hm] at he; cases he)

theorem effective_bound {ν ε : Type} (r : Bool) (add : Nat → Nat → Outcome ν ε) (key : Nat → Nat) (N : Nat)
    (sched : List Nat) (hs : ∀ x ∈ sched, x < N) (s : St ν ε) :
    effective r add key sched s + measure N (run r add key sched s) ≤ measure N s := by
  induction sched generalizing s with
  | nil => simp [effective, run]
  | cons t rest ih =>
    have ht : t < N := hs t (by simp)
    have := ih (fun x hx => hs x (by simp [hx])) (step r add key s t)
    simp only [effective, run, List.foldl_cons] at *
    cases he : enabled s t with
    | true =>
      have := measure_step r add key N s t ht he
      simp; omega
    | false =>
      rw [step_disabled r add key s t he] at this ⊢
      simp; omega

theorem measure_init {ν ε : Type} (N : Nat) : measure N (init : St ν ε) = N * (4 * N + 5) := by
  unfold measure
  have : ∀ M, sumTo M (fun _ => weight N ((init : St ν ε).pc 0)) = M * (4 * N + 5) := by
    intro M
    induction M with
    | zero => simp [sumTo]
    | succ m ih =>
      simp only [sumTo, ih]
      simp [init, weight, rank, Nat.add_mul]
  simpa [init] using this N

end GetOrAdd

/-! ## Happens-before: the three disciplines exclude races -/
namespace HB

theorem hb_lt {tr : Trace} {i j : Nat} (h : hb tr i j) : i < j := by
  induction h with
  | po h _ _ => exact h
  | mutex h _ _ _ => exact h
  | once h _ _ => exact h
  | chan h _ _ => exact h
  | spawn h _ _ => exact h
  | trans _ _ ih1 ih2 => omega

theorem onLoc_not_rel {l : Nat} {a : Ev} (h : onLoc l a = true) (x : Bool) (m : Nat) : a ≠ .rel x m := by
  intro hh; subst hh; simp [onLoc] at h
theorem onLoc_not_end {l : Nat} {a : Ev} (h : onLoc l a = true) (k : Nat) : a ≠ .onceEnd k := by
  intro hh; subst hh; simp [onLoc] at h

/-- two accesses under the same mutex, at least one of them holding it exclusively, are ordered -/
theorem mutex_core {tr : Trace} (wf : WF tr) {m i j t u l : Nat} {x y : Bool} {a b : Ev}
    (hij : i < j) (htu : t ≠ u) (hi : tr[i]? = some (t, a)) (hj : tr[j]? = some (u, b))
    (hacc : onLoc l a = true) (h1 : holds tr t m x i) (h2 : holds tr u m y j) (hxy : x = true ∨ y = true) :
    hb tr i j := by
  obtain ⟨a1, ha1i, ha1, hno1⟩ := h1
  obtain ⟨a2, ha2j, ha2, hno2⟩ := h2
  have ne1 : a2 ≠ i := by
    intro hh; subst hh; rw [hi] at ha2; injection ha2 with h'; injection h' with h1 h2; exact htu h1
  have gt : i < a2 := by
    apply Classical.byContradiction
    intro hn
    have lt : a2 < i := by omega
    have hu : holds tr u m y i := ⟨a2, lt, ha2, fun b hb1 hb2 => hno2 b hb1 (by omega)⟩
    have ht : holds tr t m x i := ⟨a1, ha1i, ha1, hno1⟩
    rcases hxy with hx | hy
    · subst hx; exact wf.excl m i t u y htu ht hu
    · subst hy; exact wf.excl m i u t x (fun hh => htu hh.symm) hu ht
  have hrel : ∃ xr, a1 < xr ∧ xr < a2 ∧ tr[xr]? = some (t, .rel x m) := by
    apply Classical.byContradiction
    intro hn
    have ht : holds tr t m x (a2 + 1) := by
      refine ⟨a1, by omega, ha1, ?_⟩
      intro b hb1 hb2 heq
      by_cases hb : b = a2
      · subst hb; rw [ha2] at heq; injection heq with h'; injection h' with h1 h2; exact htu h1.symm
      · exact hn ⟨b, hb1, by omega, heq⟩
    have hu : holds tr u m y (a2 + 1) := ⟨a2, by omega, ha2, fun b hb1 hb2 => by omega⟩
    rcases hxy with hx | hy
    · subst hx; exact wf.excl m (a2 + 1) t u y htu ht hu
    · subst hy; exact wf.excl m (a2 + 1) u t x (fun hh => htu hh.symm) hu ht
  obtain ⟨xr, hx1, hx2, hxr⟩ := hrel
  have ne2 : xr ≠ i := by
    intro hh; subst hh; rw [hi] at hxr; injection hxr with h'; injection h' with h1 h2
    exact onLoc_not_rel hacc x m h2
  have gt2 : i < xr := by
    apply Classical.byContradiction
    intro hn
    exact hno1 xr hx1 (by omega) hxr
  exact .trans (.po gt2 hi hxr) (.trans (.mutex hx2 hxr ha2 hxy) (.po ha2j ha2 hj))

/-- accesses that follow the Once discipline are ordered (or belong to the same goroutine) -/
theorem once_core {tr : Trace} (wf : WF tr) {k i j t u l : Nat} {a b : Ev}
    (hij : i < j) (htu : t ≠ u) (hi : tr[i]? = some (t, a)) (hj : tr[j]? = some (u, b))
    (hacc : onLoc l a = true)
    (h1 : inside tr t k i ∨ (isWr a = false ∧ afterDo tr t k i))
    (h2 : inside tr u k j ∨ (isWr b = false ∧ afterDo tr u k j))
    (hw : isWr a = true ∨ isWr b = true) : hb tr i j := by
  rcases h1 with ⟨b1, hb1i, hb1, hnoend1⟩ | ⟨hra, r1, hr1i, hr1⟩
  · rcases h2 with ⟨b2, hb2j, hb2, _⟩ | ⟨_, r2, hr2j, hr2⟩
    · -- both inside the single run of f: same goroutine
      have := wf.beginUnique k b1 b2 t u hb1 hb2
      subst this; rw [hb1] at hb2; injection hb2 with h'; injection h' with h1 _; exact absurd h1 htu
    · -- i inside f, j after a Do returned
      obtain ⟨e, t', her, he⟩ := wf.retEnd k r2 u hr2
      obtain ⟨b', hb'e, hb'⟩ := wf.endBegin k e t' he
      have := wf.beginUnique k b1 b' t t' hb1 hb'
      subst this
      rw [hb1] at hb'; injection hb' with h'; injection h' with h1 _; subst h1
      have ne : e ≠ i := by
        intro hh; subst hh; rw [hi] at he; injection he with h'; injection h' with _ h2
        exact onLoc_not_end hacc k h2
      have gt : i < e := by
        apply Classical.byContradiction
        intro hn
        exact hnoend1 e hb'e (by omega) he
      exact .trans (.po gt hi he) (.trans (.once her he hr2) (.po hr2j hr2 hj))
  · rcases h2 with ⟨b2, hb2j, hb2, hnoend2⟩ | ⟨hrb, _⟩
    · -- i after a Do returned, j inside f: impossible, f had completed before
      obtain ⟨e, t', her, he⟩ := wf.retEnd k r1 t hr1
      obtain ⟨b', hb'e, hb'⟩ := wf.endBegin k e t' he
      have := wf.beginUnique k b2 b' u t' hb2 hb'
      subst this
      rw [hb2] at hb'; injection hb' with h'; injection h' with h1 _; subst h1
      exact absurd he (hnoend2 e hb'e (by omega))
    · rcases hw with h | h
      · rw [hra] at h; cases h
      · rw [hrb] at h; cases h

/-! ### refuting happens-before on a concrete trace: a decidable base-edge test and predecessor sets -/

def syncB (u : Nat) : Ev → Ev → Bool
  | .rel x m, .acq y m' => m == m' && (x || y)
  | .onceEnd k, .onceRet k' => k == k'
  | .send c n, .recv c' n' => c == c' && n == n'
  | .go ch, .start => ch == u
  | _, _ => false

def edgeB (tr : Trace) (i j : Nat) : Bool :=
  decide (i < j) &&
    match tr[i]?, tr[j]? with
    | some (t, e), some (u, e') => t == u || syncB u e e'
    | _, _ => false

theorem edgeB_lt {tr : Trace} {i j : Nat} (h : edgeB tr i j = true) : i < tr.length ∧ j < tr.length := by
  unfold edgeB at h
  cases hi : tr[i]? with
  | none => simp [hi] at h
  | some a =>
    cases hj : tr[j]? with
    | none => simp [hi, hj] at h
    | some b =>
      have h1 := List.getElem?_eq_some_iff.1 hi
      have h2 := List.getElem?_eq_some_iff.1 hj
      exact ⟨h1.1, h2.1⟩

/-- if `pred` is closed under the base edges, it contains everything that happens-before -/
theorem hb_pred {tr : Trace} (pred : Nat → List Nat)
    (hc : ∀ i j, edgeB tr i j = true → i ∈ pred j ∧ ∀ x, x ∈ pred i → x ∈ pred j) {i j : Nat} (h : hb tr i j) :
    i ∈ pred j ∧ ∀ x, x ∈ pred i → x ∈ pred j := by
  induction h with
  | po hlt h1 h2 => exact hc _ _ (by simp [edgeB, hlt, h1, h2])
  | mutex hlt h1 h2 hxy =>
    refine hc _ _ ?_
    rcases hxy with h | h <;> simp [edgeB, hlt, h1, h2, syncB, h]
  | once hlt h1 h2 => exact hc _ _ (by simp [edgeB, hlt, h1, h2, syncB])
  | chan hlt h1 h2 => exact hc _ _ (by simp [edgeB, hlt, h1, h2, syncB])
  | spawn hlt h1 h2 => exact hc _ _ (by simp [edgeB, hlt, h1, h2, syncB])
  | trans _ _ ih1 ih2 => exact ⟨ih2.2 _ ih1.1, fun x hx => ih2.2 _ (ih1.2 x hx)⟩

/-! ### a concrete well-formed trace (used to show that the hypotheses of `discipline_sound` are satisfiable) -/

def mutexTrace : Trace :=
  [(0, .acq true 0), (0, .wr 7), (0, .rel true 0), (1, .acq true 0), (1, .rd 7), (1, .rel true 0)]

theorem mutexTrace_acq {a t m : Nat} {x : Bool} (h : mutexTrace[a]? = some (t, .acq x m)) :
    (a = 0 ∧ t = 0 ∨ a = 3 ∧ t = 1) ∧ x = true ∧ m = 0 := by
  rcases a with _ | _ | _ | _ | _ | _ | a <;> simp [mutexTrace] at h
  · obtain ⟨h1, h2, h3⟩ := h; subst h1; subst h2; subst h3; simp
  · obtain ⟨h1, h2, h3⟩ := h; subst h1; subst h2; subst h3; simp

theorem mutexTrace_wf : WF mutexTrace := by
  constructor
  · rintro m i t u x htu ⟨a, hai, ha, hna⟩ ⟨a', ha'i, ha', hna'⟩
    obtain ⟨h1, _, hm⟩ := mutexTrace_acq ha
    obtain ⟨h2, hx, _⟩ := mutexTrace_acq ha'
    subst hm; subst hx
    rcases h1 with ⟨rfl, rfl⟩ | ⟨rfl, rfl⟩ <;> rcases h2 with ⟨rfl, rfl⟩ | ⟨rfl, rfl⟩
    · exact htu rfl
    · exact hna 2 (by omega) (by omega) (by simp [mutexTrace])
    · exact hna' 2 (by omega) (by omega) (by simp [mutexTrace])
    · exact htu rfl
  · intro k i j t u h
    rcases i with _ | _ | _ | _ | _ | _ | i <;> simp [mutexTrace] at h
  · intro k e t h
    rcases e with _ | _ | _ | _ | _ | _ | e <;> simp [mutexTrace] at h
  · intro k r u h
    rcases r with _ | _ | _ | _ | _ | _ | r <;> simp [mutexTrace] at h

end HB

/-! ## Seen (deprecate.sourceContextCache.encountered) -/
namespace Seen

structure Inv (key : Nat → Nat) (s : St) : Prop where
  trueOK : ∀ t, s.res t = some true → s.m (key t) = true
  fin : ∀ t, s.pc t = .fin → s.m (key t) = true ∧ (s.res t = some false ∨ s.res t = some true)
  unfin : ∀ t, s.pc t ≠ .fin → s.res t = none
  rT : ∀ t, s.pc t = .runlockT → s.m (key t) = true
  witness : ∀ k, s.m k = true → ∃ t, key t = k ∧ s.res t = some false

theorem inv_init (key : Nat → Nat) : Inv key init := by
  constructor <;> simp [init]

/-- a step that only moves thread `t` from a non-final pc to a non-final pc -/
theorem inv_move (key : Nat → Nat) (s s' : St) (t : Nat) (h : Inv key s) (X : PC)
    (hm : s'.m = s.m) (hr : s'.res = s.res) (hpc : s'.pc = upd s.pc t X)
    (hX : X ≠ .fin) (hold : s.pc t ≠ .fin) (hT : X = .runlockT → s.m (key t) = true) : Inv key s' := by
  constructor
  · rw [hm, hr]; exact h.trueOK
  · intro u; rw [hpc, hm, hr]; by_cases hu : u = t
    · subst hu; simp [hX]
    · simp [hu]; exact h.fin u
  · intro u; rw [hpc, hr]; by_cases hu : u = t
    · subst hu; intro _; exact h.unfin u hold
    · simp [hu]; exact h.unfin u
  · intro u; rw [hpc, hm]; by_cases hu : u = t
    · subst hu; simp; exact hT
    · simp [hu]; exact h.rT u
  · rw [hm, hr]; exact h.witness

theorem inv_step (key : Nat → Nat) (s : St) (t : Nat) (h : Inv key s) : Inv key (step key s t) := by
  unfold step
  split
  next hp =>  -- rlock
    split
    · exact inv_move key s _ t h .test rfl rfl rfl (by simp) (by simp [hp]) (by simp)
    · exact h
  next hp =>  -- test
    cases hm : s.m (key t)
    · exact inv_move key s _ t h .runlockF rfl rfl (by simp [hm]) (by simp) (by simp [hp]) (by simp)
    · exact inv_move key s _ t h .runlockT rfl rfl (by simp [hm]) (by simp) (by simp [hp]) (fun _ => hm)
  next hp =>  -- runlockT: return true
    have hm := h.rT t hp
    have hnone := h.unfin t (by simp [hp])
    constructor
    · intro u; by_cases hu : u = t
      · subst hu; simp [hm]
      · simp [hu]; exact h.trueOK u
    · intro u; by_cases hu : u = t
      · subst hu; simp [hm]
      · simp [hu]; exact h.fin u
    · intro u; by_cases hu : u = t
      · subst hu; simp
      · simp [hu]; exact h.unfin u
    · intro u; by_cases hu : u = t
      · subst hu; simp
      · simp [hu]; exact h.rT u
    · intro k hk
      obtain ⟨w, hw, hr⟩ := h.witness k hk
      have hwt : w ≠ t := by intro hh; subst hh; rw [hnone] at hr; cases hr
      exact ⟨w, hw, by simp [hwt]; exact hr⟩
  next hp =>  -- runlockF
    exact inv_move key s _ t h .lock rfl rfl rfl (by simp) (by simp [hp]) (by simp)
  next hp =>  -- lock
    split
    · exact inv_move key s _ t h .set rfl rfl rfl (by simp) (by simp [hp]) (by simp)
    · exact h
  next hp =>  -- set: record, return false
    have hnone := h.unfin t (by simp [hp])
    have mono : ∀ k, s.m k = true → upd s.m (key t) true k = true := by
      intro k hk; by_cases hkk : k = key t <;> simp [upd, hkk, hk]
    constructor
    · intro u; by_cases hu : u = t
      · subst hu; simp
      · simp [hu]; intro hr; exact mono _ (h.trueOK u hr)
    · intro u; by_cases hu : u = t
      · subst hu; simp
      · simp [hu]; intro hpu; exact ⟨mono _ (h.fin u hpu).1, (h.fin u hpu).2⟩
    · intro u; by_cases hu : u = t
      · subst hu; simp
      · simp [hu]; exact h.unfin u
    · intro u; by_cases hu : u = t
      · subst hu; simp
      · simp [hu]; intro hpu; exact mono _ (h.rT u hpu)
    · intro k hk
      by_cases hkk : k = key t
      · exact ⟨t, hkk.symm, by simp⟩
      · simp [hkk] at hk
        obtain ⟨w, hw, hr⟩ := h.witness k hk
        have hwt : w ≠ t := by intro hh; subst hh; rw [hnone] at hr; cases hr
        exact ⟨w, hw, by simp [hwt]; exact hr⟩
  next => exact h

theorem inv_run (key : Nat → Nat) (sched : List Nat) (s : St) (h : Inv key s) : Inv key (run key sched s) := by
  induction sched generalizing s with
  | nil => exact h
  | cons t r ih => exact ih _ (inv_step key s t h)

end Seen

end Arrai.C11
