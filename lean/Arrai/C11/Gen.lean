/-
  C11 case generator.

  conc : N goroutines evaluate shared compiled programs over one shared value; expected observable = the serial
         results (Conc.obs).  Witness of the repaired data race first: an erroring `where` predicate over 400
         members (GenericSet.Where) and over a 400-row relation (positionalRelation.Where).
  impc : N goroutines call importCache.getOrAdd; model = the GetOrAdd machine run under a pseudo-random schedule,
         spec = the closed form ImpSpec.results.  Witness of the repaired lost wake-up first.
-/
import Arrai.C11.Model

namespace Arrai.C11
open Conc

/-! ### conc -/

def genIntsProg : Gen Prog := do
  let m ← pick [2, 3, 7, 50, 1000]
  let r ← rand (if m > 50 then 1000 else m)
  let d ← pick [0, 1, 3, 64, 500]
  let k ← rand 11
  pure (match k with
    | 0 => .whereMod m r | 1 => .whereErr m r | 2 => .mapMod m | 3 => .count | 4 => .countWhere m r
    | 5 => .unionShift d | 6 => .interShift d | 7 => .diffShift d | 8 => .whereLt (d + 2) | 9 => .self
    | _ => .orderby)

def genRelProg (m : Nat) : Gen Prog := do
  let m2 ← pick [2, 3, 7]
  let r ← rand (m + 2)
  let k ← rand 10
  pure (match k with
    | 0 => .rWhereA m2 (r % m2) | 1 => .rWhereErr r | 2 => .rJoin | 3 => .rJoinCommon | 4 => .rProjB
    | 5 => .rMapA | 6 => .rNest | 7 => .count | 8 => .rWhereErr (m + 5) | _ => .self)

def genTupProg : Gen Prog := do
  let r ← rand 4
  let k ← rand 8
  pure (match k with
    | 0 => .tInner | 1 => .tSum | 2 => .tUnion | 3 => .tCountWhere r | 4 => .tMerge | 5 => .tProjX
    | 6 => .count | _ => .self)

def sizes (thorough : Bool) : List Nat :=
  if thorough then [0, 1, 2, 5, 17, 63, 64, 65, 100, 200, 400, 400, 511, 1000]
  else [0, 1, 2, 5, 17, 64, 65, 100, 200, 400]

def mkConc (id stratum : String) (n iters : Nat) (sh : Shared) (ps : List Prog) : Case :=
  let o := obs sh ps
  { id := id, cls := "good", kind := "conc", stratum := stratum, model := o, spec := o,
    payload := id :: toString n :: toString iters :: sh.src :: ps.map Prog.src }

def genConc (id : String) (thorough : Bool) : Gen Case := do
  let kind ← rand 10
  let n ← pick (sizes thorough)
  let goroutines ← if thorough then pick [2, 4, 8, 16] else pure 8
  let iters ← pick [1, 2, 3]
  let np ← rand 4
  if kind < 5 then
    let ps ← genList (np + 2) genIntsProg
    pure (mkConc id (if n ≥ 64 then "conc/ints/fanout" else "conc/ints/small") goroutines iters (.ints n) ps)
  else if kind < 8 then
    let m ← pick [1, 2, 3, 5]
    let n := if n > 400 then 400 else n   -- nest is quadratic in the model
    let ps ← genList (np + 2) (genRelProg m)
    pure (mkConc id (if n ≥ 64 then "conc/rel/fanout" else "conc/rel/small") goroutines iters (.rel n m) ps)
  else
    let ps ← genList (np + 2) genTupProg
    pure (mkConc id (if n ≥ 64 then "conc/tups/fanout" else "conc/tups/small") goroutines iters (.tups n) ps)

/-! ### impc -/

def oracle (scripts : List (Nat × List Char)) (k n : Nat) : GetOrAdd.Outcome Nat Nat :=
  match (scripts.lookup k).bind (fun sc => sc[n]?) with
  | some 'e' => .err n
  | some 'n' => .nil
  | _ => .val n

/-- run the (repaired) machine: at every step one of the enabled callers, chosen at random, moves -/
def simulate (keys : List Nat) (scripts : List (Nat × List Char)) : Gen (GetOrAdd.St Nat Nat) := do
  let N := keys.length
  let key := fun t => keys.getD t 0
  let mut s : GetOrAdd.St Nat Nat := GetOrAdd.init
  for _ in [0:N * (4 * N + 5) + 1] do
    let en := (List.range N).filter (fun t => GetOrAdd.enabled s t)
    if en.isEmpty then break
    let t ← pick en
    s := GetOrAdd.step true (oracle scripts) key s t
  pure s

def resStr : Option (GetOrAdd.Outcome Nat Nat) → String
  | some (.val v) => s!"v{v}"
  | some (.err e) => s!"e{e}"
  | some .nil => "nil"
  | none => "stuck"

def keysOf (keys : List Nat) : List Nat := (keys.mergeSort (· ≤ ·)).eraseDups

def perKey (keys : List Nat) (f : Nat → List String) : String :=
  ";".intercalate ((keysOf keys).map (fun k => s!"{k}:[{",".intercalate (sortStrs (f k))}]"))

def impModel (keys : List Nat) (s : GetOrAdd.St Nat Nat) : String :=
  let idx := List.range keys.length
  let stuck := (idx.filter (fun t => (s.res t).isNone)).length
  if stuck > 0 then s!"hang:{stuck}"
  else perKey keys (fun k => (idx.filter (fun t => keys.getD t 0 == k)).map (fun t => resStr (s.res t)))

def impSpec (keys : List Nat) (scripts : List (Nat × List Char)) : String :=
  perKey keys (fun k => ImpSpec.results ((scripts.lookup k).getD []) (keys.filter (· == k)).length)

def mkImp (id stratum : String) (keys : List Nat) (scripts : List (Nat × List Char)) : Gen Case := do
  let s ← simulate keys scripts
  pure { id := id, cls := "good", kind := "impc", stratum := stratum,
         model := impModel keys s, spec := impSpec keys scripts,
         payload := [id, ",".intercalate (keys.map toString),
                     ";".intercalate (scripts.map (fun p => s!"{p.1}={String.ofList p.2}"))] }

def genImp (id : String) (thorough : Bool) : Gen Case := do
  let n ← rand (if thorough then 11 else 7)
  let nk ← pick [1, 1, 2, 3]
  let keys ← genList (n + 2) (rand nk)
  let mut scripts : List (Nat × List Char) := []
  for k in [0:nk] do
    let len ← rand 4
    let sc ← genList len (pick ['e', 'e', 'v', 'n'])
    scripts := scripts ++ [(k, sc)]
  let failing := scripts.any (fun p => p.2.any (· == 'e'))
  mkImp id (if failing then "impc/add-fails" else "impc/add-succeeds") keys scripts

/-! ### corpus: witnesses of the repaired defects, always first -/

/-! ### fresh: concurrent first use in a fresh process (harness op `fresh`) -/

def hexDigit (n : Nat) : Char := "0123456789abcdef".toList.getD n '0'
def hexOf (bytes : List Nat) : String := String.ofList (bytes.flatMap (fun b => [hexDigit (b / 16), hexDigit (b % 16)]))

def mkFresh (id stratum : String) (n : Nat) (chunks : List (List Nat)) (warm src : String) (v : V) : Case :=
  { id := id, cls := "good", kind := "fresh", stratum := stratum, model := v.canon, spec := v.canon,
    payload := [id, toString n, "|".intercalate (chunks.map hexOf), warm, src] }

def codes (s : String) : List Nat := s.toList.map Char.toNat

/-- what `//{./d.json}` denotes for the file the harness's child writes: `{"a": [1, 2], "b": 3}` -/
def dJson : V :=
  V.mkSet [V.mkTup [("@", V.mkStr (codes "a")), ("@value", V.mkTup [("a", V.mkArr [.num 1, .num 2])])],
           V.mkTup [("@", V.mkStr (codes "b")), ("@value", .num 3)]]

/-- first uses of the standard-library scope, the import machinery and the implicit decoder; six of them first, so
that each of the race tier's harness processes starts with one -/
def firstUse : List Case :=
  let f (i : Nat) (src : String) (v : V) := mkFresh s!"C11-first-{i}" "fresh/std-scope" 8 [] "" src v
  [ f 0 "//seq.concat([[1], [2]])" (V.mkArr [.num 1, .num 2]),
    f 1 "//str.upper('ab')" (V.mkStr [65, 66]),
    f 2 "//math.pi > 3" (V.bool true),
    f 3 "//tuple({'a': 1})" (V.mkTup [("a", .num 1)]),
    f 4 "//rel.union({{1}, {2}})" (V.mkSet [.num 1, .num 2]),
    f 5 "//seq.join(',', ['a', 'b'])" (V.mkStr [97, 44, 98]),
    mkFresh "C11-first-6" "fresh/import-json" 8 [] "" "//{./d.json}" dJson,
    mkFresh "C11-first-7" "fresh/import-arrai" 8 [] "" "//{./m}" (V.mkTup [("x", .num 1), ("y", V.mkSet [.num 2, .num 3])]) ]

/-- stdin's read-once: N goroutines evaluate `//os.stdin` for the first time while the input arrives in several
Reads; each must see the WHOLE input (Theorems.stdin_serial; the narrowed-lock variant fails here:
Theorems.index_serial_false_if_lock_released) -/
def mkStdin (id : String) (n : Nat) (chunks : List (List Nat)) (countOnly : Bool) : Case :=
  let whole := chunks.flatten
  if countOnly then
    mkFresh id "fresh/stdin-read-once" n chunks "//seq.concat([[1]])" "//os.stdin count" (.num (Int.ofNat whole.length))
  else
    mkFresh id "fresh/stdin-read-once" n chunks "//seq.concat([[1]])" "//os.stdin" (V.mkBytes whole)

def genStdin (id : String) : Gen Case := do
  let n ← pick [2, 4, 8]
  let k ← rand 6
  let chunks ← genList (k + 1) (do
    let len ← rand 8
    genList (len + 1) (do let c ← rand 95; pure (c + 32)))
  let countOnly ← chance 1 3
  pure (mkStdin id n chunks countOnly)

def corpus : Gen (List Case) := do
  let c0 := mkConc "C11-corpus-0" "corpus/where-err-genericset" 8 3 (.ints 400)
    [.whereErr 7 3, .whereMod 7 3, .count]
  let c1 := mkConc "C11-corpus-1" "corpus/where-err-relation" 8 3 (.rel 400 5)
    [.rWhereErr 3, .rWhereA 7 3, .rJoin]
  let c2 := mkConc "C11-corpus-2" "corpus/lazy-caches" 8 2 (.tups 100) [.tInner, .tUnion, .tMerge, .self]
  let c3 := mkConc "C11-corpus-3" "corpus/index-cache" 8 2 (.rel 200 3) [.rJoin, .rJoinCommon, .rNest, .rJoin]
  let i0 ← mkImp "C11-corpus-4" "corpus/getOrAdd-error-wakes-waiters" [0, 0, 0] [(0, ['e', 'v'])]
  let i1 ← mkImp "C11-corpus-5" "corpus/getOrAdd-error-wakes-waiters" [0, 0, 0, 0, 1, 1] [(0, ['e', 'e', 'n']), (1, ['e'])]
  -- known finding: two call chains that wait for each other (model: Theorems.getOrAdd_live_full_false_nested_add)
  let x0 : Case := { id := "C11-corpus-6", cls := "KF-import-cross-wait", kind := "impx",
                     stratum := "corpus/import-cross-wait", model := "hang:2", spec := "returned",
                     payload := ["C11-corpus-6"] }
  let s0 := mkStdin "C11-corpus-7" 8 [codes "hello ", codes "world ", codes "of ", codes "arr.ai"] false
  let s1 := mkStdin "C11-corpus-8" 4 [codes "a", codes "b", codes "c", codes "d", codes "e", codes "f"] true
  pure (firstUse ++ [c0, c1, c2, c3, i0, i1, x0, s0, s1])

def gen (seed n : Nat) (thorough : Bool) : List Case := Id.run do
  let (cs, _) := corpus.run (seedOf seed 1100000)
  let mut out := cs.reverse
  for i in [0:n] do
    let id := s!"C11-{i}"
    let g : Gen Case := do
      let k ← rand 40
      if k < 27 then genConc id thorough else if k < 39 then genImp id thorough else genStdin id
    let (c, _) := g.run (seedOf seed (1100001 + i))
    out := c :: out
  pure out.reverse

end Arrai.C11
