/-
  C12 — what the model was written against (read from the repaired tree, /tmp/wt-c12):
  the tables and source shapes of the printer (rel/value_repr.go, value_tuple.go, value_set_bytes.go,
  value_number.go, the Format methods), of the string-literal reader (syntax/parse_string.go), the
  token regexes of syntax/arrai.wbnf, bundleConfig.String and OutputValue.
  `Arrai/Proofs/C12.lean` proves `Generated.c12_x = Expected.x` by `decide` on every run; the model
  (`Arrai/C12/Model.lean`) looks characters up in *these* tables.
  `escapeCases`: (label, action, args) with action 1 = `i = number(i+args[0], args[1], args[2], args[3])`,
  2 = `sb.WriteByte(args[0])`, 3 = `sb.WriteString(indent)`.
  `fragmentGuards`: every `if` of parseArraiStringFragment in source order (the slice-bounds and error guards
  that make a bad escape an error).
  Core-only (linked into the driver).
-/
namespace Arrai.C12.Expected

def reprEscapes : List (Nat × List Nat) := [(7, [92, 97]), (8, [92, 98]), (9, [92, 116]), (10, [92, 110]), (11, [92, 118]), (12, [92, 102]), (13, [92, 114]), (27, [92, 101])]
def reprEscapesSize : Nat := 32
def reprEscapeBranches : List String := ["range s", "if c == '\\\\' || c == rune(delim) => { fu.Fprintf(w, `\\%c`, c) }", "if c >= 32 => { fu.Fprintf(w, \"%c\", c) }", "if escape := reprEscapes[c]; escape != nil => { fu.Write(w, escape) }", "else => { fu.Fprintf(w, `\\x%02x`, c) }"]
def reprOffset : String := "{ if offset != 0 { fu.Fprintf(w, `%d\\`, offset) } }"
def reprStr : String := "{ switch { case !strings.Contains(s, \"'\"): reprEscape(s, '\\'', w) default: reprEscape(s, '\"', w) } }"
def reprString : String := "{ reprOffset(str.offset, w) reprStr(string(str.s), w) }"
def escapeCases : List (Nat × Nat × List Nat) := [
  (34, 2, [34]),
  (39, 2, [39]),
  (48, 1, [0, 3, 8, 8]),
  (49, 1, [0, 3, 8, 8]),
  (50, 1, [0, 3, 8, 8]),
  (51, 1, [0, 3, 8, 8]),
  (52, 1, [0, 3, 8, 8]),
  (53, 1, [0, 3, 8, 8]),
  (54, 1, [0, 3, 8, 8]),
  (55, 1, [0, 3, 8, 8]),
  (85, 1, [1, 8, 16, 32]),
  (92, 2, [92]),
  (97, 2, [7]),
  (98, 2, [8]),
  (101, 2, [27]),
  (102, 2, [12]),
  (105, 3, []),
  (110, 2, [10]),
  (114, 2, [13]),
  (116, 2, [9]),
  (117, 1, [1, 4, 16, 16]),
  (118, 2, [11]),
  (120, 1, [1, 2, 16, 8])]
def escapeOther : List String := []
def escapeDefault : String := "{ return \"\", fmt.Errorf(\"unrecognized \\\\-escape: %q\", s[i]) }"
def numberParams : String := "func(i, size, base, bits int) (int, error)"
def numberParse : String := "strconv.ParseUint(s[i:i+size], base, bits)"
def numberReturn : String := "0 | 0 | i + size - 1"
def fragmentLoop : String := "i := 0; i < len(s); i++"
def fragmentGuards : List String := ["strings.HasPrefix(validEscapes, \"`\")", "i+size > len(s)", "err != nil", "i == len(s)", "err != nil"]
def renderableShape : String := "^[]+$"
def renderableBytes : List Nat := [7, 8, 9, 10, 11, 12, 13, 27, 32, 33, 34, 35, 36, 37, 38, 39, 40, 41, 42, 43, 44, 45, 46, 47, 48, 49, 50, 51, 52, 53, 54, 55, 56, 57, 58, 59, 60, 61, 62, 63, 64, 65, 66, 67, 68, 69, 70, 71, 72, 73, 74, 75, 76, 77, 78, 79, 80, 81, 82, 83, 84, 85, 86, 87, 88, 89, 90, 91, 92, 93, 94, 95, 96, 97, 98, 99, 100, 101, 102, 103, 104, 105, 106, 107, 108, 109, 110, 111, 112, 113, 114, 115, 116, 117, 118, 119, 120, 121, 122, 123, 124, 125, 126]
def identRE : String := "regexp.MustCompile(`\\A` + LexerNamePat + `\\z`)"
def namePatShape : String := "([][]*)"
def identStart : List Nat := [36, 64, 65, 66, 67, 68, 69, 70, 71, 72, 73, 74, 75, 76, 77, 78, 79, 80, 81, 82, 83, 84, 85, 86, 87, 88, 89, 90, 95, 97, 98, 99, 100, 101, 102, 103, 104, 105, 106, 107, 108, 109, 110, 111, 112, 113, 114, 115, 116, 117, 118, 119, 120, 121, 122]
def identRest : List Nat := [36, 48, 49, 50, 51, 52, 53, 54, 55, 56, 57, 64, 65, 66, 67, 68, 69, 70, 71, 72, 73, 74, 75, 76, 77, 78, 79, 80, 81, 82, 83, 84, 85, 86, 87, 88, 89, 90, 95, 97, 98, 99, 100, 101, 102, 103, 104, 105, 106, 107, 108, 109, 110, 111, 112, 113, 114, 115, 116, 117, 118, 119, 120, 121, 122]
def tupleNameRepr : String := "{ if identRE.Match([]byte(name)) { return name } var sb strings.Builder switch { case !strings.Contains(name, \"'\"): reprEscape(name, '\\'', &sb) default: reprEscape(name, '\"', &sb) } return sb.String() }"
def wbnf_STR : String := "STR -> /{ \" (?: \\\\. | [^\\\\\"] )* \" | ' (?: \\\\. | [^\\\\'] )* ' | ‵ (?: ‵‵ | [^‵ ] )* ‵ };"
def wbnf_NUM : String := "NUM -> /{ (?: \\d+(?:\\.\\d*)? | \\.\\d+ ) (?: [Ee][-+]?\\d+ )? };"
def wbnf_IDENT : String := "IDENT -> /{ \\. | @{ (?:[^{}]|{ [^}]+ \\})+ \\} | [$@A-Za-z_][0-9$@A-Za-z_]* };"
def wbnf_names : String := "names -> C* \"|\" C* IDENT:\",\" C* \"|\" C*;"
def bundleConfigString : String := "{ return fmt.Sprintf(\"(main_root: %q, main_file: %q)\", b.mainRoot, b.mainFile) }"
def outputValueCases : List String := ["rel.String => { s = v.String() }", "rel.Bytes => { s = v.String() }", "rel.Set => { if !v.IsTrue() { s = \"\" } else { s = fu.Repr(v) } }", "default => { s = fu.Repr(v) }"]
def formatFloatLens : List Nat := [15, 10, 10]
def numberString : String := "{ return formatFloat64(float64(n), 'G', -1) }"
def formatLiterals : List String := [
  "Array.Format: %d\\ ¦ [ ¦ ,  ¦ ]",
  "Bytes.Format: << ¦ ,  ¦ >>",
  "Dict.Format: { ¦ ,  ¦ %v: %v ¦ }",
  "GenericSet.Format: ",
  "UnionSet.Format: { ¦ ,  ¦ }",
  "Relation.Format: { ¦ |%s|  ¦ ,  ¦ ,  ¦ }",
  "GenericTuple.Format: ( ¦ ,  ¦ :  ¦ %v ¦ )",
  "String.Format: ",
  "ArrayItemTuple.Format: (@: %d,  ¦ : %v)",
  "BytesByteTuple.Format: (@: %d, %s: %d)",
  "DictEntryTuple.Format: (@: %v, %s: %v)",
  "StringCharTuple.Format: (@: %d, %s: %d)",
  ".reprOrderableSet: { ¦ ,  ¦ }",
  ".reprEscape: %c ¦ \\%c ¦ %c ¦ \\x%02x ¦ %c",
  ".reprOffset: %d\\"]
def consts : List String := ["sTrue=true", "sFalse=false", "sEmptySet={}", "negateTag=@neg"]

end Arrai.C12.Expected
