/-
  C12 helper lemmas.
  Part 1: the index loop of parseArraiStringFragment as a function of the remaining bytes (`parseL`).
  Part 2: one printed rune read back (case split on the escape class), then whole strings.
  Part 3: UTF-8, names, numbers, Go %q.
  Part 4: the tree level.
-/
import Arrai.C12.Model

namespace Arrai.C12
open Impl

/-! ## Part 1 — the loop over indices is a function of the remaining bytes -/

/-- what the loop does from position `i` on, as a function of `s.drop i` -/
def parseL (indent : List Nat) : Nat → List Nat → Option (List Nat)
  | 0, _ => none
  | _ + 1, [] => some []
  | f + 1, c :: r =>
    if c = 92 then
      match r with
      | [] => none
      | e :: r' =>
        match escAct e with
        | .number off size base bits =>
          if off + size ≤ (e :: r').length then
            match parseUint (((e :: r').drop off).take size) base bits with
            | some n => (parseL indent f ((e :: r').drop (off + size))).map (utf8 n ++ ·)
            | none => none
          else none
        | .byte b => (parseL indent f r').map (b :: ·)
        | .indent => (parseL indent f r').map (indent ++ ·)
        | .bad => none
    else (parseL indent f r).map (c :: ·)

theorem drop_of_getElem?_some {s : List Nat} {i c : Nat} (h : s[i]? = some c) :
    s.drop i = c :: s.drop (i + 1) := by
  have hi : i < s.length := by
    rcases Nat.lt_or_ge i s.length with h' | h'
    · exact h'
    · rw [List.getElem?_eq_none h'] at h; cases h
  rw [List.drop_eq_getElem_cons hi]
  rw [List.getElem?_eq_getElem hi] at h
  cases h; rfl

theorem drop_of_getElem?_none {s : List Nat} {i : Nat} (h : s[i]? = none) : s.drop i = [] := by
  apply List.drop_eq_nil_of_le
  rcases Nat.lt_or_ge i s.length with h' | h'
  · rw [List.getElem?_eq_getElem h'] at h; cases h
  · exact h'

theorem lt_of_getElem?_some {s : List Nat} {i c : Nat} (h : s[i]? = some c) : i < s.length := by
  rcases Nat.lt_or_ge i s.length with h' | h'
  · exact h'
  · rw [List.getElem?_eq_none h'] at h; cases h

theorem loop_eq_parseL (s indent : List Nat) :
    ∀ (f i : Nat) (acc : List Nat), loop s indent f i acc = (parseL indent f (s.drop i)).map (acc ++ ·) := by
  intro f
  induction f with
  | zero => intro i acc; simp [loop, parseL]
  | succ f ih =>
    intro i acc
    unfold loop
    cases h : s[i]? with
    | none => simp [drop_of_getElem?_none h, parseL]
    | some c =>
      have hd := drop_of_getElem?_some h
      rw [hd]
      by_cases hc : c = 92
      · subst hc
        simp only [if_true, parseL]
        cases h1 : s[i + 1]? with
        | none => simp [drop_of_getElem?_none h1]
        | some e =>
          have hd1 := drop_of_getElem?_some h1
          have hlt := lt_of_getElem?_some h1
          rw [hd1]
          simp only
          cases hact : escAct e with
          | number off size base bits =>
            simp only [number]
            have hlen : (e :: s.drop (i + 1 + 1)).length = s.length - (i + 1) := by
              rw [← hd1, List.length_drop]
            have hcond : (i + 1 + off + size ≤ s.length) ↔ (off + size ≤ (e :: s.drop (i + 1 + 1)).length) := by
              rw [hlen]; omega
            have hdig : (s.drop (i + 1 + off)).take size = ((e :: s.drop (i + 1 + 1)).drop off).take size := by
              rw [← hd1, List.drop_drop]
            by_cases hc2 : i + 1 + off + size ≤ s.length
            · rw [if_pos hc2, if_pos (hcond.1 hc2), hdig]
              cases hp : parseUint (((e :: s.drop (i + 1 + 1)).drop off).take size) base bits with
              | none => simp
              | some n =>
                simp only
                rw [ih]
                have : s.drop (i + 1 + off + size - 1 + 1) = (e :: s.drop (i + 1 + 1)).drop (off + size) := by
                  rw [← hd1, List.drop_drop]
                  congr 1
                  omega
                rw [this, Option.map_map]
                congr 1
                funext x
                simp [List.append_assoc]
            · rw [if_neg hc2, if_neg (fun h' => hc2 (hcond.2 h'))]
              simp
          | byte b =>
            simp only
            rw [ih, Option.map_map]
            congr 1
            funext x
            simp [List.append_assoc]
          | indent =>
            simp only
            rw [ih, Option.map_map]
            congr 1
            funext x
            simp [List.append_assoc]
          | bad => simp
      · simp only [if_neg hc, parseL]
        rw [ih, Option.map_map]
        congr 1
        funext x
        simp [List.append_assoc]

theorem parseFragment_eq (s indent : List Nat) : parseFragment s indent = parseL indent (s.length + 1) s := by
  unfold parseFragment
  rw [loop_eq_parseL]
  simp

/-! ## Part 2 — one printed rune read back; whole strings -/

theorem utf8_ascii {c : Nat} (h : c < 128) : utf8 c = [c] := by simp [utf8, h]

theorem utf8_ne92 {c : Nat} (h : 128 ≤ c) : ∀ b ∈ utf8 c, b ≠ 92 := by
  intro b hb
  unfold utf8 at hb
  split at hb
  · omega
  · split at hb
    · simp at hb; omega
    · split at hb
      · simp at hb; omega
      · split at hb <;> (simp at hb; omega)

theorem utf8_length_pos (c : Nat) : 1 ≤ (utf8 c).length := by
  unfold utf8; split <;> try simp
  split <;> try simp
  split <;> try simp
  split <;> simp

theorem utf8s_cons (c : Nat) (s : List Nat) : utf8s (c :: s) = utf8 c ++ utf8s s := by simp [utf8s]
theorem utf8s_nil : utf8s [] = [] := rfl
theorem utf8s_append (a b : List Nat) : utf8s (a ++ b) = utf8s a ++ utf8s b := by simp [utf8s]

theorem parseL_plain (indent : List Nat) (f c : Nat) (r : List Nat) (hc : c ≠ 92) :
    parseL indent (f + 1) (c :: r) = (parseL indent f r).map (c :: ·) := by
  simp [parseL, hc]

theorem parseL_plain_bytes (indent : List Nat) :
    ∀ (bs : List Nat), (∀ b ∈ bs, b ≠ 92) → ∀ (f : Nat) (r : List Nat),
      parseL indent (f + bs.length) (bs ++ r) = (parseL indent f r).map (bs ++ ·) := by
  intro bs
  induction bs with
  | nil => intro _ f r; simp
  | cons b bs ih =>
    intro h f r
    have hb : b ≠ 92 := h b (by simp)
    have : f + (b :: bs).length = (f + bs.length) + 1 := by simp; omega
    rw [this, List.cons_append, parseL_plain indent _ b _ hb, ih (fun x hx => h x (by simp [hx])), Option.map_map]
    congr 1

/-- the decidable compatibility conditions between the printer's escape table and the reader's case table -/
def tablesOK : Bool :=
  (List.range 32).all (fun c =>
    match lookupNat c Expected.reprEscapes with
    | some [92, l] => decide (l < 128) && decide (l ≠ 10) && decide (escAct l = .byte c)
    | some _ => false
    | none => true)
  && decide (escAct 120 = .number 1 2 16 8)
  && decide (escAct 117 = .number 1 4 16 16)
  && decide (escAct 85 = .number 1 8 16 32)
  && decide (escAct 92 = .byte 92) && decide (escAct 39 = .byte 39) && decide (escAct 34 = .byte 34)
  && (List.range 16).all (fun d => decide (digitVal 16 (hexDigit d) = some d))

theorem tablesOK_true : tablesOK = true := by decide

theorem escAct_x : escAct 120 = .number 1 2 16 8 := by decide
theorem escAct_u : escAct 117 = .number 1 4 16 16 := by decide
theorem escAct_U : escAct 85 = .number 1 8 16 32 := by decide
theorem escAct_bs : escAct 92 = .byte 92 := by decide
theorem escAct_sq : escAct 39 = .byte 39 := by decide
theorem escAct_dq : escAct 34 = .byte 34 := by decide

theorem digitVal_hex {d : Nat} (h : d < 16) : digitVal 16 (hexDigit d) = some d := by
  have := tablesOK_true
  simp only [tablesOK, Bool.and_eq_true, List.all_eq_true, List.mem_range, decide_eq_true_eq] at this
  exact this.2 d h

theorem reprEscapes_entry {c : Nat} (h : c < 32) {bs : List Nat} (hl : lookupNat c Expected.reprEscapes = some bs) :
    ∃ l, bs = [92, l] ∧ l < 128 ∧ l ≠ 10 ∧ escAct l = .byte c := by
  have := tablesOK_true
  simp only [tablesOK, Bool.and_eq_true, List.all_eq_true, List.mem_range, decide_eq_true_eq] at this
  have h1 := this.1.1.1.1.1.1.1 c h
  rw [hl] at h1
  match bs, h1 with
  | [92, l], h1 =>
    simp only [Bool.and_eq_true, decide_eq_true_eq] at h1
    exact ⟨l, rfl, h1.1.1, h1.1.2, h1.2⟩

theorem parseUint_hex2 {a b : Nat} (ha : a < 16) (hb : b < 16) :
    parseUint [hexDigit a, hexDigit b] 16 8 = some (a * 16 + b) := by
  simp [parseUint, parseDigits, digitVal_hex ha, digitVal_hex hb]
  omega

/-- reading back what reprEscape printed for one rune `c` (any rune; both quote characters) -/
theorem parseL_escRune (indent : List Nat) (q c : Nat) (hq : q = 39 ∨ q = 34) :
    ∃ k, 1 ≤ k ∧ k ≤ (utf8s (escRune q c)).length ∧
      ∀ (f : Nat) (r : List Nat),
        parseL indent (f + k) (utf8s (escRune q c) ++ r) = (parseL indent f r).map (utf8 c ++ ·) := by
  by_cases h1 : c = 92 ∨ c = q
  · -- backslash or the delimiter: `\` followed by the character itself
    have hc : c < 128 := by rcases h1 with h | h <;> rcases hq with h' | h' <;> omega
    have hact : escAct c = .byte c := by
      rcases h1 with h | h
      · subst h; exact escAct_bs
      · rcases hq with h' | h'
        · subst h; subst h'; exact escAct_sq
        · subst h; subst h'; exact escAct_dq
    have hesc : escRune q c = [92, c] := by
      unfold escRune
      rcases h1 with h | h <;> simp [h]
    refine ⟨1, Nat.le_refl 1, ?_, ?_⟩
    · simp [hesc, utf8s, utf8_ascii hc, utf8_ascii (show 92 < 128 by omega)]
    · intro f r
      simp [hesc, utf8s, utf8_ascii hc, utf8_ascii (show 92 < 128 by omega), parseL, hact]
  · have hn1 : c ≠ 92 := fun h => h1 (Or.inl h)
    have hn2 : c ≠ q := fun h => h1 (Or.inr h)
    by_cases h2 : 32 ≤ c
    · -- printed as itself
      have hesc : escRune q c = [c] := by
        unfold escRune
        simp [hn1, hn2, h2]
      by_cases h3 : c < 128
      · refine ⟨1, Nat.le_refl 1, ?_, ?_⟩
        · simp [hesc, utf8s, utf8_ascii h3]
        · intro f r
          simp [hesc, utf8s, utf8_ascii h3, parseL, hn1]
      · refine ⟨(utf8 c).length, utf8_length_pos c, ?_, ?_⟩
        · simp [hesc, utf8s]
        · intro f r
          have := parseL_plain_bytes indent (utf8 c) (utf8_ne92 (by omega)) f r
          simpa [hesc, utf8s] using this
    · -- a control character: table escape or \xNN
      have hc : c < 32 := by omega
      cases hl : lookupNat c Expected.reprEscapes with
      | some bs =>
        obtain ⟨l, rfl, hl128, _, hact⟩ := reprEscapes_entry hc hl
        have hesc : escRune q c = [92, l] := by
          unfold escRune
          simp [hn1, hn2, h2, hl]
        refine ⟨1, Nat.le_refl 1, ?_, ?_⟩
        · simp [hesc, utf8s, utf8_ascii hl128, utf8_ascii (show 92 < 128 by omega)]
        · intro f r
          simp [hesc, utf8s, utf8_ascii hl128, utf8_ascii (show 92 < 128 by omega), utf8_ascii (show c < 128 by omega),
            parseL, hact]
      | none =>
        have hesc : escRune q c = [92, 120, hexDigit (c / 16), hexDigit (c % 16)] := by
          unfold escRune
          simp [hn1, hn2, h2, hl]
        have hh1 : hexDigit (c / 16) < 128 := by unfold hexDigit; split <;> omega
        have hh2 : hexDigit (c % 16) < 128 := by unfold hexDigit; split <;> omega
        have hp := parseUint_hex2 (show c / 16 < 16 by omega) (show c % 16 < 16 by omega)
        have hval : c / 16 * 16 + c % 16 = c := by omega
        rw [hval] at hp
        refine ⟨1, Nat.le_refl 1, ?_, ?_⟩
        · simp [hesc, utf8s, utf8_ascii hh1, utf8_ascii hh2, utf8_ascii (show 92 < 128 by omega),
            utf8_ascii (show 120 < 128 by omega)]
        · intro f r
          simp [hesc, utf8s, utf8_ascii hh1, utf8_ascii hh2, utf8_ascii (show 92 < 128 by omega),
            utf8_ascii (show 120 < 128 by omega), utf8_ascii (show c < 128 by omega), parseL, escAct_x, hp]

/-- generic induction: a rune-wise printer whose every rune reads back reads back as a whole -/
theorem parseL_flatMap (indent : List Nat) (enc : Nat → List Nat) (P : Nat → Prop)
    (step : ∀ c, P c → ∃ k, 1 ≤ k ∧ k ≤ (utf8s (enc c)).length ∧
      ∀ (f : Nat) (r : List Nat), parseL indent (f + k) (utf8s (enc c) ++ r) = (parseL indent f r).map (utf8 c ++ ·)) :
    ∀ (s : List Nat), (∀ c ∈ s, P c) → ∀ (f : Nat), (utf8s (s.flatMap enc)).length + 1 ≤ f →
      parseL indent f (utf8s (s.flatMap enc)) = some (utf8s s) := by
  intro s
  induction s with
  | nil =>
    intro _ f hf
    obtain ⟨f', rfl⟩ : ∃ f', f = f' + 1 := ⟨f - 1, by omega⟩
    simp [utf8s, parseL]
  | cons c s ih =>
    intro hP f hf
    obtain ⟨k, hk1, hk2, hstep⟩ := step c (hP c (by simp))
    have henc : utf8s ((c :: s).flatMap enc) = utf8s (enc c) ++ utf8s (s.flatMap enc) := by
      simp [utf8s_append]
    rw [henc] at hf ⊢
    rw [List.length_append] at hf
    obtain ⟨f', rfl⟩ : ∃ f', f = f' + k := ⟨f - k, by omega⟩
    rw [hstep, ih (fun x hx => hP x (by simp [hx])) f' (by omega)]
    simp [utf8s_cons]

/-- parseArraiStringFragment (reprEscape's body) = the string, at the byte level -/
theorem parseFragment_reprEscapeBody (indent : List Nat) (s : List Nat) (q : Nat) (hq : q = 39 ∨ q = 34) :
    parseFragment (utf8s (reprEscapeBody s q)) indent = some (utf8s s) := by
  rw [parseFragment_eq]
  exact parseL_flatMap indent (escRune q) (fun _ => True) (fun c _ => parseL_escRune indent q c hq) s (fun _ _ => trivial) _ (Nat.le_refl _)

/-! ## Part 3 — UTF-8 decoding, the STR token, names, numbers, Go %q -/

theorem utf8decF_two (f b0 b1 : Nat) (r : List Nat) (h0 : 194 ≤ b0 ∧ b0 < 224) (h1 : isCont b1 = true) :
    utf8decF (f + 1) (b0 :: b1 :: r) = ((b0 - 192) * 64 + (b1 - 128)) :: utf8decF f r := by
  have a1 : ¬ b0 < 128 := by omega
  simp [utf8decF, a1, h0, h1]

theorem utf8decF_three (f b0 b1 b2 : Nat) (r : List Nat) (h0 : 224 ≤ b0 ∧ b0 < 240)
    (h1 : (if b0 = 224 then 160 else 128) ≤ b1) (h1' : b1 ≤ (if b0 = 237 then 159 else 191)) (h2 : isCont b2 = true) :
    utf8decF (f + 1) (b0 :: b1 :: b2 :: r) = ((b0 - 224) * 4096 + (b1 - 128) * 64 + (b2 - 128)) :: utf8decF f r := by
  have a1 : ¬ b0 < 128 := by omega
  have a2 : ¬ (194 ≤ b0 ∧ b0 < 224) := by omega
  simp [utf8decF, a1, a2, h0, h1, h1', h2]

theorem utf8decF_four (f b0 b1 b2 b3 : Nat) (r : List Nat) (h0 : 240 ≤ b0 ∧ b0 < 245)
    (h1 : (if b0 = 240 then 144 else 128) ≤ b1) (h1' : b1 ≤ (if b0 = 244 then 143 else 191))
    (h2 : isCont b2 = true) (h3 : isCont b3 = true) :
    utf8decF (f + 1) (b0 :: b1 :: b2 :: b3 :: r)
      = ((b0 - 240) * 262144 + (b1 - 128) * 4096 + (b2 - 128) * 64 + (b3 - 128)) :: utf8decF f r := by
  have a1 : ¬ b0 < 128 := by omega
  have a2 : ¬ (194 ≤ b0 ∧ b0 < 224) := by omega
  have a3 : ¬ (224 ≤ b0 ∧ b0 < 240) := by omega
  simp [utf8decF, a1, a2, a3, h0, h1, h1', h2, h3]

theorem utf8decF_step {c : Nat} (hc : isScalar c = true) (f : Nat) (r : List Nat) :
    utf8decF (f + 1) (utf8 c ++ r) = c :: utf8decF f r := by
  have hs := hc
  simp only [isScalar, Bool.or_eq_true, Bool.and_eq_true, decide_eq_true_eq] at hc
  unfold utf8
  by_cases h1 : c < 0x80
  · simp [h1, utf8decF]
  · by_cases h2 : c < 0x800
    · simp only [h1, h2, if_false, if_true, List.cons_append, List.nil_append]
      rw [utf8decF_two f _ _ r (by omega) (by simp [isCont]; omega)]
      have e : (192 + c / 64 - 192) * 64 + (128 + c % 64 - 128) = c := by omega
      rw [e]
    · by_cases h3 : c < 0x10000
      · simp only [h1, h2, h3, hs, Bool.not_true, Bool.false_eq_true, if_false, if_true, List.cons_append,
          List.nil_append]
        rw [utf8decF_three f _ _ _ r (by omega) (by split <;> omega) (by split <;> omega) (by simp [isCont]; omega)]
        have e : (224 + c / 4096 - 224) * 4096 + (128 + c / 64 % 64 - 128) * 64 + (128 + c % 64 - 128) = c := by omega
        rw [e]
      · simp only [h1, h2, h3, hs, Bool.not_true, Bool.false_eq_true, if_false, List.cons_append, List.nil_append]
        rw [utf8decF_four f _ _ _ _ r (by omega) (by split <;> omega) (by split <;> omega)
          (by simp [isCont]; omega) (by simp [isCont]; omega)]
        have e : (240 + c / 262144 - 240) * 262144 + (128 + c / 4096 % 64 - 128) * 4096 +
            (128 + c / 64 % 64 - 128) * 64 + (128 + c % 64 - 128) = c := by omega
        rw [e]

theorem utf8decF_utf8s : ∀ (s : List Nat), (∀ c ∈ s, isScalar c = true) → ∀ f, s.length ≤ f →
    utf8decF f (utf8s s) = s := by
  intro s
  induction s with
  | nil => intro _ f _; cases f <;> simp [utf8s, utf8decF]
  | cons c s ih =>
    intro h f hf
    obtain ⟨f', rfl⟩ : ∃ f', f = f' + 1 := ⟨f - 1, by simp at hf; omega⟩
    rw [utf8s_cons, utf8decF_step (h c (by simp)), ih (fun x hx => h x (by simp [hx])) f' (by simp at hf; omega)]

theorem length_le_utf8s (s : List Nat) : s.length ≤ (utf8s s).length := by
  induction s with
  | nil => simp [utf8s]
  | cons c s ih =>
    rw [utf8s_cons, List.length_append, List.length_cons]
    have := utf8_length_pos c
    omega

/-- `[]rune(string(runes)) = runes` for Unicode scalars -/
theorem utf8dec_utf8s (s : List Nat) (h : ∀ c ∈ s, isScalar c = true) : utf8dec (utf8s s) = s :=
  utf8decF_utf8s s h _ (length_le_utf8s s)

theorem utf8s_ascii : ∀ (s : List Nat), (∀ c ∈ s, c < 128) → utf8s s = s := by
  intro s
  induction s with
  | nil => intro _; rfl
  | cons c s ih =>
    intro h
    rw [utf8s_cons, utf8_ascii (h c (by simp)), ih (fun x hx => h x (by simp [hx]))]
    rfl

/-! ### the STR token ends exactly at the closing quote the printer wrote -/

theorem hexDigit_plain {d : Nat} (h : d < 16) : hexDigit d ≠ 92 ∧ hexDigit d ≠ 39 ∧ hexDigit d ≠ 34 := by
  unfold hexDigit; split <;> omega

theorem scanStr_plain (q c : Nat) (t : List Nat) (h1 : c ≠ 92) (h2 : c ≠ q) :
    scanStr q (c :: t) = (scanStr q t).map (fun p => (c :: p.1, p.2)) := by
  cases t <;> simp [scanStr, h1, h2]

theorem scanStr_esc (q d : Nat) (t : List Nat) (h : d ≠ 10) :
    scanStr q (92 :: d :: t) = (scanStr q t).map (fun p => (92 :: d :: p.1, p.2)) := by
  simp [scanStr, h]

theorem scanStr_escRune (q c : Nat) (hq : q = 39 ∨ q = 34) (t : List Nat) :
    scanStr q (escRune q c ++ t) = (scanStr q t).map (fun p => (escRune q c ++ p.1, p.2)) := by
  by_cases h1 : c = 92 ∨ c = q
  · have hesc : escRune q c = [92, c] := by
      unfold escRune
      rcases h1 with h | h <;> simp [h]
    have h10 : c ≠ 10 := by rcases h1 with h | h <;> rcases hq with h' | h' <;> omega
    simp [hesc, scanStr_esc q c t h10]
  · have hn1 : c ≠ 92 := fun h => h1 (Or.inl h)
    have hn2 : c ≠ q := fun h => h1 (Or.inr h)
    by_cases h2 : 32 ≤ c
    · have hesc : escRune q c = [c] := by
        unfold escRune
        simp [hn1, hn2, h2]
      simp [hesc, scanStr_plain q c t hn1 hn2]
    · have hc : c < 32 := by omega
      cases hl : lookupNat c Expected.reprEscapes with
      | some bs =>
        obtain ⟨l, rfl, _, hl10, _⟩ := reprEscapes_entry hc hl
        have hesc : escRune q c = [92, l] := by
          unfold escRune
          simp [hn1, hn2, h2, hl]
        simp [hesc, scanStr_esc q l t hl10]
      | none =>
        have hesc : escRune q c = [92, 120, hexDigit (c / 16), hexDigit (c % 16)] := by
          unfold escRune
          simp [hn1, hn2, h2, hl]
        obtain ⟨a1, a2, a3⟩ := hexDigit_plain (show c / 16 < 16 by omega)
        obtain ⟨b1, b2, b3⟩ := hexDigit_plain (show c % 16 < 16 by omega)
        have a4 : hexDigit (c / 16) ≠ q := by rcases hq with h | h <;> subst h <;> assumption
        have b4 : hexDigit (c % 16) ≠ q := by rcases hq with h | h <;> subst h <;> assumption
        simp [hesc, scanStr_esc q 120 _ (by omega), scanStr_plain q _ _ a1 a4, scanStr_plain q _ _ b1 b4,
          Option.map_map, Function.comp_def]

theorem scanStr_body (q : Nat) (hq : q = 39 ∨ q = 34) (rest : List Nat) :
    ∀ s : List Nat, scanStr q (reprEscapeBody s q ++ q :: rest) = some (reprEscapeBody s q, rest) := by
  intro s
  induction s with
  | nil =>
    have : q ≠ 92 := by rcases hq with h | h <;> omega
    cases rest <;> simp [reprEscapeBody, scanStr, this]
  | cons c s ih =>
    have : reprEscapeBody (c :: s) q = escRune q c ++ reprEscapeBody s q := by simp [reprEscapeBody]
    rw [this, List.append_assoc, scanStr_escRune q c hq, ih]
    rfl

/-! ### names -/

theorem chooseQuote_cases (s : List Nat) : chooseQuote s = 39 ∨ chooseQuote s = 34 := by
  unfold chooseQuote; split <;> simp

theorem parseName_tupleNameRepr (n : List Nat) (h : ∀ c ∈ n, isScalar c = true) :
    parseName (tupleNameRepr n) = some n := by
  unfold tupleNameRepr
  by_cases hi : isIdent n = true
  · simp [hi, parseName]
  · simp only [hi]
    simp only [parseName, Bool.false_eq_true, if_false]
    rw [parseFragment_reprEscapeBody [] n _ (chooseQuote_cases n)]
    simp [utf8dec_utf8s n h]

/-! ### numbers -/

theorem ofRev_digitsRev : ∀ (f n : Nat), n ≤ f → ofRev (digitsRev f n) = n := by
  intro f
  induction f with
  | zero => intro n h; have : n = 0 := by omega
            subst this; rfl
  | succ f ih =>
    intro n h
    unfold digitsRev
    by_cases h10 : n < 10
    · simp [h10, ofRev]
    · simp only [h10, if_false, ofRev]
      rw [ih (n / 10) (by omega)]
      omega

theorem ofMSD_reverse (l : List Nat) : ofMSD l.reverse = ofRev l := by
  unfold ofMSD
  rw [List.foldl_reverse]
  induction l with
  | nil => rfl
  | cons d r ih => simp only [List.foldr_cons, ofRev, ih]; omega

theorem ofMSD_natDigits (n : Nat) : ofMSD (natDigits n) = n := by
  unfold natDigits
  rw [ofMSD_reverse, ofRev_digitsRev n n (Nat.le_refl n)]

theorem ofMSD_pad2 (ds : List Nat) : ofMSD (pad2 ds) = ofMSD ds := by
  unfold pad2; split <;> simp [ofMSD]

theorem length_dropWhile_le {α : Type} (p : α → Bool) (l : List α) : (l.dropWhile p).length ≤ l.length := by
  induction l with
  | nil => simp
  | cons a r ih => simp only [List.dropWhile_cons]; split <;> simp <;> omega

theorem ofRev_dropZeros (l : List Nat) :
    ofRev l = ofRev (l.dropWhile (· == 0)) * 10 ^ (l.length - (l.dropWhile (· == 0)).length) := by
  induction l with
  | nil => simp [ofRev]
  | cons d r ih =>
    by_cases hd : d = 0
    · subst hd
      have hle := length_dropWhile_le (· == 0) r
      have : (0 :: r).length - (List.dropWhile (· == 0) r).length
          = (r.length - (List.dropWhile (· == 0) r).length) + 1 := by simp; omega
      simp only [List.dropWhile_cons, beq_self_eq_true, if_true, ofRev, this, Nat.pow_succ]
      rw [ih] 
      generalize ofRev (List.dropWhile (· == 0) r) = a
      generalize 10 ^ (r.length - (List.dropWhile (· == 0) r).length) = b
      rw [Nat.zero_add, Nat.mul_comm 10, Nat.mul_assoc]
    · have : (d == 0) = false := by simp [hd]
      simp [List.dropWhile_cons, this]

theorem dropZeros_ne_nil {l : List Nat} (h : ofRev l ≠ 0) : l.dropWhile (· == 0) ≠ [] := by
  intro hnil
  rw [ofRev_dropZeros l, hnil] at h
  simp [ofRev] at h

/-- the NUM token printed for a non-negative integer reads back as that integer -/
theorem readTok_formatG (n : Nat) : readTok (formatG n) = some n := by
  unfold formatG
  by_cases h0 : n = 0
  · subst h0; simp [readTok, ofMSD]
  · simp only [h0, if_false]
    have hdr : ofRev (digitsRev n n) = n := ofRev_digitsRev n n (Nat.le_refl n)
    by_cases h6 : (digitsRev n n).length - 1 ≥ 6
    · simp only [h6, if_true]
      generalize hdw : (digitsRev n n).dropWhile (· == 0) = dw
      have hne : dw ≠ [] := by rw [← hdw]; exact dropZeros_ne_nil (by rw [hdr]; exact h0)
      have hle : dw.length ≤ (digitsRev n n).length := by rw [← hdw]; exact length_dropWhile_le _ _
      have hpos : 1 ≤ dw.length := by
        cases dw with
        | nil => exact absurd rfl hne
        | cons _ _ => simp
      have hval := ofRev_dropZeros (digitsRev n n)
      rw [hdw, hdr] at hval
      unfold readTok
      simp only [List.take_append_drop, ofMSD_reverse, ofMSD_pad2, ofMSD_natDigits, Bool.false_eq_true, if_false,
        List.length_drop, List.length_reverse]
      have he : ((((digitsRev n n).length - 1 : Nat) : Int) - ((dw.length - 1 : Nat) : Int))
          = (((digitsRev n n).length - dw.length : Nat) : Int) := by omega
      rw [he]
      simp only [Int.natCast_nonneg, ge_iff_le, if_true, Int.toNat_natCast]
      rw [← hval]
    · simp only [h6, if_false]
      unfold readTok
      simp [ofMSD_reverse, hdr]

/-- integers: what Number.String prints (when formatFloat64 returns the shortest form) reads back as the number -/
theorem readNum_reprNum (n : Int) (p : Bool × NumTok) (h : reprNum n = some p) : readNum p = some n := by
  have hp : p = (decide (n < 0), formatG n.natAbs) := by
    unfold reprNum at h
    simp only at h
    by_cases hl : (formatG n.natAbs).chars.length + (if n < 0 then 1 else 0) < Expected.formatFloatLens.headD 0
    · rw [if_pos hl] at h; exact (Option.some.inj h).symm
    · rw [if_neg hl] at h; cases h
  subst hp
  simp only [readNum, readTok_formatG, Option.map_some]
  by_cases hn : n < 0
  · simp [hn]; omega
  · simp [hn]; omega

theorem length_digitsRev_le : ∀ (f m k : Nat), m < 10 ^ (k + 1) → (digitsRev f m).length ≤ k + 1 := by
  intro f
  induction f with
  | zero => intro m k _; simp [digitsRev]
  | succ f ih =>
    intro m k h
    unfold digitsRev
    by_cases h10 : m < 10
    · simp [h10]
    · simp only [h10, if_false, List.length_cons]
      cases k with
      | zero => simp at h; omega
      | succ k =>
        have : m / 10 < 10 ^ (k + 1) := by
          rw [Nat.pow_succ] at h
          omega
        have := ih (m / 10) k this
        omega

theorem reprNum_small (n : Int) (h1 : -1000000 < n) (h2 : n < 1000000) : (reprNum n).isSome = true := by
  have hm : n.natAbs < 10 ^ (5 + 1) := by omega
  have hlen := length_digitsRev_le n.natAbs n.natAbs 5 hm
  have h15 : Expected.formatFloatLens.headD 0 = 15 := by decide
  unfold reprNum
  simp only [h15]
  have hc : (formatG n.natAbs).chars.length ≤ 6 := by
    unfold formatG
    by_cases h0 : n.natAbs = 0
    · simp [h0, NumTok.chars]
    · have h6 : ¬ (digitsRev n.natAbs n.natAbs).length - 1 ≥ 6 := by omega
      simp only [h0, h6, if_false, NumTok.chars]
      simp
      omega
  have : (formatG n.natAbs).chars.length + (if n < 0 then 1 else 0) < 15 := by split <;> omega
  simp [this]

/-! ### Go's %q read by arr.ai -/

theorem escAct_a : escAct 97 = .byte 7 := by decide
theorem escAct_b : escAct 98 = .byte 8 := by decide
theorem escAct_f : escAct 102 = .byte 12 := by decide
theorem escAct_n : escAct 110 = .byte 10 := by decide
theorem escAct_r : escAct 114 = .byte 13 := by decide
theorem escAct_t : escAct 116 = .byte 9 := by decide
theorem escAct_v : escAct 118 = .byte 11 := by decide

theorem hexDigit_lt128 (d : Nat) (h : d < 16) : hexDigit d < 128 := by unfold hexDigit; split <;> omega

theorem parseUint_hex4 {a b c d : Nat} (ha : a < 16) (hb : b < 16) (hc : c < 16) (hd : d < 16) :
    parseUint [hexDigit a, hexDigit b, hexDigit c, hexDigit d] 16 16 = some (((a * 16 + b) * 16 + c) * 16 + d) := by
  simp [parseUint, parseDigits, digitVal_hex ha, digitVal_hex hb, digitVal_hex hc, digitVal_hex hd]
  omega

theorem parseUint_hex8 {a b c d e f g h : Nat} (ha : a < 16) (hb : b < 16) (hc : c < 16) (hd : d < 16)
    (he : e < 16) (hf : f < 16) (hg : g < 16) (hh : h < 16) :
    parseUint [hexDigit a, hexDigit b, hexDigit c, hexDigit d, hexDigit e, hexDigit f, hexDigit g, hexDigit h] 16 32
      = some (((((((a * 16 + b) * 16 + c) * 16 + d) * 16 + e) * 16 + f) * 16 + g) * 16 + h) := by
  simp [parseUint, parseDigits, digitVal_hex ha, digitVal_hex hb, digitVal_hex hc, digitVal_hex hd,
    digitVal_hex he, digitVal_hex hf, digitVal_hex hg, digitVal_hex hh]
  omega

theorem utf8s_hex_list (l : List Nat) (h : ∀ x ∈ l, x < 128) : utf8s l = l := utf8s_ascii l h

/-- "the bytes of `enc` read back as the rune `c`" -/
def Step (indent enc : List Nat) (c : Nat) : Prop :=
  ∃ k, 1 ≤ k ∧ k ≤ (utf8s enc).length ∧
    ∀ (f : Nat) (r : List Nat), parseL indent (f + k) (utf8s enc ++ r) = (parseL indent f r).map (utf8 c ++ ·)

theorem step_byte (indent : List Nat) {l c : Nat} (hl : l < 128) (hc : c < 128) (hact : escAct l = .byte c) :
    Step indent [92, l] c := by
  refine ⟨1, Nat.le_refl 1, ?_, ?_⟩
  · simp [utf8s, utf8_ascii hl, utf8_ascii (show 92 < 128 by omega)]
  · intro f r
    simp [utf8s, utf8_ascii hl, utf8_ascii (show 92 < 128 by omega), utf8_ascii hc, parseL, hact]

theorem step_self (indent : List Nat) {c : Nat} (hc : c ≠ 92) : Step indent [c] c := by
  by_cases h3 : c < 128
  · refine ⟨1, Nat.le_refl 1, ?_, ?_⟩
    · simp [utf8s, utf8_ascii h3]
    · intro f r
      simp [utf8s, utf8_ascii h3, parseL, hc]
  · refine ⟨(utf8 c).length, utf8_length_pos c, ?_, ?_⟩
    · simp [utf8s]
    · intro f r
      have := parseL_plain_bytes indent (utf8 c) (utf8_ne92 (by omega)) f r
      simpa [utf8s] using this

theorem step_x (indent : List Nat) {c : Nat} (hc : c < 128) :
    Step indent [92, 120, hexDigit (c / 16), hexDigit (c % 16)] c := by
  have hh1 := hexDigit_lt128 (c / 16) (by omega)
  have hh2 := hexDigit_lt128 (c % 16) (by omega)
  have hpu := parseUint_hex2 (show c / 16 < 16 by omega) (show c % 16 < 16 by omega)
  have hval : c / 16 * 16 + c % 16 = c := by omega
  rw [hval] at hpu
  refine ⟨1, Nat.le_refl 1, ?_, ?_⟩
  · simp [utf8s, utf8_ascii hh1, utf8_ascii hh2, utf8_ascii (show 92 < 128 by omega),
      utf8_ascii (show 120 < 128 by omega)]
  · intro f r
    simp [utf8s, utf8_ascii hh1, utf8_ascii hh2, utf8_ascii (show 92 < 128 by omega),
      utf8_ascii (show 120 < 128 by omega), parseL, escAct_x, hpu]

theorem step_u (indent : List Nat) {c : Nat} (hc : c < 65536) :
    Step indent [92, 117, hexDigit (c / 4096 % 16), hexDigit (c / 256 % 16), hexDigit (c / 16 % 16),
      hexDigit (c % 16)] c := by
  have d1 := hexDigit_lt128 (c / 4096 % 16) (by omega)
  have d2 := hexDigit_lt128 (c / 256 % 16) (by omega)
  have d3 := hexDigit_lt128 (c / 16 % 16) (by omega)
  have d4 := hexDigit_lt128 (c % 16) (by omega)
  have hpu := parseUint_hex4 (show c / 4096 % 16 < 16 by omega) (show c / 256 % 16 < 16 by omega)
    (show c / 16 % 16 < 16 by omega) (show c % 16 < 16 by omega)
  have hval : ((c / 4096 % 16 * 16 + c / 256 % 16) * 16 + c / 16 % 16) * 16 + c % 16 = c := by omega
  rw [hval] at hpu
  refine ⟨1, Nat.le_refl 1, ?_, ?_⟩
  · simp [utf8s, utf8_ascii d1, utf8_ascii d2, utf8_ascii d3, utf8_ascii d4,
      utf8_ascii (show 92 < 128 by omega), utf8_ascii (show 117 < 128 by omega)]
  · intro f r
    simp [utf8s, utf8_ascii d1, utf8_ascii d2, utf8_ascii d3, utf8_ascii d4,
      utf8_ascii (show 92 < 128 by omega), utf8_ascii (show 117 < 128 by omega), parseL, escAct_u, hpu]

theorem step_U (indent : List Nat) {c : Nat} (hc : c < 4294967296) :
    Step indent [92, 85, hexDigit (c / 268435456 % 16), hexDigit (c / 16777216 % 16), hexDigit (c / 1048576 % 16),
      hexDigit (c / 65536 % 16), hexDigit (c / 4096 % 16), hexDigit (c / 256 % 16), hexDigit (c / 16 % 16),
      hexDigit (c % 16)] c := by
  have d1 := hexDigit_lt128 (c / 268435456 % 16) (by omega)
  have d2 := hexDigit_lt128 (c / 16777216 % 16) (by omega)
  have d3 := hexDigit_lt128 (c / 1048576 % 16) (by omega)
  have d4 := hexDigit_lt128 (c / 65536 % 16) (by omega)
  have d5 := hexDigit_lt128 (c / 4096 % 16) (by omega)
  have d6 := hexDigit_lt128 (c / 256 % 16) (by omega)
  have d7 := hexDigit_lt128 (c / 16 % 16) (by omega)
  have d8 := hexDigit_lt128 (c % 16) (by omega)
  have hpu := parseUint_hex8 (show c / 268435456 % 16 < 16 by omega) (show c / 16777216 % 16 < 16 by omega)
    (show c / 1048576 % 16 < 16 by omega) (show c / 65536 % 16 < 16 by omega)
    (show c / 4096 % 16 < 16 by omega) (show c / 256 % 16 < 16 by omega)
    (show c / 16 % 16 < 16 by omega) (show c % 16 < 16 by omega)
  have hval : (((((((c / 268435456 % 16 * 16 + c / 16777216 % 16) * 16 + c / 1048576 % 16) * 16
      + c / 65536 % 16) * 16 + c / 4096 % 16) * 16 + c / 256 % 16) * 16 + c / 16 % 16) * 16 + c % 16) = c := by
    omega
  rw [hval] at hpu
  refine ⟨1, Nat.le_refl 1, ?_, ?_⟩
  · simp [utf8s, utf8_ascii d1, utf8_ascii d2, utf8_ascii d3, utf8_ascii d4, utf8_ascii d5, utf8_ascii d6,
      utf8_ascii d7, utf8_ascii d8, utf8_ascii (show 92 < 128 by omega), utf8_ascii (show 85 < 128 by omega)]
  · intro f r
    simp [utf8s, utf8_ascii d1, utf8_ascii d2, utf8_ascii d3, utf8_ascii d4, utf8_ascii d5, utf8_ascii d6,
      utf8_ascii d7, utf8_ascii d8, utf8_ascii (show 92 < 128 by omega), utf8_ascii (show 85 < 128 by omega),
      parseL, escAct_U, hpu]

/-- reading back what %q printed for one rune below 2^32 -/
theorem parseL_goQuoteRune (indent : List Nat) (isPrint : Nat → Bool) (c : Nat) (hc : c < 4294967296) :
    Step indent (goQuoteRune isPrint c) c := by
  unfold goQuoteRune
  by_cases h1 : c = 34 ∨ c = 92
  · have hb : (decide (c = 34) || decide (c = 92)) = true := by rcases h1 with h | h <;> simp [h]
    rw [if_pos hb]
    rcases h1 with h | h
    · subst h; exact step_byte indent (by omega) (by omega) escAct_dq
    · subst h; exact step_byte indent (by omega) (by omega) escAct_bs
  · have hb : ¬ (decide (c = 34) || decide (c = 92)) = true := by
      simp; omega
    have hn2 : c ≠ 92 := fun h => h1 (Or.inr h)
    rw [if_neg hb]
    by_cases hp : isPrint c = true
    · rw [if_pos hp]; exact step_self indent hn2
    · rw [if_neg hp]
      by_cases e7 : c = 7
      · subst e7; rw [if_pos rfl]; exact step_byte indent (by omega) (by omega) escAct_a
      rw [if_neg e7]
      by_cases e8 : c = 8
      · subst e8; rw [if_pos rfl]; exact step_byte indent (by omega) (by omega) escAct_b
      rw [if_neg e8]
      by_cases e12 : c = 12
      · subst e12; rw [if_pos rfl]; exact step_byte indent (by omega) (by omega) escAct_f
      rw [if_neg e12]
      by_cases e10 : c = 10
      · subst e10; rw [if_pos rfl]; exact step_byte indent (by omega) (by omega) escAct_n
      rw [if_neg e10]
      by_cases e13 : c = 13
      · subst e13; rw [if_pos rfl]; exact step_byte indent (by omega) (by omega) escAct_r
      rw [if_neg e13]
      by_cases e9 : c = 9
      · subst e9; rw [if_pos rfl]; exact step_byte indent (by omega) (by omega) escAct_t
      rw [if_neg e9]
      by_cases e11 : c = 11
      · subst e11; rw [if_pos rfl]; exact step_byte indent (by omega) (by omega) escAct_v
      rw [if_neg e11]
      by_cases hx : c < 32 ∨ c = 127
      · have hxb : (decide (c < 32) || decide (c = 127)) = true := by rcases hx with h | h <;> simp [h]
        rw [if_pos hxb]
        exact step_x indent (by omega)
      · have hxb : ¬ (decide (c < 32) || decide (c = 127)) = true := by simp; omega
        rw [if_neg hxb]
        by_cases hu : c < 65536
        · rw [if_pos hu]; exact step_u indent hu
        · rw [if_neg hu]; exact step_U indent hc

theorem parseFragment_goQuoteBody (isPrint : Nat → Bool) (s : List Nat) (h : ∀ c ∈ s, c < 4294967296) :
    parseFragment (utf8s (goQuoteBody isPrint s)) = some (utf8s s) := by
  rw [parseFragment_eq]
  exact parseL_flatMap [] (goQuoteRune isPrint) (fun c => c < 4294967296)
    (fun c hc => parseL_goQuoteRune [] isPrint c hc) s h _ (Nat.le_refl _)

/-! ### the STR token boundary for %q output -/

theorem scanStr_plain_list (q : Nat) : ∀ (l : List Nat), (∀ x ∈ l, x ≠ 92 ∧ x ≠ q) → ∀ t : List Nat,
    scanStr q (l ++ t) = (scanStr q t).map (fun p => (l ++ p.1, p.2)) := by
  intro l
  induction l with
  | nil => intro _ t; simp
  | cons x l ih =>
    intro h t
    have hx := h x (by simp)
    rw [List.cons_append, scanStr_plain q x _ hx.1 hx.2, ih (fun y hy => h y (by simp [hy])), Option.map_map]
    rfl

theorem scanStr_esc_list (q d : Nat) (l t : List Nat) (hd : d ≠ 10) (hl : ∀ x ∈ l, x ≠ 92 ∧ x ≠ q) :
    scanStr q (92 :: d :: l ++ t) = (scanStr q t).map (fun p => (92 :: d :: l ++ p.1, p.2)) := by
  rw [List.cons_append, List.cons_append, scanStr_esc q d _ hd, scanStr_plain_list q l hl, Option.map_map]
  rfl

theorem hexDigit_plain' (q : Nat) (hq : q = 39 ∨ q = 34) {d : Nat} (h : d < 16) : hexDigit d ≠ 92 ∧ hexDigit d ≠ q := by
  obtain ⟨a, b, c⟩ := hexDigit_plain h
  rcases hq with h' | h' <;> subst h' <;> exact ⟨a, by assumption⟩

theorem scanStr_goQuoteRune (isPrint : Nat → Bool) (c : Nat) (t : List Nat) :
    scanStr 34 (goQuoteRune isPrint c ++ t) = (scanStr 34 t).map (fun p => (goQuoteRune isPrint c ++ p.1, p.2)) := by
  have hx (d : Nat) (h : d < 16) := hexDigit_plain' 34 (Or.inr rfl) h
  unfold goQuoteRune
  by_cases h1 : c = 34 ∨ c = 92
  · have hb : (decide (c = 34) || decide (c = 92)) = true := by rcases h1 with h | h <;> simp [h]
    rw [if_pos hb]
    exact scanStr_esc_list 34 c [] t (by omega) (by simp)
  · have hb : ¬ (decide (c = 34) || decide (c = 92)) = true := by simp; omega
    rw [if_neg hb]
    by_cases hp : isPrint c = true
    · rw [if_pos hp]
      exact scanStr_plain_list 34 [c] (by intro x hx'; simp at hx'; subst hx'; omega) t
    · rw [if_neg hp]
      by_cases e7 : c = 7
      · rw [if_pos e7]; exact scanStr_esc_list 34 97 [] t (by omega) (by simp)
      rw [if_neg e7]
      by_cases e8 : c = 8
      · rw [if_pos e8]; exact scanStr_esc_list 34 98 [] t (by omega) (by simp)
      rw [if_neg e8]
      by_cases e12 : c = 12
      · rw [if_pos e12]; exact scanStr_esc_list 34 102 [] t (by omega) (by simp)
      rw [if_neg e12]
      by_cases e10 : c = 10
      · rw [if_pos e10]; exact scanStr_esc_list 34 110 [] t (by omega) (by simp)
      rw [if_neg e10]
      by_cases e13 : c = 13
      · rw [if_pos e13]; exact scanStr_esc_list 34 114 [] t (by omega) (by simp)
      rw [if_neg e13]
      by_cases e9 : c = 9
      · rw [if_pos e9]; exact scanStr_esc_list 34 116 [] t (by omega) (by simp)
      rw [if_neg e9]
      by_cases e11 : c = 11
      · rw [if_pos e11]; exact scanStr_esc_list 34 118 [] t (by omega) (by simp)
      rw [if_neg e11]
      by_cases hxx : (decide (c < 32) || decide (c = 127)) = true
      · rw [if_pos hxx]
        exact scanStr_esc_list 34 120 [hexDigit (c / 16), hexDigit (c % 16)] t (by omega)
          (by intro x hm; simp at hm; rcases hm with h | h <;> subst h
              · exact hx _ (by simp at hxx; omega)
              · exact hx _ (by omega))
      · rw [if_neg hxx]
        by_cases hu : c < 65536
        · rw [if_pos hu]
          exact scanStr_esc_list 34 117 [_, _, _, _] t (by omega)
            (by intro x hm; simp at hm
                rcases hm with h | h | h | h <;> subst h <;> exact hx _ (by omega))
        · rw [if_neg hu]
          exact scanStr_esc_list 34 85 [_, _, _, _, _, _, _, _] t (by omega)
            (by intro x hm; simp at hm
                rcases hm with h | h | h | h | h | h | h | h <;> subst h <;> exact hx _ (by omega))

theorem scanStr_goQuoteBody (isPrint : Nat → Bool) (rest : List Nat) :
    ∀ s : List Nat, scanStr 34 (goQuoteBody isPrint s ++ 34 :: rest) = some (goQuoteBody isPrint s, rest) := by
  intro s
  induction s with
  | nil => cases rest <;> simp [goQuoteBody, scanStr]
  | cons c s ih =>
    have : goQuoteBody isPrint (c :: s) = goQuoteRune isPrint c ++ goQuoteBody isPrint s := by simp [goQuoteBody]
    rw [this, List.append_assoc, scanStr_goQuoteRune, ih]
    rfl

/-! ### Relation.Format: projection to the sorted heading -/

theorem lookupName_zip_map {α : Type} (f : List Nat → α) :
    ∀ (l : List (List Nat)) (n : List Nat), n ∈ l → lookupName n (l.zip (l.map f)) = some (f n) := by
  intro l
  induction l with
  | nil => intro n h; cases h
  | cons k r ih =>
    intro n h
    by_cases hk : k = n
    · subst hk; simp [lookupName]
    · have hn : n ∈ r := by
        rcases List.mem_cons.1 h with h' | h'
        · exact absurd h'.symm hk
        · exact h'
      simp [lookupName, hk, ih n hn]

theorem insName_perm (n : List Nat) : ∀ l : List (List Nat), (insName n l).Perm (n :: l) := by
  intro l
  induction l with
  | nil => exact List.Perm.refl _
  | cons m r ih =>
    unfold insName
    by_cases h : nameLt m n = true
    · simp only [h, if_true]
      exact ((List.Perm.cons m ih).trans (List.Perm.swap n m r))
    · simp only [h, Bool.false_eq_true, if_false]
      exact List.Perm.refl _

theorem sortNames_perm (ns : List (List Nat)) : (sortNames ns).Perm ns := by
  induction ns with
  | nil => exact List.Perm.refl _
  | cons n r ih =>
    show (insName n (sortNames r)).Perm (n :: r)
    exact (insName_perm n (sortNames r)).trans (List.Perm.cons n ih)

/-! ## Part 4 — the tree level -/

theorem readNum_formatG (n : Int) : readNum (decide (n < 0), formatG n.natAbs) = some n := by
  simp only [readNum, readTok_formatG, Option.map_some]
  by_cases hn : n < 0
  · simp [hn]; omega
  · simp [hn]; omega

theorem readOff_reprOff (off : Int) : readOff (reprOff off) = off := by
  unfold reprOff
  by_cases h0 : off = 0
  · simp [h0, readOff]
  · simp only [h0, if_false, readOff, ofMSD_natDigits]
    by_cases hn : off < 0
    · simp [hn]; omega
    · simp [hn]; omega

theorem isScalar_sanitize (r : Int) : isScalar (sanitize r) = true := by
  unfold sanitize
  split
  · decide
  · split
    · assumption
    · decide

theorem map_sanitize : ∀ (rs : List Int), rs.all (fun r => decide (0 ≤ r) && isScalar r.toNat) = true →
    (rs.map sanitize).map numV = rs.map (fun r => if r < 0 then none else some (V.num r)) := by
  intro rs
  induction rs with
  | nil => intro _; rfl
  | cons r rs ih =>
    intro h
    simp only [List.all_cons, Bool.and_eq_true, decide_eq_true_eq] at h
    obtain ⟨⟨h0, hs⟩, hr⟩ := h
    have hn : ¬ r < 0 := by omega
    have hv : (Int.ofNat r.toNat) = r := by simp; omega
    simp only [List.map_cons, ih hr, sanitize, hn, hs, if_false, if_true, numV, hv]

theorem renderable_ascii {bs : List Nat} (h : renderable bs = true) : ∀ b ∈ bs, b < 128 := by
  intro b hb
  simp only [renderable, Bool.and_eq_true, List.all_eq_true] at h
  have hm := h.2 b hb
  have hall : Expected.renderableBytes.all (fun x => decide (x < 128)) = true := by decide
  rw [List.all_eq_true] at hall
  have := hall b (by simpa using hm)
  simpa using this

theorem holeEnds_map {α β : Type} (f : α → β) (xs : List (Option α)) :
    holeEnds (xs.map (Option.map f)) = holeEnds xs := by
  unfold holeEnds
  rw [List.head?_map, List.getLast?_map]
  cases xs.head? <;> cases xs.getLast? <;> simp <;> (try rename_i a; cases a <;> simp) <;>
    (try rename_i a b; cases a <;> cases b <;> simp)

theorem reprOpts_eq_map (xs : List (Option Rep)) : reprOpts xs = xs.map (Option.map Impl.repr) := by
  induction xs with
  | nil => rfl
  | cons x r ih => cases x <;> simp [reprOpts, ih]

theorem holeEnds_reprOpts (xs : List (Option Rep)) : holeEnds (reprOpts xs) = holeEnds xs := by
  rw [reprOpts_eq_map, holeEnds_map]

theorem length_reprList (xs : List Rep) : (reprList xs).length = xs.length := by
  induction xs with
  | nil => rfl
  | cons x r ih => simp [reprList, ih]

theorem length_denList (xs : List Rep) : (Rep.denList xs).length = xs.length := by
  induction xs with
  | nil => rfl
  | cons x r ih => simp [Rep.denList, ih]

theorem denAttrs_zipNT : ∀ (names : List (List Nat)) (pts : List PT) (vs : List V),
    (names.all (fun n => n.all isScalar && decide (n ≠ [42]))) = true → PT.denList pts = some vs →
    PT.denAttrs (zipNT names pts) = some (Lit.zipAttrs (names.map nameStr) vs) := by
  intro names
  induction names with
  | nil => intro pts vs _ _; simp [zipNT, PT.denAttrs, Lit.zipAttrs]
  | cons n ns ih =>
    intro pts vs hn hd
    cases pts with
    | nil =>
      simp only [PT.denList] at hd
      cases hd
      simp [zipNT, PT.denAttrs, Lit.zipAttrs]
    | cons p ps =>
      simp only [List.all_cons, Bool.and_eq_true, decide_eq_true_eq] at hn
      simp only [PT.denList] at hd
      cases hp : PT.den p with
      | none => simp [hp] at hd
      | some v =>
        cases hps : PT.denList ps with
        | none => simp [hp, hps] at hd
        | some vs' =>
          simp only [hp, hps, Option.some.injEq] at hd
          subst hd
          have hname : parseName (tupleNameRepr n) = some n :=
            parseName_tupleNameRepr n (by intro c hc; exact (List.all_eq_true.1 hn.1.1) c hc)
          have hstar : n ≠ [42] := hn.1.2
          simp [zipNT, PT.denAttrs, hname, hp, ih ps vs' hn.2 hps, Lit.zipAttrs, hstar]

theorem reprAttrs_names : ∀ (as : List (List Nat × Rep)), (as.all (fun a => a.1.all isScalar)) = true →
    (reprAttrs as).filterMap (fun p => parseName p.1) = as.map Prod.fst := by
  intro as
  induction as with
  | nil => intro _; rfl
  | cons a r ih =>
    obtain ⟨n, v⟩ := a
    intro h
    simp only [List.all_cons, Bool.and_eq_true] at h
    have hname : parseName (tupleNameRepr n) = some n :=
      parseName_tupleNameRepr n (by intro c hc; exact (List.all_eq_true.1 h.1) c hc)
    simp [reprAttrs, hname, ih h.2]

theorem prAttrs_scalar : ∀ (as : List (List Nat × Rep)), Rep.prAttrs as = true →
    (as.all (fun a => a.1.all isScalar)) = true := by
  intro as
  induction as with
  | nil => intro _; rfl
  | cons a r ih =>
    obtain ⟨n, v⟩ := a
    intro h
    simp only [Rep.prAttrs, Bool.and_eq_true] at h
    simp [h.1.1.1, ih h.2]

theorem zipNT_names : ∀ (names : List (List Nat)) (pts : List PT),
    (names.all (fun n => n.all isScalar && decide (n ≠ [42]))) = true → pts.length = names.length →
    (zipNT names pts).filterMap (fun p => parseName p.1) = names := by
  intro names
  induction names with
  | nil => intro pts _ _; cases pts <;> simp [zipNT]
  | cons n ns ih =>
    intro pts hn hl
    cases pts with
    | nil => simp at hl
    | cons p ps =>
      simp only [List.all_cons, Bool.and_eq_true] at hn
      have hname : parseName (tupleNameRepr n) = some n :=
        parseName_tupleNameRepr n (by intro c hc; exact (List.all_eq_true.1 hn.1.1) c hc)
      simp only [List.length_cons, Nat.add_right_cancel_iff] at hl
      simp [zipNT, hname, ih ps hn.2 hl]

mutual
theorem den_repr (r : Rep) (h : r.printable = true) : (Impl.repr r).den = some r.den := by
  cases r with
  | num n => simp [Impl.repr, PT.den, Rep.den, readNum_formatG]
  | str off rs =>
    simp only [Rep.printable] at h
    have hq := chooseQuote_cases (rs.map sanitize)
    have hsc : ∀ c ∈ rs.map sanitize, isScalar c = true := by
      intro c hc
      obtain ⟨r, _, rfl⟩ := List.mem_map.1 hc
      exact isScalar_sanitize r
    simp only [Impl.repr, PT.den, scanStr_body _ hq [] (rs.map sanitize), if_true,
      parseFragment_reprEscapeBody [] (rs.map sanitize) _ hq, Option.map_some, utf8dec_utf8s _ hsc,
      map_sanitize rs h, readOff_reprOff, Rep.den]
  | bytes off bs =>
    by_cases hr : renderable bs = true
    · have hq := chooseQuote_cases bs
      have hasc := renderable_ascii hr
      simp only [Impl.repr, hr, if_true, PT.den, scanStr_body _ hq [] bs,
        parseFragment_reprEscapeBody [] bs _ hq, Option.map_some, utf8s_ascii bs hasc, readOff_reprOff, Rep.den]
    · simp only [Impl.repr, hr, Bool.false_eq_true, if_false, PT.den, readOff_reprOff, Rep.den, List.map_map]
      congr 2
      apply List.map_congr_left
      intro b _
      simp [ofMSD_natDigits]
  | arr off xs =>
    simp only [Rep.printable, Bool.and_eq_true, Bool.not_eq_true'] at h
    have ih := denOpts_repr xs h.2
    simp [Impl.repr, PT.den, holeEnds_reprOpts, h.1, ih, readOff_reprOff, Rep.den]
  | dict es =>
    simp only [Rep.printable, Bool.and_eq_true] at h
    have ih := denPairs_repr es h.1
    simp [Impl.repr, PT.den, ih, h.2, Rep.den]
  | set xs =>
    simp only [Rep.printable] at h
    have ih := denList_repr xs h
    simp [Impl.repr, PT.den, ih, Rep.den]
  | tup as =>
    simp only [Rep.printable, Bool.and_eq_true, Bool.not_eq_true'] at h
    have ih := denAttrs_repr as h.2
    have hn := reprAttrs_names as (prAttrs_scalar as h.2)
    simp [Impl.repr, PT.den, ih, Rep.den, hn, h.1]
  | rel names rows =>
    simp only [Rep.printable, Bool.and_eq_true, Bool.not_eq_true'] at h
    by_cases hid : names.all isIdent = true
    · have ih := denRows_repr names rows h.2
      simp [Impl.repr, hid, PT.den, ih, Rep.den]
    · have ih := denRowTups_repr names rows h.1.1 h.1.2 h.2
      simp only [Impl.repr, hid, Bool.false_eq_true, if_false, PT.den, ih, Option.map_some, Rep.den]
  | tt => rfl
theorem denOpts_repr (xs : List (Option Rep)) (h : Rep.prOpts xs = true) :
    PT.denOpts (reprOpts xs) = some (Rep.denOpts xs) := by
  cases xs with
  | nil => rfl
  | cons x r =>
    cases x with
    | none =>
      simp only [Rep.prOpts] at h
      simp [reprOpts, PT.denOpts, Rep.denOpts, denOpts_repr r h]
    | some x =>
      simp only [Rep.prOpts, Bool.and_eq_true] at h
      simp [reprOpts, PT.denOpts, Rep.denOpts, den_repr x h.1, denOpts_repr r h.2]
theorem denPairs_repr (es : List (Rep × Rep)) (h : Rep.prPairs es = true) :
    PT.denPairs (reprPairs es) = some (Rep.denPairs es) := by
  cases es with
  | nil => rfl
  | cons e r =>
    obtain ⟨k, v⟩ := e
    simp only [Rep.prPairs, Bool.and_eq_true] at h
    simp [reprPairs, PT.denPairs, Rep.denPairs, den_repr k h.1.1, den_repr v h.1.2, denPairs_repr r h.2]
theorem denList_repr (xs : List Rep) (h : Rep.prList xs = true) :
    PT.denList (reprList xs) = some (Rep.denList xs) := by
  cases xs with
  | nil => rfl
  | cons x r =>
    simp only [Rep.prList, Bool.and_eq_true] at h
    simp [reprList, PT.denList, Rep.denList, den_repr x h.1, denList_repr r h.2]
theorem denAttrs_repr (as : List (List Nat × Rep)) (h : Rep.prAttrs as = true) :
    PT.denAttrs (reprAttrs as) = some (Rep.denAttrs as) := by
  cases as with
  | nil => rfl
  | cons a r =>
    obtain ⟨n, v⟩ := a
    simp only [Rep.prAttrs, Bool.and_eq_true] at h
    have hname : parseName (tupleNameRepr n) = some n :=
      parseName_tupleNameRepr n (by intro c hc; exact (List.all_eq_true.1 h.1.1.1) c hc)
    have hstar : n ≠ [42] := of_decide_eq_true h.1.1.2
    simp [reprAttrs, PT.denAttrs, Rep.denAttrs, hname, den_repr v h.1.2, denAttrs_repr r h.2, hstar]
theorem denRows_repr (names : List (List Nat)) (rows : List (List Rep)) (h : Rep.prRows names.length rows = true) :
    PT.denRows names (reprRows rows) = some (Rep.denRows names rows) := by
  cases rows with
  | nil => rfl
  | cons row r =>
    simp only [Rep.prRows, Bool.and_eq_true, decide_eq_true_eq] at h
    simp [reprRows, PT.denRows, Rep.denRows, denList_repr row h.1.2, denRows_repr names r h.2, length_denList, h.1.1]
theorem denRowTups_repr (names : List (List Nat)) (rows : List (List Rep)) (ha : ampPair names = false)
    (hn : (names.all (fun n => n.all isScalar && decide (n ≠ [42]))) = true) (h : Rep.prRows names.length rows = true) :
    PT.denList (reprRowTups names rows) = some (Rep.denRows names rows) := by
  cases rows with
  | nil => rfl
  | cons row r =>
    simp only [Rep.prRows, Bool.and_eq_true, decide_eq_true_eq] at h
    have h1 := denAttrs_zipNT names (reprList row) (Rep.denList row) hn (denList_repr row h.1.2)
    have h2 := zipNT_names names (reprList row) hn (by rw [length_reprList]; exact h.1.1)
    simp [reprRowTups, PT.denList, PT.den, Rep.denRows, h1, h2, ha, denRowTups_repr names r ha hn h.2]
end

end Arrai.C12
