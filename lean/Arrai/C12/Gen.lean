/-
  C12 case generator.

  kinds (harness/cmd/c12/main.go):
    reprrt     source of a value → print → read back; observable `<rt>;<out>` (model `Rep.rtModel`, spec `Rep.rtSpec`)
    repr       source → the printed text itself (ties Impl.repr/PT.text to fu.Repr on order-free shapes)
    eval       a string literal with arbitrary escapes → canon (ties Impl.parseFragment to the real reader)
    bundlecfg  two strings through bundleConfig.String()'s %q text and back through the arr.ai reader
    bundle     SetupBundle → OutputArraiz → EvaluateBundleCtx end to end with an awkward file name
  Every random choice goes through `Arrai.Gen`.
-/
import Arrai.C12.Render

namespace Arrai.C12
open Impl

/-! ## alphabets -/

/-- the 40-character alphabet of the exhaustive tier: letters and digits that look like hex/octal digits (they
follow escapes), both quotes, backslash, punctuation that matters to the lexer, the named control escapes, other
controls, DEL, Latin-1, BMP, the replacement character, astral, the last code point -/
def alpha40 : List Nat :=
  [97, 98, 122, 65, 48, 55, 57, 32, 39, 34, 92, 47, 58, 36, 64, 95, 45, 46, 96, 123, 125,
   0, 7, 8, 9, 10, 11, 12, 13, 27, 1, 31, 127, 0x80, 0xE9, 0xFF, 0x6F22, 0xFFFD, 0x1F600, 0x10FFFF]

def genChar : Gen Nat := do
  let r ← rand 20
  if r < 8 then pure (32 + (← rand 95))           -- printable ASCII
  else if r < 11 then pick [39, 34, 92, 39, 34, 92, 96, 36, 64]
  else if r < 14 then rand 32                     -- all 32 controls
  else if r == 14 then pick [127, 0x80, 0x9F, 0xA0, 0xFF]
  else if r == 15 then pure (0x80 + (← rand 0x780))
  else if r == 16 then pick [0x800, 0xD7FF, 0xE000, 0xFFFD, 0xFFFE, 0xFFFF, 0x6F22, 0x2028]
  else if r == 17 then pure (0x800 + (← rand 0xC800))
  else if r == 18 then pick [0x10000, 0x1F600, 0x10FFFF, 0xE0001]
  else pick alpha40

def genChars (maxLen : Nat) : Gen (List Nat) := do
  let n ← rand (maxLen + 1)
  genList n genChar

def identPool : List (List Nat) :=
  [[97], [98], [120], [121], [95, 49], [36], [64], [64, 97], [97, 36, 64, 95, 57], [116, 114, 117, 101],
   [119, 104, 101, 114, 101], [111, 114, 100, 101, 114], [114, 101, 99], [110, 101, 115, 116], [105, 102]]

def genName : Gen (List Nat) := do
  let r ← rand 10
  if r < 5 then pick identPool
  else if r < 7 then pick [[], [97, 32, 98], [46], [97, 46, 98], [49, 97], [39], [34], [39, 34], [92], [10], [64, 123, 125]]
  else genChars 3

def dedupNames (ns : List (List Nat)) : List (List Nat) := ns.eraseDups

/-- names without the wildcard marker `*` and without an `x` / `&x` pair (their own classes, see the corpus) -/
def plainNames (ns : List (List Nat)) : List (List Nat) :=
  let ns := ns.filter (· != [42])
  ns.filter (fun n => !(n.head? == some 38 && ns.contains (n.drop 1)))

/-! ## numbers under the 15-character guard -/
def genInt : Gen Int := do
  let r ← rand 12
  let m : Nat ←
    if r < 5 then rand 12
    else if r < 7 then rand 1000000
    else if r == 7 then pick [999999, 1000000, 1000001, 1234567, 123456789, 100000000000000, 900719925]
    else if r == 8 then do pure ((← rand 1000) * 10 ^ (← rand 12))
    else if r == 9 then do pure ((← rand 1000000000) * 10 ^ (← rand 6))
    else rand 1000000000
  let neg ← chance 1 4
  let n : Int := if neg then - (m : Int) else m
  pure (if (reprNum n).isSome && m < 9007199254740992 then n else (m % 1000 : Nat))

def genOff : Gen Int := do
  let r ← rand 10
  if r < 6 then pure 0
  else if r == 6 then pure 1
  else if r == 7 then pure (-1)
  else if r == 8 then pure ((← rand 5) + 2 : Nat)
  else do
    let m ← pick [7, 1000000, 1234567, 40]
    pure (if (← chance 1 2) then - (m : Int) else m)

/-! ## representations -/

def genStr (holes nonscalar : Bool) : Gen Rep := do
  let cs ← genChars 5
  let cs := if cs.isEmpty then [97] else cs
  let mut rs : List Int := cs.map Int.ofNat
  if holes then
    -- hole markers strictly inside
    let k ← rand 3
    rs := rs.take 1 ++ List.replicate (k + 1) (-1) ++ (if rs.length < 2 then [98] else rs.drop 1)
  if nonscalar then
    let bad ← pick [0xD800, 0xDBFF, 0xDC00, 0xDFFF, 0x110000]
    rs := rs ++ [(bad : Int)]
  pure (.str (← genOff) rs)

def genBytes : Gen Rep := do
  let n ← rand 5
  let r ← rand 3
  let bs ← genList (n + 1) (do
    if r == 0 then pick Expected.renderableBytes
    else if r == 1 then rand 256
    else pick [0, 1, 39, 34, 92, 97, 127, 128, 255])
  pure (.bytes (← genOff) bs)

def withHoles (xs : List Rep) : Gen (List (Option Rep)) := do
  let n := xs.length
  let mut out : List (Option Rep) := []
  let mut i := 0
  for x in xs do
    let hole ← chance 1 5
    out := (if hole && 0 < i && i + 1 < n then none else some x) :: out
    i := i + 1
  pure out.reverse

def dedupKeys (es : List (Rep × Rep)) : List (Rep × Rep) :=
  (es.foldl (fun acc e => if acc.any (fun f => decide (f.1.den = e.1.den)) then acc else e :: acc) []).reverse

def genLeaf (kf : Bool) : Gen Rep := do
  let r ← rand 12
  match r with
  | 0 => pure .tt
  | 1 => pure (.set [])
  | 2 | 3 | 4 => genStr false false
  | 5 => genBytes
  | 6 => if kf then genStr true false else genStr false false
  | 7 => if kf && (← chance 1 3) then genStr false true else genStr false false
  | _ => do pure (.num (← genInt))

def genRep (kf : Bool) : Nat → Gen Rep
  | 0 => genLeaf kf
  | d + 1 => do
    let r ← rand 16
    match r with
    | 0 | 1 | 2 => genLeaf kf
    | 3 | 4 => do
      let n ← rand 4
      let xs ← genList (n + 1) (genRep kf d)
      pure (.arr (← genOff) (← withHoles xs))
    | 5 | 6 => do
      let n ← rand 3
      let es ← genList (n + 1) (do pure ((← genRep kf d), (← genRep kf d)))
      let dup ← chance 1 6
      if kf && dup then
        -- a multi-valued key: the first key again with a different value
        match es with
        | (k, v) :: _ => pure (.dict (dedupKeys es ++ [(k, .arr 0 [some v])]))
        | [] => pure (.dict es)
      else pure (.dict (dedupKeys es))
    | 7 | 8 => do
      let n ← rand 4
      pure (.set (← genList (n + 1) (genRep kf d)))
    | 9 | 10 | 11 => do
      let n ← rand 4
      let names := sortNames (dedupNames (← genList n genName))
      let names := if kf then names else plainNames names
      let vals ← genList names.length (genRep kf d)
      pure (.tup (names.zip vals))
    | 12 => do pure (.tup [([64, 110, 101, 103], ← genRep kf d)])          -- (@neg: x)
    | 13 | 14 => do
      let w ← if (← chance 1 3) then pure (2 + (← rand 3)) else rand 3
      let names := sortNames (dedupNames (← genList (w + 1) (do
        if (← chance 4 5) then pick identPool else genName)))
      let names := if kf then names else plainNames names
      let names := if names.isEmpty then [[97]] else names
      let m ← rand 3
      let rows ← genList (m + 1) (genList names.length (genRep kf d))
      pure (.rel names rows)
    | _ => genBytes

/-- a relation with 3–5 identifier columns and 1–4 rows whose cells are pairwise different (so that a row printed in
another column order is a different relation); `Rep.src` builds three quarters of these by chains of joins, i.e.
with a permuted physical column order -/
def genWideRel (kf : Bool) : Gen Rep := do
  let w ← rand 3
  let names := sortNames ((← genList 8 (pick identPool)).eraseDups.take (w + 3))
  let names := if names.length < 3 then [[97], [98], [99], [100]] else names
  let m ← rand 4
  let mut rows : List (List Rep) := []
  for r in [0:m + 1] do
    let mut row : List Rep := []
    for j in [0:names.length] do
      let k ← rand 6
      let cell : Rep ←
        if k < 3 then pure (.num (Int.ofNat (100 * (j + 1) + r)))
        else if k == 3 then pure (.str 0 [Int.ofNat (97 + j), Int.ofNat (48 + r)])
        else if k == 4 then pure (.arr 0 [some (.num (Int.ofNat (10 * j + r))), some (.str 0 [Int.ofNat (65 + j)])])
        else do
          -- an arbitrary value, tagged so that it stays different from its neighbours
          pure (.tup [([99], .num (Int.ofNat (10 * j + r))), ([118], ← genLeaf kf)])
      row := row ++ [cell]
    rows := rows ++ [row]
  pure (.rel names rows)

/-- the wide relation at top level or inside a tuple / array / dict (key or value) / set / another relation's cell -/
def genNestedWideRel : Gen Rep := do
  let r ← genWideRel false
  let other ← genRep false 1
  let k ← rand 8
  match k with
  | 0 | 1 => pure r
  | 2 => pure (.tup [([97], other), ([114], r)])
  | 3 => pure (.arr (← genOff) [some r, none, some other, some (← genWideRel false)])
  | 4 => pure (.dict (dedupKeys [(r, other), (.num 1, ← genWideRel false)]))
  | 5 => pure (.set [r, other, .num 0])
  | 6 => pure (.rel [[107], [118]] [[.num 1, r], [.num 2, ← genWideRel false]])
  | _ => pure (.tup [([64, 110, 101, 103], .set [.arr 0 [some r]])])

/-! ## cases -/

def rtCase (id stratum : String) (r : Rep) : Case :=
  { id := id, cls := r.cls, kind := "reprrt", stratum := stratum, model := r.rtModel, spec := r.rtSpec,
    payload := [r.src] }

/-- a hand-written source with the expected observable (values outside `Rep`: decimals, sugar-like headings) -/
def srcCase (id stratum cls src model spec : String) : Case :=
  { id := id, cls := cls, kind := "reprrt", stratum := stratum, model := model, spec := spec, payload := [src] }

/-- a source evaluated with the shared `eval` operation -/
def srcCase' (id stratum src expected : String) : Case :=
  { id := id, cls := "good", kind := "eval", stratum := stratum, model := expected, spec := expected, payload := [src] }

/-- the printed text itself, for shapes whose element order is not a matter of the value order -/
def textCase (id stratum : String) (r : Rep) : Case :=
  let t := (Impl.repr r).text
  { id := id, cls := "good", kind := "repr", stratum := stratum, model := t, spec := t, payload := [r.src] }

def genTextRep : Gen Rep := do
  let leaf : Gen Rep := do
    let r ← rand 8
    if r < 3 then genStr false false
    else if r == 3 then genStr true false
    else if r == 4 then genBytes
    else if r == 5 then pure .tt
    else do pure (.num (← genInt))
  let r ← rand 10
  match r with
  | 0 | 1 | 2 => leaf
  | 3 => do
    let n ← rand 3
    let xs ← genList (n + 1) leaf
    pure (.arr (← genOff) (← withHoles xs))
  | 4 => do
    let names := sortNames (plainNames (dedupNames [← genName, ← genName]))
    let vals ← genList names.length leaf
    pure (.tup (names.zip vals))
  | 5 => do pure (.dict [(← leaf, ← leaf)])
  | 6 => do pure (.set [← leaf])
  | 7 => do
    let a ← genName
    let b ← pick identPool
    let names := sortNames (plainNames (dedupNames [a, b]))
    let row ← genList names.length leaf
    pure (.rel names [row])
  | _ => do
    -- one row, 3–5 columns, mostly join-built: the printed row must follow the sorted heading
    let rel ← genWideRel false
    match rel with
    | .rel names (row :: _) => pure (.rel names [row])
    | r => pure r

/-! ### the reader on arbitrary (well-formed) escape sequences -/
def genFragment : Gen (List Nat) := do
  let r ← rand 14
  let hexd : Gen Nat := do pure (hexDigit (← rand 16))
  let hexU : Gen Nat := do pick [48, 57, 65, 70, 97, 102]
  match r with
  | 0 | 1 | 2 => do pure [← pick [97, 98, 66, 67, 48, 49, 55, 32, 102, 70]]      -- hex-looking plain characters
  | 3 => do pure (utf8 (← pick [0xE9, 0x6F22, 0x1F600, 0xFFFD, 0x7F, 0x80]))
  | 4 => do pure [92, 120, ← hexU, ← hexU]
  | 5 => do pure [92, 117, ← hexd, ← hexd, ← hexd, ← hexd]
  | 6 => do pure [92, 85, 48, 48, 48, ← pick [48, 49], ← hexd, ← hexd, ← hexd, ← hexd]
  | 7 => do pure [92, ← pick [48, 49, 50, 51], 48 + (← rand 8), 48 + (← rand 8)]
  | 8 => do pure [92, ← pick [97, 98, 101, 102, 110, 114, 116, 118]]
  | 9 => do pure [92, ← pick [92, 39, 34]]
  | 10 => pure [92, 120, 52, 49]
  | 11 => pure [92, 117, 48, 48, 52, 49]
  | 12 => pure [92, 49, 48, 49]
  | _ => do
    -- mostly \i (empty indent); sometimes an escape that must be rejected
    if (← chance 3 4) then pure [92, 105]
    else pick [[92, 113], [92, 120, 52, 103], [92, 52, 48, 48], [92, 117, 49, 50, 32, 120], [92, 58], [92, 85, 48, 48]]

def readerCase (id : String) (body : List Nat) (q : Nat) : Case :=
  let src := strOf ([q] ++ utf8dec body ++ [q])
  match parseFragment body with
  | some bs =>
    let v := V.mkSeq "@char" 0 ((utf8dec bs).map numV)
    { id := id, cls := "good", kind := "eval", stratum := "reader", model := v.canon, spec := v.canon, payload := [src] }
  | none =>
    -- unknown / truncated / out-of-range escape: a compile error (it was a panic before the repair)
    { id := id, cls := "good", kind := "eval", stratum := "reader/bad", model := "error", spec := "error",
      payload := [src] }

def cps (s : List Nat) : String := ",".intercalate (s.map toString)

def cfgCase (id stratum : String) (root file : List Nat) : Case :=
  { id := id, cls := "good", kind := "bundlecfg", stratum := stratum, model := "same", spec := "same",
    payload := [cps root, cps file] }

def bundleCase (id : String) (name : List Nat) : Case :=
  { id := id, cls := "good", kind := "bundle", stratum := "bundle/e2e", model := "ok", spec := "ok", payload := [cps name] }

def genCase (idx : Nat) (big : Bool) : Gen Case := do
  let id := s!"C12-{idx}"
  let r ← rand 22
  if r ≥ 20 then
    pure (rtCase id "reprrt/joinrel" (← genNestedWideRel))
  else if r < 10 then
    let deep ← chance 1 8
    let d ← if big && deep then pure 3 else rand 3
    let rep ← genRep false (d + 1)
    pure (rtCase id s!"reprrt/d{d + 1}" rep)
  else if r < 12 then
    let d ← rand 3
    let rep ← genRep true (d + 1)
    pure (rtCase id "reprrt/kf-mix" rep)
  else if r < 14 then
    -- strings and names on their own: the leaves the escape codec is about
    let cs ← genChars 8
    let cs := if cs.isEmpty then [92] else cs
    if (← chance 1 2) then pure (rtCase id "reprrt/string" (.str (← genOff) (cs.map Int.ofNat)))
    else pure (rtCase id "reprrt/name" (.tup [(cs, .num 1)]))
  else if r < 16 then
    pure (textCase id "text" (← genTextRep))
  else if r < 18 then
    let n ← rand 5
    let frags ← genList (n + 1) genFragment
    pure (readerCase id frags.flatten (← pick [39, 34]))
  else if r == 18 then
    let file ← genChars 6
    let root ← genChars 4
    pure (cfgCase id "bundlecfg" root file)
  else
    -- decimals: short literals, so the shortest form stays under the guard
    let m ← rand 10000000
    let p ← rand 8
    let ds := natDigits m
    let text := if p ≥ ds.length then "0." ++ strOf ((List.replicate (p - ds.length) 0 ++ ds).map (· + 48))
                else strOf ((ds.take (ds.length - p)).map (· + 48)) ++ "." ++ strOf ((ds.drop (ds.length - p)).map (· + 48))
    let text := if text.endsWith "." then text ++ "5" else text
    let e ← rand 9
    let both ← chance 1 2
    let src := if both then "[" ++ text ++ ", -" ++ text ++ "]" else "(a: " ++ text ++ "e-" ++ toString e ++ ")"
    pure (srcCase id "reprrt/decimal" "good" src "same;repr" "same;repr")

/-- witnesses of the repaired defects, of the open findings and minimised probes; always run first -/
def corpus : List Case :=
  let s (cs : List Nat) : Rep := .str 0 (cs.map Int.ofNat)
  [ -- repaired: the character after \xNN / \uNNNN / \NNN was dropped
    readerCase "C12-corpus-0" [92, 120, 52, 49, 66, 67] 34,
    readerCase "C12-corpus-1" [92, 117, 48, 48, 52, 49, 66, 67] 39,
    readerCase "C12-corpus-2" [92, 85, 48, 48, 48, 49, 70, 54, 48, 48, 33] 39,
    -- repaired: octal escapes above \077 panicked
    readerCase "C12-corpus-3" [92, 49, 48, 49, 92, 51, 55, 55, 122] 34,
    rtCase "C12-corpus-4" "corpus" (s [1, 65]),                       -- prints '\x01A'
    rtCase "C12-corpus-5" "corpus" (.tup [([1, 102], .num 1)]),
    -- repaired: an offset byte array printed without its offset
    rtCase "C12-corpus-6" "corpus" (.bytes 2 [1, 2]),
    rtCase "C12-corpus-7" "corpus" (.bytes (-2) [97, 98, 99]),
    -- repaired: a relation with a non-identifier heading printed as {|a b| …}
    rtCase "C12-corpus-8" "corpus" (.rel [[97, 32, 98]] [[.num 1], [.num 2]]),
    rtCase "C12-corpus-9" "corpus" (.rel [[], [99]] [[.num 1, .num 2], [.num 3, .num 4]]),
    -- repaired: bad escapes panicked in the compiler (C12-corpus-13..15 and -39..41)
    readerCase "C12-corpus-39" [97, 92] 34,
    srcCase' "C12-corpus-40" "corpus/bad-escape" "%\\" "error",
    srcCase' "C12-corpus-41" "corpus/bad-escape" "(a: 1).'\\q'" "error",
    -- open findings
    rtCase "C12-corpus-10" "corpus" (.str 0 [97, -1, -1, 99]),
    rtCase "C12-corpus-11" "corpus" (.dict [(s [97], .num 1), (s [97], .num 2)]),
    rtCase "C12-corpus-12" "corpus" (.str 0 [0xD800]),
    readerCase "C12-corpus-13" [92, 113] 34,
    readerCase "C12-corpus-14" [92, 120, 52] 34,
    readerCase "C12-corpus-15" [92, 52, 48, 48] 34,
    rtCase "C12-corpus-34" "corpus" (.tup [([42], .num 1)]),                 -- //tuple({'*': 1})
    rtCase "C12-corpus-35" "corpus" (.rel [[42], [97]] [[.num 1, .num 2], [.num 3, .num 4]]),
    -- a tuple with both x and &x: kept by a literal, stripped by TupleExpr.Eval when some value is not a literal
    rtCase "C12-corpus-42" "corpus" (.tup [([], .num 1), ([38], .bytes 0 [97])]),
    rtCase "C12-corpus-43" "corpus" (.tup [([38, 97], .num (-1)), ([97], .num 2)]),
    -- relations stored with a permuted physical column order (join results): a printer that slices instead of
    -- projecting prints {|a, b, c, d| (1, 2, 3, 4)} for the first one
    srcCase "C12-corpus-44" "corpus/joinrel" "good" "{|a, c| (1, 2)} <&> {|a, b, d| (1, 3, 4)}" "same;repr" "same;repr",
    srcCase "C12-corpus-45" "corpus/joinrel" "good"
      "({|a, c| (1, 2), (5, 6)} <&> ({|a, d| (1, 4), (5, 8)} <&> {|a, b| (1, 3), (5, 7)})) where .a > 1" "same;repr" "same;repr",
    srcCase "C12-corpus-46" "corpus/joinrel" "good"
      "(x: [({|k, c| ('x', 2)} <&> {|k, b| ('x', [1, , 2])} <&> {|a, k| ({}, 'x')}) | {|a, b, c, k| (1, 2, 3, 'y')}])"
      "same;repr" "same;repr",
    { id := "C12-corpus-47", cls := "good", kind := "repr", stratum := "corpus/joinrel",
      model := "{|a, b, c, d| (1, 3, 2, 4)}", spec := "{|a, b, c, d| (1, 3, 2, 4)}",
      payload := ["{|a, c| (1, 2)} <&> {|a, b, d| (1, 3, 4)}"] },
    -- probes that hold
    rtCase "C12-corpus-16" "corpus" (.arr (-1) [some (.num (-1)), none, some (.num (-1234567))]),
    rtCase "C12-corpus-17" "corpus" (.str (-1234567) [39, 34, 92, 127, 0, 0x1F600]),
    rtCase "C12-corpus-18" "corpus"
      (.tup [([119, 104, 101, 114, 101], .num 1), ([114, 101, 99], .num 2), ([116, 114, 117, 101], .num 3),
             ([64], .num 4), ([36], .num 5), ([46], .num 6), ([], .num 7)]),
    rtCase "C12-corpus-19" "corpus" (.tup [([64, 110, 101, 103], s [120])]),
    rtCase "C12-corpus-20" "corpus" (.set [.tt, .set [], .set [.set []], .tup []]),
    srcCase "C12-corpus-21" "corpus/sugar" "good" "{|@, @item, x| (0, 1, 2), (1, 1, 2)}" "same;repr" "same;repr",
    srcCase "C12-corpus-22" "corpus/sugar" "good" "{|@, @value| (1, 2), (3, 'x')}" "same;repr" "same;repr",
    srcCase "C12-corpus-23" "corpus/sugar" "good" "{|@, @char| (0, 97), (1, 98)}" "same;raw" "same;raw",
    srcCase "C12-corpus-24" "corpus/sugar" "good" "{|@, @byte| (3, 1), (4, 2)}" "same;raw" "same;raw",
    srcCase "C12-corpus-25" "corpus/sugar" "good" "{(@: 0, @item: 1, x: 2)}" "same;repr" "same;repr",
    srcCase "C12-corpus-26" "corpus/sugar" "KF-string-holes-print" "{|@, @char| (0, 97), (2, 99)}"
      "diff:{(@:0,@char:97),(@:2,@char:99)}|{(@:0,@char:97),(@:1,@char:65533),(@:2,@char:99)};raw" "same;raw",
    srcCase "C12-corpus-27" "corpus/sugar" "KF-dict-dupkey-print" "{|@, @value| (1, 2), (1, 3)}"
      "reparse-error;repr" "same;repr",
    srcCase "C12-corpus-28" "corpus/decimal" "good" "[0.5, -0.001, 1e-7, 1e21, 123456789.5, 1.5e300]" "same;repr" "same;repr",
    srcCase "C12-corpus-29" "corpus/str.repr" "good" "//str.repr(//str.repr('a\\'b'))" "same;raw" "same;raw",
    -- printing panicked inside Format (Less of two byte arrays / of two union sets): repaired by C06's commits
    srcCase "C12-corpus-36" "corpus/less" "good" "{<<233, 167>>, <<53, 7>>, 2\\<<53, 7>>}" "same;repr" "same;repr",
    srcCase "C12-corpus-37" "corpus/less" "good" "{{(a: 1), (b: 2)}, {(a: 1), (b: 3)}}" "same;repr" "same;repr",
    srcCase "C12-corpus-38" "corpus/less" "good" "{{(a: 1), (b: 2)}: 1, {(a: 1), (b: 3)}: 2}" "same;repr" "same;repr",
    cfgCase "C12-corpus-30" "corpus" [34, 92, 10, 1, 127, 0xE9, 0x1F600, 39] [],
    cfgCase "C12-corpus-31" "corpus" [1, 65, 66] [0x85, 70, 0xAD, 97, 0x2028, 98, 0xE0001, 99],
    bundleCase "C12-corpus-32" ([97, 32, 34, 39, 92, 0xE9, 0x1F600, 1, 0x85, 70] ++ [46, 97, 114, 114, 97, 105]),
    bundleCase "C12-corpus-33" [109, 46, 97, 114, 114, 97, 105] ]

/-- all strings of length ≤ 2 over `alpha40` -/
def shortStrings : List (List Nat) :=
  [[]] ++ alpha40.map (fun a => [a]) ++ (alpha40.flatMap (fun a => alpha40.map (fun b => [a, b])))

def exhaustive : List Case := Id.run do
  let mut out : List Case := []
  let mut i := 0
  for cs in shortStrings do
    let rs := cs.map Int.ofNat
    if !cs.isEmpty then
      out := rtCase s!"C12-xs-{i}" "exhaustive/string" (.str 0 rs) :: out
    out := rtCase s!"C12-xn-{i}" "exhaustive/name" (.tup [(cs, .tt)]) :: out
    out := textCase s!"C12-xt-{i}" "exhaustive/text" (.tup [(cs, if cs.isEmpty then .tt else .str 0 rs)]) :: out
    out := cfgCase s!"C12-xc-{i}" "exhaustive/bundlecfg" cs cs.reverse :: out
    if !cs.contains 47 && !cs.contains 0 && !cs.isEmpty && cs != [46] && cs != [46, 46] && i % 7 == 0 then
      out := bundleCase s!"C12-xb-{i}" (cs ++ [46, 97, 114, 114, 97, 105]) :: out
    i := i + 1
  pure out.reverse

def gen (seed n : Nat) (thorough : Bool) : List Case := Id.run do
  let mut out := corpus.reverse
  for i in [0:n] do
    let (c, _) := (genCase i thorough).run (seedOf seed (1200000 + i))
    out := c :: out
  if thorough then
    out := exhaustive.reverse ++ out
  pure out.reverse

end Arrai.C12
