import Arrai.Core.DriverMain
import Arrai.C12.Gen

def main (args : List String) : IO UInt32 := Arrai.driverMain Arrai.C12.gen args
