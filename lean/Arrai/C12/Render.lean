/-
  C12 rendering (not used by any theorem): the printed tree as text (`PT.text`, what fu.Repr must produce),
  arr.ai source that builds a representation (`Rep.src`), the class predicates of the open findings and the
  observable the model predicts for the harness operation `reprrt`.  Core-only.
-/
import Arrai.C12.Model

namespace Arrai.C12
open Impl

def strOf (cs : List Nat) : String := String.ofList (cs.map Char.ofNat)

def hexN (width n : Nat) : String :=
  strOf ((List.range width).reverse.map (fun k => hexDigit (n / 16 ^ k % 16)))

def offText : Off → String
  | none => ""
  | some (neg, ds) => (if neg then "-" else "") ++ strOf (ds.map (· + 48)) ++ "\\"

def nameTokText : NameTok → String
  | .bare cs => strOf cs
  | .quoted q body => strOf ([q] ++ body ++ [q])

/-! ## the printed text -/
namespace PT
mutual
def text : PT → String
  | .num neg t => (if neg then "-" else "") ++ strOf t.chars
  | .str off q body => offText off ++ strOf ([q] ++ body ++ [q])
  | .bytesNums off bs => offText off ++ "<<" ++ ", ".intercalate (bs.map (fun ds => strOf (ds.map (· + 48)))) ++ ">>"
  | .bytesStr off q body => offText off ++ "<<" ++ strOf ([q] ++ body ++ [q]) ++ ">>"
  | .arr off xs => offText off ++ "[" ++ ", ".intercalate (textOpts xs) ++ "]"
  | .dict kvs => "{" ++ ", ".intercalate (textPairs kvs) ++ "}"
  | .set xs => "{" ++ ", ".intercalate (textList xs) ++ "}"
  | .tup kvs => "(" ++ ", ".intercalate (textAttrs kvs) ++ ")"
  | .rel names rows => "{|" ++ ", ".intercalate (names.map strOf) ++ "| " ++ ", ".intercalate (textRows rows) ++ "}"
  | .kwTrue => "true"
def textOpts : List (Option PT) → List String
  | [] => []
  | some x :: r => text x :: textOpts r
  | none :: r => "" :: textOpts r
def textPairs : List (PT × PT) → List String
  | [] => []
  | (k, v) :: r => (text k ++ ": " ++ text v) :: textPairs r
def textList : List PT → List String
  | [] => []
  | x :: r => text x :: textList r
def textAttrs : List (NameTok × PT) → List String
  | [] => []
  | (n, v) :: r => (nameTokText n ++ ": " ++ text v) :: textAttrs r
def textRows : List (List PT) → List String
  | [] => []
  | row :: r => ("(" ++ ", ".intercalate (textList row) ++ ")") :: textRows r
end
end PT

/-! ## arr.ai source building a representation -/

/-- a code point inside a single-quoted source literal; exercises the \x, \u and \U reader paths -/
def srcChar (c : Nat) : String :=
  if c == 39 then "\\'" else if c == 92 then "\\\\"
  else if 32 ≤ c && c < 127 then strOf [c]
  else if c < 256 then "\\x" ++ hexN 2 c
  else if c < 65536 then "\\u" ++ hexN 4 c
  else "\\U" ++ hexN 8 c

def srcStrLit (cs : List Nat) : String := "'" ++ String.join (cs.map srcChar) ++ "'"

def srcName (n : List Nat) : String := if isIdent n then strOf n else srcStrLit n

def srcInt (n : Int) : String := if n < 0 then "(" ++ toString n ++ ")" else toString n

def srcOff (off : Int) (body : String) : String := if off == 0 then body else srcInt off ++ "\\" ++ body

/-- `{(@: i, @char: c), …}` for a string that cannot be written as a literal (holes, non-scalar code points) -/
def srcCharTuples (off : Int) : List Int → List String
  | [] => []
  | r :: rs =>
    (if r < 0 then [] else ["(@: " ++ srcInt off ++ ", @char: " ++ toString r ++ ")"]) ++ srcCharTuples (off + 1) rs

def allDistinct (vs : List V) : Bool := decide vs.Nodup

/-! ### relations built by joins: the same value, stored with a permuted physical column order

A relation literal stores its columns in sorted order; `<&>` appends the right operand's new columns to the left
operand's, so a chain of joins over 1- and 2-column literals yields the same relation with its columns stored in
another order (`{|a, c| …} <&> {|a, b| …}` is stored as a, c, b).  `where`, `with` and `|` keep that order.
Relation.Format must project every row to the sorted heading; the sources below make it do so. -/

def strHash (s : String) : Nat := s.foldl (fun h c => (h * 31 + c.toNat) % 4294967296) 7

/-- the `v`-th permutation of `l` (factorial number system) -/
def permuteBy : Nat → List α → Nat → List α
  | 0, _, _ => []
  | fuel + 1, l, v =>
    if l.isEmpty then []
    else
      let i := v % l.length
      match l[i]? with
      | some x => x :: permuteBy fuel (l.eraseIdx i) (v / l.length)
      | none => []

/-- `((p1 <&> p2) <&> p3)`, `(p1 <&> (p2 <&> p3))` or a balanced tree -/
def assocJoin : Nat → Nat → List String → String
  | _, _, [] => "{}"
  | _, _, [p] => p
  | 0, _, p :: ps => p ++ (ps.map (fun q => " <&> " ++ q)).foldl (· ++ ·) ""
  | fuel + 1, mode, ps =>
    if mode % 3 == 0 then
      "(" ++ assocJoin fuel mode (ps.take (ps.length - 1)) ++ " <&> " ++ (ps.getLast?.getD "{}") ++ ")"
    else if mode % 3 == 1 then
      "(" ++ (ps.head?.getD "{}") ++ " <&> " ++ assocJoin fuel mode (ps.drop 1) ++ ")"
    else
      "(" ++ assocJoin fuel mode (ps.take (ps.length / 2)) ++ " <&> " ++ assocJoin fuel mode (ps.drop (ps.length / 2)) ++ ")"

def relLit (names : List String) (rows : List (List String)) : String :=
  "{|" ++ ", ".intercalate names ++ "| " ++ ", ".intercalate (rows.map (fun r => "(" ++ ", ".intercalate r ++ ")")) ++ "}"

/-- source of the relation `names`/`cells` (cell sources, rows in heading order) as a chain of joins on column `key`
(whose values are pairwise distinct); `v` selects piece order, association, an extra 1-column piece and whether the
last row is added by `|`, by `with` or the whole is passed through `where` -/
def joinSrc (names : List String) (cells : List (List String)) (key v : Nat) : String :=
  let kname := names.getD key ""
  let others := (List.range names.length).filter (· != key)
  let tail := v % 4                     -- 0: plain, 1: where true, 2: | literal, 3: with tuple
  let split := (tail == 2 || tail == 3) && cells.length ≥ 2
  let jrows := if split then cells.take (cells.length - 1) else cells
  let piece (j : Nat) : String :=
    relLit [kname, names.getD j ""] (jrows.map (fun r => [r.getD key "", r.getD j ""]))
  let keyOnly := relLit [kname] (jrows.map (fun r => [r.getD key ""]))
  let pieces0 := others.map piece
  let pieces1 := if (v / 4) % 3 == 0 then pieces0 ++ [keyOnly] else pieces0
  let pieces := permuteBy pieces1.length pieces1 (v / 12)
  let joined := assocJoin pieces.length (v / 7) pieces
  let last := cells.getLast?.getD []
  if !split then (if tail == 1 then "(" ++ joined ++ " where true)" else joined)
  else if tail == 2 then
    (if (v / 5) % 2 == 0 then "(" ++ joined ++ " | " ++ relLit names [last] ++ ")"
     else "(" ++ relLit names [last] ++ " | " ++ joined ++ ")")
  else "(" ++ joined ++ " with (" ++ ", ".intercalate ((names.zip last).map (fun p => p.1 ++ ": " ++ p.2)) ++ "))"

/-- index of a column whose values are pairwise distinct (a join key), searching from `start` -/
def keyColumn (width start : Nat) (cols : Nat → List V) : Option Nat :=
  ((List.range width).map (fun i => (i + start) % width)).find? (fun j => allDistinct (cols j))

namespace Rep
mutual
def src : Rep → String
  | .num n => srcInt n
  | .str off rs =>
    if rs.all (fun r => decide (0 ≤ r) && isScalar r.toNat) then srcOff off (srcStrLit (rs.map Int.toNat))
    else "{" ++ ", ".intercalate (srcCharTuples off rs) ++ "}"
  | .bytes off bs => srcOff off ("<<" ++ ", ".intercalate (bs.map toString) ++ ">>")
  | .arr off xs => srcOff off ("[" ++ ", ".intercalate (srcOpts xs) ++ "]")
  | .dict es =>
    if allDistinct ((denPairs es).map Prod.fst) then "{" ++ ", ".intercalate (srcPairs es) ++ "}"
    else "(" ++ " | ".intercalate ((srcPairs es).map (fun p => "{" ++ p ++ "}")) ++ ")"
  | .set xs => "{" ++ ", ".intercalate (srcList xs) ++ "}"
  | .tup as =>
    -- an attribute named `*` cannot be written in a tuple literal: build the tuple from a dict
    if as.any (fun a => a.1 == [42]) then "//tuple({" ++ ", ".intercalate (srcDictAttrs as) ++ "})"
    else "(" ++ ", ".intercalate (srcAttrs as) ++ ")"
  | .rel names rows =>
    if names.all isIdent then
      let lit := "{|" ++ ", ".intercalate (names.map strOf) ++ "| " ++ ", ".intercalate (srcRows rows) ++ "}"
      -- three or more columns: mostly built by joins, so that the physical column order is a permutation
      let h := strHash lit
      if names.length ≥ 3 && h % 4 != 0 && rows.all (fun r => r.length == names.length) then
        match keyColumn names.length (h / 4) (fun j => rows.map (fun r => ((denList r).getD j (V.num 0)))) with
        | some k => joinSrc (names.map strOf) (srcCells rows) k (h / 16)
        | none => lit
      else lit
    else "{" ++ ", ".intercalate (srcRowTups names rows) ++ "}"
  | .tt => "true"
def srcOpts : List (Option Rep) → List String
  | [] => []
  | some x :: r => src x :: srcOpts r
  | none :: r => "" :: srcOpts r
def srcPairs : List (Rep × Rep) → List String
  | [] => []
  | (k, v) :: r => (src k ++ ": " ++ src v) :: srcPairs r
def srcList : List Rep → List String
  | [] => []
  | x :: r => src x :: srcList r
def srcAttrs : List (List Nat × Rep) → List String
  | [] => []
  | (n, v) :: r => (srcName n ++ ": " ++ src v) :: srcAttrs r
def srcDictAttrs : List (List Nat × Rep) → List String
  | [] => []
  | (n, v) :: r => (srcStrLit n ++ ": " ++ src v) :: srcDictAttrs r
def srcRows : List (List Rep) → List String
  | [] => []
  | row :: r => ("(" ++ ", ".intercalate (srcList row) ++ ")") :: srcRows r
def srcCells : List (List Rep) → List (List String)
  | [] => []
  | row :: r => srcList row :: srcCells r
def srcRowTups (names : List (List Nat)) : List (List Rep) → List String
  | [] => []
  | row :: r =>
    (if names.any (· == [42]) then
       "//tuple({" ++ ", ".intercalate ((names.zip (srcList row)).map (fun p => srcStrLit p.1 ++ ": " ++ p.2)) ++ "})"
     else "(" ++ ", ".intercalate ((names.zip (srcList row)).map (fun p => srcName p.1 ++ ": " ++ p.2)) ++ ")")
      :: srcRowTups names r
end

/-! ## does some node satisfy `p`? -/
mutual
def anyNode (p : Rep → Bool) : Rep → Bool
  | .arr off xs => p (.arr off xs) || anyOpts p xs
  | .dict es => p (.dict es) || anyPairs p es
  | .set xs => p (.set xs) || anyList p xs
  | .tup as => p (.tup as) || anyAttrs p as
  | .rel names rows => p (.rel names rows) || anyRows p rows
  | r => p r
def anyOpts (p : Rep → Bool) : List (Option Rep) → Bool
  | [] => false
  | some x :: r => anyNode p x || anyOpts p r
  | none :: r => anyOpts p r
def anyPairs (p : Rep → Bool) : List (Rep × Rep) → Bool
  | [] => false
  | (k, v) :: r => anyNode p k || anyNode p v || anyPairs p r
def anyList (p : Rep → Bool) : List Rep → Bool
  | [] => false
  | x :: r => anyNode p x || anyList p r
def anyAttrs (p : Rep → Bool) : List (List Nat × Rep) → Bool
  | [] => false
  | (_, v) :: r => anyNode p v || anyAttrs p r
def anyRows (p : Rep → Bool) : List (List Rep) → Bool
  | [] => false
  | row :: r => anyList p row || anyRows p r
end

/-- class predicates of the open findings -/
def hasNonScalar (r : Rep) : Bool :=
  r.anyNode (fun | .str _ rs => rs.any (fun c => decide (0 ≤ c) && !isScalar c.toNat) | _ => false)
def hasHole (r : Rep) : Bool := r.anyNode (fun | .str _ rs => rs.any (· < 0) | _ => false)
def hasStarName (r : Rep) : Bool :=
  r.anyNode (fun | .tup as => as.any (fun a => a.1 == [42]) | .rel names _ => names.any (· == [42]) | _ => false)
def hasAmpPair (r : Rep) : Bool :=
  r.anyNode (fun | .tup as => ampPair (as.map Prod.fst) | .rel names _ => ampPair names | _ => false)
def hasDupKey (r : Rep) : Bool :=
  r.anyNode (fun | .dict es => !allDistinct ((denPairs es).map Prod.fst) | _ => false)

def cls (r : Rep) : String :=
  if r.printable then "good"
  else if r.hasNonScalar then "KF-string-nonscalar-print"
  else if r.hasHole then "KF-string-holes-print"
  else if r.hasDupKey then "KF-dict-dupkey-print"
  else if r.hasStarName then "KF-star-attr-print"
  else if r.hasAmpPair then "KF-tuple-amp-counterpart"
  else "good"   -- not produced by the generator (number outside the guard, hole at an end of an array)

/-- the characters `arrai eval` writes for a top-level string: `string(s.s)` (holes become U+FFFD) -/
def rawText (rs : List Int) : String := strOf (rs.map sanitize)

def outText (r : Rep) : String :=
  match outputMode r with
  | .raw => "raw"
  | .empty => "empty"
  | .repr => "repr"

/-- the observable the model predicts for harness operation `reprrt` -/
def rtModel (r : Rep) : String :=
  (match (Impl.repr r).den with
   | none => "reparse-error"
   | some v => if v = r.den then "same" else "diff:" ++ r.den.canon ++ "|" ++ v.canon) ++ ";" ++ outText r

/-- what the property demands -/
def rtSpec (r : Rep) : String := "same;" ++ outText r

end Rep
end Arrai.C12
