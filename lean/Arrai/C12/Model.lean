/-
  C12 — printed values read back as the same value.

  TEXT LEVEL (bytes / code points; proved completely, `Arrai/C12/Lemmas.lean`):
    * `Impl.escRune`, `Impl.reprEscapeBody`, `Impl.chooseQuote`  = reprEscape / reprStr (rel/value_repr.go)
    * `Impl.parseFragment` (+ `Impl.number`, `Impl.parseUint`)    = parseArraiStringFragment (syntax/parse_string.go),
      literally: byte indices, `i++`, `number(i, size, base, bits)` returning the index of the last digit
    * `Impl.scanStr`                                              = the STR token regex of syntax/arrai.wbnf
    * `Impl.isIdent`, `Impl.tupleNameRepr`, `Impl.parseName`      = identRE / TupleNameRepr (rel/value_tuple.go), parseName
    * `Impl.formatG`, `Impl.reprNum`, `Impl.readNum`              = Number.String → formatFloat64 → strconv 'G' on integers, NUM reader
    * `Impl.goQuoteBody`                                          = Go's %q (strconv.Quote), used by bundleConfig.String
    * `utf8`, `utf8dec`                                           = Go's rune ↔ UTF-8 conversions (string(rune), []rune(string))
  TREE LEVEL (`Rep` → `PT` → `V`):
    * `Rep`        a value as the Go representation the printer walks (String with hole markers, Bytes, Array with
                   nil holes, Dict entries, GenericSet/UnionSet members, GenericTuple, Relation, true)
    * `Impl.repr`  Format of every type: which literal form is printed, with the text-level leaves inside
    * `PT.den`     the reader of exactly the literal sub-language the printer emits (leaves through the text-level
                   readers above).  It models a fragment of the real parser; that tie is the correspondence run only.
  Core-only.
-/
import Arrai.Core.Lit
import Arrai.C12.Expected

namespace Arrai.C12

/-! ## Go's rune ↔ UTF-8 conversions -/

def isScalar (c : Nat) : Bool := c < 0xD800 || (0xE000 ≤ c && c < 0x110000)

/-- `utf8.AppendRune` (`strings.Builder.WriteRune`, `%c`, `string(rune)`): invalid runes become U+FFFD -/
def utf8 (c : Nat) : List Nat :=
  if c < 0x80 then [c]
  else if c < 0x800 then [0xC0 + c / 64, 0x80 + c % 64]
  else if !isScalar c then [0xEF, 0xBF, 0xBD]
  else if c < 0x10000 then [0xE0 + c / 4096, 0x80 + c / 64 % 64, 0x80 + c % 64]
  else [0xF0 + c / 262144, 0x80 + c / 4096 % 64, 0x80 + c / 64 % 64, 0x80 + c % 64]

def utf8s (s : List Nat) : List Nat := s.flatMap utf8

def isCont (b : Nat) : Bool := 0x80 ≤ b && b < 0xC0

/-- `utf8.DecodeRune` in a loop (`[]rune(s)`, `for _, c := range s`): one unit of fuel per rune;
anything that is not a well-formed sequence yields U+FFFD and consumes one byte -/
def utf8decF : Nat → List Nat → List Nat
  | 0, _ => []
  | _ + 1, [] => []
  | f + 1, b0 :: r =>
    if b0 < 0x80 then b0 :: utf8decF f r
    else if 0xC2 ≤ b0 && b0 < 0xE0 then
      match r with
      | b1 :: r1 => if isCont b1 then ((b0 - 0xC0) * 64 + (b1 - 0x80)) :: utf8decF f r1 else 0xFFFD :: utf8decF f r
      | [] => 0xFFFD :: utf8decF f r
    else if 0xE0 ≤ b0 && b0 < 0xF0 then
      match r with
      | b1 :: b2 :: r2 =>
        if (if b0 = 0xE0 then 0xA0 else 0x80) ≤ b1 && b1 ≤ (if b0 = 0xED then 0x9F else 0xBF) && isCont b2 then
          ((b0 - 0xE0) * 4096 + (b1 - 0x80) * 64 + (b2 - 0x80)) :: utf8decF f r2
        else 0xFFFD :: utf8decF f r
      | _ => 0xFFFD :: utf8decF f r
    else if 0xF0 ≤ b0 && b0 < 0xF5 then
      match r with
      | b1 :: b2 :: b3 :: r3 =>
        if (if b0 = 0xF0 then 0x90 else 0x80) ≤ b1 && b1 ≤ (if b0 = 0xF4 then 0x8F else 0xBF)
            && isCont b2 && isCont b3 then
          ((b0 - 0xF0) * 262144 + (b1 - 0x80) * 4096 + (b2 - 0x80) * 64 + (b3 - 0x80)) :: utf8decF f r3
        else 0xFFFD :: utf8decF f r
      | _ => 0xFFFD :: utf8decF f r
    else 0xFFFD :: utf8decF f r

def utf8dec (bs : List Nat) : List Nat := utf8decF bs.length bs

def lookupNat {β : Type} (c : Nat) : List (Nat × β) → Option β
  | [] => none
  | (k, v) :: r => if k = c then some v else lookupNat c r

namespace Impl

/-! ## rel/value_repr.go: reprEscape, reprStr -/

/-- `%02x` / strconv's `lowerhex` -/
def hexDigit (n : Nat) : Nat := if n < 10 then 48 + n else 87 + n

/-- one iteration of reprEscape's loop: the runes written for rune `c` (branch order as in the source;
`Expected.reprEscapes` is the regenerated table, indexed only below 32) -/
def escRune (delim c : Nat) : List Nat :=
  if c = 92 || c = delim then [92, c]
  else if c ≥ 32 then [c]
  else match lookupNat c Expected.reprEscapes with
    | some bs => bs
    | none => [92, 120, hexDigit (c / 16), hexDigit (c % 16)]

/-- the runes between the delimiters -/
def reprEscapeBody (s : List Nat) (delim : Nat) : List Nat := s.flatMap (escRune delim)

/-- reprStr / TupleNameRepr: single quotes unless the text contains one -/
def chooseQuote (s : List Nat) : Nat := if !s.contains 39 then 39 else 34

/-- `string(str.s)` followed by `range`: a rune that is not a Unicode scalar (the hole marker −1,
surrogates, values above U+10FFFF) is seen as U+FFFD -/
def sanitize (r : Int) : Nat := if r < 0 then 0xFFFD else if isScalar r.toNat then r.toNat else 0xFFFD

/-! ## syntax/parse_string.go: parseArraiStringFragment (as repaired) -/

/-- value of one digit for `strconv.ParseUint` (no underscores: the base is explicit) -/
def digitVal (base c : Nat) : Option Nat :=
  let d : Option Nat :=
    if 48 ≤ c && c ≤ 57 then some (c - 48)
    else if 97 ≤ c && c ≤ 122 then some (c - 97 + 10)
    else if 65 ≤ c && c ≤ 90 then some (c - 65 + 10)
    else none
  match d with
  | some v => if v < base then some v else none
  | none => none

def parseDigits (base : Nat) : Nat → List Nat → Option Nat
  | acc, [] => some acc
  | acc, c :: r =>
    match digitVal base c with
    | some v => parseDigits base (acc * base + v) r
    | none => none

/-- `strconv.ParseUint(ds, base, bits)`: `none` = error (syntax or range) -/
def parseUint (ds : List Nat) (base bits : Nat) : Option Nat :=
  if ds.isEmpty then none
  else match parseDigits base 0 ds with
    | some n => if n < 2 ^ bits then some n else none
    | none => none

/-- the `number` closure: parses `s[i:i+size]`, returns (bytes written by `sb.WriteRune(rune(n))`,
the index of the last digit); `none` = the error return (`i+size > len(s)`, or ParseUint fails) -/
def number (s : List Nat) (i size base bits : Nat) : Option (List Nat × Nat) :=
  if i + size ≤ s.length then
    match parseUint ((s.drop i).take size) base bits with
    | some n => some (utf8 n, i + size - 1)
    | none => none
  else none

inductive EscAct
  | number (off size base bits : Nat)
  | byte (b : Nat)
  | indent
  | bad
  deriving DecidableEq, Inhabited

/-- the `switch s[i]` after a backslash, read from the regenerated case table -/
def escAct (e : Nat) : EscAct :=
  match lookupNat e Expected.escapeCases with
  | some (1, [off, size, base, bits]) => .number off size base bits
  | some (2, [b]) => .byte b
  | some (3, []) => .indent
  | _ => .bad

/-- the `for i := 0; i < len(s); i++` loop over the bytes of `s`; `acc` is the strings.Builder;
`none` = the error return (a trailing backslash: `i == len(s)`; bad digits; unrecognised escape) — a compile
error since the repair, a panic before it -/
def loop (s indent : List Nat) : Nat → Nat → List Nat → Option (List Nat)
  | 0, _, _ => none
  | fuel + 1, i, acc =>
    match s[i]? with
    | none => some acc                                   -- i >= len(s)
    | some c =>
      if c = 92 then
        match s[i + 1]? with                             -- i++ ; if i == len(s) {error} ; switch s[i]
        | none => none
        | some e =>
          match escAct e with
          | .number off size base bits =>
            match number s (i + 1 + off) size base bits with
            | some (out, j) => loop s indent fuel (j + 1) (acc ++ out)
            | none => none
          | .byte b => loop s indent fuel (i + 2) (acc ++ [b])
          | .indent => loop s indent fuel (i + 2) (acc ++ indent)
          | .bad => none
      else loop s indent fuel (i + 1) (acc ++ [c])

/-- `parseArraiStringFragment(s, validEscapes, indent)` for the quote-delimited forms (the back-quote
form does not go through the loop; `validEscapes` is only consulted for that). -/
def parseFragment (s : List Nat) (indent : List Nat := []) : Option (List Nat) :=
  loop s indent (s.length + 1) 0 []

/-! ## syntax/arrai.wbnf: STR token,  q (?: \\. | [^\\q] )* q   on runes, after the opening quote -/

/-- scans for the closing quote: (body, rest after the closing quote); `.` does not match a newline -/
def scanStr (q : Nat) : List Nat → Option (List Nat × List Nat)
  | [] => none
  | c :: r =>
    if c = 92 then
      match r with
      | [] => none
      | d :: r' => if d = 10 then none else (scanStr q r').map (fun p => (c :: d :: p.1, p.2))
    else if c = q then some ([], r)
    else (scanStr q r).map (fun p => (c :: p.1, p.2))

/-! ## rel/value_tuple.go: identRE, TupleNameRepr; syntax/parse.go: parseName -/

def isIdent (n : List Nat) : Bool :=
  match n with
  | [] => false
  | c :: r => Expected.identStart.contains c && r.all (fun d => Expected.identRest.contains d)

inductive NameTok
  | bare (cs : List Nat)
  | quoted (q : Nat) (body : List Nat)
  deriving DecidableEq, Inhabited

def tupleNameRepr (n : List Nat) : NameTok :=
  if isIdent n then .bare n else .quoted (chooseQuote n) (reprEscapeBody n (chooseQuote n))

def parseName : NameTok → Option (List Nat)
  | .bare cs => if isIdent cs then some cs else none
  | .quoted _ body => (parseFragment (utf8s body)).map utf8dec

/-! ## rel/value_number.go: Number.String on integers; NUM reader -/

/-- decimal digits, least significant first (`0` has the single digit 0) -/
def digitsRev : Nat → Nat → List Nat
  | 0, _ => [0]
  | f + 1, n => if n < 10 then [n] else (n % 10) :: digitsRev f (n / 10)

def ofRev : List Nat → Nat
  | [] => 0
  | d :: r => d + 10 * ofRev r

/-- most significant first -/
def ofMSD (ds : List Nat) : Nat := ds.foldl (fun acc d => acc * 10 + d) 0

def natDigits (n : Nat) : List Nat := (digitsRev n n).reverse

/-- a NUM token: integer part, fraction digits, exponent (sign, digits) -/
structure NumTok where
  int : List Nat
  frac : List Nat
  exp : Option (Bool × List Nat)
  deriving DecidableEq, Inhabited

def pad2 (ds : List Nat) : List Nat := if ds.length < 2 then 0 :: ds else ds

/-- `strconv.FormatFloat(n, 'G', -1, 64)` for a non-negative integer: shortest digits = the decimal digits without
trailing zeros; exponent form when the decimal exponent is ≥ 6 (`eprec = 6` for the shortest form; never
< −4 for an integer), exponent printed with at least two digits -/
def formatG (n : Nat) : NumTok :=
  let dr := digitsRev n n
  let sig := (dr.dropWhile (· == 0)).reverse
  if n = 0 then ⟨[0], [], none⟩
  else if dr.length - 1 ≥ 6 then ⟨sig.take 1, sig.drop 1, some (false, pad2 (natDigits (dr.length - 1)))⟩
  else ⟨dr.reverse, [], none⟩

def NumTok.chars (t : NumTok) : List Nat :=
  t.int.map (· + 48) ++ (if t.frac.isEmpty then [] else 46 :: t.frac.map (· + 48)) ++
  (match t.exp with
   | none => []
   | some (neg, ds) => 69 :: (if neg then 45 else 43) :: ds.map (· + 48))

/-- formatFloat64: the text is returned as is when shorter than 15 characters (`Expected.formatFloatLens`);
longer texts go through the one-ulp heuristic, which needs float semantics and is outside the model
(and outside the property: "numbers whose shortest decimal form is under 15 characters") -/
def reprNum (n : Int) : Option (Bool × NumTok) :=
  let t := formatG n.natAbs
  let len := t.chars.length + (if n < 0 then 1 else 0)
  if len < Expected.formatFloatLens.headD 0 then some (decide (n < 0), t) else none

/-- the value of a NUM token when it is an integer (strconv.ParseFloat on `int[.frac][E±exp]`) -/
def readTok (t : NumTok) : Option Nat :=
  let mant := ofMSD (t.int ++ t.frac)
  let e : Int := (match t.exp with
    | none => 0
    | some (neg, ds) => if neg then - (ofMSD ds : Int) else (ofMSD ds : Int)) - t.frac.length
  if e ≥ 0 then some (mant * 10 ^ e.toNat)
  else if mant % 10 ^ (-e).toNat = 0 then some (mant / 10 ^ (-e).toNat) else none

/-- unary minus applied to a NUM literal -/
def readNum (p : Bool × NumTok) : Option Int :=
  (readTok p.2).map (fun m => if p.1 then - (m : Int) else (m : Int))

/-! ## Go's %q (strconv.Quote) as used by bundleConfig.String -/

/-- `strconv.appendEscapedRune(r, '"', ASCIIonly=false, graphicOnly=false)`; `isPrint` = `unicode.IsPrint`
(an opaque table: the round trip holds whatever it says) -/
def goQuoteRune (isPrint : Nat → Bool) (r : Nat) : List Nat :=
  if r = 34 || r = 92 then [92, r]
  else if isPrint r then [r]
  else if r = 7 then [92, 97] else if r = 8 then [92, 98] else if r = 12 then [92, 102]
  else if r = 10 then [92, 110] else if r = 13 then [92, 114] else if r = 9 then [92, 116]
  else if r = 11 then [92, 118]
  else if r < 32 || r = 127 then [92, 120, hexDigit (r / 16), hexDigit (r % 16)]
  else if r < 0x10000 then
    [92, 117, hexDigit (r / 4096 % 16), hexDigit (r / 256 % 16), hexDigit (r / 16 % 16), hexDigit (r % 16)]
  else
    [92, 85, hexDigit (r / 268435456 % 16), hexDigit (r / 16777216 % 16), hexDigit (r / 1048576 % 16),
     hexDigit (r / 65536 % 16), hexDigit (r / 4096 % 16), hexDigit (r / 256 % 16), hexDigit (r / 16 % 16),
     hexDigit (r % 16)]

def goQuoteBody (isPrint : Nat → Bool) (s : List Nat) : List Nat := s.flatMap (goQuoteRune isPrint)

end Impl

/-! ## Tree level -/

/-- a data value as the Go representation the printer walks.  Lists are in the printer's enumeration
order (TupleOrderedNames, OrderedEntries, OrderedValues); the meaning does not depend on it. -/
inductive Rep where
  | num (n : Int)                                        -- Number (integers)
  | str (off : Int) (rs : List Int)                      -- String{s, offset}; a negative rune is a hole
  | bytes (off : Int) (bs : List Nat)                    -- Bytes{b, offset}
  | arr (off : Int) (xs : List (Option Rep))             -- Array{values, offset}; nil = hole
  | dict (es : List (Rep × Rep))                         -- Dict entries (a multi-valued key repeats)
  | set (xs : List Rep)                                  -- GenericSet / UnionSet members; [] = EmptySet
  | tup (as : List (List Nat × Rep))                     -- GenericTuple and the four specialised tuples
  | rel (names : List (List Nat)) (rows : List (List Rep))   -- Relation: sorted names, rows in that order
  | tt                                                   -- TrueSet
  deriving Inhabited

/-- an offset as printed by `%d\`: absent when 0, else sign and decimal digits -/
abbrev Off := Option (Bool × List Nat)

/-- the printed literal, as a tree whose leaves are token texts -/
inductive PT where
  | num (neg : Bool) (t : Impl.NumTok)
  | str (off : Off) (q : Nat) (body : List Nat)          -- off\ q body q      (body: runes)
  | bytesNums (off : Off) (bs : List (List Nat))         -- off\<<12, 255>>    (decimal digits)
  | bytesStr (off : Off) (q : Nat) (body : List Nat)     -- off\<<'abc'>>
  | arr (off : Off) (xs : List (Option PT))              -- off\[a, , b]
  | dict (kvs : List (PT × PT))                          -- {k: v, …}
  | set (xs : List PT)                                   -- {a, b}   ({} when empty)
  | tup (kvs : List (Impl.NameTok × PT))                 -- (name: v, …)
  | rel (names : List (List Nat)) (rows : List (List PT))    -- {|a, b| (1, 2), …}
  | kwTrue                                               -- true
  deriving Inhabited

def nameStr (cs : List Nat) : String := String.ofList (cs.map Char.ofNat)

def entryV (p : V × V) : V := V.mkTup [("@", p.1), ("@value", p.2)]

def nodupKeys (ps : List (V × V)) : Bool := decide ((ps.map Prod.fst).Nodup)

/-- a sequence literal may not begin or end with a hole -/
def holeEnds {α : Type} (xs : List (Option α)) : Bool :=
  (xs.head?.map Option.isNone).getD false || (xs.getLast?.map Option.isNone).getD false

def numV (n : Nat) : Option V := some (.num (Int.ofNat n))

/-- some attribute `x` together with its view counterpart `&x` (GenericTuple.With strips the counterpart, NewTuple
does not: what a tuple expression naming both evaluates to depends on whether all its values are literals) -/
def ampPair (names : List (List Nat)) : Bool := names.any (fun n => names.contains (38 :: n))

namespace Rep

/-! ### meaning of a representation -/
mutual
def den : Rep → V
  | .num n => .num n
  | .str off rs => V.mkSeq "@char" off (rs.map (fun r => if r < 0 then none else some (.num r)))
  | .bytes off bs => V.mkSeq "@byte" off (bs.map numV)
  | .arr off xs => V.mkSeq "@item" off (denOpts xs)
  | .dict es => V.mkSet ((denPairs es).map entryV)
  | .set xs => V.mkSet (denList xs)
  | .tup as => V.mkTup (denAttrs as)
  | .rel names rows => V.mkSet (denRows names rows)
  | .tt => V.tt
def denOpts : List (Option Rep) → List (Option V)
  | [] => []
  | some x :: r => some (den x) :: denOpts r
  | none :: r => none :: denOpts r
def denPairs : List (Rep × Rep) → List (V × V)
  | [] => []
  | (k, v) :: r => (den k, den v) :: denPairs r
def denList : List Rep → List V
  | [] => []
  | x :: r => den x :: denList r
def denAttrs : List (List Nat × Rep) → List (String × V)
  | [] => []
  | (n, v) :: r => (nameStr n, den v) :: denAttrs r
def denRows (names : List (List Nat)) : List (List Rep) → List V
  | [] => []
  | row :: r => V.mkTup (Lit.zipAttrs (names.map nameStr) (denList row)) :: denRows names r
end

end Rep

namespace Impl

def reprOff (off : Int) : Off := if off = 0 then none else some (decide (off < 0), natDigits off.natAbs)

def readOff : Off → Int
  | none => 0
  | some (neg, ds) => if neg then - (ofMSD ds : Int) else (ofMSD ds : Int)

/-- renderableBytesRE: `^[…]+$` over the regenerated byte set -/
def renderable (bs : List Nat) : Bool := !bs.isEmpty && bs.all (fun b => Expected.renderableBytes.contains b)

def zipNT : List (List Nat) → List PT → List (NameTok × PT)
  | n :: ns, v :: vs => (tupleNameRepr n, v) :: zipNT ns vs
  | _, _ => []

/-! ### Format of every type -/
mutual
def repr : Rep → PT
  | .num n => .num (decide (n < 0)) (formatG n.natAbs)                      -- Number.String (under the length guard)
  | .str off rs =>                                                          -- reprString: reprOffset, reprStr(string(s))
    .str (reprOff off) (chooseQuote (rs.map sanitize)) (reprEscapeBody (rs.map sanitize) (chooseQuote (rs.map sanitize)))
  | .bytes off bs =>                                                        -- Bytes.Format (as repaired: offset first)
    if renderable bs then .bytesStr (reprOff off) (chooseQuote bs) (reprEscapeBody bs (chooseQuote bs))
    else .bytesNums (reprOff off) (bs.map natDigits)
  | .arr off xs => .arr (reprOff off) (reprOpts xs)                         -- Array.Format
  | .dict es => .dict (reprPairs es)                                        -- Dict.Format over OrderedEntries
  | .set xs => .set (reprList xs)                                           -- reprOrderableSet / EmptySet
  | .tup as => .tup (reprAttrs as)                                          -- GenericTuple.Format
  | .rel names rows =>                                                      -- Relation.Format (as repaired)
    if names.all isIdent then .rel names (reprRows rows) else .set (reprRowTups names rows)
  | .tt => .kwTrue
def reprOpts : List (Option Rep) → List (Option PT)
  | [] => []
  | some x :: r => some (repr x) :: reprOpts r
  | none :: r => none :: reprOpts r
def reprPairs : List (Rep × Rep) → List (PT × PT)
  | [] => []
  | (k, v) :: r => (repr k, repr v) :: reprPairs r
def reprList : List Rep → List PT
  | [] => []
  | x :: r => repr x :: reprList r
def reprAttrs : List (List Nat × Rep) → List (NameTok × PT)
  | [] => []
  | (n, v) :: r => (tupleNameRepr n, repr v) :: reprAttrs r
def reprRows : List (List Rep) → List (List PT)
  | [] => []
  | row :: r => reprList row :: reprRows r
def reprRowTups (names : List (List Nat)) : List (List Rep) → List PT
  | [] => []
  | row :: r => .tup (zipNT names (reprList row)) :: reprRowTups names r
end

/-! ### Relation.Format and the physical column order

`Rep.rel names rows` is the relation as Relation.Format must show it: heading `attrs.GetSorted()`, every row projected
to that heading (`projectionBasedOnNames`, `Values.project`).  The relation itself stores its columns in some physical
order `phys` (sorted for a literal; left operand's columns then the right operand's new ones for a join result).
`relView` is that step of Format; `Arrai/Proofs/C12.lean` proves that it hands every attribute the value stored for
it, whatever the physical order (`relation_row_projection`, `relation_heading_is_permutation`). -/

/-- Go's string order on names (bytes of the UTF-8 text = code points) -/
def nameLt : List Nat → List Nat → Bool
  | [], [] => false
  | [], _ :: _ => true
  | _ :: _, [] => false
  | a :: as, b :: bs => if a < b then true else if b < a then false else nameLt as bs

def insName (n : List Nat) : List (List Nat) → List (List Nat)
  | [] => [n]
  | m :: r => if nameLt m n then m :: insName n r else n :: m :: r

/-- TupleOrderedNames / attrs.GetSorted (an insertion sort: it has to reduce in the kernel) -/
def sortNames (ns : List (List Nat)) : List (List Nat) := ns.foldr insName []

def lookupName {α : Type} (n : List Nat) : List (List Nat × α) → Option α
  | [] => none
  | (k, v) :: r => if k = n then some v else lookupName n r

/-- `Values.project(projectionBasedOnNames(heading))` on a row stored in the order `phys` -/
def projectRow {α : Type} (phys : List (List Nat)) (row : List α) (heading : List (List Nat)) : List (Option α) :=
  heading.map (fun n => lookupName n (phys.zip row))

/-- heading and rows as printed, from the physical representation -/
def relView {α : Type} (phys : List (List Nat)) (rows : List (List α)) : List (List Nat) × List (List (Option α)) :=
  (sortNames phys, rows.map (fun row => projectRow phys row (sortNames phys)))

/-- pkg/arrai/out.go OutputValue at top level: strings and byte arrays are written raw, the empty set as
nothing, everything else through fu.Repr -/
inductive OutMode | raw | empty | repr
  deriving DecidableEq, Inhabited

def outputMode : Rep → OutMode
  | .str _ _ => .raw
  | .bytes _ _ => .raw
  | .set [] => .empty
  | _ => .repr

end Impl

namespace PT
open Impl

/-! ### the reader of the printed sub-language -/
mutual
def den : PT → Option V
  | .num neg t => (readNum (neg, t)).map V.num
  | .str off q body =>
    if scanStr q (body ++ [q]) = some (body, []) then
      (parseFragment (utf8s body)).map (fun bs => V.mkSeq "@char" (readOff off) ((utf8dec bs).map numV))
    else none
  | .bytesNums off bs => some (V.mkSeq "@byte" (readOff off) (bs.map (fun ds => numV (ofMSD ds))))
  | .bytesStr off q body =>
    if scanStr q (body ++ [q]) = some (body, []) then
      (parseFragment (utf8s body)).map (fun bs => V.mkSeq "@byte" (readOff off) (bs.map numV))
    else none
  | .arr off xs => if holeEnds xs then none else (denOpts xs).map (V.mkSeq "@item" (readOff off))
  | .dict kvs =>
    match denPairs kvs with
    | some ps => if nodupKeys ps then some (V.mkSet (ps.map entryV)) else none      -- "duplicate key"
    | none => none
  | .set xs => (denList xs).map V.mkSet
  | .tup kvs =>
    if ampPair (kvs.filterMap (fun p => parseName p.1)) then none      -- outside the modelled fragment, see `ampPair`
    else (denAttrs kvs).map V.mkTup
  | .rel names rows => if names.all isIdent then (denRows names rows).map V.mkSet else none
  | .kwTrue => some V.tt
def denOpts : List (Option PT) → Option (List (Option V))
  | [] => some []
  | some x :: r =>
    match den x, denOpts r with
    | some v, some vs => some (some v :: vs)
    | _, _ => none
  | none :: r => (denOpts r).map (none :: ·)
def denPairs : List (PT × PT) → Option (List (V × V))
  | [] => some []
  | (k, v) :: r =>
    match den k, den v, denPairs r with
    | some a, some b, some ps => some ((a, b) :: ps)
    | _, _, _ => none
def denList : List PT → Option (List V)
  | [] => some []
  | x :: r =>
    match den x, denList r with
    | some v, some vs => some (v :: vs)
    | _, _ => none
def denAttrs : List (NameTok × PT) → Option (List (String × V))
  | [] => some []
  | (n, x) :: r =>
    match parseName n, den x, denAttrs r with
    | some cs, some v, some as =>
      if cs = [42] then none                         -- rel.NewAttrExpr: "Wildcard attr cannot have a name"
      else some ((nameStr cs, v) :: as)
    | _, _, _ => none
def denRows (names : List (List Nat)) : List (List PT) → Option (List V)
  | [] => some []
  | row :: r =>
    match denList row, denRows names r with
    | some vs, some ts =>
      if vs.length = names.length then some (V.mkTup (Lit.zipAttrs (names.map nameStr) vs) :: ts) else none
    | _, _ => none
end

end PT

/-! ### the values the property quantifies over, as a decidable predicate on representations -/
namespace Rep
open Impl

mutual
def printable : Rep → Bool
  | .num n => (reprNum n).isSome                                  -- shortest form under 15 characters
  | .str _ rs => rs.all (fun r => decide (0 ≤ r) && isScalar r.toNat)      -- no holes, Unicode scalars only
  | .bytes _ _ => true
  | .arr _ xs => !holeEnds xs && prOpts xs
  | .dict es => prPairs es && nodupKeys (denPairs es)             -- single-valued keys
  | .set xs => prList xs
  | .tup as => !ampPair (as.map Prod.fst) && prAttrs as
  | .rel names rows =>
    !ampPair names && names.all (fun n => n.all isScalar && decide (n ≠ [42])) && prRows names.length rows
  | .tt => true
def prOpts : List (Option Rep) → Bool
  | [] => true
  | some x :: r => printable x && prOpts r
  | none :: r => prOpts r
def prPairs : List (Rep × Rep) → Bool
  | [] => true
  | (k, v) :: r => printable k && printable v && prPairs r
def prList : List Rep → Bool
  | [] => true
  | x :: r => printable x && prList r
def prAttrs : List (List Nat × Rep) → Bool
  | [] => true
  | (n, v) :: r => n.all isScalar && decide (n ≠ [42]) && printable v && prAttrs r   -- `*` is the wildcard marker
def prRows (w : Nat) : List (List Rep) → Bool
  | [] => true
  | row :: r => decide (row.length = w) && prList row && prRows w r
end

end Rep
end Arrai.C12
