/-
  C18 — helper lemmas: capability reach through scopes/tuples, and the invariant
  "everything in every scope and on every evaluation path reaches only C" preserved by every rule
  of the evaluator (Impl) when all four repairs are in force.
-/
import Arrai.C18.Model

namespace Arrai.C18
open Impl

/-! ### reach through tuples and scopes -/

theorem sub_allCaps (l : List Cap) : l ⊆ allCaps := fun c _ => mem_allCaps c

theorem mem_capClosure (c : Cap) : c ∈ capClosure c := by cases c <;> simp [capClosure]

theorem Val.get_reach : ∀ (t : Val) (k : String) (v : Val), t.get k = some v → v.reach ⊆ t.reach
  | .cons k' v' r, k, v, h => by
    simp only [Val.get] at h
    by_cases hk : k' = k
    · simp [hk] at h; subst h; simp [Val.reach]
    · simp [hk] at h
      have := Val.get_reach r k v h
      simp only [Val.reach]
      exact fun c hc => List.mem_append_right _ (this hc)
  | .data, _, _, h | .str _, _, _, h | .src _, _, _, h | .nil, _, _, h
  | .clo .., _, _, h | .nat .., _, _, h | .thunk .., _, _, h => by simp [Val.get] at h

theorem Val.without_reach : ∀ (t : Val) (k : String), (t.without k).reach ⊆ t.reach
  | .cons k' v' r, k => by
    simp only [Val.without]
    have ih := Val.without_reach r k
    by_cases hk : k' = k
    · simp only [hk, ↓reduceIte, Val.reach]
      exact fun c hc => List.mem_append_right _ (ih hc)
    · simp only [hk, ↓reduceIte, Val.reach]
      intro c hc
      rcases List.mem_append.1 hc with h | h
      · exact List.mem_append_left _ h
      · exact List.mem_append_right _ (ih h)
  | .data, _ | .str _, _ | .src _, _ | .nil, _ | .clo .., _ | .nat .., _ | .thunk .., _ => by simp [Val.without]

theorem Val.bind_reach (t : Val) (k : String) (v : Val) : (t.bind k v).reach ⊆ v.reach ++ t.reach := by
  simp only [Val.bind, Val.reach]
  intro c hc
  rcases List.mem_append.1 hc with h | h
  · exact List.mem_append_left _ h
  · exact List.mem_append_right _ (Val.without_reach t k h)

theorem Val.get_without : ∀ (t : Val) (k x : String),
    (t.without k).get x = if k = x then none else t.get x
  | .cons k' v' r, k, x => by
    simp only [Val.without]
    have ih := Val.get_without r k x
    by_cases hk : k' = k
    · subst hk
      simp only [↓reduceIte, Val.get, ih]
      by_cases hx : k' = x <;> simp [hx]
    · simp only [hk, ↓reduceIte, Val.get, ih]
      by_cases hx : k = x
      · subst hx; simp [hk]
      · simp [hx]
  | .data, _, _ | .str _, _, _ | .src _, _, _ | .nil, _, _ | .clo .., _, _ | .nat .., _, _ | .thunk .., _, _ => by
    simp [Val.without, Val.get]

theorem Val.get_bind (t : Val) (k x : String) (v : Val) :
    (t.bind k v).get x = if k = x then some v else t.get x := by
  simp only [Val.bind, Val.get, Val.get_without]
  by_cases hk : k = x <;> simp [hk]

theorem Val.hasLib_bind (t : Val) (k : String) (v : Val) (h : t.hasLib = true) :
    (t.bind k v).hasLib = true := by
  simp only [Val.hasLib, Val.hasKey, Val.get_bind] at *
  by_cases hk : k = "//" <;> simp [hk, h]

/-! ### results that stay inside C -/

/-- every effect performed exercises a capability in `C`; the importer opened only files in `A` -/
def LogOK (C : List Cap) (A : List String) (l : List Eff) : Prop :=
  (∀ cap arg, Eff.did cap arg ∈ l → cap ∈ C) ∧ (∀ p, Eff.imported p ∈ l → p ∈ A)

/-- the result value and every effect performed stay inside `C`; import reads stay inside `A` -/
def PA (C : List Cap) (A : List String) (r : Res) : Prop := LogOK C A r.2 ∧ ∀ v, r.1 = some v → v.reach ⊆ C

/-- … and the importer opened nothing -/
abbrev P (C : List Cap) (r : Res) : Prop := PA C [] r

/-- compiling: the compiled expression and the parse-time scope it leaves reach only `C`, and the parse-time
scope still binds `//` -/
def PCA (C : List Cap) (A : List String) (r : CRes) : Prop :=
  LogOK C A r.2 ∧ ∀ a ps, r.1 = some (a, ps) → a.reach ⊆ C ∧ ps.reach ⊆ C ∧ ps.hasLib = true

abbrev PC (C : List Cap) (r : CRes) : Prop := PCA C [] r

theorem LogOK_nil (C A) : LogOK C A [] := ⟨(by intro c a h; cases h), (by intro p h; cases h)⟩

theorem LogOK_append {C A l₁ l₂} (h₁ : LogOK C A l₁) (h₂ : LogOK C A l₂) : LogOK C A (l₁ ++ l₂) := by
  refine ⟨?_, ?_⟩
  · intro c a he
    rcases List.mem_append.1 he with h | h
    · exact h₁.1 c a h
    · exact h₂.1 c a h
  · intro p he
    rcases List.mem_append.1 he with h | h
    · exact h₁.2 p h
    · exact h₂.2 p h

theorem LogOK_mono {C A A' l} (hA : A ⊆ A') (h : LogOK C A l) : LogOK C A' l :=
  ⟨h.1, fun p hp => hA (h.2 p hp)⟩

theorem PA_mono {C A A' r} (hA : A ⊆ A') (h : PA C A r) : PA C A' r := ⟨LogOK_mono hA h.1, h.2⟩

theorem PCA_mono {C A A' r} (hA : A ⊆ A') (h : PCA C A r) : PCA C A' r := ⟨LogOK_mono hA h.1, h.2⟩

theorem P_fail (C) {A} : PA C A fail := ⟨LogOK_nil C A, by intro v h; cases h⟩

theorem P_unmodelled (C) {A} : PA C A (none, [Eff.unmodelled]) :=
  ⟨⟨(by intro c a h; simp at h), (by intro p h; simp at h)⟩, by intro v h; cases h⟩

theorem P_ok {C A v} (h : v.reach ⊆ C) : PA C A (ok v) :=
  ⟨LogOK_nil C A, by intro v' h'; cases h'; exact h⟩

theorem P_bind {C A} {r : Res} {f : Val → Res} (hr : PA C A r) (hf : ∀ v, v.reach ⊆ C → PA C A (f v)) :
    PA C A (r.bind f) := by
  obtain ⟨o, l⟩ := r
  cases o with
  | none => exact ⟨hr.1, by intro v h; cases h⟩
  | some v =>
    have := hf v (hr.2 v rfl)
    exact ⟨LogOK_append hr.1 this.1, this.2⟩

theorem PC_bindC {C A} {r : Res} {f : Val → CRes} (hr : PA C A r) (hf : ∀ v, v.reach ⊆ C → PCA C A (f v)) :
    PCA C A (r.bindC f) := by
  obtain ⟨o, l⟩ := r
  cases o with
  | none => exact ⟨hr.1, by intro v ps h; cases h⟩
  | some v =>
    have := hf v (hr.2 v rfl)
    exact ⟨LogOK_append hr.1 this.1, this.2⟩

theorem PC_bind {C A} {r : CRes} {f : Ast → Val → CRes} (hr : PCA C A r)
    (hf : ∀ a ps, a.reach ⊆ C → ps.reach ⊆ C → ps.hasLib = true → PCA C A (f a ps)) :
    PCA C A (r.bind f) := by
  obtain ⟨o, l⟩ := r
  cases o with
  | none => exact ⟨hr.1, by intro v ps h; cases h⟩
  | some v =>
    obtain ⟨a, ps⟩ := v
    have h3 := hr.2 a ps rfl
    have := hf a ps h3.1 h3.2.1 h3.2.2
    exact ⟨LogOK_append hr.1 this.1, this.2⟩

theorem PC_map {C A} {r : CRes} {g : Ast → Ast} (hr : PCA C A r)
    (hg : ∀ a, a.reach ⊆ C → (g a).reach ⊆ C) : PCA C A (r.map g) := by
  obtain ⟨o, l⟩ := r
  cases o with
  | none => exact ⟨hr.1, by intro v ps h; cases h⟩
  | some v =>
    obtain ⟨a, ps⟩ := v
    have h3 := hr.2 a ps rfl
    refine ⟨hr.1, ?_⟩
    intro a' ps' h
    simp only [CRes.map, Option.map_some, Option.some.injEq, Prod.mk.injEq] at h
    obtain ⟨h1, h2⟩ := h
    subst h1; subst h2
    exact ⟨hg a h3.1, h3.2.1, h3.2.2⟩

theorem PC_ret {C A a ps} (h : a.reach ⊆ C) (hp : ps.reach ⊆ C) (hl : ps.hasLib = true) :
    PCA C A (some (a, ps), []) :=
  ⟨LogOK_nil C A, by intro a' ps' h'; cases h'; exact ⟨h, hp, hl⟩⟩

/-- resolving imports: the compiled expression reaches only `C` -/
def PRA (C : List Cap) (A : List String) (r : RRes) : Prop :=
  LogOK C A r.2 ∧ ∀ a, r.1 = some a → a.reach ⊆ C

theorem PRA_mono {C A A' r} (hA : A ⊆ A') (h : PRA C A r) : PRA C A' r := ⟨LogOK_mono hA h.1, h.2⟩

theorem PR_bind {C A} {r : RRes} {f : Ast → RRes} (hr : PRA C A r) (hf : ∀ a, a.reach ⊆ C → PRA C A (f a)) :
    PRA C A (r.bind f) := by
  obtain ⟨o, l⟩ := r
  cases o with
  | none => exact ⟨hr.1, by intro v h; cases h⟩
  | some v =>
    have := hf v (hr.2 v rfl)
    exact ⟨LogOK_append hr.1 this.1, this.2⟩

theorem PR_map {C A} {r : RRes} {g : Ast → Ast} (hr : PRA C A r)
    (hg : ∀ a, a.reach ⊆ C → (g a).reach ⊆ C) : PRA C A (r.map g) := by
  obtain ⟨o, l⟩ := r
  cases o with
  | none => exact ⟨hr.1, by intro v h; cases h⟩
  | some v => exact ⟨hr.1, by intro a h; cases h; exact hg v (hr.2 v rfl)⟩

theorem PR_ret {C A a} (h : a.reach ⊆ C) : PRA C A (some a, []) :=
  ⟨LogOK_nil C A, by intro a' h'; cases h'; exact h⟩

theorem PC_bindR {C A} {r : RRes} {f : Ast → CRes} (hr : PRA C A r) (hf : ∀ a, a.reach ⊆ C → PCA C A (f a)) :
    PCA C A (r.bindC f) := by
  obtain ⟨o, l⟩ := r
  cases o with
  | none => exact ⟨hr.1, by intro v ps h; cases h⟩
  | some v =>
    have := hf v (hr.2 v rfl)
    exact ⟨LogOK_append hr.1 this.1, this.2⟩

theorem P_getAttr {C} {t : Val} (k : String) (h : t.reach ⊆ C) : P C (getAttr t k) := by
  unfold getAttr
  split
  · cases hg : t.get k with
    | none => exact P_fail C
    | some v => exact P_ok (fun c hc => h (Val.get_reach t k v hg hc))
  · exact P_unmodelled C

theorem append_sub {C : List Cap} {a b : List Cap} (ha : a ⊆ C) (hb : b ⊆ C) : a ++ b ⊆ C := by
  intro c hc
  rcases List.mem_append.1 hc with h | h
  · exact ha h
  · exact hb h

theorem sub_of_append_left {C a b : List Cap} (h : a ++ b ⊆ C) : a ⊆ C :=
  fun _ hc => h (List.mem_append_left _ hc)

theorem sub_of_append_right {C a b : List Cap} (h : a ++ b ⊆ C) : b ⊆ C :=
  fun _ hc => h (List.mem_append_right _ hc)

/-! ### the invariant -/

theorem scopeCaps_sub {s : Val} {e e' : Ast} (hr : e'.reach ⊆ e.reach)
    (hn : e.noPkg = true → e'.noPkg = true) : scopeCaps s e' ⊆ scopeCaps s e := by
  unfold scopeCaps
  intro c hc
  rcases List.mem_append.1 hc with h | h
  · rcases List.mem_append.1 h with h | h
    · exact List.mem_append_left _ (List.mem_append_left _ h)
    · exact List.mem_append_left _ (List.mem_append_right _ (hr h))
  · apply List.mem_append_right
    by_cases hl : s.hasLib = true
    · simp [hl] at h
    · by_cases hp : e.noPkg = true
      · simp [hn hp] at h
      · simpa [hl, hp] using mem_allCaps c

theorem scope_reach_sub (s : Val) (e : Ast) : s.reach ⊆ scopeCaps s e :=
  fun _ h => List.mem_append_left _ (List.mem_append_left _ h)

theorem ast_reach_sub (s : Val) (e : Ast) : e.reach ⊆ scopeCaps s e :=
  fun _ h => List.mem_append_left _ (List.mem_append_right _ h)

/-- extending a scope by a binding whose value is inside C keeps what the body can reach inside C -/
theorem scopeCaps_bind {C : List Cap} {s : Val} {x : String} {v : Val} {b : Ast}
    (hv : v.reach ⊆ C) (hb : scopeCaps s b ⊆ C) : scopeCaps (s.bind x v) b ⊆ C := by
  unfold scopeCaps at *
  intro c hc
  rcases List.mem_append.1 hc with h | h
  · rcases List.mem_append.1 h with h | h
    · rcases List.mem_append.1 (Val.bind_reach s x v h) with h | h
      · exact hv h
      · exact hb (List.mem_append_left _ (List.mem_append_left _ h))
    · exact hb (List.mem_append_left _ (List.mem_append_right _ h))
  · apply hb
    apply List.mem_append_right
    by_cases hl : s.hasLib = true
    · simp [Val.hasLib_bind s x v hl] at h
    · by_cases hp : b.noPkg = true
      · simp [hp] at h
      · simpa [hl, hp] using mem_allCaps c

theorem clo_reach (s : Val) (x : String) (b : Ast) : (Val.clo s x b).reach = scopeCaps s b := by
  simp [Val.reach, scopeCaps]



/-- every .arrai file of the file system reaches only `C` (true of every file system of source text) -/
def FsOK (W : World) (C : List Cap) : Prop :=
  ∀ p a, lookupFile W.fs p = some (.code a) → a.reach ⊆ C

/-- the files the importer may open while compiling `a` under context `c`: none inside a sandbox, else the
files named by import syntax in `a` or in a file of the file system -/
def impAllowed (W : World) (c : Ctx) (a : Ast) : List String :=
  if c.sandboxed then [] else a.imports ++ fsImports W.fs

theorem impAllowed_mono {W : World} {c : Ctx} {a a' : Ast} (h : a'.imports ⊆ a.imports) :
    impAllowed W c a' ⊆ impAllowed W c a := by
  unfold impAllowed
  split
  · exact fun _ h => h
  · intro p hp
    rcases List.mem_append.1 hp with h1 | h1
    · exact List.mem_append_left _ (h h1)
    · exact List.mem_append_right _ h1

theorem fsImports_of_lookup : ∀ (fs : List (String × File)) (p : String) (a : Ast),
    lookupFile fs p = some (.code a) → a.imports ⊆ fsImports fs
  | [], _, _, h => by simp [lookupFile] at h
  | (n, f) :: r, p, a, h => by
    simp only [lookupFile] at h
    by_cases hn : n = p
    · simp only [hn, ↓reduceIte, Option.some.injEq] at h
      subst h
      simp only [fsImports]
      exact fun _ hx => List.mem_append_left _ hx
    · simp only [hn, ↓reduceIte] at h
      have ih := fsImports_of_lookup r p a h
      cases f with
      | code b => simp only [fsImports]; exact fun _ hx => List.mem_append_right _ (ih hx)
      | bytes => simpa [fsImports] using ih

structure Inv (W : World) (C : List Cap) (n : Nat) : Prop where
  expand : ∀ c ps a, c.dyn.reach ⊆ C → (c.sandboxed = true ∨ FsOK W C) → (∃ L, c.lib = some L ∧ L.reach ⊆ C) →
    ps.hasLib = true → ps.reach ⊆ C → a.reach ⊆ C → PCA C (impAllowed W c a) (expand W n c ps a)
  resolve : ∀ c a, c.dyn.reach ⊆ C → (c.sandboxed = true ∨ FsOK W C) → (∃ L, c.lib = some L ∧ L.reach ⊆ C) →
    a.reach ⊆ C → PRA C (impAllowed W c a) (resolve W n c a)
  run : ∀ c s e, c.dyn.reach ⊆ C → scopeCaps s e ⊆ C → P C (run W n c s e)
  call : ∀ c f a, c.dyn.reach ⊆ C → f.reach ⊆ C → a.reach ⊆ C → P C (call W n c f a)
  ceval : ∀ c ec v, (W.fixes.dynBarrier = true ∨ c.dyn.reach ⊆ C) → cfgCaps W ec ⊆ C → v.reach ⊆ C →
    P C (contextualEval W n c ec v)
  ews : ∀ c a s, c.dyn.reach ⊆ C → (c.sandboxed = true ∨ FsOK W C) → s.hasLib = true → s.reach ⊆ C →
    a.reach ⊆ C → PA C (impAllowed W c a) (evalWithScope W n c a s)

theorem inv_zero (W : World) (C : List Cap) : Inv W C 0 := by
  refine ⟨?_, ?_, ?_, ?_, ?_, ?_⟩
  · intro c ps a _ _ _ _ _ _; simp only [Impl.expand]; exact ⟨LogOK_nil C _, by intro a ps h; cases h⟩
  · intro c a _ _ _ _; simp only [Impl.resolve]; exact ⟨LogOK_nil C _, by intro a h; cases h⟩
  · intro c s e _ _; simp only [Impl.run]; exact P_fail C
  · intro c f a _ _ _; simp only [Impl.call]; exact P_fail C
  · intro c ec v _ _ _; simp only [Impl.contextualEval]; exact P_fail C
  · intro c a s _ _ _ _ _; simp only [Impl.evalWithScope]; exact P_fail C



theorem inv_run {W : World} {C : List Cap} {n : Nat} (ih : Inv W C n)
    (hfix : W.fixes.core) : ∀ c s e, c.dyn.reach ⊆ C → scopeCaps s e ⊆ C → P C (run W (n+1) c s e) := by
  intro c s e hd h
  have hs : s.reach ⊆ C := fun _ hc => h (scope_reach_sub s e hc)
  cases e with
  | num k => simp only [Impl.run]; exact P_ok (by simp [Val.reach])
  | str t => simp only [Impl.run]; exact P_ok (by simp [Val.reach])
  | quote a =>
    simp only [Impl.run]
    exact P_ok (fun c hc => h (ast_reach_sub s (.quote a) (by simpa [Val.reach, Ast.reach] using hc)))
  | var x =>
    simp only [Impl.run]
    by_cases hdx : isDyn x = true
    · simp only [hdx, ↓reduceIte]
      cases hg : c.dyn.get x with
      | none => exact P_fail C
      | some v =>
        have hv : v.reach ⊆ C := fun c' hc => hd (Val.get_reach c.dyn x v hg hc)
        cases v with
        | thunk env e => exact ih.run c env e hd (by simpa [Val.reach, scopeCaps] using hv)
        | _ => exact P_ok hv
    · have hdx' : isDyn x = false := by simpa using hdx
      simp only [hdx', Bool.false_eq_true, ↓reduceIte]
      cases hg : s.get x with
      | none => exact P_fail C
      | some v =>
        have hv : v.reach ⊆ C := fun c hc => hs (Val.get_reach s x v hg hc)
        cases v with
        | thunk env e => exact ih.run c env e hd (by simpa [Val.reach, scopeCaps] using hv)
        | _ => exact P_ok hv
  | lam x b =>
    simp only [Impl.run]
    apply P_ok
    rw [clo_reach]
    exact fun c hc => h (scopeCaps_sub (e := .lam x b) (by simp [Ast.reach]) (by simp [Ast.noPkg]) hc)
  | app f a =>
    simp only [Impl.run]
    have hf : scopeCaps s f ⊆ C := fun c hc =>
      h (scopeCaps_sub (e := .app f a) (by simp [Ast.reach]) (by simp [Ast.noPkg]; intro x _; exact x) hc)
    have ha : scopeCaps s a ⊆ C := fun c hc =>
      h (scopeCaps_sub (e := .app f a) (by simp [Ast.reach]) (by simp [Ast.noPkg]) hc)
    exact P_bind (ih.run c s f hd hf) fun vf hvf =>
      P_bind (ih.run c s a hd ha) fun va hva => ih.call c vf va hd hvf hva
  | letE x v b =>
    simp only [Impl.run]
    have hv : scopeCaps s v ⊆ C := fun c hc =>
      h (scopeCaps_sub (e := .letE x v b) (by simp [Ast.reach]) (by simp [Ast.noPkg]; intro x _; exact x) hc)
    have hb : scopeCaps s b ⊆ C := fun c hc =>
      h (scopeCaps_sub (e := .letE x v b) (by simp [Ast.reach]) (by simp [Ast.noPkg]) hc)
    refine P_bind (ih.run c s v hd hv) fun vv hvv => ?_
    by_cases hdx : isDyn x = true
    · simp only [hdx, ↓reduceIte]
      exact ih.run _ s b (fun c' hc => (append_sub hvv hd) (Val.bind_reach c.dyn x vv hc)) hb
    · simp only [hdx]
      exact ih.run c _ b hd (scopeCaps_bind hvv hb)
  | tnil => simp only [Impl.run]; exact P_ok (by simp [Val.reach])
  | tcons k v r =>
    simp only [Impl.run]
    have hv : scopeCaps s v ⊆ C := fun c hc =>
      h (scopeCaps_sub (e := .tcons k v r) (by simp [Ast.reach]) (by simp [Ast.noPkg]; intro x _; exact x) hc)
    have hr : scopeCaps s r ⊆ C := fun c hc =>
      h (scopeCaps_sub (e := .tcons k v r) (by simp [Ast.reach]) (by simp [Ast.noPkg]) hc)
    exact P_bind (ih.run c s v hd hv) fun vv hvv =>
      P_bind (ih.run c s r hd hr) fun vr hvr => P_ok (by simpa [Val.reach] using append_sub hvv hvr)
  | dot e k =>
    simp only [Impl.run]
    have he : scopeCaps s e ⊆ C := fun c hc =>
      h (scopeCaps_sub (e := .dot e k) (by simp [Ast.reach]) (by simp [Ast.noPkg]) hc)
    exact P_bind (ih.run c s e hd he) fun t ht => P_getAttr k ht
  | pkg k =>
    simp only [Impl.run]
    by_cases hl : s.hasLib = true
    · simp only [hl, ↓reduceIte]
      cases hg : s.get "//" with
      | none => exact P_fail C
      | some l => exact P_getAttr k (fun c hc => hs (Val.get_reach s "//" l hg hc))
    · have hall : allCaps ⊆ C := by
        intro c hc
        apply h
        unfold scopeCaps
        apply List.mem_append_right
        simpa [hl, Ast.noPkg] using hc
      simp only [hl]
      simp only [Val.get_bind, ↓reduceIte, Bool.false_eq_true]
      exact P_getAttr k (fun c _ => hall (mem_allCaps c))
  | imp p => simp only [Impl.run]; exact P_fail C
  | mac f => simp only [Impl.run]; exact P_fail C
  | lit v =>
    simp only [Impl.run]
    exact P_ok (fun c hc => h (ast_reach_sub s (.lit v) (by simpa [Ast.reach] using hc)))
  | imported e =>
    simp only [Impl.run, hfix.2.1, ↓reduceIte]
    apply ih.run _ _ _ hd
    cases hg : s.get "//" with
    | none =>
      have hl : s.hasLib = false := by simp [Val.hasLib, Val.hasKey, hg]
      intro c hc
      apply h
      unfold scopeCaps at *
      simp only [Val.reach, List.nil_append, Val.hasLib, Val.hasKey, Val.get, Option.isSome_none,
        Bool.false_or] at hc
      rcases List.mem_append.1 hc with h1 | h1
      · exact List.mem_append_left _ (List.mem_append_right _ (by simpa [Ast.reach] using h1))
      · apply List.mem_append_right; simpa [hl, Ast.noPkg] using h1
    | some l =>
      intro c hc
      unfold scopeCaps at hc
      have : (Val.cons "//" l .nil).hasLib = true := by simp [Val.hasLib, Val.hasKey, Val.get]
      simp only [this, Bool.true_or, ↓reduceIte, List.append_nil, Val.reach] at hc
      rcases List.mem_append.1 hc with h1 | h1
      · exact hs (Val.get_reach s "//" l hg h1)
      · exact h (ast_reach_sub s (.imported e) (by simpa [Ast.reach] using h1))



theorem addAll_reach : ∀ (t s : Val), (addAll t s).reach ⊆ t.reach ++ s.reach
  | .cons k v r, s => by
    simp only [addAll, Val.reach]
    intro c hc
    rcases List.mem_append.1 (addAll_reach r (s.bind k v) hc) with h | h
    · exact List.mem_append_left _ (List.mem_append_right _ h)
    · rcases List.mem_append.1 (Val.bind_reach s k v h) with h | h
      · exact List.mem_append_left _ (List.mem_append_left _ h)
      · exact List.mem_append_right _ h
  | .data, s | .str _, s | .src _, s | .nil, s | .clo .., s | .nat .., s | .thunk .., s => by
    simp [addAll]

theorem addAll_hasLib : ∀ (t s : Val), s.hasLib = true → (addAll t s).hasLib = true
  | .cons k v r, s, h => by
    simp only [addAll]
    exact addAll_hasLib r _ (Val.hasLib_bind s k v h)
  | .data, s, h | .str _, s, h | .src _, s, h | .nil, s, h | .clo .., s, h | .nat .., s, h | .thunk .., s, h => by
    simpa [addAll] using h

theorem sandboxScope_hasLib (W : World) (ec : EvalConfig) : (sandboxScope W ec).hasLib = true := by
  unfold sandboxScope
  apply addAll_hasLib
  cases ec.stdlib <;> simp [Val.hasLib, Val.hasKey, Val.get]

theorem sandboxScope_reach (W : World) (ec : EvalConfig) : (sandboxScope W ec).reach ⊆ cfgCaps W ec := by
  unfold sandboxScope cfgCaps
  intro c hc
  rcases List.mem_append.1 (addAll_reach _ _ hc) with h | h
  · exact List.mem_append_right _ h
  · apply List.mem_append_left
    cases hl : ec.stdlib <;> simpa [hl, Val.reach] using h

theorem parseEvalConfig_reach {cfg : Val} {ec : EvalConfig} (h : parseEvalConfig cfg = some ec) :
    (match ec.stdlib with | some l => l.reach | none => []) ++ ec.scopes.reach ⊆ cfg.reach := by
  unfold parseEvalConfig at h
  split at h
  · cases h
  · cases hs : cfg.get "scope" with
    | none =>
      cases hl : cfg.get "stdlib" with
      | none => simp [hs, hl] at h; subst h; simp [Val.reach]
      | some l =>
        simp only [hs, hl] at h
        split at h
        · cases h
          simpa [Val.reach] using Val.get_reach cfg "stdlib" l hl
        · cases h
    | some s =>
      cases hl : cfg.get "stdlib" with
      | none =>
        simp only [hs, hl] at h
        split at h
        · cases h
          simpa [Val.reach] using Val.get_reach cfg "scope" s hs
        · cases h
      | some l =>
        simp only [hs, hl] at h
        split at h
        · cases h
          exact append_sub (Val.get_reach cfg "stdlib" l hl) (Val.get_reach cfg "scope" s hs)
        · cases h

theorem inv_call {W : World} {C : List Cap} {n : Nat} (ih : Inv W C n)
    (hfix : W.fixes.core) (hsafe : W.safe.reach ⊆ safeCaps) :
    ∀ c f a, c.dyn.reach ⊆ C → f.reach ⊆ C → a.reach ⊆ C → P C (call W (n+1) c f a) := by
  intro c f a hd hf ha
  cases f with
  | clo env x b =>
    simp only [Impl.call]
    rw [clo_reach] at hf
    by_cases hdx : isDyn x = true
    · simp only [hdx, ↓reduceIte]
      exact ih.run _ env b (fun c' hc => (append_sub ha hd) (Val.bind_reach c.dyn x a hc)) hf
    · simp only [hdx]
      exact ih.run c _ b hd (scopeCaps_bind ha hf)
  | nat names cap held =>
    simp only [Impl.call]
    have hcap : capClosure cap ⊆ C := fun c hc => hf (by simp [Val.reach, hc])
    have hheld : held.reach ⊆ C := fun c hc => hf (by simp [Val.reach, hc])
    cases names with
    | nil => exact P_fail C
    | cons nm rest =>
      simp only
      split
      · apply P_ok
        simp only [Val.reach]
        exact append_sub hcap (append_sub ha hheld)
      · split
        · -- //eval.value
          cases a with
          | src t =>
            simp only [hfix.2.2.2, ↓reduceIte]
            exact ih.ceval c _ _ (Or.inr hd) (by simp [cfgCaps, Val.reach]) ha
          | _ => exact P_fail C
        · split
          · -- eval$2
            rename_i _ _ hev
            have hce : cap = .eval := by
              simp only [Bool.and_eq_true, decide_eq_true_eq] at hev; exact hev.1
            cases hg : held.get "" with
            | none => exact P_fail C
            | some cfg =>
              simp only
              cases hp : parseEvalConfig cfg with
              | none => exact P_fail C
              | some ec =>
                simp only
                apply ih.ceval c ec a (Or.inr hd) _ ha
                have h1 := parseEvalConfig_reach hp
                have hcfg : cfg.reach ⊆ C := fun c hc => hheld (Val.get_reach held "" cfg hg hc)
                unfold cfgCaps
                cases hl : ec.stdlib with
                | some l =>
                  simp only [hl] at h1 ⊢
                  exact fun c hc => hcfg (h1 hc)
                | none =>
                  simp only [hl] at h1 ⊢
                  apply append_sub
                  · subst hce
                    exact fun c hc => hcap (hsafe hc)
                  · exact fun c hc => hcfg (h1 (by simpa using hc))
          · split
            · -- //os.file
              rename_i hfl
              have hcr : cap = .readFile := by
                simp only [Bool.and_eq_true, decide_eq_true_eq] at hfl; exact hfl.1
              subst hcr
              cases a with
              | str p =>
                simp only
                split
                · exact P_fail C
                · refine ⟨⟨?_, by intro p' hp'; simp at hp'⟩, ?_⟩
                  · intro cp ag he
                    simp only [List.mem_singleton, Eff.did.injEq] at he
                    rw [he.1]
                    exact hcap (mem_capClosure .readFile)
                  · intro v hv
                    cases hlf : lookupFile W.fs p <;> simp [hlf] at hv
                    subst hv; simp [Val.reach]
              | data => exact P_unmodelled C
              | src _ => exact P_unmodelled C
              | _ => exact P_fail C
            · refine ⟨⟨?_, ?_⟩, ?_⟩
              · intro cp ag he
                simp only [List.mem_cons] at he
                rcases he with he | he
                · simp only [Eff.did.injEq] at he
                  rw [he.1]
                  exact hcap (mem_capClosure cap)
                · split at he <;> (try split at he) <;> simp at he
              · intro p' he
                simp only [List.mem_cons] at he
                rcases he with he | he
                · cases he
                · split at he <;> (try split at he) <;> simp at he
              · intro v hv
                simp only [Option.some.injEq] at hv
                subst hv; simp [Val.reach]
  | nil => simp only [Impl.call]; exact P_fail C
  | cons _ _ _ => simp only [Impl.call]; exact P_fail C
  | _ => simp only [Impl.call]; exact P_unmodelled C



theorem inv_ceval {W : World} {C : List Cap} {n : Nat} (ih : Inv W C n) :
    ∀ c ec v, (W.fixes.dynBarrier = true ∨ c.dyn.reach ⊆ C) → cfgCaps W ec ⊆ C → v.reach ⊆ C →
      P C (contextualEval W (n+1) c ec v) := by
  intro c ec v hdyn hc hv
  cases v with
  | src a =>
    simp only [Impl.contextualEval]
    have hews := ih.ews { (if W.fixes.dynBarrier = true then { c with dyn := Val.nil } else c) with sandboxed := true }
      a (sandboxScope W ec) ?_ (Or.inl rfl) (sandboxScope_hasLib W ec)
      (fun x hx => hc (sandboxScope_reach W ec hx)) (by simpa [Val.reach] using hv)
    · simpa [impAllowed] using hews
    by_cases hb : W.fixes.dynBarrier = true
    · simp [hb, Val.reach]
    · rcases hdyn with h | h
      · exact absurd h hb
      · simpa [hb] using h
  | _ => simp only [Impl.contextualEval]; exact P_fail C

theorem baseScope_ok {C : List Cap} {c : Ctx} (hlib : ∃ L, c.lib = some L ∧ L.reach ⊆ C) :
    (baseScope c).hasLib = true ∧ (baseScope c).reach ⊆ C := by
  obtain ⟨L, hL, hLr⟩ := hlib
  have hbs : baseScope c = .cons "//" L .nil := by simp [baseScope, hL]
  rw [hbs]
  exact ⟨by simp [Val.hasLib, Val.hasKey, Val.get], by simpa [Val.reach] using hLr⟩

theorem thunk_reach (env : Val) (e : Ast) : (Val.thunk env e).reach = scopeCaps env e := by
  simp [Val.reach, scopeCaps]

/-- what the `bind` hook pushes keeps the parse-time scope inside C -/
theorem bindHook_ok {C : List Cap} {ps : Val} {x : String} {v : Ast} (hl : ps.hasLib = true)
    (hp : ps.reach ⊆ C) (hv : v.reach ⊆ C) :
    ((ps.bind "." (.thunk ps v)).bind x (.thunk ps v)).hasLib = true ∧
    ((ps.bind "." (.thunk ps v)).bind x (.thunk ps v)).reach ⊆ C := by
  have ht : (Val.thunk ps v).reach ⊆ C := by
    rw [thunk_reach]
    unfold scopeCaps
    simp only [hl, Bool.true_or, ↓reduceIte, List.append_nil]
    exact append_sub hp hv
  have h1 : (ps.bind "." (.thunk ps v)).reach ⊆ C :=
    fun c hc => (append_sub ht hp) (Val.bind_reach ps "." _ hc)
  refine ⟨Val.hasLib_bind _ _ _ (Val.hasLib_bind _ _ _ hl), ?_⟩
  exact fun c hc => (append_sub ht h1) (Val.bind_reach _ x _ hc)

/-- parsing only removes import syntax (a macro becomes its expansion): what is left to resolve afterwards is
named in the source -/
theorem expand_imports (W : World) : ∀ (n : Nat) (c : Ctx) (ps : Val) (a a1 : Ast) (ps1 : Val),
    (expand W n c ps a).1 = some (a1, ps1) → a1.imports ⊆ a.imports
  | 0, _, _, _, _, _, h => by simp [Impl.expand] at h
  | n+1, c, ps, a, a1, ps1, h => by
    have bindEq : ∀ (r : CRes) (f : Ast → Val → CRes) (y : Ast × Val), (r.bind f).1 = some y →
        ∃ x px, r.1 = some (x, px) ∧ (f x px).1 = some y := by
      intro r f y hy
      obtain ⟨o, l⟩ := r
      cases o with
      | none => simp [CRes.bind] at hy
      | some v => exact ⟨v.1, v.2, rfl, by simpa [CRes.bind] using hy⟩
    have mapEq : ∀ (r : CRes) (g : Ast → Ast) (y : Ast × Val), (r.map g).1 = some y →
        ∃ x, r.1 = some (x, y.2) ∧ y.1 = g x := by
      intro r g y hy
      obtain ⟨o, l⟩ := r
      cases o with
      | none => simp [CRes.map] at hy
      | some v =>
        simp only [CRes.map, Option.map_some, Option.some.injEq] at hy
        exact ⟨v.1, by simp [← hy], by simp [← hy]⟩
    have bindCEq : ∀ (r : RRes) (f : Ast → CRes) (y : Ast × Val), (r.bindC f).1 = some y →
        ∃ x, r.1 = some x ∧ (f x).1 = some y := by
      intro r f y hy
      obtain ⟨o, l⟩ := r
      cases o with
      | none => simp [RRes.bindC] at hy
      | some v => exact ⟨v, rfl, by simpa [RRes.bindC] using hy⟩
    cases a with
    | lam x b =>
      simp only [Impl.expand] at h
      obtain ⟨b1, hb, hy⟩ := mapEq _ _ _ h
      simp only at hy hb
      subst hy
      simpa [Ast.imports] using expand_imports W n c ps b b1 ps1 hb
    | dot e k =>
      simp only [Impl.expand] at h
      obtain ⟨e1, he, hy⟩ := mapEq _ _ _ h
      simp only at hy he
      subst hy
      simpa [Ast.imports] using expand_imports W n c ps e e1 ps1 he
    | app f x =>
      simp only [Impl.expand] at h
      obtain ⟨f1, pf, hf, h2⟩ := bindEq _ _ _ h
      obtain ⟨x1, hx, hy⟩ := mapEq _ _ _ h2
      simp only at hy hx
      subst hy
      simp only [Ast.imports]
      intro p hp
      rcases List.mem_append.1 hp with h1 | h1
      · exact List.mem_append_left _ (expand_imports W n c ps f f1 pf hf h1)
      · exact List.mem_append_right _ (expand_imports W n c pf x x1 ps1 hx h1)
    | tcons k v r =>
      simp only [Impl.expand] at h
      obtain ⟨v1, pv, hv, h2⟩ := bindEq _ _ _ h
      obtain ⟨r1, hr, hy⟩ := mapEq _ _ _ h2
      simp only at hy hr
      subst hy
      simp only [Ast.imports]
      intro p hp
      rcases List.mem_append.1 hp with h1 | h1
      · exact List.mem_append_left _ (expand_imports W n c ps v v1 pv hv h1)
      · exact List.mem_append_right _ (expand_imports W n c pv r r1 ps1 hr h1)
    | letE x v b =>
      simp only [Impl.expand] at h
      obtain ⟨v1, pv, hv, h2⟩ := bindEq _ _ _ h
      obtain ⟨v2, _, h3⟩ := bindCEq _ _ _ h2
      obtain ⟨b1, hb, hy⟩ := mapEq _ _ _ h3
      simp only at hy hb
      subst hy
      simp only [Ast.imports]
      intro p hp
      rcases List.mem_append.1 hp with h1 | h1
      · exact List.mem_append_left _ (expand_imports W n c ps v v1 pv hv h1)
      · exact List.mem_append_right _ (expand_imports W n c _ b b1 ps1 hb h1)
    | mac f =>
      simp only [Impl.expand] at h
      obtain ⟨f1, pf, _, h2⟩ := bindEq _ _ _ h
      obtain ⟨f2, _, h3⟩ := bindCEq _ _ _ h2
      -- the result is a literal
      have resBind : ∀ (r : Res) (g : Val → CRes) (y : Ast × Val), (r.bindC g).1 = some y →
          ∃ v, (g v).1 = some y := by
        intro r g y hy
        obtain ⟨o, l⟩ := r
        cases o with
        | none => simp [Res.bindC] at hy
        | some v => exact ⟨v, by simpa [Res.bindC] using hy⟩
      obtain ⟨_, h4⟩ := resBind _ _ _ h3
      obtain ⟨_, h5⟩ := resBind _ _ _ h4
      obtain ⟨v, h6⟩ := resBind _ _ _ h5
      simp only [Option.some.injEq, Prod.mk.injEq] at h6
      simp [← h6.1, Ast.imports]
    | num _ | str _ | quote _ | var _ | tnil | pkg _ | imp _ | lit _ | imported _ =>
      simp only [Impl.expand, Option.some.injEq, Prod.mk.injEq] at h
      simp [← h.1]

theorem inv_ews {W : World} {C : List Cap} {n : Nat} (ih : Inv W C n) (hfix : W.fixes.core) :
    ∀ c a s, c.dyn.reach ⊆ C → (c.sandboxed = true ∨ FsOK W C) → s.hasLib = true → s.reach ⊆ C →
      a.reach ⊆ C → PA C (impAllowed W c a) (evalWithScope W (n+1) c a s) := by
  intro c a s hd hsb hl hs ha
  simp only [Impl.evalWithScope]
  cases hg : s.get "//" with
  | none => simp [Val.hasLib, Val.hasKey, hg] at hl
  | some l =>
    simp only
    have hlr : l.reach ⊆ C := fun x hx => hs (Val.get_reach s "//" l hg hx)
    have hps := baseScope_ok (C := C) (c := { sandboxed := c.sandboxed, compiling := c.compiling, lib := some l, dyn := c.dyn })
      ⟨l, rfl, hlr⟩
    have hps0 : parseScope0 W { sandboxed := c.sandboxed, compiling := c.compiling, lib := some l, dyn := c.dyn }
        = baseScope { sandboxed := c.sandboxed, compiling := c.compiling, lib := some l, dyn := c.dyn } := by
      simp [parseScope0, hfix.1]
    rw [hps0]
    have hexp := ih.expand { sandboxed := c.sandboxed, compiling := true, lib := some l, dyn := c.dyn }
      (baseScope { sandboxed := c.sandboxed, compiling := c.compiling, lib := some l, dyn := c.dyn }) a hd hsb
      ⟨l, rfl, hlr⟩ hps.1 hps.2 ha
    have himp := expand_imports W n { sandboxed := c.sandboxed, compiling := true, lib := some l, dyn := c.dyn }
      (baseScope { sandboxed := c.sandboxed, compiling := c.compiling, lib := some l, dyn := c.dyn }) a
    have hA : impAllowed W { sandboxed := c.sandboxed, compiling := true, lib := some l, dyn := c.dyn } a
        = impAllowed W c a := rfl
    rw [hA] at hexp
    revert hexp himp
    generalize Impl.expand W n { sandboxed := c.sandboxed, compiling := true, lib := some l, dyn := c.dyn }
      (baseScope { sandboxed := c.sandboxed, compiling := c.compiling, lib := some l, dyn := c.dyn }) a = r
    intro hexp himp
    obtain ⟨o, lg⟩ := r
    cases o with
    | none => exact ⟨hexp.1, by intro v h; cases h⟩
    | some x =>
      obtain ⟨a1, ps'⟩ := x
      simp only
      have ha1 : a1.reach ⊆ C := (hexp.2 a1 ps' rfl).1
      have hres := ih.resolve { sandboxed := c.sandboxed, compiling := true, lib := some l, dyn := c.dyn } a1 hd hsb
        ⟨l, rfl, hlr⟩ ha1
      have hA1 : impAllowed W { sandboxed := c.sandboxed, compiling := true, lib := some l, dyn := c.dyn } a1
          ⊆ impAllowed W c a := impAllowed_mono (c := c) (himp a1 ps' rfl)
      have hres' := PRA_mono hA1 hres
      revert hres'
      generalize Impl.resolve W n { sandboxed := c.sandboxed, compiling := true, lib := some l, dyn := c.dyn } a1 = r2
      intro hres'
      obtain ⟨o2, lg2⟩ := r2
      cases o2 with
      | none => exact ⟨LogOK_append hexp.1 hres'.1, by intro v h; cases h⟩
      | some a2 =>
        simp only
        have ha2 : a2.reach ⊆ C := hres'.2 a2 rfl
        have hrun := ih.run { sandboxed := c.sandboxed, compiling := false, lib := some l, dyn := c.dyn } s a2 hd (by
          unfold scopeCaps
          simp only [hl, Bool.true_or, ↓reduceIte, List.append_nil]
          exact append_sub hs ha2)
        exact ⟨LogOK_append (LogOK_append hexp.1 hres'.1) (LogOK_mono (List.nil_subset _) hrun.1), hrun.2⟩

theorem inv_expand {W : World} {C : List Cap} {n : Nat} (ih : Inv W C n) :
    ∀ c ps a, c.dyn.reach ⊆ C → (c.sandboxed = true ∨ FsOK W C) → (∃ L, c.lib = some L ∧ L.reach ⊆ C) →
      ps.hasLib = true → ps.reach ⊆ C → a.reach ⊆ C → PCA C (impAllowed W c a) (expand W (n+1) c ps a) := by
  intro c ps a hd hsb hlib hpl hpr ha
  have hexpImp := expand_imports W n c
  cases a with
  | lam x b =>
    simp only [Impl.expand]
    exact PC_map (PCA_mono (impAllowed_mono (by simp [Ast.imports]))
      (ih.expand c ps b hd hsb hlib hpl hpr (by simpa [Ast.reach] using ha))) (by simp [Ast.reach])
  | app f x =>
    simp only [Impl.expand]
    simp only [Ast.reach] at ha
    exact PC_bind (PCA_mono (impAllowed_mono (by simp [Ast.imports]))
        (ih.expand c ps f hd hsb hlib hpl hpr (sub_of_append_left ha))) fun f' ps1 hf' hp1 hl1 =>
      PC_map (PCA_mono (impAllowed_mono (by simp [Ast.imports]))
        (ih.expand c ps1 x hd hsb hlib hl1 hp1 (sub_of_append_right ha)))
        (fun a' ha' => by simpa [Ast.reach] using append_sub hf' ha')
  | letE x v b =>
    simp only [Impl.expand]
    simp only [Ast.reach] at ha
    have hv := ih.expand c ps v hd hsb hlib hpl hpr (sub_of_append_left ha)
    have hvi := hexpImp ps v
    revert hv hvi
    generalize Impl.expand W n c ps v = rv
    intro hv hvi
    obtain ⟨ov, lv⟩ := rv
    cases ov with
    | none => exact ⟨LogOK_mono (impAllowed_mono (by simp [Ast.imports])) hv.1, by intro a ps h; cases h⟩
    | some xv =>
      obtain ⟨v1, ps1⟩ := xv
      have h3 := hv.2 v1 ps1 rfl
      have hA1 : impAllowed W c v1 ⊆ impAllowed W c (.letE x v b) :=
        impAllowed_mono (fun p hp => by simpa [Ast.imports] using Or.inl (hvi v1 ps1 rfl hp))
      have hrest : PCA C (impAllowed W c (.letE x v b))
          ((resolve W n c v1).bindC fun v2 =>
            (expand W n c ((ps1.bind "." (.thunk ps1 v2)).bind x (.thunk ps1 v2)) b).map (.letE x v1)) :=
        PC_bindR (PRA_mono hA1 (ih.resolve c v1 hd hsb hlib h3.1)) fun v2 hv2 =>
          PC_map (PCA_mono (impAllowed_mono (by simp [Ast.imports]))
            (ih.expand c _ b hd hsb hlib (bindHook_ok h3.2.2 h3.2.1 hv2).1 (bindHook_ok h3.2.2 h3.2.1 hv2).2
              (sub_of_append_right ha)))
            (fun a' ha' => by simpa [Ast.reach] using append_sub h3.1 ha')
      exact ⟨LogOK_append (LogOK_mono (impAllowed_mono (by simp [Ast.imports])) hv.1) hrest.1, hrest.2⟩
  | tcons k v r =>
    simp only [Impl.expand]
    simp only [Ast.reach] at ha
    exact PC_bind (PCA_mono (impAllowed_mono (by simp [Ast.imports]))
        (ih.expand c ps v hd hsb hlib hpl hpr (sub_of_append_left ha))) fun v' ps1 hv' hp1 hl1 =>
      PC_map (PCA_mono (impAllowed_mono (by simp [Ast.imports]))
        (ih.expand c ps1 r hd hsb hlib hl1 hp1 (sub_of_append_right ha)))
        (fun a' ha' => by simpa [Ast.reach] using append_sub hv' ha')
  | dot e k =>
    simp only [Impl.expand]
    exact PC_map (PCA_mono (impAllowed_mono (by simp [Ast.imports]))
      (ih.expand c ps e hd hsb hlib hpl hpr (by simpa [Ast.reach] using ha))) (by simp [Ast.reach])
  | mac f =>
    simp only [Impl.expand]
    have hsc : ∀ (s : Val) (e : Ast), s.hasLib = true → s.reach ⊆ C → e.reach ⊆ C → scopeCaps s e ⊆ C := by
      intro s e hsl hsr he
      unfold scopeCaps
      simp only [hsl, Bool.true_or, ↓reduceIte, List.append_nil]
      exact append_sub hsr he
    have hnil : ∀ {r : Res}, P C r → PA C (impAllowed W c (.mac f)) r := PA_mono (List.nil_subset _)
    have hf := ih.expand c ps f hd hsb hlib hpl hpr (by simpa [Ast.reach] using ha)
    have hfi := hexpImp ps f
    revert hf hfi
    generalize Impl.expand W n c ps f = rf
    intro hf hfi
    obtain ⟨of, lf⟩ := rf
    cases of with
    | none => exact ⟨LogOK_mono (impAllowed_mono (by simp [Ast.imports])) hf.1, by intro a ps h; cases h⟩
    | some xf =>
      obtain ⟨f1, ps1⟩ := xf
      have h3 := hf.2 f1 ps1 rfl
      have hA1 : impAllowed W c f1 ⊆ impAllowed W c (.mac f) :=
        impAllowed_mono (fun p hp => by simpa [Ast.imports] using hfi f1 ps1 rfl hp)
      have hrest : PCA C (impAllowed W c (.mac f))
          ((resolve W n c f1).bindC fun f2 =>
            (run W n c ps1 grammarRef).bindC fun _ =>
            (run W n c ps1 f2).bindC fun fv =>
            (call W n c fv .data).bindC fun v => (some (.lit v, ps1), [])) := by
        refine PC_bindR (PRA_mono hA1 (ih.resolve c f1 hd hsb hlib h3.1)) fun f2 hf2 => ?_
        refine PC_bindC (hnil (ih.run c ps1 grammarRef hd
          (hsc ps1 _ h3.2.2 h3.2.1 (by simp [grammarRef, Ast.reach])))) fun _ _ => ?_
        refine PC_bindC (hnil (ih.run c ps1 f2 hd (hsc ps1 f2 h3.2.2 h3.2.1 hf2))) fun fv hfv => ?_
        refine PC_bindC (hnil (ih.call c fv .data hd hfv (by simp [Val.reach]))) fun v hv => ?_
        exact PC_ret (by simpa [Ast.reach] using hv) h3.2.1 h3.2.2
      exact ⟨LogOK_append (LogOK_mono (impAllowed_mono (by simp [Ast.imports])) hf.1) hrest.1, hrest.2⟩
  | num _ | str _ | quote _ | var _ | tnil | pkg _ | imp _ | lit _ | imported _ =>
    simp only [Impl.expand]; exact PC_ret ha hpr hpl

theorem inv_resolve {W : World} {C : List Cap} {n : Nat} (ih : Inv W C n) (hfix : W.fixes.core) :
    ∀ c a, c.dyn.reach ⊆ C → (c.sandboxed = true ∨ FsOK W C) → (∃ L, c.lib = some L ∧ L.reach ⊆ C) →
      a.reach ⊆ C → PRA C (impAllowed W c a) (resolve W (n+1) c a) := by
  intro c a hd hsb hlib ha
  cases a with
  | lam x b =>
    simp only [Impl.resolve]
    exact PR_map (PRA_mono (impAllowed_mono (by simp [Ast.imports]))
      (ih.resolve c b hd hsb hlib (by simpa [Ast.reach] using ha))) (by simp [Ast.reach])
  | app f x =>
    simp only [Impl.resolve]
    simp only [Ast.reach] at ha
    exact PR_bind (PRA_mono (impAllowed_mono (by simp [Ast.imports]))
        (ih.resolve c f hd hsb hlib (sub_of_append_left ha))) fun f' hf' =>
      PR_map (PRA_mono (impAllowed_mono (by simp [Ast.imports]))
        (ih.resolve c x hd hsb hlib (sub_of_append_right ha)))
        (fun a' ha' => by simpa [Ast.reach] using append_sub hf' ha')
  | letE x v b =>
    simp only [Impl.resolve]
    simp only [Ast.reach] at ha
    exact PR_bind (PRA_mono (impAllowed_mono (by simp [Ast.imports]))
        (ih.resolve c v hd hsb hlib (sub_of_append_left ha))) fun v' hv' =>
      PR_map (PRA_mono (impAllowed_mono (by simp [Ast.imports]))
        (ih.resolve c b hd hsb hlib (sub_of_append_right ha)))
        (fun a' ha' => by simpa [Ast.reach] using append_sub hv' ha')
  | tcons k v r =>
    simp only [Impl.resolve]
    simp only [Ast.reach] at ha
    exact PR_bind (PRA_mono (impAllowed_mono (by simp [Ast.imports]))
        (ih.resolve c v hd hsb hlib (sub_of_append_left ha))) fun v' hv' =>
      PR_map (PRA_mono (impAllowed_mono (by simp [Ast.imports]))
        (ih.resolve c r hd hsb hlib (sub_of_append_right ha)))
        (fun a' ha' => by simpa [Ast.reach] using append_sub hv' ha')
  | dot e k =>
    simp only [Impl.resolve]
    exact PR_map (PRA_mono (impAllowed_mono (by simp [Ast.imports]))
      (ih.resolve c e hd hsb hlib (by simpa [Ast.reach] using ha))) (by simp [Ast.reach])
  | imp p =>
    simp only [Impl.resolve, hfix.2.2.1, Bool.true_and]
    by_cases hs : c.sandboxed = true
    · simp only [hs, ↓reduceIte]
      exact ⟨LogOK_nil C _, by intro a h; cases h⟩
    · have hs' : c.sandboxed = false := by simpa using hs
      have hfs : FsOK W C := hsb.resolve_left hs
      have hA : impAllowed W c (.imp p) = p :: fsImports W.fs := by simp [impAllowed, hs', Ast.imports]
      rw [hA]
      simp only [hs', Bool.false_eq_true, ↓reduceIte]
      cases hlf : lookupFile W.fs p with
      | none =>
        exact ⟨⟨by intro cp ag h; simp at h, by intro q h; simp at h; simp [h]⟩, by intro a h; cases h⟩
      | some f =>
        cases f with
        | bytes =>
          refine ⟨⟨by intro cp ag h; simp at h, by intro q h; simp at h; simp [h]⟩, ?_⟩
          intro a h
          simp only [Option.some.injEq] at h
          subst h
          simp [Ast.reach, Val.reach]
        | code src =>
          simp only
          have hps0 : parseScope0 W c = baseScope c := by simp [parseScope0, hfix.1]
          rw [hps0]
          have hbs := baseScope_ok hlib
          have hsubsrc : impAllowed W c src ⊆ p :: fsImports W.fs := by
            simp only [impAllowed, hs', Bool.false_eq_true, ↓reduceIte]
            intro q hq
            rcases List.mem_append.1 hq with h1 | h1
            · exact List.mem_cons_of_mem _ (fsImports_of_lookup W.fs p src hlf h1)
            · exact List.mem_cons_of_mem _ h1
          have hexp := PCA_mono hsubsrc (ih.expand c (baseScope c) src hd hsb hlib hbs.1 hbs.2 (hfs p src hlf))
          have himp := expand_imports W n c (baseScope c) src
          revert hexp himp
          generalize Impl.expand W n c (baseScope c) src = e
          intro hexp himp
          obtain ⟨oe, le⟩ := e
          have hcons : ∀ {l : List Eff}, LogOK C (p :: fsImports W.fs) l →
              LogOK C (p :: fsImports W.fs) (Eff.imported p :: l) := by
            intro l hl
            refine ⟨?_, ?_⟩
            · intro cp ag h
              simp only [List.mem_cons] at h
              rcases h with h | h
              · cases h
              · exact hl.1 cp ag h
            · intro q h
              simp only [List.mem_cons, Eff.imported.injEq] at h
              rcases h with h | h
              · simp [h]
              · exact hl.2 q h
          cases oe with
          | none => exact ⟨hcons hexp.1, by intro a h; cases h⟩
          | some x =>
            obtain ⟨s1, ps1⟩ := x
            simp only
            have hs1 := (hexp.2 s1 ps1 rfl).1
            have hsub1 : impAllowed W c s1 ⊆ p :: fsImports W.fs :=
              fun q hq => hsubsrc (impAllowed_mono (c := c) (himp s1 ps1 rfl) hq)
            have hres := PRA_mono hsub1 (ih.resolve c s1 hd hsb hlib hs1)
            refine ⟨hcons (LogOK_append hexp.1 hres.1), ?_⟩
            intro a h
            cases hc : (resolve W n c s1).1 with
            | none => simp [hc] at h
            | some a' =>
              simp only [hc, Option.map_some, Option.some.injEq] at h
              subst h
              simpa [Ast.reach] using hres.2 a' hc
  | mac f => simp only [Impl.resolve]; exact ⟨LogOK_nil C _, by intro a h; cases h⟩
  | num _ | str _ | quote _ | var _ | tnil | pkg _ | lit _ | imported _ =>
    simp only [Impl.resolve]; exact PR_ret ha

/-- the invariant holds at every fuel -/
theorem inv (W : World) (C : List Cap) (hfix : W.fixes.core) (hsafe : W.safe.reach ⊆ safeCaps) :
    ∀ n, Inv W C n
  | 0 => inv_zero W C
  | n+1 =>
    have ih := inv W C hfix hsafe n
    ⟨inv_expand ih, inv_resolve ih hfix, inv_run ih hfix, inv_call ih hfix hsafe, inv_ceval ih, inv_ews ih hfix⟩

end Arrai.C18

namespace Arrai.C18
open Impl

/-! ### consequences -/

/-- source text: no compiled forms (macro expansions, resolved imports) inside, at any quotation depth -/
def Ast.isSource : Ast → Bool
  | .lit _ | .imported _ => false
  | .quote a => a.isSource
  | .lam _ b => b.isSource
  | .app f a => f.isSource && a.isSource
  | .letE _ v b => v.isSource && b.isSource
  | .tcons _ v r => v.isSource && r.isSource
  | .dot e _ => e.isSource
  | .mac f => f.isSource
  | _ => true

theorem Ast.reach_of_source : ∀ a : Ast, a.isSource = true → a.reach = []
  | .num _, _ | .str _, _ | .var _, _ | .tnil, _ | .pkg _, _ | .imp _, _ => by simp [Ast.reach]
  | .quote a, h => by simpa [Ast.reach] using Ast.reach_of_source a (by simpa [Ast.isSource] using h)
  | .lam _ b, h => by simpa [Ast.reach] using Ast.reach_of_source b (by simpa [Ast.isSource] using h)
  | .dot e _, h => by simpa [Ast.reach] using Ast.reach_of_source e (by simpa [Ast.isSource] using h)
  | .mac f, h => by simpa [Ast.reach] using Ast.reach_of_source f (by simpa [Ast.isSource] using h)
  | .app f a, h => by
    simp only [Ast.isSource, Bool.and_eq_true] at h
    simp [Ast.reach, Ast.reach_of_source f h.1, Ast.reach_of_source a h.2]
  | .letE _ v b, h => by
    simp only [Ast.isSource, Bool.and_eq_true] at h
    simp [Ast.reach, Ast.reach_of_source v h.1, Ast.reach_of_source b h.2]
  | .tcons _ v r, h => by
    simp only [Ast.isSource, Bool.and_eq_true] at h
    simp [Ast.reach, Ast.reach_of_source v h.1, Ast.reach_of_source r h.2]
  | .lit _, h | .imported _, h => by simp [Ast.isSource] at h

/-- Confinement, for any world with the four repairs in force whose safe library stays within `safeCaps`:
what the configuration hands over bounds what the result reaches and what is done — provided the dynamic
variables of the calling context are themselves within bounds, or the sandbox does not see them. -/
theorem confinement_general (W : World) (hfix : W.fixes.core) (hsafe : W.safe.reach ⊆ safeCaps)
    (ec : EvalConfig) (C : List Cap) (hC : cfgCaps W ec ⊆ C) (a : Ast) (ha : a.isSource = true)
    (fuel : Nat) (c : Ctx) (hdyn : W.fixes.dynBarrier = true ∨ c.dyn.reach ⊆ C) :
    Spec.Confined C (sandboxEval W fuel c ec a) := by
  have h := (inv W C hfix hsafe fuel).ceval c ec (.src a) hdyn hC
    (by simp [Val.reach, Ast.reach_of_source a ha])
  exact ⟨h.2, h.1.1⟩

/-- sandboxed evaluation never goes through the importer: no file is opened by import syntax, whatever the
source (at any depth of nested //eval.*, in macros, in functions called later) -/
theorem sandbox_never_imports_general (W : World) (hfix : W.fixes.core) (hsafe : W.safe.reach ⊆ safeCaps)
    (ec : EvalConfig) (a : Ast) (ha : a.isSource = true) (fuel : Nat) (c : Ctx) (p : String) :
    Eff.imported p ∉ (sandboxEval W fuel c ec a).2 := by
  -- with C := every capability the invariant has no side conditions left
  have h := (inv W allCaps hfix hsafe fuel).ceval c ec (.src a) (Or.inr (sub_allCaps _)) (sub_allCaps _)
    (sub_allCaps _)
  intro hp
  exact absurd (h.1.2 p hp) (by simp)

/-- a file system of source text: every .arrai file is source -/
def FsSource (fs : List (String × File)) : Prop :=
  ∀ p a, lookupFile fs p = some (.code a) → a.isSource = true

/-- **The direct entry** `EvalWithScope(ctx, "", src, scope)` outside any sandbox, with a scope that binds `//`:
import syntax is allowed, imported code is evaluated under the importer's `//`.  The result reaches only what
the scope reaches; every capability exercised is one the scope reaches; the importer opens only files named
by import syntax in the source or in a file of the file system. -/
theorem direct_general (W : World) (hfix : W.fixes.core) (hsafe : W.safe.reach ⊆ safeCaps)
    (hfs : FsSource W.fs) (s : Val) (hl : s.hasLib = true) (C : List Cap) (hs : s.reach ⊆ C)
    (a : Ast) (ha : a.isSource = true) (fuel : Nat) (c : Ctx) (hd : c.dyn.reach ⊆ C) :
    Spec.Confined C (evalWithScope W fuel c a s) ∧
    (∀ p, Eff.imported p ∈ (evalWithScope W fuel c a s).2 → p ∈ a.imports ++ fsImports W.fs) := by
  have hfsok : FsOK W C := fun p b hb => by simp [Ast.reach_of_source b (hfs p b hb)]
  have h := (inv W C hfix hsafe fuel).ews c a s hd (Or.inr hfsok) hl hs
    (by simp [Ast.reach_of_source a ha])
  refine ⟨⟨h.2, h.1.1⟩, ?_⟩
  intro p hp
  have := h.1.2 p hp
  unfold impAllowed at this
  split at this
  · simp at this
  · exact this

/-- `//x` fails when the library in effect has no member `x` -/
theorem unbound_fails_general (W : World) (ec : EvalConfig) (l : Val) (x : String)
    (hl : (sandboxScope W ec).get "//" = some l) (hx : l.get x = none) (fuel : Nat) (c : Ctx) :
    (sandboxEval W fuel c ec (.pkg x)).1 = none := by
  unfold sandboxEval
  cases fuel with
  | zero => simp [Impl.contextualEval, fail]
  | succ n =>
    simp only [Impl.contextualEval]
    cases n with
    | zero => simp [Impl.evalWithScope, fail]
    | succ n =>
      simp only [Impl.evalWithScope, hl]
      cases n with
      | zero => simp [Impl.expand]
      | succ n =>
        have hlib : (sandboxScope W ec).hasLib = true := sandboxScope_hasLib W ec
        simp only [Impl.expand, Impl.resolve, Impl.run, hlib, ↓reduceIte, hl, getAttr, hx]
        split <;> simp [fail]

/-- import syntax at the top of sandboxed source fails without touching the file system -/
theorem import_rejected_general (W : World) (hfix : W.fixes.importReject = true) (ec : EvalConfig) (p : String)
    (fuel : Nat) (c : Ctx) :
    sandboxEval W fuel c ec (.imp p) = (none, []) := by
  have hlib := sandboxScope_hasLib W ec
  obtain ⟨l, hl⟩ : ∃ l, (sandboxScope W ec).get "//" = some l := by
    simp only [Val.hasLib, Val.hasKey] at hlib
    exact Option.isSome_iff_exists.1 hlib
  unfold sandboxEval
  cases fuel with
  | zero => simp [Impl.contextualEval, fail]
  | succ n =>
    simp only [Impl.contextualEval]
    cases n with
    | zero => simp [Impl.evalWithScope, fail]
    | succ n =>
      simp only [Impl.evalWithScope, hl]
      cases n with
      | zero => simp [Impl.expand]
      | succ n => simp [Impl.expand, Impl.resolve, hfix]

end Arrai.C18
