/-
  C18 — syntax, values and capability reach of the sandbox model.  Core Lean only.

  `Ast` is the fragment of arr.ai that matters for confinement: the λ-core, tuples, `//name`
  (PackageExpr), import syntax, macros, and *quotation*: a string literal whose content is the source
  text of another `Ast` (what gets passed to //eval.*).  "All source strings" = all `Ast`.
  `Val` are run-time values: data, strings, source strings, tuples/scopes (cons lists), closures and
  native functions tagged with the capability they exercise when called.
-/
namespace Arrai.C18

inductive Cap
  | pure | readFile | listFiles | env | stdin | net | exec | eval
  deriving DecidableEq, Repr, Inhabited

def allCaps : List Cap := [.pure, .readFile, .listFiles, .env, .stdin, .net, .exec, .eval]

theorem mem_allCaps (c : Cap) : c ∈ allCaps := by cases c <;> simp [allCaps]

/-- What holding a native with capability `c` gives access to.  Holding the evaluator is holding the
safe library (it is the evaluator's default `//`). -/
def capClosure : Cap → List Cap
  | .eval => [.eval, .pure, .listFiles, .env, .stdin]
  | c => [c]

/-- capabilities of the safe library -/
def safeCaps : List Cap := capClosure .eval

mutual
inductive Ast
  | num (n : Nat)
  | str (s : String)                    -- string literal that is just data (a path, say)
  | quote (a : Ast)                     -- string literal holding the source text of `a`
  | var (x : String)
  | lam (x : String) (b : Ast)
  | app (f a : Ast)
  | letE (x : String) (v b : Ast)
  | tnil                                -- ()
  | tcons (k : String) (v r : Ast)      -- (k: v, …r)
  | dot (e : Ast) (k : String)
  | pkg (k : String)                    -- //k                      (PackageExpr)
  | imp (file : String)                 -- //{./file}               (import syntax, source form)
  | mac (f : Ast)                       -- {:(@grammar: …, @transform: (r: f)):x:}
  | lit (v : Val)                       -- compiled form of a macro: its expansion value
  | imported (e : Ast)                  -- compiled form of an import: ImportExpr
inductive Val
  | data
  | str (s : String)
  | src (a : Ast)                       -- a string value holding source text
  | nil                                 -- empty tuple / empty scope
  | cons (k : String) (v r : Val)       -- tuple or scope extension
  | clo (env : Val) (x : String) (b : Ast)
  | nat (names : List String) (cap : Cap) (held : Val)  -- names of this and the later partial applications
  | thunk (env : Val) (e : Ast)         -- rel.ExprClosure: an expression to be evaluated in `env` when looked up
                                        -- (what the parser's `bind` hook puts in the parse-time scope)
end

instance : Inhabited Ast := ⟨.tnil⟩
instance : Inhabited Val := ⟨.nil⟩

namespace Val

def get : Val → String → Option Val
  | .cons k v r, x => if k = x then some v else get r x
  | _, _ => none

def hasKey (t : Val) (x : String) : Bool := (t.get x).isSome

def without : Val → String → Val
  | .cons k v r, x => if k = x then without r x else .cons k v (without r x)
  | t, _ => t

/-- `Scope.With` / `Tuple.With`: new or replacement binding -/
def bind (t : Val) (k : String) (v : Val) : Val := .cons k v (t.without k)

def isTuple : Val → Bool
  | .nil | .cons .. => true
  | _ => false

/-- the scope has a `//` binding -/
def hasLib (s : Val) : Bool := s.hasKey "//"

end Val

/-- no `//name`, import or macro is evaluated in the lexical scope of this expression (quotations are
evaluated later by //eval.* in scopes of their own; literals are values already) -/
def Ast.noPkg : Ast → Bool
  | .pkg _ | .imp _ | .mac _ => false
  | .lam _ b => b.noPkg
  | .app f a => f.noPkg && a.noPkg
  | .letE _ v b => v.noPkg && b.noPkg
  | .tcons _ v r => v.noPkg && r.noPkg
  | .dot e _ => e.noPkg
  | .imported e => e.noPkg
  | _ => true

mutual
/-- capabilities reachable from a value: through tuples, scopes, closure environments, arguments held by
partially applied natives, literals inside closure bodies; a closure that evaluates `//name` in an
environment without `//` reaches everything (PackageExpr falls back to the full library). -/
def Val.reach : Val → List Cap
  | .data | .str _ | .nil => []
  | .src a => a.reach
  | .cons _ v r => v.reach ++ r.reach
  | .clo env _ b => env.reach ++ b.reach ++ (if env.hasLib || b.noPkg then [] else allCaps)
  | .nat _ c held => capClosure c ++ held.reach
  | .thunk env e => env.reach ++ e.reach ++ (if env.hasLib || e.noPkg then [] else allCaps)
def Ast.reach : Ast → List Cap
  | .lit v => v.reach
  | .quote a => a.reach
  | .lam _ b => b.reach
  | .app f a => f.reach ++ a.reach
  | .letE _ v b => v.reach ++ b.reach
  | .tcons _ v r => v.reach ++ r.reach
  | .dot e _ => e.reach
  | .mac f => f.reach
  | .imported e => e.reach
  | _ => []
end

/-- what evaluating `e` in scope `s` can reach -/
def scopeCaps (s : Val) (e : Ast) : List Cap :=
  s.reach ++ e.reach ++ (if s.hasLib || e.noPkg then [] else allCaps)

/-- an effect performed by a native call or by the compiler: capability and (for file reads) the path.
`unmodelled` marks a step whose outcome in Go this model does not determine (calling a string, a library
function on arguments it may reject, …): the case generator discards programs that log it. -/
inductive Eff
  | did (cap : Cap) (arg : String)
  | imported (file : String)     -- the importer opened this file while compiling (import syntax)
  | unmodelled
  deriving Repr

inductive File
  | code (a : Ast)      -- an .arrai file
  | bytes               -- anything else

/-- which repairs are in force (all `true` = the repaired tree; used to show each repair is needed) -/
structure Fixes where
  macroLib : Bool       -- macros are expanded with the library the source was given
  importLib : Bool      -- imported code sees the importer's library
  importReject : Bool   -- import syntax is rejected in sandboxed evaluation
  valueEmpty : Bool     -- //eval.value evaluates with an empty library and scope
  dynBarrier : Bool     -- the sandbox does not see the caller's dynamic variables `@{x}`

/-- every repair -/
def Fixes.all : Fixes := ⟨true, true, true, true, true⟩

/-- the tree as repaired -/
def Fixes.tree : Fixes := Fixes.all

/-- the tree before the last repair: dynamic variables cross the sandbox boundary -/
def Fixes.beforeDynBarrier : Fixes := { Fixes.all with dynBarrier := false }

/-- the four repairs that close the routes to the full library are in force -/
def Fixes.core (fx : Fixes) : Prop :=
  fx.macroLib = true ∧ fx.importLib = true ∧ fx.importReject = true ∧ fx.valueEmpty = true

/-- the libraries and the source file system the interpreter runs against -/
structure World where
  safe : Val
  full : Val
  fs : List (String × File)
  fixes : Fixes
  strTotal : List String := []   -- final names of pure natives that accept any string argument

/-- the files named by import syntax that compiling this expression resolves (quotations are compiled
later, by //eval.*, where import syntax is rejected; resolved imports are not resolved again) -/
def Ast.imports : Ast → List String
  | .imp f => [f]
  | .lam _ b => b.imports
  | .app f a => f.imports ++ a.imports
  | .letE _ v b => v.imports ++ b.imports
  | .tcons _ v r => v.imports ++ r.imports
  | .dot e _ => e.imports
  | .mac f => f.imports
  | _ => []

/-- the files named by import syntax inside the .arrai files of a file system -/
def fsImports : List (String × File) → List String
  | [] => []
  | (_, .code a) :: r => a.imports ++ fsImports r
  | (_, .bytes) :: r => fsImports r

def lookupFile : List (String × File) → String → Option File
  | [], _ => none
  | (n, f) :: r, p => if n = p then some f else lookupFile r p

/-- the part of the Go context the routes depend on -/
structure Ctx where
  sandboxed : Bool      -- set by contextualEval: import syntax is rejected
  compiling : Bool      -- arraictx.IsCompiling
  lib : Option Val      -- the `//` recorded by EvalWithScope (seen by macros)
  dyn : Val := .nil     -- dynamic variables `@{x}`: context values keyed by rel.DynIdent, bound by DynIdentPattern

/-- rel.isDynIdent: identifiers `@{…}` are dynamic variables, bound in and read from the Go context -/
def isDyn (x : String) : Bool :=
  match x.toList with
  | '@' :: '{' :: _ => true
  | _ => false

structure EvalConfig where
  stdlib : Option Val
  scopes : Val

abbrev Res := Option Val × List Eff
/-- result of compiling: the compiled expression and the parse-time scope after it (the parser's stack of
`let` bindings only grows) -/
abbrev CRes := Option (Ast × Val) × List Eff

def Res.bind (r : Res) (f : Val → Res) : Res :=
  match r with
  | (none, l) => (none, l)
  | (some v, l) => let r' := f v; (r'.1, l ++ r'.2)

def CRes.bind (r : CRes) (f : Ast → Val → CRes) : CRes :=
  match r with
  | (none, l) => (none, l)
  | (some v, l) => let r' := f v.1 v.2; (r'.1, l ++ r'.2)

def CRes.map (r : CRes) (f : Ast → Ast) : CRes := (r.1.map fun x => (f x.1, x.2), r.2)

/-- result of resolving the imports of a parsed expression -/
abbrev RRes := Option Ast × List Eff

def RRes.bind (r : RRes) (f : Ast → RRes) : RRes :=
  match r with
  | (none, l) => (none, l)
  | (some v, l) => let r' := f v; (r'.1, l ++ r'.2)

def RRes.map (r : RRes) (f : Ast → Ast) : RRes := (r.1.map f, r.2)

/-- resolve a parsed sub-expression inside the parse (the `bind` hook, unpackMacro) -/
def RRes.bindC (r : RRes) (f : Ast → CRes) : CRes :=
  match r with
  | (none, l) => (none, l)
  | (some v, l) => let r' := f v; (r'.1, l ++ r'.2)

/-- run a value computation inside a compilation -/
def Res.bindC (r : Res) (f : Val → CRes) : CRes :=
  match r with
  | (none, l) => (none, l)
  | (some v, l) => let r' := f v; (r'.1, l ++ r'.2)

def fail : Res := (none, [])
def ok (v : Val) : Res := (some v, [])

end Arrai.C18
