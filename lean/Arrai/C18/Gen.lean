/-
  C18 case generator: arr.ai programs that TRY to escape a sandbox (nested //eval.*, closures returned
  and called outside, `//` in every position, import syntax, macros), with the observable predicted by
  the model (Impl over the expected libraries).  Two entry points, as in the harness:
    direct     syntax.EvalWithScope(ctx, "", src, syntax.SafeStdScope())
    evaluator  //eval.evaluator(cfg).eval("src") evaluated at top level (cfg: sub-tuples of the full library)
  Observable: ok|names=<native names reachable from the result>|reads=<files opened>|confined=<yes/no>, or
  fail|reads=…   (errors and panics are both `fail`).
-/
import Arrai.Core.Canon
import Arrai.C18.Expected

namespace Arrai.C18
open Arrai.C18.Expected

/-! ### rendering to arr.ai source -/

def escapeStr (s : String) : String :=
  s.foldl (fun acc c => if c == '\\' then acc ++ "\\\\" else if c == '"' then acc ++ "\\\"" else acc.push c) ""

def macroOpen : String := "{:(@grammar: {://grammar.lang.wbnf: r -> \"x\";:}, @transform: (r: "

mutual
def Ast.render : Ast → String
  | .num n => toString n
  | .str s => "'" ++ s ++ "'"
  | .quote a => "\"" ++ escapeStr a.render ++ "\""
  | .var x => x
  | .lam x b => "(\\" ++ x ++ " " ++ b.render ++ ")"
  | .app f a => f.renderHead ++ "(" ++ a.render ++ ")"
  | .letE x v b => "(let " ++ x ++ " = " ++ v.render ++ "; " ++ b.render ++ ")"
  | .tnil => "()"
  | .tcons k v r => "(" ++ k ++ ": " ++ v.render ++ r.renderRest ++ ")"
  | .dot e k => e.renderHead ++ "." ++ k
  | .pkg k => "//" ++ k
  | .imp f => "//{./" ++ f ++ "}"
  | .mac f => macroOpen ++ f.render ++ ")):x:}"
  | .lit _ => "?lit"
  | .imported _ => "?imported"
/-- an expression in head position of a call or a dot -/
def Ast.renderHead : Ast → String
  | .var x => if x == "." then "(.)" else x
  | .pkg k => "//" ++ k
  | .dot e k => e.renderHead ++ "." ++ k
  | .app f a => f.renderHead ++ "(" ++ a.render ++ ")"
  | .lam x b => "(\\" ++ x ++ " " ++ b.render ++ ")"
  | .letE x v b => "(let " ++ x ++ " = " ++ v.render ++ "; " ++ b.render ++ ")"
  | .tnil => "()"
  | .tcons k v r => "(" ++ k ++ ": " ++ v.render ++ r.renderRest ++ ")"
  | .imp f => "//{./" ++ f ++ "}"
  | .mac f => macroOpen ++ f.render ++ ")):x:}"
  | .num n => "(" ++ toString n ++ ")"
  | .str s => "('" ++ s ++ "')"
  | .quote a => "(\"" ++ escapeStr a.render ++ "\")"
  | .lit _ => "?lit"
  | .imported _ => "?imported"
def Ast.renderRest : Ast → String
  | .tcons k v r => ", " ++ k ++ ": " ++ v.render ++ r.renderRest
  | _ => ""
end

/-! ### observables -/

/-- names of the native functions reachable from a value through tuples and closure environments
(what the harness can walk: arguments held by a partially applied native are invisible to it) -/
def Val.names : Val → List String
  | .cons _ v r => v.names ++ r.names
  | .clo env _ _ => env.names
  | .nat (nm :: _) _ _ => [nm]
  | .thunk env _ => env.names
  | _ => []

/-- `post$3` ↦ `post`, `expand4` ↦ `expand`: the library member a native derives from -/
def baseName (s : String) : String :=
  let s := (s.splitOn "$").headD s
  String.ofList (s.toList.reverse.dropWhile Char.isDigit).reverse

def uniqSorted (l : List String) : List String := dedupAdj (sortStrs l)

def readsOf (l : List Eff) : List String :=
  uniqSorted (l.filterMap fun e => match e with | .did .readFile p => some p | .imported p => some p | _ => none)

def isBad (l : List Eff) : Bool :=
  l.any fun e => match e with
    | .unmodelled => true
    | .did .net _ | .did .exec _ => true      -- never perform network or command calls in the harness
    | _ => false

/-- `allowed`: names of what the sandbox was given; `strict`: reading a file needs the `file` function -/
def obs (allowed : List String) (strict : Bool) (r : Res) : String × Bool :=
  let reads := readsOf r.2
  match r.1 with
  | none => ("fail|reads=" ++ ",".intercalate reads, true)
  | some v =>
    let ns := uniqSorted v.names
    -- holding the evaluator function is holding the safe library (its default `//`)
    let allowed := if allowed.contains "eval" || allowed.contains "eval$2" then allowed ++ safeLib.names else allowed
    let ab := allowed.map baseName
    let confined := ns.all (fun n => ab.contains (baseName n)) && (!strict || reads.isEmpty || ab.contains "file")
    ("ok|names=" ++ ",".intercalate ns ++ "|reads=" ++ ",".intercalate reads, confined)

/-! ### programs -/

def osFile : Ast := .dot (.pkg "os") "file"
def path (p : List String) : Ast :=
  match p with
  | [] => .tnil
  | k :: r => r.foldl (fun e a => .dot e a) (.pkg k)

def interestingPaths : List (List String) := [
  ["os", "file"], ["os"], ["eval"], ["eval", "value"], ["eval", "eval"], ["eval", "evaluator"],
  ["std", "safe"], ["std", "safe", "os"], ["std", "safe", "deprecated"], ["net", "http", "get"], ["net"],
  ["deprecated", "exec"], ["deprecated"], ["str", "upper"], ["str"], ["fn", "fix"], ["encoding", "bytes", "decode"],
  ["grammar", "lang", "wbnf"], ["seq", "concat"], ["nope"], ["os", "file"], ["os", "file"], ["str"], ["eval"],
  ["eval", "eval"], ["std", "safe"], ["os"]]

def dotNames : List String :=
  ["file", "value", "eval", "evaluator", "safe", "http", "get", "exec", "upper", "os", "f", "g", "a", "std", "lang"]

def files : List String := ["lib.arrai", "lib.arrai", "lib2.arrai", "canary.txt", "missing.arrai"]

def tuple (kvs : List (String × Ast)) : Ast := kvs.foldr (fun kv acc => .tcons kv.1 kv.2 acc) .tnil

def evalValue (q : Ast) : Ast := .app (path ["eval", "value"]) (.quote q)
def evalEval (q : Ast) : Ast := .app (path ["eval", "eval"]) (.quote q)
def evaluator (cfg q : Ast) : Ast := .app (.dot (.app (path ["eval", "evaluator"]) cfg) "eval") (.quote q)

def genAtom (vars : List String) : Gen Ast := do
  let r ← rand 20
  if r < 9 then pure (path (← pick interestingPaths))
  else if r < 13 && !vars.isEmpty then pure (.var (← pick vars))
  else if r < 15 then pure (.str "canary.txt")
  else if r < 17 then pure .tnil
  else if r == 17 then pure (.imp (← pick files))
  else pure (.num 1)

/-- a configuration written inside sandboxed source: built from what that source can name -/
def genInnerCfg (vars : List String) : Gen Ast := do
  let libs : List (Option Ast) := [none, some (path ["std", "safe"]), some (tuple [("os", .pkg "os")]),
    some .tnil, some (tuple [("eval", .pkg "eval"), ("os", tuple [("file", osFile)])]),
    some (tuple [("os", tuple [("file", osFile)])])]
  let lib ← pick libs
  let sc : List (String × Ast) ← do
    if vars.isEmpty then pure [] else
      let v ← pick vars
      if ← chance 1 2 then pure [("f", Ast.var v)] else pure []
  let sc := if (← chance 1 3) then ("g", osFile) :: sc else sc
  let kvs := (match lib with | some l => [("stdlib", l)] | none => []) ++
    (if sc.isEmpty then [] else [("scope", tuple sc)])
  pure (tuple kvs)

/-- names bound by `let` are `v<depth>`, macro transform parameters `a<depth>`: a parse-time binding is then
never re-bound between its `let` and a macro that mentions it, and a let value never mentions a transform's
parameter — the two situations in which Go (which evaluates a named parse-time binding in the scope of the
lookup) and the model (which evaluates it in the parse-time scope of the binding) could differ -/
def isLetName (x : String) : Bool :=
  match x.toList with
  | 'v' :: d :: _ => d.isDigit
  | _ => false

/-- what a macro's transform may mention: its parameter, the enclosing `let` names, `.` (the latest `let`
value) when there is one, and now and then a name that is NOT visible at parse time -/
def macroVars (param : String) (vars : List String) : Gen (List String) := do
  let lets := vars.filter isLetName
  let dot := if lets.isEmpty then [] else ["."]
  let others := vars.filter (fun x => !isLetName x)
  let extra ← if others.isEmpty then pure [] else do
    if ← chance 1 6 then pure [← pick others] else pure []
  pure (param :: lets ++ lets ++ dot ++ extra)

partial def genExpr (depth : Nat) (vars : List String) : Gen Ast := do
  if depth == 0 then genAtom vars else
  let d := depth - 1
  let r ← rand 20
  if r < 3 then genAtom vars
  else if r < 4 then pure (evalValue (← genExpr d []))
  else if r < 5 then pure (evalValue (← pick [.tnil, .num 1, .str "canary.txt", tuple [("f", .num 1)], .lam "x" (.var "x")]))
  else if r < 8 then pure (evalEval (← genExpr d []))
  else if r < 10 then
    let cfg ← genInnerCfg vars
    -- names the inner source may use: f, g when the config's scope binds them
    pure (evaluator cfg (← genExpr d ["f", "g"]))
  else if r == 10 || (r == 9 && vars.any isLetName) then
    let param := s!"a{depth}"
    pure (.mac (.lam param (← genExpr d (← macroVars param vars))))
  else if r == 11 then
    let x ← pick ["x", "y", "f"]
    pure (.lam x (← genExpr d (x :: vars)))
  else if r < 14 then
    -- a call: of a fresh lambda, of something from the scope/library, of the file function
    let k ← rand 4
    if k == 0 then
      let x ← pick ["x", "y"]
      pure (.app (.lam x (← genExpr d (x :: vars))) (← genExpr d vars))
    else if k == 1 then pure (.app (← genExpr d vars) (.str "canary.txt"))
    else if k == 2 then pure (.app (path ["str", "upper"]) (.str "ab"))
    else pure (.app (← genExpr d vars) (← genAtom vars))
  else if r < 16 then
    let x := s!"v{depth}"
    pure (.letE x (← genExpr d vars) (← genExpr d (x :: vars)))
  else if r == 16 then
    pure (tuple [("f", ← genExpr d vars), ("a", ← genAtom vars)])
  else if r < 19 then pure (.dot (← genExpr d vars) (← pick dotNames))
  else if ← chance 1 3 then pure (.imp (← pick files))
  else genAtom vars

/-- the configuration of an evaluator case, written at top level (full library) -/
def genOuterCfg : Gen (Ast × List String) := do
  let libs : List (Option Ast) := [none, none, some (path ["std", "safe"]),
    some (tuple [("str", .pkg "str")]), some (tuple [("os", .pkg "os"), ("eval", .pkg "eval")]),
    some (tuple [("os", tuple [("file", osFile)])]),
    some (tuple [("eval", .pkg "eval"), ("grammar", .pkg "grammar")]),
    some (tuple [("eval", .pkg "eval"), ("grammar", .pkg "grammar"), ("os", .pkg "os"), ("net", .pkg "net")]),
    some .tnil]
  let scopes : List (List (String × Ast)) := [[], [], [("f", osFile)], [("f", .lam "x" (.var "x"))],
    [("g", path ["eval", "value"]), ("f", .quote osFile)], [("f", .pkg "seq")], [("f", .pkg "eval")],
    [("f", .lam "x" (tuple [("a", .var "x")]))], [("g", path ["net", "http", "get"])]]
  let lib ← pick libs
  let sc ← pick scopes
  let kvs := (match lib with | some l => [("stdlib", l)] | none => []) ++
    (if sc.isEmpty then [] else [("scope", tuple sc)])
  pure (tuple kvs, sc.map (·.1))

/-! ### cases -/

def fuel : Nat := 400

structure Prog where
  mode : String                      -- direct | evaluator | outside | dyn
  cfg : Ast                          -- evaluator/outside/dyn: the configuration (evaluated at top level)
  src : Ast                          -- the sandboxed source
  lib : Ast                          -- content of lib.arrai
  dv : Ast                           -- dyn: what the caller binds the dynamic variable @{x} to
  lib2 : Ast                         -- content of lib2.arrai (which lib.arrai may import)

def dynName : String := "@{x}"

/-- the source mentions the dynamic variable (at any quotation depth) -/
def mentionsDyn : Ast → Bool
  | .var x => x == dynName
  | .quote a => mentionsDyn a
  | .lam _ b => mentionsDyn b
  | .app f a => mentionsDyn f || mentionsDyn a
  | .letE _ v b => mentionsDyn v || mentionsDyn b
  | .tcons _ v r => mentionsDyn v || mentionsDyn r
  | .dot e _ => mentionsDyn e
  | .mac f => mentionsDyn f
  | _ => false

def fsOf (p : Prog) : List (String × File) :=
  [("lib.arrai", .code p.lib), ("lib2.arrai", .code p.lib2), ("canary.txt", .bytes)]

/-- the whole program the harness evaluates -/
def Prog.program (p : Prog) : Ast :=
  match p.mode with
  | "direct" => p.src
  | "evaluator" => evaluator p.cfg p.src
  | "dyn" => .app (.lam dynName (evaluator p.cfg p.src)) p.dv -- the caller binds @{x} around the sandbox
  | _ => .app (evaluator p.cfg p.src) (.str "canary.txt")     -- the sandbox's result is called outside

def Prog.eval (p : Prog) (spec : Bool) : Res × List String × Bool :=
  let W := if spec then specWorld (fsOf p) else world (fsOf p)
  match p.mode with
  | "direct" =>
    (Impl.evalWithScope W fuel Impl.ctx0 p.src (.cons "//" W.safe .nil), W.safe.names, false)
  | _ =>
    -- what the sandbox is given: the configuration evaluated at top level
    let allowed := match Impl.evalWithScope W fuel Impl.ctx0 p.cfg .nil with
      | (some c, _) =>
        (match c.get "stdlib" with | some l => l.names | none => W.safe.names) ++
        (match c.get "scope" with | some s => s.names | none => [])
      | _ => []
    (Impl.evalWithScope W fuel Impl.ctx0 p.program .nil, allowed, true)

/-- `model`: the transliteration of the tree; `spec`: the same observable with `confined=yes` demanded. -/
def mkCase (id stratum : String) (p : Prog) : Case × Bool :=
  let (r, allowed, strict) := p.eval false
  let (o, confined) := obs allowed strict r
  let model := if r.1.isSome then o ++ "|confined=" ++ (if confined then "yes" else "no") else o
  let (rs, allowedS, _) := p.eval true
  let (os, _) := obs allowedS strict rs
  let spec := if rs.1.isSome then os ++ "|confined=yes" else os
  let cls := "good"   -- (the dyn stratum was KF-dynvar-leak until the dynamic-scope barrier was merged)
  ({ id := id, cls := cls, kind := "c18", stratum := stratum ++ (if rs.1.isSome then "/ok" else "/fail"),
     model := model, spec := spec,
     payload := [p.program.render, p.mode, p.cfg.render, "lib.arrai", p.lib.render, "lib2.arrai", p.lib2.render,
       "canary.txt", "SECRET"] },
   isBad r.2 || isBad rs.2)

/-- lib.arrai must not import itself: an import cycle hangs the importer (C16's finding, not ours) -/
def noSelfImport : Ast → Ast
  | .imp f => if f == "lib.arrai" then .imp "lib2.arrai" else .imp f
  | .quote a => .quote (noSelfImport a)
  | .lam x b => .lam x (noSelfImport b)
  | .app f a => .app (noSelfImport f) (noSelfImport a)
  | .letE x v b => .letE x (noSelfImport v) (noSelfImport b)
  | .tcons k v r => .tcons k (noSelfImport v) (noSelfImport r)
  | .dot e k => .dot (noSelfImport e) k
  | .mac f => .mac (noSelfImport f)
  | a => a

/-- lib2.arrai imports no .arrai file (no cycles) -/
def noArraiImport : Ast → Ast
  | .imp f => if f == "lib.arrai" || f == "lib2.arrai" then .imp "canary.txt" else .imp f
  | .quote a => .quote (noArraiImport a)
  | .lam x b => .lam x (noArraiImport b)
  | .app f a => .app (noArraiImport f) (noArraiImport a)
  | .letE x v b => .letE x (noArraiImport v) (noArraiImport b)
  | .tcons k v r => .tcons k (noArraiImport v) (noArraiImport r)
  | .dot e k => .dot (noArraiImport e) k
  | .mac f => .mac (noArraiImport f)
  | a => a

def genLib : Gen Ast := do
  let r ← rand 12
  if r == 0 then pure osFile
  else if r == 1 then pure (.lam "u" osFile)
  else if r == 2 then pure (evalValue osFile)
  else if r == 3 then pure (tuple [("f", osFile), ("a", .num 1)])
  else if r == 6 then pure (tuple [("f", .lam "u" osFile), ("a", path ["eval", "eval"])])
  else if r == 7 then pure (.lam "u" (.app (path ["os", "exists"]) (.var "u")))
  else if r == 8 then pure (tuple [("f", .lam "u" (evalEval (.var "u"))), ("a", .pkg "os")])
  else if r == 4 then pure (.imp "lib2.arrai")
  else if r == 5 then pure (tuple [("f", .imp "lib2.arrai"), ("a", .imp "canary.txt")])
  else pure (noSelfImport (← genExpr 2 []))

def genLib2 : Gen Ast := do
  let r ← rand 8
  if r == 0 then pure osFile
  else if r == 1 then pure (.lam "u" osFile)
  else if r == 2 then pure (evalValue osFile)
  else if r == 3 then pure (path ["str", "upper"])
  else if r == 4 then pure (tuple [("f", .lam "u" (.var "u")), ("a", .pkg "std")])
  else if r == 5 then pure (.lam "u" (.lam "v" (path ["eval", "value"])))
  else pure (noArraiImport (← genExpr 2 []))

def genProg (big : Bool) : Gen Prog := do
  let depth ← pick (if big then [2, 3, 3, 4] else [2, 2, 3])
  let lib ← genLib
  let lib2 ← genLib2
  let m ← rand 11
  if m < 3 then
    -- the direct entry: half of the sources are built around what an imported file hands back
    let src ← do
      if ← chance 1 2 then genExpr depth [] else
        let k ← rand 6
        let f ← pick ["lib.arrai", "lib.arrai", "lib2.arrai"]
        if k == 0 then pure (.imp f)
        else if k == 1 then pure (.app (.imp f) (.str "canary.txt"))
        else if k == 2 then pure (.dot (.imp f) (← pick ["f", "a", "file"]))
        else if k == 3 then pure (.app (.dot (.imp f) "f") (.str "canary.txt"))
        else if k == 4 then pure (.letE "v9" (.imp f) (← genExpr (depth - 1) ["v9", "v9"]))
        else pure (.app (.app (.imp f) (.num 0)) (.str "canary.txt"))
    pure ⟨"direct", .tnil, src, lib, .tnil, lib2⟩
  else if m == 10 then
    -- the caller binds a dynamic variable around the sandbox; the sandboxed source tries to use it
    let (cfg, names) ← genOuterCfg
    let dv ← pick [osFile, osFile, .num 1, path ["str", "upper"], path ["net", "http", "get"], .lam "y" (.var "y")]
    let k ← rand 4
    let src ← if k == 0 then pure (.var dynName)
      else if k == 1 then pure (.app (.var dynName) (.str "canary.txt"))
      else genExpr (depth - 1) (dynName :: dynName :: names)
    pure ⟨"dyn", cfg, src, lib, dv, lib2⟩
  else
    let (cfg, names) ← genOuterCfg
    if m < 8 then
      pure ⟨"evaluator", cfg, ← genExpr depth names, lib, .tnil, lib2⟩
    else
      -- the sandbox returns a function; the program calls it at top level
      pure ⟨"outside", cfg, .lam "u" (← genExpr (depth - 1) ("u" :: names)), lib, .tnil, lib2⟩

def genCase (seed idx : Nat) (big : Bool) : Case := Id.run do
  -- programs whose outcome the model does not determine (or that would call the network) are re-drawn
  for attempt in [0:8] do
    let (p, _) := (genProg big).run (seedOf seed (1800000 + idx * 8 + attempt))
    let (c, bad) := mkCase s!"C18-{idx}" p.mode p
    if !bad then return c
  let (c, _) := mkCase s!"C18-{idx}" "fallback" ⟨"evaluator", .tnil, .num 1, .num 1, .tnil, .lam "u" osFile⟩
  return c

/-- witnesses of the repaired defects and the tests of syntax/std_eval_test.go; always run first -/
def corpus : List Case :=
  let ev (cfg src : Ast) : Prog := ⟨"evaluator", cfg, src, osFile, .tnil, .lam "u" osFile⟩
  let progs : List Prog := [
    ev .tnil (evalValue osFile),                                   -- //eval.eval("//eval.value(\"//os.file\")")
    ev .tnil (.mac (.lam "a" osFile)),                             -- macro evaluated at parse time
    ev .tnil (.imp "lib.arrai"),                                   -- imported code
    ev .tnil (.imp "canary.txt"),                                  -- import reads a file
    ev .tnil (path ["deprecated", "exec"]),                        -- exec was in the safe library
    ev .tnil (path ["std", "safe", "deprecated", "exec"]),
    ev .tnil osFile,
    ev .tnil (.app osFile (.str "canary.txt")),
    ev (tuple [("stdlib", tuple [("os", tuple [("file", osFile)])])]) (.app osFile (.str "canary.txt")),
    ev (tuple [("stdlib", tuple [("str", tuple [("lower", path ["str", "lower"])])])]) (path ["str", "upper"]),
    ev (tuple [("stdlib", tuple [("str", tuple [("lower", path ["str", "lower"])])])])
      (.app (path ["str", "lower"]) (.str "CAT")),
    ev (tuple [("scope", tuple [("f", .lam "d" (.var "d"))])]) (.app (.var "f") (.num 1)),
    ev .tnil (.lam "u" (evalValue osFile)),                        -- a closure that tries again when called
    ⟨"outside", .tnil, .lam "u" (evalValue osFile), osFile, .tnil, .lam "u" osFile⟩,       -- … and is called outside the sandbox
    ⟨"outside", .tnil, .lam "u" (evalEval (.app osFile (.var "u"))), osFile, .tnil, .lam "u" osFile⟩,
    ev .tnil (evalEval (evalValue (.mac (.lam "a" osFile)))),
    ev .tnil (evaluator (tuple [("stdlib", tuple [("os", .pkg "os")])]) osFile),
    ev .tnil (.pkg "eval"),
    ⟨"direct", .tnil, evalValue osFile, osFile, .tnil, .lam "u" osFile⟩,
    ⟨"direct", .tnil, .mac (.lam "a" osFile), osFile, .tnil, .lam "u" osFile⟩,
    ⟨"direct", .tnil, .imp "lib.arrai", osFile, .tnil, .lam "u" osFile⟩,
    ⟨"direct", .tnil, .imp "lib.arrai", .lam "u" osFile, .tnil, .lam "u" osFile⟩,
    ⟨"direct", .tnil, .app (.imp "lib.arrai") (.num 0), .lam "u" osFile, .tnil, .lam "u" osFile⟩,
    ⟨"direct", .tnil, .imp "canary.txt", osFile, .tnil, .lam "u" osFile⟩,
    ⟨"direct", .tnil, path ["deprecated", "exec"], osFile, .tnil, .lam "u" osFile⟩,
    ⟨"direct", .tnil, .pkg "std", osFile, .tnil, .lam "u" osFile⟩,
    -- the direct entry with a chain of imports: lib.arrai imports lib2.arrai, which tries to hand out //os.file
    ⟨"direct", .tnil, .app (.imp "lib.arrai") (.num 0), .imp "lib2.arrai", .tnil, .lam "u" osFile⟩,
    ⟨"direct", .tnil, .dot (.imp "lib.arrai") "f", tuple [("f", .imp "lib2.arrai"), ("a", .imp "canary.txt")], .tnil,
      path ["str", "upper"]⟩,
    -- macros whose transform mentions names bound by enclosing lets (the parser's bind hook)
    ⟨"direct", .tnil, .letE "v1" osFile (.mac (.lam "a1" (.var "v1"))), osFile, .tnil, osFile⟩,
    ⟨"direct", .tnil, .letE "v1" osFile (.mac (.lam "a1" (.var "."))), osFile, .tnil, osFile⟩,
    ⟨"direct", .tnil, .letE "v1" (path ["str", "upper"]) (.mac (.lam "a1" (.var "v1"))), osFile, .tnil, osFile⟩,
    ⟨"direct", .tnil, .letE "v1" (path ["str", "upper"]) (.mac (.lam "a1" (.app (.var ".") (.str "ab")))), osFile,
      .tnil, osFile⟩,
    ⟨"direct", .tnil, tuple [("f", .letE "v1" (path ["eval", "value"]) (.num 1)), ("a", .mac (.lam "a1" (.var "v1")))],
      osFile, .tnil, osFile⟩,
    ⟨"direct", .tnil, .letE "v1" (.num 1) (.lam "x" (.mac (.lam "a1" (.var "x")))), osFile, .tnil, osFile⟩,
    -- the witness of confinement_false_if_parse_scope_empty: let v1 = //os; {:… (\a1 (.).file) …:}
    ev .tnil (.letE "v1" (.pkg "os") (.mac (.lam "a1" (.dot (.var ".") "file")))),
    ev .tnil (.letE "v1" (.pkg "os") (.mac (.lam "a1" (.dot (.var "v1") "file")))),
    ev .tnil (.letE "v1" (.pkg "os") (.mac (.lam "a1" (.dot (.var "v1") "exists")))),
    ⟨"direct", .tnil, .letE "v1" (.pkg "os") (.mac (.lam "a1" (.dot (.var ".") "file"))), osFile, .tnil, osFile⟩,
    ev .tnil (.letE "v1" osFile (.mac (.lam "a1" (.var "v1")))),
    ev .tnil (.letE "v1" osFile (.mac (.lam "a1" (.lam "b" (.var "."))))),
    ev (tuple [("stdlib", tuple [("grammar", .pkg "grammar"), ("os", tuple [("file", osFile)])])])
      (.letE "v1" osFile (.mac (.lam "a1" (.lam "b" (.var "v1"))))),
    ⟨"outside", tuple [("stdlib", tuple [("grammar", .pkg "grammar"), ("str", .pkg "str")])],
      .letE "v1" (path ["str", "upper"]) (.mac (.lam "a1" (.lam "b" (.app (.var "v1") (.str "ab"))))), osFile, .tnil,
      osFile⟩,
    -- KF-dynvar-leak: (\@{x} //eval.evaluator(()).eval("@{x}('canary.txt')"))(//os.file)
    ⟨"dyn", .tnil, .app (.var dynName) (.str "canary.txt"), osFile, osFile, .lam "u" osFile⟩,
    ⟨"dyn", .tnil, .var dynName, osFile, osFile, .lam "u" osFile⟩,
    ⟨"dyn", .tnil, .num 1, osFile, osFile, .lam "u" osFile⟩ ]
  (progs.zipIdx.map fun (p, i) => (mkCase s!"C18-corpus-{i}" ("corpus/" ++ p.mode) p).1)

def gen (seed n : Nat) (thorough : Bool) : List Case := Id.run do
  let mut out := corpus.reverse
  for i in [0:n] do
    out := genCase seed i thorough :: out
  pure out.reverse

end Arrai.C18
