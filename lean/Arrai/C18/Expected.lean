/-
  C18 — expected tables (hand-written from the pinned, repaired tree) with capability tags, and the
  model's libraries built from them.  `Arrai/Proofs/C18.lean` proves `Generated.x = Expected.x` for the
  regenerated facts; every semantic theorem is stated over these tables.
-/
import Arrai.C18.Model

namespace Arrai.C18.Expected
open Arrai.C18

/-- what sits at a path of the Go standard-library tuple -/
inductive Leaf
  | native (names : List String) (cap : Cap)   -- names of the native and of its partial applications
  | data
  | empty                                        -- an empty tuple
  | bytesDecode                                  -- mustParseLit `(decode: \b b)`
  | fix | fixt                                   -- //fn.fix, //fn.fixt: closures of arr.ai literals
  | self                                         -- the tuple being built (//std.safe)

structure Entry where
  path : List String
  kind : String          -- constructor shape as the extractor reports it
  leaf : Leaf

/-- the Go tuple `goStdlib` of SafeStdScopeTuple (syntax/std.go and the std_*.go constructors) -/
def safeGo : List Entry := [
  ⟨["@internal", "eval", "eval"], "native2", .native ["eval", "eval$2"] .eval⟩,
  ⟨["@internal", "xml", "decode"], "native2", .native ["decode", "decode$2"] .pure⟩,
  ⟨["@internal", "xml", "encode"], "native", .native ["encode"] .pure⟩,
  ⟨["archive", "tar", "tar"], "native", .native ["tar"] .pure⟩,
  ⟨["archive", "zip", "zip"], "native", .native ["zip"] .pure⟩,
  ⟨["arrai", "info"], "native", .native ["info"] .pure⟩,
  ⟨["bits", "mask"], "native", .native ["mask"] .pure⟩,
  ⟨["bits", "set"], "native", .native ["set"] .pure⟩,
  ⟨["dict"], "native", .native ["dict"] .pure⟩,
  ⟨["encoding", "bytes"], "arrai:(decode: \\b b)", .bytesDecode⟩,
  ⟨["encoding", "csv", "decode"], "native", .native ["decode"] .pure⟩,
  ⟨["encoding", "csv", "decoder"], "native", .native ["decoder"] .pure⟩,
  ⟨["encoding", "csv", "encode"], "native", .native ["encode"] .pure⟩,
  ⟨["encoding", "csv", "encoder"], "native", .native ["encoder"] .pure⟩,
  ⟨["encoding", "json", "decode"], "native", .native ["decode"] .pure⟩,
  ⟨["encoding", "json", "decoder"], "native", .native ["decoder"] .pure⟩,
  ⟨["encoding", "json", "encode"], "native", .native ["encode"] .pure⟩,
  ⟨["encoding", "json", "encode_indent"], "native", .native ["encode_indent"] .pure⟩,
  ⟨["encoding", "json", "encoder"], "native", .native ["encoder"] .pure⟩,
  ⟨["encoding", "proto", "decode"], "value:pb.StdProtobufDecoder", .native ["decode"] .pure⟩,
  ⟨["encoding", "proto", "descriptor"], "value:pb.StdProtobufDescriptor", .native ["decode"] .pure⟩,
  ⟨["encoding", "xlsx", "decode"], "native", .native ["decode"] .pure⟩,
  ⟨["encoding", "xlsx", "decodeToRelation"], "native2",
    .native ["decodeToRelation", "decodeToRelation$2"] .pure⟩,
  ⟨["encoding", "yaml", "decode"], "native", .native ["decode"] .pure⟩,
  ⟨["encoding", "yaml", "decoder"], "native", .native ["decoder"] .pure⟩,
  ⟨["encoding", "yaml", "encode"], "native", .native ["encode"] .pure⟩,
  ⟨["encoding", "yaml", "encoder"], "native", .native ["encoder"] .pure⟩,
  ⟨["error"], "native", .native ["error"] .pure⟩,
  ⟨["eval", "value"], "native", .native ["value"] .eval⟩,
  ⟨["fmt", "pretty"], "native", .native ["pretty"] .pure⟩,
  ⟨["fn", "fix"], "value:fixFn", .fix⟩,
  ⟨["fn", "fixt"], "value:fixtFn", .fixt⟩,
  ⟨["grammar", "lang", "arrai"], "value:rel.ASTNodeToValue(arraiParsers.Node().(ast.Node))", .data⟩,
  ⟨["grammar", "lang", "wbnf"], "value:rel.ASTNodeToValue(wbnf.Core().Node().(ast.Node))", .data⟩,
  ⟨["grammar", "parse"], "native", .native ["parse"] .pure⟩,
  ⟨["log", "print"], "native", .native ["print"] .pure⟩,
  ⟨["log", "printf"], "native2", .native ["printf", "printf$2"] .pure⟩,
  ⟨["math", "cos"], "native", .native ["cos"] .pure⟩,
  ⟨["math", "e"], "data", .data⟩,
  ⟨["math", "pi"], "data", .data⟩,
  ⟨["math", "sin"], "native", .native ["sin"] .pure⟩,
  ⟨["os", "&args"], "native", .native ["&args"] .env⟩,
  ⟨["os", "&stdin"], "native", .native ["&stdin"] .stdin⟩,
  ⟨["os", "cwd"], "value:stdOsCwd()", .data⟩,
  ⟨["os", "exists"], "native", .native ["exists"] .listFiles⟩,
  ⟨["os", "get_env"], "native", .native ["get_env"] .env⟩,
  ⟨["os", "isatty"], "native", .native ["isatty"] .env⟩,
  ⟨["os", "path_list_separator"], "value:stdOsPathListSeparator()", .data⟩,
  ⟨["os", "path_separator"], "value:stdOsPathSeparator()", .data⟩,
  ⟨["os", "tree"], "native", .native ["tree"] .listFiles⟩,
  ⟨["re", "compile"], "native:compile", .native ["compile"] .pure⟩,
  ⟨["reflect"], "emptytuple", .empty⟩,
  ⟨["rel", "union"], "native", .native ["union"] .pure⟩,
  ⟨["seq", "concat"], "native", .native ["concat"] .pure⟩,
  ⟨["seq", "contains"], "native2", .native ["contains", "contains$2"] .pure⟩,
  ⟨["seq", "has_prefix"], "native2", .native ["has_prefix", "has_prefix$2"] .pure⟩,
  ⟨["seq", "has_suffix"], "native2", .native ["has_suffix", "has_suffix$2"] .pure⟩,
  ⟨["seq", "join"], "native2", .native ["join", "join$2"] .pure⟩,
  ⟨["seq", "repeat"], "native", .native ["repeat"] .pure⟩,
  ⟨["seq", "split"], "native2", .native ["split", "split$2"] .pure⟩,
  ⟨["seq", "sub"], "native3", .native ["sub", "sub$2", "sub$3"] .pure⟩,
  ⟨["seq", "trim_prefix"], "native2", .native ["trim_prefix", "trim_prefix$2"] .pure⟩,
  ⟨["seq", "trim_suffix"], "native2", .native ["trim_suffix", "trim_suffix$2"] .pure⟩,
  ⟨["str", "expand"], "nested4:expand", .native ["expand4", "expand3", "expand2", "expand1"] .pure⟩,
  ⟨["str", "lower"], "nested1", .native ["lower1"] .pure⟩,
  ⟨["str", "repr"], "native:repr", .native ["repr"] .pure⟩,
  ⟨["str", "title"], "nested1", .native ["title1"] .pure⟩,
  ⟨["str", "upper"], "nested1", .native ["upper1"] .pure⟩,
  ⟨["test", "assert", "equal"], "nested2", .native ["equal2", "equal1"] .pure⟩,
  ⟨["test", "assert", "false"], "native", .native ["false"] .pure⟩,
  ⟨["test", "assert", "size"], "nested2", .native ["size2", "size1"] .pure⟩,
  ⟨["test", "assert", "true"], "native", .native ["true"] .pure⟩,
  ⟨["test", "assert", "unequal"], "nested2", .native ["unequal2", "unequal1"] .pure⟩,
  ⟨["tuple"], "native", .native ["tuple"] .pure⟩
]

/-- what SafeStdScopeTuple merges on top of the wrapped tuple -/
def safeMerged : List Entry := [
  ⟨["std", "safe"], "value:t", .self⟩
]

/-- what StdScope merges on top of `SafeStdScopeTuple()` -/
def unsafeOnly : List Entry := [
  ⟨["deprecated", "exec"], "native", .native ["exec"] .exec⟩,
  ⟨["net", "http", "get"], "native2", .native ["get", "get$2"] .net⟩,
  ⟨["net", "http", "post"], "native3", .native ["post", "post$2", "post$3"] .net⟩,
  ⟨["os", "file"], "native", .native ["file"] .readFile⟩
]

def stdScopeBase : String := "SafeStdScopeTuple()"

/-- the unrepaired tree had //deprecated.exec in the safe tuple -/
def safeGoUnrepaired : List Entry := safeGo ++ [⟨["deprecated", "exec"], "native", .native ["exec"] .exec⟩]

def facts (es : List Entry) : List (List String × String) := es.map fun e => (e.path, e.kind)

/-- syntax/stdlib/stdlib-safe.arrai as embedded (comments dropped, white space collapsed) -/
def safeWrapper : String :=
  "\\stdlib let (@internal: internal, ...) = stdlib; stdlib.~|@internal| +> ( flag: //{./flag}(stdlib), \
   encoding+>: ( xml: ( decoder: \\config (decode: \\byte internal.xml.decode(config, byte)), \
   decode: \\byte internal.xml.decode((), byte), encode: \\input internal.xml.encode(input) ) ), \
   eval+>: ( evaluator: \\config (eval: \\expr internal.eval.eval(config, expr)), \
   eval: \\expr internal.eval.eval((), expr) ) )"

def unsafeWrapper : String := "\\stdlib stdlib"

/-- every `//` reference in the bundled library scripts: the only library member they use is //seq.split -/
def wrapperPkgRefs : List String :=
  ["flag.arrai: //seq.split", "flag.arrai: //{./util}", "stdlib-safe.arrai: //{./flag}"]

/-! ### call sites through which source is evaluated, a scope is reset, or the outside world is reached -/

inductive SiteTag
  | route (rule : String)                          -- modelled by the named rule of `Impl`
  | nativeEffect (path : List String) (cap : Cap)  -- the primitive behind the native at this library path
  | importEffect (cap : Cap)       -- import machinery at compile time (Impl.compile `.imp`; rejected in a sandbox)
  | construct                      -- start-up construction of the libraries from the embedded, trusted scripts
  | outside                        -- CLI, shell, bundler, test runner and test helpers: not reachable from source

structure Site where
  fn : String
  what : String
  n : Nat
  tag : SiteTag

def sites : List Site := [
  ⟨"cmd/arrai.buildBinary", "afero.ReadFile", 1, .outside⟩,
  ⟨"cmd/arrai.buildTree", "afero.ReadFile", 1, .outside⟩,
  ⟨"cmd/arrai.buildTree", "filepath.Walk", 1, .outside⟩,
  ⟨"cmd/arrai.evalExpr", "EvaluateExpr", 1, .outside⟩,
  ⟨"cmd/arrai.evalFile", "afero.ReadFile", 1, .outside⟩,
  ⟨"pkg/bundle.BundledScriptsTo", "afero.ReadFile", 1, .outside⟩,
  ⟨"pkg/shell.changeFrame", "StdScope()", 1, .outside⟩,
  ⟨"pkg/shell.newShellInstance", "StdScope()", 2, .outside⟩,
  ⟨"pkg/shell.tryEval", "EvalWithScope", 1, .outside⟩,
  ⟨"pkg/test.RunExpr", "Eval(EmptyScope)", 1, .outside⟩,
  ⟨"pkg/test.RunTests", "os.Getwd", 1, .outside⟩,
  ⟨"pkg/test.getTestFiles", "afero.ReadFile", 1, .outside⟩,
  ⟨"pkg/test.relPath", "os.Getwd", 1, .outside⟩,
  ⟨"rel.AssertExprErrorEquals", "Eval(EmptyScope)", 1, .outside⟩,
  ⟨"rel.AssertExprErrors", "Eval(EmptyScope)", 1, .outside⟩,
  ⟨"rel.AssertExprEvalsToType", "Eval(EmptyScope)", 1, .outside⟩,
  ⟨"rel.AssertExprPanics", "Eval(EmptyScope)", 1, .outside⟩,
  ⟨"rel.AssertExprsEvalToSameValue", "Eval(EmptyScope)", 2, .outside⟩,
  ⟨"syntax.AssertCodeErrors", "Eval(EmptyScope)", 1, .outside⟩,
  ⟨"syntax.AssertCodeEvalsToGrammar", "Eval(EmptyScope)", 1, .outside⟩,
  ⟨"syntax.AssertCodePanics", "Eval(EmptyScope)", 1, .outside⟩,
  ⟨"syntax.AssertCodesEvalToSameValueCtx", "Eval(EmptyScope)", 1, .outside⟩,
  ⟨"syntax.EvalWithScope", "Eval(scope)", 1, .route "evalWithScope: run in the scope given"⟩,
  ⟨"syntax.EvalWithScope", "withStdlibInEffect", 1, .route "evalWithScope: ctx.lib := scope's //"⟩,
  ⟨"syntax.EvaluateBundleCtx", "EvaluateExpr", 1, .outside⟩,
  ⟨"syntax.EvaluateExpr", "EvalWithScope", 1, .route "evalWithScope with the empty scope (top level)"⟩,
  ⟨"syntax.GetMainBundleSource", "afero.ReadFile", 1, .outside⟩,
  ⟨"syntax.ImportExpr.Eval", "Eval(imported)", 1, .route "run .imported: only the importer's //"⟩,
  ⟨"syntax.PackageExpr.Eval", "Eval(scope)", 1, .route "run .pkg"⟩,
  ⟨"syntax.PackageExpr.Eval", "StdScope()", 1, .route "run .pkg: fall-back to the full library"⟩,
  ⟨"syntax.ParseContext.Parse", "[]rel.Scope{…}", 1, .route "compile .mac: parse-time scope"⟩,
  ⟨"syntax.ParseContext.Parse", "baseScope", 1, .route "compile .mac: parse-time scope = baseScope"⟩,
  ⟨"syntax.ParseContext.compilePackage", "isSandboxed", 1, .route "compile .imp: rejected when sandboxed"⟩,
  ⟨"syntax.ParseContext.compileTailFunc", "Eval(local)", 2, .route "lexical: evaluates in the scope it is given"⟩,
  ⟨"syntax.ParseContext.unpackMacro", "Eval(relScope)", 1, .route "compile .mac: macro expression"⟩,
  ⟨"syntax.SafeStdScope", "SafeStdScopeTuple()", 1, .construct⟩,
  ⟨"syntax.SafeStdScopeTuple", "Eval(EmptyScope)", 1, .construct⟩,
  ⟨"syntax.SafeStdScopeTuple", "contextualEval", 1, .route "call: native eval$2"⟩,
  ⟨"syntax.SetupBundle", "afero.ReadFile", 1, .outside⟩,
  ⟨"syntax.StdScope", "Eval(EmptyScope)", 1, .construct⟩,
  ⟨"syntax.StdScope", "SafeStdScopeTuple()", 1, .construct⟩,
  ⟨"syntax.addModuleSentinel", "afero.ReadFile", 1, .importEffect .readFile⟩,
  ⟨"syntax.bundleLocalFile", "afero.ReadFile", 1, .importEffect .readFile⟩,
  ⟨"syntax.bundleModule", "afero.ReadFile", 1, .importEffect .readFile⟩,
  ⟨"syntax.contextualEval", "Eval(scope)", 1, .route "contextualEval: config.stdlib is a value"⟩,
  ⟨"syntax.contextualEval", "EvalWithScope", 1, .route "contextualEval"⟩,
  ⟨"syntax.contextualEval", "SafeStdScope()", 1, .route "contextualEval: default library"⟩,
  ⟨"syntax.contextualEval", "withSandbox", 1, .route "contextualEval: sandboxed := true"⟩,
  ⟨"syntax.evalExpr", "contextualEval", 1, .route "call: native value"⟩,
  ⟨"syntax.fileValue", "afero.ReadFile", 1, .importEffect .readFile⟩,
  ⟨"syntax.importURL", "http.Get", 1, .importEffect .net⟩,
  ⟨"syntax.mustParseBundle", "Eval(EmptyScope)", 1, .construct⟩,
  ⟨"syntax.mustParseLit", "Eval(EmptyScope)", 1, .construct⟩,
  ⟨"syntax.retrieveModule", "exec.Command", 1, .importEffect .exec⟩,
  ⟨"syntax.send", "http.Client.Do", 1, .nativeEffect ["net", "http", "get"] .net⟩,
  ⟨"syntax.send", "http.NewRequest", 1, .nativeEffect ["net", "http", "post"] .net⟩,
  ⟨"syntax.stdDeprecatedExec", "exec.Command", 1, .nativeEffect ["deprecated", "exec"] .exec⟩,
  ⟨"syntax.stdOsCwd", "os.Getwd", 1, .construct⟩,
  ⟨"syntax.stdOsFile", "afero.ReadFile", 1, .nativeEffect ["os", "file"] .readFile⟩,
  ⟨"syntax.stdOsGetEnv", "os.Getenv", 1, .nativeEffect ["os", "get_env"] .env⟩,
  ⟨"syntax.stdOsTree", "filepath.Walk", 1, .nativeEffect ["os", "tree"] .listFiles⟩,
  ⟨"syntax.toDecoderTuple", "Eval(baseScope(ctx))", 1, .route "compile .imp: decoder expression (rejected with the import when sandboxed)"⟩,
  ⟨"syntax.toDecoderTuple", "baseScope", 1, .route "compile .imp: decoder expression"⟩,
  ⟨"syntax.withBundledConfig", "Eval(EmptyScope)", 1, .outside⟩,
  ⟨"syntax.withBundledConfig", "afero.ReadFile", 1, .outside⟩
]

def siteFacts : List (String × String × Nat) := sites.map fun s => (s.fn, s.what, s.n)

def capOfPath : List Entry → List String → Option Cap
  | [], _ => none
  | e :: r, p => if e.path = p then (match e.leaf with | .native _ c => some c | _ => none) else capOfPath r p

/-- every primitive effect that sits behind a library member is tagged in the table with that capability -/
def siteTagsAgree : Bool :=
  sites.all fun s => match s.tag with
    | .nativeEffect p c => capOfPath (safeGo ++ unsafeOnly) p == some c
    | _ => true

/-! ### the model's libraries, built from the tables the way std.go and the wrapper scripts build them -/

/-- put `v` at `path` inside tuple `t`, creating the intermediate tuples (rel.NewTupleAttr nesting; for
existing members this is the deep merge of rel.MergeTuples and of `+>` with `name+>:`) -/
def insertPath : Val → List String → Val → Val
  | t, [], _ => t
  | t, [k], v => t.bind k v
  | t, k :: r, v => t.bind k (insertPath (match t.get k with | some s => s | none => .nil) r v)

/-- `(\f f(f))(\f \g \n g(f(f)(g))(n))` evaluated: a closure whose environment holds only a closure -/
def fixClo : Val :=
  let body : Ast := .app (.app (.var "g") (.app (.app (.var "f") (.var "f")) (.var "g"))) (.var "n")
  .clo (.cons "f" (.clo .nil "f" (.lam "g" (.lam "n" body))) .nil) "g" (.lam "n" body)

def leafVal : Leaf → Option Val
  | .native names cap => some (.nat names cap .nil)
  | .data => some .data
  | .empty => some .nil
  | .bytesDecode => some (.cons "decode" (.clo .nil "b" (.var "b")) .nil)
  | .fix => some fixClo
  | .fixt => some fixClo          -- same shape: a closure over closures, no natives, no `//`
  | .self => none

def build (es : List Entry) (t : Val) : Val :=
  es.foldl (fun acc e => match leafVal e.leaf with
    | some v => insertPath acc e.path v
    | none => acc) t

/-- `goStdlib` in SafeStdScopeTuple -/
def goSafeOf (es : List Entry) : Val := build es .nil

/-- stdlib-safe.arrai applied to the Go tuple: `\stdlib let (@internal: internal, ...) = stdlib; …` -/
def wrapSafe (go : Val) : Val :=
  let internal := match go.get "@internal" with | some i => i | none => .nil
  let env : Val := (Val.cons "stdlib" go .nil).bind "internal" internal
  let ie (grp fn : String) : Ast := .dot (.dot (.var "internal") grp) fn
  -- flag.arrai: closures over stdlib and over what `re.compile(…)` returned (match, sub partially applied, subf)
  let reNatives : Val := .cons "match" (.nat ["match"] .pure .nil)
    (.cons "sub" (.nat ["sub$2"] .pure .nil) (.cons "subf" (.nat ["subf", "subf$2"] .pure .nil) .nil))
  let standIn : Val := .clo (.cons "dashes" reNatives (.cons "stdlib" go .nil)) "args" (.num 0)
  let t0 := go.without "@internal"
  let t1 := insertPath t0 ["flag"] (.cons "help" standIn (.cons "parser" standIn .nil))
  let t2 := insertPath t1 ["encoding", "xml"] (
    .cons "decoder" (.clo env "config" (.tcons "decode"
        (.lam "byte" (.app (.app (ie "xml" "decode") (.var "config")) (.var "byte"))) .tnil))
    (.cons "decode" (.clo env "byte" (.app (.app (ie "xml" "decode") .tnil) (.var "byte")))
    (.cons "encode" (.clo env "input" (.app (ie "xml" "encode") (.var "input"))) .nil)))
  let t3 := insertPath t2 ["eval", "evaluator"] (.clo env "config" (.tcons "eval"
        (.lam "expr" (.app (.app (ie "eval" "eval") (.var "config")) (.var "expr"))) .tnil))
  insertPath t3 ["eval", "eval"] (.clo env "expr" (.app (.app (ie "eval" "eval") .tnil) (.var "expr")))

/-- SafeStdScopeTuple(): the wrapped tuple merged with (std: (safe: itself)) -/
def safeLibOf (es : List Entry) : Val :=
  let t := wrapSafe (goSafeOf es)
  insertPath t ["std", "safe"] t

def safeLib : Val := safeLibOf safeGo

/-- StdScope(): MergeTuples(SafeStdScopeTuple(), (os: (file), net: …, deprecated: …)), identity wrapper -/
def fullLib : Val := build unsafeOnly safeLib

def strTotal : List String := ["lower1", "upper1", "title1"]

/-- the tree under test: all repairs made -/
def world (fs : List (String × File)) : World := ⟨safeLib, fullLib, fs, Fixes.tree, strTotal⟩

/-- the specification's world: the same -/
def specWorld (fs : List (String × File)) : World := world fs

end Arrai.C18.Expected
