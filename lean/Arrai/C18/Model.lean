/-
  C18 — executable model of sandboxed evaluation (`Impl`): a transliteration of
    syntax/eval.go       EvalWithScope
    syntax/std_eval.go   evalExpr (//eval.value), contextualEval, parseEvalConfig
    syntax/expr_package.go  PackageExpr.Eval          (the fall-back to StdScope() included)
    syntax/expr_import.go   ImportExpr.Eval
    syntax/compile.go    compilePackage (import branch: `resolve`), syntax/parse.go + parse_macro.go (`expand`: macro
                         expansion and the bind hook, at parse time, before the rest is compiled)
    syntax/std.go        createFunc2 (partial application of natives)
  over the λ-core of rel (Function.Eval, Closure.CallAll, BinExpr.Eval for calls, DotExpr, tuples).
  Every function takes fuel and decreases it at every call, so all of them are structurally recursive.
-/
import Arrai.C18.Types

namespace Arrai.C18
namespace Impl

/-- sandbox.go baseScope: `//` bound to the library in effect, if one was recorded -/
def baseScope (c : Ctx) : Val :=
  match c.lib with
  | some l => .cons "//" l .nil
  | none => .nil

/-- Parse: `rscopes := []rel.Scope{baseScope(ctx)}` (before the repair: the empty scope) -/
def parseScope0 (W : World) (c : Ctx) : Val := if W.fixes.macroLib then baseScope c else .nil

/-- the expression unpackMacro evaluates for the grammar of our macros: //grammar.lang.wbnf -/
def grammarRef : Ast := .dot (.dot (.pkg "grammar") "lang") "wbnf"

/-- std_eval.go parseEvalConfig (the failed type assertions are panics in Go; all are failures here) -/
def parseEvalConfig (cfg : Val) : Option EvalConfig :=
  if !cfg.isTuple then none else
  match cfg.get "scope", cfg.get "stdlib" with
  | none, none => some ⟨none, .nil⟩
  | some s, none => if s.isTuple then some ⟨none, s⟩ else none
  | none, some l => if l.isTuple then some ⟨some l, .nil⟩ else none
  | some s, some l => if s.isTuple && l.isTuple then some ⟨some l, s⟩ else none

/-- `for e := config.scopes.Enumerator() … scope = scope.With(name, value)` -/
def addAll : Val → Val → Val
  | .cons k v r, s => addAll r (s.bind k v)
  | _, s => s

/-- the scope contextualEval builds -/
def sandboxScope (W : World) (ec : EvalConfig) : Val :=
  addAll ec.scopes (match ec.stdlib with
    | some l => .cons "//" l .nil
    | none => .cons "//" W.safe .nil)

/-- `Tuple.Get` on something that must be a tuple -/
def getAttr (t : Val) (k : String) : Res :=
  if t.isTuple then (match t.get k with | some v => ok v | none => fail) else (none, [.unmodelled])

variable (W : World)

mutual
/-- pc.Parse: the source is parsed as a whole before anything else is compiled; macros are expanded while
parsing.  `ps` is the parser's parse-time scope (the top of `rscopes`): it starts as `baseScope(ctx)`, every
`let` pushes its bindings (the `bind` hook, which compiles the bound expression — resolving ITS imports — on
the spot) and nothing is ever popped; macro expressions are compiled and evaluated in it.  Import syntax
elsewhere is left for `resolve`. -/
def expand : Nat → Ctx → Val → Ast → CRes
  | 0, _, _, _ => (none, [])
  | n+1, c, ps, a =>
    match a with
    | .lam x b => (expand n c ps b).map (.lam x)
    | .app f x => (expand n c ps f).bind fun f' ps1 => (expand n c ps1 x).map (.app f')
    | .letE x v b =>
      (expand n c ps v).bind fun v1 ps1 =>
      -- the `bind` hook: pc.CompileExpr on the parsed value, then `.` ↦ ExprClosure(rscopes.top, expr) and the
      -- pattern's name ↦ the same expression
      (resolve n c v1).bindC fun v2 =>
      let ps2 := (ps1.bind "." (.thunk ps1 v2)).bind x (.thunk ps1 v2)
      (expand n c ps2 b).map (.letE x v1)
    | .tcons k v r => (expand n c ps v).bind fun v' ps1 => (expand n c ps1 r).map (.tcons k v')
    | .dot e k => (expand n c ps e).map (.dot · k)
    | .mac f =>
      -- parse.go "ast" external + unpackMacro: the macro expression is compiled and evaluated at parse time,
      -- in the parse-time scope as it is after the macro expression itself was parsed
      (expand n c ps f).bind fun f1 ps1 =>
      (resolve n c f1).bindC fun f2 =>
      (run n c ps1 grammarRef).bindC fun _ =>
      (run n c ps1 f2).bindC fun fv =>
      (call n c fv .data).bindC fun v => (some (.lit v, ps1), [])
    | a => (some (a, ps), [])

/-- pc.CompileExpr on a parsed expression: import syntax is resolved (compilePackage, PKGPATH branch) -/
def resolve : Nat → Ctx → Ast → RRes
  | 0, _, _ => (none, [])
  | n+1, c, a =>
    match a with
    | .lam x b => (resolve n c b).map (.lam x)
    | .app f x => (resolve n c f).bind fun f' => (resolve n c x).map (.app f')
    | .letE x v b => (resolve n c v).bind fun v' => (resolve n c b).map (.letE x v')
    | .tcons k v r => (resolve n c v).bind fun v' => (resolve n c r).map (.tcons k v')
    | .dot e k => (resolve n c e).map (.dot · k)
    | .imp p =>
      if W.fixes.importReject && c.sandboxed then (none, []) else
      match lookupFile W.fs p with
      | none => (none, [.imported p])
      | some .bytes => (some (.imported (.lit .data)), [.imported p])
      | some (.code src) =>
        -- Compile(ctx, filename, data): a parse of its own, starting from baseScope(ctx), then CompileExpr
        let e := expand n c (parseScope0 W c) src
        match e.1 with
        | none => (none, .imported p :: e.2)
        | some x =>
          let r2 := resolve n c x.1
          (r2.1.map .imported, .imported p :: (e.2 ++ r2.2))
    | .mac _ => (none, [])                     -- no macro survives parsing
    | a => (some a, [])

/-- Expr.Eval -/
def run : Nat → Ctx → Val → Ast → Res
  | 0, _, _, _ => fail
  | n+1, c, s, e =>
    match e with
    | .num _ => ok .data
    | .str t => ok (.str t)
    | .quote a => ok (.src a)
    | .lit v => ok v
    | .tnil => ok .nil
    | .var x =>
      -- IdentExpr.Eval: the bound expression is evaluated (a value evaluates to itself, an ExprClosure in its
      -- own scope) / DynIdentExpr.Eval (ctx.Value(DynIdent(ident)))
      (match (if isDyn x then c.dyn else s).get x with
      | some (.thunk env e) => run n c env e
      | some v => ok v
      | none => fail)
    | .lam x b => ok (.clo s x b)                                   -- Function.Eval: NewClosure(local, f)
    | .app f a =>                                                   -- BinExpr.Eval: a, then b, then Call
      (run n c s f).bind fun vf => (run n c s a).bind fun va => call n c vf va
    | .letE x v b => (run n c s v).bind fun vv =>
      if isDyn x then run n { c with dyn := c.dyn.bind x vv } s b      -- DynIdentPattern.Bind
      else run n c (s.bind x vv) b
    | .tcons k v r => (run n c s v).bind fun vv => (run n c s r).bind fun vr => ok (.cons k vv vr)
    | .dot e k => (run n c s e).bind fun t => getAttr t k
    | .pkg k =>
      -- PackageExpr.Eval: `//` from the scope, else from the full (unsafe) StdScope()
      let s' := if s.hasLib then s else s.bind "//" W.full
      (match s'.get "//" with | some l => getAttr l k | none => fail)
    | .imported e =>
      -- ImportExpr.Eval
      let s' := if W.fixes.importLib then
          (match s.get "//" with | some l => Val.cons "//" l .nil | none => .nil)
        else .nil
      run n c s' e
    | .imp _ | .mac _ => fail

/-- rel.Call / SetCall: closures (Closure.CallAll) and natives -/
def call : Nat → Ctx → Val → Val → Res
  | 0, _, _, _ => fail
  | n+1, c, f, a =>
    match f with
    | .clo env x b =>
      if isDyn x then run n { c with dyn := c.dyn.bind x a } env b    -- DynIdentPattern.Bind: into the context
      else run n c (env.bind x a) b                                   -- IdentPattern.Bind; c.scope.Update(scope)
    | .nat names cap held =>
      (match names with
      | [] => fail
      | nm :: rest =>
        if !rest.isEmpty then ok (.nat rest cap (.cons "" a held))  -- createFunc2/3, createNestedFunc
        else if cap = .eval && nm = "value" then
          -- evalExpr (//eval.value)
          (match a with
          | .src t =>
            if W.fixes.valueEmpty then contextualEval n c ⟨some .nil, .nil⟩ (.src t)
            else evalWithScope n c t .nil                           -- EvaluateExpr: empty scope
          | _ => fail)
        else if cap = .eval && nm = "eval$2" then
          -- @internal.eval.eval(config, expr)
          (match held.get "" with
          | some cfg => (match parseEvalConfig cfg with
            | some ec => contextualEval n c ec a
            | none => fail)
          | none => fail)
        else if cap = .readFile && nm = "file" then
          -- stdOsFile
          (match a with
          | .str p =>
            if c.compiling then fail
            else ((match lookupFile W.fs p with | some _ => some Val.data | none => none), [.did .readFile p])
          | .data | .src _ => (none, [.unmodelled])                 -- a string whose text the model does not track
          | _ => fail)
        else
          -- any other native: an opaque step exercising `cap`
          (some .data, .did cap "" ::
            (match a with
            | .str _ => if W.strTotal.contains nm then [] else [Eff.unmodelled]
            | _ => [Eff.unmodelled])))
    | .nil | .cons .. => fail                                       -- "call lhs must be a function"
    | _ => (none, [.unmodelled])                                    -- strings and other sets are callable

/-- std_eval.go contextualEval -/
def contextualEval : Nat → Ctx → EvalConfig → Val → Res
  | 0, _, _, _ => fail
  | n+1, c, ec, v =>
    match v with
    | .src a =>
      -- withSandbox: the context is wrapped in a barrier that hides the dynamic variables bound outside
      -- (before that repair the Go context — and every dynamic variable of the caller — was passed on unchanged)
      let c' : Ctx := if W.fixes.dynBarrier then { c with dyn := .nil } else c
      evalWithScope n { c' with sandboxed := true } a (sandboxScope W ec)
    | _ => fail

/-- eval.go EvalWithScope -/
def evalWithScope : Nat → Ctx → Ast → Val → Res
  | 0, _, _, _ => fail
  | n+1, c, a, s =>
    let c1 : Ctx := match s.get "//" with
      | some l => { c with lib := some l }
      | none => c
    match expand n { c1 with compiling := true } (parseScope0 W c1) a with
    | (none, l) => (none, l)
    | (some (a1, _), l) =>
      match resolve n { c1 with compiling := true } a1 with
      | (none, l2) => (none, l ++ l2)
      | (some a2, l2) =>
        let r := run n { c1 with compiling := false } s a2
        (r.1, l ++ l2 ++ r.2)
end

/-- the context of a top-level evaluation -/
def ctx0 : Ctx := ⟨false, false, none, .nil⟩

/-- what the property is about: source `a` evaluated by //eval.evaluator(cfg).eval (or //eval.eval for
the empty config) -/
def sandboxEval (fuel : Nat) (c : Ctx) (ec : EvalConfig) (a : Ast) : Res :=
  contextualEval W fuel c ec (.src a)

end Impl

/-- capabilities a configuration hands to the sandbox -/
def cfgCaps (W : World) (ec : EvalConfig) : List Cap :=
  (match ec.stdlib with | some l => l.reach | none => W.safe.reach) ++ ec.scopes.reach

/-! ## Spec — what the property demands of an evaluation that was handed the capabilities `C` -/
namespace Spec

/-- the value returned reaches only capabilities in `C`, and only capabilities in `C` were exercised -/
def Confined (C : List Cap) (r : Res) : Prop :=
  (∀ v, r.1 = some v → v.reach ⊆ C) ∧ (∀ cap arg, Eff.did cap arg ∈ r.2 → cap ∈ C)

/-- nothing that reads files, talks to the network or runs commands -/
def dangerous : List Cap := [.readFile, .net, .exec]

end Spec

end Arrai.C18
