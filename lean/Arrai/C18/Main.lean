import Arrai.Core.DriverMain
import Arrai.C18.Gen

def main (args : List String) : IO UInt32 := Arrai.driverMain Arrai.C18.gen args
