/-
  C06 case generator: pairs and triples of values across every kind and representation.
  A generated value is a pair (arr.ai source text, the representation the evaluator builds for it —
  by `Impl.ofLit` / `Impl.build` / `Impl.newTuple` / `Impl.negate`).  The observable of a case is the
  text the harness op `cmp` prints (see harness/cmd/c06/main.go), predicted from `Impl`.
-/
import Arrai.C06.Model

namespace Arrai.C06

structure Val where
  src : String
  rep : Rep
  deriving Inhabited

def b2s (b : Bool) : String := if b then "1" else "0"

/-- two sugar tuples of one kind at the same index among the members handed to the set builder
(`KF-superimposed`; a duplicated tuple counts) -/
def superimposed (ms : List Rep) : Bool :=
  let idx (f : Rep → Option Int) := ms.filterMap f
  let dup (l : List Int) := l.length != l.eraseDups.length
  dup (idx (fun r => match r with | .charT i _ => some i | _ => none)) ||
  dup (idx (fun r => match r with | .byteT i _ => some i | _ => none)) ||
  dup (idx (fun r => match r with | .itemT i _ => some i | _ => none))

/-- byte tuples whose indices leave a gap (`KF-bytes-holes`: a byte array cannot have holes, `asBytes` fills them with 0) -/
def bytesHoles (ms : List Rep) : Bool :=
  let idx := (ms.filterMap (fun r => match r with | .byteT i _ => some i | _ => none)).eraseDups
  match idx with
  | [] => false
  | _ => (Impl.maxI idx - Impl.minI idx + 1).toNat != idx.length

/-- keep the first sugar tuple at each index, and only byte tuples that extend a gap-free run -/
def dropSuperimposed (vs : List Val) : List Val :=
  (vs.foldl (fun acc v =>
    let ms := (acc.map (·.rep)) ++ [v.rep]
    if superimposed ms || bytesHoles ms then acc else acc ++ [v]) [])

def ofLitVal (l : Lit) : Val := ⟨l.src, Impl.ofLit l⟩

def setVal (vs : List Val) : Val :=
  let vs := dropSuperimposed vs
  ⟨"{" ++ ", ".intercalate (vs.map (·.src)) ++ "}", Impl.build (vs.map (·.rep))⟩

def tupVal (as : List (String × Val)) : Val :=
  ⟨"(" ++ ", ".intercalate (as.map (fun p => Lit.nameSrc p.1 ++ ": " ++ p.2.src)) ++ ")",
   Impl.newTuple (as.map (fun p => (p.1, p.2.rep)))⟩

def canNegate : Rep → Bool
  | .charT _ _ | .byteT _ _ => false     -- a negated char is a hole marker, a negated byte wraps (C05/C01)
  | .itemT _ (.charT _ _) | .itemT _ (.byteT _ _) => false
  | _ => true

def negVal (v : Val) : Val := if canNegate v.rep then ⟨"-(" ++ v.src ++ ")", Impl.negate v.rep⟩ else v

def arrVal (off : Int) (vs : List (Option Val)) : Val :=
  ⟨Lit.offSrc off ("[" ++ ", ".intercalate (vs.map (fun o => match o with | some v => v.src | none => "")) ++ "]"),
   Impl.mkArray off (vs.map (fun o => o.map (·.rep)))⟩

def shuffle {α} [Inhabited α] (l : List α) : Gen (List α) := do
  let mut rest := l
  let mut out := []
  for _ in [0:l.length] do
    let i ← rand rest.length
    out := rest.getD i default :: out
    rest := rest.eraseIdx i
  pure out

def wideNames : List String := ["a", "b", "c", "x", "y", "k1", "k2", "zz"]

def genValP : Nat → Gen Val
  | 0 => do pure (ofLitVal (← Lit.genLit 0))
  | d + 1 => do
    let r ← rand 20
    match r with
    | 0 | 1 | 2 | 3 | 4 | 5 | 6 | 7 => do pure (ofLitVal (← Lit.genLit (d + 1)))
    | 8 | 9 => do pure (negVal (← genValP d))
    | 10 => do pure (tupVal [("@neg", ← genValP d)])
    | 11 | 12 | 13 => do
      let n ← rand 5
      pure (setVal (← genList n (genValP d)))
    | 14 => do
      let i ← randInt (-1) 2
      let k ← rand 4
      match k with
      | 0 => pure (tupVal [("@", ofLitVal (.num i)), ("@char", ofLitVal (.num (97 + (← rand 3))))])
      | 1 => pure (tupVal [("@", ofLitVal (.num i)), ("@byte", ofLitVal (.num (← rand 3)))])
      | 2 => pure (tupVal [("@", ofLitVal (.num i)), ("@item", ← genValP d)])
      | _ => pure (tupVal [("@", ← genValP d), ("@value", ← genValP d)])
    | 15 | 16 => do
      let n ← rand 6
      let names := (← genList n (pick wideNames)).eraseDups
      let vals ← genList names.length (genValP d)
      pure (tupVal (names.zip vals))
    | 17 | 18 => do
      let n ← rand 4
      let xs ← genList n (genValP d)
      let off ← Lit.genOff
      -- holes only strictly inside (a leading or trailing hole is not valid source)
      let mut out : List (Option Val) := []
      let mut i := 0
      for x in xs do
        let hole ← chance 1 5
        out := (if hole && 0 < i && i + 1 < xs.length then none else some x) :: out
        i := i + 1
      pure (arrVal off out.reverse)
    | _ => do
      -- a set mixing buckets: numbers, strings, tuples, sugar tuples
      let n ← rand 4
      let base ← genList n (genValP d)
      let i ← randInt 0 2
      let extra := [tupVal [("@", ofLitVal (.num i)), ("@char", ofLitVal (.num 97))],
                    tupVal [("a", ofLitVal (.num i))], ofLitVal (.str 0 [97]), ofLitVal (.arr 0 [some (.num 2)])]
      let k ← rand 5
      pure (setVal (base ++ extra.take k))

/-- structural version (fuel) of the generator above -/
def genVal (d : Nat) : Gen Val := genValP d

/-- a value related to `v`: the same members in another order / one more / one fewer, or a fresh value -/
def genRelated (d : Nat) (pool : List Val) : Gen Val := do
  let r ← rand 6
  if r < 2 || pool.isEmpty then genVal d
  else if r < 4 then
    let ms ← shuffle pool
    pure (setVal ms)
  else if r == 4 then
    let ms ← shuffle pool
    pure (setVal (ms.drop 1))
  else
    let ms ← shuffle pool
    pure (setVal ((← genVal d) :: ms))

/-! ## the observable predicted by the model -/

def firstIdx (reps : List Rep) (x : Rep) : Nat :=
  (reps.findIdx? (fun y => Impl.equal y x)).getD 0

def distinctReps (reps : List Rep) : List Rep := Impl.dedupR [] reps

def pairField (i j : Nat) (a b : Rep) : String :=
  let ops := [Impl.opLt a b, Impl.opLt b a, Impl.opEq a b, Impl.opLe a b, Impl.opGt a b, Impl.opGe a b, Impl.opNe a b]
  let dir := [Impl.less a b, Impl.less b a, Impl.equal a b]
  s!"P{i}{j}=" ++ String.join (ops.map b2s) ++ "/" ++ String.join (dir.map b2s)

def natList (l : List Nat) : String := ",".intercalate (l.map toString)

def cmpObs (reps : List Rep) : String :=
  let n := reps.length
  let idx := List.range n
  let pairs := idx.flatMap (fun i => (idx.filter (fun j => i < j)).map (fun j =>
    pairField i j (reps.getD i default) (reps.getD j default)))
  let distinct := distinctReps reps
  let ord := (Impl.orderBy id distinct).map (firstIdx reps)
  let ranked := Impl.rank id distinct
  let rankOf (x : Rep) : Nat := ((ranked.find? (fun p => Impl.equal p.1 x)).map (·.2)).getD 0
  let mx := (Impl.maxOf distinct).map (firstIdx reps)
  let mn := (Impl.minOf distinct).map (firstIdx reps)
  let pr := match Impl.build reps with
    | .generic _ | .union _ => "ok"
    | _ => "na"
  -- the further clients, over the distinct inputs d0..d(m-1): rows (k: d_p, i: p)
  let sorted := Impl.orderBy id distinct
  let rows : List Rep := distinct.zipIdx.map (fun (d, p) => .gtuple [("k", d), ("i", .num p)])
  let kOf (row : Rep) : Rep := match row with | .gtuple as => Impl.lookupAttr "k" as | r => r
  let iOf (row : Rep) : Int := match row with | .gtuple as => (match Impl.lookupAttr "i" as with | .num i => i | _ => 0) | _ => 0
  let ordk := (Impl.orderBy kOf rows).map (fun row => firstIdx reps (kOf row))
  let rk := Impl.rank kOf rows
  let rm := Impl.rank (fun row => .num (iOf row % 2)) rows
  let rankIn (rs : List (Rep × Nat)) (row : Rep) : Nat := ((rs.find? (fun q => iOf q.1 == iOf row)).map (·.2)).getD 0
  let rank2 := rows.map (fun row => toString (rankIn rk row) ++ "/" ++ toString (rankIn rm row))
  let mxk := ((Impl.maxOf (rows.map kOf)).map (firstIdx reps)).getD 0
  let mnk := ((Impl.minOf (rows.map kOf)).map (firstIdx reps)).getD 0
  ";".intercalate (pairs ++ ["ord=" ++ natList ord, "rank=" ++ natList (reps.map rankOf),
    "max=" ++ toString (mx.getD 0), "min=" ++ toString (mn.getD 0), "print=" ++ pr,
    "ordk=" ++ natList ordk, "order=" ++ natList (sorted.map (firstIdx reps)),
    "orderd=" ++ natList (sorted.reverse.map (firstIdx reps)), "rank2=" ++ ",".intercalate rank2,
    "maxk=" ++ toString mxk, "mink=" ++ toString mnk, "prd=ok", "prr=ok", "laws=ok"])

def mkCmp (id stratum : String) (vs : List Val) : Case :=
  let obs := cmpObs (vs.map (·.rep))
  let cls := if superimposed (vs.map (·.rep)) then "KF-superimposed"
    else if bytesHoles (vs.map (·.rep)) then "KF-bytes-holes" else "good"
  { id := id, cls := cls, kind := "cmp", stratum := stratum, model := obs, spec := obs, payload := vs.map (·.src) }

def ctorName : Rep → String
  | .num _ => "num" | .gtuple _ => "gtuple" | .charT _ _ => "charT" | .byteT _ _ => "byteT"
  | .itemT _ _ => "itemT" | .entryT _ _ => "entryT" | .empty => "empty" | .true_ => "true"
  | .generic _ => "generic" | .str _ _ => "str" | .bytes _ _ => "bytes" | .array _ _ => "array"
  | .dict _ => "dict" | .relation _ _ => "relation" | .union _ => "union"

def stratumOf (vs : List Val) : String :=
  (if vs.length == 2 then "pair/" else "triple/") ++ "+".intercalate (vs.map (fun v => ctorName v.rep))

/-- the inputs of one comparison must not collide as sugar tuples of one set (`{A, B, C}` is built) -/
def genCase (idx : Nat) (triple : Bool) (deep : Bool) : Gen Case := do
  let d := if deep then 3 else 2
  let a ← genVal d
  let poolN ← rand 4
  let pool ← genList poolN (genVal (d - 1))
  let a ← if (← chance 1 3) then pure (setVal pool) else pure a
  let b ← genRelated d pool
  let vs ← if triple then do pure [a, b, ← genRelated d pool] else pure [a, b]
  let vs := dropSuperimposed vs
  let vs := if vs.length < 2 then [a, ofLitVal (.num 7)] else vs
  pure (mkCmp s!"C06-{idx}" (stratumOf vs) vs)

/-! ## dense strata -/

/-- wrap every value of a case the same way: bare, as an attribute, an array item, a set member, a dictionary value -/
def wrapVal (w : Nat) (v : Val) : Val :=
  match w with
  | 0 | 1 => v
  | 2 => tupVal [("a", v)]
  | 3 => arrVal 0 [some v]
  | 4 => setVal [v]
  | 5 => tupVal [("@", ofLitVal (.num 7)), ("@value", v)]
  | _ => tupVal [("a", ofLitVal (.num 1)), ("z", v)]

/-- strictly increasing by the model's order -/
def sortVals (vs : List Val) : List Val :=
  let ds := vs.foldl (fun acc v => if acc.any (fun w => Impl.equal w.rep v.rep) then acc else acc ++ [v]) []
  isort (fun a b => Impl.less a.rep b.rep) ds

/-- specialised tuples with CROSSED components: first components increasing, second components decreasing
(so a comparison that looks at one component only, or forgets the `>` branch, gets at least one pair wrong) -/
def genCrossedCase (idx : Nat) : Gen Case := do
  let kind ← rand 4
  let n ← rand 2
  let n := n + 2
  let i0 ← randInt (-1) 1
  let vals ← genList 5 (genVal 1)
  let asc := sortVals vals
  let vals2 ← genList 5 (genVal 1)
  let asc2 := sortVals vals2
  let num (i : Int) := ofLitVal (.num i)
  let ts : List Val :=
    (List.range n).filterMap (fun (j : Nat) =>
      let i : Int := i0 + Int.ofNat j
      let dj : Int := Int.ofNat (n - 1 - j)
      match kind with
      | 0 => some (tupVal [("@", num i), ("@char", num (97 + dj))])
      | 1 => some (tupVal [("@", num i), ("@byte", num dj)])
      | 2 => (asc.reverse.drop j).head?.map (fun x => tupVal [("@", num i), ("@item", x)])
      | _ => match (asc.drop j).head?, (asc2.reverse.drop j).head? with
        | some k, some v => some (tupVal [("@", k), ("@value", v)])
        | _, _ => none)
  let w ← rand 7
  let ts ← shuffle (ts.map (wrapVal w))
  let ts := if ts.length < 2 then [num 1, num 2] else ts
  let names := ["charT", "byteT", "itemT", "entryT"]
  pure (mkCmp s!"C06-x{idx}" ("crossed/" ++ names.getD kind "" ++ "/w" ++ toString w) ts)

/-! ### relations whose PHYSICAL column order is permuted

A relation literal (and a set of tuples) stores its columns in sorted-name order; a join stores the columns of its result
in the order `left ++ right`, so `{|b| …} <&> {|a| …}` is stored `[b, a]`.  `Rep.relation ns rows` carries the stored
column order `ns`; the model's `Less` / `key` are independent of it (rows are compared as tuples), and the values below
are given the representation with the permuted `ns`.  Go's row walks (`ArrayEnumerator`, `OrderedRange(p)`) do depend on
it, so every client of the order is run over join-built relations next to literal spellings of the same relation and of
neighbours (one cell changed). -/

def relCell (ns : List String) (row : List Int) (c : String) : Int := (row.getD (ns.findIdx (· == c)) 0)

/-- one row as a product of single-column relations in the column order `perm`, associated to the left or to the right -/
def joinRowSrc (ns : List String) (row : List Int) (perm : List String) (right : Bool) : String :=
  let fs := perm.map (fun c => "{|" ++ c ++ "| (" ++ Lit.numSrc (relCell ns row c) ++ ")}")
  if right then fs.foldr (fun f acc => if acc == "" then f else "(" ++ f ++ " <&> " ++ acc ++ ")") ""
  else "(" ++ " <&> ".intercalate fs ++ ")"

/-- the relation with sorted names `ns` and rows `rows`, built by joins: stored column order `perm` -/
def joinRelVal (ns : List String) (rows : List (List Int)) (perm : List String) (right : Bool) : Val :=
  ⟨"(" ++ " | ".intercalate (rows.map (fun row => joinRowSrc ns row perm right)) ++ ")",
   .relation perm (rows.map (fun row => perm.map (fun c => .num (relCell ns row c))))⟩

/-- … when the rows are a full product `A × B`: one join of two multi-row relations (`{|b| (2), (1)} <&> {|a| (1)}`) -/
def productRelVal (c1 c2 : String) (xs ys : List Int) : Val :=
  let one (c : String) (vs : List Int) := "{|" ++ c ++ "| " ++ ", ".intercalate (vs.map (fun v => "(" ++ Lit.numSrc v ++ ")")) ++ "}"
  ⟨"(" ++ one c1 xs ++ " <&> " ++ one c2 ys ++ ")",
   .relation [c1, c2] (xs.flatMap (fun x => ys.map (fun y => [.num x, .num y])))⟩

def litRelVal (ns : List String) (rows : List (List Int)) (asTuples : Bool) : Val :=
  if asTuples then setVal (rows.map (fun row => tupVal (ns.zip (row.map (fun v => ofLitVal (.num v))))))
  else ofLitVal (.rel ns (rows.map (fun row => row.map Lit.num)))

def dedupRows (rows : List (List Int)) : List (List Int) := rows.eraseDups

/-- change one cell of one row -/
def neighbourRows (rows : List (List Int)) : Gen (List (List Int)) := do
  let i ← rand rows.length
  let row := rows.getD i []
  let j ← rand row.length
  let d ← pick [(-1 : Int), 1]
  pure (dedupRows (rows.set i (row.set j (row.getD j 0 + d))))

def genRelSpelling (ns : List String) (rows : List (List Int)) : Gen Val := do
  let r ← rand 6
  match r with
  | 0 => pure (litRelVal ns rows false)
  | 1 => pure (litRelVal ns (← shuffle rows) true)
  | _ => do
    let perm ← shuffle ns
    -- a permutation that is not the sorted one, when there is one
    let perm := if perm == ns then ns.reverse else perm
    pure (joinRelVal ns (← shuffle rows) perm (← chance 1 2))

/-- a relation with 2–3 columns and 2–4 rows in a random spelling (for nesting inside other values) -/
def genPermRel : Gen Val := do
  let k ← rand 2
  let ns := (["a", "b", "c"].take (k + 2))
  let n ← rand 3
  let rows ← genList (n + 2) (genList ns.length (randInt 1 2))
  genRelSpelling ns (dedupRows rows)

/-- join-built relations against literal spellings of the same relation and of neighbours, wrapped alike -/
def genPermRelCase (idx : Nat) : Gen Case := do
  let k ← rand 2
  let ns := (["a", "b", "c"].take (k + 2))
  let n ← rand 3
  let rows := dedupRows (← genList (n + 2) (genList ns.length (randInt 1 2)))
  let rows := if rows.length < 2 then [ns.map (fun _ => 1), ns.map (fun _ => 2)] else rows
  let perm ← shuffle ns
  let perm := if perm == ns then ns.reverse else perm
  let x := joinRelVal ns (← shuffle rows) perm (← chance 1 2)
  let y := litRelVal ns rows (← chance 1 3)
  let nb1 ← neighbourRows rows
  let nb2 ← neighbourRows rows
  let z ← genRelSpelling ns nb1
  let u := litRelVal ns nb2 false
  let m ← rand 4
  let extra ← genRelSpelling ns (← neighbourRows nb1)
  -- a full product, when the shape allows: `{|b| …} <&> {|a| …}`
  let prod := productRelVal "b" "a" [2, 1] [(← randInt 1 2)]
  let vs := match m with
    | 0 => [x, y, z]
    | 1 => [x, z, u]
    | 2 => [x, y, z, u, extra]
    | _ => if ns.length == 2 then [prod, x, y, z] else [x, z, u, extra]
  -- relations of the SAME width with a DIFFERENT heading (one name replaced): literal, and computed by joins in a
  -- permuted order (an unsorted stored heading): `Relation.Less` must compare the sorted headings
  let other ← pick ["d", "bb", "A", "ab"]
  let j ← rand ns.length
  let ns2raw := ns.set j other
  let ns2 := isort strLt ns2raw
  let rows2 := rows.map (fun row => ns2.map (fun c => relCell ns2raw row c))
  let perm2 ← shuffle ns2
  let perm2 := if perm2 == ns2 then ns2.reverse else perm2
  let dl := litRelVal ns2 rows2 (← chance 1 3)
  let dj := joinRelVal ns2 (← shuffle rows2) perm2 (← chance 1 2)
  let hd ← rand 3
  let vs := match hd with
    | 0 => vs ++ [dl]
    | 1 => vs ++ [dj]
    | _ => (vs.take 3) ++ [dl, dj]
  let w ← rand 7
  let vs ← shuffle (vs.map (wrapVal w))
  pure (mkCmp s!"C06-r{idx}" s!"permrel/{ns.length}cols/w{w}" vs)

/-! ### multi-valued dictionaries (a literal rejects a repeated key: they only arise from `with` / `|`)

The values under one key are a small frozen set, which iterates in INSERTION order: the same dictionary is built in
different insertion orders, next to neighbours that differ in one value and to single-valued dictionaries in between. -/

/-- the dictionary with the entries `es`, inserted in this order by `with` or by `|` -/
def multiDictVal (es : List (Val × Val)) (useWith : Bool) : Val :=
  match es with
  | [] => ofLitVal (.set [])
  | (k0, v0) :: rest =>
    let src := rest.foldl (fun acc (e : Val × Val) =>
      if useWith then "(" ++ acc ++ " with (@: " ++ e.1.src ++ ", @value: " ++ e.2.src ++ "))"
      else "(" ++ acc ++ " | {" ++ e.1.src ++ ": " ++ e.2.src ++ "})") ("{" ++ k0.src ++ ": " ++ v0.src ++ "}")
    ⟨src, Impl.build (es.map (fun e => .entryT e.1.rep e.2.rep))⟩

def genMultiEntries : Gen (List (Val × Val)) := do
  let num (i : Int) := ofLitVal (.num i)
  let vpool : List Val := [num 1, num 2, num 3, num 4, ofLitVal (.str 0 [97]), ofLitVal (.set [.num 1])]
  let k1 ← pick [num 1, ofLitVal (.str 0 [107])]
  let n1 ← rand 2
  let vs1 := (← shuffle vpool).take (n1 + 2)
  let second ← chance 1 2
  let n2 ← rand 2
  let vs2 := (← shuffle vpool).take (n2 + 1)
  pure (vs1.map (fun v => (k1, v)) ++ (if second then vs2.map (fun v => (num 2, v)) else []))

def genMultiDict : Gen Val := do
  pure (multiDictVal (← shuffle (← genMultiEntries)) (← chance 1 2))

/-- the same multi-valued dictionary in two insertion orders, a neighbour (one value replaced), a single-valued one -/
def genMultiDictCase (idx : Nat) : Gen Case := do
  let es ← genMultiEntries
  let x := multiDictVal es true
  let y := multiDictVal es.reverse (← chance 1 2)
  let num (i : Int) := ofLitVal (.num i)
  let j ← rand es.length
  let nv ← pick [num 0, num 2, num 3, num 5, ofLitVal (.str 0 [98])]
  let nb := es.zipIdx.map (fun (e, i) => if i == j then (e.1, nv) else e)
  let z := multiDictVal (← shuffle nb) (← chance 1 2)
  let z2 := multiDictVal (← shuffle nb).reverse (← chance 1 2)
  let single := ofLitVal (.dict [(.num 1, .num (← randInt 1 4))])
  let w3 := multiDictVal (← shuffle es) false
  let m ← rand 4
  let vs := match m with
    | 0 => [x, y, z]
    | 1 => [x, y, single]
    | 2 => [x, z, z2, single]
    | _ => [x, y, w3, z, single]
  let w ← rand 7
  let vs ← shuffle (vs.map (wrapVal w))
  pure (mkCmp s!"C06-m{idx}" s!"multidict/w{w}" vs)

/-- keys whose printed text and whose `<` order disagree: offsets, holes, mixed kinds -/
def genKeyVal : Gen Val := do
  let r ← rand 14
  let off ← randInt (-1) 2
  let num (i : Int) := ofLitVal (.num i)
  match r with
  | 0 | 1 | 2 => do
    let n ← rand 3
    pure (ofLitVal (.str off (← genList (n + 1) (do pure (97 + (← rand 3))))))
  | 3 | 4 => do
    let n ← rand 2
    pure (ofLitVal (.arr off ((← genList (n + 1) (do pure (Lit.num (← randInt 0 2)))).map some)))
  | 5 => do
    let n ← rand 2
    pure (ofLitVal (.bytes off (← genList (n + 1) (rand 3))))
  | 6 => do
    -- a string with a hole
    let c ← rand 3
    pure (setVal [tupVal [("@", num off), ("@char", num (97 + c))], tupVal [("@", num (off + 2)), ("@char", num 97)]])
  | 7 => do
    let a ← randInt 0 2
    pure (ofLitVal (.arr off [some (.num a), none, some (.num 1)]))
  | 8 => do pure (num (← randInt (-1) 2))
  | 9 => do pure (ofLitVal (.tup [("a", .str (← randInt 0 1) [97 + (← rand 2)])]))
  | 10 => do pure (setVal [ofLitVal (.str off [97 + (← rand 2)])])
  | 11 => genPermRel
  | 12 => genMultiDict
  | _ => genVal 1

/-- 4–8 keys for every client of the order -/
def genClientsCase (idx : Nat) : Gen Case := do
  let n ← rand 5
  let ks ← genList (n + 4) genKeyVal
  let ks := ks.foldl (fun acc v => if acc.any (fun w => Impl.equal w.rep v.rep) then acc else acc ++ [v]) []
  let ks := dropSuperimposed ks
  let ks := if ks.length < 2 then [ofLitVal (.str 0 [98]), ofLitVal (.str 1 [97])] else ks
  pure (mkCmp s!"C06-k{idx}" s!"clients/{ks.length}" ks)

/-! ## numbers outside the integer model: only the laws are checked -/
def fracSrcs : List String :=
  ["0.5", "1/3", "(-0.5)", "2.5e10", "1e-7", "0.1+0.2", "0.3", "1e300", "(-1e300)", "(-0.0)", "0", "3",
   "9007199254740993", "1.0000000000000002", "1"]

def genFloatCase (idx : Nat) : Gen Case := do
  let a ← pick fracSrcs
  let b ← pick fracSrcs
  let c ← pick fracSrcs
  let wrap ← rand 4
  let w (s : String) : String := match wrap with
    | 0 => s | 1 => "{" ++ s ++ "}" | 2 => "[" ++ s ++ ", 1]" | _ => "(a: " ++ s ++ ")"
  pure { id := s!"C06-f{idx}", cls := "good", kind := "laws", stratum := "floats", model := "laws=ok", spec := "laws=ok",
         payload := [w a, w b, w c] }

/-! ## corpus: witnesses of the repaired defects and minimised past failures -/
def L (l : Lit) : Val := ofLitVal l
def corpusVals : List (List Val) :=
  let n (i : Int) := L (.num i)
  [ [L (.tup []), L (.set [])],                                        -- () vs {}      (EmptySet.Less)
    [L (.tup []), L .tt],                                              -- () vs true    (TrueSet.Less)
    [L (.str 0 [97, 98, 99]), L (.str 1 [97, 98, 99])],                -- offset ignored (String.Less)
    [L (.str 0 [97, 65533]), setVal [tupVal [("@", n 0), ("@char", n 97)], tupVal [("@", n 2), ("@char", n 98)]]],
    [L (.bytes 0 [1]), L (.bytes 0 [2])],                              -- panic         (Bytes.Less)
    [L (.bytes 0 [1, 2]), L (.bytes 1 [1, 2])],
    [L (.arr 0 [some (.num 1), none, some (.num 2)]), L (.arr 0 [some (.num 1), none, some (.num 3)])],  -- Array.Less
    [n 3, tupVal [("@neg", tupVal [("@neg", n 1)])]],                  -- kind collision (GenericTuple.Kind)
    [L (.rel ["a"] [[.num 1]]), L (.rel ["b"] [[.num 1]]), L (.rel ["a", "b"] [[.num 1, .num 2]])],  -- Relation.Less
    [L (.rel ["b"] [[.num 1]]), L (.rel ["a", "b"] [[.num 1, .num 2]])],
    [n 1, L (.str 0 [97]), L (.tup [("a", .num 1)]), L (.arr 0 [some (.num 2)])],
    [negVal (L (.set [.num 1])), negVal (L (.set [.num 2])), L (.set [.num 1])],
    [setVal [n 1, L (.str 0 [97]), L (.tup [("a", .num 1)]), L (.arr 0 [some (.num 2)])],
     setVal [n 1, L (.str 0 [97]), L (.tup [("a", .num 1)]), L (.arr 0 [some (.num 3)])], L (.set [.num 2])],
    [tupVal [("@neg", n 1)], n (-1), n 1],
    [negVal (L (.tup [("a", .num 1)])), tupVal [("@neg", L (.tup [("a", .num 1)]))], negVal (negVal (L (.tup [("a", .num 1)])))],
    [negVal (L (.set [])), L (.set []), negVal (L .tt)],
    [L (.dict [(.num 1, .num 2), (.num 3, .num 4)]),
     setVal [tupVal [("@", n 1), ("@value", n 2)], tupVal [("@", n 1), ("@value", n 3)]],
     L (.dict [(.num 1, .num 2)])],
    [setVal [negVal (L (.set [.num 1])), negVal (L (.set [.num 2]))], setVal [negVal (L (.set [.num 2]))]],
    [L (.arr 0 [some (.num 1), none, some (.num 2)]), L (.arr 0 [some (.num 1), some (.num 0), some (.num 2)]),
     L (.arr 0 [some (.num 1)])],
    -- crossed dict entry tuples: keys and values ordered in opposite directions
    [tupVal [("@", n 2), ("@value", n 1)], tupVal [("@", n 1), ("@value", n 2)]],
    -- text order and `<` disagree: 'b' < 1\'a'
    [L (.str 0 [98]), L (.str 1 [97]), L (.arr 0 [some (.num 2)]), L (.arr 1 [some (.num 1)]), n 3] ]

def corpus : List Case :=
  (corpusVals.zipIdx.map (fun (vs, i) => mkCmp s!"C06-corpus-{i}" "corpus" vs)) ++
  [ -- KF-superimposed: a duplicated char tuple gives a String whose hole count is -1
    { id := "C06-corpus-kf0", cls := "KF-superimposed", kind := "laws", stratum := "corpus", model := "laws=ok",
      spec := "laws=ok", payload := ["{(@: 0, @char: 97), (@: 0, @char: 97)}", "'a'"] } ]

/-! ## the fixed pool of the thorough tier: all pairs and triples, compared in-process -/
def poolVals : List Val :=
  let n (i : Int) := L (.num i)
  let base : List Val :=
    [ n 0, n 1, n (-1), n 2, L .tt, L .ff, L (.tup []), L (.tup [("a", .num 1)]), L (.tup [("a", .num 2)]),
      L (.tup [("b", .num 1)]), L (.tup [("a", .num 1), ("b", .num 2)]), L (.tup [("a", .num 1), ("b", .tup [])]),
      L (.str 0 [97]), L (.str 0 [97, 98]), L (.str 0 [98]), L (.str 1 [97]), L (.str (-1) [97, 98]),
      L (.bytes 0 [1]), L (.bytes 0 [1, 2]), L (.bytes 0 [2]), L (.bytes 1 [1]),
      L (.arr 0 [some (.num 1)]), L (.arr 0 [some (.num 1), some (.num 2)]), L (.arr 0 [some (.num 1), none, some (.num 2)]),
      L (.arr 0 [some (.num 1), none, some (.num 3)]), L (.arr 1 [some (.num 1)]), L (.arr 0 [some (.str 0 [97])]),
      L (.arr 0 [some (.arr 0 [some (.num 1)])]), L (.arr 0 [some (.set [])]), L (.arr 0 [some (.tup [])]),
      L (.dict [(.num 1, .num 2)]), L (.dict [(.num 1, .num 3)]), L (.dict [(.num 1, .num 2), (.num 2, .num 3)]),
      L (.dict [(.str 0 [97], .num 1)]), L (.dict [(.tup [], .set [])]),
      L (.set [.num 1]), L (.set [.num 1, .num 2]), L (.set [.num 2]), L (.set [.set []]), L (.set [.set [], .num 1]),
      L (.set [.tt]), L (.set [.str 0 [97]]), L (.set [.str 0 [97], .num 1]), L (.set [.set [.num 1]]),
      L (.set [.arr 0 [some (.num 1)]]), L (.set [.tup [], .num 1]),
      L (.rel ["a"] [[.num 1]]), L (.rel ["a"] [[.num 1], [.num 2]]), L (.rel ["b"] [[.num 1]]),
      L (.rel ["a", "b"] [[.num 1, .num 2]]), L (.rel ["a", "b"] [[.num 1, .num 2], [.num 2, .num 1]]),
      L (.rel ["a", "b"] [[.num 2, .num 1]]), L (.rel ["a"] [[.set []]]), L (.rel ["a"] [[.tup []]]),
      setVal [n 1, L (.str 0 [97])], setVal [n 1, L (.tup [("a", .num 1)])], setVal [n 1, L (.tup [("a", .num 1)]), L (.tup [("b", .num 1)])],
      setVal [L (.tup [("a", .num 1)]), L (.tup [("b", .num 1)])], setVal [L (.tup [("a", .num 1)]), L (.tup [])],
      setVal [n 1, L (.str 0 [97]), L (.tup [("a", .num 1)]), L (.arr 0 [some (.num 2)])],
      setVal [n 1, tupVal [("@", n 0), ("@char", n 97)]], setVal [n 1, tupVal [("@", n 0), ("@item", n 5)]],
      setVal [tupVal [("@", n 0), ("@char", n 97)], tupVal [("@", n 0), ("@item", n 5)]],
      setVal [tupVal [("@", n 0), ("@char", n 97)], tupVal [("@", n 2), ("@char", n 98)]],
      setVal [tupVal [("@", n 1), ("@value", n 2)], tupVal [("@", n 1), ("@value", n 3)]],
      setVal [tupVal [("@", n 1), ("@value", n 2)], n 1],
      tupVal [("@", n 0), ("@char", n 97)], tupVal [("@", n 1), ("@char", n 97)], tupVal [("@", n 0), ("@char", n 98)],
      tupVal [("@", n 0), ("@byte", n 1)], tupVal [("@", n 0), ("@item", n 1)], tupVal [("@", n 0), ("@item", L (.set []))],
      tupVal [("@", n 1), ("@value", n 2)], tupVal [("@", L (.set [])), ("@value", n 2)], tupVal [("@", n 1), ("@value", L (.tup []))],
      tupVal [("@neg", n 1)], tupVal [("@neg", n 2)], tupVal [("@neg", tupVal [("@neg", n 1)])],
      tupVal [("@neg", L (.tup [("a", .num 1)]))], tupVal [("@neg", L (.set [.num 1]))], tupVal [("@neg", L (.str 0 [97]))],
      tupVal [("@neg", L (.set []))], tupVal [("@neg", L .tt)], tupVal [("@neg", L (.tup []))],
      tupVal [("@", n 1), ("x", n 2)], tupVal [("@char", n 1)], tupVal [("@", n 1)] ]
  let negs := (base.filter (fun v => canNegate v.rep)).map negVal
  let wrapped := (base.take 40).map (fun v => setVal [v])
  let all := base ++ negs.take 30 ++ wrapped.take 20
  -- drop values spelled twice (the pool is about distinct values; equal spellings are covered by the random stream)
  (all.foldl (fun acc v => if acc.any (fun w => w.src == v.src) then acc else acc ++ [v]) [])

def mkPoolCase (id stratum : String) (vals : List Val) : Case :=
  let reps := vals.map (·.rep)
  let row (a : Rep) : String := String.ofList (reps.map (fun b =>
    if Impl.less a b then '<' else if Impl.equal a b then '=' else '>'))
  let obs := "\n".intercalate (reps.map row) ++ ";laws=ok"
  { id := id, cls := "good", kind := "pool", stratum := stratum, model := obs, spec := obs,
    payload := vals.map (·.src) }

def poolCase : Case := mkPoolCase "C06-pool" "pool" poolVals

/-- a random pool: all pairs and triples of 40 generated values are compared in-process (one parse) -/
def genPoolCase (idx : Nat) : Gen Case := do
  let base ← genList 14 (genVal 2)
  let deep ← genList 6 (genVal 3)
  let mut rel : List Val := []
  for _ in [0:20] do
    rel := (← genRelated 2 (base.take 4)) :: rel
  pure (mkPoolCase s!"C06-rpool-{idx}" "random-pool" (base ++ deep ++ rel))

def gen (seed n : Nat) (thorough : Bool) : List Case := Id.run do
  let mut out := corpus.reverse
  if thorough then
    out := poolCase :: out
    -- 64 random pools of 40 values: 100 k random ordered pairs, 4 M triples, compared without the parser in the loop
    for j in [0:64] do
      let (c, _) := (genPoolCase j).run (seedOf seed (650000 + j))
      out := c :: out
  for i in [0:n] do
    -- two pairs for every triple; a tenth of the budget on the float stream
    -- of every 20: 2 float cases, 3 crossed specialised tuples, 3 key sets for the order's clients, 2 permuted-storage
    -- relations, 7 pairs, 3 triples
    let k := i % 20
    let (c, _) :=
      if k == 9 || k == 19 then (genFloatCase i).run (seedOf seed (600000 + i))
      else if k == 3 || k == 10 || k == 16 then (genCrossedCase i).run (seedOf seed (600000 + i))
      else if k == 5 || k == 12 || k == 17 then (genClientsCase i).run (seedOf seed (600000 + i))
      else if k == 7 || k == 14 then (genPermRelCase i).run (seedOf seed (600000 + i))
      else if k == 1 || k == 11 then (genMultiDictCase i).run (seedOf seed (600000 + i))
      else (genCase i (k % 3 == 2) (thorough && i % 4 == 0)).run (seedOf seed (600000 + i))
    out := c :: out
  pure out.reverse

end Arrai.C06
