/-
  C06 — the order embedding: for `n` above the nesting depth of both operands
  `lessN n a b = K.lt (key a) (key b)`; hence `less` inherits the laws of the linear order `K.cmp`.
-/
import Arrai.C06.Lemmas

namespace Arrai.C06
open Std

theorem then_eq_right (o : Ordering) : o.then .eq = o := by cases o <;> rfl

theorem int_step (i j : Int) (c : Bool) (rest : Ordering) (hc : c = (rest == .lt)) :
    (if i ≠ j then decide (i < j) else c) = ((compare i j).then rest == .lt) := by
  subst hc
  by_cases h : i = j
  · subst h; simp [Ordering.then]
  · have hne : compare i j ≠ .eq := fun e => h ((int_cmp_eq _ _).1 e)
    simp only [ne_eq, h, not_false_eq_true, ite_true, ← int_cmp_lt]
    cases hc : compare i j <;> simp_all [Ordering.then]

theorem nat_step (i j : Nat) (c : Bool) (rest : Ordering) (hc : c = (rest == .lt)) :
    (if i ≠ j then decide (i < j) else c) = ((compare (i : Int) (j : Int)).then rest == .lt) := by
  subst hc
  by_cases h : i = j
  · subst h; simp [Ordering.then]
  · have h' : (i : Int) ≠ (j : Int) := by omega
    have hne : compare (i : Int) (j : Int) ≠ .eq := fun e => h' ((int_cmp_eq _ _).1 e)
    simp only [ne_eq, h, not_false_eq_true, ite_true, ← nat_cmp_lt]
    cases hc : compare (i : Int) (j : Int) <;> simp_all [Ordering.then]

theorem nat_step' (i j : Nat) (c : Bool) (rest : Ordering) (hc : i = j → c = (rest == .lt)) :
    (if i ≠ j then decide (i < j) else c) = ((compare (i : Int) (j : Int)).then rest == .lt) := by
  by_cases h : i = j
  · exact nat_step i j c rest (hc h)
  · have := nat_step i j (rest == .lt) rest rfl
    simp only [ne_eq, h, not_false_eq_true, ite_true] at this ⊢
    exact this

theorem tail_map' {α β : Type} (f : α → β) (l : List α) : (l.map f).tail = l.tail.map f := by
  cases l <;> rfl

def ordRes : Ordering → Option Bool
  | .lt => some true
  | .gt => some false
  | .eq => none

theorem entryHead_map (e : List Rep) : entryHead (e.map key) = key (Impl.entryHeadR e) := by
  cases e <;> rfl

theorem depth_entryHeadR {n : Nat} (hn : 0 < n) {e : List Rep} (h : ∀ x ∈ e, depth x < n) :
    depth (Impl.entryHeadR e) < n := by
  cases e with
  | nil => exact hn
  | cons k r => exact h k (by simp)

theorem values_step (o rest : Ordering) (r : Option Bool) (hr : r = ordRes rest) :
    (if (!(o == .eq)) = true then some (o == .lt) else r) = ordRes (o.then rest) := by
  subst hr; cases o <;> rfl

theorem dict_step (o p rest : Ordering) (c : Bool) (hc : c = (rest == .lt)) :
    (if (!(o == .eq)) = true then (o == .lt) else Impl.optOr (ordRes p) c) = (((o.then p).then rest) == .lt) := by
  subst hc; cases o <;> cases p <;> rfl

theorem entry_step (o p : Ordering) :
    (if (!(o == .eq)) = true then (o == .lt) else (p == .lt)) = ((o.then p) == .lt) := by
  cases o <;> rfl

section Loops2
variable (n : Nat) (R : Rep → Rep → Bool)
variable (H : ∀ x y, depth x < n → depth y < n → R x y = K.lt (key x) (key y))
include H

theorem isort_key (l : List Rep) (hl : ∀ x ∈ l, depth x < n) :
    (isort R l).map key = isort K.lt (l.map key) :=
  map_isort key R K.lt l (fun x hx y hy => H x y (hl x hx) (hl y hy))

theorem valuesLoop_eq : ∀ (l l' : List Rep), (∀ x ∈ l, depth x < n) → (∀ y ∈ l', depth y < n) →
    Impl.valuesLoop Impl.equal R l l' = ordRes (K.cmpList (l.map key) (l'.map key))
  | [], [], _, _ => rfl
  | [], _ :: _, _, _ => rfl
  | _ :: _, [], _, _ => rfl
  | x :: xs, y :: ys, hl, hl' => by
    have ih := valuesLoop_eq xs ys (fun a ha => hl a (List.mem_cons_of_mem _ ha)) (fun a ha => hl' a (List.mem_cons_of_mem _ ha))
    simp only [Impl.valuesLoop, List.map_cons, K.cmpList, Impl.equal, K.beq_def]
    rw [H x y (hl x (by simp)) (hl' y (by simp)), K.lt]
    exact values_step _ _ _ ih

theorem dictLoop_eq (hn : 0 < n) : ∀ (es fs : List (List Rep)),
    (∀ e ∈ es, ∀ x ∈ e, depth x < n) → (∀ f ∈ fs, ∀ y ∈ f, depth y < n) →
    Impl.dictLoop Impl.equal R es fs =
      (K.cmpList (es.map (fun e => entryKey (e.map key))) (fs.map (fun e => entryKey (e.map key))) == .lt)
  | [], [], _, _ => rfl
  | [], _ :: _, _, _ => rfl
  | _ :: _, [], _, _ => rfl
  | e :: es, f :: fs, hl, hl' => by
    have ih := dictLoop_eq hn es fs (fun a ha => hl a (List.mem_cons_of_mem _ ha)) (fun a ha => hl' a (List.mem_cons_of_mem _ ha))
    have he : ∀ x ∈ e, depth x < n := hl e (by simp)
    have hf : ∀ x ∈ f, depth x < n := hl' f (by simp)
    have het : ∀ x ∈ e.tail, depth x < n := fun x hx => he x (List.mem_of_mem_tail hx)
    have hft : ∀ x ∈ f.tail, depth x < n := fun x hx => hf x (List.mem_of_mem_tail hx)
    have hv := valuesLoop_eq n R H (isort R e.tail) (isort R f.tail)
      (fun x hx => het x ((mem_isort R _ x).1 hx)) (fun x hx => hft x ((mem_isort R _ x).1 hx))
    rw [isort_key n R H e.tail het, isort_key n R H f.tail hft] at hv
    simp only [Impl.dictLoop, List.map_cons, K.cmpList, entryKey, K.cmp, entryHead_map, tail_map',
      Impl.equal, K.beq_def, then_eq_right]
    rw [H _ _ (depth_entryHeadR hn he) (depth_entryHeadR hn hf), hv, K.lt]
    exact dict_step _ _ _ _ (by rw [ih]; simp only [entryKey, entryHead_map, tail_map'])

end Loops2

/-- `namesLoop` agrees with the lexicographic order on name lists of equal length -/
theorem namesLoop_eq : ∀ (l l' : List String), l.length = l'.length →
    Impl.namesLoop l l' = (K.cmpList (l.map K.name) (l'.map K.name) == .lt)
  | [], [], _ => rfl
  | [], _ :: _, h => by simp at h
  | _ :: _, [], h => by simp at h
  | a :: as, b :: bs, h => by
    simp only [Impl.namesLoop, List.map_cons, K.cmpList, K.cmp]
    rw [namesLoop_eq as bs (by simpa using h)]
    refine step3 _ _ _ _ rfl ?_
    have hsw : compare b a = (compare a b).swap := OrientedOrd.eq_swap
    unfold strLt; rw [hsw]
    cases compare a b <;> rfl

theorem map_name_inj {l l' : List String} (h : l.map K.name = l'.map K.name) : l = l' := by
  induction l generalizing l' with
  | nil => cases l' <;> simp_all
  | cons a as ih =>
    cases l' with
    | nil => simp at h
    | cons b bs =>
      simp only [List.map_cons, List.cons.injEq, K.name.injEq] at h
      rw [h.1, ih h.2]

/-! ### depth of the components -/
theorem maxL_le {ds : List Nat} {m : Nat} (h : ∀ d ∈ ds, d ≤ m) : maxL ds ≤ m := by
  induction ds with
  | nil => exact Nat.zero_le _
  | cons x xs ih =>
    simp only [maxL]
    exact Nat.max_le.2 ⟨h x (by simp), ih (fun d hd => h d (List.mem_cons_of_mem _ hd))⟩

theorem depth_attr_lt {as : List (String × Rep)} {p : String × Rep} (h : p ∈ as) :
    depth p.2 < depth (.gtuple as) := by
  rw [depth_gtuple]
  have : depth p.2 ≤ maxL (as.map (fun p => depth p.2)) := le_maxL (List.mem_map.2 ⟨p, h, rfl⟩)
  omega

theorem depth_mem_generic {xs : List Rep} {x : Rep} (h : x ∈ xs) : depth x < depth (.generic xs) := by
  rw [depth_generic]; have := depth_lt_of_mem_map h; omega
theorem depth_mem_union {xs : List Rep} {x : Rep} (h : x ∈ xs) : depth x < depth (.union xs) := by
  rw [depth_union]; have := depth_lt_of_mem_map h; omega
theorem depth_mem_array {vs : List (Option Rep)} {off : Int} {x : Rep} (h : some x ∈ vs) :
    depth x < depth (.array vs off) := by
  rw [depth_array]
  have : optDepth ((some x).map depth) ≤ maxL (vs.map (fun o => optDepth (o.map depth))) :=
    le_maxL (List.mem_map.2 ⟨some x, h, rfl⟩)
  have h1 : optDepth ((some x).map depth) = depth x := rfl
  rw [h1] at this; omega
theorem depth_mem_dict {m : List (List Rep)} {e : List Rep} {x : Rep} (he : e ∈ m) (hx : x ∈ e) :
    depth x < depth (.dict m) := by
  rw [depth_dict]
  have h1 : maxL (e.map depth) ≤ maxL (m.map (fun e => maxL (e.map depth))) := le_maxL (List.mem_map.2 ⟨e, he, rfl⟩)
  have h2 := depth_lt_of_mem_map hx
  omega

theorem mem_zipNames_snd {β : Type} : ∀ {ns : List String} {row : List β} {p : String × β},
    p ∈ zipNames ns row → p.2 ∈ row
  | [], _, _, h => by simp [zipNames] at h
  | _ :: _, [], _, h => by simp [zipNames] at h
  | n :: ns, v :: vs, p, h => by
    simp only [zipNames, List.mem_cons] at h
    rcases h with rfl | h
    · simp
    · exact List.mem_cons_of_mem _ (mem_zipNames_snd h)

theorem depth_rowTuple_lt {ns : List String} {rows : List (List Rep)} {row : List Rep} (h : row ∈ rows) :
    depth (Impl.rowTuple ns row) < depth (.relation ns rows) := by
  rw [depth_relation, Impl.rowTuple, depth_gtuple]
  have h1 : maxL (row.map depth) ≤ maxL (rows.map (fun e => maxL (e.map depth))) := le_maxL (List.mem_map.2 ⟨row, h, rfl⟩)
  have h2 : maxL ((zipNames ns row).map (fun p => depth p.2)) ≤ maxL (row.map depth) := by
    apply maxL_le
    intro d hd
    obtain ⟨p, hp, rfl⟩ := List.mem_map.1 hd
    exact depth_lt_of_mem_map (mem_zipNames_snd hp)
  omega

theorem zipNames_map {β γ : Type} (f : β → γ) : ∀ (ns : List String) (row : List β),
    (zipNames ns row).map (fun p => (p.1, f p.2)) = zipNames ns (row.map f)
  | [], _ => by simp [zipNames]
  | _ :: _, [] => by simp [zipNames]
  | n :: ns, v :: vs => by simp [zipNames, zipNames_map f ns vs]

theorem key_rowTuple (ns : List String) (row : List Rep) :
    key (Impl.rowTuple ns row) = tupleKeyAlg (zipNames ns (row.map key)) := by
  rw [Impl.rowTuple, key_gtuple, zipNames_map]

/-! ### tuples -/
theorem negKind_neg {o : Option Int} (h : negKind o < 0) : ∃ k, o = some k ∧ 0 < k ∧ negKind o = -k := by
  cases o with
  | none => simp [negKind, kGenericTuple] at h
  | some k =>
    simp only [negKind] at h ⊢
    split at h
    · rename_i hk; exact ⟨k, rfl, hk, by simp [hk]⟩
    · simp [kGenericTuple] at h

theorem kind_gtuple_neg {as : List (String × Rep)} (h : kind (.gtuple as) < 0) :
    ∃ x, negInner as = some x ∧ 0 < kind x ∧ kind (.gtuple as) = -kind x := by
  rw [kind_gtuple] at h ⊢
  obtain ⟨k, hk, hpos, hval⟩ := negKind_neg h
  cases hn : negInner as with
  | none => simp [hn] at hk
  | some x =>
    simp [hn] at hk
    subst hk
    exact ⟨x, rfl, hpos, by simpa [hn] using hval⟩

theorem key_gtuple_neg {as : List (String × Rep)} {x : Rep} (hx : negInner as = some x) (hpos : 0 < kind x) :
    key (.gtuple as) = .node [.int (-kind x), .rev (key x)] := by
  rw [key_gtuple, tupleKeyAlg, negInner_map, hx]
  simp [negKey, kindOf_key, hpos]

def byName {β : Type} (p q : String × β) : Bool := strLt p.1 q.1

theorem key_gtuple_plain {as : List (String × Rep)} (h : ¬ kind (.gtuple as) < 0) :
    key (.gtuple as) = .node (.int kGenericTuple :: attrsK (isort byName as)) := by
  have hmap : isort (fun p q => strLt p.1 q.1) (as.map (fun p => (p.1, key p.2)))
      = (isort byName as).map (fun p => (p.1, key p.2)) :=
    (map_isort (fun p => (p.1, key p.2)) byName (fun p q => strLt p.1 q.1) as (fun _ _ _ _ => rfl)).symm
  rw [key_gtuple, tupleKeyAlg, negInner_map]
  cases hx : negInner as with
  | none => simp only [Option.map, negKey, attrsKey, attrsK, hmap]
  | some x =>
    have hk : ¬ 0 < kind x := by
      intro hpos
      apply h
      rw [kind_gtuple, hx]; simp [negKind, hpos]
    simp only [Option.map, negKey, kindOf_key, attrsKey, attrsK, hmap]
    rw [if_neg hk]

theorem depth_negInner {as : List (String × Rep)} {x : Rep} (hx : negInner as = some x) :
    depth x < depth (.gtuple as) := by
  have := negInner_some hx
  subst this
  exact depth_attr_lt (p := (negateTag, x)) (by simp)

namespace K
theorem cmpList_cons_same (x : K) (l l' : List K) : cmpList (x :: l) (x :: l') = cmpList l l' := by
  simp [cmpList, cmp_self]
theorem cmpList_int (i j : Int) (l l' : List K) :
    cmpList (.int i :: l) (.int j :: l') = (compare i j).then (cmpList l l') := rfl
end K

/-! ### one `Less` method agrees with the key order, given that nested calls do -/
section Step
variable (n : Nat) (R : Rep → Rep → Bool)
variable (H : ∀ x y, depth x < n → depth y < n → R x y = K.lt (key x) (key y))
include H

theorem step_gtuple (as bs : List (String × Rep)) (ha : depth (.gtuple as) ≤ n) (hb : depth (.gtuple bs) ≤ n)
    (hk : kind (.gtuple as) = kind (.gtuple bs)) :
    (if kind (.gtuple as) < 0 then Impl.negLoop R as bs
     else Impl.tupleLoop R (isort (fun p q => strLt p.1 q.1) as) (isort (fun p q => strLt p.1 q.1) bs))
      = K.lt (key (.gtuple as)) (key (.gtuple bs)) := by
  by_cases hneg : kind (.gtuple as) < 0
  · rw [if_pos hneg]
    obtain ⟨x, hx, hxpos, hxk⟩ := kind_gtuple_neg hneg
    obtain ⟨y, hy, hypos, hyk⟩ := kind_gtuple_neg (hk ▸ hneg)
    have hxy : kind x = kind y := by omega
    rw [key_gtuple_neg hx hxpos, key_gtuple_neg hy hypos, hxy, K.lt_node, K.cmpList_cons_same]
    simp only [Impl.negLoop, hx, hy, K.cmpList, K.cmp, then_eq_right]
    rw [H y x (by have := depth_negInner hy; omega) (by have := depth_negInner hx; omega), K.lt_swap]
    cases K.cmp (key x) (key y) <;> rfl
  · rw [if_neg hneg, key_gtuple_plain hneg, key_gtuple_plain (hk ▸ hneg), K.lt_node, K.cmpList_cons_same]
    exact tupleLoop_eq n R H _ _
      (fun p hp => by have := depth_attr_lt ((mem_isort _ _ p).1 hp); omega)
      (fun p hp => by have := depth_attr_lt ((mem_isort _ _ p).1 hp); omega)

theorem step_sorted_lex (xs ys : List Rep) (hx : ∀ x ∈ xs, depth x < n) (hy : ∀ y ∈ ys, depth y < n) :
    Impl.lexLoop R (isort R xs) (isort R ys) = (K.cmpList (isort K.lt (xs.map key)) (isort K.lt (ys.map key)) == .lt) := by
  rw [← isort_key n R H xs hx, ← isort_key n R H ys hy]
  exact lexLoop_eq n R H _ _ (fun x h => hx x ((mem_isort R _ x).1 h)) (fun y h => hy y ((mem_isort R _ y).1 h))

theorem step_dict (m m' : List (List Rep)) (ha : depth (.dict m) ≤ n) (hb : depth (.dict m') ≤ n) :
    Impl.dictLoop Impl.equal R (isort (fun e f => R (Impl.entryHeadR e) (Impl.entryHeadR f)) m)
        (isort (fun e f => R (Impl.entryHeadR e) (Impl.entryHeadR f)) m')
      = K.lt (key (.dict m)) (key (.dict m')) := by
  have hn : 0 < n := by rw [depth_dict] at ha; omega
  have hm : ∀ e ∈ m, ∀ x ∈ e, depth x < n := fun e he x hx => by have := depth_mem_dict he hx; omega
  have hm' : ∀ e ∈ m', ∀ x ∈ e, depth x < n := fun e he x hx => by have := depth_mem_dict he hx; omega
  have hs : ∀ (l : List (List Rep)), (∀ e ∈ l, ∀ x ∈ e, depth x < n) →
      isort (fun e f => K.lt (entryHead e) (entryHead f)) (l.map (List.map key))
        = (isort (fun e f => R (Impl.entryHeadR e) (Impl.entryHeadR f)) l).map (List.map key) := by
    intro l hl
    refine (map_isort (List.map key) _ _ l ?_).symm
    intro e he f hf
    rw [entryHead_map, entryHead_map]
    exact H _ _ (depth_entryHeadR hn (hl e he)) (depth_entryHeadR hn (hl f hf))
  rw [key_dict, key_dict, K.lt_node, K.cmpList_cons_same, hs m hm, hs m' hm', List.map_map, List.map_map]
  exact dictLoop_eq n R H hn _ _
    (fun e he => hm e ((mem_isort _ _ e).1 he)) (fun e he => hm' e ((mem_isort _ _ e).1 he))

theorem step_relation (ns ns' : List String) (rows rows' : List (List Rep))
    (ha : depth (.relation ns rows) ≤ n) (hb : depth (.relation ns' rows') ≤ n) :
    (if !Impl.equalNames ns ns' then Impl.lessNames ns ns'
     else if rows.length ≠ rows'.length then decide (rows.length < rows'.length)
     else Impl.rowsLoop R (isort R (rows.map (Impl.rowTuple ns))) (isort R (rows'.map (Impl.rowTuple ns'))))
      = K.lt (key (.relation ns rows)) (key (.relation ns' rows')) := by
  have hr : ∀ t ∈ rows.map (Impl.rowTuple ns), depth t < n := by
    intro t ht; obtain ⟨row, hrow, rfl⟩ := List.mem_map.1 ht
    have := depth_rowTuple_lt (ns := ns) hrow; omega
  have hr' : ∀ t ∈ rows'.map (Impl.rowTuple ns'), depth t < n := by
    intro t ht; obtain ⟨row, hrow, rfl⟩ := List.mem_map.1 ht
    have := depth_rowTuple_lt (ns := ns') hrow; omega
  have hkeys : ∀ (ns : List String) (rows : List (List Rep)),
      rows.map (fun row => tupleKeyAlg (zipNames ns (row.map key))) = (rows.map (Impl.rowTuple ns)).map key := by
    intro ns rows; simp [key_rowTuple, Function.comp_def]
  rw [key_relation, key_relation, K.lt_node, K.cmpList_cons_same]
  simp only [K.cmpList, K.cmp, then_eq_right]
  rw [hkeys ns rows, hkeys ns' rows', ← isort_key n R H _ hr, ← isort_key n R H _ hr']
  by_cases hlen : ns.length = ns'.length
  · have hslen : (isort strLt ns).length = (isort strLt ns').length := by
      rw [length_isort, length_isort, hlen]
    by_cases hnames : isort strLt ns = isort strLt ns'
    · -- equal headings: count, then rows
      have he : Impl.equalNames ns ns' = true := by simp [Impl.equalNames, hlen, hnames]
      have hc1 : compare (ns.length : Int) (ns'.length : Int) = .eq := by rw [hlen]; exact ReflOrd.compare_self
      have hc2 : K.cmpList ((isort strLt ns).map K.name) ((isort strLt ns').map K.name) = .eq := by
        rw [hnames]; exact (K.cmpList_eq_iff _ _).2 rfl
      simp only [he, Bool.not_true, Bool.false_eq_true, ite_false, hc1, hc2, Ordering.then]
      refine nat_step' _ _ _ _ ?_
      intro hcnt
      exact rowsLoop_eq n R H _ _ (by simp [length_isort, hcnt])
        (fun x h => hr x ((mem_isort R _ x).1 h)) (fun y h => hr' y ((mem_isort R _ y).1 h))
    · have he : Impl.equalNames ns ns' = false := by simp [Impl.equalNames, hnames]
      have hc1 : compare (ns.length : Int) (ns'.length : Int) = .eq := by rw [hlen]; exact ReflOrd.compare_self
      have hc2 : K.cmpList ((isort strLt ns).map K.name) ((isort strLt ns').map K.name) ≠ .eq := by
        intro e; exact hnames (map_name_inj ((K.cmpList_eq_iff _ _).1 e))
      simp only [he, Bool.not_false, ite_true, Impl.lessNames, hlen, ne_eq, not_true_eq_false, ite_false, hc1,
        Ordering.then]
      rw [namesLoop_eq _ _ hslen]
      cases hcc : K.cmpList ((isort strLt ns).map K.name) ((isort strLt ns').map K.name) <;> simp_all [Ordering.then]
  · have he : Impl.equalNames ns ns' = false := by simp [Impl.equalNames, hlen]
    have hne : compare (ns.length : Int) (ns'.length : Int) ≠ .eq := by
      intro e; exact hlen (by have := (int_cmp_eq _ _).1 e; omega)
    simp only [he, Bool.not_false, ite_true, Impl.lessNames, hlen, ne_eq, not_false_eq_true, ← nat_cmp_lt]
    cases hcc : compare (ns.length : Int) (ns'.length : Int) <;> simp_all [Ordering.then]

theorem lessStep_eq (a b : Rep) (ha : depth a ≤ n) (hb : depth b ≤ n) :
    Impl.lessStep Impl.equal R a b = K.lt (key a) (key b) := by
  unfold Impl.lessStep
  by_cases hk : kind a = kind b
  · rw [if_neg (by simpa using hk)]
    have hc := kind_eq_ctor hk
    cases a with
    | num x =>
      cases b with
      | num y =>
        rw [key_num, key_num, K.lt_node, K.cmpList_cons_same]
        simp only [K.cmpList, K.cmp, then_eq_right]
        exact (int_cmp_lt x y).symm
      | _ => simp [ctorId, Old.ctorId] at hc
    | gtuple as =>
      cases b with
      | gtuple bs => exact step_gtuple n R H as bs ha hb hk
      | _ => simp [ctorId, Old.ctorId] at hc
    | charT i c =>
      cases b with
      | charT j d =>
        rw [key_charT, key_charT, K.lt_node, K.cmpList_cons_same]
        simp only [K.cmpList, K.cmp, then_eq_right]
        exact int_step i j _ _ (int_cmp_lt c d).symm
      | _ => simp [ctorId, Old.ctorId] at hc
    | byteT i c =>
      cases b with
      | byteT j d =>
        rw [key_byteT, key_byteT, K.lt_node, K.cmpList_cons_same]
        simp only [K.cmpList, K.cmp, then_eq_right]
        exact int_step i j _ _ (int_cmp_lt c d).symm
      | _ => simp [ctorId, Old.ctorId] at hc
    | itemT i x =>
      cases b with
      | itemT j y =>
        rw [key_itemT, key_itemT, K.lt_node, K.cmpList_cons_same]
        simp only [K.cmpList, K.cmp, then_eq_right]
        rw [depth_itemT] at ha hb
        exact int_step i j _ _ (H x y (by omega) (by omega))
      | _ => simp [ctorId, Old.ctorId] at hc
    | entryT k v =>
      cases b with
      | entryT k' v' =>
        rw [key_entryT, key_entryT, K.lt_node, K.cmpList_cons_same]
        simp only [K.cmpList, then_eq_right, Impl.equal, K.beq_def]
        rw [depth_entryT] at ha hb
        rw [H k k' (by omega) (by omega), H v v' (by omega) (by omega), K.lt, K.lt]
        exact entry_step _ _
      | _ => simp [ctorId, Old.ctorId] at hc
    | empty =>
      cases b with
      | empty => simp [K.lt, K.cmp_self]
      | _ => simp [ctorId, Old.ctorId] at hc
    | true_ =>
      cases b with
      | true_ => simp [K.lt, K.cmp_self]
      | _ => simp [ctorId, Old.ctorId] at hc
    | generic xs =>
      cases b with
      | generic ys =>
        rw [key_generic, key_generic, K.lt_node, K.cmpList_cons_same]
        exact step_sorted_lex n R H xs ys
          (fun x hx => by have := depth_mem_generic hx; omega) (fun y hy => by have := depth_mem_generic hy; omega)
      | _ => simp [ctorId, Old.ctorId] at hc
    | str s off =>
      cases b with
      | str t off' =>
        simp only [key_str, K.lt_node, K.cmpList_cons_same, K.cmpList_int]
        exact int_step off off' _ _ (intsLoop_eq s t)
      | _ => simp [ctorId, Old.ctorId] at hc
    | bytes s off =>
      cases b with
      | bytes t off' =>
        simp only [key_bytes, K.lt_node, K.cmpList_cons_same, K.cmpList_int]
        exact int_step off off' _ _ (intsLoop_eq s t)
      | _ => simp [ctorId, Old.ctorId] at hc
    | array vs off =>
      cases b with
      | array ws off' =>
        simp only [key_array, K.lt_node, K.cmpList_cons_same, K.cmpList_int]
        exact int_step off off' _ _ (arrayLoop_eq n R H vs ws
          (fun x hx => by have := depth_mem_array (off := off) hx; omega)
          (fun y hy => by have := depth_mem_array (off := off') hy; omega))
      | _ => simp [ctorId, Old.ctorId] at hc
    | dict m =>
      cases b with
      | dict m' => exact step_dict n R H m m' ha hb
      | _ => simp [ctorId, Old.ctorId] at hc
    | relation ns rows =>
      cases b with
      | relation ns' rows' => exact step_relation n R H ns ns' rows rows' ha hb
      | _ => simp [ctorId, Old.ctorId] at hc
    | union xs =>
      cases b with
      | union ys =>
        rw [key_union, key_union, K.lt_node, K.cmpList_cons_same]
        exact step_sorted_lex n R H xs ys
          (fun x hx => by have := depth_mem_union hx; omega) (fun y hy => by have := depth_mem_union hy; omega)
      | _ => simp [ctorId, Old.ctorId] at hc
  · rw [if_pos hk, lt_of_kind_ne hk]

end Step

/-- the embedding: with enough fuel, `lessN` is the key order -/
theorem lessN_eq : ∀ (n : Nat) (a b : Rep), depth a < n → depth b < n → Impl.lessN n a b = K.lt (key a) (key b)
  | 0, _, _, h, _ => by omega
  | n + 1, a, b, ha, hb => by
    simp only [Impl.lessN]
    exact lessStep_eq n (Impl.lessN n) (fun x y hx hy => lessN_eq n x y hx hy) a b (by omega) (by omega)

theorem less_eq (a b : Rep) : Impl.less a b = K.lt (key a) (key b) :=
  lessN_eq _ a b (by omega) (by omega)

theorem lessN_stable {n : Nat} {a b : Rep} (ha : depth a < n) (hb : depth b < n) :
    Impl.lessN n a b = Impl.less a b := by
  rw [lessN_eq n a b ha hb, less_eq]

end Arrai.C06
