/-
  C06 helper lemmas.
  A. `K.cmp` is a lawful linear order (oriented, transitive, `eq` exactly on equal keys).
  B. insertion sort: permutation, sortedness, commutation with maps, uniqueness.
  C. equations of the fold `cata` (`key`, `kind`, `depth`, `den` on each constructor).
  D. the order embedding: `lessN n a b = K.lt (key a) (key b)` for `n` above the nesting depth.
-/
import Arrai.C06.Model

namespace Arrai.C06

open Std

/-! ## A. the key order -/
namespace K

mutual
theorem cmp_eq_iff (a b : K) : cmp a b = .eq ↔ a = b := by
  cases a with
  | int x => cases b <;> simp [cmp]
  | name x => cases b <;> simp [cmp]
  | node x =>
    cases b with
    | node y => simp [cmp, cmpList_eq_iff x y]
    | _ => simp [cmp]
  | rev x =>
    cases b with
    | rev y => simp [cmp, cmp_eq_iff x y]
    | _ => simp [cmp]
theorem cmpList_eq_iff (a b : List K) : cmpList a b = .eq ↔ a = b := by
  cases a with
  | nil => cases b <;> simp [cmpList]
  | cons x as =>
    cases b with
    | nil => simp [cmpList]
    | cons y bs => simp [cmpList, cmp_eq_iff x y, cmpList_eq_iff as bs]
end

mutual
theorem cmp_swap (a b : K) : cmp a b = (cmp b a).swap := by
  cases a with
  | int x =>
    cases b <;> simp [cmp]
    exact OrientedOrd.eq_swap
  | name x =>
    cases b <;> simp [cmp]
    exact OrientedOrd.eq_swap
  | node x =>
    cases b with
    | node y => simp [cmp]; exact cmpList_swap x y
    | _ => simp [cmp]
  | rev x =>
    cases b with
    | rev y => simp only [cmp]; rw [cmp_swap x y]
    | _ => simp [cmp]
theorem cmpList_swap (a b : List K) : cmpList a b = (cmpList b a).swap := by
  cases a with
  | nil => cases b <;> simp [cmpList]
  | cons x as =>
    cases b with
    | nil => simp [cmpList]
    | cons y bs =>
      simp only [cmpList, Ordering.swap_then]
      rw [← cmp_swap x y, ← cmpList_swap as bs]
end

/-- lexicographic step for a strict outcome `o` (`lt` or `gt`) -/
theorem lex_trans {o o₁ o₂ o₃ p₁ p₂ p₃ : Ordering} (ho : o ≠ .eq)
    (hoo : o₁ = o → o₂ = o → o₃ = o)
    (hoe : o₁ = o → o₂ = .eq → o₃ = o)
    (heo : o₁ = .eq → o₂ = o → o₃ = o)
    (hee : o₁ = .eq → o₂ = .eq → o₃ = .eq)
    (hp : p₁ = o → p₂ = o → p₃ = o)
    (h₁ : o₁.then p₁ = o) (h₂ : o₂.then p₂ = o) : o₃.then p₃ = o := by
  have key : ∀ (x q : Ordering), x.then q = o → (x = o) ∨ (x = .eq ∧ q = o) := by
    intro x q h
    cases x <;> simp [Ordering.then] at h ⊢ <;> first | exact h | (subst h; simp) | skip
    all_goals (first | exact Or.inl h | exact h | skip)
  rcases key _ _ h₁ with a | ⟨a, q₁⟩ <;> rcases key _ _ h₂ with b | ⟨b, q₂⟩
  · rw [hoo a b]; cases o <;> simp_all [Ordering.then]
  · rw [hoe a b]; cases o <;> simp_all [Ordering.then]
  · rw [heo a b]; cases o <;> simp_all [Ordering.then]
  · rw [hee a b, hp q₁ q₂]; rfl

theorem compare_trans_strict {α : Type} [Ord α] [TransOrd α] {a b c : α} {o : Ordering} (ho : o ≠ .eq)
    (h₁ : compare a b = o) (h₂ : compare b c = o) : compare a c = o := by
  cases o with
  | lt => exact TransCmp.lt_trans h₁ h₂
  | eq => exact absurd rfl ho
  | gt => exact TransCmp.gt_trans h₁ h₂

mutual
theorem cmp_trans (a b c : K) (o : Ordering) (ho : o ≠ .eq) :
    cmp a b = o → cmp b c = o → cmp a c = o := by
  cases a with
  | int x =>
    cases b <;> cases c <;> cases o <;> simp [cmp] at ho ⊢ <;>
      first | exact fun h1 h2 => TransCmp.lt_trans h1 h2 | exact fun h1 h2 => TransCmp.gt_trans h1 h2
  | name x =>
    cases b <;> cases c <;> cases o <;> simp [cmp] at ho ⊢ <;>
      first | exact fun h1 h2 => TransCmp.lt_trans h1 h2 | exact fun h1 h2 => TransCmp.gt_trans h1 h2
  | node x =>
    cases b <;> cases c <;> cases o <;> simp [cmp] at ho ⊢ <;>
      first | exact cmpList_trans x _ _ .lt (by simp) | exact cmpList_trans x _ _ .gt (by simp)
  | rev x =>
    cases b <;> cases c <;> cases o <;> simp [cmp] at ho ⊢ <;>
      first | exact cmp_trans x _ _ .gt (by simp) | exact cmp_trans x _ _ .lt (by simp)
theorem cmpList_trans (a b c : List K) (o : Ordering) (ho : o ≠ .eq) :
    cmpList a b = o → cmpList b c = o → cmpList a c = o := by
  cases a with
  | nil => cases b <;> cases c <;> cases o <;> simp [cmpList] at ho ⊢
  | cons x as =>
    cases b with
    | nil => cases c <;> cases o <;> simp [cmpList] at ho ⊢
    | cons y bs =>
      cases c with
      | nil => cases o <;> simp [cmpList] at ho ⊢
      | cons z cs =>
        simp only [cmpList]
        apply lex_trans ho
        · exact cmp_trans x y z o ho
        · intro h1 h2; rw [cmp_eq_iff] at h2; subst h2; exact h1
        · intro h1 h2; rw [cmp_eq_iff] at h1; subst h1; exact h2
        · intro h1 h2; rw [cmp_eq_iff] at *; subst h1; exact h2
        · exact cmpList_trans as bs cs o ho
end


instance : OrientedCmp cmp := ⟨fun {a b} => cmp_swap a b⟩
instance : LawfulEqCmp cmp where
  compare_self := fun {a} => (cmp_eq_iff a a).2 rfl
  eq_of_compare := fun {a b} h => (cmp_eq_iff a b).1 h

theorem cmp_self (a : K) : cmp a a = .eq := (cmp_eq_iff a a).2 rfl

theorem cmp_lt_trans {a b c : K} (h₁ : cmp a b = .lt) (h₂ : cmp b c = .lt) : cmp a c = .lt :=
  cmp_trans a b c .lt (by simp) h₁ h₂
theorem cmp_gt_trans {a b c : K} (h₁ : cmp a b = .gt) (h₂ : cmp b c = .gt) : cmp a c = .gt :=
  cmp_trans a b c .gt (by simp) h₁ h₂

theorem cmp_gt_iff (a b : K) : cmp a b = .gt ↔ cmp b a = .lt := by
  rw [cmp_swap a b]; cases cmp b a <;> simp

instance : TransCmp cmp where
  isLE_trans := by
    intro a b c h₁ h₂
    cases hab : cmp a b with
    | gt => simp [hab] at h₁
    | eq =>
      have := (cmp_eq_iff a b).1 hab; subst this; exact h₂
    | lt =>
      cases hbc : cmp b c with
      | gt => simp [hbc] at h₂
      | eq => have := (cmp_eq_iff b c).1 hbc; subst this; simp [hab]
      | lt => simp [cmp_lt_trans hab hbc]

theorem lt_iff (a b : K) : lt a b = true ↔ cmp a b = .lt := by simp [lt]
theorem beq_iff (a b : K) : beq a b = true ↔ a = b := by simp [beq, cmp_eq_iff]

theorem lt_irrefl (a : K) : lt a a = false := by simp [lt, cmp_self]
theorem lt_trans {a b c : K} (h₁ : lt a b = true) (h₂ : lt b c = true) : lt a c = true := by
  rw [lt_iff] at *; exact cmp_lt_trans h₁ h₂
theorem lt_asymm {a b : K} (h : lt a b = true) : lt b a = false := by
  rw [lt_iff] at h
  have : cmp b a = .gt := (cmp_gt_iff b a).2 h
  simp [lt, this]
/-- exactly one of `a < b`, `a = b`, `b < a` -/
theorem trichotomy (a b : K) :
    (lt a b = true ∧ a ≠ b ∧ lt b a = false) ∨ (lt a b = false ∧ a = b ∧ lt b a = false) ∨
    (lt a b = false ∧ a ≠ b ∧ lt b a = true) := by
  cases h : cmp a b with
  | lt =>
    refine Or.inl ⟨by simp [lt, h], ?_, lt_asymm (by simp [lt, h])⟩
    intro e; subst e; simp [cmp_self] at h
  | eq =>
    have e := (cmp_eq_iff a b).1 h; subst e
    exact Or.inr (Or.inl ⟨lt_irrefl a, rfl, lt_irrefl a⟩)
  | gt =>
    have h' : cmp b a = .lt := (cmp_gt_iff a b).1 h
    refine Or.inr (Or.inr ⟨by simp [lt, h], ?_, by simp [lt, h']⟩)
    intro e; subst e; simp [cmp_self] at h

theorem not_lt_not_lt_eq {a b : K} (h₁ : lt a b = false) (h₂ : lt b a = false) : a = b := by
  rcases trichotomy a b with h | h | h
  · simp [h.1] at h₁
  · exact h.2.1
  · simp [h.2.2] at h₂

end K

/-! ## B. insertion sort -/
section Sort
variable {α : Type}

theorem insertBy_perm (lt : α → α → Bool) (x : α) (l : List α) : (insertBy lt x l).Perm (x :: l) := by
  induction l with
  | nil => exact List.Perm.refl _
  | cons y ys ih =>
    unfold insertBy
    split
    · exact List.Perm.refl _
    · exact (List.Perm.cons y ih).trans (List.Perm.swap x y ys)

theorem isort_perm (lt : α → α → Bool) (l : List α) : (isort lt l).Perm l := by
  induction l with
  | nil => exact List.Perm.refl _
  | cons x xs ih => exact (insertBy_perm lt x _).trans (List.Perm.cons x ih)

theorem mem_isort (lt : α → α → Bool) (l : List α) (x : α) : x ∈ isort lt l ↔ x ∈ l :=
  (isort_perm lt l).mem_iff

theorem length_isort (lt : α → α → Bool) (l : List α) : (isort lt l).length = l.length :=
  (isort_perm lt l).length_eq

/-- sorting commutes with a map that preserves the comparison on the members of the list -/
theorem map_insertBy {β : Type} (f : α → β) (lt : α → α → Bool) (lt' : β → β → Bool) (x : α) (l : List α)
    (h : ∀ y ∈ l, lt x y = lt' (f x) (f y)) :
    (insertBy lt x l).map f = insertBy lt' (f x) (l.map f) := by
  induction l with
  | nil => rfl
  | cons y ys ih =>
    simp only [insertBy, List.map_cons]
    rw [h y (by simp)]
    split
    · rfl
    · simp only [List.map_cons]
      rw [ih (fun z hz => h z (List.mem_cons_of_mem _ hz))]

theorem map_isort {β : Type} (f : α → β) (lt : α → α → Bool) (lt' : β → β → Bool) (l : List α)
    (h : ∀ x ∈ l, ∀ y ∈ l, lt x y = lt' (f x) (f y)) :
    (isort lt l).map f = isort lt' (l.map f) := by
  induction l with
  | nil => rfl
  | cons x xs ih =>
    simp only [isort, List.map_cons]
    rw [map_insertBy f lt lt' x (isort lt xs)]
    · rw [ih (fun a ha b hb => h a (List.mem_cons_of_mem _ ha) b (List.mem_cons_of_mem _ hb))]
    · intro y hy
      exact h x (by simp) y (List.mem_cons_of_mem _ ((mem_isort lt xs y).1 hy))

/-- two comparators that agree on the members sort alike -/
theorem isort_congr (lt lt' : α → α → Bool) (l : List α)
    (h : ∀ x ∈ l, ∀ y ∈ l, lt x y = lt' x y) : isort lt l = isort lt' l := by
  have := map_isort id lt lt' l (by simpa using h)
  simpa using this

/-- sorted by a comparison `c`: non-decreasing -/
def SortedLE (c : α → α → Ordering) (l : List α) : Prop := l.Pairwise (fun a b => c a b ≠ .gt)
/-- strictly increasing -/
def SortedLT (c : α → α → Ordering) (l : List α) : Prop := l.Pairwise (fun a b => c a b = .lt)

theorem insertBy_sorted (c : α → α → Ordering) [TransCmp c] (x : α) (l : List α)
    (hl : SortedLE c l) : SortedLE c (insertBy (fun a b => c a b == .lt) x l) := by
  induction l with
  | nil => simp [insertBy, SortedLE]
  | cons y ys ih =>
    unfold SortedLE at *
    rw [List.pairwise_cons] at hl
    unfold insertBy
    split
    · rename_i hxy
      have hxy : c x y = .lt := by simpa using hxy
      rw [List.pairwise_cons]
      refine ⟨?_, List.pairwise_cons.2 hl⟩
      intro z hz
      rcases List.mem_cons.1 hz with rfl | hz
      · simp [hxy]
      · have := hl.1 z hz
        have hle : (c x z).isLE := TransCmp.isLE_trans (a := x) (b := y) (c := z) (by simp [hxy])
          (by cases h : c y z <;> simp_all)
        intro hgt; simp [hgt] at hle
    · rename_i hxy
      have hyx : c y x ≠ .gt := by
        intro hgt
        exact hxy (by simp [OrientedCmp.gt_iff_lt.1 hgt])
      rw [List.pairwise_cons]
      refine ⟨?_, ih hl.2⟩
      intro z hz
      rcases List.mem_cons.1 ((insertBy_perm _ x ys).mem_iff.1 hz) with rfl | hz
      · exact hyx
      · exact hl.1 z hz

theorem isort_sorted (c : α → α → Ordering) [TransCmp c] (l : List α) :
    SortedLE c (isort (fun a b => c a b == .lt) l) := by
  induction l with
  | nil => simp [isort, SortedLE]
  | cons x xs ih => exact insertBy_sorted c x _ ih

/-- for a lawful linear order the non-decreasing arrangement of a multiset is unique -/
theorem sortedLE_perm_eq (c : α → α → Ordering) [TransCmp c] [LawfulEqCmp c] {l₁ l₂ : List α}
    (h₁ : SortedLE c l₁) (h₂ : SortedLE c l₂) (hp : l₁.Perm l₂) : l₁ = l₂ := by
  apply List.Perm.eq_of_pairwise (le := fun a b => c a b ≠ .gt) _ h₁ h₂ hp
  intro a b _ _ hab hba
  have h1 : (c a b).isLE := by cases h : c a b <;> simp_all
  have h2 : (c b a).isLE := by cases h : c b a <;> simp_all
  exact LawfulEqCmp.eq_of_compare (OrientedCmp.isLE_antisymm h1 h2)

/-- sorting is invariant under permutation of the input (lawful linear order) -/
theorem isort_perm_invariant (c : α → α → Ordering) [TransCmp c] [LawfulEqCmp c] {l₁ l₂ : List α}
    (hp : l₁.Perm l₂) : isort (fun a b => c a b == .lt) l₁ = isort (fun a b => c a b == .lt) l₂ :=
  sortedLE_perm_eq c (isort_sorted c l₁) (isort_sorted c l₂)
    ((isort_perm _ l₁).trans (hp.trans (isort_perm _ l₂).symm))

/-- without repeated members the sorted arrangement is strictly increasing -/
theorem sortedLT_of_nodup (c : α → α → Ordering) [LawfulEqCmp c] {l : List α}
    (h : SortedLE c l) (hn : l.Nodup) : SortedLT c l := by
  unfold SortedLE SortedLT at *
  induction l with
  | nil => exact List.Pairwise.nil
  | cons x xs ih =>
    rw [List.pairwise_cons] at h ⊢
    rw [List.nodup_cons] at hn
    refine ⟨?_, ih h.2 hn.2⟩
    intro y hy
    cases hc : c x y with
    | lt => rfl
    | gt => exact absurd hc (h.1 y hy)
    | eq =>
      have : x = y := LawfulEqCmp.eq_of_compare hc
      subst this; exact absurd hy hn.1

end Sort

end Arrai.C06
