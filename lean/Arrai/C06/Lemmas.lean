/-
  C06 helper lemmas.
  A. `K.cmp` is a lawful linear order (oriented, transitive, `eq` exactly on equal keys).
  B. insertion sort: permutation, sortedness, commutation with maps, uniqueness.
  C. equations of the fold `cata` (`key`, `kind`, `depth`, `den` on each constructor).
  D. the order embedding: `lessN n a b = K.lt (key a) (key b)` for `n` above the nesting depth.
-/
import Arrai.C06.Model

namespace Arrai.C06

open Std

/-! ## A. the key order -/
namespace K

mutual
theorem cmp_eq_iff (a b : K) : cmp a b = .eq ↔ a = b := by
  cases a with
  | int x => cases b <;> simp [cmp]
  | name x => cases b <;> simp [cmp]
  | node x =>
    cases b with
    | node y => simp [cmp, cmpList_eq_iff x y]
    | _ => simp [cmp]
  | rev x =>
    cases b with
    | rev y => simp [cmp, cmp_eq_iff x y]
    | _ => simp [cmp]
theorem cmpList_eq_iff (a b : List K) : cmpList a b = .eq ↔ a = b := by
  cases a with
  | nil => cases b <;> simp [cmpList]
  | cons x as =>
    cases b with
    | nil => simp [cmpList]
    | cons y bs => simp [cmpList, cmp_eq_iff x y, cmpList_eq_iff as bs]
end

mutual
theorem cmp_swap (a b : K) : cmp a b = (cmp b a).swap := by
  cases a with
  | int x =>
    cases b <;> simp [cmp]
    exact OrientedOrd.eq_swap
  | name x =>
    cases b <;> simp [cmp]
    exact OrientedOrd.eq_swap
  | node x =>
    cases b with
    | node y => simp [cmp]; exact cmpList_swap x y
    | _ => simp [cmp]
  | rev x =>
    cases b with
    | rev y => simp only [cmp]; rw [cmp_swap x y]
    | _ => simp [cmp]
theorem cmpList_swap (a b : List K) : cmpList a b = (cmpList b a).swap := by
  cases a with
  | nil => cases b <;> simp [cmpList]
  | cons x as =>
    cases b with
    | nil => simp [cmpList]
    | cons y bs =>
      simp only [cmpList, Ordering.swap_then]
      rw [← cmp_swap x y, ← cmpList_swap as bs]
end

/-- lexicographic step for a strict outcome `o` (`lt` or `gt`) -/
theorem lex_trans {o o₁ o₂ o₃ p₁ p₂ p₃ : Ordering} (ho : o ≠ .eq)
    (hoo : o₁ = o → o₂ = o → o₃ = o)
    (hoe : o₁ = o → o₂ = .eq → o₃ = o)
    (heo : o₁ = .eq → o₂ = o → o₃ = o)
    (hee : o₁ = .eq → o₂ = .eq → o₃ = .eq)
    (hp : p₁ = o → p₂ = o → p₃ = o)
    (h₁ : o₁.then p₁ = o) (h₂ : o₂.then p₂ = o) : o₃.then p₃ = o := by
  have key : ∀ (x q : Ordering), x.then q = o → (x = o) ∨ (x = .eq ∧ q = o) := by
    intro x q h
    cases x <;> simp [Ordering.then] at h ⊢ <;> first | exact h | (subst h; simp) | skip
    all_goals (first | exact Or.inl h | exact h | skip)
  rcases key _ _ h₁ with a | ⟨a, q₁⟩ <;> rcases key _ _ h₂ with b | ⟨b, q₂⟩
  · rw [hoo a b]; cases o <;> simp_all [Ordering.then]
  · rw [hoe a b]; cases o <;> simp_all [Ordering.then]
  · rw [heo a b]; cases o <;> simp_all [Ordering.then]
  · rw [hee a b, hp q₁ q₂]; rfl

theorem compare_trans_strict {α : Type} [Ord α] [TransOrd α] {a b c : α} {o : Ordering} (ho : o ≠ .eq)
    (h₁ : compare a b = o) (h₂ : compare b c = o) : compare a c = o := by
  cases o with
  | lt => exact TransCmp.lt_trans h₁ h₂
  | eq => exact absurd rfl ho
  | gt => exact TransCmp.gt_trans h₁ h₂

mutual
theorem cmp_trans (a b c : K) (o : Ordering) (ho : o ≠ .eq) :
    cmp a b = o → cmp b c = o → cmp a c = o := by
  cases a with
  | int x =>
    cases b <;> cases c <;> cases o <;> simp [cmp] at ho ⊢ <;>
      first | exact fun h1 h2 => TransCmp.lt_trans h1 h2 | exact fun h1 h2 => TransCmp.gt_trans h1 h2
  | name x =>
    cases b <;> cases c <;> cases o <;> simp [cmp] at ho ⊢ <;>
      first | exact fun h1 h2 => TransCmp.lt_trans h1 h2 | exact fun h1 h2 => TransCmp.gt_trans h1 h2
  | node x =>
    cases b <;> cases c <;> cases o <;> simp [cmp] at ho ⊢ <;>
      first | exact cmpList_trans x _ _ .lt (by simp) | exact cmpList_trans x _ _ .gt (by simp)
  | rev x =>
    cases b <;> cases c <;> cases o <;> simp [cmp] at ho ⊢ <;>
      first | exact cmp_trans x _ _ .gt (by simp) | exact cmp_trans x _ _ .lt (by simp)
theorem cmpList_trans (a b c : List K) (o : Ordering) (ho : o ≠ .eq) :
    cmpList a b = o → cmpList b c = o → cmpList a c = o := by
  cases a with
  | nil => cases b <;> cases c <;> cases o <;> simp [cmpList] at ho ⊢
  | cons x as =>
    cases b with
    | nil => cases c <;> cases o <;> simp [cmpList] at ho ⊢
    | cons y bs =>
      cases c with
      | nil => cases o <;> simp [cmpList] at ho ⊢
      | cons z cs =>
        simp only [cmpList]
        apply lex_trans ho
        · exact cmp_trans x y z o ho
        · intro h1 h2; rw [cmp_eq_iff] at h2; subst h2; exact h1
        · intro h1 h2; rw [cmp_eq_iff] at h1; subst h1; exact h2
        · intro h1 h2; rw [cmp_eq_iff] at *; subst h1; exact h2
        · exact cmpList_trans as bs cs o ho
end


instance : OrientedCmp cmp := ⟨fun {a b} => cmp_swap a b⟩
instance : LawfulEqCmp cmp where
  compare_self := fun {a} => (cmp_eq_iff a a).2 rfl
  eq_of_compare := fun {a b} h => (cmp_eq_iff a b).1 h

theorem cmp_self (a : K) : cmp a a = .eq := (cmp_eq_iff a a).2 rfl

theorem cmp_lt_trans {a b c : K} (h₁ : cmp a b = .lt) (h₂ : cmp b c = .lt) : cmp a c = .lt :=
  cmp_trans a b c .lt (by simp) h₁ h₂
theorem cmp_gt_trans {a b c : K} (h₁ : cmp a b = .gt) (h₂ : cmp b c = .gt) : cmp a c = .gt :=
  cmp_trans a b c .gt (by simp) h₁ h₂

theorem cmp_gt_iff (a b : K) : cmp a b = .gt ↔ cmp b a = .lt := by
  rw [cmp_swap a b]; cases cmp b a <;> simp

instance : TransCmp cmp where
  isLE_trans := by
    intro a b c h₁ h₂
    cases hab : cmp a b with
    | gt => simp [hab] at h₁
    | eq =>
      have := (cmp_eq_iff a b).1 hab; subst this; exact h₂
    | lt =>
      cases hbc : cmp b c with
      | gt => simp [hbc] at h₂
      | eq => have := (cmp_eq_iff b c).1 hbc; subst this; simp [hab]
      | lt => simp [cmp_lt_trans hab hbc]

theorem lt_iff (a b : K) : lt a b = true ↔ cmp a b = .lt := by simp [lt]
theorem beq_iff (a b : K) : beq a b = true ↔ a = b := by simp [beq]

theorem beq_eq_false_iff (a b : K) : beq a b = false ↔ a ≠ b := by
  rw [← Bool.not_eq_true, beq_iff]

theorem lt_irrefl (a : K) : lt a a = false := by simp [lt, cmp_self]
theorem lt_trans {a b c : K} (h₁ : lt a b = true) (h₂ : lt b c = true) : lt a c = true := by
  rw [lt_iff] at *; exact cmp_lt_trans h₁ h₂
theorem lt_asymm {a b : K} (h : lt a b = true) : lt b a = false := by
  rw [lt_iff] at h
  have : cmp b a = .gt := (cmp_gt_iff b a).2 h
  simp [lt, this]
/-- exactly one of `a < b`, `a = b`, `b < a` -/
theorem trichotomy (a b : K) :
    (lt a b = true ∧ a ≠ b ∧ lt b a = false) ∨ (lt a b = false ∧ a = b ∧ lt b a = false) ∨
    (lt a b = false ∧ a ≠ b ∧ lt b a = true) := by
  cases h : cmp a b with
  | lt =>
    refine Or.inl ⟨by simp [lt, h], ?_, lt_asymm (by simp [lt, h])⟩
    intro e; subst e; simp [cmp_self] at h
  | eq =>
    have e := (cmp_eq_iff a b).1 h; subst e
    exact Or.inr (Or.inl ⟨lt_irrefl a, rfl, lt_irrefl a⟩)
  | gt =>
    have h' : cmp b a = .lt := (cmp_gt_iff a b).1 h
    refine Or.inr (Or.inr ⟨by simp [lt, h], ?_, by simp [lt, h']⟩)
    intro e; subst e; simp [cmp_self] at h

theorem not_lt_not_lt_eq {a b : K} (h₁ : lt a b = false) (h₂ : lt b a = false) : a = b := by
  rcases trichotomy a b with h | h | h
  · simp [h.1] at h₁
  · exact h.2.1
  · simp [h.2.2] at h₂

end K

/-! ## B. insertion sort -/
section Sorting
variable {α : Type}

theorem insertBy_perm (lt : α → α → Bool) (x : α) (l : List α) : (insertBy lt x l).Perm (x :: l) := by
  induction l with
  | nil => exact List.Perm.refl _
  | cons y ys ih =>
    unfold insertBy
    split
    · exact List.Perm.refl _
    · exact (List.Perm.cons y ih).trans (List.Perm.swap x y ys)

theorem isort_perm (lt : α → α → Bool) (l : List α) : (isort lt l).Perm l := by
  induction l with
  | nil => exact List.Perm.refl _
  | cons x xs ih => exact (insertBy_perm lt x _).trans (List.Perm.cons x ih)

theorem mem_isort (lt : α → α → Bool) (l : List α) (x : α) : x ∈ isort lt l ↔ x ∈ l :=
  (isort_perm lt l).mem_iff

theorem length_isort (lt : α → α → Bool) (l : List α) : (isort lt l).length = l.length :=
  (isort_perm lt l).length_eq

/-- sorting commutes with a map that preserves the comparison on the members of the list -/
theorem map_insertBy {β : Type} (f : α → β) (lt : α → α → Bool) (lt' : β → β → Bool) (x : α) (l : List α)
    (h : ∀ y ∈ l, lt x y = lt' (f x) (f y)) :
    (insertBy lt x l).map f = insertBy lt' (f x) (l.map f) := by
  induction l with
  | nil => rfl
  | cons y ys ih =>
    simp only [insertBy, List.map_cons]
    rw [h y (by simp)]
    split
    · rfl
    · simp only [List.map_cons]
      rw [ih (fun z hz => h z (List.mem_cons_of_mem _ hz))]

theorem map_isort {β : Type} (f : α → β) (lt : α → α → Bool) (lt' : β → β → Bool) (l : List α)
    (h : ∀ x ∈ l, ∀ y ∈ l, lt x y = lt' (f x) (f y)) :
    (isort lt l).map f = isort lt' (l.map f) := by
  induction l with
  | nil => rfl
  | cons x xs ih =>
    simp only [isort, List.map_cons]
    rw [map_insertBy f lt lt' x (isort lt xs)]
    · rw [ih (fun a ha b hb => h a (List.mem_cons_of_mem _ ha) b (List.mem_cons_of_mem _ hb))]
    · intro y hy
      exact h x (by simp) y (List.mem_cons_of_mem _ ((mem_isort lt xs y).1 hy))

/-- two comparators that agree on the members sort alike -/
theorem isort_congr (lt lt' : α → α → Bool) (l : List α)
    (h : ∀ x ∈ l, ∀ y ∈ l, lt x y = lt' x y) : isort lt l = isort lt' l := by
  have := map_isort id lt lt' l (by simpa using h)
  simpa using this

/-- sorted by a comparison `c`: non-decreasing -/
def SortedLE (c : α → α → Ordering) (l : List α) : Prop := l.Pairwise (fun a b => c a b ≠ .gt)
/-- strictly increasing -/
def SortedLT (c : α → α → Ordering) (l : List α) : Prop := l.Pairwise (fun a b => c a b = .lt)

theorem insertBy_sorted (c : α → α → Ordering) [TransCmp c] (x : α) (l : List α)
    (hl : SortedLE c l) : SortedLE c (insertBy (fun a b => c a b == .lt) x l) := by
  induction l with
  | nil => simp [insertBy, SortedLE]
  | cons y ys ih =>
    unfold SortedLE at *
    rw [List.pairwise_cons] at hl
    unfold insertBy
    split
    · rename_i hxy
      have hxy : c x y = .lt := by simpa using hxy
      rw [List.pairwise_cons]
      refine ⟨?_, List.pairwise_cons.2 hl⟩
      intro z hz
      rcases List.mem_cons.1 hz with rfl | hz
      · simp [hxy]
      · have := hl.1 z hz
        have hle : (c x z).isLE := TransCmp.isLE_trans (a := x) (b := y) (c := z) (by simp [hxy])
          (by cases h : c y z <;> simp_all)
        intro hgt; simp [hgt] at hle
    · rename_i hxy
      have hyx : c y x ≠ .gt := by
        intro hgt
        exact hxy (by simp [OrientedCmp.gt_iff_lt.1 hgt])
      rw [List.pairwise_cons]
      refine ⟨?_, ih hl.2⟩
      intro z hz
      rcases List.mem_cons.1 ((insertBy_perm _ x ys).mem_iff.1 hz) with rfl | hz
      · exact hyx
      · exact hl.1 z hz

theorem isort_sorted (c : α → α → Ordering) [TransCmp c] (l : List α) :
    SortedLE c (isort (fun a b => c a b == .lt) l) := by
  induction l with
  | nil => simp [isort, SortedLE]
  | cons x xs ih => exact insertBy_sorted c x _ ih

/-- for a lawful linear order the non-decreasing arrangement of a multiset is unique -/
theorem sortedLE_perm_eq (c : α → α → Ordering) [TransCmp c] [LawfulEqCmp c] {l₁ l₂ : List α}
    (h₁ : SortedLE c l₁) (h₂ : SortedLE c l₂) (hp : l₁.Perm l₂) : l₁ = l₂ := by
  apply List.Perm.eq_of_pairwise (le := fun a b => c a b ≠ .gt) _ h₁ h₂ hp
  intro a b _ _ hab hba
  have h1 : (c a b).isLE := by cases h : c a b <;> simp_all
  have h2 : (c b a).isLE := by cases h : c b a <;> simp_all
  exact LawfulEqCmp.eq_of_compare (OrientedCmp.isLE_antisymm h1 h2)

/-- sorting is invariant under permutation of the input (lawful linear order) -/
theorem isort_perm_invariant (c : α → α → Ordering) [TransCmp c] [LawfulEqCmp c] {l₁ l₂ : List α}
    (hp : l₁.Perm l₂) : isort (fun a b => c a b == .lt) l₁ = isort (fun a b => c a b == .lt) l₂ :=
  sortedLE_perm_eq c (isort_sorted c l₁) (isort_sorted c l₂)
    ((isort_perm _ l₁).trans (hp.trans (isort_perm _ l₂).symm))

/-- without repeated members the sorted arrangement is strictly increasing -/
theorem sortedLT_of_nodup (c : α → α → Ordering) [LawfulEqCmp c] {l : List α}
    (h : SortedLE c l) (hn : l.Nodup) : SortedLT c l := by
  unfold SortedLE SortedLT at *
  induction l with
  | nil => exact List.Pairwise.nil
  | cons x xs ih =>
    rw [List.pairwise_cons] at h ⊢
    rw [List.nodup_cons] at hn
    refine ⟨?_, ih h.2 hn.2⟩
    intro y hy
    cases hc : c x y with
    | lt => rfl
    | gt => exact absurd hc (h.1 y hy)
    | eq =>
      have : x = y := LawfulEqCmp.eq_of_compare hc
      subst this; exact absurd hy hn.1

end Sorting

/-! ## C. equations of the fold -/
section CataEq
variable {β : Type} (alg : RepF β → β)

theorem cataL_eq (xs : List Rep) : cataL alg xs = xs.map (cata alg) := by
  induction xs with
  | nil => rfl
  | cons x xs ih => simp [cataL, ih]

theorem cataA_eq (as : List (String × Rep)) : cataA alg as = as.map (fun p => (p.1, cata alg p.2)) := by
  induction as with
  | nil => rfl
  | cons p r ih => obtain ⟨n, x⟩ := p; simp [cataA, ih]

theorem cataO_eq (vs : List (Option Rep)) : cataO alg vs = vs.map (Option.map (cata alg)) := by
  induction vs with
  | nil => rfl
  | cons v r ih => cases v <;> simp [cataO, ih]

theorem cataLL_eq (m : List (List Rep)) : cataLL alg m = m.map (List.map (cata alg)) := by
  induction m with
  | nil => rfl
  | cons l r ih => simp [cataLL, ih, cataL_eq]

end CataEq

theorem negInner_map {β γ : Type} (f : β → γ) (as : List (String × β)) :
    negInner (as.map (fun p => (p.1, f p.2))) = (negInner as).map f := by
  match as with
  | [] => rfl
  | [(n, x)] => simp only [List.map, negInner]; split <;> rfl
  | _ :: _ :: _ => rfl

theorem negInner_some {β : Type} {as : List (String × β)} {x : β} (h : negInner as = some x) :
    as = [(negateTag, x)] := by
  match as, h with
  | [(n, y)], h =>
    simp only [negInner] at h
    split at h
    · rename_i hn; cases h; rw [hn]
    · cases h

/-! ### `key`, `kind`, `depth` on each constructor -/
@[simp] theorem key_num (n : Int) : key (.num n) = .node [.int kNumber, .int n] := rfl
@[simp] theorem key_gtuple (as : List (String × Rep)) :
    key (.gtuple as) = tupleKeyAlg (as.map (fun p => (p.1, key p.2))) := by
  simp [key, cata, keyAlg, cataA_eq]
@[simp] theorem key_charT (i c : Int) : key (.charT i c) = .node [.int kCharT, .int i, .int c] := rfl
@[simp] theorem key_byteT (i c : Int) : key (.byteT i c) = .node [.int kByteT, .int i, .int c] := rfl
@[simp] theorem key_itemT (i : Int) (x : Rep) : key (.itemT i x) = .node [.int kItemT, .int i, key x] := rfl
@[simp] theorem key_entryT (k v : Rep) : key (.entryT k v) = .node [.int kEntryT, key k, key v] := rfl
@[simp] theorem key_empty : key .empty = .node [.int kEmpty] := rfl
@[simp] theorem key_true : key .true_ = .node [.int kTrue] := rfl
@[simp] theorem key_generic (xs : List Rep) :
    key (.generic xs) = .node (.int kGenericSet :: isort K.lt (xs.map key)) := by
  simp [key, cata, keyAlg, cataL_eq]
@[simp] theorem key_str (s : List Int) (off : Int) :
    key (.str s off) = .node (.int kString :: .int off :: s.map K.int) := rfl
@[simp] theorem key_bytes (s : List Int) (off : Int) :
    key (.bytes s off) = .node (.int kBytes :: .int off :: s.map K.int) := rfl
@[simp] theorem key_array (vs : List (Option Rep)) (off : Int) :
    key (.array vs off) = .node (.int kArray :: .int off :: vs.map (fun o => optKey (o.map key))) := by
  simp [key, cata, keyAlg, cataO_eq]
@[simp] theorem key_dict (m : List (List Rep)) :
    key (.dict m) = .node (.int kDict ::
      (isort (fun e f => K.lt (entryHead e) (entryHead f)) (m.map (List.map key))).map entryKey) := by
  simp [key, cata, keyAlg, cataLL_eq]
@[simp] theorem key_relation (ns : List String) (rows : List (List Rep)) :
    key (.relation ns rows) =
      .node [.int kRelation, .int ns.length, .node ((isort strLt ns).map K.name), .int rows.length,
        .node (isort K.lt (rows.map (fun row => tupleKeyAlg (zipNames ns (row.map key)))))] := by
  simp [key, cata, keyAlg, cataLL_eq, Function.comp_def]
@[simp] theorem key_union (xs : List Rep) :
    key (.union xs) = .node (.int kUnion :: isort K.lt (xs.map key)) := by
  simp [key, cata, keyAlg, cataL_eq]

@[simp] theorem kind_num (n : Int) : kind (.num n) = kNumber := rfl
theorem kind_gtuple (as : List (String × Rep)) :
    kind (.gtuple as) = negKind ((negInner as).map kind) := by
  simp [kind, cata, kindAlg, cataA_eq, negInner_map]
@[simp] theorem kind_charT (i c : Int) : kind (.charT i c) = kCharT := rfl
@[simp] theorem kind_byteT (i c : Int) : kind (.byteT i c) = kByteT := rfl
@[simp] theorem kind_itemT (i : Int) (x : Rep) : kind (.itemT i x) = kItemT := rfl
@[simp] theorem kind_entryT (k v : Rep) : kind (.entryT k v) = kEntryT := rfl
@[simp] theorem kind_empty : kind .empty = kEmpty := rfl
@[simp] theorem kind_true : kind .true_ = kTrue := rfl
@[simp] theorem kind_generic (xs : List Rep) : kind (.generic xs) = kGenericSet := rfl
@[simp] theorem kind_str (s : List Int) (off : Int) : kind (.str s off) = kString := rfl
@[simp] theorem kind_bytes (s : List Int) (off : Int) : kind (.bytes s off) = kBytes := rfl
@[simp] theorem kind_array (vs : List (Option Rep)) (off : Int) : kind (.array vs off) = kArray := rfl
@[simp] theorem kind_dict (m : List (List Rep)) : kind (.dict m) = kDict := rfl
@[simp] theorem kind_relation (ns : List String) (rows : List (List Rep)) : kind (.relation ns rows) = kRelation := rfl
@[simp] theorem kind_union (xs : List Rep) : kind (.union xs) = kUnion := rfl

theorem depth_gtuple (as : List (String × Rep)) : depth (.gtuple as) = 1 + maxL (as.map (fun p => depth p.2)) := by
  simp [depth, cata, depthAlg, cataA_eq, Function.comp_def]
theorem depth_itemT (i : Int) (x : Rep) : depth (.itemT i x) = 1 + depth x := rfl
theorem depth_entryT (k v : Rep) : depth (.entryT k v) = 1 + max (depth k) (depth v) := rfl
theorem depth_generic (xs : List Rep) : depth (.generic xs) = 1 + maxL (xs.map depth) := by
  simp [depth, cata, depthAlg, cataL_eq]
theorem depth_array (vs : List (Option Rep)) (off : Int) :
    depth (.array vs off) = 1 + maxL (vs.map (fun o => optDepth (o.map depth))) := by
  simp [depth, cata, depthAlg, cataO_eq, Function.comp_def]
theorem depth_dict (m : List (List Rep)) : depth (.dict m) = 1 + maxL (m.map (fun e => maxL (e.map depth))) := by
  simp [depth, cata, depthAlg, cataLL_eq, Function.comp_def]
theorem depth_relation (ns : List String) (rows : List (List Rep)) :
    depth (.relation ns rows) = 2 + maxL (rows.map (fun e => maxL (e.map depth))) := by
  simp [depth, cata, depthAlg, cataLL_eq, Function.comp_def]
theorem depth_union (xs : List Rep) : depth (.union xs) = 1 + maxL (xs.map depth) := by
  simp [depth, cata, depthAlg, cataL_eq]

theorem le_maxL {d : Nat} {ds : List Nat} (h : d ∈ ds) : d ≤ maxL ds := by
  induction ds with
  | nil => cases h
  | cons x xs ih =>
    simp only [maxL]
    rcases List.mem_cons.1 h with rfl | h
    · exact Nat.le_max_left _ _
    · exact Nat.le_trans (ih h) (Nat.le_max_right _ _)

theorem depth_lt_of_mem_map {xs : List Rep} {x : Rep} (h : x ∈ xs) : depth x ≤ maxL (xs.map depth) :=
  le_maxL (List.mem_map.2 ⟨x, h, rfl⟩)

theorem depth_induction {P : Rep → Prop} (h : ∀ a, (∀ b, depth b < depth a → P b) → P a) : ∀ a, P a := by
  intro a
  generalize hn : depth a = n
  induction n using Nat.strongRecOn generalizing a with
  | _ n ih =>
    apply h
    intro b hb
    exact ih (depth b) (by omega) b rfl

/-! ## D. the order embedding -/

namespace K
theorem lt_node (l l' : List K) : lt (.node l) (.node l') = (cmpList l l' == .lt) := rfl
theorem lt_swap (a b : K) : lt b a = (cmp a b == .gt) := by
  unfold lt; rw [cmp_swap a b]; cases cmp b a <;> rfl
theorem beq_def (a b : K) : beq a b = (cmp a b == .eq) := rfl
end K

theorem int_cmp_lt (x y : Int) : (compare x y == .lt) = decide (x < y) := by
  by_cases h : x < y
  · simp [h, Int.compare_eq_lt.2 h]
  · have : compare x y ≠ .lt := fun hc => h (Int.compare_eq_lt.1 hc)
    cases hc : compare x y <;> simp_all

theorem int_cmp_eq (x y : Int) : compare x y = .eq ↔ x = y := LawfulEqOrd.compare_eq_iff_eq

theorem nat_cmp_lt (x y : Nat) : (compare (x : Int) (y : Int) == .lt) = decide (x < y) := by
  rw [int_cmp_lt]; simp

theorem step3 (r1 r2 : Bool) (o rest : Ordering) (h1 : r1 = (o == .lt)) (h2 : r2 = (o == .gt)) :
    (if r1 then true else if r2 then false else (rest == .lt)) = (o.then rest == .lt) := by
  subst h1 h2; cases o <;> simp [Ordering.then]

theorem negKind_cases (o : Option Int) : negKind o = kGenericTuple ∨ negKind o < 0 := by
  cases o with
  | none => exact Or.inl rfl
  | some k =>
    simp only [negKind]
    split
    · right; omega
    · left; rfl

abbrev ctorId := Old.ctorId

theorem kind_gtuple_ne {as : List (String × Rep)} {k : Int} (hk : 0 < k) (hk' : k ≠ kGenericTuple) :
    kind (.gtuple as) ≠ k := by
  rw [kind_gtuple]
  rcases negKind_cases ((negInner as).map kind) with h | h
  · rw [h]; exact fun e => hk' e.symm
  · omega

/-- equal kinds are the same Go type -/
theorem kind_eq_ctor {a b : Rep} (h : kind a = kind b) : ctorId a = ctorId b := by
  cases a <;> cases b <;> simp only [ctorId, Old.ctorId] <;> first
    | rfl
    | (exfalso; revert h; simp [kNumber, kEmpty, kTrue, kGenericSet, kString, kBytes, kArray, kDict, kUnion,
        kRelation, kCharT, kItemT, kEntryT, kByteT]; done)
    | (exfalso
       simp only [kind_num, kind_charT, kind_byteT, kind_itemT, kind_entryT, kind_empty, kind_true, kind_generic,
         kind_str, kind_bytes, kind_array, kind_dict, kind_relation, kind_union] at h
       first
         | (refine absurd h (kind_gtuple_ne ?_ ?_) <;> decide)
         | (refine absurd h.symm (kind_gtuple_ne ?_ ?_) <;> decide))

theorem kindOf_key : ∀ a : Rep, K.kindOf (key a) = kind a := by
  apply depth_induction
  intro a ih
  cases a with
  | gtuple as =>
    rw [key_gtuple, kind_gtuple, tupleKeyAlg, negInner_map]
    cases h : negInner as with
    | none => rfl
    | some x =>
      have has := negInner_some h
      have hx : K.kindOf (key x) = kind x := by
        apply ih; subst has; rw [depth_gtuple]; simp [maxL]
      simp only [Option.map, negKey, negKind, hx]
      split <;> rfl
  | _ => simp [K.kindOf] <;> rfl

def K.tail : K → List K
  | .node (_ :: r) => r
  | _ => []

theorem key_eq_node (a : Rep) : key a = .node (.int (kind a) :: K.tail (key a)) := by
  cases a with
  | gtuple as =>
    rw [kind_gtuple, key_gtuple, tupleKeyAlg, negInner_map]
    cases h : negInner as with
    | none => rfl
    | some x =>
      simp only [Option.map, negKey, negKind, kindOf_key]
      split <;> rfl
  | _ => simp [K.tail] <;> rfl

theorem lt_of_kind_ne {a b : Rep} (h : kind a ≠ kind b) :
    K.lt (key a) (key b) = decide (kind a < kind b) := by
  rw [key_eq_node a, key_eq_node b, K.lt_node]
  simp only [K.cmpList, K.cmp]
  have : compare (kind a) (kind b) ≠ .eq := fun e => h ((int_cmp_eq _ _).1 e)
  rw [← int_cmp_lt]
  cases hc : compare (kind a) (kind b) <;> simp_all [Ordering.then]

theorem cmp_optKey_none_none : K.cmp (optKey none) (optKey none) = .eq := by decide
theorem cmp_optKey_some_none (a : K) : K.cmp (optKey (some a)) (optKey none) = .lt := by
  simp [optKey, K.cmp, K.cmpList]; decide
theorem cmp_optKey_none_some (a : K) : K.cmp (optKey none) (optKey (some a)) = .gt := by
  simp [optKey, K.cmp, K.cmpList]; decide
theorem cmp_optKey_some_some (a b : K) : K.cmp (optKey (some a)) (optKey (some b)) = K.cmp a b := by
  simp [optKey, K.cmp, K.cmpList, Ordering.then]
  cases K.cmp a b <;> rfl

section Loops
variable (n : Nat) (R : Rep → Rep → Bool)
variable (H : ∀ x y, depth x < n → depth y < n → R x y = K.lt (key x) (key y))
include H

theorem R_step (x y : Rep) (hx : depth x < n) (hy : depth y < n) (rest : Ordering) (c : Bool)
    (hc : c = (rest == .lt)) :
    (if R x y then true else if R y x then false else c) = ((K.cmp (key x) (key y)).then rest == .lt) := by
  subst hc
  exact step3 _ _ _ _ (by rw [H x y hx hy]; rfl) (by rw [H y x hy hx, K.lt_swap])

theorem lexLoop_eq : ∀ (l l' : List Rep), (∀ x ∈ l, depth x < n) → (∀ y ∈ l', depth y < n) →
    Impl.lexLoop R l l' = (K.cmpList (l.map key) (l'.map key) == .lt)
  | [], [], _, _ => rfl
  | [], _ :: _, _, _ => rfl
  | _ :: _, [], _, _ => rfl
  | a :: as, b :: bs, hl, hl' => by
    simp only [Impl.lexLoop, List.map_cons, K.cmpList]
    exact R_step n R H a b (hl a (by simp)) (hl' b (by simp)) _ _
      (lexLoop_eq as bs (fun x hx => hl x (List.mem_cons_of_mem _ hx)) (fun y hy => hl' y (List.mem_cons_of_mem _ hy)))

/-- `rowsLoop` agrees with the lexicographic order on lists of equal length -/
theorem rowsLoop_eq : ∀ (l l' : List Rep), l.length = l'.length → (∀ x ∈ l, depth x < n) → (∀ y ∈ l', depth y < n) →
    Impl.rowsLoop R l l' = (K.cmpList (l.map key) (l'.map key) == .lt)
  | [], [], _, _, _ => rfl
  | [], _ :: _, h, _, _ => by simp at h
  | _ :: _, [], h, _, _ => by simp at h
  | a :: as, b :: bs, h, hl, hl' => by
    simp only [Impl.rowsLoop, List.map_cons, K.cmpList]
    exact R_step n R H a b (hl a (by simp)) (hl' b (by simp)) _ _
      (rowsLoop_eq as bs (by simpa using h) (fun x hx => hl x (List.mem_cons_of_mem _ hx))
        (fun y hy => hl' y (List.mem_cons_of_mem _ hy)))

def attrsK (l : List (String × Rep)) : List K :=
  (l.map (fun p => (p.1, key p.2))).flatMap (fun p => [K.name p.1, p.2])

theorem tupleLoop_eq : ∀ (l l' : List (String × Rep)), (∀ p ∈ l, depth p.2 < n) → (∀ q ∈ l', depth q.2 < n) →
    Impl.tupleLoop R l l' = (K.cmpList (attrsK l) (attrsK l') == .lt)
  | [], [], _, _ => rfl
  | [], _ :: _, _, _ => rfl
  | _ :: _, [], _, _ => rfl
  | (a, x) :: as, (b, y) :: bs, hl, hl' => by
    simp only [Impl.tupleLoop, attrsK, List.map_cons, List.flatMap_cons, List.cons_append, List.nil_append,
      K.cmpList, K.cmp]
    by_cases hab : a = b
    · subst hab
      simp only [ne_eq, not_true_eq_false, ite_false, ReflOrd.compare_self, Ordering.then]
      have := tupleLoop_eq as bs (fun p hp => hl p (List.mem_cons_of_mem _ hp)) (fun q hq => hl' q (List.mem_cons_of_mem _ hq))
      simp only [attrsK] at this
      exact R_step n R H x y (hl (a, x) (by simp)) (hl' (a, y) (by simp)) _ _ this
    · have hne : compare a b ≠ .eq := fun e => hab (LawfulEqOrd.compare_eq_iff_eq.1 e)
      simp only [ne_eq, hab, not_false_eq_true, ite_true, strLt]
      cases hc : compare a b <;> simp_all [Ordering.then]

theorem arrayLoop_eq : ∀ (l l' : List (Option Rep)), (∀ x, some x ∈ l → depth x < n) → (∀ y, some y ∈ l' → depth y < n) →
    Impl.arrayLoop R l l' = (K.cmpList (l.map (fun o => optKey (o.map key))) (l'.map (fun o => optKey (o.map key))) == .lt)
  | [], [], _, _ => rfl
  | [], _ :: _, _, _ => rfl
  | _ :: _, [], _, _ => rfl
  | av :: as, bv :: bs, hl, hl' => by
    have ih := arrayLoop_eq as bs (fun x hx => hl x (List.mem_cons_of_mem _ hx)) (fun y hy => hl' y (List.mem_cons_of_mem _ hy))
    cases av with
    | none =>
      cases bv with
      | none =>
        simp only [Impl.arrayLoop, List.map_cons, K.cmpList, Option.map_none, cmp_optKey_none_none]
        rw [ih]; rfl
      | some y =>
        simp only [Impl.arrayLoop, List.map_cons, K.cmpList, Option.map_none, Option.map_some, cmp_optKey_none_some]
        rfl
    | some x =>
      cases bv with
      | none =>
        simp only [Impl.arrayLoop, List.map_cons, K.cmpList, Option.map_none, Option.map_some, cmp_optKey_some_none]
        rfl
      | some y =>
        simp only [Impl.arrayLoop, List.map_cons, K.cmpList, Option.map_some, cmp_optKey_some_some]
        exact R_step n R H x y (hl x (by simp)) (hl' y (by simp)) _ _ ih

end Loops

theorem intsLoop_eq : ∀ (s t : List Int), Impl.intsLoop s t = (K.cmpList (s.map K.int) (t.map K.int) == .lt)
  | [], [] => rfl
  | [], _ :: _ => rfl
  | _ :: _, [] => rfl
  | a :: as, b :: bs => by
    simp only [Impl.intsLoop, List.map_cons, K.cmpList, K.cmp]
    by_cases hab : a = b
    · subst hab; simp [intsLoop_eq as bs, Ordering.then]
    · have hne : compare a b ≠ .eq := fun e => hab ((int_cmp_eq _ _).1 e)
      simp only [ne_eq, hab, not_false_eq_true, ite_true, ← int_cmp_lt]
      cases hc : compare a b <;> simp_all [Ordering.then]

end Arrai.C06
