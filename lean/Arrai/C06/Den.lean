/-
  C06 — canonical-form equality is sound for the meaning: `key a = key b → den a = den b`
  (for representations whose tuples and relation headings have no repeated attribute name).
  So when neither `a < b` nor `b < a`, the two values denote the same `V`.
-/
import Arrai.C06.Clients

namespace Arrai.C06
open Std

/-! ### `den` on each constructor -/
theorem den_gtuple (as : List (String × Rep)) : den (.gtuple as) = V.mkTup (as.map (fun p => (p.1, den p.2))) := by
  simp [den, cata, denAlg, cataA_eq]
theorem den_itemT (i : Int) (x : Rep) : den (.itemT i x) = V.mkTup [("@", .num i), ("@item", den x)] := rfl
theorem den_entryT (k v : Rep) : den (.entryT k v) = V.mkTup [("@", den k), ("@value", den v)] := rfl
theorem den_generic (xs : List Rep) : den (.generic xs) = V.mkSet (xs.map den) := by
  simp [den, cata, denAlg, cataL_eq]
theorem den_array (vs : List (Option Rep)) (off : Int) :
    den (.array vs off) = V.mkSeq "@item" off (vs.map (Option.map den)) := by
  simp [den, cata, denAlg, cataO_eq]
theorem den_dict (m : List (List Rep)) : den (.dict m) = V.mkSet ((m.map (List.map den)).flatMap entryV) := by
  simp [den, cata, denAlg, cataLL_eq]
theorem den_relation (ns : List String) (rows : List (List Rep)) :
    den (.relation ns rows) = V.mkSet (rows.map (fun row => V.mkTup (zipNames ns (row.map den)))) := by
  simp [den, cata, denAlg, cataLL_eq, Function.comp_def]
theorem den_union (bs : List Rep) : den (.union bs) = V.mkSet ((bs.map den).flatMap members) := by
  simp [den, cata, denAlg, cataL_eq]

/-! ### sets are determined by their members -/
theorem mkSet_congr {l l' : List V} (h : ∀ v, v ∈ l ↔ v ∈ l') : V.mkSet l = V.mkSet l' := by
  unfold V.mkSet
  congr 1
  apply FinSet.sorted_ext _ _ (FinSet.sorted_mk l) (FinSet.sorted_mk l')
  intro v
  rw [FinSet.mem_mk, FinSet.mem_mk]
  exact h v

/-! ### `V.mkTup` does not depend on the order of distinct attribute names -/
def SortedN (l : List (String × V)) : Prop := l.Pairwise (fun p q => p.1 < q.1)

theorem insAttr_names (n : String) (v : V) : ∀ (l : List (String × V)) (p : String × V),
    p ∈ V.insAttr n v l → p = (n, v) ∨ p ∈ l
  | [], p, h => by simp [V.insAttr] at h; exact Or.inl h
  | (m, w) :: r, p, h => by
    simp only [V.insAttr] at h
    split at h
    · rcases List.mem_cons.1 h with h | h
      · exact Or.inl h
      · exact Or.inr h
    · split at h
      · rcases List.mem_cons.1 h with h | h
        · exact Or.inl h
        · exact Or.inr (List.mem_cons_of_mem _ h)
      · rcases List.mem_cons.1 h with h | h
        · exact Or.inr (by rw [h]; simp)
        · rcases insAttr_names n v r p h with h | h
          · exact Or.inl h
          · exact Or.inr (List.mem_cons_of_mem _ h)

theorem insAttr_sorted (n : String) (v : V) : ∀ (l : List (String × V)), SortedN l → SortedN (V.insAttr n v l)
  | [], _ => by simp [V.insAttr, SortedN]
  | (m, w) :: r, h => by
    unfold SortedN at h ⊢
    rw [List.pairwise_cons] at h
    simp only [V.insAttr]
    split
    · rename_i hnm
      rw [List.pairwise_cons]
      refine ⟨?_, List.pairwise_cons.2 h⟩
      intro q hq
      rcases List.mem_cons.1 hq with rfl | hq
      · exact hnm
      · exact String.lt_trans hnm (h.1 q hq)
    · split
      · rename_i _ hnm
        rw [List.pairwise_cons]
        refine ⟨?_, h.2⟩
        intro q hq
        rw [hnm]; exact h.1 q hq
      · rename_i hlt hne
        have hmn : m < n := by
          have hle : m ≤ n := String.not_lt.1 hlt
          rcases String.le_total n m with h' | h'
          · exact absurd (String.le_antisymm h' hle) hne
          · exact Decidable.byContradiction (fun hc => hne (String.le_antisymm (String.not_lt.1 hc) hle))
        rw [List.pairwise_cons]
        refine ⟨?_, insAttr_sorted n v r h.2⟩
        intro q hq
        rcases insAttr_names n v r q hq with rfl | hq
        · exact hmn
        · exact h.1 q hq

theorem insAttr_perm (n : String) (v : V) : ∀ (l : List (String × V)), (∀ p ∈ l, p.1 ≠ n) →
    (V.insAttr n v l).Perm ((n, v) :: l)
  | [], _ => by simp [V.insAttr]
  | (m, w) :: r, h => by
    simp only [V.insAttr]
    split
    · exact List.Perm.refl _
    · split
      · rename_i _ hnm
        exact absurd hnm.symm (h (m, w) (by simp))
      · exact (List.Perm.cons _ (insAttr_perm n v r (fun p hp => h p (List.mem_cons_of_mem _ hp)))).trans
          (List.Perm.swap _ _ _)

def mkTupL (l : List (String × V)) : List (String × V) := l.foldr (fun p acc => V.insAttr p.1 p.2 acc) []

theorem mkTup_eq (l : List (String × V)) : V.mkTup l = .tup (mkTupL l) := rfl

theorem mkTupL_sorted : ∀ (l : List (String × V)), SortedN (mkTupL l)
  | [] => List.Pairwise.nil
  | p :: l => insAttr_sorted p.1 p.2 _ (mkTupL_sorted l)

theorem mkTupL_perm : ∀ (l : List (String × V)), (l.map (·.1)).Nodup → (mkTupL l).Perm l
  | [], _ => List.Perm.refl _
  | p :: l, h => by
    rw [List.map_cons, List.nodup_cons] at h
    have ih := mkTupL_perm l h.2
    have hne : ∀ q ∈ mkTupL l, q.1 ≠ p.1 := by
      intro q hq e
      exact h.1 (List.mem_map.2 ⟨q, ih.mem_iff.1 hq, e⟩)
    exact (insAttr_perm p.1 p.2 _ hne).trans (List.Perm.cons _ ih)

theorem mkTup_perm {l l' : List (String × V)} (hn : (l.map (·.1)).Nodup) (hp : l.Perm l') : V.mkTup l = V.mkTup l' := by
  rw [mkTup_eq, mkTup_eq]
  congr 1
  have hn' : (l'.map (·.1)).Nodup := (hp.map _).nodup_iff.1 hn
  apply List.Perm.eq_of_pairwise (le := fun p q : String × V => p.1 < q.1) _ (mkTupL_sorted l) (mkTupL_sorted l')
    ((mkTupL_perm l hn).trans (hp.trans (mkTupL_perm l' hn').symm))
  intro a b _ _ hab hba
  exact absurd hba (String.lt_asymm hab)

/-! ### representations without repeated attribute names -/
def nnAlg : RepF Bool → Bool
  | .num _ | .charT _ _ | .byteT _ _ | .empty | .true_ | .str _ _ | .bytes _ _ => true
  | .gtuple as => decide ((as.map (·.1)).Nodup) && as.all (·.2)
  | .itemT _ x => x
  | .entryT k v => k && v
  | .generic xs => xs.all id
  | .array vs _ => vs.all (fun o => o.getD true)
  | .dict m => m.all (fun e => e.all id)
  | .relation ns rows => decide (ns.Nodup) && rows.all (fun e => e.all id)
  | .union xs => xs.all id

/-- no tuple and no relation heading repeats an attribute name (a frozen map cannot) -/
def nodupNames : Rep → Bool := cata nnAlg

theorem nn_gtuple (as : List (String × Rep)) :
    nodupNames (.gtuple as) = (decide ((as.map (·.1)).Nodup) && as.all (fun p => nodupNames p.2)) := by
  simp [nodupNames, cata, nnAlg, cataA_eq, List.all_map, Function.comp_def]
theorem nn_itemT (i : Int) (x : Rep) : nodupNames (.itemT i x) = nodupNames x := rfl
theorem nn_entryT (k v : Rep) : nodupNames (.entryT k v) = (nodupNames k && nodupNames v) := rfl
theorem nn_generic (xs : List Rep) : nodupNames (.generic xs) = xs.all nodupNames := by
  simp [nodupNames, cata, nnAlg, cataL_eq, List.all_map, Function.comp_def]
theorem nn_union (xs : List Rep) : nodupNames (.union xs) = xs.all nodupNames := by
  simp [nodupNames, cata, nnAlg, cataL_eq, List.all_map, Function.comp_def]
theorem nn_array (vs : List (Option Rep)) (off : Int) :
    nodupNames (.array vs off) = vs.all (fun o => (o.map nodupNames).getD true) := by
  simp [nodupNames, cata, nnAlg, cataO_eq, List.all_map, Function.comp_def]
theorem nn_dict (m : List (List Rep)) : nodupNames (.dict m) = m.all (fun e => e.all nodupNames) := by
  simp [nodupNames, cata, nnAlg, cataLL_eq, List.all_map, Function.comp_def]
theorem nn_relation (ns : List String) (rows : List (List Rep)) :
    nodupNames (.relation ns rows) = (decide (ns.Nodup) && rows.all (fun e => e.all nodupNames)) := by
  simp [nodupNames, cata, nnAlg, cataLL_eq, List.all_map, Function.comp_def]

theorem zipNames_names_sublist {β : Type} : ∀ (ns : List String) (row : List β),
    ((zipNames ns row).map (·.1)).Sublist ns
  | [], _ => by simp [zipNames]
  | _ :: ns, [] => by simp [zipNames]
  | n :: ns, v :: vs => by
    simp only [zipNames, List.map_cons]
    exact (zipNames_names_sublist ns vs).cons₂ n

theorem nn_rowTuple {ns : List String} {row : List Rep} (hns : ns.Nodup) (hrow : row.all nodupNames = true) :
    nodupNames (Impl.rowTuple ns row) = true := by
  rw [Impl.rowTuple, nn_gtuple, Bool.and_eq_true]
  refine ⟨by simpa using (zipNames_names_sublist ns row).nodup hns, ?_⟩
  rw [List.all_eq_true]
  intro p hp
  exact List.all_eq_true.1 hrow p.2 (mem_zipNames_snd hp)

/-! ### soundness -/

/-- sets whose sorted member keys agree have members with pairwise matching keys -/
theorem exists_key_of_isort_eq {xs ys : List Rep} (h : isort K.lt (xs.map key) = isort K.lt (ys.map key))
    {x : Rep} (hx : x ∈ xs) : ∃ y ∈ ys, key x = key y := by
  have : key x ∈ isort K.lt (xs.map key) := (mem_isort _ _ _).2 (List.mem_map.2 ⟨x, hx, rfl⟩)
  rw [h] at this
  obtain ⟨y, hy, e⟩ := List.mem_map.1 ((mem_isort _ _ _).1 this)
  exact ⟨y, hy, e.symm⟩

theorem attrs_den_congr {P : Rep → Prop} (ih : ∀ x y, P x → P y → key x = key y → den x = den y) :
    ∀ (l l' : List (String × Rep)), (∀ p ∈ l, P p.2) → (∀ q ∈ l', P q.2) → attrsK l = attrsK l' →
      l.map (fun p => (p.1, den p.2)) = l'.map (fun p => (p.1, den p.2))
  | [], [], _, _, _ => rfl
  | [], _ :: _, _, _, h => by simp [attrsK] at h
  | _ :: _, [], _, _, h => by simp [attrsK] at h
  | (a, x) :: l, (b, y) :: l', hl, hl', h => by
    simp only [attrsK, List.map_cons, List.flatMap_cons, List.cons_append, List.nil_append, List.cons.injEq,
      K.name.injEq] at h
    obtain ⟨hab, hxy, hrest⟩ := h
    subst hab
    simp only [List.map_cons, List.cons.injEq, Prod.mk.injEq, true_and]
    exact ⟨ih x y (hl (a, x) (by simp)) (hl' (a, y) (by simp)) hxy,
      attrs_den_congr ih l l' (fun p hp => hl p (List.mem_cons_of_mem _ hp))
        (fun q hq => hl' q (List.mem_cons_of_mem _ hq)) (by simpa [attrsK] using hrest)⟩

theorem opts_den_congr {P : Rep → Prop} (ih : ∀ x y, P x → P y → key x = key y → den x = den y) :
    ∀ (vs ws : List (Option Rep)), (∀ x, some x ∈ vs → P x) → (∀ y, some y ∈ ws → P y) →
      vs.map (fun o => optKey (o.map key)) = ws.map (fun o => optKey (o.map key)) →
      vs.map (Option.map den) = ws.map (Option.map den)
  | [], [], _, _, _ => rfl
  | [], _ :: _, _, _, h => by simp at h
  | _ :: _, [], _, _, h => by simp at h
  | v :: vs, w :: ws, hv, hw, h => by
    simp only [List.map_cons, List.cons.injEq] at h ⊢
    refine ⟨?_, opts_den_congr ih vs ws (fun x hx => hv x (List.mem_cons_of_mem _ hx))
      (fun y hy => hw y (List.mem_cons_of_mem _ hy)) h.2⟩
    have hk : v.map key = w.map key := by
      have := h.1
      cases v <;> cases w <;> simp [optKey] at this ⊢
      exact this
    cases v with
    | none => cases w with
      | none => rfl
      | some y => simp at hk
    | some x => cases w with
      | none => simp at hk
      | some y =>
        simp only [Option.map_some, Option.some.injEq] at hk ⊢
        exact ih x y (hv x (by simp)) (hw y (by simp)) hk

end Arrai.C06
