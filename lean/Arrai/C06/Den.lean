/-
  C06 — canonical-form equality is sound for the meaning: `key a = key b → den a = den b`
  (for representations whose tuples and relation headings have no repeated attribute name).
  So when neither `a < b` nor `b < a`, the two values denote the same `V`.
-/
import Arrai.C06.Clients

namespace Arrai.C06
open Std

/-! ### `den` on each constructor -/
theorem den_gtuple (as : List (String × Rep)) : den (.gtuple as) = V.mkTup (as.map (fun p => (p.1, den p.2))) := by
  simp [den, cata, denAlg, cataA_eq]
theorem den_itemT (i : Int) (x : Rep) : den (.itemT i x) = V.mkTup [("@", .num i), ("@item", den x)] := rfl
theorem den_entryT (k v : Rep) : den (.entryT k v) = V.mkTup [("@", den k), ("@value", den v)] := rfl
theorem den_generic (xs : List Rep) : den (.generic xs) = V.mkSet (xs.map den) := by
  simp [den, cata, denAlg, cataL_eq]
theorem den_array (vs : List (Option Rep)) (off : Int) :
    den (.array vs off) = V.mkSeq "@item" off (vs.map (Option.map den)) := by
  simp [den, cata, denAlg, cataO_eq]
theorem den_dict (m : List (List Rep)) : den (.dict m) = V.mkSet ((m.map (List.map den)).flatMap entryV) := by
  simp [den, cata, denAlg, cataLL_eq]
theorem den_relation (ns : List String) (rows : List (List Rep)) :
    den (.relation ns rows) = V.mkSet (rows.map (fun row => V.mkTup (zipNames ns (row.map den)))) := by
  simp [den, cata, denAlg, cataLL_eq, Function.comp_def]
theorem den_union (bs : List Rep) : den (.union bs) = V.mkSet ((bs.map den).flatMap members) := by
  simp [den, cata, denAlg, cataL_eq]

/-! ### sets are determined by their members -/
theorem mkSet_congr {l l' : List V} (h : ∀ v, v ∈ l ↔ v ∈ l') : V.mkSet l = V.mkSet l' := by
  unfold V.mkSet
  congr 1
  apply FinSet.sorted_ext _ _ (FinSet.sorted_mk l) (FinSet.sorted_mk l')
  intro v
  rw [FinSet.mem_mk, FinSet.mem_mk]
  exact h v

/-! ### `V.mkTup` does not depend on the order of distinct attribute names -/
def SortedN (l : List (String × V)) : Prop := l.Pairwise (fun p q => p.1 < q.1)

theorem insAttr_names (n : String) (v : V) : ∀ (l : List (String × V)) (p : String × V),
    p ∈ V.insAttr n v l → p = (n, v) ∨ p ∈ l
  | [], p, h => by simp [V.insAttr] at h; exact Or.inl h
  | (m, w) :: r, p, h => by
    simp only [V.insAttr] at h
    split at h
    · rcases List.mem_cons.1 h with h | h
      · exact Or.inl h
      · exact Or.inr h
    · split at h
      · rcases List.mem_cons.1 h with h | h
        · exact Or.inl h
        · exact Or.inr (List.mem_cons_of_mem _ h)
      · rcases List.mem_cons.1 h with h | h
        · exact Or.inr (by rw [h]; simp)
        · rcases insAttr_names n v r p h with h | h
          · exact Or.inl h
          · exact Or.inr (List.mem_cons_of_mem _ h)

theorem insAttr_sorted (n : String) (v : V) : ∀ (l : List (String × V)), SortedN l → SortedN (V.insAttr n v l)
  | [], _ => by simp [V.insAttr, SortedN]
  | (m, w) :: r, h => by
    unfold SortedN at h ⊢
    rw [List.pairwise_cons] at h
    simp only [V.insAttr]
    split
    · rename_i hnm
      rw [List.pairwise_cons]
      refine ⟨?_, List.pairwise_cons.2 h⟩
      intro q hq
      rcases List.mem_cons.1 hq with rfl | hq
      · exact hnm
      · exact String.lt_trans hnm (h.1 q hq)
    · split
      · rename_i _ hnm
        rw [List.pairwise_cons]
        refine ⟨?_, h.2⟩
        intro q hq
        rw [hnm]; exact h.1 q hq
      · rename_i hlt hne
        have hmn : m < n := by
          have hle : m ≤ n := String.not_lt.1 hlt
          rcases String.le_total n m with h' | h'
          · exact absurd (String.le_antisymm h' hle) hne
          · exact Decidable.byContradiction (fun hc => hne (String.le_antisymm (String.not_lt.1 hc) hle))
        rw [List.pairwise_cons]
        refine ⟨?_, insAttr_sorted n v r h.2⟩
        intro q hq
        rcases insAttr_names n v r q hq with rfl | hq
        · exact hmn
        · exact h.1 q hq

theorem insAttr_perm (n : String) (v : V) : ∀ (l : List (String × V)), (∀ p ∈ l, p.1 ≠ n) →
    (V.insAttr n v l).Perm ((n, v) :: l)
  | [], _ => by simp [V.insAttr]
  | (m, w) :: r, h => by
    simp only [V.insAttr]
    split
    · exact List.Perm.refl _
    · split
      · rename_i _ hnm
        exact absurd hnm.symm (h (m, w) (by simp))
      · exact (List.Perm.cons _ (insAttr_perm n v r (fun p hp => h p (List.mem_cons_of_mem _ hp)))).trans
          (List.Perm.swap _ _ _)

def mkTupL (l : List (String × V)) : List (String × V) := l.foldr (fun p acc => V.insAttr p.1 p.2 acc) []

theorem mkTup_eq (l : List (String × V)) : V.mkTup l = .tup (mkTupL l) := rfl

theorem mkTupL_sorted : ∀ (l : List (String × V)), SortedN (mkTupL l)
  | [] => List.Pairwise.nil
  | p :: l => insAttr_sorted p.1 p.2 _ (mkTupL_sorted l)

theorem mkTupL_perm : ∀ (l : List (String × V)), (l.map (·.1)).Nodup → (mkTupL l).Perm l
  | [], _ => List.Perm.refl _
  | p :: l, h => by
    rw [List.map_cons, List.nodup_cons] at h
    have ih := mkTupL_perm l h.2
    have hne : ∀ q ∈ mkTupL l, q.1 ≠ p.1 := by
      intro q hq e
      exact h.1 (List.mem_map.2 ⟨q, ih.mem_iff.1 hq, e⟩)
    exact (insAttr_perm p.1 p.2 _ hne).trans (List.Perm.cons _ ih)

theorem mkTup_perm {l l' : List (String × V)} (hn : (l.map (·.1)).Nodup) (hp : l.Perm l') : V.mkTup l = V.mkTup l' := by
  rw [mkTup_eq, mkTup_eq]
  congr 1
  have hn' : (l'.map (·.1)).Nodup := (hp.map _).nodup_iff.1 hn
  apply List.Perm.eq_of_pairwise (le := fun p q : String × V => p.1 < q.1) _ (mkTupL_sorted l) (mkTupL_sorted l')
    ((mkTupL_perm l hn).trans (hp.trans (mkTupL_perm l' hn').symm))
  intro a b _ _ hab hba
  exact absurd hba (String.lt_asymm hab)

/-! ### representations without repeated attribute names -/
def nnAlg : RepF Bool → Bool
  | .num _ | .charT _ _ | .byteT _ _ | .empty | .true_ | .str _ _ | .bytes _ _ => true
  | .gtuple as => decide ((as.map (·.1)).Nodup) && as.all (·.2)
  | .itemT _ x => x
  | .entryT k v => k && v
  | .generic xs => xs.all id
  | .array vs _ => vs.all (fun o => o.getD true)
  | .dict m => m.all (fun e => e.all id)
  | .relation ns rows => decide (ns.Nodup) && rows.all (fun e => e.all id)
  | .union xs => xs.all id

/-- no tuple and no relation heading repeats an attribute name (a frozen map cannot) -/
def nodupNames : Rep → Bool := cata nnAlg

theorem nn_gtuple (as : List (String × Rep)) :
    nodupNames (.gtuple as) = (decide ((as.map (·.1)).Nodup) && as.all (fun p => nodupNames p.2)) := by
  simp [nodupNames, cata, nnAlg, cataA_eq, List.all_map, Function.comp_def]
theorem nn_itemT (i : Int) (x : Rep) : nodupNames (.itemT i x) = nodupNames x := rfl
theorem nn_entryT (k v : Rep) : nodupNames (.entryT k v) = (nodupNames k && nodupNames v) := rfl
theorem nn_generic (xs : List Rep) : nodupNames (.generic xs) = xs.all nodupNames := by
  simp [nodupNames, cata, nnAlg, cataL_eq, List.all_map, Function.comp_def]
theorem nn_union (xs : List Rep) : nodupNames (.union xs) = xs.all nodupNames := by
  simp [nodupNames, cata, nnAlg, cataL_eq, List.all_map, Function.comp_def]
theorem nn_array (vs : List (Option Rep)) (off : Int) :
    nodupNames (.array vs off) = vs.all (fun o => (o.map nodupNames).getD true) := by
  simp [nodupNames, cata, nnAlg, cataO_eq, List.all_map, Function.comp_def]
theorem nn_dict (m : List (List Rep)) : nodupNames (.dict m) = m.all (fun e => e.all nodupNames) := by
  simp [nodupNames, cata, nnAlg, cataLL_eq, List.all_map, Function.comp_def]
theorem nn_relation (ns : List String) (rows : List (List Rep)) :
    nodupNames (.relation ns rows) = (decide (ns.Nodup) && rows.all (fun e => e.all nodupNames)) := by
  simp [nodupNames, cata, nnAlg, cataLL_eq, List.all_map, Function.comp_def]

theorem zipNames_names_sublist {β : Type} : ∀ (ns : List String) (row : List β),
    ((zipNames ns row).map (·.1)).Sublist ns
  | [], _ => by simp [zipNames]
  | _ :: ns, [] => by simp [zipNames]
  | n :: ns, v :: vs => by
    simp only [zipNames, List.map_cons]
    exact (zipNames_names_sublist ns vs).cons₂ n

theorem nn_rowTuple {ns : List String} {row : List Rep} (hns : ns.Nodup) (hrow : row.all nodupNames = true) :
    nodupNames (Impl.rowTuple ns row) = true := by
  rw [Impl.rowTuple, nn_gtuple, Bool.and_eq_true]
  refine ⟨by simpa using (zipNames_names_sublist ns row).nodup hns, ?_⟩
  rw [List.all_eq_true]
  intro p hp
  exact List.all_eq_true.1 hrow p.2 (mem_zipNames_snd hp)

/-! ### soundness -/

/-- sets whose sorted member keys agree have members with pairwise matching keys -/
theorem exists_key_of_isort_eq {xs ys : List Rep} (h : isort K.lt (xs.map key) = isort K.lt (ys.map key))
    {x : Rep} (hx : x ∈ xs) : ∃ y ∈ ys, key x = key y := by
  have : key x ∈ isort K.lt (xs.map key) := (mem_isort _ _ _).2 (List.mem_map.2 ⟨x, hx, rfl⟩)
  rw [h] at this
  obtain ⟨y, hy, e⟩ := List.mem_map.1 ((mem_isort _ _ _).1 this)
  exact ⟨y, hy, e.symm⟩

theorem attrs_den_congr {P Q : Rep → Prop} (ih : ∀ x y, P x → Q y → key x = key y → den x = den y) :
    ∀ (l l' : List (String × Rep)), (∀ p ∈ l, P p.2) → (∀ q ∈ l', Q q.2) → attrsK l = attrsK l' →
      l.map (fun p => (p.1, den p.2)) = l'.map (fun p => (p.1, den p.2))
  | [], [], _, _, _ => rfl
  | [], _ :: _, _, _, h => by simp [attrsK] at h
  | _ :: _, [], _, _, h => by simp [attrsK] at h
  | (a, x) :: l, (b, y) :: l', hl, hl', h => by
    simp only [attrsK, List.map_cons, List.flatMap_cons, List.cons_append, List.nil_append, List.cons.injEq,
      K.name.injEq] at h
    obtain ⟨hab, hxy, hrest⟩ := h
    subst hab
    simp only [List.map_cons, List.cons.injEq, Prod.mk.injEq, true_and]
    exact ⟨ih x y (hl (a, x) (by simp)) (hl' (a, y) (by simp)) hxy,
      attrs_den_congr ih l l' (fun p hp => hl p (List.mem_cons_of_mem _ hp))
        (fun q hq => hl' q (List.mem_cons_of_mem _ hq)) (by simpa [attrsK] using hrest)⟩

theorem opts_den_congr {P Q : Rep → Prop} (ih : ∀ x y, P x → Q y → key x = key y → den x = den y) :
    ∀ (vs ws : List (Option Rep)), (∀ x, some x ∈ vs → P x) → (∀ y, some y ∈ ws → Q y) →
      vs.map (fun o => optKey (o.map key)) = ws.map (fun o => optKey (o.map key)) →
      vs.map (Option.map den) = ws.map (Option.map den)
  | [], [], _, _, _ => rfl
  | [], _ :: _, _, _, h => by simp at h
  | _ :: _, [], _, _, h => by simp at h
  | v :: vs, w :: ws, hv, hw, h => by
    simp only [List.map_cons, List.cons.injEq] at h ⊢
    refine ⟨?_, opts_den_congr ih vs ws (fun x hx => hv x (List.mem_cons_of_mem _ hx))
      (fun y hy => hw y (List.mem_cons_of_mem _ hy)) h.2⟩
    have hk : v.map key = w.map key := by
      have := h.1
      cases v <;> cases w <;> simp [optKey] at this ⊢
      exact this
    cases v with
    | none => cases w with
      | none => rfl
      | some y => simp at hk
    | some x => cases w with
      | none => simp at hk
      | some y =>
        simp only [Option.map_some, Option.some.injEq] at hk ⊢
        exact ih x y (hv x (by simp)) (hw y (by simp)) hk

theorem isort_eq_symm_mem {xs ys : List Rep} (h : isort K.lt (xs.map key) = isort K.lt (ys.map key))
    {y : Rep} (hy : y ∈ ys) : ∃ x ∈ xs, key x = key y := by
  obtain ⟨x, hx, e⟩ := exists_key_of_isort_eq h.symm hy
  exact ⟨x, hx, e.symm⟩

theorem mapInt_inj : ∀ {s t : List Int}, s.map K.int = t.map K.int → s = t
  | [], [], _ => rfl
  | [], _ :: _, h => by simp at h
  | _ :: _, [], h => by simp at h
  | a :: as, b :: bs, h => by
    simp only [List.map_cons, List.cons.injEq, K.int.injEq] at h
    rw [h.1, mapInt_inj h.2]

/-- members of two lists whose sorted keys agree have the same meanings -/
theorem den_mem_congr {xs ys : List Rep} {P Q : Rep → Prop}
    (ih : ∀ x y, P x → Q y → key x = key y → den x = den y)
    (hx : ∀ x ∈ xs, P x) (hy : ∀ y ∈ ys, Q y)
    (h : isort K.lt (xs.map key) = isort K.lt (ys.map key)) (v : V) : v ∈ xs.map den ↔ v ∈ ys.map den := by
  constructor
  · intro hv
    obtain ⟨x, hxm, rfl⟩ := List.mem_map.1 hv
    obtain ⟨y, hym, e⟩ := exists_key_of_isort_eq h hxm
    exact List.mem_map.2 ⟨y, hym, (ih x y (hx x hxm) (hy y hym) e).symm⟩
  · intro hv
    obtain ⟨y, hym, rfl⟩ := List.mem_map.1 hv
    obtain ⟨x, hxm, e⟩ := isort_eq_symm_mem h hym
    exact List.mem_map.2 ⟨x, hxm, ih x y (hx x hxm) (hy y hym) e⟩

theorem key_sound : ∀ (a : Rep), nodupNames a = true → ∀ b, nodupNames b = true → key a = key b → den a = den b := by
  apply depth_induction
  intro a ih na b nb hk
  have hkind : kind a = kind b := by rw [← kindOf_key a, ← kindOf_key b, hk]
  have hc := kind_eq_ctor hkind
  -- the induction hypothesis in the shape the list lemmas want
  have IH : ∀ x y, (depth x < depth a ∧ nodupNames x = true) → nodupNames y = true → key x = key y → den x = den y :=
    fun x y hx hy e => ih x hx.1 hx.2 y hy e
  cases a with
  | num x =>
    cases b with
    | num y => simp only [key_num, K.node.injEq, List.cons.injEq, K.int.injEq] at hk; rw [hk.2.1]
    | _ => simp [ctorId, Old.ctorId] at hc
  | gtuple as =>
    cases b with
    | gtuple bs =>
      rw [nn_gtuple, Bool.and_eq_true] at na nb
      have has : ∀ p ∈ as, depth p.2 < depth (Rep.gtuple as) ∧ nodupNames p.2 = true := fun p hp =>
        ⟨depth_attr_lt hp, List.all_eq_true.1 na.2 p hp⟩
      have hbs : ∀ p ∈ bs, nodupNames p.2 = true := fun p hp => List.all_eq_true.1 nb.2 p hp
      rw [den_gtuple, den_gtuple]
      by_cases hneg : kind (.gtuple as) < 0
      · obtain ⟨x, hx, hxpos, _⟩ := kind_gtuple_neg hneg
        obtain ⟨y, hy, hypos, _⟩ := kind_gtuple_neg (hkind ▸ hneg)
        rw [key_gtuple_neg hx hxpos, key_gtuple_neg hy hypos] at hk
        simp only [K.node.injEq, List.cons.injEq, K.rev.injEq] at hk
        have e1 := negInner_some hx
        have e2 := negInner_some hy
        subst e1 e2
        simp only [List.map_cons, List.map_nil]
        rw [IH x y (has (negateTag, x) (by simp)) (hbs (negateTag, y) (by simp)) hk.2.1]
      · rw [key_gtuple_plain hneg, key_gtuple_plain (hkind ▸ hneg)] at hk
        simp only [K.node.injEq, List.cons.injEq] at hk
        have hs := attrs_den_congr IH (isort byName as) (isort byName bs)
          (fun p hp => has p ((mem_isort _ _ p).1 hp)) (fun p hp => hbs p ((mem_isort _ _ p).1 hp)) hk.2
        have hna : ((as.map (fun p => (p.1, den p.2))).map (·.1)).Nodup := by
          simpa [List.map_map, Function.comp_def] using na.1
        have hnb : ((bs.map (fun p => (p.1, den p.2))).map (·.1)).Nodup := by
          simpa [List.map_map, Function.comp_def] using nb.1
        rw [mkTup_perm hna (((isort_perm byName as).map _).symm),
          mkTup_perm hnb (((isort_perm byName bs).map _).symm), hs]
    | _ => simp [ctorId, Old.ctorId] at hc
  | charT i c =>
    cases b with
    | charT j d =>
      simp only [key_charT, K.node.injEq, List.cons.injEq, K.int.injEq] at hk
      rw [hk.2.1, hk.2.2.1]
    | _ => simp [ctorId, Old.ctorId] at hc
  | byteT i c =>
    cases b with
    | byteT j d =>
      simp only [key_byteT, K.node.injEq, List.cons.injEq, K.int.injEq] at hk
      rw [hk.2.1, hk.2.2.1]
    | _ => simp [ctorId, Old.ctorId] at hc
  | itemT i x =>
    cases b with
    | itemT j y =>
      simp only [key_itemT, K.node.injEq, List.cons.injEq, K.int.injEq] at hk
      rw [den_itemT, den_itemT, hk.2.1, IH x y ⟨by rw [depth_itemT]; omega, na⟩ nb hk.2.2.1]
    | _ => simp [ctorId, Old.ctorId] at hc
  | entryT k v =>
    cases b with
    | entryT k' v' =>
      simp only [key_entryT, K.node.injEq, List.cons.injEq] at hk
      rw [nn_entryT, Bool.and_eq_true] at na nb
      rw [den_entryT, den_entryT, IH k k' ⟨by rw [depth_entryT]; omega, na.1⟩ nb.1 hk.2.1,
        IH v v' ⟨by rw [depth_entryT]; omega, na.2⟩ nb.2 hk.2.2.1]
    | _ => simp [ctorId, Old.ctorId] at hc
  | empty =>
    cases b with
    | empty => rfl
    | _ => simp [ctorId, Old.ctorId] at hc
  | true_ =>
    cases b with
    | true_ => rfl
    | _ => simp [ctorId, Old.ctorId] at hc
  | generic xs =>
    cases b with
    | generic ys =>
      rw [key_generic, key_generic] at hk
      simp only [K.node.injEq, List.cons.injEq] at hk
      rw [nn_generic] at na nb
      rw [den_generic, den_generic]
      exact mkSet_congr (den_mem_congr IH
        (fun x hx => ⟨depth_mem_generic hx, List.all_eq_true.1 na x hx⟩)
        (fun y hy => List.all_eq_true.1 nb y hy) hk.2)
    | _ => simp [ctorId, Old.ctorId] at hc
  | str s off =>
    cases b with
    | str t off' =>
      simp only [key_str, K.node.injEq, List.cons.injEq, K.int.injEq] at hk
      rw [hk.2.1, mapInt_inj hk.2.2]
    | _ => simp [ctorId, Old.ctorId] at hc
  | bytes s off =>
    cases b with
    | bytes t off' =>
      simp only [key_bytes, K.node.injEq, List.cons.injEq, K.int.injEq] at hk
      rw [hk.2.1, mapInt_inj hk.2.2]
    | _ => simp [ctorId, Old.ctorId] at hc
  | array vs off =>
    cases b with
    | array ws off' =>
      simp only [key_array, K.node.injEq, List.cons.injEq, K.int.injEq] at hk
      rw [nn_array] at na nb
      rw [den_array, den_array, hk.2.1, opts_den_congr IH vs ws
        (fun x hx => ⟨depth_mem_array hx, by simpa using List.all_eq_true.1 na (some x) hx⟩)
        (fun y hy => by simpa using List.all_eq_true.1 nb (some y) hy) hk.2.2]
    | _ => simp [ctorId, Old.ctorId] at hc
  | dict m =>
    cases b with
    | dict m' =>
      rw [key_dict, key_dict] at hk
      simp only [K.node.injEq, List.cons.injEq] at hk
      rw [nn_dict] at na nb
      rw [den_dict, den_dict]
      apply mkSet_congr
      -- every entry of one dictionary has an entry with the same key in the other
      have hentry : ∀ (m₁ m₂ : List (List Rep)),
          (isort (fun e f => K.lt (entryHead e) (entryHead f)) (m₁.map (List.map key))).map entryKey =
          (isort (fun e f => K.lt (entryHead e) (entryHead f)) (m₂.map (List.map key))).map entryKey →
          ∀ e ∈ m₁, ∃ e' ∈ m₂, entryKey (e.map key) = entryKey (e'.map key) := by
        intro m₁ m₂ h e he
        have h1 : entryKey (e.map key) ∈ (isort (fun e f => K.lt (entryHead e) (entryHead f)) (m₁.map (List.map key))).map entryKey :=
          List.mem_map.2 ⟨e.map key, (mem_isort _ _ _).2 (List.mem_map.2 ⟨e, he, rfl⟩), rfl⟩
        rw [h] at h1
        obtain ⟨ek, hek, e1⟩ := List.mem_map.1 h1
        obtain ⟨e', he', rfl⟩ := List.mem_map.1 ((mem_isort _ _ _).1 hek)
        exact ⟨e', he', e1.symm⟩
      -- one direction, stated for both orders of the two dictionaries
      have hdir : ∀ (m₁ m₂ : List (List Rep)),
          (∀ e ∈ m₁, ∃ e' ∈ m₂, entryKey (e.map key) = entryKey (e'.map key)) →
          (∀ e ∈ m₁, ∀ e' ∈ m₂, entryKey (e.map key) = entryKey (e'.map key) →
            ∀ w ∈ e.tail, ∃ w' ∈ e'.tail, den (Impl.entryHeadR e) = den (Impl.entryHeadR e') ∧ den w = den w') →
          ∀ v, v ∈ (m₁.map (List.map den)).flatMap entryV → v ∈ (m₂.map (List.map den)).flatMap entryV := by
        intro m₁ m₂ hex hval v hv
        obtain ⟨ed, hed, hv⟩ := List.mem_flatMap.1 hv
        obtain ⟨e, he, rfl⟩ := List.mem_map.1 hed
        obtain ⟨e', he', hkk⟩ := hex e he
        cases e with
        | nil => simp [entryV] at hv
        | cons k ws =>
          simp only [List.map_cons, entryV, List.mem_map] at hv
          obtain ⟨dw, ⟨w, hw, rfl⟩, rfl⟩ := hv
          obtain ⟨w', hw', hkd, hwd⟩ := hval (k :: ws) he e' he' hkk w (by simpa using hw)
          refine List.mem_flatMap.2 ⟨e'.map den, List.mem_map.2 ⟨e', he', rfl⟩, ?_⟩
          cases e' with
          | nil => simp at hw'
          | cons k' ws' =>
            simp only [List.map_cons, entryV, List.mem_map]
            refine ⟨den w', ⟨w', by simpa using hw', rfl⟩, ?_⟩
            simp only [Impl.entryHeadR] at hkd
            rw [hkd, hwd]
      intro v
      constructor
      · apply hdir m m' (hentry m m' hk.2)
        intro e he e' he' hkk w hw
        simp only [entryKey, K.node.injEq, List.cons.injEq, entryHead_map, tail_map'] at hkk
        have hhead : den (Impl.entryHeadR e) = den (Impl.entryHeadR e') := by
          cases e with
          | nil => simp at hw
          | cons k ws =>
            have hke' : nodupNames (Impl.entryHeadR e') = true := by
              cases e' with
              | nil => rfl
              | cons k' ws' => exact List.all_eq_true.1 (List.all_eq_true.1 nb _ he') k' (by simp)
            exact IH k (Impl.entryHeadR e') ⟨depth_mem_dict he (by simp), List.all_eq_true.1 (List.all_eq_true.1 na _ he) k (by simp)⟩
              hke' hkk.1
        obtain ⟨w', hw', e1⟩ := exists_key_of_isort_eq hkk.2.1 hw
        exact ⟨w', hw', hhead, IH w w'
          ⟨depth_mem_dict he (List.mem_of_mem_tail hw), List.all_eq_true.1 (List.all_eq_true.1 na _ he) w (List.mem_of_mem_tail hw)⟩
          (List.all_eq_true.1 (List.all_eq_true.1 nb _ he') w' (List.mem_of_mem_tail hw')) e1⟩
      · apply hdir m' m (hentry m' m hk.2.symm)
        intro e' he' e he hkk w' hw'
        simp only [entryKey, K.node.injEq, List.cons.injEq, entryHead_map, tail_map'] at hkk
        have hhead : den (Impl.entryHeadR e') = den (Impl.entryHeadR e) := by
          cases e with
          | nil =>
            -- the other entry has no values either: its sorted values are empty
            have : isort K.lt (e'.tail.map key) = [] := by simpa [isort] using hkk.2.1
            have hl : e'.tail = [] := by
              have hlen := congrArg List.length this
              rw [length_isort, List.length_map] at hlen
              exact List.eq_nil_of_length_eq_zero hlen
            rw [hl] at hw'; simp at hw'
          | cons k ws =>
            have hke' : nodupNames (Impl.entryHeadR e') = true := by
              cases e' with
              | nil => rfl
              | cons k' ws' => exact List.all_eq_true.1 (List.all_eq_true.1 nb _ he') k' (by simp)
            exact (IH k (Impl.entryHeadR e') ⟨depth_mem_dict he (by simp), List.all_eq_true.1 (List.all_eq_true.1 na _ he) k (by simp)⟩
              hke' hkk.1.symm).symm
        obtain ⟨w, hw, e1⟩ := isort_eq_symm_mem hkk.2.1.symm hw'
        exact ⟨w, hw, hhead, (IH w w'
          ⟨depth_mem_dict he (List.mem_of_mem_tail hw), List.all_eq_true.1 (List.all_eq_true.1 na _ he) w (List.mem_of_mem_tail hw)⟩
          (List.all_eq_true.1 (List.all_eq_true.1 nb _ he') w' (List.mem_of_mem_tail hw')) e1).symm⟩
    | _ => simp [ctorId, Old.ctorId] at hc
  | relation ns rows =>
    cases b with
    | relation ns' rows' =>
      rw [key_relation, key_relation] at hk
      simp only [K.node.injEq, List.cons.injEq] at hk
      rw [nn_relation, Bool.and_eq_true] at na nb
      have hns : ns.Nodup := by simpa using na.1
      have hns' : ns'.Nodup := by simpa using nb.1
      have hrk : isort K.lt ((rows.map (Impl.rowTuple ns)).map key) = isort K.lt ((rows'.map (Impl.rowTuple ns')).map key) := by
        simpa [key_rowTuple, Function.comp_def] using hk.2.2.2.2.1
      have hden : ∀ (ns : List String) (rows : List (List Rep)),
          rows.map (fun row => V.mkTup (zipNames ns (row.map den))) = (rows.map (Impl.rowTuple ns)).map den := by
        intro ns rows
        simp [Impl.rowTuple, den_gtuple, zipNames_map, Function.comp_def]
      rw [den_relation, den_relation, hden, hden]
      exact mkSet_congr (den_mem_congr IH
        (fun t ht => by
          obtain ⟨row, hrow, rfl⟩ := List.mem_map.1 ht
          exact ⟨depth_rowTuple_lt hrow, nn_rowTuple hns (List.all_eq_true.1 na.2 row hrow)⟩)
        (fun t ht => by
          obtain ⟨row, hrow, rfl⟩ := List.mem_map.1 ht
          exact nn_rowTuple hns' (List.all_eq_true.1 nb.2 row hrow)) hrk)
    | _ => simp [ctorId, Old.ctorId] at hc
  | union xs =>
    cases b with
    | union ys =>
      rw [key_union, key_union] at hk
      simp only [K.node.injEq, List.cons.injEq] at hk
      rw [nn_union] at na nb
      rw [den_union, den_union]
      have hm := den_mem_congr IH
        (fun x hx => ⟨depth_mem_union hx, List.all_eq_true.1 na x hx⟩)
        (fun y hy => List.all_eq_true.1 nb y hy) hk.2
      apply mkSet_congr
      intro v
      simp only [List.mem_flatMap]
      constructor
      · rintro ⟨d, hd, hv⟩; exact ⟨d, (hm d).1 hd, hv⟩
      · rintro ⟨d, hd, hv⟩; exact ⟨d, (hm d).2 hd, hv⟩
    | _ => simp [ctorId, Old.ctorId] at hc

end Arrai.C06
