/-
  C06 — hand-written expectations about regenerated facts (Arrai.Facts.Generated):
  the kind numbers (`registerKind` calls in /repo/rel) and the derivation of the comparison
  operators from `Less`/`Equal` (table `compareOps` in /repo/syntax/compile.go).
  The model (Arrai/C06/Model.lean) is written against these tables; `Proofs/C06.lean` proves
  `Generated.kinds = Expected.kinds` and `Generated.c06_compareOps = Expected.compareOps`.
-/
namespace Arrai.C06.Expected

def kinds : List (String × Int) := [
  ("arrayItemTupleKind", 302),
  ("arrayKind", 208),
  ("bytesByteTupleKind", 304),
  ("bytesKind", 207),
  ("closureKind", 205),
  ("dictKind", 209),
  ("dictValueTupleKind", 303),
  ("eclosureKind", 206),
  ("emptySetKind", 198),
  ("genericSetKind", 200),
  ("genericTupleKind", 300),
  ("nativeFunctionKind", 203),
  ("numberKind", 100),
  ("relationKind", 211),
  ("stringCharTupleKind", 301),
  ("stringKind", 204),
  ("trueSetKind", 199),
  ("unionSetKind", 210)
]

/-- operator ↦ the value its function returns, as written in compareOps -/
def compareOps : List (String × String) := [
  ("!=", "!a.Equal(b)"),
  ("<", "a.Less(b)"),
  ("<=", "!b.Less(a)"),
  ("=", "a.Equal(b)"),
  (">", "b.Less(a)"),
  (">=", "!a.Less(b)")
]

/-- kind number by name (0 when the name is unknown — `Proofs/C06.kind_constants` shows it is not) -/
def kindOf (name : String) : Int := (kinds.lookup name).getD 0

end Arrai.C06.Expected
