/-
  C06 — "`<` is a strict total order consistent with `=`, and sorting follows it".

  `Rep`  : what the Go evaluator holds — one constructor per Go type implementing `rel.Value` in the
           data fragment.  Every frozen set / map / Go map is a list whose order *is* the
           enumeration order (arbitrary; fixed per process by the hash seeds).
  `den`  : the meaning of a representation in `Arrai.V`.
  `Impl` : transliteration of the `Less` methods of /repo/rel (AS REPAIRED by the `fix:` commits of
           this property), `Kind()`, the operator table `compareOps`, `OrderBy`,
           `OrderedValueEnumerator`, `Rank`, `NewMaxExpr`/`NewMinExpr`, and of `SetBuilder` /
           `NewTuple` / `Negate` (how literals become representations).
  `Old`  : the same `Less` rules before the repairs (witnesses of the defects).

  Recursion.  Go's `a.Less(b)` dispatches dynamically and recurses into members of *both*
  operands (and sorts the members of each operand with `Less` itself).  The transliteration
  is therefore written with open recursion: `lessStep eqv rec a b` is one `Less` method body with
  every nested `x.Less(y)` replaced by `rec x y` (and `x.Equal(y)` by `eqv x y`); `lessN n` ties
  the knot `n` times and `less a b` supplies the nesting depth of the operands as `n`
  (`Proofs/C06.less_fuel_stable`: any larger `n` gives the same answer).

  `Equal`.  The anchored code of C06 calls `Equal` in `Dict.Less`, `DictEntryTuple.Less` and `Rank`.
  It is modelled as equality of canonical forms (`key`, below) — see `props_c06.py`, trusted base.

  Core-only (linked into the driver executable).
-/
import Arrai.Core.Lit
import Arrai.C06.Expected

namespace Arrai.C06

/-! ## Representations -/

inductive Rep where
  | num (n : Int)                                   -- Number
  | gtuple (attrs : List (String × Rep))            -- *GenericTuple (frozen map: enumeration order)
  | charT (i : Int) (ch : Int)                      -- StringCharTuple
  | byteT (i : Int) (b : Int)                       -- BytesByteTuple
  | itemT (i : Int) (item : Rep)                    -- ArrayItemTuple
  | entryT (k v : Rep)                              -- DictEntryTuple
  | empty                                           -- EmptySet
  | true_                                           -- TrueSet
  | generic (xs : List Rep)                         -- GenericSet: members in enumeration order
  | str (s : List Int) (off : Int)                  -- String: runes, a negative rune is a hole
  | bytes (b : List Int) (off : Int)                -- Bytes
  | array (vs : List (Option Rep)) (off : Int)      -- Array: `none` is a hole (nil)
  | dict (m : List (List Rep))                      -- Dict: entries `key :: values` (one value, or multipleValues)
  | relation (attrs : List String) (rows : List (List Rep))   -- Relation: column names, positional rows
  | union (bs : List Rep)                           -- UnionSet: the bucket subsets
  deriving Inhabited

/-- one layer of `Rep` with `β` at the recursive positions -/
inductive RepF (β : Type) where
  | num (n : Int)
  | gtuple (attrs : List (String × β))
  | charT (i : Int) (ch : Int)
  | byteT (i : Int) (b : Int)
  | itemT (i : Int) (item : β)
  | entryT (k v : β)
  | empty
  | true_
  | generic (xs : List β)
  | str (s : List Int) (off : Int)
  | bytes (b : List Int) (off : Int)
  | array (vs : List (Option β)) (off : Int)
  | dict (m : List (List β))
  | relation (attrs : List String) (rows : List (List β))
  | union (bs : List β)

/-! ### the one structural recursion over `Rep`: a fold -/
section Cata
variable {β : Type} (alg : RepF β → β)

mutual
def cata : Rep → β
  | .num n => alg (.num n)
  | .gtuple as => alg (.gtuple (cataA as))
  | .charT i c => alg (.charT i c)
  | .byteT i b => alg (.byteT i b)
  | .itemT i x => alg (.itemT i (cata x))
  | .entryT k v => alg (.entryT (cata k) (cata v))
  | .empty => alg .empty
  | .true_ => alg .true_
  | .generic xs => alg (.generic (cataL xs))
  | .str s off => alg (.str s off)
  | .bytes b off => alg (.bytes b off)
  | .array vs off => alg (.array (cataO vs) off)
  | .dict m => alg (.dict (cataLL m))
  | .relation ns rows => alg (.relation ns (cataLL rows))
  | .union bs => alg (.union (cataL bs))
def cataL : List Rep → List β
  | [] => []
  | x :: xs => cata x :: cataL xs
def cataA : List (String × Rep) → List (String × β)
  | [] => []
  | (n, x) :: r => (n, cata x) :: cataA r
def cataO : List (Option Rep) → List (Option β)
  | [] => []
  | none :: r => none :: cataO r
  | some x :: r => some (cata x) :: cataO r
def cataLL : List (List Rep) → List (List β)
  | [] => []
  | l :: r => cataL l :: cataLL r
end
end Cata

/-! ## Sorting: insertion sort as the model of `sort.Slice` / `sort.Sort` / `frozen`'s ordered ranges.
`Proofs/C06.sort_unique`: for a strict total order on distinct keys every correct sort returns this list. -/

def insertBy {α : Type} (lt : α → α → Bool) (x : α) : List α → List α
  | [] => [x]
  | y :: ys => if lt x y then x :: y :: ys else y :: insertBy lt x ys

def isort {α : Type} (lt : α → α → Bool) : List α → List α
  | [] => []
  | x :: xs => insertBy lt x (isort lt xs)

def strLt (a b : String) : Bool := compare a b == .lt

/-! ## Kind numbers (`registerKind`), tied to the regenerated table by `Proofs/C06.kind_constants` -/
def kNumber : Int := 100
def kEmpty : Int := 198
def kTrue : Int := 199
def kGenericSet : Int := 200
def kString : Int := 204
def kBytes : Int := 207
def kArray : Int := 208
def kDict : Int := 209
def kUnion : Int := 210
def kRelation : Int := 211
def kGenericTuple : Int := 300
def kCharT : Int := 301
def kItemT : Int := 302
def kEntryT : Int := 303
def kByteT : Int := 304

def negateTag : String := "@neg"

/-- `t.Count() == 1` and `t.Get(negateTag)` -/
def negInner {β : Type} : List (String × β) → Option β
  | [(n, x)] => if n = negateTag then some x else none
  | _ => none

/-- `Kind()` of every type; `GenericTuple.Kind` (repaired): a wrapper `(@neg: x)` has kind `-x.Kind()`
unless `x` is itself a wrapper -/
def negKind : Option Int → Int
  | some k => if k > 0 then -k else kGenericTuple
  | none => kGenericTuple

def kindAlg : RepF Int → Int
  | .num _ => kNumber
  | .gtuple as => negKind (negInner as)
  | .charT _ _ => kCharT
  | .byteT _ _ => kByteT
  | .itemT _ _ => kItemT
  | .entryT _ _ => kEntryT
  | .empty => kEmpty
  | .true_ => kTrue
  | .generic _ => kGenericSet
  | .str _ _ => kString
  | .bytes _ _ => kBytes
  | .array _ _ => kArray
  | .dict _ => kDict
  | .relation _ _ => kRelation
  | .union _ => kUnion

def kind : Rep → Int := cata kindAlg

/-! ## Nesting depth (the fuel of `less`) -/
def maxL : List Nat → Nat
  | [] => 0
  | x :: xs => max x (maxL xs)

def optDepth : Option Nat → Nat
  | none => 0
  | some d => d

def depthAlg : RepF Nat → Nat
  | .num _ | .charT _ _ | .byteT _ _ | .empty | .true_ | .str _ _ | .bytes _ _ => 0
  | .gtuple as => 1 + maxL (as.map (·.2))
  | .itemT _ d => 1 + d
  | .entryT a b => 1 + max a b
  | .generic ds => 1 + maxL ds
  | .array vs _ => 1 + maxL (vs.map optDepth)
  | .dict m => 1 + maxL (m.map maxL)
  | .relation _ rows => 2 + maxL (rows.map maxL)     -- a row is compared as a tuple: one more level
  | .union ds => 1 + maxL ds

def depth : Rep → Nat := cata depthAlg

/-- `names[i] ↦ row[i]` -/
def zipNames {β : Type} : List String → List β → List (String × β)
  | n :: ns, v :: vs => (n, v) :: zipNames ns vs
  | _, _ => []

/-! ## Meaning -/
def members : V → List V
  | .set l => l
  | _ => []

def runeV (c : Int) : Option V := if c < 0 then none else some (.num c)

def entryV : List V → List V
  | k :: vs => vs.map (fun v => V.mkTup [("@", k), ("@value", v)])
  | [] => []

def denAlg : RepF V → V
  | .num n => .num n
  | .gtuple as => V.mkTup as
  | .charT i c => V.mkTup [("@", .num i), ("@char", .num c)]
  | .byteT i b => V.mkTup [("@", .num i), ("@byte", .num b)]
  | .itemT i x => V.mkTup [("@", .num i), ("@item", x)]
  | .entryT k v => V.mkTup [("@", k), ("@value", v)]
  | .empty => V.none
  | .true_ => V.tt
  | .generic xs => V.mkSet xs
  | .str s off => V.mkSeq "@char" off (s.map runeV)
  | .bytes b off => V.mkSeq "@byte" off (b.map (fun c => some (.num c)))
  | .array vs off => V.mkSeq "@item" off vs
  | .dict m => V.mkSet (m.flatMap entryV)
  | .relation ns rows => V.mkSet (rows.map (fun row => V.mkTup (zipNames ns row)))
  | .union bs => V.mkSet (bs.flatMap members)

def den : Rep → V := cata denAlg

/-! ## Canonical order keys

`K` is a plain tree order: integers, names, lists compared lexicographically (a proper prefix is
smaller) and `rev k`, which reverses the order below it (the `(@neg: x)` wrappers).  `key a` lays
out a value exactly as the `Less` methods look at it: kind first, then the content in the order
the method compares it, members sorted.  `Lemmas.lean` proves that `K.cmp` is a linear order and
that `less a b ↔ key a < key b`. -/

inductive K where
  | int (n : Int)
  | name (s : String)
  | node (l : List K)
  | rev (k : K)
  deriving Inhabited

namespace K
mutual
def cmp : K → K → Ordering
  | .int a, .int b => compare a b
  | .int _, .name _ => .lt
  | .int _, .node _ => .lt
  | .int _, .rev _ => .lt
  | .name _, .int _ => .gt
  | .name a, .name b => compare a b
  | .name _, .node _ => .lt
  | .name _, .rev _ => .lt
  | .node _, .int _ => .gt
  | .node _, .name _ => .gt
  | .node a, .node b => cmpList a b
  | .node _, .rev _ => .lt
  | .rev _, .int _ => .gt
  | .rev _, .name _ => .gt
  | .rev _, .node _ => .gt
  | .rev a, .rev b => (cmp a b).swap
def cmpList : List K → List K → Ordering
  | [], [] => .eq
  | [], _ :: _ => .lt
  | _ :: _, [] => .gt
  | a :: as, b :: bs => (cmp a b).then (cmpList as bs)
end

def lt (a b : K) : Bool := cmp a b == .lt
def beq (a b : K) : Bool := cmp a b == .eq

/-- the kind number at the head of a key -/
def kindOf : K → Int
  | .node (.int k :: _) => k
  | _ => 0
end K

def optKey : Option K → K
  | some k => .node [.int 0, k]      -- a present item sorts before a hole
  | none => .node [.int 1]

def attrsKey (as : List (String × K)) : List K :=
  (isort (fun p q => strLt p.1 q.1) as).flatMap (fun p => [K.name p.1, p.2])

def negKey (as : List (String × K)) : Option K → K
  | some k => if K.kindOf k > 0 then .node [.int (-(K.kindOf k)), .rev k] else .node (.int kGenericTuple :: attrsKey as)
  | none => .node (.int kGenericTuple :: attrsKey as)

def tupleKeyAlg (as : List (String × K)) : K := negKey as (negInner as)

/-- the key of an entry `key :: values` (an entry without a key is not constructible; it reads as key `{}`) -/
def entryHead : List K → K
  | k :: _ => k
  | [] => .node [.int kEmpty]

def entryKey (e : List K) : K := .node [entryHead e, .node (isort K.lt e.tail)]

def keyAlg : RepF K → K
  | .num n => .node [.int kNumber, .int n]
  | .gtuple as => tupleKeyAlg as
  | .charT i c => .node [.int kCharT, .int i, .int c]
  | .byteT i b => .node [.int kByteT, .int i, .int b]
  | .itemT i x => .node [.int kItemT, .int i, x]
  | .entryT k v => .node [.int kEntryT, k, v]
  | .empty => .node [.int kEmpty]
  | .true_ => .node [.int kTrue]
  | .generic ks => .node (.int kGenericSet :: isort K.lt ks)
  | .str s off => .node (.int kString :: .int off :: s.map K.int)
  | .bytes b off => .node (.int kBytes :: .int off :: b.map K.int)
  | .array vs off => .node (.int kArray :: .int off :: vs.map optKey)
  | .dict m => .node (.int kDict :: (isort (fun e f => K.lt (entryHead e) (entryHead f)) m).map entryKey)
  | .relation ns rows =>
    .node [.int kRelation, .int ns.length, .node ((isort strLt ns).map K.name), .int rows.length,
           .node (isort K.lt (rows.map (fun row => tupleKeyAlg (zipNames ns row))))]
  | .union ks => .node (.int kUnion :: isort K.lt ks)

def key : Rep → K := cata keyAlg

/-! ## Impl -/
namespace Impl

/-- `Equal`: equality of canonical forms (see the header) -/
def equal (a b : Rep) : Bool := K.beq (key a) (key b)

/-- the lexicographic loop of `GenericSet.Less` / `UnionSet.Less` over two ordered enumerations -/
def lexLoop (rec : Rep → Rep → Bool) : List Rep → List Rep → Bool
  | [], bs => !bs.isEmpty                  -- `if !a.MoveNext() { return b.MoveNext() }`
  | _ :: _, [] => false                    -- `if !b.MoveNext() { return false }`
  | a :: as, b :: bs => if rec a b then true else if rec b a then false else lexLoop rec as bs

/-- `GenericTuple.Less`: names in `TupleOrderedNames` order, then `len(a) < len(b)` -/
def tupleLoop (rec : Rep → Rep → Bool) : List (String × Rep) → List (String × Rep) → Bool
  | [], bs => !bs.isEmpty
  | _ :: _, [] => false
  | (n, x) :: as, (m, y) :: bs =>
    if n ≠ m then strLt n m
    else if rec x y then true else if rec y x then false else tupleLoop rec as bs

/-- `Array.Less` (repaired): a hole in both arrays continues; an item is smaller than a hole -/
def arrayLoop (rec : Rep → Rep → Bool) : List (Option Rep) → List (Option Rep) → Bool
  | [], bs => !bs.isEmpty                  -- `return len(a.values) < len(b.values)`
  | _ :: _, [] => false
  | av :: as, bv :: bs =>
    match bv, av with
    | none, none => arrayLoop rec as bs
    | none, some _ => true
    | some _, none => false
    | some y, some x => if rec x y then true else if rec y x then false else arrayLoop rec as bs

/-- rune / byte slices: first difference decides, then the shorter one is smaller -/
def intsLoop : List Int → List Int → Bool
  | [], bs => !bs.isEmpty
  | _ :: _, [] => false
  | a :: as, b :: bs => if a ≠ b then decide (a < b) else intsLoop as bs

/-- the value loop of `Dict.Less` for one key: `some r` = decided, `none` = all equal -/
def valuesLoop (eqv rec : Rep → Rep → Bool) : List Rep → List Rep → Option Bool
  | [], [] => none
  | [], _ :: _ => some true                -- `len(dValues) != len(vValues)`: `len(dValues) < len(vValues)`
  | _ :: _, [] => some false
  | x :: xs, y :: ys => if !eqv x y then some (rec x y) else valuesLoop eqv rec xs ys

/-- `some r`: decided; `none`: go on with `d` -/
def optOr : Option Bool → Bool → Bool
  | some r, _ => r
  | none, d => d

def entryHeadR : List Rep → Rep
  | k :: _ => k
  | [] => .empty

/-- `Dict.Less` over the entries in key order -/
def dictLoop (eqv rec : Rep → Rep → Bool) : List (List Rep) → List (List Rep) → Bool
  | [], fs => !fs.isEmpty                  -- `return len(dKeys) < len(vKeys)`
  | _ :: _, [] => false
  | e :: es, f :: fs =>
    if !eqv (entryHeadR e) (entryHeadR f) then rec (entryHeadR e) (entryHeadR f)
    else optOr (valuesLoop eqv rec (isort rec e.tail) (isort rec f.tail)) (dictLoop eqv rec es fs)

/-- `valuesToTuple`: a positional row as a tuple -/
def rowTuple (ns : List String) (row : List Rep) : Rep := .gtuple (zipNames ns row)

/-- `NamesSlice.LessNamesSlice` (strict): length first, then the sorted names -/
def namesLoop : List String → List String → Bool
  | a :: as, b :: bs => if strLt a b then true else if strLt b a then false else namesLoop as bs
  | _, _ => false
def lessNames (a b : List String) : Bool :=
  if a.length ≠ b.length then decide (a.length < b.length) else namesLoop (isort strLt a) (isort strLt b)
/-- `NamesSlice.EqualNamesSlice` -/
def equalNames (a b : List String) : Bool :=
  a.length == b.length && isort strLt a == isort strLt b

/-- the row loop of `Relation.Less`: `for i.MoveNext() && j.MoveNext()`, `false` at the end -/
def rowsLoop (rec : Rep → Rep → Bool) : List Rep → List Rep → Bool
  | a :: as, b :: bs => if rec a b then true else if rec b a then false else rowsLoop rec as bs
  | _, _ => false

/-- the `(@neg: x)` branch of `GenericTuple.Less`:
`if y, ok := v.(Tuple).Get(negateTag); ok { return y.Less(x) }` -/
def negLoop (rec : Rep → Rep → Bool) (as bs : List (String × Rep)) : Bool :=
  match negInner as, negInner bs with
  | some x, some y => rec y x
  | _, _ => false                          -- Go panics; unreachable: a negative kind is a wrapper

/-- one `Less` method body (receiver `a`), nested `Less` calls replaced by `rec`, `Equal` by `eqv` -/
def lessStep (eqv rec : Rep → Rep → Bool) (a b : Rep) : Bool :=
  -- every method starts with: `if x.Kind() != v.Kind() { return x.Kind() < v.Kind() }`
  if kind a ≠ kind b then decide (kind a < kind b)
  else match a, b with
  | .num x, .num y => decide (x < y)
  | .gtuple as, .gtuple bs =>
    if kind a < 0 then negLoop rec as bs
    else
      tupleLoop rec (isort (fun p q => strLt p.1 q.1) as) (isort (fun p q => strLt p.1 q.1) bs)
  | .charT i c, .charT j d => if i ≠ j then decide (i < j) else decide (c < d)
  | .byteT i c, .byteT j d => if i ≠ j then decide (i < j) else decide (c < d)
  | .itemT i x, .itemT j y => if i ≠ j then decide (i < j) else rec x y
  | .entryT k v, .entryT k' v' => if !eqv k k' then rec k k' else rec v v'
  | .empty, .empty => false                -- EmptySet.Less (repaired): kinds only
  | .true_, .true_ => false                -- TrueSet.Less (repaired): kinds only
  | .generic xs, .generic ys => lexLoop rec (isort rec xs) (isort rec ys)
  | .str s off, .str t off' =>             -- String.Less (repaired): offsets, then runes
    if off ≠ off' then decide (off < off') else intsLoop s t
  | .bytes s off, .bytes t off' =>         -- Bytes.Less (repaired)
    if off ≠ off' then decide (off < off') else intsLoop s t
  | .array vs off, .array ws off' =>
    if off ≠ off' then decide (off < off') else arrayLoop rec vs ws
  | .dict m, .dict m' =>
    dictLoop eqv rec (isort (fun e f => rec (entryHeadR e) (entryHeadR f)) m)
      (isort (fun e f => rec (entryHeadR e) (entryHeadR f)) m')
  | .relation ns rows, .relation ns' rows' =>    -- Relation.Less (repaired)
    if !equalNames ns ns' then lessNames ns ns'
    else if rows.length ≠ rows'.length then decide (rows.length < rows'.length)
    else rowsLoop rec (isort rec (rows.map (rowTuple ns))) (isort rec (rows'.map (rowTuple ns')))
  | .union xs, .union ys => lexLoop rec (isort rec xs) (isort rec ys)
  | _, _ => false      -- equal kinds are the same Go type (`Proofs/C06.kind_eq_same_type`): the assertion holds

def lessN : Nat → Rep → Rep → Bool
  | 0, _, _ => false
  | n + 1, a, b => lessStep equal (lessN n) a b

/-- `a.Less(b)` -/
def less (a b : Rep) : Bool := lessN (max (depth a) (depth b) + 1) a b

/-! ### the comparison operators (`compareOps`, see `Expected.compareOps`) -/
def opLt (a b : Rep) : Bool := less a b          -- "<"  : a.Less(b)
def opLe (a b : Rep) : Bool := !less b a         -- "<=" : !b.Less(a)
def opGt (a b : Rep) : Bool := less b a          -- ">"  : b.Less(a)
def opGe (a b : Rep) : Bool := !less a b         -- ">=" : !a.Less(b)
def opEq (a b : Rep) : Bool := equal a b         -- "="  : a.Equal(b)
def opNe (a b : Rep) : Bool := !equal a b        -- "!=" : !a.Equal(b)

/-- the operator named `op` of the table, by its extracted text -/
def opOfText (text : String) (a b : Rep) : Option Bool :=
  if text = "a.Less(b)" then some (less a b)
  else if text = "!b.Less(a)" then some (!less b a)
  else if text = "b.Less(a)" then some (less b a)
  else if text = "!a.Less(b)" then some (!less a b)
  else if text = "a.Equal(b)" then some (equal a b)
  else if text = "!a.Equal(b)" then some (!equal a b)
  else none

/-! ### sorting clients -/

/-- `OrderBy(s, key, less)`: values and keys collected in enumeration order, `sort.Sort` on the keys -/
def orderBy (keyf : Rep → Rep) (xs : List Rep) : List Rep :=
  isort (fun x y => less (keyf x) (keyf y)) xs

/-- `OrderedValueEnumerator(e, ValueLess)` / `OrderedValues()`: what printing walks -/
def orderedValues (xs : List Rep) : List Rep := isort less xs

/-- `Rank` for one ranking attribute: entries sorted by the ranker, an entry's rank is the position of the
first entry of its run of `Equal` rankers.  Result: `(input, rank)` in sorted order. -/
def rankLoop (keyf : Rep → Rep) : List Rep → Nat → Nat → Option Rep → List (Rep × Nat)
  | [], _, _, _ => []
  | r :: rs, i, rank, current =>
    let a := keyf r
    match current with
    | some c =>
      if !equal a c then (r, i) :: rankLoop keyf rs (i + 1) i (some a)
      else (r, rank) :: rankLoop keyf rs (i + 1) rank current
    | none => (r, i) :: rankLoop keyf rs (i + 1) i (some a)

def rank (keyf : Rep → Rep) (xs : List Rep) : List (Rep × Nat) :=
  rankLoop keyf (isort (fun x y => less (keyf x) (keyf y)) xs) 0 0 none

/-- `NewMaxExpr`: `if acc == nil || acc.Less(v) { acc = v }` over the enumeration -/
def maxLoop : Option Rep → List Rep → Option Rep
  | acc, [] => acc
  | none, v :: vs => maxLoop (some v) vs
  | some acc, v :: vs => if less acc v then maxLoop (some v) vs else maxLoop (some acc) vs
def maxOf (xs : List Rep) : Option Rep := maxLoop none xs

/-- `NewMinExpr`: `if acc == nil || v.Less(acc) { acc = v }` -/
def minLoop : Option Rep → List Rep → Option Rep
  | acc, [] => acc
  | none, v :: vs => minLoop (some v) vs
  | some acc, v :: vs => if less v acc then minLoop (some v) vs else minLoop (some acc) vs
def minOf (xs : List Rep) : Option Rep := minLoop none xs

/-! ### how values are constructed: `NewTuple`, `Negate`, `NewOffsetArray`, `SetBuilder` -/

/-- `NewTuple` / `TupleBuilder.Finish`: `(@: i, @char|@byte|@item|@value: v)` become the specialised tuples.
(A non-numeric `@`/`@char`/`@byte` panics in Go — pinned by the suite, outside the data fragment; kept generic here.) -/
def newTuple (as : List (String × Rep)) : Rep :=
  match as with
  | [(n1, v1), (n2, v2)] =>
    let a0 := if n2 = "@" then (n2, v2) else (n1, v1)
    let a1 := if n2 = "@" then (n1, v1) else (n2, v2)
    if a0.1 = "@" then
      if a1.1 = "@value" then .entryT a0.2 a1.2
      else match a0.2 with
        | .num i =>
          if a1.1 = "@item" then .itemT i a1.2
          else match a1.2 with
            | .num c => if a1.1 = "@char" then .charT i c else if a1.1 = "@byte" then .byteT i c else .gtuple as
            | _ => .gtuple as
        | _ => .gtuple as
    else .gtuple as
  | _ => .gtuple as

/-- `Negate()` of every type -/
def negate : Rep → Rep
  | .num n => .num (-n)
  | .gtuple as =>
    match negInner as with
    | some x => x
    | none => if as.isEmpty then .gtuple as else .gtuple [(negateTag, .gtuple as)]
  | .charT i c => .charT (-i) (-c)
  | .byteT i b => .byteT (-i) ((256 - b) % 256)
  | .itemT i x => .itemT (-i) (negate x)
  | .entryT k v => .entryT (negate k) (negate v)
  | r => .gtuple [(negateTag, r)]

def dropNones : List (Option Rep) → (Nat × List (Option Rep))
  | none :: r => let (n, l) := dropNones r; (n + 1, l)
  | l => (0, l)

/-- `NewOffsetArray`: holes are trimmed from both ends; nothing left is the empty set -/
def mkArray (off : Int) (vs : List (Option Rep)) : Rep :=
  let (n, l) := dropNones vs
  let l := (dropNones l.reverse).2.reverse
  if l.isEmpty then .empty else .array l (off + n)

inductive Bucket where
  | generic | chars | bytes | items | entries
  | heading (ns : List String)
  deriving DecidableEq, Inhabited

/-- `getBucket()` -/
def bucketOf : Rep → Bucket
  | .charT _ _ => .chars
  | .byteT _ _ => .bytes
  | .itemT _ _ => .items
  | .entryT _ _ => .entries
  | .gtuple as => if as.isEmpty then .generic else .heading (isort strLt (as.map (·.1)))
  | _ => .generic

/-- `SetBuilder.Add`: append to the bucket's builder (buckets in order of first use) -/
def addToBucket (v : Rep) : List (Bucket × List Rep) → List (Bucket × List Rep)
  | [] => [(bucketOf v, [v])]
  | (b, vs) :: r => if b = bucketOf v then (b, vs ++ [v]) :: r else (b, vs) :: addToBucket v r

/-- frozen set semantics: a member `Equal` to an earlier one is dropped -/
def dedupR : List Rep → List Rep → List Rep
  | acc, [] => acc.reverse
  | acc, x :: xs => if acc.any (fun y => equal y x) then dedupR acc xs else dedupR (x :: acc) xs

def minI : List Int → Int
  | [] => 0
  | [x] => x
  | x :: xs => min x (minI xs)
def maxI : List Int → Int
  | [] => 0
  | [x] => x
  | x :: xs => max x (maxI xs)

/-- `asString`/`asBytes`/`asArray`: a slice from the least to the greatest index, filled in enumeration order
(a later tuple at the same index overwrites: `KF-superimposed`) -/
def fillSlots {α : Type} (fill : α) (lo : Int) (n : Nat) (ts : List (Int × α)) : List α :=
  (List.range n).map (fun (k : Nat) =>
    match (ts.reverse.find? (fun t => t.1 == lo + Int.ofNat k)) with
    | some t => t.2
    | none => fill)

def charsOf : List Rep → List (Int × Int)
  | .charT i c :: r => (i, c) :: charsOf r
  | .byteT i c :: r => (i, c) :: charsOf r
  | _ :: r => charsOf r
  | [] => []
def itemsOf : List Rep → List (Int × Option Rep)
  | .itemT i x :: r => (i, some x) :: itemsOf r
  | _ :: r => itemsOf r
  | [] => []

/-- `NewDict(true, entries…)`: a repeated key collects its distinct values -/
def dictPut (k v : Rep) : List (List Rep) → List (List Rep)
  | [] => [[k, v]]
  | e :: r =>
    match e with
    | k' :: vs => if equal k' k then (if vs.any (fun w => equal w v) then e :: r else (k' :: (vs ++ [v])) :: r)
                  else e :: dictPut k v r
    | [] => dictPut k v r
def entriesOf : List Rep → List (List Rep) → List (List Rep)
  | .entryT k v :: r, acc => entriesOf r (dictPut k v acc)
  | _ :: r, acc => entriesOf r acc
  | [], acc => acc

def lookupAttr (n : String) : List (String × Rep) → Rep
  | [] => .empty
  | (m, v) :: r => if m = n then v else lookupAttr n r
def rowOf (ns : List String) : Rep → List Rep
  | .gtuple as => ns.map (fun n => lookupAttr n as)
  | _ => []
def rowsEqual (a b : List Rep) : Bool := equal (.generic [.array (a.map some) 0]) (.generic [.array (b.map some) 0])
def dedupRows : List (List Rep) → List (List Rep) → List (List Rep)
  | acc, [] => acc.reverse
  | acc, x :: xs => if acc.any (fun y => rowsEqual y x) then dedupRows acc xs else dedupRows (x :: acc) xs

/-- the bucket's `Finish` -/
def finishBucket : Bucket × List Rep → Rep
  | (.generic, vs) =>
    -- genericSetFinish → newSetFromFrozenSet
    match dedupR [] vs with
    | [] => .empty
    | [x] => if equal x (.gtuple []) then .true_ else .generic [x]
    | xs => .generic xs
  | (.chars, vs) =>
    let ts := charsOf vs
    let lo := minI (ts.map (·.1))
    .str (fillSlots (-1) lo (maxI (ts.map (·.1)) - lo + 1).toNat ts) lo
  | (.bytes, vs) =>
    let ts := charsOf vs
    let lo := minI (ts.map (·.1))
    .bytes (fillSlots 0 lo (maxI (ts.map (·.1)) - lo + 1).toNat ts) lo
  | (.items, vs) =>
    let ts := itemsOf vs
    let lo := minI (ts.map (·.1))
    .array (fillSlots none lo (maxI (ts.map (·.1)) - lo + 1).toNat ts) lo
  | (.entries, vs) => .dict (entriesOf vs [])
  | (.heading ns, vs) => .relation ns (dedupRows [] (vs.map (rowOf ns)))

/-- `NewSet(values…)` = `SetBuilder.Add`* ; `Finish` -/
def build (vs : List Rep) : Rep :=
  match vs.foldl (fun acc v => addToBucket v acc) [] with
  | [] => .empty
  | [g] => finishBucket g
  | gs => .union (gs.map finishBucket)

/-! ### literals -/
mutual
def ofLit : Lit → Rep
  | .num n => .num n
  | .str off cs => if cs.isEmpty then .empty else .str (cs.map Int.ofNat) off
  | .bytes off bs => if bs.isEmpty then .empty else .bytes (bs.map Int.ofNat) off
  | .arr off xs => mkArray off (ofLitOpts xs)
  | .dict kvs => if kvs.isEmpty then .empty else .dict (ofLitPairs kvs)
  | .set xs => build (ofLitList xs)
  | .tup kvs => newTuple (ofLitAttrs kvs)
  | .rel names rows => build ((ofLitRows rows).map (fun row => newTuple (zipNames names row)))
  | .tt => .true_
  | .ff => .empty
def ofLitOpts : List (Option Lit) → List (Option Rep)
  | [] => []
  | some x :: r => some (ofLit x) :: ofLitOpts r
  | none :: r => none :: ofLitOpts r
def ofLitPairs : List (Lit × Lit) → List (List Rep)
  | [] => []
  | (k, v) :: r => [ofLit k, ofLit v] :: ofLitPairs r
def ofLitList : List Lit → List Rep
  | [] => []
  | x :: r => ofLit x :: ofLitList r
def ofLitAttrs : List (String × Lit) → List (String × Rep)
  | [] => []
  | (n, v) :: r => (n, ofLit v) :: ofLitAttrs r
def ofLitRows : List (List Lit) → List (List Rep)
  | [] => []
  | row :: r => ofLitList row :: ofLitRows r
end

end Impl

/-! ## The `Less` rules before the repairs (kept as witnesses; `Proofs/C06.trichotomy_false_before_repair_*`) -/
namespace Old

def ctorId : Rep → Nat
  | .num _ => 0 | .gtuple _ => 1 | .charT _ _ => 2 | .byteT _ _ => 3 | .itemT _ _ => 4 | .entryT _ _ => 5
  | .empty => 6 | .true_ => 7 | .generic _ => 8 | .str _ _ => 9 | .bytes _ _ => 10 | .array _ _ => 11
  | .dict _ => 12 | .relation _ _ => 13 | .union _ => 14

/-- `GenericTuple.Kind` before the repair: `-x.Kind()` for every wrapper, also a wrapper of a wrapper -/
def kindAlg : RepF Int → Int
  | .gtuple as =>
    match negInner as with
    | some k => -k
    | none => kGenericTuple
  | r => C06.kindAlg r

def kind : Rep → Int := cata kindAlg

def isTupleOrNumber : Rep → Bool
  | .num _ | .gtuple _ | .charT _ _ | .byteT _ _ | .itemT _ _ | .entryT _ _ => true
  | _ => false

/-- `string(s.s)`: a hole (negative rune), a surrogate or an out-of-range rune all become U+FFFD -/
def runeOfString (c : Int) : Int :=
  if c < 0 || (0xD800 ≤ c && c ≤ 0xDFFF) || c > 0x10FFFF then 0xFFFD else c

/-- `Array.Less` before the repair: a hole in both arrays ends the comparison with `false` -/
def arrayLoop (rec : Rep → Rep → Bool) : List (Option Rep) → List (Option Rep) → Bool
  | [], bs => !bs.isEmpty
  | _ :: _, [] => false
  | av :: as, bv :: bs =>
    match bv, av with
    | none, none => false                  -- `if bv == nil { return av != nil }`
    | none, some _ => true
    | some _, none => false
    | some y, some x => if rec x y then true else if rec y x then false else arrayLoop rec as bs

/-- rows of a relation in `ArrayEnumerator` order: sorted cell by cell in the column order of `attrs` -/
def cellsLoop (rec : Rep → Rep → Bool) : List Rep → List Rep → Bool
  | [], bs => !bs.isEmpty
  | _ :: _, [] => false
  | a :: as, b :: bs => if rec a b then true else if rec b a then false else cellsLoop rec as bs

def lessStep (eqv rec : Rep → Rep → Bool) (a b : Rep) : Bool :=
  match a with
  | .empty =>                               -- EmptySet.Less: bespoke
    match b with
    | .empty => false
    | _ => !isTupleOrNumber b
  | .true_ =>                               -- TrueSet.Less: bespoke
    match b with
    | .true_ | .empty => false
    | _ => !isTupleOrNumber b
  | _ =>
  if kind a ≠ kind b then decide (kind a < kind b)
  else match a, b with
  | .num x, .num y => decide (x < y)
  | .gtuple as, .gtuple bs =>
    match negInner as, negInner bs with
    | some x, some y => rec y x
    | some _, none => false                 -- panics
    | none, _ =>
      Impl.tupleLoop rec (isort (fun p q => strLt p.1 q.1) as) (isort (fun p q => strLt p.1 q.1) bs)
  | .charT i c, .charT j d => if i ≠ j then decide (i < j) else decide (c < d)
  | .byteT i c, .byteT j d => if i ≠ j then decide (i < j) else decide (c < d)
  | .itemT i x, .itemT j y => if i ≠ j then decide (i < j) else rec x y
  | .entryT k v, .entryT k' v' => if !eqv k k' then rec k k' else rec v v'
  | .generic xs, .generic ys => Impl.lexLoop rec (isort rec xs) (isort rec ys)
  | .str s _, .str t _ => Impl.intsLoop (s.map runeOfString) (t.map runeOfString)   -- `s.String() < v.String()`
  | .bytes _ _, .bytes _ _ => false         -- panics: `v.(*Bytes)`
  | .array vs off, .array ws off' =>
    if off ≠ off' then decide (off < off') else arrayLoop rec vs ws
  | .dict m, .dict m' =>
    Impl.dictLoop eqv rec (isort (fun e f => rec (Impl.entryHeadR e) (Impl.entryHeadR f)) m)
      (isort (fun e f => rec (Impl.entryHeadR e) (Impl.entryHeadR f)) m')
  | .relation ns rows, .relation ns' rows' =>
    if Impl.lessNames ns ns' && !Impl.equalNames ns ns' then true
    else if rows.length ≠ rows'.length then decide (rows.length < rows'.length)
    else Impl.rowsLoop rec ((isort (cellsLoop rec) rows).map (Impl.rowTuple ns))
           ((isort (cellsLoop rec) rows').map (Impl.rowTuple ns'))
  | .union xs, .union ys => Impl.lexLoop rec (isort rec xs) (isort rec ys)
  | _, _ => false                           -- equal kinds, different Go types: the type assertion panics

def lessN : Nat → Rep → Rep → Bool
  | 0, _, _ => false
  | n + 1, a, b => lessStep Impl.equal (lessN n) a b

def less (a b : Rep) : Bool := lessN (max (depth a) (depth b) + 1) a b

/-- the top-level call panics: `Bytes.Less` on two byte arrays, or a failed type assertion after a kind collision -/
def panics (a b : Rep) : Bool :=
  match a, b with
  | .empty, _ | .true_, _ => false
  | .bytes _ _, .bytes _ _ => true
  | _, _ => kind a == kind b && ctorId a != ctorId b

end Old

end Arrai.C06
