/-
  C06 ⟷ C02 bridge: canonical representations are unique, hence `<` and the meaning agree.

  `up : C06.Rep → C02.Rep` re-attaches the derived fields of C02's representation (hole count of a string,
  item count of an array, `key :: values` entries, bucket keys of a union set); `den_up`: both models give the
  same meaning; `Canonical r` is C02's canonical-form invariant `wf` on `up r`.  `key_complete`: two canonical
  representations with the same meaning have the same order key - by C02's `wf_unique`, one layer at a time.
-/
import Arrai.C06.Den
import Arrai.Proofs.C02

namespace Arrai.C06
open Arrai Std

/-! ## the translation -/

def splitEntry : List C02.Rep → C02.Rep × List C02.Rep
  | k :: vs => (k, vs)
  | [] => (.empty, [])

def bucketKey (s : C02.Rep) : String := (C02.Rep.bucketOfSet s).getD ""

def upAlg : RepF C02.Rep → C02.Rep
  | .num n => .num n
  | .gtuple as => .gtuple as
  | .charT i c => .charT i c
  | .byteT i b => .byteT i b
  | .itemT i x => .itemT i x
  | .entryT k v => .entryT k v
  | .empty => .empty
  | .true_ => .true_
  | .generic xs => .generic xs
  | .str s off => .str s off (C02.Impl.countNeg s)
  | .bytes b off => .bytes b off
  | .array vs off => .array vs off (C02.Rep.optCount vs)
  | .dict m => .dict (m.map splitEntry)
  | .relation ns rows => .relation ns rows
  | .union bs => .union (bs.map (fun s => (bucketKey s, s)))

def up : Rep → C02.Rep := cata upAlg

/-- canonical: what the constructors of /repo/rel build (C02's canonical-form invariant) -/
def Canonical (r : Rep) : Prop := C02.Rep.wf (up r) = true

theorem wf_up (r : Rep) (h : Canonical r) : C02.Rep.wf (up r) = true := h

@[simp] theorem up_num (n : Int) : up (.num n) = .num n := rfl
@[simp] theorem up_charT (i c : Int) : up (.charT i c) = .charT i c := rfl
@[simp] theorem up_byteT (i c : Int) : up (.byteT i c) = .byteT i c := rfl
@[simp] theorem up_itemT (i : Int) (x : Rep) : up (.itemT i x) = .itemT i (up x) := rfl
@[simp] theorem up_entryT (k v : Rep) : up (.entryT k v) = .entryT (up k) (up v) := rfl
@[simp] theorem up_empty : up .empty = .empty := rfl
@[simp] theorem up_true : up .true_ = .true_ := rfl
@[simp] theorem up_str (s : List Int) (off : Int) : up (.str s off) = .str s off (C02.Impl.countNeg s) := rfl
@[simp] theorem up_bytes (s : List Int) (off : Int) : up (.bytes s off) = .bytes s off := rfl
@[simp] theorem up_gtuple (as : List (String × Rep)) :
    up (.gtuple as) = .gtuple (as.map (fun p => (p.1, up p.2))) := by
  simp only [up, cata, cataA_eq, upAlg]
@[simp] theorem up_generic (xs : List Rep) : up (.generic xs) = .generic (xs.map up) := by
  simp only [up, cata, cataL_eq, upAlg]
@[simp] theorem up_array (vs : List (Option Rep)) (off : Int) :
    up (.array vs off) = .array (vs.map (Option.map up)) off (C02.Rep.optCount (vs.map (Option.map up))) := by
  simp only [up, cata, cataO_eq, upAlg]
@[simp] theorem up_dict (m : List (List Rep)) : up (.dict m) = .dict ((m.map (List.map up)).map splitEntry) := by
  simp only [up, cata, cataLL_eq, upAlg]
@[simp] theorem up_relation (ns : List String) (rows : List (List Rep)) :
    up (.relation ns rows) = .relation ns (rows.map (List.map up)) := by
  simp only [up, cata, cataLL_eq, upAlg]
@[simp] theorem up_union (bs : List Rep) :
    up (.union bs) = .union ((bs.map up).map (fun s => (bucketKey s, s))) := by
  simp only [up, cata, cataL_eq, upAlg]

/-! ## both models give the same meaning -/

open C02 C02.Rep in
theorem pair_eq (name : String) (i x : V) (h : ("@" < name) = true) :
    V.mkTup [("@", i), (name, x)] = vpair name i x := by
  have h' : "@" < name := by simpa using h
  simp [V.mkTup, V.insAttr, vpair, h']

open C02 C02.Rep in
theorem seqMembers_eq (name : String) (h : ("@" < name) = true) : ∀ (xs : List (Option V)) (off : Int),
    V.seqMembers name off xs = seqM name off xs
  | [], _ => rfl
  | some x :: r, off => by simp [V.seqMembers, seqM, pair_eq name _ _ h, seqMembers_eq name h r]
  | none :: r, off => by simp [V.seqMembers, seqM, seqMembers_eq name h r]

theorem zipAttrs_eq : ∀ (ns : List String) (ds : List V), C02.Rep.zipAttrs ns ds = zipNames ns ds
  | [], _ => by simp [C02.Rep.zipAttrs, zipNames]
  | _ :: _, [] => by simp [C02.Rep.zipAttrs, zipNames]
  | n :: ns, d :: ds => by simp [C02.Rep.zipAttrs, zipNames, zipAttrs_eq ns ds]

theorem map_den_up {xs : List Rep} (h : ∀ x ∈ xs, C02.Rep.den (up x) = den x) :
    (xs.map up).map C02.Rep.den = xs.map den := by
  rw [List.map_map]; exact List.map_congr_left (fun x hx => h x hx)

open C02 C02.Rep in
theorem denOpts_up : ∀ (vs : List (Option Rep)), (∀ x, some x ∈ vs → C02.Rep.den (up x) = den x) →
    denOpts (vs.map (Option.map up)) = vs.map (Option.map den)
  | [], _ => rfl
  | some x :: r, h => by
    simp [denOpts, h x (by simp), denOpts_up r (fun y hy => h y (List.mem_cons_of_mem _ hy))]
  | none :: r, h => by
    simp [denOpts, denOpts_up r (fun y hy => h y (List.mem_cons_of_mem _ hy))]

open C02 C02.Rep in
theorem denDict_up : ∀ (m : List (List Rep)), (∀ e ∈ m, ∀ x ∈ e, C02.Rep.den (up x) = den x) →
    denDict (m.map (fun e => splitEntry (e.map up))) = (m.map (List.map den)).flatMap entryV
  | [], _ => rfl
  | [] :: r, h => by
    have ih' := denDict_up r (fun e he => h e (List.mem_cons_of_mem _ he))
    show denDict (splitEntry [] :: r.map (fun e => splitEntry (e.map up))) = _
    rw [show splitEntry ([] : List C02.Rep) = (.empty, []) from rfl, denDict, ih']
    simp [denList, entryV]
  | (k :: vs) :: r, h => by
    have ih' := denDict_up r (fun e he => h e (List.mem_cons_of_mem _ he))
    have hk := h (k :: vs) (by simp) k (by simp)
    have hv : ∀ v ∈ vs, C02.Rep.den (up v) = den v := fun v hv => h (k :: vs) (by simp) v (List.mem_cons_of_mem _ hv)
    show denDict (splitEntry (up k :: vs.map up) :: r.map (fun e => splitEntry (e.map up))) = _
    rw [show splitEntry (up k :: vs.map up) = (up k, vs.map up) from rfl, denDict, ih', denList_eq_map, map_den_up hv, hk]
    simp only [List.map_cons, List.flatMap_cons, entryV, List.map_map]
    congr 1
    apply List.map_congr_left
    intro v _
    simp [Function.comp_def, pair_eq "@value" _ _ (by decide)]

theorem depth_mem_relation {ns : List String} {rows : List (List Rep)} {row : List Rep} {x : Rep}
    (hr : row ∈ rows) (hx : x ∈ row) : depth x < depth (.relation ns rows) := by
  rw [depth_relation]
  have h1 : depth x ≤ maxL (row.map depth) := depth_lt_of_mem_map hx
  have h2 : maxL (row.map depth) ≤ maxL (rows.map (fun e => maxL (e.map depth))) :=
    le_maxL (List.mem_map.2 ⟨row, hr, rfl⟩)
  omega

open C02 C02.Rep in
theorem denBuckets_up : ∀ (bs : List C02.Rep), denBuckets (bs.map (fun s => (bucketKey s, s))) = (bs.map C02.Rep.den).flatMap members
  | [] => rfl
  | s :: r => by
    simp only [List.map_cons, denBuckets, List.flatMap_cons, denBuckets_up r]
    cases C02.Rep.den s <;> rfl

open C02 C02.Rep in
theorem den_up : ∀ a : Rep, C02.Rep.den (up a) = den a := by
  apply depth_induction
  intro a ih
  cases a with
  | num n => simp [C02.Rep.den, den, cata, denAlg]
  | charT i c => simp [C02.Rep.den, den, cata, denAlg, pair_eq "@char" _ _ (by decide)]
  | byteT i c => simp [C02.Rep.den, den, cata, denAlg, pair_eq "@byte" _ _ (by decide)]
  | itemT i x =>
    rw [up_itemT, den_itemT, C02.Rep.den, ih x (by rw [depth_itemT]; omega), pair_eq "@item" _ _ (by decide)]
  | entryT k v =>
    rw [up_entryT, den_entryT, C02.Rep.den, ih k (by rw [depth_entryT]; omega), ih v (by rw [depth_entryT]; omega),
      pair_eq "@value" _ _ (by decide)]
  | empty => simp [C02.Rep.den, den, cata, denAlg, V.none]
  | true_ => simp [C02.Rep.den, den, cata, denAlg, V.tt]
  | str s off =>
    simp only [up_str, C02.Rep.den, den, cata, denAlg, V.mkSeq, strMembers_eq, seqMembers_eq "@char" (by decide)]
    rfl
  | bytes b off =>
    simp only [up_bytes, C02.Rep.den, den, cata, denAlg, V.mkSeq, bytesMembers_eq, seqMembers_eq "@byte" (by decide)]
  | gtuple as =>
    rw [up_gtuple, den_gtuple, C02.Rep.den, denAttrs_eq_map, List.map_map]
    congr 1
    apply List.map_congr_left
    intro p hp
    simp [Function.comp_def, ih p.2 (depth_attr_lt hp)]
  | generic xs =>
    rw [up_generic, den_generic, C02.Rep.den, denList_eq_map, map_den_up (fun x hx => ih x (depth_mem_generic hx))]
  | array vs off =>
    rw [up_array, den_array, C02.Rep.den, arrMembers_eq, denOpts_up vs (fun x hx => ih x (depth_mem_array hx)), V.mkSeq,
      seqMembers_eq "@item" (by decide)]
  | dict m =>
    rw [up_dict, den_dict, C02.Rep.den, List.map_map]
    exact congrArg V.mkSet (denDict_up m (fun e he x hx => ih x (depth_mem_dict he hx)))
  | relation ns rows =>
    rw [up_relation, den_relation, C02.Rep.den, denRows_eq]
    congr 1
    rw [List.map_map]
    apply List.map_congr_left
    intro row hrow
    simp only [Function.comp_def]
    rw [den_rowT, zipAttrs_eq, denList_eq_map, map_den_up (fun x hx => ih x (depth_mem_relation hrow hx))]
  | union bs =>
    rw [up_union, den_union, C02.Rep.den, denBuckets_up, map_den_up (fun x hx => ih x (depth_mem_union hx))]

/-! ## uniqueness of canonical representations, in terms of the order key -/

theorem nodup_of_map {α β : Type} (f : α → β) : ∀ l : List α, (l.map f).Nodup → l.Nodup
  | [], _ => List.nodup_nil
  | x :: r, h => by
    simp only [List.map_cons, List.nodup_cons] at h ⊢
    exact ⟨fun hx => h.1 (List.mem_map.2 ⟨x, hx, rfl⟩), nodup_of_map f r h.2⟩

/-- two lists matched by a nodup "denotation" on which a second function is determined: the images are permutations -/
theorem perm_of_match {α β δ κ : Type} (xs : List α) (ys : List β) (d : α → δ) (d' : β → δ) (k : α → κ) (k' : β → κ)
    (hx : (xs.map d).Nodup) (hy : (ys.map d').Nodup) (hm : ∀ v, v ∈ xs.map d ↔ v ∈ ys.map d')
    (H : ∀ x ∈ xs, ∀ y ∈ ys, d x = d' y → k x = k' y) : (xs.map k).Perm (ys.map k') := by
  have n1 : (xs.map (fun x => (d x, k x))).Nodup := by
    apply nodup_of_map Prod.fst
    simpa [List.map_map, Function.comp_def] using hx
  have n2 : (ys.map (fun y => (d' y, k' y))).Nodup := by
    apply nodup_of_map Prod.fst
    simpa [List.map_map, Function.comp_def] using hy
  have hp : (xs.map (fun x => (d x, k x))).Perm (ys.map (fun y => (d' y, k' y))) := by
    rw [List.perm_ext_iff_of_nodup n1 n2]
    intro p
    constructor
    · intro hp
      obtain ⟨x, hx', rfl⟩ := List.mem_map.1 hp
      obtain ⟨y, hy', e⟩ := List.mem_map.1 ((hm (d x)).1 (List.mem_map.2 ⟨x, hx', rfl⟩))
      exact List.mem_map.2 ⟨y, hy', by rw [e, H x hx' y hy' e.symm]⟩
    · intro hp
      obtain ⟨y, hy', rfl⟩ := List.mem_map.1 hp
      obtain ⟨x, hx', e⟩ := List.mem_map.1 ((hm (d' y)).2 (List.mem_map.2 ⟨y, hy', rfl⟩))
      exact List.mem_map.2 ⟨x, hx', by rw [e, H x hx' y hy' e]⟩
  have := hp.map Prod.snd
  simpa [List.map_map, Function.comp_def] using this

theorem isortK_perm {l₁ l₂ : List K} (hp : l₁.Perm l₂) : isort K.lt l₁ = isort K.lt l₂ :=
  isort_perm_invariant K.cmp hp

/-- member lists with the same (nodup) meanings and keys determined by the meaning: same sorted keys -/
theorem sorted_keys_eq (xs ys : List Rep) (hx : (xs.map den).Nodup) (hy : (ys.map den).Nodup)
    (hm : ∀ v, v ∈ xs.map den ↔ v ∈ ys.map den)
    (H : ∀ x ∈ xs, ∀ y ∈ ys, den x = den y → key x = key y) :
    isort K.lt (xs.map key) = isort K.lt (ys.map key) :=
  isortK_perm (perm_of_match xs ys den den key key hx hy hm H)

theorem denList_up (xs : List Rep) : C02.Rep.denList (xs.map up) = xs.map den := by
  rw [C02.denList_eq_map]; exact map_den_up (fun x _ => den_up x)

theorem opts_key_congr : ∀ (vs vs' : List (Option Rep)),
    (∀ x, some x ∈ vs → ∀ y, some y ∈ vs' → den x = den y → key x = key y) →
    vs.map (Option.map den) = vs'.map (Option.map den) →
    vs.map (fun o => optKey (o.map key)) = vs'.map (fun o => optKey (o.map key))
  | [], [], _, _ => rfl
  | [], _ :: _, _, h => by simp at h
  | _ :: _, [], _, h => by simp at h
  | o :: r, o' :: r', H, h => by
    simp only [List.map_cons, List.cons.injEq] at h ⊢
    refine ⟨?_, opts_key_congr r r' (fun x hx y hy => H x (List.mem_cons_of_mem _ hx) y (List.mem_cons_of_mem _ hy)) h.2⟩
    cases o <;> cases o' <;> simp at h ⊢
    rename_i x y
    rw [H x (by simp) y (by simp) h.1]


/-! ### canonical representations repeat no attribute name -/

open C02 C02.Rep in
theorem canon_entry {m : List (List Rep)} (hw : wfDict ((m.map (List.map up)).map splitEntry) = true)
    {e : List Rep} (he : e ∈ m) {x : Rep} (hx : x ∈ e) : wf (up x) = true := by
  have hmem : splitEntry (e.map up) ∈ (m.map (List.map up)).map splitEntry :=
    List.mem_map.2 ⟨e.map up, List.mem_map.2 ⟨e, he, rfl⟩, rfl⟩
  obtain ⟨wk, _, wvs, _⟩ := wfDict_mem _ _ hw hmem
  cases e with
  | nil => simp at hx
  | cons k vs =>
    simp only [List.map_cons, splitEntry] at wk wvs
    simp only [List.mem_cons] at hx
    rcases hx with hx | hx
    · subst hx; exact wk
    · exact wfList_mem _ (up x) wvs (List.mem_map.2 ⟨x, hx, rfl⟩)

open C02 C02.Rep in
theorem canon_nn : ∀ a : Rep, Canonical a → nodupNames a = true := by
  apply depth_induction
  intro a ih ca
  unfold Canonical at ca
  cases a with
  | num n => rfl
  | charT i c => rfl
  | byteT i c => rfl
  | empty => rfl
  | true_ => rfl
  | str s off => rfl
  | bytes s off => rfl
  | itemT i x =>
    rw [nn_itemT]; exact ih x (by rw [depth_itemT]; omega) (by simpa [Canonical, wf] using ca)
  | entryT k v =>
    simp only [up_entryT, wf, Bool.and_eq_true] at ca
    rw [nn_entryT, Bool.and_eq_true]
    exact ⟨ih k (by rw [depth_entryT]; omega) ca.1, ih v (by rw [depth_entryT]; omega) ca.2⟩
  | gtuple as =>
    simp only [up_gtuple, wf, Bool.and_eq_true, decide_eq_true_eq] at ca
    rw [nn_gtuple, Bool.and_eq_true, decide_eq_true_eq]
    refine ⟨by simpa [namesOf, List.map_map, Function.comp_def] using ca.1.1, ?_⟩
    rw [List.all_eq_true]
    intro p hp
    exact ih p.2 (depth_attr_lt hp) (wfAttrs_mem _ (p.1, up p.2) ca.1.2 (List.mem_map.2 ⟨p, hp, rfl⟩))
  | generic xs =>
    simp only [up_generic, wf, Bool.and_eq_true] at ca
    rw [nn_generic, List.all_eq_true]
    intro x hx
    exact ih x (depth_mem_generic hx) (wfList_mem _ (up x) ca.1.1.1.2 (List.mem_map.2 ⟨x, hx, rfl⟩))
  | array vs off =>
    simp only [up_array, wf, Bool.and_eq_true] at ca
    rw [nn_array, List.all_eq_true]
    intro o ho
    cases o with
    | none => rfl
    | some x =>
      simp only [Option.map, Option.getD]
      exact ih x (depth_mem_array ho) (wfOpts_mem _ (up x) ca.1.2 (List.mem_map.2 ⟨some x, ho, rfl⟩))
  | dict m =>
    simp only [up_dict, wf, Bool.and_eq_true] at ca
    rw [nn_dict, List.all_eq_true]
    intro e he
    rw [List.all_eq_true]
    intro x hx
    exact ih x (depth_mem_dict he hx) (canon_entry ca.1.2 he hx)
  | relation ns rows =>
    simp only [up_relation, wf, Bool.and_eq_true, decide_eq_true_eq] at ca
    rw [nn_relation, Bool.and_eq_true, decide_eq_true_eq]
    refine ⟨ca.1.1.1.2, ?_⟩
    rw [List.all_eq_true]
    intro row hrow
    rw [List.all_eq_true]
    intro x hx
    obtain ⟨_, wl, _⟩ := wfRows_mem ns _ (row.map up) ca.1.2 (List.mem_map.2 ⟨row, hrow, rfl⟩)
    exact ih x (depth_mem_relation hrow hx) (wfList_mem _ (up x) wl (List.mem_map.2 ⟨x, hx, rfl⟩))
  | union bs =>
    simp only [up_union, wf, Bool.and_eq_true] at ca
    rw [nn_union, List.all_eq_true]
    intro x hx
    exact ih x (depth_mem_union hx)
      (wfBuckets_mem _ (bucketKey (up x), up x) ca.2 (List.mem_map.2 ⟨up x, List.mem_map.2 ⟨x, hx, rfl⟩, rfl⟩)).1

/-- the order key determines the meaning of canonical representations -/
theorem key_inj_den (x y : Rep) (cx : Canonical x) (cy : Canonical y) (h : key x = key y) : den x = den y :=
  key_sound x (canon_nn x cx) y (canon_nn y cy) h


/-! ### the collection cases of `key_complete` -/

open C02 C02.Rep C02.Theorems in
theorem union_case (bs bs' : List Rep)
    (ca : wf (up (.union bs)) = true) (cb : wf (up (.union bs')) = true)
    (sr : sameRep (up (.union bs)) (up (.union bs')))
    (IH : ∀ x ∈ bs, ∀ y ∈ bs', Canonical x → Canonical y → den x = den y → key x = key y) :
    isort K.lt (bs.map key) = isort K.lt (bs'.map key) := by
  simp only [up_union, sameRep] at sr
  simp only [up_union, wf, Bool.and_eq_true, decide_eq_true_eq] at ca cb
  obtain ⟨⟨_, hn⟩, hwb⟩ := ca
  obtain ⟨⟨_, hn'⟩, hwb'⟩ := cb
  -- facts about one bucket
  have fact : ∀ (l : List Rep), wfBuckets ((l.map up).map (fun s => (bucketKey s, s))) = true → ∀ x ∈ l,
      (bucketKey (up x), up x) ∈ (l.map up).map (fun s => (bucketKey s, s)) ∧ wf (up x) = true ∧
      bucketOfSet (up x) = some (bucketKey (up x)) := by
    intro l hw x hx
    have hm : (bucketKey (up x), up x) ∈ (l.map up).map (fun s => (bucketKey s, s)) :=
      List.mem_map.2 ⟨up x, List.mem_map.2 ⟨x, hx, rfl⟩, rfl⟩
    obtain ⟨w, k⟩ := wfBuckets_mem _ _ hw hm
    exact ⟨hm, w, k⟩
  -- a bucket of one side has a partner of the same meaning on the other side
  have partner : ∀ (l l' : List Rep),
      (namesOf ((l.map up).map (fun s => (bucketKey s, s)))).Nodup →
      wfBuckets ((l.map up).map (fun s => (bucketKey s, s))) = true →
      (∀ k, (lookupAttr k ((l.map up).map (fun s => (bucketKey s, s)))).map C02.Rep.den =
            (lookupAttr k ((l'.map up).map (fun s => (bucketKey s, s)))).map C02.Rep.den) →
      ∀ x ∈ l, ∃ y ∈ l', den y = den x := by
    intro l l' hnl hwl hl x hx
    obtain ⟨hm, _, _⟩ := fact l hwl x hx
    have h1 := lookupAttr_some_of_mem _ _ _ hnl hm
    have h2 := hl (bucketKey (up x))
    rw [h1] at h2
    cases h3 : lookupAttr (bucketKey (up x)) ((l'.map up).map (fun s => (bucketKey s, s))) with
    | none => rw [h3] at h2; simp at h2
    | some s' =>
      rw [h3] at h2
      have hm' := lookupAttr_mem _ _ _ h3
      obtain ⟨t, ht, e⟩ := List.mem_map.1 hm'
      obtain ⟨y, hy, rfl⟩ := List.mem_map.1 ht
      have e2 : up y = s' := by simpa using congrArg Prod.snd e
      refine ⟨y, hy, ?_⟩
      have : C02.Rep.den (up x) = C02.Rep.den s' := by simpa using h2
      rw [← e2, den_up, den_up] at this
      exact this.symm
  have nd : ∀ (l : List Rep), (((l.map up).map (fun s => (bucketKey s, s))).map (·.1)).Nodup →
      wfBuckets ((l.map up).map (fun s => (bucketKey s, s))) = true → (l.map den).Nodup := by
    intro l hnl hwl
    apply nodup_map_of den (fun x => bucketKey (up x)) l
    · intro x hx y hy e
      obtain ⟨_, wx, kx⟩ := fact l hwl x hx
      obtain ⟨_, wy, ky⟩ := fact l hwl y hy
      obtain ⟨ne, bx⟩ := sub_members_bucket (up x) _ wx kx
      obtain ⟨_, by'⟩ := sub_members_bucket (up y) _ wy ky
      obtain ⟨v0, hv0⟩ := List.exists_mem_of_ne_nil _ ne
      have hv0' : v0 ∈ vmembers (C02.Rep.den (up y)) := by rw [den_up, ← e, ← den_up]; exact hv0
      exact bkOfSet_key (up x) (up y) _ _ wx wy kx ky ((bx v0 hv0).symm.trans (by' v0 hv0'))
    · simpa [List.map_map, Function.comp_def] using hnl
  apply sorted_keys_eq bs bs' (nd bs hn hwb) (nd bs' hn' hwb')
  · intro v
    constructor
    · intro hv
      obtain ⟨x, hx, rfl⟩ := List.mem_map.1 hv
      obtain ⟨y, hy, e⟩ := partner bs bs' hn hwb sr.2 x hx
      exact List.mem_map.2 ⟨y, hy, e⟩
    · intro hv
      obtain ⟨y, hy, rfl⟩ := List.mem_map.1 hv
      obtain ⟨x, hx, e⟩ := partner bs' bs hn' hwb' (fun k => (sr.2 k).symm) y hy
      exact List.mem_map.2 ⟨x, hx, e⟩
  · intro x hx y hy e
    exact IH x hx y hy (fact bs hwb x hx).2.1 (fact bs' hwb' y hy).2.1 e


theorem zipNames_eq_zip {β : Type} : ∀ (ns : List String) (row : List β), zipNames ns row = ns.zip row
  | [], _ => by simp [zipNames]
  | _ :: _, [] => by simp [zipNames]
  | n :: ns, v :: vs => by simp [zipNames, zipNames_eq_zip ns vs]

theorem up_rowTuple (ns : List String) (row : List Rep) :
    up (Impl.rowTuple ns row) = C02.rowT ns (row.map up) := by
  rw [Impl.rowTuple, up_gtuple, zipNames_map, zipNames_eq_zip]; rfl

theorem den_rowTuple (ns : List String) (row : List Rep) :
    den (Impl.rowTuple ns row) = V.mkTup (zipNames ns (row.map den)) := by
  rw [Impl.rowTuple, den_gtuple, zipNames_map]

theorem isortStr_perm {l₁ l₂ : List String} (hp : l₁.Perm l₂) : isort strLt l₁ = isort strLt l₂ :=
  isort_perm_invariant (compare : String → String → Ordering) hp

open C02 C02.Rep C02.Theorems in
theorem relation_case (ns ns' : List String) (rows rows' : List (List Rep))
    (ca : wf (up (.relation ns rows)) = true) (cb : wf (up (.relation ns' rows')) = true)
    (sr : sameRep (up (.relation ns rows)) (up (.relation ns' rows')))
    (h : den (Rep.relation ns rows) = den (Rep.relation ns' rows'))
    (IH : ∀ r ∈ rows, ∀ r' ∈ rows', Canonical (Impl.rowTuple ns r) → Canonical (Impl.rowTuple ns' r') →
      den (Impl.rowTuple ns r) = den (Impl.rowTuple ns' r') → key (Impl.rowTuple ns r) = key (Impl.rowTuple ns' r')) :
    key (Rep.relation ns rows) = key (Rep.relation ns' rows') := by
  simp only [up_relation, sameRep] at sr
  simp only [up_relation, wf, Bool.and_eq_true, decide_eq_true_eq] at ca cb
  obtain ⟨⟨⟨⟨_, hnd⟩, _⟩, hwr⟩, hdn⟩ := ca
  obtain ⟨⟨⟨⟨_, hnd'⟩, _⟩, hwr'⟩, hdn'⟩ := cb
  have hperm : ns.Perm ns' := (sortStrs_perm ns).symm.trans (sr.1 ▸ sortStrs_perm ns')
  have hrl : rows.length = rows'.length := by simpa using sr.2.1
  -- the meanings of the rows
  have dr : ∀ (n : List String) (rs : List (List Rep)),
      denRows n (rs.map (List.map up)) = (rs.map (Impl.rowTuple n)).map den := by
    intro n rs
    rw [denRows_eq, List.map_map, List.map_map]
    apply List.map_congr_left
    intro row _
    simp only [Function.comp_def]
    rw [← up_rowTuple, den_up]
  rw [dr] at hdn hdn'
  have canon : ∀ (n : List String) (rs : List (List Rep)), n.Nodup → wfRows n (rs.map (List.map up)) = true →
      ∀ r ∈ rs, Canonical (Impl.rowTuple n r) := by
    intro n rs hn hw r hr
    unfold Canonical
    rw [up_rowTuple]
    exact wf_rowT n _ (r.map up) hn hw (List.mem_map.2 ⟨r, hr, rfl⟩)
  have hm : ∀ v, v ∈ (rows.map (Impl.rowTuple ns)).map den ↔ v ∈ (rows'.map (Impl.rowTuple ns')).map den := by
    rw [den_relation, den_relation] at h
    have h' := (FinSet.mk_eq_iff _ _).1 (by simpa [V.mkSet] using h)
    intro v
    have := h' v
    simpa [List.map_map, Function.comp_def, den_rowTuple] using this
  have hk := sorted_keys_eq (rows.map (Impl.rowTuple ns)) (rows'.map (Impl.rowTuple ns')) hdn hdn' hm (by
    intro x hx y hy e
    obtain ⟨r, hr, rfl⟩ := List.mem_map.1 hx
    obtain ⟨r', hr', rfl⟩ := List.mem_map.1 hy
    exact IH r hr r' hr' (canon ns rows hnd hwr r hr) (canon ns' rows' hnd' hwr' r' hr') e)
  rw [key_relation, key_relation, hperm.length_eq, isortStr_perm hperm, hrl]
  simp only [List.map_map, Function.comp_def, key_rowTuple] at hk
  rw [hk]


/-! #### tuples: the key does not depend on the enumeration order of the attributes -/

def cmpName {β : Type} (p q : String × β) : Ordering := compare p.1 q.1

instance {β : Type} : TransCmp (cmpName (β := β)) where
  eq_swap := OrientedCmp.eq_swap (cmp := (compare : String → String → Ordering))
  isLE_trans := fun h₁ h₂ => TransCmp.isLE_trans (cmp := (compare : String → String → Ordering)) h₁ h₂

theorem isort_byName_perm {β : Type} (l l' : List (String × β)) (hn : (l.map (·.1)).Nodup) (hp : l.Perm l') :
    isort (fun p q => strLt p.1 q.1) l = isort (fun p q => strLt p.1 q.1) l' := by
  have s1 := isort_sorted (cmpName (β := β)) l
  have s2 := isort_sorted (cmpName (β := β)) l'
  have hp' : (isort (fun a b => cmpName a b == .lt) l).Perm (isort (fun a b => cmpName a b == .lt) l') :=
    (isort_perm _ l).trans (hp.trans (isort_perm _ l').symm)
  have : isort (fun a b => cmpName a b == .lt) l = isort (fun a b => cmpName a b == .lt) l' := by
    apply List.Perm.eq_of_pairwise (le := fun a b => cmpName a b ≠ .gt) _ s1 s2 hp'
    intro a b ha _ hab hba
    have h1 : (cmpName a b).isLE := by cases h : cmpName a b <;> simp_all
    have h2 : (cmpName b a).isLE := by cases h : cmpName b a <;> simp_all
    have he : compare a.1 b.1 = .eq := OrientedCmp.isLE_antisymm (cmp := cmpName (β := β)) h1 h2
    have hname : a.1 = b.1 := LawfulEqCmp.eq_of_compare (cmp := (compare : String → String → Ordering)) he
    have hb' : b ∈ l := by
      have : b ∈ isort (fun a b => cmpName a b == .lt) l := hp'.mem_iff.2 ‹_›
      exact (mem_isort _ _ _).1 this
    exact C02.inj_of_nodup_map (·.1) l hn a ((mem_isort _ _ _).1 ha) b hb' hname
  exact this

theorem negInner_perm {β : Type} {l l' : List (String × β)} (hp : l.Perm l') : negInner l = negInner l' := by
  match l, l', hp with
  | [], l', hp => rw [List.nil_perm.1 hp]
  | [a], l', hp => rw [List.singleton_perm.1 hp]
  | a :: b :: r, l', hp =>
    have hl := hp.length_eq
    match l', hl with
    | c :: d :: r', _ => simp [negInner]

theorem tupleKeyAlg_perm (l l' : List (String × K)) (hn : (l.map (·.1)).Nodup) (hp : l.Perm l') :
    tupleKeyAlg l = tupleKeyAlg l' := by
  have ha : attrsKey l = attrsKey l' := by unfold attrsKey; rw [isort_byName_perm l l' hn hp]
  unfold tupleKeyAlg
  rw [← negInner_perm hp]
  cases negInner l with
  | none => simp only [negKey, ha]
  | some k => simp only [negKey, ha]


open C02 C02.Rep in
theorem mem_attr_den (l : List (String × Rep)) (hn : (l.map (·.1)).Nodup) (n : String) (v : V) :
    (n, v) ∈ l.map (fun p => (p.1, den p.2)) ↔
      lookupV n (denAttrs (l.map (fun p => (p.1, up p.2)))) = some v := by
  have hn' : (namesOf (l.map (fun p => (p.1, up p.2)))).Nodup := by
    simpa [namesOf, List.map_map, Function.comp_def] using hn
  rw [lookupV_denAttrs]
  constructor
  · intro h
    obtain ⟨p, hp, e⟩ := List.mem_map.1 h
    have e1 : p.1 = n := congrArg Prod.fst e
    have e2 : den p.2 = v := congrArg Prod.snd e
    have hm : (n, up p.2) ∈ l.map (fun p => (p.1, up p.2)) := List.mem_map.2 ⟨p, hp, by rw [e1]⟩
    rw [lookupAttr_some_of_mem _ _ _ hn' hm]
    simp [den_up, e2]
  · intro h
    cases hl : lookupAttr n (l.map (fun p => (p.1, up p.2))) with
    | none => rw [hl] at h; simp at h
    | some r =>
      rw [hl] at h
      obtain ⟨p, hp, e⟩ := List.mem_map.1 (lookupAttr_mem _ _ _ hl)
      have e1 : p.1 = n := congrArg Prod.fst e
      have e2 : up p.2 = r := congrArg Prod.snd e
      have hv : C02.Rep.den r = v := by simpa using h
      exact List.mem_map.2 ⟨p, hp, by rw [← hv, ← e2, den_up, e1]⟩

open C02 C02.Rep C02.Theorems in
theorem gtuple_case (as bs : List (String × Rep))
    (ca : wf (up (.gtuple as)) = true) (cb : wf (up (.gtuple bs)) = true)
    (sr : sameRep (up (.gtuple as)) (up (.gtuple bs)))
    (IH : ∀ p ∈ as, ∀ q ∈ bs, Canonical p.2 → Canonical q.2 → den p.2 = den q.2 → key p.2 = key q.2) :
    key (Rep.gtuple as) = key (Rep.gtuple bs) := by
  simp only [up_gtuple, sameRep] at sr
  simp only [up_gtuple, wf, Bool.and_eq_true, decide_eq_true_eq] at ca cb
  have hna : (as.map (·.1)).Nodup := by simpa [namesOf, List.map_map, Function.comp_def] using ca.1.1
  have hnb : (bs.map (·.1)).Nodup := by simpa [namesOf, List.map_map, Function.comp_def] using cb.1.1
  have hp : (as.map (fun p => (p.1, key p.2))).Perm (bs.map (fun p => (p.1, key p.2))) := by
    apply perm_of_match as bs (fun p => (p.1, den p.2)) (fun p => (p.1, den p.2))
    · apply nodup_of_map Prod.fst; simpa [List.map_map, Function.comp_def] using hna
    · apply nodup_of_map Prod.fst; simpa [List.map_map, Function.comp_def] using hnb
    · rintro ⟨n, v⟩
      rw [mem_attr_den as hna, mem_attr_den bs hnb, sr.2 n]
    · intro p hp q hq e
      have e1 : p.1 = q.1 := (Prod.mk.inj e).1
      have e2 : den p.2 = den q.2 := (Prod.mk.inj e).2
      have cp : Canonical p.2 := wfAttrs_mem _ (p.1, up p.2) ca.1.2 (List.mem_map.2 ⟨p, hp, rfl⟩)
      have cq : Canonical q.2 := wfAttrs_mem _ (q.1, up q.2) cb.1.2 (List.mem_map.2 ⟨q, hq, rfl⟩)
      rw [e1, IH p hp q hq cp cq e2]
  rw [key_gtuple, key_gtuple]
  exact tupleKeyAlg_perm _ _ (by simpa [List.map_map, Function.comp_def] using hna) hp


/-! #### dictionaries -/

def byHead (e f : List K) : Bool := K.lt (entryHead e) (entryHead f)

/-- an entry with its values sorted -/
def normE : List K → List K
  | [] => []
  | k :: vs => k :: isort K.lt vs

theorem entryHead_norm (e : List K) : entryHead (normE e) = entryHead e := by cases e <;> rfl

theorem isortK_idem (l : List K) : isort K.lt (isort K.lt l) = isort K.lt l := isortK_perm (isort_perm _ l)

theorem entryKey_norm (e : List K) : entryKey (normE e) = entryKey e := by
  cases e with
  | nil => rfl
  | cons k vs => simp [entryKey, normE, entryHead, isortK_idem]

def cmpNode (e f : List K) : Ordering := K.cmp (.node e) (.node f)

instance : TransCmp cmpNode where
  eq_swap := K.cmp_swap _ _
  isLE_trans := fun h₁ h₂ => TransCmp.isLE_trans (cmp := K.cmp) h₁ h₂

instance : LawfulEqCmp cmpNode where
  compare_self := fun {a} => K.cmp_self (.node a)
  eq_of_compare := fun {a b} h => by
    have := (K.cmp_eq_iff (.node a) (.node b)).1 h
    simpa using this

/-- sorting nonempty entries by their heads, when no two different entries share a head, is sorting them as keys -/
theorem isort_byHead_eq (N : List (List K)) (hne : ∀ e ∈ N, e ≠ [])
    (hinj : ∀ e ∈ N, ∀ f ∈ N, entryHead e = entryHead f → e = f) :
    isort byHead N = isort (fun a b => cmpNode a b == .lt) N := by
  apply isort_congr
  intro x hx y hy
  by_cases hh : entryHead x = entryHead y
  · have := hinj x hx y hy hh
    subst this
    simp [byHead, cmpNode, K.lt_irrefl, K.cmp_self]
  · cases x with
    | nil => exact absurd rfl (hne _ hx)
    | cons h t =>
      cases y with
      | nil => exact absurd rfl (hne _ hy)
      | cons h' t' =>
        simp only [entryHead] at hh
        have hc : K.cmp h h' ≠ .eq := fun e => hh ((K.cmp_eq_iff h h').1 e)
        simp only [byHead, entryHead, K.lt, cmpNode, K.cmp, K.cmpList]
        cases hcc : K.cmp h h' <;> simp_all [Ordering.then]

def hdDen : List Rep → V
  | k :: _ => den k
  | [] => den Rep.empty

open C02 C02.Rep C02.Theorems in
theorem dict_case (m m' : List (List Rep))
    (ca : wf (up (.dict m)) = true) (cb : wf (up (.dict m')) = true)
    (h : den (Rep.dict m) = den (Rep.dict m'))
    (IH : ∀ e ∈ m, ∀ e' ∈ m', ∀ x ∈ e, ∀ y ∈ e', Canonical x → Canonical y → den x = den y → key x = key y) :
    key (Rep.dict m) = key (Rep.dict m') := by
  simp only [up_dict, wf, Bool.and_eq_true, decide_eq_true_eq] at ca cb
  obtain ⟨⟨_, hwd⟩, hkd⟩ := ca
  obtain ⟨⟨_, hwd'⟩, hkd'⟩ := cb
  -- entries are `key :: values`, at least one value, values with distinct meanings
  have shape : ∀ (l : List (List Rep)), wfDict ((l.map (List.map up)).map splitEntry) = true → ∀ e ∈ l,
      ∃ k vs, e = k :: vs ∧ ((vs.map den).Nodup) ∧ (∀ x ∈ e, Canonical x) := by
    intro l hw e he
    have hmem : splitEntry (e.map up) ∈ (l.map (List.map up)).map splitEntry :=
      List.mem_map.2 ⟨e.map up, List.mem_map.2 ⟨e, he, rfl⟩, rfl⟩
    obtain ⟨_, hvne, _, hvn⟩ := wfDict_mem _ _ hw hmem
    cases e with
    | nil => simp [splitEntry] at hvne
    | cons k vs =>
      refine ⟨k, vs, rfl, ?_, fun x hx => canon_entry hw he hx⟩
      simp only [List.map_cons, splitEntry] at hvn
      rwa [denList_up] at hvn
  have kd : ∀ (l : List (List Rep)), keyDens ((l.map (List.map up)).map splitEntry) = l.map hdDen := by
    intro l
    unfold keyDens
    rw [denList_eq_map, List.map_map, List.map_map, List.map_map]
    apply List.map_congr_left
    intro e _
    cases e with
    | nil => simp [splitEntry, hdDen, ← den_up]
    | cons k vs => simp [splitEntry, hdDen, den_up]
  have hk : (m.map hdDen).Nodup := by rw [← kd]; exact hkd
  have hk' : (m'.map hdDen).Nodup := by rw [← kd]; exact hkd'
  -- partners: same key meaning, same value meanings
  have hu : FinSet.mk (denDict ((m.map (List.map up)).map splitEntry)) =
      FinSet.mk (denDict ((m'.map (List.map up)).map splitEntry)) := by
    have : C02.Rep.den (up (Rep.dict m)) = C02.Rep.den (up (Rep.dict m')) := by rw [den_up, den_up, h]
    simpa [up_dict, C02.Rep.den, V.mkSet] using this
  have part : ∀ (l l' : List (List Rep)),
      (∀ kv, kv ∈ (l.map (List.map up)).map splitEntry → ∃ kv', kv' ∈ (l'.map (List.map up)).map splitEntry ∧
        C02.Rep.den kv.1 = C02.Rep.den kv'.1 ∧ ∀ d, d ∈ denList kv.2 ↔ d ∈ denList kv'.2) →
      wfDict ((l.map (List.map up)).map splitEntry) = true → wfDict ((l'.map (List.map up)).map splitEntry) = true →
      ∀ e ∈ l, ∃ e' ∈ l', hdDen e = hdDen e' ∧ ∀ d, d ∈ e.tail.map den ↔ d ∈ e'.tail.map den := by
    intro l l' P hw hw' e he
    obtain ⟨k, vs, rfl, _, _⟩ := shape l hw e he
    have hmem : splitEntry ((k :: vs).map up) ∈ (l.map (List.map up)).map splitEntry :=
      List.mem_map.2 ⟨(k :: vs).map up, List.mem_map.2 ⟨k :: vs, he, rfl⟩, rfl⟩
    obtain ⟨kv', hkv', e1, e2⟩ := P _ hmem
    obtain ⟨t, ht, rfl⟩ := List.mem_map.1 hkv'
    obtain ⟨e', he', rfl⟩ := List.mem_map.1 ht
    obtain ⟨k', vs', rfl, _, _⟩ := shape l' hw' e' he'
    refine ⟨k' :: vs', he', ?_, ?_⟩
    · simpa [splitEntry, hdDen, den_up] using e1
    · intro d
      have := e2 d
      simpa [splitEntry, denList_up] using this
  have P1 := ((dict_den_iff _ _ hwd hwd' hkd hkd').1 hu).2
  have P2 := ((dict_den_iff _ _ hwd' hwd hkd' hkd).1 hu.symm).2
  have part1 := part m m' P1 hwd hwd'
  have part2 := part m' m P2 hwd' hwd
  -- normalised key entries
  let nk : List Rep → List K := fun e => normE (e.map key)
  let dd : List Rep → V × List V := fun e => (hdDen e, FinSet.mk (e.tail.map den))
  have hperm : (m.map nk).Perm (m'.map nk) := by
    apply perm_of_match m m' dd dd nk nk
    · apply nodup_of_map Prod.fst; simpa [List.map_map, Function.comp_def, dd] using hk
    · apply nodup_of_map Prod.fst; simpa [List.map_map, Function.comp_def, dd] using hk'
    · intro v
      constructor
      · intro hv
        obtain ⟨e, he, rfl⟩ := List.mem_map.1 hv
        obtain ⟨e', he', h1, h2⟩ := part1 e he
        exact List.mem_map.2 ⟨e', he', by simp only [dd]; rw [h1, (FinSet.mk_eq_iff _ _).2 h2]⟩
      · intro hv
        obtain ⟨e', he', rfl⟩ := List.mem_map.1 hv
        obtain ⟨e, he, h1, h2⟩ := part2 e' he'
        exact List.mem_map.2 ⟨e, he, by simp only [dd]; rw [h1, (FinSet.mk_eq_iff _ _).2 h2]⟩
    · intro e he e' he' hd
      obtain ⟨k, vs, rfl, nv, cv⟩ := shape m hwd e he
      obtain ⟨k', vs', rfl, nv', cv'⟩ := shape m' hwd' e' he'
      have h1 : den k = den k' := (Prod.mk.inj hd).1
      have h2 : ∀ d, d ∈ vs.map den ↔ d ∈ vs'.map den := (FinSet.mk_eq_iff _ _).1 (Prod.mk.inj hd).2
      have ek : key k = key k' := IH _ he _ he' k (by simp) k' (by simp) (cv k (by simp)) (cv' k' (by simp)) h1
      have ev : isort K.lt (vs.map key) = isort K.lt (vs'.map key) :=
        sorted_keys_eq vs vs' nv nv' h2 (fun x hx y hy e =>
          IH _ he _ he' x (List.mem_cons_of_mem _ hx) y (List.mem_cons_of_mem _ hy)
            (cv x (List.mem_cons_of_mem _ hx)) (cv' y (List.mem_cons_of_mem _ hy)) e)
      simp only [nk, List.map_cons, normE, ek, ev]
  -- no two different entries of one dictionary share a key
  have inj : ∀ (l : List (List Rep)), wfDict ((l.map (List.map up)).map splitEntry) = true → (l.map hdDen).Nodup →
      (∀ e ∈ l.map nk, e ≠ []) ∧ ∀ e ∈ l.map nk, ∀ f ∈ l.map nk, entryHead e = entryHead f → e = f := by
    intro l hw hkl
    constructor
    · intro e he
      obtain ⟨e0, he0, rfl⟩ := List.mem_map.1 he
      obtain ⟨k, vs, rfl, _, _⟩ := shape l hw e0 he0
      simp [nk, normE]
    · intro e he f hf hh
      obtain ⟨e0, he0, rfl⟩ := List.mem_map.1 he
      obtain ⟨f0, hf0, rfl⟩ := List.mem_map.1 hf
      obtain ⟨k, vs, rfl, _, cv⟩ := shape l hw e0 he0
      obtain ⟨k', vs', rfl, _, cv'⟩ := shape l hw f0 hf0
      have hkk : key k = key k' := by simpa [nk, normE, entryHead] using hh
      have hd : hdDen (k :: vs) = hdDen (k' :: vs') := key_inj_den k k' (cv k (by simp)) (cv' k' (by simp)) hkk
      rw [inj_of_nodup_map hdDen l hkl _ he0 _ hf0 hd]
  obtain ⟨ne1, in1⟩ := inj m hwd hk
  obtain ⟨ne2, in2⟩ := inj m' hwd' hk'
  have conv : ∀ (l : List (List Rep)),
      (isort (fun e f => K.lt (entryHead e) (entryHead f)) (l.map (List.map key))).map entryKey =
      (isort byHead (l.map nk)).map entryKey := by
    intro l
    have h1 := map_isort normE byHead byHead (l.map (List.map key))
      (fun x _ y _ => by simp [byHead, entryHead_norm])
    have h2 : (l.map (List.map key)).map normE = l.map nk := by simp [nk, List.map_map, Function.comp_def]
    rw [h2] at h1
    rw [← h1, List.map_map]
    apply List.map_congr_left
    intro e _
    simp [Function.comp_def, entryKey_norm]
  rw [key_dict, key_dict, conv m, conv m', isort_byHead_eq _ ne1 in1, isort_byHead_eq _ ne2 in2,
    isort_perm_invariant cmpNode hperm]

open C02 C02.Rep C02.Theorems in
theorem key_complete : ∀ a : Rep, Canonical a → ∀ b, Canonical b → den a = den b → key a = key b := by
  apply depth_induction
  intro a ih ca b cb h
  have hu : C02.Rep.den (up a) = C02.Rep.den (up b) := by rw [den_up, den_up, h]
  have sr := wf_unique (up a) (up b) ca cb hu
  unfold Canonical at ca cb
  cases a <;> cases b <;>
    (try (simp only [up_num, up_charT, up_byteT, up_itemT, up_entryT, up_empty, up_true, up_str, up_bytes, up_gtuple,
      up_generic, up_array, up_dict, up_relation, up_union, sameRep] at sr; done))
  case num.num n m =>
    simp only [up_num, sameRep] at sr
    rw [sr]
  case charT.charT i c j d =>
    simp only [up_charT, sameRep] at sr
    rw [sr.1, sr.2]
  case byteT.byteT i c j d =>
    simp only [up_byteT, sameRep] at sr
    rw [sr.1, sr.2]
  case itemT.itemT i x j y =>
    simp only [up_itemT, sameRep, den_up] at sr
    simp only [up_itemT, wf] at ca cb
    rw [key_itemT, key_itemT, sr.1, ih x (by rw [depth_itemT]; omega) ca y cb sr.2]
  case entryT.entryT k v k' v' =>
    simp only [up_entryT, sameRep, den_up] at sr
    simp only [up_entryT, wf, Bool.and_eq_true] at ca cb
    rw [key_entryT, key_entryT, ih k (by rw [depth_entryT]; omega) ca.1 k' cb.1 sr.1,
      ih v (by rw [depth_entryT]; omega) ca.2 v' cb.2 sr.2]
  case empty.empty => rfl
  case true_.true_ => rfl
  case str.str s o s' o' =>
    simp only [up_str, sameRep] at sr
    rw [sr.1, sr.2.1]
  case bytes.bytes s o s' o' =>
    simp only [up_bytes, sameRep] at sr
    rw [sr.1, sr.2]
  case array.array vs o vs' o' =>
    simp only [up_array, sameRep] at sr
    simp only [up_array, wf, Bool.and_eq_true] at ca cb
    rw [key_array, key_array, sr.1]
    congr 3
    apply opts_key_congr
    · intro x hx y hy e
      exact ih x (depth_mem_array hx) (wfOpts_mem _ (up x) ca.1.2 (List.mem_map.2 ⟨some x, hx, rfl⟩)) y
        (wfOpts_mem _ (up y) cb.1.2 (List.mem_map.2 ⟨some y, hy, rfl⟩)) e
    · have := sr.2.2
      rw [denOpts_up vs (fun x _ => den_up x), denOpts_up vs' (fun x _ => den_up x)] at this
      exact this
  case generic.generic xs ys =>
    simp only [up_generic, sameRep, denList_up] at sr
    simp only [up_generic, wf, Bool.and_eq_true, decide_eq_true_eq, denList_up] at ca cb
    rw [key_generic, key_generic]
    congr 2
    apply sorted_keys_eq xs ys ca.1.2 cb.1.2 sr.2
    intro x hx y hy e
    exact ih x (depth_mem_generic hx) (wfList_mem _ (up x) ca.1.1.1.2 (List.mem_map.2 ⟨x, hx, rfl⟩)) y
      (wfList_mem _ (up y) cb.1.1.1.2 (List.mem_map.2 ⟨y, hy, rfl⟩)) e
  case gtuple.gtuple as bs =>
    exact gtuple_case as bs ca cb sr (fun p hp q hq cx cy e => ih p.2 (depth_attr_lt hp) cx q.2 cy e)
  case dict.dict m m' =>
    exact dict_case m m' ca cb h (fun e he e' he' x hx y hy cx cy ee => ih x (depth_mem_dict he hx) cx y cy ee)
  case relation.relation ns rows ns' rows' =>
    exact relation_case ns ns' rows rows' ca cb sr h
      (fun r hr r' hr' cx cy e => ih _ (depth_rowTuple_lt hr) cx _ cy e)
  case union.union bs bs' =>
    rw [key_union, key_union]
    congr 2
    exact union_case bs bs' ca cb sr (fun x hx y hy cx cy e => ih x (depth_mem_union hx) cx y cy e)

end Arrai.C06
