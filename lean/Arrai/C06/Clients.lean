/-
  C06 — clients of the order: orderby, rank, max/min (helper lemmas for Proofs/C06.lean).
-/
import Arrai.C06.Embed

namespace Arrai.C06
open Std

/-- comparison of two representations by the canonical keys of `f x`, `f y` -/
def kcmp (f : Rep → Rep) (x y : Rep) : Ordering := K.cmp (key (f x)) (key (f y))

instance (f : Rep → Rep) : TransCmp (kcmp f) where
  eq_swap := K.cmp_swap _ _
  isLE_trans := fun h₁ h₂ => TransCmp.isLE_trans (cmp := K.cmp) h₁ h₂

theorem less_eq_kcmp (f : Rep → Rep) : (fun x y => Impl.less (f x) (f y)) = (fun x y => kcmp f x y == .lt) := by
  funext x y; rw [less_eq]; rfl

theorem kcmp_ne_gt_iff (f : Rep → Rep) (x y : Rep) : kcmp f x y ≠ .gt ↔ Impl.less (f y) (f x) = false := by
  rw [less_eq, K.lt_swap]; unfold kcmp
  cases K.cmp (key (f x)) (key (f y)) <;> simp

theorem kcmp_lt_iff (f : Rep → Rep) (x y : Rep) : kcmp f x y = .lt ↔ Impl.less (f x) (f y) = true := by
  rw [less_eq]; unfold kcmp K.lt; simp

theorem kcmp_eq_iff (f : Rep → Rep) (x y : Rep) : kcmp f x y = .eq ↔ Impl.equal (f x) (f y) = true := by
  unfold kcmp Impl.equal K.beq; simp

namespace K
/-- if `x < z` then any `y` is above `x` or below `z` -/
theorem lt_cotrans {x z : K} (y : K) (h : lt x z = true) : lt x y = true ∨ lt y z = true := by
  rcases trichotomy x y with h' | h' | h'
  · exact Or.inl h'.1
  · rw [← h'.2.1]; exact Or.inr h
  · exact Or.inr (lt_trans h'.2.2 h)
end K

theorem less_cotrans {x z : Rep} (y : Rep) (h : Impl.less x z = true) :
    Impl.less x y = true ∨ Impl.less y z = true := by
  rw [less_eq] at h; rw [less_eq, less_eq]; exact K.lt_cotrans _ h

/-! ### orderby -/
theorem orderBy_perm (f : Rep → Rep) (xs : List Rep) : (Impl.orderBy f xs).Perm xs := isort_perm _ xs

theorem orderBy_sortedLE (f : Rep → Rep) (xs : List Rep) : SortedLE (kcmp f) (Impl.orderBy f xs) := by
  unfold Impl.orderBy; rw [less_eq_kcmp]; exact isort_sorted (kcmp f) xs

/-- no two members have equal sort keys -/
def NoTies (f : Rep → Rep) (xs : List Rep) : Prop := xs.Pairwise (fun x y => Impl.equal (f x) (f y) = false)

theorem NoTies.perm {f : Rep → Rep} {xs ys : List Rep} (h : NoTies f xs) (hp : xs.Perm ys) : NoTies f ys := by
  unfold NoTies at *
  refine h.perm hp ?_
  intro x y hxy
  cases hyx : Impl.equal (f y) (f x) with
  | false => rfl
  | true =>
    have : Impl.equal (f x) (f y) = true := by
      simp only [Impl.equal, K.beq_iff] at *; exact hyx.symm
    rw [this] at hxy; cases hxy

theorem sortedLT_of_noTies {f : Rep → Rep} {l : List Rep} (h : SortedLE (kcmp f) l) (hn : NoTies f l) :
    SortedLT (kcmp f) l := by
  unfold SortedLE SortedLT NoTies at *
  induction l with
  | nil => exact List.Pairwise.nil
  | cons x xs ih =>
    rw [List.pairwise_cons] at h hn ⊢
    refine ⟨?_, ih h.2 hn.2⟩
    intro y hy
    cases hc : kcmp f x y with
    | lt => rfl
    | gt => exact absurd hc (h.1 y hy)
    | eq =>
      have := (kcmp_eq_iff f x y).1 hc
      rw [hn.1 y hy] at this; cases this

theorem sortedLT_perm_eq {f : Rep → Rep} {l₁ l₂ : List Rep} (h₁ : SortedLT (kcmp f) l₁) (h₂ : SortedLT (kcmp f) l₂)
    (hp : l₁.Perm l₂) : l₁ = l₂ := by
  apply List.Perm.eq_of_pairwise (le := fun a b => kcmp f a b = .lt) _ h₁ h₂ hp
  intro a b _ _ hab hba
  have : kcmp f b a = .gt := by rw [OrientedCmp.eq_swap (cmp := kcmp f) (a := b) (b := a), hab]; rfl
  rw [this] at hba; cases hba

theorem orderBy_perm_invariant {f : Rep → Rep} {xs ys : List Rep} (hn : NoTies f xs) (hp : xs.Perm ys) :
    Impl.orderBy f xs = Impl.orderBy f ys := by
  apply sortedLT_perm_eq (f := f)
  · exact sortedLT_of_noTies (orderBy_sortedLE f xs) (hn.perm (orderBy_perm f xs).symm)
  · exact sortedLT_of_noTies (orderBy_sortedLE f ys) ((hn.perm hp).perm (orderBy_perm f ys).symm)
  · exact (orderBy_perm f xs).trans (hp.trans (orderBy_perm f ys).symm)

/-- sorted key sequences do not depend on the enumeration order even with ties -/
theorem orderBy_keys_perm_invariant (f : Rep → Rep) {xs ys : List Rep} (hp : xs.Perm ys) :
    (Impl.orderBy f xs).map (fun x => key (f x)) = (Impl.orderBy f ys).map (fun x => key (f x)) := by
  have h : ∀ l : List Rep, (Impl.orderBy f l).map (fun x => key (f x)) = isort K.lt (l.map (fun x => key (f x))) := by
    intro l
    exact map_isort (fun x => key (f x)) _ K.lt l (fun x _ y _ => less_eq _ _)
  rw [h, h]
  exact isort_perm_invariant K.cmp (hp.map _)

/-! ### max / min -/
theorem maxLoop_spec : ∀ (l : List Rep) (acc : Option Rep) (m : Rep), Impl.maxLoop acc l = some m →
    (m ∈ l ∨ acc = some m) ∧ (∀ y ∈ l, Impl.less m y = false) ∧ (∀ a, acc = some a → Impl.less m a = false)
  | [], acc, m, h => by
    simp only [Impl.maxLoop] at h
    refine ⟨Or.inr h, by simp, ?_⟩
    intro a ha; rw [h] at ha; cases ha
    rw [less_eq]; exact K.lt_irrefl _
  | v :: vs, none, m, h => by
    simp only [Impl.maxLoop] at h
    obtain ⟨h1, h2, h3⟩ := maxLoop_spec vs (some v) m h
    refine ⟨Or.inl ?_, ?_, by simp⟩
    · rcases h1 with h1 | h1
      · exact List.mem_cons_of_mem _ h1
      · cases h1; simp
    · intro y hy
      rcases List.mem_cons.1 hy with rfl | hy
      · exact h3 _ rfl
      · exact h2 y hy
  | v :: vs, some a, m, h => by
    simp only [Impl.maxLoop] at h
    by_cases hav : Impl.less a v = true
    · rw [if_pos hav] at h
      obtain ⟨h1, h2, h3⟩ := maxLoop_spec vs (some v) m h
      have hmv : Impl.less m v = false := h3 _ rfl
      refine ⟨?_, ?_, ?_⟩
      · rcases h1 with h1 | h1
        · exact Or.inl (List.mem_cons_of_mem _ h1)
        · cases h1; exact Or.inl (by simp)
      · intro y hy
        rcases List.mem_cons.1 hy with rfl | hy
        · exact hmv
        · exact h2 y hy
      · intro a' ha'; cases ha'
        cases hma : Impl.less m a with
        | false => rfl
        | true =>
          have : Impl.less m v = true := by rw [less_eq] at *; exact K.lt_trans hma hav
          rw [this] at hmv; cases hmv
    · rw [if_neg hav] at h
      obtain ⟨h1, h2, h3⟩ := maxLoop_spec vs (some a) m h
      have hma : Impl.less m a = false := h3 _ rfl
      refine ⟨?_, ?_, h3⟩
      · rcases h1 with h1 | h1
        · exact Or.inl (List.mem_cons_of_mem _ h1)
        · exact Or.inr h1
      · intro y hy
        rcases List.mem_cons.1 hy with rfl | hy
        · cases hmy : Impl.less m y with
          | false => rfl
          | true =>
            rcases less_cotrans a hmy with h' | h'
            · rw [h'] at hma; cases hma
            · exact absurd h' hav
        · exact h2 y hy

theorem minLoop_spec : ∀ (l : List Rep) (acc : Option Rep) (m : Rep), Impl.minLoop acc l = some m →
    (m ∈ l ∨ acc = some m) ∧ (∀ y ∈ l, Impl.less y m = false) ∧ (∀ a, acc = some a → Impl.less a m = false)
  | [], acc, m, h => by
    simp only [Impl.minLoop] at h
    refine ⟨Or.inr h, by simp, ?_⟩
    intro a ha; rw [h] at ha; cases ha
    rw [less_eq]; exact K.lt_irrefl _
  | v :: vs, none, m, h => by
    simp only [Impl.minLoop] at h
    obtain ⟨h1, h2, h3⟩ := minLoop_spec vs (some v) m h
    refine ⟨Or.inl ?_, ?_, by simp⟩
    · rcases h1 with h1 | h1
      · exact List.mem_cons_of_mem _ h1
      · cases h1; simp
    · intro y hy
      rcases List.mem_cons.1 hy with rfl | hy
      · exact h3 _ rfl
      · exact h2 y hy
  | v :: vs, some a, m, h => by
    simp only [Impl.minLoop] at h
    by_cases hva : Impl.less v a = true
    · rw [if_pos hva] at h
      obtain ⟨h1, h2, h3⟩ := minLoop_spec vs (some v) m h
      have hvm : Impl.less v m = false := h3 _ rfl
      refine ⟨?_, ?_, ?_⟩
      · rcases h1 with h1 | h1
        · exact Or.inl (List.mem_cons_of_mem _ h1)
        · cases h1; exact Or.inl (by simp)
      · intro y hy
        rcases List.mem_cons.1 hy with rfl | hy
        · exact hvm
        · exact h2 y hy
      · intro a' ha'; cases ha'
        cases ham : Impl.less a m with
        | false => rfl
        | true =>
          have : Impl.less v m = true := by rw [less_eq] at *; exact K.lt_trans hva ham
          rw [this] at hvm; cases hvm
    · rw [if_neg hva] at h
      obtain ⟨h1, h2, h3⟩ := minLoop_spec vs (some a) m h
      have ham : Impl.less a m = false := h3 _ rfl
      refine ⟨?_, ?_, h3⟩
      · rcases h1 with h1 | h1
        · exact Or.inl (List.mem_cons_of_mem _ h1)
        · exact Or.inr h1
      · intro y hy
        rcases List.mem_cons.1 hy with rfl | hy
        · cases hym : Impl.less y m with
          | false => rfl
          | true =>
            rcases less_cotrans a hym with h' | h'
            · exact absurd h' hva
            · rw [h'] at ham; cases ham
        · exact h2 y hy

theorem maxLoop_some : ∀ (l : List Rep) (a : Rep), ∃ m, Impl.maxLoop (some a) l = some m
  | [], a => ⟨a, rfl⟩
  | v :: vs, a => by
    simp only [Impl.maxLoop]
    split
    · exact maxLoop_some vs v
    · exact maxLoop_some vs a

theorem minLoop_some : ∀ (l : List Rep) (a : Rep), ∃ m, Impl.minLoop (some a) l = some m
  | [], a => ⟨a, rfl⟩
  | v :: vs, a => by
    simp only [Impl.minLoop]
    split
    · exact minLoop_some vs v
    · exact minLoop_some vs a

/-! ### rank -/
/-- how many members of `L` have a sort key strictly below `k` -/
def cnt (f : Rep → Rep) (k : K) (L : List Rep) : Nat := (L.filter (fun y => K.lt (key (f y)) k)).length

theorem cnt_append_of_ge (f : Rep → Rep) (k : K) (pre l : List Rep) (h : ∀ z ∈ l, K.lt (key (f z)) k = false) :
    cnt f k (pre ++ l) = cnt f k pre := by
  unfold cnt
  rw [List.filter_append, List.length_append]
  have : l.filter (fun y => K.lt (key (f y)) k) = [] := by
    rw [List.filter_eq_nil_iff]; intro z hz; simp [h z hz]
  rw [this]; rfl

theorem cnt_all_lt (f : Rep → Rep) (k : K) (pre : List Rep) (h : ∀ y ∈ pre, K.lt (key (f y)) k = true) :
    cnt f k pre = pre.length := by
  unfold cnt
  rw [List.filter_eq_self.2 (fun y hy => h y hy)]

theorem not_lt_of_ne_gt {a b : K} (h : K.cmp a b ≠ .gt) : K.lt b a = false := by
  rw [K.lt_swap]; cases hc : K.cmp a b <;> simp_all

theorem rankLoop_spec (f : Rep → Rep) : ∀ (l pre : List Rep) (i rank : Nat) (current : Option Rep),
    SortedLE (kcmp f) (pre ++ l) → i = pre.length →
    ((current = none ∧ pre = []) ∨
      (∃ c, current = some c ∧ (∃ p, p ∈ pre ∧ key (f p) = key c) ∧
        (∀ y ∈ pre, K.cmp (key (f y)) (key c) ≠ .gt) ∧ rank = cnt f (key c) pre)) →
    ∀ p ∈ Impl.rankLoop f l i rank current, p.2 = cnt f (key (f p.1)) (pre ++ l)
  | [], _, _, _, _, _, _, _ => by intro p hp; simp [Impl.rankLoop] at hp
  | r :: rs, pre, i, rank, current, hs, hi, inv => by
    have hsplit := List.pairwise_append.1 hs
    obtain ⟨_, hl, hcross⟩ := hsplit
    rw [List.pairwise_cons] at hl
    have hrs : ∀ z ∈ r :: rs, K.lt (key (f z)) (key (f r)) = false := by
      intro z hz
      rcases List.mem_cons.1 hz with rfl | hz
      · exact K.lt_irrefl _
      · exact not_lt_of_ne_gt (hl.1 z hz)
    have hcount : cnt f (key (f r)) (pre ++ r :: rs) = cnt f (key (f r)) pre := cnt_append_of_ge f _ pre _ hrs
    have hassoc : (pre ++ [r]) ++ rs = pre ++ r :: rs := by simp
    have hpre_le : ∀ y ∈ pre, K.cmp (key (f y)) (key (f r)) ≠ .gt := fun y hy => hcross y hy r (by simp)
    intro p hp
    cases current with
    | none =>
      obtain ⟨_, hpre⟩ : (none : Option Rep) = none ∧ pre = [] := by
        rcases inv with h | ⟨c, hc, _⟩
        · exact h
        · cases hc
      subst hpre
      simp only [Impl.rankLoop, List.mem_cons] at hp
      rcases hp with rfl | hp
      · simp only [hcount]; simp [cnt, hi]
      · have := rankLoop_spec f rs ([] ++ [r]) (i + 1) i (some (f r)) (by rw [hassoc]; exact hs) (by simp [hi])
          (Or.inr ⟨f r, rfl, ⟨r, by simp, rfl⟩, by
            intro y hy; simp at hy; subst hy; rw [K.cmp_self]; simp, by simp [cnt, hi, K.lt_irrefl]⟩) p hp
        rw [hassoc] at this; exact this
    | some c =>
      obtain ⟨q, hq, hqc, hle, hrank⟩ : ∃ q, q ∈ pre ∧ key (f q) = key c ∧
          (∀ y ∈ pre, K.cmp (key (f y)) (key c) ≠ .gt) ∧ rank = cnt f (key c) pre := by
        rcases inv with h | ⟨c', hc', ⟨q, hq, hqc⟩, hle, hrank⟩
        · cases h.1
        · cases hc'; exact ⟨q, hq, hqc, hle, hrank⟩
      simp only [Impl.rankLoop] at hp
      by_cases heq : Impl.equal (f r) c = true
      · -- same run of equal keys: the rank is unchanged
        have hk : key (f r) = key c := by simpa [Impl.equal, K.beq_iff] using heq
        rw [if_neg (by simp [heq])] at hp
        rcases List.mem_cons.1 hp with rfl | hp
        · show rank = cnt f (key (f r)) (pre ++ r :: rs)
          rw [hcount, hk]; exact hrank
        · have := rankLoop_spec f rs (pre ++ [r]) (i + 1) rank (some c) (by rw [hassoc]; exact hs) (by simp [hi])
            (Or.inr ⟨c, rfl, ⟨q, by simp [hq], hqc⟩, by
              intro y hy
              rcases List.mem_append.1 hy with hy | hy
              · exact hle y hy
              · simp at hy; subst hy; rw [hk, K.cmp_self]; simp, by
              rw [hrank, cnt_append_of_ge f (key c) pre [r]]
              intro z hz; simp at hz; subst hz; rw [hk]; exact K.lt_irrefl _⟩) p hp
          rw [hassoc] at this; exact this
      · -- a new run: every earlier entry is strictly smaller
        have hne : key c ≠ key (f r) := by
          intro e; apply heq; simp [Impl.equal, K.beq_iff, e]
        have hclt : K.lt (key c) (key (f r)) = true := by
          have h1 := hpre_le q hq
          rw [hqc] at h1
          rcases K.trichotomy (key c) (key (f r)) with h | h | h
          · exact h.1
          · exact absurd h.2.1 hne
          · have := not_lt_of_ne_gt h1; rw [h.2.2] at this; cases this
        have hall : ∀ y ∈ pre, K.lt (key (f y)) (key (f r)) = true := by
          intro y hy
          rcases K.trichotomy (key (f y)) (key c) with h | h | h
          · exact K.lt_trans h.1 hclt
          · rw [h.2.1]; exact hclt
          · have := not_lt_of_ne_gt (hle y hy); rw [h.2.2] at this; cases this
        rw [if_pos (by simp [heq])] at hp
        rcases List.mem_cons.1 hp with rfl | hp
        · simp only [hcount]; rw [cnt_all_lt f _ pre hall, hi]
        · have := rankLoop_spec f rs (pre ++ [r]) (i + 1) i (some (f r)) (by rw [hassoc]; exact hs) (by simp [hi])
            (Or.inr ⟨f r, rfl, ⟨r, by simp, rfl⟩, by
              intro y hy
              rcases List.mem_append.1 hy with hy | hy
              · exact hpre_le y hy
              · simp at hy; subst hy; rw [K.cmp_self]; simp, by
              rw [cnt_append_of_ge f (key (f r)) pre [r], cnt_all_lt f _ pre hall, hi]
              intro z hz; simp at hz; subst hz; exact K.lt_irrefl _⟩) p hp
          rw [hassoc] at this; exact this

theorem rankLoop_fst (f : Rep → Rep) : ∀ (l : List Rep) (i rank : Nat) (current : Option Rep),
    (Impl.rankLoop f l i rank current).map (·.1) = l
  | [], _, _, _ => rfl
  | r :: rs, i, rank, current => by
    cases current with
    | none => simp [Impl.rankLoop, rankLoop_fst f rs]
    | some c =>
      simp only [Impl.rankLoop]
      split <;> simp [rankLoop_fst f rs]

end Arrai.C06
