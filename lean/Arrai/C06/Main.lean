import Arrai.Core.DriverMain
import Arrai.C06.Gen

def main (args : List String) : IO UInt32 := Arrai.driverMain Arrai.C06.gen args
