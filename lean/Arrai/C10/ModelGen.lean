/-
  C10: source text of the modelled expressions and their generator (stream 1 of Gen.lean).
  Ill-typed operands are weighted to about one half: every operator meets operands of every kind.
-/
import Arrai.C10.Model

namespace Arrai.C10
open Arrai

def BinOp.src : BinOp → String
  | .add => "+" | .sub => "-" | .mul => "*" | .with_ => "with" | .without => "without" | .union => "|"
  | .inter => "&" | .diff => "&~" | .symdiff => "~~" | .concat => "++" | .offset => "\\" | .call => "call"

def CmpOp.src : CmpOp → String
  | .eq => "=" | .ne => "!=" | .lt => "<" | .le => "<=" | .gt => ">" | .ge => ">=" | .mem => "<:" | .nmem => "!<:"
  | .sub => "(<)" | .sup => "(>)" | .subeq => "(<=)" | .supeq => "(>=)" | .subsup => "(<>)" | .subsupeq => "(<>=)"
  | .nsub => "!(<)" | .nsup => "!(>)" | .nsubeq => "!(<=)" | .nsupeq => "!(>=)" | .nsubsup => "!(<>)"
  | .nsubsupeq => "!(<>=)"

mutual
def E.src : E → String
  | .num n => Lit.numSrc n
  | .str cs => "'" ++ String.join (cs.map Lit.charSrc) ++ "'"
  | .tuple kvs => "(" ++ ", ".intercalate (srcAttrs kvs) ++ ")"
  | .set xs => "{" ++ ", ".intercalate (srcList xs) ++ "}"
  | .arr xs => "[" ++ ", ".intercalate (srcList xs) ++ "]"
  | .dict kvs => "{" ++ ", ".intercalate (srcPairs kvs) ++ "}"
  | .rel hd rows => "{|" ++ ", ".intercalate (hd.map Lit.nameSrc) ++ "| " ++ ", ".intercalate (srcRows rows) ++ "}"
  | .bin op a b =>
    if op == .call then "(" ++ E.src a ++ ")(" ++ E.src b ++ ")"
    else "(" ++ E.src a ++ ") " ++ op.src ++ " (" ++ E.src b ++ ")"
  | .cmp op a b => "(" ++ E.src a ++ ") " ++ op.src ++ " (" ++ E.src b ++ ")"
  | .un .neg a => "-(" ++ E.src a ++ ")"
  | .un .count a => "(" ++ E.src a ++ ") count"
  | .dot a name => "(" ++ E.src a ++ ")." ++ Lit.nameSrc name
  | .seqmap a c => "(" ++ E.src a ++ ") >> \\z (" ++ E.src c ++ ")"
def srcList : List E → List String
  | [] => []
  | e :: r => E.src e :: srcList r
def srcAttrs : List (String × E) → List String
  | [] => []
  | (n, e) :: r => (Lit.nameSrc n ++ ": " ++ E.src e) :: srcAttrs r
def srcPairs : List (E × E) → List String
  | [] => []
  | (k, e) :: r => (E.src k ++ ": " ++ E.src e) :: srcPairs r
def srcRows : List (List E) → List String
  | [] => []
  | row :: r => ("(" ++ ", ".intercalate (srcList row) ++ ")") :: srcRows r
end

def plainNames : List String := ["a", "b", "c", "x"]
def oddNames : List String := ["@", "@char", "@byte", "@item", "@value", "a, b", "b, c", "a b", "@neg", ""]

def genName : Gen String := do
  if ← chance 2 3 then pick plainNames else pick oddNames

/-- headings are identifiers (the grammar admits nothing else between the bars) -/
def genHeading : Gen (List String) := do
  let r ← rand 8
  match r with
  | 0 => pure ["@", "@char"] | 1 => pure ["@", "@item"] | 2 => pure ["@", "@byte"] | 3 => pure ["@", "@value"]
  | 4 => pure ["@item", "@"]
  | _ => do
    let n ← rand 3
    let ns ← genList (n + 1) (pick (plainNames ++ ["@", "@char", "@byte", "@item", "@value", "@neg"]))
    pure ns.eraseDups

def allBin : List BinOp := [.add, .sub, .mul, .with_, .without, .union, .inter, .diff, .symdiff, .concat, .offset, .call]
def allCmp : List CmpOp :=
  [.eq, .ne, .lt, .le, .gt, .ge, .mem, .nmem, .sub, .sup, .subeq, .supeq, .subsup, .subsupeq,
   .nsub, .nsup, .nsubeq, .nsupeq, .nsubsup, .nsubsupeq]

/-- data literals (depth d) -/
def genData : Nat → Gen E
  | 0 => do
    let r ← rand 8
    match r with
    | 0 => pure (.set []) | 1 => pure (.tuple []) | 2 => pure (.set [.tuple []])
    | 3 => do
      let n ← rand 3
      pure (.str (← genList n (do pure (97 + (← rand 3)))))
    | _ => do pure (.num (← randInt (-2) 3))
  | d + 1 => do
    let r ← rand 12
    match r with
    | 0 | 1 => genData 0
    | 2 | 3 => do
      let n ← rand 3
      let ns := (← genList (n + 1) genName)
      pure (.tuple (← ns.mapM (fun k => do pure (k, ← genData d))))
    | 4 | 5 => do
      let n ← rand 4
      pure (.set (← genList n (genData d)))
    | 6 => do
      let n ← rand 4
      pure (.arr (← genList n (genData d)))
    | 7 => do
      let n ← rand 3
      pure (.dict (← genList n (do pure (← genData d, ← genData d))))
    | 8 | 9 => do
      let hd ← genHeading
      let m ← rand 3
      let short ← chance 1 12
      let w := if short then hd.length + 1 else hd.length
      pure (.rel hd (← genList (m + 1) (genList w (genData d))))
    | _ => do
      -- a set of tuples that share or nearly share a heading (relation buckets)
      let k ← rand 6
      let ns ← if k == 0 then pure ["a", "b"] else if k == 1 then pure ["a", "b", "c"] else genList 2 genName
      let alt ← if k == 0 then pure ["a, b"] else if k == 1 then pure ["a", "b, c"] else genList 2 genName
      let m ← rand 3
      let rows ← genList (m + 1) (do
        let use ← chance 1 4
        let names := if use then alt else ns
        names.mapM (fun k => do pure (k, ← genData d)))
      pure (.set (rows.map E.tuple))

/-- operator expressions (depth d) over data operands -/
def genE : Nat → Gen E
  | 0 => do
    let d ← rand 3
    genData d
  | d + 1 => do
    let sub := genE d
    let r ← rand 12
    match r with
    | 0 | 1 | 2 | 3 | 4 => do pure (.bin (← pick allBin) (← sub) (← sub))
    | 5 | 6 | 7 => do pure (.cmp (← pick allCmp) (← sub) (← sub))
    | 8 => do pure (.un (← pick [.neg, .count]) (← sub))
    | 9 => do pure (.dot (← sub) (← genName))
    | 10 => do pure (.seqmap (← sub) (← genData 1))
    | _ => do
      let k ← rand 3
      match k with
      | 0 => do pure (.set [← sub, ← sub])
      | 1 => do pure (.tuple [(← genName, ← sub), (← genName, ← sub)])
      | _ => do pure (.arr [← sub, ← sub])

def Outcome.obs : Outcome V → String
  | .ok _ => "value"
  | .err => "error"
  | .panic s => "panic:" ++ s.frame

/-- first open site met in evaluation order, for the class of the case -/
def findingOf (e : E) : String :=
  match run e with
  | .panic s => s.finding
  | _ => if trig e then "KF-pinned-panics" else "good"

end Arrai.C10
