/-
  C10, part (c): two systematic (enumerated, not sampled) streams.

  libGrid   for EVERY function of the safe library, EVERY parameter position and EVERY boundary argument of the
            pool below (numbers around zero and at 2^31/2^53/1e300, empty/singleton/many of each sequence kind,
            holes and offsets, empty and non-empty set/dict/tuple/relation incl. zero-row and computed empties,
            booleans, a function value): one cell (function, position, boundary).  The other positions are filled
            with each of five typical arguments in turn (functions of the fragment named by the task) or with one
            randomly chosen typical argument (the rest), so that a cell occurs 5 times (1 for unary functions).
  opGrid    every unary/binary/postfix operator of the grammar applied to every empty or degenerate operand
            (literal empties, one-element collections, empties computed by `where`) on either side, the other
            side taken from a few typical partners (function bodies for the operators that take one).

  The cells are enumerated deterministically; only the fillers marked random depend on the seed.
-/
import Arrai.C10.Fuzz

namespace Arrai.C10
open Arrai

/-- (source, kind tag) -/
def boundaryArgs : List (String × String) :=
  [("(-2)", "num<0"), ("(-1.5)", "num<0"), ("(-1)", "num<0"), ("(-0.5)", "num<0"), ("0", "zero"), ("0.5", "frac"), ("1", "num"), ("1.5", "frac"),
   ("2", "num"), ("2147483648", "huge"), ("9007199254740992", "huge"), ("1e300", "huge"),
   ("''", "str0"), ("'a'", "str1"), ("'abc'", "str"), ("2\\'ab'", "str-off"),
   ("<<>>", "bytes0"), ("<<1>>", "bytes1"), ("<<1, 2, 3>>", "bytes"), ("2\\<<1, 2>>", "bytes-off"),
   ("[]", "arr0"), ("[1]", "arr1"), ("[1, 2, 3]", "arr"), ("[1, , 3]", "arr-hole"), ("2\\[1, 2]", "arr-off"),
   ("[1, , , , 2]", "arr-sparse"), ("[2, , , 3]", "arr-sparse"), ("2\\[1, , , 2]", "arr-sparse-off"),
   ("[1, , 2, , , 3]", "arr-sparse"), ("['a', 'b']", "arr-str"), ("[[1], [2]]", "arr-arr"), ("[<<1>>, <<2>>]", "arr-bytes"),
   ("{}", "set0"), ("{1}", "set1"), ("{1, 2, 3}", "set"), ("{'a': 1}", "dict1"), ("{1: 2, 3: 4}", "dict"),
   ("()", "tup0"), ("(a: 1)", "tup"), ("{|x|}", "rel0"), ("{|x| (1)}", "rel1"), ("{|x, y| (1, 2), (3, 4)}", "rel"),
   ("({|x| (1), (2)} where .x > 5)", "rel-empty"), ("([1, 2] where .@ > 5)", "arr-empty"), ("('ab' where .@ > 5)", "str-empty"),
   ("true", "bool"), ("false", "bool"), ("(\\x x)", "fn"), ("//str.upper", "fn")]

def typicalArgs : List String := ["'abc'", "[1, 2]", "<<1, 2>>", "2", "{'a': 1}"]

def libCall (path : String) (args : List String) : String :=
  path ++ String.join (args.map (fun a => s!"({a})"))

def libCellClass (path : String) (args : List String) : String :=
  match pinnedClass (" ".intercalate args) with
  | some c => c
  | none =>
    if path == "//grammar.parse" then "KF-grammar-parse"
    else if path == "//fn.fix" || path == "//fn.fixt" || args.any mentionsFn then "KF-function-as-set"
    else "good"

/-- all cells of one function -/
def libCells (fn : String × Nat × Bool) : List (String × String × List String) :=
  let (path, arity, core) := fn
  (List.range arity).flatMap (fun pos =>
    boundaryArgs.flatMap (fun (b, tag) =>
      let fillers := if arity == 1 then [""] else if core then typicalArgs else ["?"]
      fillers.map (fun t =>
        let args := (List.range arity).map (fun i => if i == pos then b else t)
        (path, s!"grid/{path}/{pos}/{tag}", args))))

def libGrid (seed : Nat) : List Case := Id.run do
  let mut out : List Case := []
  let mut i := 0
  for fn in libFns do
    for (path, stratum, args) in libCells fn do
      -- "?" = one typical argument chosen at random (functions outside the named fragment)
      let (args, _) := (args.mapM (fun a => if a == "?" then pick typicalArgs else pure a)).run (seedOf seed (7000000 + i))
      out := { id := s!"C10-lib-{i}", cls := libCellClass path args, kind := "survive", stratum := stratum,
               model := "ok", spec := "!panic", payload := [libCall path args] } :: out
      i := i + 1
  pure out.reverse

/-! ## operators × degenerate operands -/

def degenerate : List (String × String) :=
  [("{}", "set0"), ("[]", "arr0"), ("''", "str0"), ("<<>>", "bytes0"), ("()", "tup0"), ("{()}", "true"),
   ("{1}", "set1"), ("[1]", "arr1"), ("'a'", "str1"), ("<<1>>", "bytes1"), ("(a: 1)", "tup1"), ("{(a: 1)}", "rel1"),
   ("{|x|}", "rel0"), ("({|x| (1), (2)} where .x > 5)", "rel-empty"), ("([1, 2] where .@ > 5)", "arr-empty"),
   ("('ab' where .@ > 5)", "str-empty"), ("({1, 2} where . > 5)", "set-empty"), ("({'a': 1} where .@ = 'b')", "dict-empty"),
   ("(<<1, 2>> where .@ > 5)", "bytes-empty"), ("{'a': 1}", "dict1")]

def partners : List String := ["{|x| (1), (2)}", "[1, 2]"]

/-- right-hand sides of the operators that take a function -/
def fnPartners : List String := ["\\x x", "(r: .x)", "(r: .@)", "(r: .)", ".x", ". + 1", "\\x \\y x < y", "\\x 1", "\\x (a: x)"]

def fnOps : List String :=
  ["->", "=>", ">>", ">>>", ":>", "where", "orderby", "order", "rank", "sum", "max", "min", "mean", "median", "filter"]

def plainBinOps : List String := binOps.filter (fun op => !fnOps.contains op)

def opCase (i : Nat) (stratum src : String) (operands : List String) : Case :=
  { id := s!"C10-op-{i}", cls := classifyOps src operands, kind := "survive", stratum := stratum,
    model := "ok", spec := "!panic", payload := [src] }

def opGrid : List Case := Id.run do
  let mut out : List Case := []
  let mut i := 0
  for (d, tag) in degenerate do
    -- binary operators, degenerate operand on either side
    for op in plainBinOps do
      for p in partners ++ [d] do
        out := opCase i s!"grid/bin/{op}/L/{tag}" s!"{d} {op} {p}" [d, p] :: out
        out := opCase (i + 1) s!"grid/bin/{op}/R/{tag}" s!"{p} {op} {d}" [d, p] :: out
        i := i + 2
    -- operators that take a function on the right
    for op in fnOps do
      for f in fnPartners do
        let src := if op == "filter" then s!"{d} filter . " ++ "{" ++ s!"(:x, ...): x, [y, ...]: y, _: 0" ++ "}" else s!"{d} {op} {f}"
        out := opCase i s!"grid/fn/{op}/{tag}" src [d] :: out
        i := i + 1
      -- and a degenerate value where the function is expected
      out := opCase i s!"grid/fn/{op}/R/{tag}" s!"[1, 2] {op} {d}" [d] :: out
      i := i + 1
    -- unary, postfix, nest/unnest, projection, attribute access, call, offset, conditionals, literals
    for u in unOps do
      out := opCase i s!"grid/un/{u}/{tag}" s!"{u} {d}" [d] :: out
      i := i + 1
    let others : List (String × String) :=
      [("count", s!"{d} count"), ("single", s!"{d} single"), ("nest", s!"{d} nest x"), ("nest2", s!"{d} nest |x| n"),
       ("nest-inv", s!"{d} nest ~|x| n"), ("unnest", s!"{d} unnest x"), ("proj", s!"{d}.|x|"), ("proj-inv", s!"{d}.~|x|"),
       ("dot", s!"{d}.x"), ("dot@", s!"{d}.@"), ("safedot", s!"{d}.x?:0"), ("call0", s!"{d}(0)"), ("call-d", s!"[1, 2]({d})"),
       ("call-self", s!"{d}({d})"), ("safecall", s!"{d}(0)?:1"), ("offset-L", s!"{d} \\ [1, 2]"), ("offset-R", s!"1 \\ {d}"),
       ("offset-neg", s!"(-1) \\ {d}"), ("if", s!"1 if {d} else 2"), ("cond", "cond {" ++ s!"{d}: 1, _: 2" ++ "}"),
       ("condv", s!"cond {d} " ++ "{" ++ s!"[]: 1, (): 2, {d}: 3, _: 4" ++ "}"), ("letarr", s!"let [x, ...t] = {d}; t"),
       ("lettup", s!"let (x?: x: 0, ...t) = {d}; t"), ("letset", s!"let " ++ "{x, ...t}" ++ s!" = {d}; t"),
       ("letdict", "let {'a'?: x: 0, ...t}" ++ s!" = {d}; t"), ("xstr", "$\"${" ++ d ++ "}${" ++ d ++ ":s}${" ++ d ++ "::, }\""),
       ("mkset", "{" ++ s!"{d}, {d}" ++ "}"), ("mkarr", s!"[{d}, , {d}]"), ("mkdict", "{" ++ s!"{d}: {d}" ++ "}"),
       ("mktup", s!"(x: {d}, y: {d})"), ("mkrel", "{|x, y| " ++ s!"({d}, {d})" ++ "}"), ("mkbytes", s!"<<{d}>>"),
       ("powerset", s!"^ ^ {d}"), ("neg2", s!"- - {d}"), ("tuplemap", s!"{d} :> \\v v"), ("arrowdot", s!"{d} -> .x")]
    for (k, src) in others do
      out := opCase i s!"grid/misc/{k}/{tag}" src [d] :: out
      i := i + 1
  pure out.reverse

/-! ## sequence functions: sparse × dense

Count() counts items, len(Values()) counts slots: every function with two or three sequence parameters gets a sparse
array that is longer in slots but not in items than the dense one, in every position, and sparse × sparse. -/

def sparseArgs : List String := ["[1, , , , 2]", "[2, , , 3]", "2\\[1, , , 2]", "[1, , 2, , , 3]", "(-2)\\[3, , , , , 4]"]
def denseArgs : List String := ["[1, 2, 3]", "[2, 3]", "[1, 2]", "[1, 2, 3, 4, 5, 6]", "2\\[1, 2]"]

def seqFns2 : List String :=
  ["//seq.contains", "//seq.has_prefix", "//seq.has_suffix", "//seq.join", "//seq.split", "//seq.trim_prefix",
   "//seq.trim_suffix"]

def seqPairGrid : List Case := Id.run do
  let mut out : List Case := []
  let mut i := 0
  let mk (i : Nat) (stratum src : String) : Case :=
    { id := s!"C10-seq-{i}", cls := "good", kind := "survive", stratum := stratum, model := "ok", spec := "!panic",
      payload := [src] }
  for f in seqFns2 do
    for sp in sparseArgs do
      for d in denseArgs ++ sparseArgs do
        out := mk i s!"grid/sparse/{f}/0" (libCall f [sp, d]) :: out
        out := mk (i + 1) s!"grid/sparse/{f}/1" (libCall f [d, sp]) :: out
        i := i + 2
  for sp in sparseArgs do
    for d in denseArgs do
      for e in ["[1]", sp] do
        out := mk i "grid/sparse///seq.sub/0" (libCall "//seq.sub" [sp, e, d]) :: out
        out := mk (i + 1) "grid/sparse///seq.sub/1" (libCall "//seq.sub" [e, sp, d]) :: out
        out := mk (i + 2) "grid/sparse///seq.sub/2" (libCall "//seq.sub" [d, e, sp]) :: out
        i := i + 3
    out := mk i "grid/sparse///seq.concat" (libCall "//seq.concat" [s!"[{sp}, [1, 2], {sp}]"]) :: out
    out := mk (i + 1) "grid/sparse///seq.repeat" (libCall "//seq.repeat" ["2", sp]) :: out
    i := i + 2
  pure out.reverse

/-! ## keyed sequences × boundary indices

For every keyed sequence kind (string, bytes, array), offset (−2, 0, 2) and with/without a hole, every operation that
takes an index is applied at first−2, first−1, first, the hole (or middle) position, last, last+1 (one past the end, where
`with` appends), last+2 and a fractional position, with the payload that is stored there (or would continue the
sequence) and with one that is not.  All indices and payloads are number literals, so none of these texts has the
shape of KF-pinned-panics although they spell @char/@byte/@item: the class is "good" by construction. -/

structure KeyedSeq where
  tag : String
  src : String
  attr : String
  first : Int
  base : Int          -- payload stored at `first` (the payload at first + k is base + k)

def keyedSeqs : List KeyedSeq :=
  [-2, 0, 2].flatMap (fun (o : Int) =>
    let off (body : String) : String := if o == 0 then body else s!"({o})\\{body}"
    let at1 := toString (o + 1)
    [ { tag := s!"str/{o}", src := off "'abc'", attr := "@char", first := o, base := 97 },
      { tag := s!"str-hole/{o}", src := "(" ++ off "'abc'" ++ s!" without (@: {at1}, @char: 98))", attr := "@char", first := o, base := 97 },
      { tag := s!"bytes/{o}", src := off "<<1, 2, 3>>", attr := "@byte", first := o, base := 1 },
      { tag := s!"bytes-hole/{o}", src := "(" ++ off "<<1, 2, 3>>" ++ s!" without (@: {at1}, @byte: 2))", attr := "@byte", first := o, base := 1 },
      { tag := s!"arr/{o}", src := off "[1, 2, 3]", attr := "@item", first := o, base := 1 },
      { tag := s!"arr-hole/{o}", src := off "[1, , 3]", attr := "@item", first := o, base := 1 } ])

def indexGrid : List Case := Id.run do
  let mut out : List Case := []
  let mut i := 0
  let mk (i : Nat) (stratum src : String) : Case :=
    { id := s!"C10-idx-{i}", cls := "good", kind := "survive", stratum := stratum, model := "ok", spec := "!panic",
      payload := [src] }
  for q in keyedSeqs do
    let positions : List (String × String × Int) :=
      [("first-2", Lit.numSrc (q.first - 2), -2), ("first-1", Lit.numSrc (q.first - 1), -1), ("first", Lit.numSrc q.first, 0),
       ("hole", Lit.numSrc (q.first + 1), 1), ("last", Lit.numSrc (q.first + 2), 2), ("last+1", Lit.numSrc (q.first + 3), 3),
       ("last+2", Lit.numSrc (q.first + 4), 4), ("frac", "(" ++ toString q.first ++ ".5)", 0)]
    for (ptag, idx, k) in positions do
      let stored := Lit.numSrc (q.base + k)
      for (vtag, v) in [("match", stored), ("other", "120")] do
        let pair := s!"(@: {idx}, {q.attr}: {v})"
        for (op, src) in [("with", s!"{q.src} with {pair}"), ("without", s!"{q.src} without {pair}"),
                          ("mem", s!"{pair} <: {q.src}"), ("with-without", s!"({q.src} with {pair}) without {pair}"),
                          ("without-count", s!"({q.src} without {pair}) count")] do
          out := mk i s!"grid/index/{op}/{q.tag}/{ptag}/{vtag}" src :: out
          i := i + 1
      for (op, src) in [("call", s!"{q.src}({idx})"), ("safecall", s!"{q.src}({idx})?:0"), ("where", s!"{q.src} where .@ = {idx}"),
                        ("where-ne", s!"({q.src} where .@ != {idx}) count"), ("offset", s!"{idx} \\ {q.src}"),
                        ("offset-call", s!"({idx} \\ {q.src})({idx})")] do
        out := mk i s!"grid/index/{op}/{q.tag}/{ptag}" src :: out
        i := i + 1
  pure out.reverse

/-! ## calls: several arguments, safe tails, mixed chains

`c(a, b)` is curried: the result of `c(a)` becomes the callee of `(b)`.  The callees below return numbers, tuples,
functions, dicts and arrays, so that every kind of intermediate result meets a further call, a dot and a `?:`.
A function here is only ever in callee position (or the result of a call), which is its ordinary use, not the shape of
KF-function-as-set: the class is "good" by construction. -/

def callees : List (String × String) :=
  [("(\\a 5)", "fn-num"), ("(\\a \\b a)", "fn2"), ("(\\a \\b \\c a)", "fn3"), ("(\\a (x: 1, y: (z: 2)))", "fn-tup"),
   ("(\\a [1, 2])", "fn-arr"), ("(\\a {'a': 7})", "fn-dict"), ("(\\a ())", "fn-tup0"), ("(\\a {})", "fn-set0"),
   ("{'a': 7}", "dict-num"), ("{'a': {'c': 1}, 1: {'a': {'c': 2}}}", "dict-dict"), ("{'a': (x: 1, y: \\b 2)}", "dict-tup"),
   ("[[1, 2], [3]]", "arr-arr"), ("['ab', 'c']", "arr-str"), ("(x: \\a 5, y: (x: \\a \\b 1))", "tup-fn"),
   ("(x: {'a': (y: 1)}, y: [1])", "tup-dict"), ("//seq.contains", "native2"), ("//str.upper", "native1"), ("5", "num"),
   ("()", "tup0"), ("{}", "set0"), ("'abc'", "str")]

def callArgs : List (String × String × String) := [("1", "'a'", "0"), ("'a'", "'c'", "1"), ("0", "0", "{}")]

def callGrid : List Case := Id.run do
  let mut out : List Case := []
  let mut i := 0
  for (c, tag) in callees do
    for (a, b, d) in callArgs do
      let forms : List (String × String) :=
        [("c(a,b)", s!"c({a}, {b})"), ("c(a,b)?:", s!"c({a}, {b})?:0"), ("c(a,b,c)", s!"c({a}, {b}, {d})"),
         ("c(a,b,c)?:", s!"c({a}, {b}, {d})?:0"), ("c(a)(b)", s!"c({a})({b})"), ("c(a)(b)?:", s!"c({a})({b})?:{d}"),
         ("c(a)?(b):", s!"c({a})?({b}):{d}"), ("c(a)?(b)?:", s!"c({a})?({b})?:{d}"), ("c(a)?(b,c):", s!"c({a})?({b}, {d}):0"),
         ("c.x(a)?:", s!"c.x({a})?:{d}"), ("c.x?(a):", s!"c.x?({a}):{d}"), ("c.x?(a,b):", s!"c.x?({a}, {b}):{d}"),
         ("c(a).y?:", s!"c({a}).y?:{d}"), ("c(a)?.y:", s!"c({a})?.y:{d}"), ("c(a)?.y.z:", s!"c({a})?.y.z:{d}"),
         ("c(a)?.y?(b):", s!"c({a})?.y?({b}):{d}"), ("c.y?.x?(a,b):", s!"c.y?.x?({a}, {b}):{d}"),
         ("c(a,b).x?:", s!"c({a}, {b}).x?:{d}"), ("c(a)(b)(c)", s!"c({a})({b})({d})"), ("c(a, b)(c)?:", s!"c({a}, {b})({d})?:0")]
      for (ftag, body) in forms do
        out := { id := s!"C10-call-{i}", cls := "good", kind := "survive", stratum := s!"grid/call/{ftag}/{tag}",
                 model := "ok", spec := "!panic", payload := [s!"let c = {c}; {body}"] } :: out
        i := i + 1
  pure out.reverse

/-! ## errors that are cheap to raise but whose message has to be rendered

Every frame of an evaluation wraps the error with its source context (WrapContextErr), so the message of an error
raised at the bottom of a deep, non-recursive structure is assembled from many frames.  The harness renders every
error inside the timed region; these programs fail at once and must also be reportable at once. -/

def joinWith (sep : String) (xs : List String) : String := sep.intercalate xs

/-- (tag, body of the innermost function over x, argument) -/
def failingLeaves : List (String × String × String) :=
  [("missing-attr", "x.a", "(b: 1)"), ("bad-call", "x(1)", "5"), ("type-error", "x + 'a'", "{}"),
   ("stdlib", "//seq.concat(x)", "5"), ("dot-dot", "x.b.c", "(b: 1)"), ("subset", "x (<) 1", "2")]

def errGrid : List Case := Id.run do
  let mut out : List Case := []
  let mut i := 0
  let mk (i : Nat) (stratum src : String) : Case :=
    { id := s!"C10-err-{i}", cls := "good", kind := "survive", stratum := stratum, model := "ok", spec := "!panic",
      payload := [src] }
  for k in [10, 20, 30, 40] do
    for (tag, body, arg) in failingLeaves do
      -- k distinct let-bound functions, each calling the previous one
      let defs := (List.range k).map (fun j => if j == 0 then s!"let f0 = \\x {body};" else s!"let f{j} = \\x f{j - 1}(x);")
      out := mk i s!"grid/err/chain/{tag}/{k}" (joinWith " " defs ++ s!" f{k - 1}({arg})") :: out
      -- the same chain through tuple attributes and through two-argument functions
      let defs2 := (List.range k).map (fun j =>
        if j == 0 then s!"let t0 = (f: \\x {body});" else s!"let t{j} = (f: \\x t{j - 1}.f(x));")
      out := mk (i + 1) s!"grid/err/chain-tuple/{tag}/{k}" (joinWith " " defs2 ++ s!" t{k - 1}.f({arg})") :: out
      i := i + 2
    let nest (o c inner : String) : String := String.join (List.replicate k o) ++ inner ++ String.join (List.replicate k c)
    let leaf := "(b: 1).a"
    let srcs : List (String × String) :=
      [("arrow", s!"(b: 1) " ++ String.join (List.replicate k "-> (. ") ++ "-> .a" ++ String.join (List.replicate k ")")),
       ("darrow", "{(b: 1)} " ++ String.join (List.replicate k "=> (\\y {y} ") ++ "=> \\z z.a" ++ String.join (List.replicate k ")")),
       ("where", "{1} " ++ String.join (List.replicate k "where (\\w {1} ") ++ "where \\v v.a" ++ String.join (List.replicate k ")")),
       ("seqarrow", "[(b: 1)] " ++ String.join (List.replicate k ">> (\\y [y] ") ++ ">> \\z z.a" ++ String.join (List.replicate k ")")),
       ("tuple", nest "(a: " ")" leaf), ("array", nest "[" "]" leaf), ("set", nest "{" "}" leaf), ("dict", nest "{1: " "}" leaf),
       ("paren", nest "(" ")" leaf),
       ("plus", joinWith " + " (List.replicate k "1") ++ " + " ++ leaf),
       ("if", String.join (List.replicate k "(1 if true else ") ++ leaf ++ String.join (List.replicate k ")")),
       ("cond", String.join (List.replicate k "cond {true: ") ++ leaf ++ String.join (List.replicate k "}")),
       ("let-seq", joinWith " " ((List.range k).map (fun j => if j == 0 then "let x0 = (b: 1);" else s!"let x{j} = x{j - 1};")) ++ s!" x{k - 1}.a")]
    for (tag, src) in srcs do
      out := mk i s!"grid/err/nest/{tag}/{k}" src :: out
      i := i + 1
    -- immediately applied functions nested in each other's argument: compiling them is exponential in the depth
    -- (about x3 per level: 3 s at depth 10, 30 s at depth 14) with or without the failing leaf: KF-deep-nesting
    if k ≤ 10 then
      out := { mk i s!"grid/err/nest/call/{k}"
                 (String.join (List.replicate k "(\\x x)(") ++ leaf ++ String.join (List.replicate k ")")) with
               cls := "KF-deep-nesting" } :: out
      i := i + 1
  -- long source texts with the error at the very end
  for n in [100, 300] do
    out := mk i s!"grid/err/long/array/{n}" ("[" ++ joinWith ", " ((List.range n).map toString) ++ ", (b: 1).a]") :: out
    out := mk (i + 1) s!"grid/err/long/lets/{n}"
      (joinWith " " ((List.range n).map (fun j => s!"let y{j} = {j};")) ++ " (b: 1).a") :: out
    out := mk (i + 2) s!"grid/err/long/string/{n}" ("'" ++ String.join (List.replicate n "lorem ipsum ") ++ "' + 1") :: out
    out := mk (i + 3) s!"grid/err/long/tuple/{n}"
      ("(" ++ joinWith ", " ((List.range n).map (fun j => s!"a{j}: {j}")) ++ ").zz") :: out
    i := i + 4
  pure out.reverse

/-! ## escapes in string-like literals

Every escape introducer × what follows it × every place where the string reader is used.  All class "good": a
literal is a value or a compile error, whatever it contains. -/

def bs : String := String.singleton '\\'

/-- what follows the backslash: octal with 1–3 digits (also out of range), \x with 0–2 hex digits, \u and \U with too
few digits and complete, nothing (a lone backslash) -/
def escapeIntros : List String :=
  ["0", "1", "7", "8", "12", "07", "78", "123", "377", "400", "777", "x", "x4", "x41", "xg", "x4g", "u", "u1", "u12", "u123",
   "u1234", "u12g", "U", "U1", "U0001", "U0001F60", "U0001F600", "UFFFFFFFF", ""]

def asciiIntros : List String := (List.range 95).map (fun k => String.singleton (Char.ofNat (32 + k)))

/-- the places where parseArraiString / parseArraiStringFragment read a body -/
def quoteForms (body : String) : List (String × String) :=
  [("sq", "'" ++ body ++ "'"), ("dq", "\"" ++ body ++ "\""), ("bq", "‵" ++ body ++ "‵"),
   ("xstr-dq", "$\"" ++ body ++ "\""), ("xstr-sq", "$'" ++ body ++ "'"), ("xstr-expr", "$\"" ++ body ++ "${1}" ++ body ++ "\""),
   ("attr-get", "(a: 1).'" ++ body ++ "'"), ("attr-name", "('" ++ body ++ "': 1)"), ("dict-key", "{'" ++ body ++ "': 1}"),
   ("dict-key-dq", "{\"" ++ body ++ "\": 1}"), ("safe-get", "(a: 1).\"" ++ body ++ "\"?:0"), ("bytes", "<<'" ++ body ++ "'>>")]

def escGrid : List Case := Id.run do
  let mut out : List Case := []
  let mut i := 0
  let bodies : List (String × String) :=
    escapeIntros.flatMap (fun e =>
      [("end", bs ++ e), ("end-after-text", "ab" ++ bs ++ e), ("before-char", "ab" ++ bs ++ e ++ "z"),
       ("before-digit", bs ++ e ++ "8"), ("before-escape", "ab" ++ bs ++ e ++ bs ++ "n"), ("twice", bs ++ e ++ bs ++ e)]) ++
    asciiIntros.flatMap (fun e => [("end-after-text", "ab" ++ bs ++ e), ("before-char", bs ++ e ++ "z")])
  for (pos, body) in bodies do
    for (q, src) in quoteForms body do
      out := { id := s!"C10-esc-{i}", cls := "good", kind := "survive", stratum := s!"grid/escape/{q}/{pos}",
               model := "ok", spec := "!panic", payload := [src] } :: out
      i := i + 1
  -- character literals
  for e in escapeIntros ++ asciiIntros do
    out := { id := s!"C10-esc-{i}", cls := "good", kind := "survive", stratum := "grid/escape/char",
             model := "ok", spec := "!panic", payload := ["%" ++ bs ++ e] } :: out
    i := i + 1
  pure out.reverse

end Arrai.C10
