/-
  C10, part (c): generators of source text for the fuzzing streams (validated, not proved).

    opsStream   "a OP b" / "OP a" / postfix / call / dot / arrows over operands of every kind
                 that `Lit` can spell plus a few that it cannot (fractions, functions, sugar tuples)
    libStream   calls of safe standard-library functions with 1–3 random arguments of every kind
    mutStream   grammar-aware mutations of valid programs (token delete / duplicate / swap, stray
                 commas, unbalanced brackets, truncated string literals and escapes)
    rawStream   raw byte strings (token soup, random printable/unprintable bytes)

  Programs are token lists; `render` joins them with blanks.  Nesting depth of everything generated
  here is far below 200 (operands depth ≤ 3, programs depth ≤ 5).
  Classes (decidable predicates on the generated text, see `classify`): only the shapes of the open
  known findings; everything else is class "good" and must end in a value or an error.
-/
import Arrai.Core.Lit

namespace Arrai.C10
open Arrai

abbrev Toks := List String

def render (ts : Toks) : String := " ".intercalate ts

/-! ## classes: decidable predicates on source text

Only the shapes of the open known findings; everything else is class "good". -/

def hasSub (s pat : String) : Bool := (s.splitOn pat).length > 1

/-- the text spells one of the attribute names that `rel.NewTuple` specialises (and asserts on) -/
def mentionsSugar (s : String) : Bool := hasSub s "@char" || hasSub s "@byte" || hasSub s "@item"

def isOperandEnd (c : Char) : Bool :=
  c.isAlphanum || c == ')' || c == ']' || c == '}' || c == '\'' || c == '"' || c == '_' || c == '.'

/-- `\` that starts a function (`\x …`, `\(a: x) …`) rather than an offset (`2\[1]`, `a \ b`) or a
string escape: the previous non-blank character does not end an operand and the next non-blank
character can start a pattern. -/
def hasLambdaFrom : Option Char → List Char → Bool
  | _, [] => false
  | prev, c :: rest =>
    if c == '\\' || c == '&' then
      let next := (rest.dropWhile (· == ' ')).head?
      let startsPattern := match next with
        | some n => n.isAlphanum || n == '_' || n == '(' || n == '[' || n == '{' || n == '.' || n == '$' || n == '@'
                    || n == '\'' || n == '"' || n == '%' || n == '<' || n == '-'
        | none => false
      let afterOperand := match prev with
        | some q => isOperandEnd q
        | none => false
      if startsPattern && !afterOperand then true else hasLambdaFrom (some c) rest
    else if c == ' ' then hasLambdaFrom prev rest
    else hasLambdaFrom (some c) rest

/-- `//name`: a reference to the standard library (as opposed to the operator `a // b`) -/
def hasStdRef : List Char → Bool
  | '/' :: '/' :: c :: rest => if c.isAlpha || c == '{' then true else hasStdRef ('/' :: c :: rest)
  | _ :: rest => hasStdRef rest
  | [] => false

def replaceAll (s pat by_ : String) : String := by_.intercalate (s.splitOn pat)

/-- the subset operators end in `)` although no operand ends there -/
def maskSubsetOps (s : String) : String :=
  ["(<>=)", "(<>)", "(<=)", "(>=)", "(<)", "(>)"].foldl (fun acc op => replaceAll acc op "~") s

/-- a keyword operator before `\\` does not end an operand either (`s orderby \\x …`) -/
def maskKeywords (s : String) : String :=
  ["orderby", "order", "rank", "where", "sum", "max", "mean", "median", "min", "filter", "with", "without", "if", "else",
   "nest", "unnest", "count", "single", "cond", "let", "rec"].foldl
    (fun acc kw => replaceAll acc (" " ++ kw ++ " ") " ~ ") s

/-- the text contains a function value: a λ, a nullary function `&x`, or a standard-library reference -/
def mentionsFn (s : String) : Bool :=
  hasLambdaFrom none (maskKeywords (" " ++ maskSubsetOps s)).toList || hasStdRef s.toList

/-- `...` whose innermost enclosing bracket is `{`: a set (or dict) pattern with a rest element -/
def restInBraces : List Char → List Char → Bool
  | _, [] => false
  | stack, '.' :: '.' :: '.' :: rest => if stack.head? == some '{' then true else restInBraces stack rest
  | stack, c :: rest =>
    if c == '{' || c == '(' || c == '[' then restInBraces (c :: stack) rest
    else if c == '}' || c == ')' || c == ']' then restInBraces (stack.drop 1) rest
    else restInBraces stack rest

def setPatternRest (s : String) : Bool := restInBraces [] s.toList

/-- a brace group with a bracketed group among its direct members, followed by `:` or `=`: a set
written where `cond`, `filter` or `let` expect a pattern, whose members are tuple, array or set
patterns (`cond x {{(a: 1)}: 1}`, `let {[x]} = s; x`) -/
def bracePat : List (Char × Bool) → List Char → Bool
  | _, [] => false
  | stack, c :: rest =>
    if c == '{' || c == '(' || c == '[' then
      let stack := match stack with
        | (p, _) :: tl => (p, true) :: tl
        | [] => []
      bracePat ((c, false) :: stack) rest
    else if c == '}' || c == ')' || c == ']' then
      match stack with
      | (p, flag) :: tl =>
        let next := (rest.dropWhile (· == ' ')).head?
        if p == '{' && c == '}' && flag && (next == some ':' || next == some '=') then true
        else bracePat tl rest
      | [] => bracePat [] rest
    else bracePat stack rest

def compoundSetPattern (s : String) : Bool := bracePat [] s.toList

/-- the shapes of KF-setpattern-panic (SetPattern.Bind, asserted by syntax/pattern_set_test.go) -/
def setPatternShape (s : String) : Bool := setPatternRest s || compoundSetPattern s

/-- the class of a text that has one of the two suite-pinned shapes -/
def pinnedClass (s : String) : Option String :=
  if setPatternShape s then some "KF-setpattern-panic"
  else if mentionsSugar s then some "KF-pinned-panics"
  else none

/-- class of a source text none of whose parts is in function position by construction -/
def classifyText (s : String) : String :=
  match pinnedClass s with
  | some c => c
  | none =>
    if hasSub s "//grammar" || hasSub s "{:" then "KF-grammar-parse"
    else if mentionsFn s then "KF-function-as-set"
    else "good"

/-! ## operands -/

/-- literal operands that `Lit` cannot spell -/
def oddOperands : List String :=
  ["1.5", "0.5", "(-0.5)", "1e3", "(1/0)", "(0/0)", "{1, 'a', (), {}}", "{(a: 1), (b: 2)}", "{(a: 1), 2}", "(a: (b: (c: 1)))",
   "{'a': 1, 2: 'b'}", "{|a| (1), ({})}", "[[1, 2], [3]]", "['a', 'bc']", "[<<1>>, <<2, 3>>]",
   "<<'ab', 1>>", "2\\'ab'", "2\\[1, 2]", "(-1)\\<<1, 2>>", "{(@: 0, @item: 1), (@: 0, @item: 2)}",
   "{(@: 0, @char: 97), (@: 2, @char: 98)}", "{(@: 0, @byte: 1), (@: 5, @byte: 2)}",
   "{(@: 1, @value: 2), (@: 1, @value: 3)}", "{(@: 0, @item: 1), 7}", "{(@: 0, @char: 97), (@: 0, @item: 1)}",
   "(@: 1.5, @item: 2)", "(@: 0, @char: 1.5)", "(@: 0, @byte: 300)", "(@: (-1), @char: (-1))",
   "(@: 0, @value: 0)", "(@: 0)", "(@char: 97)", "(@: 0, @char: 97, x: 1)",
   "('': 1)", "('a b': 1)", "{(): 1}", "{{}: {}}", "true", "false", "{()}", "{{}}", "{{()}}"]

/-- function-valued operands (a λ or a reference to a standard-library function) -/
def fnOperands : List String :=
  ["(\\x x)", "(\\x \\y x)", "(\\(a: x) x)", "//seq.concat", "//str.upper", "(\\f \\n n)", "{(\\x x)}", "(a: (\\x x))",
   "[(\\x x)]", "(@: 0, @item: (\\x x))"]

def genOperand : Gen String := do
  let r ← rand 20
  if r < 12 then
    let d ← rand 3
    let l ← Lit.genLit d
    pure l.src
  else if r < 17 then pick oddOperands
  else if r < 18 then pick fnOperands
  else pick ["x", "y", "."]

/-! ## operator stream -/

def binOps : List String :=
  ["->", "=>", ">>", ">>>", ":>", "orderby", "order", "rank", "where", "sum", "max", "mean", "median", "min",
   "with", "without", "&&", "||", "+", "-", "++", "&~", "~~", "&", "|", "<&>", "<->", "-&-", "---", "-&>", "<&-",
   "-->", "<--", "*", "/", "%", "-%", "//", "^", "\\", "+>",
   "<:", "!<:", "=", "!=", "<", ">", "<=", ">=", "(<)", "(>)", "(<=)", "(>=)", "(<>)", "(<>=)",
   "!(<)", "!(>)", "!(<=)", "!(>=)", "!(<>)", "!(<>=)"]

def unOps : List String := ["+", "-", "^", "!", "*", "=>", ">>", ":>"]

def fnBodies : List String :=
  ["\\x x", "\\x x + 1", "\\x x.a", "\\x x(0)", "\\x \\y x < y", "\\x (a: x)", "\\(@: i, @item: v) v", "\\[a, b] a",
   "\\x {x}", "\\x x count", "\\x 1", "\\x ()", "\\x {}", "\\(:a, ...) a", "\\{a, ...} a", "\\x x ++ x", ".a", ". + 1", "1"]

def attrNames : List String :=
  ["a", "b", "c", "x", "@", "@item", "@char", "@byte", "@value", "'a b'", "''", "'&a'", "'a, b'", "@neg"]

/-- one operator application around the operands `a`, `b`, `c` -/
def genOpApp (a b c : String) : Gen (String × String) := do
  let r ← rand 22
  match r with
  | 0 | 1 | 2 | 3 | 4 | 5 | 6 | 7 => do
    let op ← pick binOps
    pure (s!"{a} {op} {b}", "bin/" ++ op)
  | 8 => do
    let op ← pick unOps
    pure (s!"{op} {a}", "un/" ++ op)
  | 9 => do
    let op ← pick ["count", "single"]
    pure (s!"{a} {op}", "post/" ++ op)
  | 10 => do
    let n ← pick attrNames
    pure (s!"{a}.{n}", "dot")
  | 11 => pure (s!"{a}({b})", "call")
  | 12 => do
    let k ← rand 5
    match k with
    | 0 => pure (s!"{a}({b}:{c})", "slice")
    | 1 => pure (s!"{a}(:{b})", "slice")
    | 2 => pure (s!"{a}({b}:)", "slice")
    | 3 => pure (s!"{a}({b}:{c}:{b})", "slice")
    | _ => pure (s!"{a}(:{b}:{c})", "slice")
  | 13 => do
    let op ← pick ["->", "=>", ">>", ">>>", ":>", "where", "orderby", "order", "rank", "sum", "max", "min", "mean", "median"]
    let f ← pick fnBodies
    pure (s!"{a} {op} {f}", "arrow/" ++ op)
  | 14 => do
    let k ← rand 4
    let n ← pick ["a", "b", "x"]
    match k with
    | 0 => pure (s!"{a} nest {n}", "nest")
    | 1 => pure (s!"{a} nest |a, b| {n}", "nest")
    | 2 => pure (s!"{a} nest ~|a| {n}", "nest")
    | _ => pure (s!"{a}.|a, b|", "proj")
  | 15 => do
    let k ← rand 3
    match k with
    | 0 => pure (s!"{a} if {b} else {c}", "if")
    | 1 => pure ("cond {" ++ s!"{a}: {b}, _: {c}" ++ "}", "cond")
    | _ => pure (s!"cond {a} " ++ "{" ++ s!"{b}: 1, [x, ...]: 2, (:a, ...): 3, _: {c}" ++ "}", "condpat")
  | 16 => do
    let p ← pick ["x", "[x, y]", "[x, ...t]", "(a: x)", "(:a, ...)", "{x, y}", "{x, ...t}", "{'a': x, ...}", "{1: x}",
                  "[x, x]", "(a: x, b: x)", "{(a: x), ...}", "[(a: x), ...]", "{x, 1}", "{[x], ...}", "(@: x, @item: y)", "1", "{}", "[]",
                  "[x ?: 1]", "(a?: x: 1)", "{'a'?: x: 1}", "{x, ...}", "{(x), ...}", "{1, ...t}", "{{x}, ...}"]
    pure (s!"let {p} = {a}; x", "letpat")
  | 17 => do
    let n ← pick ["a", "b", "'a b'", "@item"]
    pure (s!"{a}.{n}?:{b}", "safetail")
  | 18 => pure (s!"{a}({b})?:{c}", "safecall")
  | 19 => pure ("$\"a${" ++ a ++ "}b${" ++ b ++ ":02d}${" ++ c ++ "::, }\"", "xstr")
  | 20 => do
    let k ← rand 6
    match k with
    | 0 => pure ("{" ++ s!"{a}, {b}, {c}" ++ "}", "mk/set")
    | 1 => pure (s!"[{a}, {b}, , {c}]", "mk/arr")
    | 2 => pure ("{" ++ s!"{a}: {b}, {b}: {c}" ++ "}", "mk/dict")
    | 3 => do
      let n ← pick attrNames
      let m ← pick attrNames
      pure (s!"({n}: {a}, {m}: {b})", "mk/tuple")
    | 4 => pure ("{|a, b| " ++ s!"({a}, {b}), ({b}, {c})" ++ "}", "mk/rel")
    | _ => do
      let n ← pick ["@item", "@char", "@byte", "@value"]
      pure ("{|@, " ++ n ++ "| " ++ s!"({a}, {b}), ({b}, {c})" ++ "}", "mk/sugar-rel")
  | _ => do
    let k ← rand 3
    match k with
    | 0 => pure (s!"<<{a}, {b}>>", "mk/bytes")
    | 1 => pure (s!"{a} filter . " ++ "{" ++ s!"{b}: 1, [x, ...]: x" ++ "}", "filter")
    | _ => pure (s!"{a} ->* x({b})", "touch")

/-- (source, stratum, operands used): the class is computed from the operands and the operator
text, not from the function bodies the arrow operators bring along -/
def genOpExpr : Nat → Gen (String × String × List String)
  | 0 => do
    let a ← genOperand
    let b ← genOperand
    let c ← genOperand
    let (s, k) ← genOpApp a b c
    pure (s, k, [a, b, c])
  | d + 1 => do
    let deep ← chance 1 2
    let (a, _, used) ← if deep then genOpExpr d else do
      let o ← genOperand
      pure (o, "", [o])
    let b ← genOperand
    let c ← genOperand
    let (s, k) ← genOpApp s!"({a})" b c
    pure (s, k, b :: c :: used)

/-- class of an operator-stream case -/
def classifyOps (src : String) (operands : List String) : String :=
  match pinnedClass src with
  | some c => c
  | none => if operands.any mentionsFn then "KF-function-as-set" else "good"

def bindXY (s : String) : Gen (String × List String) := do
  let x ← genOperand
  let y ← genOperand
  pure (s!"let x = {x}; let y = {y}; {s}", [x, y])

/-! ## standard library stream -/

/-- (path, maximal number of curried arguments, in the safe fragment named by the task) -/
def libFns : List (String × Nat × Bool) :=
  [("//seq.concat", 1, true), ("//seq.contains", 2, true), ("//seq.has_prefix", 2, true), ("//seq.has_suffix", 2, true),
   ("//seq.join", 2, true), ("//seq.repeat", 2, true), ("//seq.sub", 3, true), ("//seq.split", 2, true),
   ("//seq.trim_prefix", 2, true), ("//seq.trim_suffix", 2, true),
   ("//str.expand", 4, true), ("//str.lower", 1, true), ("//str.repr", 1, true), ("//str.title", 1, true), ("//str.upper", 1, true),
   ("//bits.mask", 1, true), ("//bits.set", 1, true), ("//rel.union", 1, true), ("//tuple", 1, true), ("//dict", 1, true),
   ("//fn.fix", 2, true), ("//fn.fixt", 2, true),
   ("//encoding.json.decode", 1, true), ("//encoding.json.decoder", 2, true), ("//encoding.json.encode", 1, true),
   ("//encoding.json.encode_indent", 1, true), ("//encoding.json.encoder", 2, true),
   ("//encoding.csv.decode", 1, true), ("//encoding.csv.decoder", 2, true), ("//encoding.csv.encode", 1, true),
   ("//encoding.csv.encoder", 2, true),
   ("//encoding.yaml.decode", 1, true), ("//encoding.yaml.decoder", 2, true), ("//encoding.yaml.encode", 1, true),
   ("//encoding.yaml.encoder", 2, true),
   -- outside the fragment named by the task, fuzzed all the same (stratum lib-ext)
   ("//encoding.bytes.decode", 1, false), ("//encoding.xml.decode", 1, false), ("//encoding.xml.decoder", 2, false),
   ("//encoding.xml.encode", 1, false), ("//encoding.proto.decode", 3, false), ("//encoding.proto.descriptor", 1, false),
   ("//encoding.xlsx.decode", 1, false), ("//encoding.xlsx.decodeToRelation", 2, false),
   ("//archive.tar.tar", 1, false), ("//archive.zip.zip", 1, false), ("//arrai.info", 1, false),
   ("//eval.value", 1, false), ("//eval.eval", 2, false), ("//eval.evaluator", 2, false), ("//fmt.pretty", 1, false),
   ("//grammar.parse", 3, false), ("//math.sin", 1, false), ("//math.cos", 1, false), ("//re.compile", 1, false),
   ("//test.assert.equal", 2, false), ("//test.assert.unequal", 2, false), ("//test.assert.true", 1, false),
   ("//test.assert.false", 1, false), ("//test.assert.size", 2, false), ("//flag.parser", 2, false), ("//flag.help", 1, false),
   ("//error", 1, false)]

/-- arguments that stdlib functions are likely to take seriously -/
def libArgs : List String :=
  ["'abc'", "''", "'a,b\\n1,2\\n'", "'{\"a\": [1, 2, null, true]}'", "'a: 1\\nb: [1, 2]\\n'", "'[1, 2'", "'<a x=\"1\">t</a>'",
   "<<'abc'>>", "<<>>", "<<1, 2, 255>>", "<<'{\"a\": 1}'>>", "<<'a,b\\n1,2'>>", "[1, 2, 3]", "[]", "['a', 'b']", "[<<1>>, <<2>>]",
   "[[1], [2, 3]]", "['ab', [1]]", "[1, , 3]", "2\\[1, 2]", "2\\'ab'", "0", "1", "2", "3", "(-1)", "1.5", "100", "64", "65", "(-0.5)",
   "()", "(a: 1)", "(a: 1, b: 'x')", "(strict: true)", "(strict: false)", "(comma: %:, comment: %#)", "(comma: 1)", "(strict: 1)",
   "(trimLeadingSpace: true, lazyQuotes: 1)", "(crlf: true)", "(indent: '  ')", "(prefix: 1, indent: 2)",
   "{}", "{1, 2}", "{'a': 1}", "{1: 2}", "{'a': {'b': [1, {}]}}", "{(a: 1)}", "{(a: 1), (a: 2)}", "{|a, b| (1, 2), (3, 4)}",
   "{{1}, {2, 3}}", "{[1], 'a'}", "true", "false", "(\\x x)", "(\\x \\y x)", "(\\f \\n n)", "//seq.concat", "{(\\x x)}",
   "'1 + 1'", "'['", "'//os.args'", "'let x = 1; x'", "(a: (b: 2))", "{'k': (a: 1)}", "[(a: 1), (a: 2)]", "['a', 1]",
   "(null: {})", "[[]]", "[{}]", "[()]", "{'a': ()}", "(a: {})", "'expr -> \"a\";'", "'x'", "(@: 0, @item: 1)", "'%d'", "':02d'"]

def genLibArg : Gen String := do
  let r ← rand 4
  if r < 2 then pick libArgs else genOperand

/-- functions whose result is (or contains) a function even when fully applied -/
def fnReturning : List String :=
  ["//fn.fix", "//fn.fixt", "//eval.evaluator", "//re.compile", "//flag.parser", "//encoding.proto.decode",
   "//encoding.json.decoder", "//encoding.json.encoder", "//encoding.csv.decoder", "//encoding.csv.encoder",
   "//encoding.yaml.decoder", "//encoding.yaml.encoder", "//encoding.xml.decoder"]

/-- (source, stratum, class) -/
def genLibCall : Gen (String × String × String) := do
  let (path, maxArgs, core) ← pick libFns
  let nargs ← rand (maxArgs + 1)
  let nargs := if nargs == 0 then maxArgs else nargs
  let args ← genList nargs genLibArg
  let call := path ++ String.join (args.map (fun a => s!"({a})"))
  let full := nargs == maxArgs && !fnReturning.contains path
  let wrap ← rand 8
  let extra ← genLibArg
  let (call, used) := match wrap with
    | 0 => if full then (s!"{call}({extra})", extra :: args) else (call, args)
    | 1 => if full then (s!"{call} count", args) else (call, args)
    | 2 => (s!"{extra} >> {path}", [extra])
    | 3 => (s!"{extra} => {path}", [extra])
    | _ => (call, args)
  let cls :=
    match pinnedClass (" ".intercalate used) with
    | some c => c
    | none =>
      if path == "//grammar.parse" then "KF-grammar-parse"
      -- the fixed-point combinators hand a function to their argument, whatever it is
      else if path == "//fn.fix" || path == "//fn.fixt" || used.any mentionsFn then "KF-function-as-set"
      else "good"
  pure (call, (if core then "lib/" else "lib-ext/") ++ path, cls)

/-! ## valid programs as token lists (the seeds of the mutation stream) -/

def idents : List String := ["x", "y", "z", "f", "t"]

/-- `fnFree`: no λ and no standard-library reference anywhere in the program -/
def genAtomT (fnFree : Bool) : Gen Toks := do
  let r ← rand 16
  let r := if fnFree && (r == 11 || r == 12) then 13 else r
  match r with
  | 0 => pure ["1"] | 1 => pure ["0"] | 2 => pure ["2.5"] | 3 => pure ["'ab'"] | 4 => pure ["\"c\\n\""]
  | 5 => pure ["true"] | 6 => pure ["{", "}"] | 7 => pure ["(", ")"] | 8 => pure ["[", "]"]
  | 9 => pure ["<<", "1", ",", "'a'", ">>"] | 10 => pure ["%a"]
  | 11 => pure ["//seq.concat"] | 12 => pure ["//str.upper"]
  | _ => do pure [← pick idents]

def sepBy (sep : String) : List Toks → Toks
  | [] => []
  | [a] => a
  | a :: r => a ++ [sep] ++ sepBy sep r

def genPatT : Nat → Gen Toks
  | 0 => do
    let r ← rand 4
    match r with
    | 0 => pure ["1"] | 1 => pure ["_"] | _ => do pure [← pick idents]
  | d + 1 => do
    let r ← rand 8
    match r with
    | 0 => do pure (["["] ++ (← genPatT d) ++ [","] ++ (← genPatT d) ++ ["]"])
    | 1 => do pure (["["] ++ (← genPatT d) ++ [",", "...", "t", "]"])
    | 2 => do pure (["(", "a", ":"] ++ (← genPatT d) ++ [",", "b", ":"] ++ (← genPatT d) ++ [")"])
    | 3 => do pure (["(", "a", ":"] ++ (← genPatT d) ++ [",", "...", ")"])
    | 4 => do pure (["{", "'k'", ":"] ++ (← genPatT d) ++ [",", "...", "}"])
    | 5 => do pure (["{"] ++ (← genPatT 0) ++ [",", "1", "}"])
    | 6 => pure ["(", "x", ")"]
    | _ => genPatT 0

def genProgT (fnFree : Bool) : Nat → Gen Toks
  | 0 => genAtomT fnFree
  | d + 1 => do
    let r ← rand 30
    let r := if fnFree && (r == 5 || r == 6 || r == 15 || r == 26 || r == 27) then r + 7 else r
    let e := genProgT fnFree d
    match r with
    | 0 | 1 => do
      let op ← pick ["+", "-", "*", "/", "%", "++", "|", "&", "&~", "with", "without", "<", "=", "!=", "<=", "<:", "&&", "||",
                     "<&>", "-&-", "+>", "^", "//", "(<=)", "\\", "-->", "~~"]
      pure ((← e) ++ [op] ++ (← e))
    | 2 => do pure (["("] ++ (← e) ++ [")"])
    | 3 => do pure (["let", ← pick idents, "="] ++ (← e) ++ [";"] ++ (← e))
    | 4 => do pure (["let"] ++ (← genPatT 2) ++ ["="] ++ (← e) ++ [";"] ++ (← e))
    | 5 => do pure (["\\", ← pick idents] ++ (← e))
    | 6 => do pure (["(", "\\", ← pick idents] ++ (← e) ++ [")", "("] ++ (← e) ++ [")"])
    | 7 => do pure (["["] ++ sepBy "," [← e, ← e, ← e] ++ ["]"])
    | 8 => do pure (["{"] ++ sepBy "," [← e, ← e] ++ ["}"])
    | 9 => do pure (["{"] ++ (← e) ++ [":"] ++ (← e) ++ [",", "'k'", ":"] ++ (← e) ++ ["}"])
    | 10 => do pure (["(", "a", ":"] ++ (← e) ++ [",", "b", ":"] ++ (← e) ++ [")"])
    | 11 => do pure (["{|", "a", ",", "b", "|", "("] ++ (← e) ++ [","] ++ (← e) ++ [")", ",", "(", "1", ",", "2", ")", "}"])
    | 12 => do pure ((← e) ++ ["if"] ++ (← e) ++ ["else"] ++ (← e))
    | 13 => do pure (["cond", "{"] ++ (← e) ++ [":"] ++ (← e) ++ [",", "_", ":"] ++ (← e) ++ ["}"])
    | 14 => do pure (["cond"] ++ (← e) ++ ["{"] ++ (← genPatT 2) ++ [":"] ++ (← e) ++ [",", "_", ":"] ++ (← e) ++ ["}"])
    | 15 => do
      let op ← pick ["->", "=>", ">>", ":>", "where", "orderby", "sum", "max"]
      pure ((← e) ++ [op, "\\", ← pick idents] ++ (← e))
    | 16 => do pure ((← e) ++ [".", "a"])
    | 17 => do pure ((← e) ++ ["("] ++ (← e) ++ [")"])
    | 18 => do pure ((← e) ++ ["("] ++ (← e) ++ [":"] ++ (← e) ++ [")"])
    | 19 => do pure ((← e) ++ ["count"])
    | 20 => do pure ((← e) ++ ["nest", "|", "a", "|", "n"])
    | 21 => do pure (["$\"", "a${"] ++ (← e) ++ ["}b", "\""])
    | 22 => do pure ((← e) ++ [".", "a", "?", ".", "b", ":"] ++ (← e))
    | 23 => do
      let op ← pick ["-", "!", "^", "+", "*"]
      pure ([op] ++ (← e))
    | 24 => do pure ((← e) ++ ["->", "."] ++ ["+"] ++ (← e))
    | 25 => do pure ((← e) ++ ["filter", ".", "{"] ++ (← genPatT 1) ++ [":"] ++ (← e) ++ ["}"])
    | 26 => do pure (["//seq.join", "("] ++ (← e) ++ [",", ] ++ (← e) ++ [")"])
    | 27 => do pure (["let", "rec", "f", "=", "\\", "x"] ++ (← e) ++ [";", "f", "(", "1", ")"])
    | _ => genAtomT fnFree

/-! ## mutations -/

def removeAt {α} (l : List α) (i : Nat) : List α := l.take i ++ l.drop (i + 1)
def insertAt {α} (l : List α) (i : Nat) (x : α) : List α := l.take i ++ [x] ++ l.drop i

def strayToks : List String :=
  [",", ",", "(", ")", "[", "]", "{", "}", "<<", ">>", "{|", "|", ":", ";", ".", "...", "\\", "?", "->", "=", "let", "cond", "if", "else",
   "\"", "'", "‵", "$\"", "${", "\"\\", "'\\x4", "'\\u12", "'\\1", "%", "%\\", "//", "//{", "{:", ":}", "#", "\n", "\t", "&", "*", "@", "$", "_"]

def mutateOnce (ts : Toks) : Gen Toks := do
  let n := ts.length
  if n == 0 then pure [← pick strayToks] else
  let i ← rand n
  let j ← rand n
  let r ← rand 9
  match r with
  | 0 | 1 => pure (removeAt ts i)
  | 2 => pure (insertAt ts i (ts.getD j ""))
  | 3 =>
    let a := ts.getD i ""
    let b := ts.getD j ""
    pure ((ts.set i b).set j a)
  | 4 | 5 => do pure (insertAt ts i (← pick strayToks))
  | 6 => do pure (ts.set i (← pick strayToks))
  | 7 => pure (ts.take (i + 1))                       -- truncate
  | _ =>                                               -- cut a token in two (unterminated literals, split operators)
    let t := ts.getD i ""
    let k := t.length / 2
    pure (ts.set i ((t.take (k + 1)).toString))

def mutate (ts : Toks) : Gen Toks := do
  let k ← rand 3
  let mut out := ts
  for _ in [0:k + 1] do
    out ← mutateOnce out
  pure out

/-! ## raw bytes -/

def soupToks : List String :=
  strayToks ++ ["1", "0", "x", "1.5", "1e", ".5", "'a'", "\"b\"", "true", "with", "where", "nest", "unnest", "count", "rec",
   "+", "-", "<", ">", "<=", "(<)", "++", "+>", "=>", ">>", ":>", "<:", "^", "&~", "<&>", "orderby", "rank", "filter", "a", "f"]

def genRaw : Gen (String × String) := do
  let r ← rand 3
  let n ← rand 24
  match r with
  | 0 => do
    let ts ← genList (n + 1) (pick soupToks)
    let glue ← chance 1 2
    pure ((if glue then String.join ts else " ".intercalate ts), "raw/soup")
  | 1 => do
    let cs ← genList (n + 1) (do
      let k ← rand 96
      pure (Char.ofNat (32 + k)))
    pure (String.ofList cs, "raw/ascii")
  | _ => do
    let cs ← genList (n + 1) (do
      let k ← rand 8
      match k with
      | 0 => do pure (Char.ofNat (← rand 32))
      | 1 => do pure (Char.ofNat (128 + (← rand 1024)))
      | 2 => pick ['(', ')', '[', ']', '{', '}', '"', '\'', '\\', '$', '/', ',', ':', '|', '<', '>', '‵']
      | _ => do pure (Char.ofNat (32 + (← rand 96))))
    pure (String.ofList cs, "raw/bytes")

end Arrai.C10
