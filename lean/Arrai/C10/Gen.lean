/-
  C10 case generator.

  Harness operations (harness/cmd/c10):
    outcome   payload[0] = source           observable "value" | "error"     (modelled stream, see Model.lean)
    survive   payload[0] = source           observable "ok" (a value or an error, no matter which)
    surviveb  payload[0] = hex of raw bytes observable "ok"
  A panic is reported as panic:<first arrai frame>:<message>, a dead child as crash:<reason>, a case
  that exceeds the time limit twice as timeout.  The specification of every case is "!panic".

  First the corpus, then two enumerated grids (Grid.lean: every stdlib function x parameter position x boundary argument,
  every operator x empty/degenerate operand), then n sampled cases.
  Streams (per 100 sampled cases): 35 operators x operands of every kind (half of them through the
  model of part (a), whose prediction value/error is the `model` column), 20 standard-library calls,
  30 valid programs and their mutations, 15 raw text / raw bytes.
-/
import Arrai.C10.Fuzz
import Arrai.C10.ModelGen
import Arrai.C10.Grid

namespace Arrai.C10
open Arrai

def mkCase (id stratum cls kind src : String) (model : String := "ok") : Case :=
  { id := id, cls := cls, kind := kind, stratum := stratum, model := model, spec := "!panic", payload := [src] }

def hexOf (bs : List Nat) : String :=
  let d (k : Nat) : Char := "0123456789abcdef".toList.getD k '0'
  String.ofList (bs.flatMap (fun b => [d (b / 16 % 16), d (b % 16)]))

def nest (o c : String) (n : Nat) (inner : String) : String :=
  String.join (List.replicate n o) ++ inner ++ String.join (List.replicate n c)

/-- witnesses of the repaired defects (class good: they must stay repaired) and of the open findings -/
def corpus (thorough : Bool) : List Case :=
  let good (i : Nat) (src : String) := mkCase s!"C10-corpus-{i}" "corpus/repaired" "good" "survive" src
  let kf (i : Nat) (cls src : String) := mkCase s!"C10-corpus-{i}" ("corpus/" ++ cls) cls "survive" src
  [ good 0 "1 (<) 2", good 1 "{|a,b|}", good 2 "//seq.repeat(-1, 'a')", good 3 "//seq.join('a', <<1, 2>>)",
    good 4 "[1, 2] with (@: 0, @item: 5)", good 5 "[,1]", good 6 "(1", good 7 "1 ->* x(2)", good 8 "x(:z)",
    good 9 "(a: 1, ...)", good 10 "{'k': 1, ...}", good 11 "cond 1 {}", good 12 "//seq.repeat({})",
    good 13 "{} :> \\x x", good 14 "[1] >>> \\i 2", good 15 "{(a: 1)} rank \\x 1", good 16 "{1, 2} rank \\x (r: x)",
    good 17 "{2, 1} order 3", good 18 "{2, 1} order \\a \\b a.x < b.x", good 19 "$\"${true:02d}\"", good 20 "$\"${1::, }\"",
    good 21 "//math.sin('x')", good 22 "//test.assert.size('', 1)", good 23 "//eval.value('abc')",
    good 24 "let {1, 1} = {1}; 1", good 25 "{|@, @item| ({}, 1)}", good 26 "{0/0}", good 27 "{(0/0): 1}",
    good 28 "//tuple({(@: 'a', @value: 2), (@: 'a', @value: 3)})", good 29 "//archive.tar.tar({1: 'x'})",
    good 30 "1 ~ 2", good 31 "let [x, , y] = [1, 2, 3]; x", good 32 "[1] | [2]", good 33 "true nest |a| n",
    good 34 "{|a, b| (1, 2)} nest ~|a| a", good 35 "{(a: 1), (b: 2)} < {(a: 1), (c: 2)}", good 36 "<<1>> < <<2>>",
    good 37 "x unnest n", good 38 "\"\\q\"", good 39 "\"\\x4\"", good 40 "\"\\101\"", good 41 "%\\",
    good 42 "//encoding.json.encode({1: 2})", good 43 "//bits.set(1.5)", good 44 "{|@| (0)} <&> {|@item| (5)}",
    good 45 "{(@: 1, @value: 2), (@: 1, @value: 3)} orderby \\x 1", good 46 "{1: 2} <&> 3", good 47 "3 < (@neg: (@neg: 1))",
    good 48 "{1, 2} => \\x \\y x < y", good 49 "//seq.split([[1], [2, 3]])([1, , 3])", good 50 "{|@, @char| (0, 'a')}",
    kf 110 "KF-setpattern-panic" "cond {(a: 1)} {{(a: 1)}: 1, _: 2}", kf 111 "KF-setpattern-panic" "let {[x], 2} = {[1], 2}; x",
    kf 100 "KF-pinned-panics" "(@: 1, @char: \"x\")", kf 101 "KF-pinned-panics" "(@: {}, @char: 65)",
    kf 102 "KF-pinned-panics" "(@: {}, @item: 2)", kf 103 "KF-pinned-panics" "{(@: \"x\", @char: 1)}",
    kf 104 "KF-setpattern-panic" "let x = {(y: 0, z: 2), (y: 0, z: 3)}; cond x { {(:y, :z), ...}: 2 * y }",
    kf 105 "KF-function-as-set" "//rel.union(\\x x)", kf 106 "KF-function-as-set" "(\\x x) count",
    kf 107 "KF-function-as-set" "1 <: //seq.concat", kf 108 "KF-relation-bucket" "{('a, b': 1), (a: 1, b: 2)}",
    kf 109 "KF-grammar-parse" "//grammar.parse(3)", good 55 "//seq.repeat(9007199254740992, 'abc')",
    good 51 "//seq.repeat(-1, [1, 2])", good 52 "{} rank (r: .x)", good 53 "({|x| (1), (2)} where .x > 5) rank (r: .x)",
    good 54 "[] rank (r: .@)", good 56 "<<1, 2, 3>> without (@: 3, @byte: 3)",
    good 57 "(2\\<<1, 2, 3>>) without (@: 5, @byte: 1)", good 58 "//seq.has_suffix([1, , , , 2], [1, 2, 3])",
    good 59 "//seq.trim_suffix([2, , , 3], [2, 3])", good 60 "let f = \\a 5; f(1, 2)?:0", good 61 "let d = {'a': 7}; d('a', 'c')?:0",
    good 62 ("let f0 = \\x x.a; " ++ String.join ((List.range 30).map (fun j => s!"let f{j + 1} = \\x f{j}(x); ")) ++ "f30((b: 1))"),
    -- nesting: depth 3000 must still work (slowly); the crash witness is the open finding
    mkCase "C10-corpus-200" "corpus/depth-3000" "KF-deep-nesting" "survive" (nest "(" ")" 3000 "1"),
    mkCase "C10-corpus-201" "corpus/depth-100000" "KF-deep-nesting" "survive" (nest "(" ")" 100000 "1") ] ++
  (if thorough then
    [ mkCase "C10-corpus-202" "corpus/depth-3000" "KF-deep-nesting" "survive" (nest "[" "]" 3000 ""),
      mkCase "C10-corpus-204" "corpus/depth-20-applied-fn" "KF-deep-nesting" "survive"
        (String.join (List.replicate 20 "(\\x x)(") ++ "1" ++ String.join (List.replicate 20 ")")),
      mkCase "C10-corpus-203" "corpus/depth-400-let" "KF-deep-nesting" "survive"
        (String.join (List.replicate 400 "let x = ") ++ "1" ++ String.join (List.replicate 400 "; x")) ]
   else [])

def genCase (idx : Nat) : Gen Case := do
  let id := s!"C10-{idx}"
  let r ← rand 100
  if r < 18 then
    -- modelled stream: the class is the decidable predicate `trig`, the model column the outcome class of `eval`
    let d ← rand 3
    let e ← genE d
    let m := run e
    pure (mkCase id ("model/" ++ (match m with | .ok _ => "value" | .err => "error" | .panic _ => "panic"))
      (findingOf e) "outcome" e.src m.obs)
  else if r < 35 then
    let d ← rand 3
    let (s, k, used) ← genOpExpr d
    let (s, xy) ← bindXY s
    pure (mkCase id ("ops/" ++ k) (classifyOps s (xy ++ used)) "survive" s)
  else if r < 55 then
    let (s, k, cls) ← genLibCall
    pure (mkCase id k cls "survive" s)
  else if r < 85 then
    let d ← rand 4
    let fnFree ← chance 3 5
    let p ← genProgT fnFree (d + 1)
    let keep ← chance 1 8
    let m ← if keep then pure p else mutate p
    let s := render m
    pure (mkCase id (if keep then "prog" else "mut") (classifyText s) "survive" s)
  else
    let b ← chance 1 3
    if b then
      let n ← rand 40
      let bs ← genList (n + 1) (rand 256)
      -- raw bytes: none of the classes' shapes can be spelled without the ASCII letters they need; bytes are
      -- drawn uniformly, so the text predicates are applied to the bytes read as Latin-1
      let s := String.ofList (bs.map Char.ofNat)
      pure (mkCase id "raw/hex" (classifyText s) "surviveb" (hexOf bs))
    else
      let (s, k) ← genRaw
      pure (mkCase id k (classifyText s) "survive" s)

/-- every `k`-th element starting at `r` (quick runs take one residue class of the deterministic grids, chosen by the
seed, so that three consecutive seeds cover the whole grid; thorough runs take all of it) -/
def slice (k r : Nat) (xs : List Case) : List Case :=
  ((List.range xs.length).zip xs).filterMap (fun (i, c) => if i % k == r % k then some c else none)

def gen (seed n : Nat) (thorough : Bool) : List Case := Id.run do
  let og := if thorough then opGrid else slice 3 seed opGrid
  let lg := if thorough then libGrid seed else slice 3 seed (libGrid seed)
  -- the three small grids run in full on every run
  let mut out := (escGrid.reverse ++ errGrid.reverse ++ callGrid.reverse ++ indexGrid.reverse ++ seqPairGrid.reverse ++ og.reverse ++ lg.reverse ++
    (corpus thorough).reverse)
  for i in [0:n] do
    let (c, _) := (genCase i).run (seedOf seed (1000000 + i))
    out := c :: out
  pure out.reverse

end Arrai.C10
