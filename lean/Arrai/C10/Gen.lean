import Arrai.C10.Fuzz

namespace Arrai.C10
open Arrai

def mkCase (id stratum cls kind src : String) : Case :=
  { id := id, cls := cls, kind := kind, stratum := stratum, model := "ok", spec := "!panic", payload := [src] }

def hexOf (bs : List Nat) : String :=
  let d (k : Nat) : Char := "0123456789abcdef".toList.getD k '0'
  String.ofList (bs.flatMap (fun b => [d (b / 16 % 16), d (b % 16)]))

def genCase (idx : Nat) : Gen Case := do
  let id := s!"C10-{idx}"
  let r ← rand 10
  if r < 4 then
    let d ← rand 3
    let (s, k) ← genOpExpr d
    let s ← bindXY s
    pure (mkCase id ("ops/" ++ k) "good" "survive" s)
  else if r < 6 then
    let (s, k) ← genLibCall
    pure (mkCase id k "good" "survive" s)
  else if r < 9 then
    let d ← rand 4
    let p ← genProgT (d + 1)
    let keep ← chance 1 8
    let m ← if keep then pure p else mutate p
    pure (mkCase id (if keep then "prog" else "mut") "good" "survive" (render m))
  else
    let b ← chance 1 3
    if b then
      let n ← rand 40
      let bs ← genList (n + 1) (rand 256)
      pure (mkCase id "raw/hex" "good" "surviveb" (hexOf bs))
    else
      let (s, k) ← genRaw
      pure (mkCase id k "good" "survive" s)

def gen (seed n : Nat) (_thorough : Bool) : List Case := Id.run do
  let mut out := []
  for i in [0:n] do
    let (c, _) := (genCase i).run (seedOf seed (1000000 + i))
    out := c :: out
  pure out.reverse

end Arrai.C10
