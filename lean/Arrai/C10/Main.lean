import Arrai.Core.DriverMain
import Arrai.C10.Gen

def main (args : List String) : IO UInt32 := Arrai.driverMain Arrai.C10.gen args
