/-
  C10: lemmas about the value-level functions of Model.lean — each of them reaches a panic site only
  under the decidable shape that `trig` tests for its node.
-/
import Arrai.C10.Model

namespace Arrai.C10
open Arrai Outcome

theorem bind_panic {α β : Type} {x : Outcome α} {f : α → Outcome β} {s : Site}
    (h : x.bind f = .panic s) : x = .panic s ∨ ∃ a, x = .ok a ∧ f a = .panic s := by
  cases x with
  | ok a => exact Or.inr ⟨a, rfl, h⟩
  | err => simp [Outcome.bind] at h
  | panic t => simp [Outcome.bind] at h; exact Or.inl (by rw [h])

theorem bind_ok_panic {α β : Type} {a : α} {f : α → Outcome β} : (Outcome.ok a).bind f = f a := rfl

/-! ## tuples -/

/-- `newTuple` panics exactly on the pinned shape -/
theorem newTuple_panic_iff (attrs : List (String × V)) :
    (∃ s, newTuple attrs = .panic s) ↔ pinnedTuple attrs = true := by
  simp only [newTuple, pinnedTuple]
  generalize sugarPair (normAttrs attrs) = sp
  cases sp with
  | none => simp
  | some p =>
    obtain ⟨n, i, x⟩ := p
    by_cases h1 : (n == "@value") = true
    · simp [h1]
    · by_cases h2 : isNum i = true
      · by_cases h3 : (n == "@item") = true
        · simp [h1, h2, h3]
        · by_cases h4 : isNum x = true
          · simp [h1, h2, h3, h4]
          · simp [h1, h2, h3, h4]
      · by_cases h3 : (n == "@item") = true
        · simp [h1, h2, h3]
        · simp [h1, h2, h3]

theorem newTuple_panic {attrs : List (String × V)} {s : Site} (h : newTuple attrs = .panic s) :
    pinnedTuple attrs = true := (newTuple_panic_iff attrs).1 ⟨s, h⟩

/-! ## sets -/

theorem clashPair_of {a b : V} {e : String × List String} {k : String} {ns : List String}
    (ha : relKey a = some e) (hb : relKey b = some (k, ns)) (hk : (e.1 == k) = true) (hn : e.2 ≠ ns) :
    clashPair a b = true := by
  obtain ⟨k1, n1⟩ := e
  simp only [clashPair, ha, hb]
  simp at hk hn ⊢
  exact ⟨hk, hn⟩

theorem relAddOne_mem {seen seen' : List (String × List String)} {v : V} (h : relAddOne seen v = .ok seen') :
    ∀ e, e ∈ seen' → e ∈ seen ∨ relKey v = some e := by
  intro e he
  unfold relAddOne at h
  cases hk : relKey v with
  | none => rw [hk] at h; simp at h; subst h; exact Or.inl he
  | some p =>
    obtain ⟨k, ns⟩ := p
    rw [hk] at h
    simp only at h
    cases hf : seen.find? (fun e => e.1 == k) with
    | none =>
      rw [hf] at h
      simp at h
      subst h
      rcases List.mem_append.1 he with h' | h'
      · exact Or.inl h'
      · simp at h'; exact Or.inr (by rw [h'])
    | some first =>
      rw [hf] at h
      simp only at h
      split at h
      · simp at h; subst h; exact Or.inl he
      · simp at h

theorem relAddOne_panic {seen : List (String × List String)} {v : V} {s : Site} (h : relAddOne seen v = .panic s) :
    ∃ e, e ∈ seen ∧ ∃ k ns, relKey v = some (k, ns) ∧ (e.1 == k) = true ∧ e.2 ≠ ns := by
  unfold relAddOne at h
  cases hk : relKey v with
  | none => rw [hk] at h; simp at h
  | some p =>
    obtain ⟨k, ns⟩ := p
    rw [hk] at h
    simp only at h
    cases hf : seen.find? (fun e => e.1 == k) with
    | none => rw [hf] at h; simp at h
    | some first =>
      rw [hf] at h
      simp only at h
      by_cases hall : (first.2.all fun n => ns.contains n) = true
      · rw [if_pos hall] at h; simp at h
      · refine ⟨first, List.mem_of_find?_eq_some hf, k, ns, rfl, ?_, ?_⟩
        · have := List.find?_some hf
          simpa using this
        · intro heq
          apply hall
          rw [heq]
          simp [List.all_eq_true]

/-- a panic of the relation builders means: some member clashes with an entry that is already there or with an
earlier member -/
theorem relAdd_panic : ∀ (vs : List V) (seen : List (String × List String)) (s : Site),
    relAdd seen vs = .panic s →
    ∃ e, (e ∈ seen ∨ ∃ a, a ∈ vs ∧ relKey a = some e) ∧
      ∃ v, v ∈ vs ∧ ∃ k ns, relKey v = some (k, ns) ∧ (e.1 == k) = true ∧ e.2 ≠ ns := by
  intro vs
  induction vs with
  | nil => intro seen s h; simp [relAdd] at h
  | cons v rest ih =>
    intro seen s h
    unfold relAdd at h
    rcases bind_panic h with h' | ⟨seen', hs, h'⟩
    · obtain ⟨e, he, k, ns, hk, h1, h2⟩ := relAddOne_panic h'
      exact ⟨e, Or.inl he, v, List.mem_cons_self, k, ns, hk, h1, h2⟩
    · obtain ⟨e, he, w, hw, k, ns, hr, h1, h2⟩ := ih seen' s h'
      refine ⟨e, ?_, w, List.mem_cons_of_mem _ hw, k, ns, hr, h1, h2⟩
      rcases he with he | ⟨a, ha, hae⟩
      · rcases relAddOne_mem hs e he with h'' | h''
        · exact Or.inl h''
        · exact Or.inr ⟨v, List.mem_cons_self, h''⟩
      · exact Or.inr ⟨a, List.mem_cons_of_mem _ ha, hae⟩

theorem bucketClash_of {vs : List V} {a b : V} (ha : a ∈ vs) (hb : b ∈ vs) (h : clashPair a b = true) :
    bucketClash vs = true := by
  simp only [bucketClash, List.any_eq_true]
  exact ⟨a, ha, b, hb, h⟩

theorem relAdd_nil_panic {vs : List V} {s : Site} (h : relAdd [] vs = .panic s) : bucketClash vs = true := by
  obtain ⟨e, he, v, hv, k, ns, hr, h1, h2⟩ := relAdd_panic vs [] s h
  rcases he with he | ⟨a, ha, hae⟩
  · simp at he
  · exact bucketClash_of ha hv (clashPair_of hae hr h1 h2)

theorem newSet_panic {vs : List V} {s : Site} (h : newSet vs = .panic s) : bucketClash vs = true := by
  unfold newSet at h
  rcases bind_panic h with h' | ⟨_, _, h'⟩
  · exact relAdd_nil_panic h'
  · simp at h'

theorem withSet_panic {xs : List V} {v : V} {s : Site} (h : withSet xs v = .panic s) :
    (xs.any fun a => clashPair a v) = true := by
  unfold withSet at h
  by_cases hc : (xs.any fun a => clashPair a v) = true
  · exact hc
  · rw [if_neg hc] at h; simp at h

theorem unionSets_panic {xs ys : List V} {s : Site} (h : unionSets xs ys = .panic s) :
    (xs.any fun a => ys.any fun b => clashPair a b) = true := by
  unfold unionSets at h
  by_cases hc : (xs.any fun a => ys.any fun b => clashPair a b) = true
  · exact hc
  · rw [if_neg hc] at h; simp at h

theorem concatSets_panic {xs ys : List V} {s : Site} (h : concatSets xs ys = .panic s) :
    concatClash xs ys = true := by
  unfold concatSets at h
  unfold concatClash
  cases hs : shiftAll (Int.ofNat xs.length) ys with
  | none => rw [hs] at h; simp at h
  | some sh => rw [hs] at h; simpa using newSet_panic h

theorem callSet_panic {xs : List V} {arg : V} {s : Site} (h : callSet xs arg = .panic s) :
    bucketClash (callResults xs arg) = true := by
  unfold callSet at h
  by_cases hc : (xs.all fun t => (atPair t).isSome) = true
  · rw [if_pos hc] at h
    rcases bind_panic h with h' | ⟨r, _, h'⟩
    · exact newSet_panic h'
    · exfalso
      cases r with
      | set l =>
        cases l with
        | nil => simp at h'
        | cons a t => cases t <;> simp at h'
      | num _ => simp at h'
      | tup _ => simp at h'
  · rw [if_neg hc] at h; simp at h

theorem offsetSet_no_panic (off : V) (xs : List V) (s : Site) : offsetSet off xs ≠ .panic s := by
  unfold offsetSet
  cases off with
  | num k =>
    simp only
    by_cases he : xs.isEmpty = true
    · simp [he]
    · simp only [he]
      cases seqHeading xs with
      | none => simp
      | some n =>
        simp only
        cases shiftAll k xs <;> simp
  | tup _ => simp
  | set _ => simp

theorem cmpVals_no_panic (op : CmpOp) (a b : V) (s : Site) : cmpVals op a b ≠ .panic s := by
  cases op <;> simp only [cmpVals] <;>
    (first
      | (intro h; cases h)
      | (cases members a <;> cases members b <;> simp)
      | (cases members b <;> simp))

theorem unVals_no_panic (op : UnOp) (a : V) (s : Site) : unVals op a ≠ .panic s := by
  cases op with
  | neg =>
    cases a with
    | num x => simp [unVals]
    | set x => simp [unVals]
    | tup attrs =>
      cases attrs with
      | nil => simp [unVals]
      | cons p t =>
        obtain ⟨n, x⟩ := p
        cases t with
        | nil => simp only [unVals]; split <;> simp
        | cons q u => simp [unVals]
  | count => cases a <;> simp [unVals]

theorem getAttr_no_panic (name : String) (attrs : List (String × V)) (s : Site) : getAttr name attrs ≠ .panic s := by
  unfold getAttr
  cases attrs.find? (fun p => p.1 == name) with
  | none => simp
  | some p => simp

theorem dotVal_no_panic (a : V) (name : String) (s : Site) : dotVal a name ≠ .panic s := by
  cases a with
  | num _ => simp [dotVal]
  | tup attrs => simpa [dotVal] using getAttr_no_panic name attrs s
  | set l =>
    cases l with
    | nil => simp [dotVal]
    | cons x t =>
      cases t with
      | nil =>
        cases x with
        | tup attrs => simpa [dotVal] using getAttr_no_panic name attrs s
        | num _ => simp [dotVal]
        | set _ => simp [dotVal]
      | cons _ _ => simp [dotVal]

/-- a row of a relation literal panics only as a pinned tuple under its heading -/
theorem relRow_no_panic (hd : List String) (vals : List V) (s : Site)
    (hpin : (hd.length == vals.length && pinnedTuple (Lit.zipAttrs hd vals)) = false) : relRow hd vals ≠ .panic s := by
  intro h
  unfold relRow at h
  by_cases hl : (hd.length != vals.length) = true
  · rw [if_pos hl] at h; simp at h
  · rw [if_neg hl] at h
    have hlen : (hd.length == vals.length) = true := by simpa using hl
    rw [hlen, Bool.true_and] at hpin
    have hnt : ∀ t, newTuple (Lit.zipAttrs hd vals) ≠ .panic t := by
      intro t ht
      rw [newTuple_panic ht] at hpin
      cases hpin
    simp only at h
    by_cases c1 : headingIs hd "@char" = true
    · rw [if_pos c1] at h
      split at h <;> simp at h
    · rw [if_neg c1] at h
      by_cases c2 : headingIs hd "@item" = true
      · rw [if_pos c2] at h
        split at h <;> simp at h
      · rw [if_neg c2] at h
        by_cases c3 : headingIs hd "@value" = true
        · rw [if_pos c3] at h; simp at h
        · rw [if_neg c3] at h
          exact hnt s h

theorem newDictLit_no_panic (kvs : List (V × V)) (s : Site) : newDictLit kvs ≠ .panic s := by
  unfold newDictLit
  split <;> simp

theorem binVals_panic {op : BinOp} {a b : V} {s : Site} (h : binVals op a b = .panic s) :
    binTrig op a b = true := by
  cases op with
  | add =>
    cases a <;> cases b <;> simp [binVals] at h
    rename_i xs ys
    simpa [binTrig] using concatSets_panic h
  | sub => cases a <;> cases b <;> simp [binVals] at h
  | mul => cases a <;> cases b <;> simp [binVals] at h
  | with_ =>
    cases a <;> simp [binVals] at h
    rename_i xs
    simpa [binTrig] using withSet_panic h
  | without => cases a <;> simp [binVals] at h
  | union =>
    cases a <;> cases b <;> simp [binVals] at h
    rename_i xs ys
    simpa [binTrig] using unionSets_panic h
  | inter => cases a <;> cases b <;> simp [binVals] at h
  | diff => cases a <;> cases b <;> simp [binVals] at h
  | symdiff =>
    cases a <;> cases b <;> simp [binVals] at h
    rename_i xs ys
    simpa [binTrig] using unionSets_panic h
  | concat =>
    cases a <;> cases b <;> simp [binVals] at h
    rename_i xs ys
    simpa [binTrig] using concatSets_panic h
  | offset =>
    cases b with
    | set ys => exact absurd h (by simpa [binVals] using offsetSet_no_panic a ys s)
    | num _ => cases a <;> simp [binVals] at h
    | tup _ => cases a <;> simp [binVals] at h
  | call =>
    cases a <;> simp [binVals] at h
    rename_i xs
    simpa [binTrig] using callSet_panic h

/-! ## a >> \_ c -/

theorem seqMapTuples_panic : ∀ (xs : List V) (c : V) (s : Site), seqMapTuples c xs = .panic s →
    (xs.any (remapPinned c)) = true := by
  intro xs
  induction xs with
  | nil => intro c s h; simp [seqMapTuples] at h
  | cons v rest ih =>
    intro c s h
    unfold seqMapTuples at h
    cases hv : atAndOther v with
    | none => rw [hv] at h; simp at h
    | some p =>
      obtain ⟨i, n⟩ := p
      rw [hv] at h
      simp only at h
      rcases bind_panic h with h' | ⟨t, _, h'⟩
      · simp only [List.any_cons, remapPinned, hv, newTuple_panic h', Bool.true_or]
      · rcases bind_panic h' with h'' | ⟨ts, _, h''⟩
        · simp only [List.any_cons, ih c s h'', Bool.or_true]
        · simp at h''

theorem seqMapConst_panic {xs : List V} {c : V} {s : Site} (h : seqMapConst xs c = .panic s) :
    seqmapTrig xs c = true := by
  unfold seqMapConst at h
  unfold seqmapTrig
  cases hh : seqHeading xs with
  | some n =>
    rw [hh] at h
    simp only at h
    split at h
    · simp at h
    · split at h <;> simp at h
  | none =>
    rw [hh] at h
    simp only at h ⊢
    split at h
    · simp at h
    · rcases bind_panic h with h' | ⟨ts, hts, h'⟩
      · rw [seqMapTuples_panic xs c s h']; simp
      · rw [hts]; simp [newSet_panic h']

end Arrai.C10
