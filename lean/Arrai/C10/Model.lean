/-
  C10, part (a): a first-order operator evaluator over data values that returns `panic s` exactly
  where the (repaired) Go code reaches a panic call, an unchecked type assertion or a Must* call.

  Values are meanings (`Arrai.V`: integers, tuples, finite sets).  The Go dynamic type of a value is
  taken to be a function of its meaning (canonical representation, property C02): a two-attribute
  tuple headed (@, @char|@byte|@item|@value) is the specialised tuple type, every other non-empty
  tuple is a *GenericTuple, and the bucket a set member goes to (Value.getBucket) follows from that.

  What is transliterated (same tests, same order):
    rel.NewTuple / TupleBuilder.Finish     `newTuple`   the specialisation rules and their assertions
    SetBuilder.Add/Finish, relationBuilder `newSet`     bucket choice, MustGet on the first tuple's names
    toUnionSetWithItem (With/Union paths)  `withSet`/`unionSets`
    NewRelationExpr + *TupleExpr.Eval      `relRow`     per-heading tuple expressions
    NewDict (literal)                      `newDictLit` duplicate keys
    newArithExpr, addValues, NewWithExpr, NewWithoutExpr, newSetBinExpr, Concatenate, OffsetExpr.Eval,
    Call/SetCall/CallAll, CountExpr, DotExpr, NegExpr, SeqArrowExpr.Eval (>> \_ c), the compareOps table
    (=, !=, <, <=, >, >=, <:, !<:, (<) (<=) (>) (>=) (<>) (<>=) and their negations)
  What is abstracted: the contents of the resulting sets are computed on member lists (FinSet);
  Less/Equal are total (C06/C07) and modelled by the structural order `V.cmp`.
-/
import Arrai.Core.Lit

namespace Arrai.C10
open Arrai

/-! ## outcomes -/

/-- the panic sites that the modelled functions contain -/
inductive Site
  | newTupleIndex   -- rel.NewTuple / TupleBuilder.Finish: attrs[0].Value.(Number) under a heading (@, @char|@byte|@item)
  | newTupleElem    -- rel.NewTuple / TupleBuilder.Finish: attrs[1].Value.(Number) under a heading (@, @char|@byte)
  | relBuilderGet   -- relationBuilder.Add: t.MustGet(name) for a name of the builder's first tuple
  | unionSetItem    -- toUnionSetWithItem: panic("... set bucket and value bucket are different")
  deriving DecidableEq, Repr, Inhabited

/-- the innermost arr-ai/arrai frame the harness reports for the site -/
def Site.frame : Site → String
  | .newTupleIndex => "rel.NewTuple"
  | .newTupleElem => "rel.NewTuple"
  | .relBuilderGet => "rel.(*GenericTuple).MustGet"
  | .unionSetItem => "rel.toUnionSetWithItem"

/-- the known finding that keeps the site open -/
def Site.finding : Site → String
  | .newTupleIndex => "KF-pinned-panics"
  | .newTupleElem => "KF-pinned-panics"
  | .relBuilderGet => "KF-relation-bucket"
  | .unionSetItem => "KF-relation-bucket"

inductive Outcome (α : Type) where
  | ok (a : α)
  | err
  | panic (s : Site)
  deriving Repr, Inhabited, DecidableEq

namespace Outcome
def bind {α β : Type} (x : Outcome α) (f : α → Outcome β) : Outcome β :=
  match x with
  | ok a => f a
  | err => err
  | panic s => panic s

def isPanic {α : Type} : Outcome α → Bool
  | panic _ => true
  | _ => false
end Outcome

open Outcome

/-! ## shapes of values -/

def isNum : V → Bool
  | .num _ => true
  | _ => false

/-- attribute list of a tuple as Go's map holds it: sorted by name, the last binding of a name wins -/
def normAttrs (attrs : List (String × V)) : List (String × V) :=
  attrs.reverse.foldr (fun p acc => V.insAttr p.1 p.2 acc) []

/-- the heading (@, n) with n one of the four names NewTuple specialises -/
def sugarName (n : String) : Bool := n == "@char" || n == "@byte" || n == "@item" || n == "@value"

/-- a canonical two-attribute tuple (@: i, n: x) with n a sugar name: `some (n, i, x)` -/
def sugarPair : List (String × V) → Option (String × V × V)
  | [(a, i), (n, x)] => if a == "@" && sugarName n then some (n, i, x) else none
  | _ => none

/-- KF-pinned-panics, tuple shape: a tuple headed (@, @char|@byte|@item) whose @ is not a number, or headed
(@, @char|@byte) whose second attribute is not a number -/
def pinnedTuple (attrs : List (String × V)) : Bool :=
  match sugarPair (normAttrs attrs) with
  | some (n, i, x) =>
    if n == "@value" then false
    else if n == "@item" then !isNum i
    else !isNum i || !isNum x
  | none => false

/-- rel.NewTuple and TupleBuilder.Finish: both apply the same tests to the same map of attributes -/
def newTuple (attrs : List (String × V)) : Outcome V :=
  let m := normAttrs attrs
  match sugarPair m with
  | some (n, i, x) =>
    if n == "@value" then ok (.tup m)
    else if !isNum i then panic .newTupleIndex          -- attrs[0].Value.(Number)
    else if n == "@item" then ok (.tup m)
    else if !isNum x then panic .newTupleElem           -- attrs[1].Value.(Number)
    else ok (.tup m)
  | none => ok (.tup m)

/-! ## sets: SetBuilder and the relation builder -/

def names (attrs : List (String × V)) : List String := attrs.map (·.1)

/-- members that go to a relation builder: a non-empty tuple that is not one of the specialised pairs;
the bucket key is the names joined by ", " (hashableNamesSlice) -/
def relKey : V → Option (String × List String)
  | .tup attrs =>
    if attrs.isEmpty then none
    else if (sugarPair attrs).isSome then none
    else some (", ".intercalate (names attrs), names attrs)
  | _ => none

/-- relationBuilder.Add for every member in order: the builder of a bucket is created from the first tuple that
arrives (TupleOrderedNames), every later tuple must have all of its names -/
def relAddOne (seen : List (String × List String)) (v : V) : Outcome (List (String × List String)) :=
  match relKey v with
  | none => ok seen
  | some (k, ns) =>
    match seen.find? (fun e => e.1 == k) with
    | none => ok (seen ++ [(k, ns)])
    | some first =>
      if first.2.all (fun n => ns.contains n) then ok seen
      else panic .relBuilderGet                          -- t.MustGet(name)

def relAdd (seen : List (String × List String)) : List V → Outcome Unit
  | [] => ok ()
  | v :: rest => (relAddOne seen v).bind (fun seen' => relAdd seen' rest)

/-- KF-relation-bucket, shape: two members whose name lists differ although they join to the same key -/
def clashPair (a b : V) : Bool :=
  match relKey a, relKey b with
  | some (k1, n1), some (k2, n2) => k1 == k2 && n1 != n2
  | _, _ => false

def bucketClash (vs : List V) : Bool := vs.any (fun a => vs.any (fun b => clashPair a b))

/-- NewSet / SetBuilder.Add … Finish -/
def newSet (vs : List V) : Outcome V :=
  (relAdd [] vs).bind (fun _ => ok (V.mkSet vs))

def members : V → Option (List V)
  | .set xs => some xs
  | _ => none

/-- Set.With on a set whose members are `xs`: only Relation.With / UnionSet.With can reach
toUnionSetWithItem with equal buckets, namely when `v` goes to a relation bucket that already holds tuples
with other names -/
def withSet (xs : List V) (v : V) : Outcome V :=
  if xs.any (fun a => clashPair a v) then panic .unionSetItem
  else ok (V.mkSet (v :: xs))

/-- rel.Union: the default branch adds the members of b one by one (With), the UnionSet branches recurse per bucket -/
def unionSets (xs ys : List V) : Outcome V :=
  if xs.any (fun a => ys.any (fun b => clashPair a b)) then panic .unionSetItem
  else ok (.set (FinSet.union xs ys))

/-! ## literals that are not plain tuples or sets -/

/-- the heading of a relation literal is (@, n) in either order -/
def headingIs (hd : List String) (n : String) : Bool := hd == ["@", n] || hd == [n, "@"]

def attrVal (name : String) (attrs : List (String × V)) : V :=
  match attrs.find? (fun p => p.1 == name) with
  | some (_, v) => v
  | none => default

/-- one row of `{|n1, n2, …| (…), …}`: NewRelationExpr picks a tuple expression per heading -/
def relRow (hd : List String) (vals : List V) : Outcome V :=
  if hd.length != vals.length then err                   -- "heading-tuple mismatch"
  else
    let attrs := Lit.zipAttrs hd vals
    if headingIs hd "@char" then                         -- StringCharTupleExpr.Eval (repaired: errors)
      (if isNum (attrVal "@" attrs) && isNum (attrVal "@char" attrs) then ok (.tup (normAttrs attrs)) else err)
    else if headingIs hd "@item" then                    -- ArrayItemTupleExpr.Eval (repaired: error)
      (if isNum (attrVal "@" attrs) then ok (.tup (normAttrs attrs)) else err)
    else if headingIs hd "@value" then ok (.tup (normAttrs attrs))       -- DictEntryTupleExpr.Eval
    else newTuple attrs                                  -- NewTupleExpr → NewTuple (this is where @byte goes)

def entry (k v : V) : V := V.mkTup [("@", k), ("@value", v)]

/-- NewDict(allowDupKeys = false) for a dict literal -/
def newDictLit (kvs : List (V × V)) : Outcome V :=
  if (kvs.map (·.1)).eraseDups.length != kvs.length then err       -- "duplicate key"
  else ok (V.mkSet (kvs.map (fun kv => entry kv.1 kv.2)))

/-! ## operators -/

inductive BinOp
  | add | sub | mul | with_ | without | union | inter | diff | symdiff | concat | offset | call
  deriving DecidableEq, Repr, Inhabited

inductive CmpOp
  | eq | ne | lt | le | gt | ge | mem | nmem
  | sub | sup | subeq | supeq | subsup | subsupeq          -- (<) (>) (<=) (>=) (<>) (<>=)
  | nsub | nsup | nsubeq | nsupeq | nsubsup | nsubsupeq    -- !(<) …
  deriving DecidableEq, Repr, Inhabited

inductive UnOp
  | neg | count
  deriving DecidableEq, Repr, Inhabited

/-- (@: i, x: v) with exactly these two attributes: `some (name, i, v)` -/
def atPair : V → Option (String × V × V)
  | .tup [(a, x), (b, y)] => if a == "@" then some (b, x, y) else if b == "@" then some (a, y, x) else none
  | _ => none

/-- SetCall: CallAll collects the values stored under the argument into a SetBuilder; exactly one result is the
answer.  A set with a member that is not an (@, x) pair cannot be called (GenericSet/Relation.CallAll). -/
def callResults (xs : List V) (arg : V) : List V :=
  xs.filterMap (fun t => match atPair t with
    | some (_, i, v) => if i = arg then some v else none
    | none => none)

def callSet (xs : List V) (arg : V) : Outcome V :=
  if xs.all (fun t => (atPair t).isSome) then
    (newSet (callResults xs arg)).bind (fun s => match s with
      | .set [r] => ok r
      | _ => err)
  else err

/-- rel.Concatenate -/
def shiftAt (by_ : Int) : V → Option V
  | .tup attrs =>
    match attrs.find? (fun p => p.1 == "@") with
    | some (_, .num n) => some (.tup (normAttrs (attrs ++ [("@", .num (n + by_))])))
    | _ => none
  | _ => none

def shiftAll (by_ : Int) : List V → Option (List V)
  | [] => some []
  | v :: rest => match shiftAt by_ v, shiftAll by_ rest with
    | some t, some ts => some (t :: ts)
    | _, _ => none

/-- shape under which Concatenate's SetBuilder meets a relation-bucket clash -/
def concatClash (xs ys : List V) : Bool :=
  match shiftAll (Int.ofNat xs.length) ys with
  | some shifted => bucketClash (xs ++ shifted)
  | none => false

def concatSets (xs ys : List V) : Outcome V :=
  match shiftAll (Int.ofNat xs.length) ys with
  | some shifted => newSet (xs ++ shifted)
  | none => err                                          -- "Mismatched elt in set + set"

/-- kinds that OffsetExpr.Eval accepts: Array, Bytes, String (all members are the same kind of specialised
pair with a number index) or the empty set -/
def seqHeading (xs : List V) : Option String :=
  match xs with
  | [] => none
  | v :: _ =>
    match v with
    | .tup attrs =>
      match sugarPair attrs with
      | some (n, _, _) =>
        if n != "@value" && xs.all (fun w => match w with
            | .tup bs => (match sugarPair bs with | some (m, i, _) => m == n && isNum i | none => false)
            | _ => false)
        then some n else none
      | none => none
    | _ => none

def offsetSet (off : V) (xs : List V) : Outcome V :=
  match off with
  | .num k =>
    if xs.isEmpty then ok V.none
    else match seqHeading xs with
      | some _ => match shiftAll k xs with
        | some shifted => ok (V.mkSet shifted)
        | none => err
      | none => err                                      -- "offset not applicable to …"
  | _ => err                                             -- "offset must be a number"

/-! a >> \_ c  (SeqArrowExpr.Eval with a constant function): String and Bytes need a number back, Array and Dict
take anything, every other set must consist of tuples with an @ and one more attribute and is rebuilt with
NewTuple — where the assertions of NewTuple are live again -/

/-- the (@, n) parts of a member that the generic branch of `>>` rebuilds -/
def atAndOther : V → Option (V × String)
  | .tup attrs =>
    match attrs.find? (fun p => p.1 == "@"), attrs.find? (fun p => p.1 != "@") with
    | some (_, i), some (n, _) => some (i, n)
    | _, _ => none
  | _ => none

/-- the rebuilt tuple (@: i, n: c) of a member is a pinned tuple -/
def remapPinned (c : V) (v : V) : Bool :=
  match atAndOther v with
  | some (i, n) => pinnedTuple [("@", i), (n, c)]
  | none => false

def seqMapTuples (c : V) : List V → Outcome (List V)
  | [] => ok []
  | v :: rest =>
    match atAndOther v with
    | some (i, n) =>
      (newTuple [("@", i), (n, c)]).bind (fun t => (seqMapTuples c rest).bind (fun ts => ok (t :: ts)))
    | none => err                                        -- "lhs must be an indexed type"

def seqMapConst (xs : List V) (c : V) : Outcome V :=
  match seqHeading xs with
  | some n =>
    if n == "@item" then ok (V.mkSet (xs.filterMap (fun v => match atPair v with
        | some (_, i, _) => some (V.mkTup [("@", i), ("@item", c)])
        | none => none)))
    else if isNum c then ok (V.mkSet (xs.filterMap (fun v => match atPair v with
        | some (m, i, _) => some (V.mkTup [("@", i), (m, c)])
        | none => none)))
    else err                                             -- "must produce valid chars/bytes"
  | none =>
    if !xs.isEmpty && xs.all (fun v => match v with
        | .tup bs => (match sugarPair bs with | some (m, _, _) => m == "@value" | none => false)
        | _ => false)
    then ok (V.mkSet (xs.filterMap (fun v => match atPair v with
        | some (_, i, _) => some (entry i c)
        | none => none)))                                -- Dict
    else (seqMapTuples c xs).bind newSet                 -- generic path

def boolV (b : Bool) : V := V.bool b

def isSubset (xs ys : List V) : Bool := FinSet.subset xs ys

/-- syntax.subset / subsetOrEqual / … (repaired: non-sets are errors) and the other compareOps -/
def cmpVals (op : CmpOp) (a b : V) : Outcome V :=
  let sets (f : List V → List V → Bool) : Outcome V :=
    match members a, members b with
    | some xs, some ys => ok (boolV (f xs ys))
    | _, _ => err
  let proper (xs ys : List V) : Bool := isSubset xs ys && xs.length < ys.length
  match op with
  | .eq => ok (boolV (decide (a = b)))
  | .ne => ok (boolV (!decide (a = b)))
  | .lt => ok (boolV (V.cmp a b == .lt))
  | .le => ok (boolV (V.cmp b a != .lt))
  | .gt => ok (boolV (V.cmp b a == .lt))
  | .ge => ok (boolV (V.cmp a b != .lt))
  | .mem => match members b with
    | some ys => ok (boolV (decide (a ∈ ys)))
    | none => err
  | .nmem => match members b with
    | some ys => ok (boolV (!decide (a ∈ ys)))
    | none => err
  | .sub => sets proper
  | .sup => sets (fun xs ys => proper ys xs)
  | .subeq => sets isSubset
  | .supeq => sets (fun xs ys => isSubset ys xs)
  | .subsup => sets (fun xs ys => proper xs ys || proper ys xs)
  | .subsupeq => sets (fun xs ys => isSubset xs ys || isSubset ys xs)
  | .nsub => sets (fun xs ys => !proper xs ys)
  | .nsup => sets (fun xs ys => !proper ys xs)
  | .nsubeq => sets (fun xs ys => !isSubset xs ys)
  | .nsupeq => sets (fun xs ys => !isSubset ys xs)
  | .nsubsup => sets (fun xs ys => !(proper xs ys || proper ys xs))
  | .nsubsupeq => sets (fun xs ys => !(isSubset xs ys || isSubset ys xs))

def binVals (op : BinOp) (a b : V) : Outcome V :=
  match op with
  | .add =>                                              -- addValues
    match a, b with
    | .num x, .num y => ok (.num (x + y))
    | .tup x, .tup y => ok (.tup (normAttrs (x ++ y)))   -- MergeLeftToRight
    | .set x, .set y => concatSets x y                   -- Concatenate
    | _, _ => err
  | .sub => match a, b with                              -- newArithExpr
    | .num x, .num y => ok (.num (x - y))
    | _, _ => err
  | .mul => match a, b with
    | .num x, .num y => ok (.num (x * y))
    | _, _ => err
  | .with_ => match a with                               -- NewWithExpr
    | .set xs => withSet xs b
    | _ => err
  | .without => match a with                             -- NewWithoutExpr
    | .set xs => ok (.set (FinSet.erase xs b))
    | _ => err
  | .union => match a, b with                            -- newSetBinExpr
    | .set xs, .set ys => unionSets xs ys
    | _, _ => err
  | .inter => match a, b with
    | .set xs, .set ys => ok (.set (FinSet.inter xs ys))
    | _, _ => err
  | .diff => match a, b with
    | .set xs, .set ys => ok (.set (FinSet.diff xs ys))
    | _, _ => err
  | .symdiff => match a, b with                          -- Union(Difference(a, b), Difference(b, a))
    | .set xs, .set ys => unionSets (FinSet.diff xs ys) (FinSet.diff ys xs)
    | _, _ => err
  | .concat => match a, b with
    | .set xs, .set ys => concatSets xs ys
    | _, _ => err
  | .offset => match b with                              -- OffsetExpr.Eval (a \ b: a is the offset)
    | .set ys => offsetSet a ys
    | _ => match a with
      | .num _ => err
      | _ => err
  | .call => match a with                                -- Call
    | .set xs => callSet xs b
    | _ => err

def unVals (op : UnOp) (a : V) : Outcome V :=
  match op with
  | .neg => match a with                                 -- Negate
    | .num x => ok (.num (-x))
    | .tup [(n, x)] => if n == "@neg" then ok x else ok (.tup [("@neg", a)])
    | _ => ok (.tup [("@neg", a)])
  | .count => match a with                               -- CountExpr
    | .set xs => ok (.num (Int.ofNat xs.length))
    | _ => err

/-- DotExpr.Eval: a tuple, or (deprecated) a set with exactly one member that is a tuple -/
def getAttr (name : String) (attrs : List (String × V)) : Outcome V :=
  match attrs.find? (fun p => p.1 == name) with
  | some (_, v) => ok v
  | none => err            -- (the "&name" accessor needs a function value: not in the first-order fragment → error)

def dotVal (a : V) (name : String) : Outcome V :=
  match a with
  | .tup attrs => getAttr name attrs
  | .set [.tup attrs] => getAttr name attrs
  | _ => err

/-! ## expressions -/

inductive E where
  | num (n : Int)
  | str (cs : List Nat)
  | tuple (kvs : List (String × E))
  | set (xs : List E)
  | arr (xs : List E)
  | dict (kvs : List (E × E))
  | rel (hd : List String) (rows : List (List E))
  | bin (op : BinOp) (a b : E)
  | cmp (op : CmpOp) (a b : E)
  | un (op : UnOp) (a : E)
  | dot (a : E) (name : String)
  | seqmap (a c : E)                                     -- a >> \_ c   (c closed)
  deriving Inhabited

mutual
def eval : E → Outcome V
  | .num n => ok (.num n)
  | .str cs => ok (V.mkStr cs)
  | .tuple kvs => (evalAttrs kvs).bind newTuple
  | .set xs => (evalSetFrom [] xs).bind (fun vs => ok (V.mkSet vs))
  | .arr xs => (evalList xs).bind (fun vs => ok (V.mkArr vs))
  | .dict kvs => (evalPairs kvs).bind newDictLit
  | .rel hd rows => (evalRelFrom hd [] rows).bind (fun ts => ok (V.mkSet ts))
  | .bin op a b => (eval a).bind (fun va =>
      if op == .offset && !isNum va then err             -- OffsetExpr.Eval tests the offset before it evaluates the array
      else (eval b).bind (fun vb => binVals op va vb))
  | .cmp op a b => (eval a).bind (fun va => (eval b).bind (fun vb => cmpVals op va vb))
  | .un op a => (eval a).bind (unVals op)
  | .dot a name => (eval a).bind (fun va => dotVal va name)
  | .seqmap a c => (eval a).bind (fun va =>
      match va with
      | .set [] => ok V.none                             -- no member: the function is never called
      | .set xs => (eval c).bind (fun vc => seqMapConst xs vc)
      | _ => err)
def evalList : List E → Outcome (List V)
  | [] => ok []
  | e :: rest => (eval e).bind (fun v => (evalList rest).bind (fun vs => ok (v :: vs)))
def evalAttrs : List (String × E) → Outcome (List (String × V))
  | [] => ok []
  | (n, e) :: rest => (eval e).bind (fun v => (evalAttrs rest).bind (fun vs => ok ((n, v) :: vs)))
def evalPairs : List (E × E) → Outcome (List (V × V))
  | [] => ok []
  | (k, e) :: rest =>
    (eval k).bind (fun kv => (eval e).bind (fun v => (evalPairs rest).bind (fun vs => ok ((kv, v) :: vs))))
/-- SetExpr.Eval (and the fold in NewSetExpr): every element is evaluated and handed to the SetBuilder before the
next one is looked at -/
def evalSetFrom (seen : List (String × List String)) : List E → Outcome (List V)
  | [] => ok []
  | e :: rest =>
    (eval e).bind (fun v => (relAddOne seen v).bind (fun seen' =>
      (evalSetFrom seen' rest).bind (fun vs => ok (v :: vs))))
/-- the rows of a relation literal are tuple expressions in a set expression: the parts of a row are evaluated, its
tuple is built and added, then the next row -/
def evalRelFrom (hd : List String) (seen : List (String × List String)) : List (List E) → Outcome (List V)
  | [] => ok []
  | r :: rest =>
    (evalList r).bind (fun vs => (relRow hd vs).bind (fun t => (relAddOne seen t).bind (fun seen' =>
      (evalRelFrom hd seen' rest).bind (fun ts => ok (t :: ts)))))
end

/-- the values of the elements up to the first one that does not evaluate to a value -/
def okPrefix : List E → List V
  | [] => []
  | e :: rest => match eval e with
    | .ok v => v :: okPrefix rest
    | _ => []

/-- the row tuples up to the first row that does not produce one -/
def okRows (hd : List String) : List (List E) → List V
  | [] => []
  | r :: rest => match (evalList r).bind (relRow hd) with
    | .ok t => t :: okRows hd rest
    | _ => []

/-! ## compile time: constant folding

The compiler folds every constructor whose parts are literal values (NewTupleExpr, NewSetExpr, NewArrayExpr,
NewDictExpr; `(-1)` is a negation, not a literal; rows under the headings (@, @char) and (@, @item) become
tuple expressions that are only evaluated at run time).  The constructors of a folded literal therefore run —
and fail or panic — while the program is compiled, in source order, before anything is evaluated. -/

def runtimeHeading (hd : List String) : Bool := headingIs hd "@char" || headingIs hd "@item"

mutual
def isLit : E → Bool
  | .num n => decide (0 ≤ n)
  | .str _ => true
  | .tuple kvs => isLitAttrs kvs
  | .set xs => isLitList xs
  | .arr xs => isLitList xs
  | .dict kvs => isLitPairs kvs
  | .rel hd rows => !runtimeHeading hd && isLitRows rows
  | _ => false
def isLitList : List E → Bool
  | [] => true
  | e :: rest => isLit e && isLitList rest
def isLitAttrs : List (String × E) → Bool
  | [] => true
  | (_, e) :: rest => isLit e && isLitAttrs rest
def isLitPairs : List (E × E) → Bool
  | [] => true
  | (k, e) :: rest => isLit k && isLit e && isLitPairs rest
def isLitRows : List (List E) → Bool
  | [] => true
  | r :: rest => isLitList r && isLitRows rest
end

def failOf (o : Outcome V) : Option (Outcome V) :=
  match o with
  | .ok _ => none
  | bad => some bad

def orElse (a : Option (Outcome V)) (b : Option (Outcome V)) : Option (Outcome V) :=
  match a with
  | some o => some o
  | none => b

/-- NewRelationExpr after the rows are compiled: per row, the width test, then NewTupleExpr, which folds a row of
literals -/
def relBuild (hd : List String) : List (List E) → Option (Outcome V)
  | [] => none
  | r :: rest =>
    if r.length != hd.length then some .err
    else orElse
      (if !runtimeHeading hd && isLitList r then
        (match evalList r with
         | .ok vs => failOf (relRow hd vs)
         | _ => none)
       else none)
      (relBuild hd rest)

mutual
/-- the first failure of the compile phase, in source order: the parts first, then the fold of the node itself -/
def cfail : E → Option (Outcome V)
  | .num _ => none
  | .str _ => none
  | .tuple kvs => orElse (cfailAttrs kvs) (if isLitAttrs kvs then failOf (eval (.tuple kvs)) else none)
  | .set xs => orElse (cfailList xs) (if isLitList xs then failOf (eval (.set xs)) else none)
  | .arr xs => cfailList xs
  | .dict kvs => orElse (cfailPairs kvs) (if isLitPairs kvs then failOf (eval (.dict kvs)) else none)
  | .rel hd rows =>
    orElse (cfailRows rows) (orElse (relBuild hd rows)
      (if !runtimeHeading hd && isLitRows rows then failOf (eval (.rel hd rows)) else none))
  | .bin _ a b => orElse (cfail a) (cfail b)
  | .cmp _ a b => orElse (cfail a) (cfail b)
  | .un _ a => cfail a
  | .dot a _ => cfail a
  | .seqmap a c => orElse (cfail a) (cfail c)
def cfailList : List E → Option (Outcome V)
  | [] => none
  | e :: rest => orElse (cfail e) (cfailList rest)
def cfailAttrs : List (String × E) → Option (Outcome V)
  | [] => none
  | (_, e) :: rest => orElse (cfail e) (cfailAttrs rest)
def cfailPairs : List (E × E) → Option (Outcome V)
  | [] => none
  | (k, e) :: rest => orElse (cfail k) (orElse (cfail e) (cfailPairs rest))
def cfailRows : List (List E) → Option (Outcome V)
  | [] => none
  | r :: rest => orElse (cfailList r) (cfailRows rest)
end

/-- compile, then evaluate: what `syntax.EvaluateExpr` does with the source of `e` -/
def run (e : E) : Outcome V :=
  match cfail e with
  | some o => o
  | none => eval e

/-! ## the decidable shapes of the open findings, node by node

`trig e` is true when some constructor or operator node of `e` is applied to operand values of one of the open
shapes: a pinned tuple (`pinnedTuple`) or a relation-bucket clash (`clashPair`).  It is computed from the values
of the operands only — never from the outcome of the node itself. -/

/-- shapes under which the value-level function of a node can reach an open site -/
def binTrig (op : BinOp) (a b : V) : Bool :=
  match op, a, b with
  | .with_, .set xs, v => xs.any (fun x => clashPair x v)
  | .union, .set xs, .set ys => xs.any (fun x => ys.any (fun y => clashPair x y))
  | .symdiff, .set xs, .set ys =>
    (FinSet.diff xs ys).any (fun x => (FinSet.diff ys xs).any (fun y => clashPair x y))
  | .concat, .set xs, .set ys => concatClash xs ys
  | .add, .set xs, .set ys => concatClash xs ys
  | .call, .set xs, arg => bucketClash (callResults xs arg)
  | _, _, _ => false

/-- members of a non-sequence, non-dict set that `>> \_ c` rebuilds into a pinned tuple, or whose rebuilt tuples clash -/
def seqmapTrig (xs : List V) (c : V) : Bool :=
  match seqHeading xs with
  | some _ => false
  | none =>
    xs.any (remapPinned c) || (match seqMapTuples c xs with
      | .ok ts => bucketClash ts
      | _ => false)

/-- some row of a relation literal, taken by itself, is a pinned tuple under the heading (a row of literals is
folded into a tuple at compile time, whatever the other rows do) -/
def pinnedRows (hd : List String) : List (List E) → Bool
  | [] => false
  | r :: rest =>
    (match evalList r with
     | .ok vs => hd.length == vs.length && pinnedTuple (Lit.zipAttrs hd vs)
     | _ => false) || pinnedRows hd rest

mutual
def trig : E → Bool
  | .num _ => false
  | .str _ => false
  | .tuple kvs => trigAttrs kvs || (match evalAttrs kvs with | .ok as => pinnedTuple as | _ => false)
  | .set xs => trigList xs || bucketClash (okPrefix xs)
  | .arr xs => trigList xs
  | .dict kvs => trigPairs kvs
  | .rel hd rows => trigRows rows || pinnedRows hd rows || bucketClash (okRows hd rows)
  | .bin op a b => trig a || trig b || (match eval a, eval b with
      | .ok va, .ok vb => binTrig op va vb
      | _, _ => false)
  | .cmp _ a b => trig a || trig b
  | .un _ a => trig a
  | .dot a _ => trig a
  | .seqmap a c => trig a || trig c || (match eval a, eval c with
      | .ok (.set xs), .ok vc => seqmapTrig xs vc
      | _, _ => false)
def trigList : List E → Bool
  | [] => false
  | e :: rest => trig e || trigList rest
def trigAttrs : List (String × E) → Bool
  | [] => false
  | (_, e) :: rest => trig e || trigAttrs rest
def trigPairs : List (E × E) → Bool
  | [] => false
  | (k, e) :: rest => trig k || trig e || trigPairs rest
def trigRows : List (List E) → Bool
  | [] => false
  | r :: rest => trigList r || trigRows rest
end

/-- admissible: no node of the expression is applied to operands of an open-finding shape -/
def Adm (e : E) : Prop := trig e = false

instance (e : E) : Decidable (Adm e) := inferInstanceAs (Decidable (trig e = false))

end Arrai.C10
