/-
  C03 — refinement of the //seq operations: the value the heap model yields denotes what `Spec.trimPrefix`,
  `Spec.trimSuffix`, `Spec.sub`, `Spec.split`, `Spec.repeat_`, `Spec.sconcat` say on the operands' snapshots.

  The bridge is the round trip between a dense run of cells and its denotation: `Spec.dense (Spec.enc k xs) = (k, xs)`
  for non-empty `xs` of elements the kind admits (`validElem`: chars are non-negative numbers, bytes are bytes).
-/
import Arrai.C03.RefineOps

namespace Arrai.C03
open Impl

/-! ### canonical form of a dense sequence -/

theorem cmp_tup_lt (k : Kind) (i j : Int) (x y : V) (h : i < j) : V.cmp (tup k i x) (tup k j y) = .lt := by
  have e : compare "@" "@" = Ordering.eq := by decide
  have c : compare i j = Ordering.lt := by rw [Int.compare_eq_lt]; exact h
  simp [tup, V.cmp, V.cmpAttrs, c, Ordering.then]

/-- the tuples of a dense run, in index order -/
def denseTuples (k : Kind) (off : Int) : List V → List V
  | [] => []
  | x :: r => tup k off x :: denseTuples k (off + 1) r

theorem seqMembers_dense (k : Kind) (off : Int) (xs : List V) :
    V.seqMembers k.attr off (xs.map some) = denseTuples k off xs := by
  induction xs generalizing off with
  | nil => simp [V.seqMembers, denseTuples]
  | cons x r ih => simp only [List.map_cons, seqMembers_cons_some, ih, denseTuples]

theorem mem_denseTuples (k : Kind) (off : Int) (xs : List V) (t : V) (h : t ∈ denseTuples k off xs) :
    ∃ (j : Nat) (x : V), t = tup k (off + j) x := by
  induction xs generalizing off with
  | nil => simp [denseTuples] at h
  | cons x r ih =>
    simp only [denseTuples, List.mem_cons] at h
    rcases h with rfl | h
    · exact ⟨0, x, by simp⟩
    · obtain ⟨j, y, e⟩ := ih _ h
      exact ⟨j + 1, y, by rw [e]; congr 1; push_cast; omega⟩

theorem sorted_denseTuples (k : Kind) (off : Int) (xs : List V) : FinSet.Sorted (denseTuples k off xs) := by
  induction xs generalizing off with
  | nil => exact FinSet.sorted_nil
  | cons x r ih =>
    unfold FinSet.Sorted
    simp only [denseTuples, List.pairwise_cons]
    refine ⟨?_, ih (off + 1)⟩
    intro t ht
    obtain ⟨j, y, e⟩ := mem_denseTuples k (off + 1) r t ht
    rw [e]
    exact cmp_tup_lt k _ _ _ _ (by omega)

theorem mk_of_sorted (l : List V) (h : FinSet.Sorted l) : FinSet.mk l = l :=
  FinSet.sorted_ext _ _ (FinSet.sorted_mk l) h (fun x => FinSet.mem_mk l x)

theorem members_enc (k : Kind) (xs : List V) : members (Spec.enc k xs) = denseTuples k 0 xs := by
  simp only [Spec.enc, V.mkSeq, V.mkSet, members, seqMembers_dense]
  exact mk_of_sorted _ (sorted_denseTuples k 0 xs)

/-- index/element pairs of a dense run -/
def densePairs (off : Int) : List V → List (Int × V)
  | [] => []
  | x :: r => (off, x) :: densePairs (off + 1) r

theorem decodeAll_dense (k : Kind) (off : Int) (xs : List V) (hv : ∀ x, x ∈ xs → validElem k x = true) :
    decodeAll k (denseTuples k off xs) = some (densePairs off xs) := by
  induction xs generalizing off with
  | nil => simp [denseTuples, decodeAll, densePairs]
  | cons x r ih =>
    have ihr := ih (off + 1) (fun y hy => hv y (List.mem_cons_of_mem _ hy))
    simp only [denseTuples, decodeAll, decodeTuple_tup, ihr, hv x (by simp), and_self, if_true, densePairs]

theorem densePairs_snd (off : Int) (xs : List V) : (densePairs off xs).map (·.2) = xs := by
  induction xs generalizing off with
  | nil => rfl
  | cons x r ih => simp [densePairs, ih]

theorem densePairs_length (off : Int) (xs : List V) : (densePairs off xs).length = xs.length := by
  induction xs generalizing off with
  | nil => rfl
  | cons x r ih => simp [densePairs, ih]

theorem densePairs_fst (off : Int) (s : Nat) (xs : List V) :
    (densePairs (off + (s : Int)) xs).map (·.1) = (List.range' s xs.length).map (fun (j : Nat) => off + (j : Int)) := by
  induction xs generalizing s with
  | nil => rfl
  | cons x r ih =>
    have := ih (s + 1)
    have e : off + ((s + 1 : Nat) : Int) = off + (s : Int) + 1 := by push_cast; omega
    rw [e] at this
    simp only [densePairs, List.map_cons, List.length_cons, List.range'_succ, this]

theorem densePairs_fst0 (xs : List V) : (densePairs 0 xs).map (·.1) = (List.range xs.length).map Int.ofNat := by
  have := densePairs_fst 0 0 xs
  rw [List.range_eq_range']
  simp only [Int.natCast_zero, Int.add_zero, Int.zero_add] at this
  rw [this]
  rfl

/-- the round trip: a non-empty dense run of admissible elements is recovered from its denotation -/
theorem dense_enc (k : Kind) (xs : List V) (hne : xs ≠ []) (hv : ∀ x, x ∈ xs → validElem k x = true) :
    Spec.dense (Spec.enc k xs) = some (k, xs) := by
  cases xs with
  | nil => exact absurd rfl hne
  | cons x r =>
    have hm := members_enc k (x :: r)
    have hd := decodeAll_dense k 0 (x :: r) hv
    unfold Spec.dense decodeSeq
    rw [hm]
    simp only [denseTuples, decodeTuple_tup]
    rw [show tup k 0 x :: denseTuples k (0 + 1) r = denseTuples k 0 (x :: r) from rfl, hd]
    simp only [Option.map_some]
    have e1 : (densePairs 0 (x :: r)).map (·.1) = (List.range (densePairs 0 (x :: r)).length).map Int.ofNat := by
      rw [densePairs_length]; exact densePairs_fst0 (x :: r)
    rw [if_pos e1, densePairs_snd]

/-! ### dense operands -/

theorem mapM_id_eq : ∀ {l : List Cell} {xs : List V}, l.mapM id = some xs → l = xs.map some
  | [], xs, e => by simp at e; subst e; rfl
  | none :: r, xs, e => by simp at e
  | some v :: r, xs, e => by
    simp only [List.mapM_cons, id, Option.bind_eq_bind, Option.bind_some] at e
    cases hr : r.mapM id with
    | none => rw [hr] at e; simp at e
    | some ys =>
      rw [hr] at e
      simp at e
      subst e
      simp [mapM_id_eq hr]

/-- what `denseCells` hands out: the value is `.seq k s 0 _` and its cells are exactly `xs` -/
theorem denseCells_spec {h : Heap} {x : HVal} {k : Kind} {s : Slice} {xs : List V}
    (e : denseCells h x = some (k, s, xs)) : (∃ aux, x = .seq k s 0 aux) ∧ read h s = xs.map some := by
  unfold denseCells at e
  cases x with
  | seq k' s' off aux =>
    simp only [] at e
    split at e
    · rename_i h0
      simp only [Option.map_eq_some_iff] at e
      obtain ⟨ys, hm, e⟩ := e
      simp at e
      obtain ⟨rfl, rfl, rfl⟩ := e
      exact ⟨⟨aux, by rw [h0]⟩, mapM_id_eq hm⟩
    · simp at e
  | other v => simp at e
  | err => simp at e

theorem snap_dense {h : Heap} {x : HVal} {k : Kind} {s : Slice} {xs : List V}
    (e : denseCells h x = some (k, s, xs)) : snap h x = Spec.enc k xs ∧ x ≠ .err := by
  obtain ⟨⟨aux, rfl⟩, hr⟩ := denseCells_spec e
  exact ⟨by simp [snap, Spec.enc, hr], by simp⟩

/-- a dense, non-empty operand of admissible elements is recognised by the specification for what it is -/
theorem dense_snap {h : Heap} {x : HVal} {k : Kind} {s : Slice} {xs : List V}
    (e : denseCells h x = some (k, s, xs)) (hne : xs ≠ []) (hv : ∀ y, y ∈ xs → validElem k y = true) :
    Spec.dense (snap h x) = some (k, xs) := by
  rw [(snap_dense e).1]; exact dense_enc k xs hne hv

theorem snapO_of_ne_err {h : Heap} {x : HVal} (hx : x ≠ .err) : snapO (h, x) = some (snap h x) := by
  unfold snapO; split
  · rename_i he; exact absurd he hx
  · rfl

theorem snapO_freshSeq (orc : Oracle) (k : Kind) (h : Heap) (xs : List V) :
    snapO (freshSeq orc k h xs) = some (Spec.enc k xs) := by
  unfold freshSeq
  split
  · rename_i he
    have : xs = [] := by simpa using he
    subst this; rfl
  · rw [snapO_seq, read_allocWith_self]; rfl

theorem snapO_newOffsetBytes (h : Heap) (s : Slice) (w : s.WF h) :
    snapO (h, newOffsetBytes s 0) = some (V.mkSeq (Kind.attr .B) 0 (read h s)) := by
  unfold newOffsetBytes
  split
  · rename_i h0
    have : read h s = [] := List.eq_nil_of_length_eq_zero ((read_length w).trans h0)
    rw [this]; rfl
  · rfl

/-- the cells after a loop of `append`s -/
theorem read_appendAll (orc : Oracle) (z : Cell) (chunks : List (List Cell)) (p : Heap × Slice) (w : p.2.WF p.1) :
    read (appendAll orc z p chunks).1 (appendAll orc z p chunks).2 = read p.1 p.2 ++ chunks.flatten := by
  unfold appendAll
  induction chunks generalizing p with
  | nil => simp
  | cons c r ih =>
    simp only [List.foldl_cons, List.flatten_cons]
    rw [ih _ (wf_append orc z p.1 p.2 c w), read_append orc z p.1 p.2 c w, List.append_assoc]

/-! ### the operations -/

/-- `//seq.trim_prefix(p, s)` on strings and byte arrays -/
theorem trimPrefix_refines (orc : Oracle) (st : St) (inv : InvWF st) (p s : Nat) {kp ks : Kind} {sp ss : Slice} {xp xs : List V}
    (hp : denseCells st.h (st.vals.getD p .err) = some (kp, sp, xp)) (hs : denseCells st.h (st.vals.getD s .err) = some (ks, ss, xs))
    (hk : ks ≠ .A) (hnp : xp ≠ []) (hns : xs ≠ []) (hvp : ∀ y, y ∈ xp → validElem kp y = true) (hvs : ∀ y, y ∈ xs → validElem ks y = true) :
    snapO (run1 true orc st (.trimPrefix p s)) =
      Spec.trimPrefix (snap st.h (st.vals.getD p .err)) (snap st.h (st.vals.getD s .err)) := by
  have dp := dense_snap hp hnp hvp
  have ds := dense_snap hs hns hvs
  have ws := (denseCells_wf hs (inv.getD s)).1
  have rs := (denseCells_spec hs).2
  simp only [run1, hp, hs, Spec.trimPrefix, Spec.seq2, dp, ds]
  by_cases hkk : kp = ks
  · subst hkk
    simp only [ne_eq, not_true_eq_false, if_false, if_true]
    cases kp with
    | A => exact absurd rfl hk
    | S => exact snapO_freshSeq _ _ _ _
    | B =>
      simp only []
      split
      · rename_i hpre
        have hle := hasPrefix_length hpre
        have hlen := (denseCells_wf hs (inv.getD s)).2
        rw [snapO_newOffsetBytes _ _ (wf_reslice ws _ _ (by omega) ws.len),
          read_reslice st.h ss xp.length ss.len ws (by omega) (Nat.le_refl _), rs]
        simp only [Spec.enc]
        congr 2
        rw [← List.map_drop]
        apply List.take_of_length_le; simp; omega
      · rw [snapO_seq, rs]; rfl
  · simp [hkk, snapO]

/-- `//seq.trim_suffix(p, s)` on strings and byte arrays -/
theorem trimSuffix_refines (orc : Oracle) (st : St) (inv : InvWF st) (p s : Nat) {kp ks : Kind} {sp ss : Slice} {xp xs : List V}
    (hp : denseCells st.h (st.vals.getD p .err) = some (kp, sp, xp)) (hs : denseCells st.h (st.vals.getD s .err) = some (ks, ss, xs))
    (hk : ks ≠ .A) (hnp : xp ≠ []) (hns : xs ≠ []) (hvp : ∀ y, y ∈ xp → validElem kp y = true) (hvs : ∀ y, y ∈ xs → validElem ks y = true) :
    snapO (run1 true orc st (.trimSuffix p s)) =
      Spec.trimSuffix (snap st.h (st.vals.getD p .err)) (snap st.h (st.vals.getD s .err)) := by
  have dp := dense_snap hp hnp hvp
  have ds := dense_snap hs hns hvs
  have ws := (denseCells_wf hs (inv.getD s)).1
  have rs := (denseCells_spec hs).2
  simp only [run1, hp, hs, Spec.trimSuffix, Spec.seq2, dp, ds]
  by_cases hkk : kp = ks
  · subst hkk
    simp only [ne_eq, not_true_eq_false, if_false, if_true]
    cases kp with
    | A => exact absurd rfl hk
    | S => exact snapO_freshSeq _ _ _ _
    | B =>
      simp only []
      split
      · have hlen := (denseCells_wf hs (inv.getD s)).2
        rw [snapO_newOffsetBytes _ _ (wf_reslice ws 0 _ (Nat.zero_le _) (by have := ws.len; omega)),
          read_reslice st.h ss 0 _ ws (Nat.zero_le _) (by omega), rs]
        simp only [Spec.enc, List.drop_zero, Nat.sub_zero]
        congr 2
        rw [← List.map_take, hlen]
      · rw [snapO_seq, rs]; rfl
  · simp [hkk, snapO]

/-- `//seq.sub(old, new, s)` on strings and byte arrays -/
theorem sub_refines (orc : Oracle) (st : St) (o n s : Nat) {ko kn ks : Kind} {so sn ss : Slice} {xo xn xs : List V}
    (ho : denseCells st.h (st.vals.getD o .err) = some (ko, so, xo)) (hn : denseCells st.h (st.vals.getD n .err) = some (kn, sn, xn))
    (hs : denseCells st.h (st.vals.getD s .err) = some (ks, ss, xs)) (hk : ks ≠ .A)
    (hno : xo ≠ []) (hnn : xn ≠ []) (hns : xs ≠ [])
    (hvo : ∀ y, y ∈ xo → validElem ko y = true) (hvn : ∀ y, y ∈ xn → validElem kn y = true) (hvs : ∀ y, y ∈ xs → validElem ks y = true) :
    snapO (run1 true orc st (.sub o n s)) =
      Spec.sub (snap st.h (st.vals.getD o .err)) (snap st.h (st.vals.getD n .err)) (snap st.h (st.vals.getD s .err)) := by
  have d1 := dense_snap ho hno hvo
  have d2 := dense_snap hn hnn hvn
  have d3 := dense_snap hs hns hvs
  simp only [run1, ho, hn, hs, Spec.sub, d1, d2, d3]
  by_cases hkk : ko = ks ∧ kn = ks
  · obtain ⟨rfl, rfl⟩ := hkk
    simp only [ne_eq, not_true_eq_false, or_self, if_false, and_self, if_true]
    exact snapO_freshSeq _ _ _ _
  · have : ko ≠ ks ∨ kn ≠ ks := by
      by_cases h1 : ko = ks
      · right; intro h2; exact hkk ⟨h1, h2⟩
      · left; exact h1
    simp [this, hkk, snapO]

/-- `//seq.split(d, s)`: the array of pieces (the container is fresh; its items are the pieces' denotations) -/
theorem split_refines (orc : Oracle) (st : St) (d s : Nat) {kd ks : Kind} {sd ss : Slice} {xd xs : List V}
    (hd : denseCells st.h (st.vals.getD d .err) = some (kd, sd, xd)) (hs : denseCells st.h (st.vals.getD s .err) = some (ks, ss, xs))
    (hnd : xd ≠ []) (hns : xs ≠ []) (hvd : ∀ y, y ∈ xd → validElem kd y = true) (hvs : ∀ y, y ∈ xs → validElem ks y = true) :
    snapO (run1 true orc st (.split d s)) =
      Spec.split (snap st.h (st.vals.getD d .err)) (snap st.h (st.vals.getD s .err)) := by
  have d1 := dense_snap hd hnd hvd
  have d2 := dense_snap hs hns hvs
  simp only [run1, hd, hs, Spec.split, Spec.seq2, d1, d2]
  by_cases hkk : kd = ks
  · subst hkk
    simp only [ne_eq, not_true_eq_false, if_false, if_true]
    rw [snapO_freshSeq]; rfl
  · simp [hkk, snapO]

/-- `//seq.repeat(n, s)` on strings and arrays (the array loop appends `n` times to an empty slice) -/
theorem repeat_refines (orc : Oracle) (st : St) (n i : Nat) {k : Kind} {s : Slice} {xs : List V}
    (hs : denseCells st.h (st.vals.getD i .err) = some (k, s, xs)) (hk : k ≠ .B) (hns : xs ≠ [])
    (hvs : ∀ y, y ∈ xs → validElem k y = true) :
    snapO (run1 true orc st (.repeat_ n i)) = Spec.repeat_ n (snap st.h (st.vals.getD i .err)) := by
  have d1 := dense_snap hs hns hvs
  cases k with
  | B => exact absurd rfl hk
  | S =>
    simp only [run1, hs, Spec.repeat_, d1]
    rw [snapO_freshSeq]; simp
  | A =>
    simp only [run1, hs, Spec.repeat_, d1]
    have w0 := wf_mkSlice st.h none 0 0
    have wq : (appendAll orc none (mkSlice st.h none 0 0) (List.replicate n (xs.map some))).2.WF
        (appendAll orc none (mkSlice st.h none 0 0) (List.replicate n (xs.map some))).1 :=
      (FW.appendAll orc none _ (FW.ofMk (Shape.refl st.h) none 0 0)).wf
    rw [snapO_newOffsetArray wq, read_appendAll orc none _ _ w0, read_mkSlice_self]
    simp only [Spec.enc, List.replicate_zero, List.nil_append, if_neg (by decide : ¬ Kind.A = Kind.B)]
    congr 2
    induction n with
    | zero => rfl
    | succ m _ => simp [List.replicate_succ]

/-- `//seq.concat([a, b])` on strings -/
theorem sconcat_refines (orc : Oracle) (st : St) (i j : Nat) {si sj : Slice} {xi xj : List V}
    (hi : denseCells st.h (st.vals.getD i .err) = some (.S, si, xi)) (hj : denseCells st.h (st.vals.getD j .err) = some (.S, sj, xj))
    (hni : xi ≠ []) (hnj : xj ≠ []) (hvi : ∀ y, y ∈ xi → validElem .S y = true) (hvj : ∀ y, y ∈ xj → validElem .S y = true) :
    snapO (run1 true orc st (.sconcat i j)) =
      Spec.sconcat (snap st.h (st.vals.getD i .err)) (snap st.h (st.vals.getD j .err)) := by
  have d1 := dense_snap hi hni hvi
  have d2 := dense_snap hj hnj hvj
  simp only [run1, hi, hj, Spec.sconcat, Spec.seq2, d1, d2, ne_eq, not_true_eq_false, if_false, if_true]
  exact snapO_freshSeq _ _ _ _

end Arrai.C03
