/-
  C03 — relations over the heap of backing arrays.

  A `rel.Relation` is `{attrs NamesSlice, p valueProjector, rows *positionalRelation}`: the heading is a Go
  slice of names, and the body a frozen set of rows, each row a `Values` slice (with its own capacity).  Both
  kinds of slice are modelled in the SAME heap as the payloads of strings/bytes/arrays (Heap.lean): a heading cell
  holds a name (an index into `nameTable`), a row cell a value.

  `Impl` transliterates, over that heap, what rel/value_set_rel.go, rel/value_set_relpos.go, rel/value_values.go and
  rel/ops_rel.go do with these slices: `projectedValues.values`, `valueProjector.mapper`, `NamesSlice.minus/intersect`,
  `Joiner` (partition of the names per operator), `Relation.Join` (the heading `append`s), `positionalRelation.Join`
  with its five row algorithms (`JoinKeepEverything`'s `append(left.values(), right…)`, `joinOneSide`, `JoinCommonOnly`,
  `JoinIfCommonExist`), `Relation.With/Without/Where`, `Union` of relations, and — for results that are rebuilt
  tuple by tuple through the set builder (`=>`, `nest`, `unnest`, `rank`) — `relationBuilder`.

  Two switches select code that is NOT the repaired code, for the witness theorems only:
    `headCopy = false`   `attrs := append(leftOutput, rightOutput...)` straight onto the left operand's heading
                         (as found; repaired by "fix: Relation.Join copies the heading");
    `valuesCopy = false` `projectedValues.values()` returns the row slice itself when the projection is the
                         identity ("avoid a copy") — then `JoinKeepEverything` appends IN PLACE into a row that
                         earlier joins left with spare capacity.
  Core-only.
-/
import Arrai.C03.Model

namespace Arrai.C03.Rel

/-! ## names -/

def nameTable : List String := ["a", "b", "c", "d", "e", "f", "g", "k", "n", "r", "z"]
def nameOf (i : Nat) : String := nameTable.getD i "zz"
def nameIdx (s : String) : Option Nat :=
  match nameTable.findIdx? (· = s) with
  | some i => some i
  | none => none
def nameCell (i : Nat) : Cell := some (.num i)
def cellName : Cell → Nat
  | some (.num n) => n.toNat
  | _ => 0

/-! ## values -/

structure RRel where
  attrs : Slice          -- heading: cells are names
  p : List Nat           -- the column of attrs[i] is p[i]   (a valueProjector: only ever read)
  rows : List Slice      -- the frozen set of rows (slice headers)
  deriving Inhabited

inductive RVal
  | rel (r : RRel)
  | other (v : V)        -- {} / {()} / anything that is not a Relation
  | err
  deriving Inhabited

def RVal.slices : RVal → List Slice
  | .rel r => r.attrs :: r.rows
  | _ => []

def namesOf (h : Heap) (r : RRel) : List Nat := (read h r.attrs).map cellName

def rowTuple (names p : List Nat) (cs : List Cell) : V :=
  V.mkTup ((names.zip p).map (fun np => (nameOf np.1, (cs.getD np.2 none).getD (V.num 0))))

/-- what the relation denotes, read through the heap (heading AND rows) -/
def snapR (h : Heap) : RVal → V
  | .rel r => V.mkSet (r.rows.map (fun s => rowTuple (namesOf h r) r.p (read h s)))
  | .other v => v
  | .err => V.none

/-- heading cells followed by the cells of every row (structured; for the witness theorems) -/
def rcells (h : Heap) : RVal → List (List Cell)
  | .rel r => read h r.attrs :: r.rows.map (read h)
  | _ => []

/-! ## tuples and relations on `V` (the specification side) -/

def tattrs : V → List (String × V)
  | .tup as => as
  | _ => []
def tnames (t : V) : List String := (tattrs t).map (·.1)
def tget (t : V) (n : String) : Option V := ((tattrs t).find? (·.1 = n)).map (·.2)
def tproj (t : V) (ns : List String) : V := V.mkTup ((tattrs t).filter (fun p => ns.contains p.1))
def tbut (t : V) (ns : List String) : V := V.mkTup ((tattrs t).filter (fun p => !ns.contains p.1))
def tmerge (a b : V) : V := V.mkTup (tattrs a ++ (tattrs b).filter (fun p => !(tnames a).contains p.1))
def isTuple : V → Bool
  | .tup _ => true
  | _ => false

/-- a non-empty set of tuples over one set of names -/
def relNames (v : V) : Option (List String) :=
  match members v with
  | [] => none
  | t :: r => if isTuple t && r.all (fun u => isTuple u && tnames u = tnames t) then some (tnames t) else none

inductive JoinOp | join | compose | common | exists_ | rmatch | lmatch | rresidue | lresidue
  deriving DecidableEq, Inhabited, Repr

def JoinOp.sym : JoinOp → String
  | .join => "<&>" | .compose => "<->" | .common => "-&-" | .exists_ => "---"
  | .rmatch => "-&>" | .lmatch => "<&-" | .rresidue => "-->" | .lresidue => "<--"

def cmpK (lt : Bool) (k x : Int) : Bool := if lt then decide (x < k) else decide (x = k)

namespace Spec

def combine (o : JoinOp) (common : List String) (a b : V) : V :=
  match o with
  | .join => tmerge a b
  | .compose => tmerge (tbut a common) (tbut b common)
  | .common => tproj a common
  | .exists_ => V.mkTup []
  | .rmatch => b
  | .lmatch => a
  | .rresidue => tbut b common
  | .lresidue => tbut a common

def isSet : V → Bool
  | .set _ => true
  | _ => false

/-- the eight join operators on sets of tuples (`none`: an operand is not a relation) -/
def join (o : JoinOp) (a b : V) : Option V :=
  if !isSet a || !isSet b then none
  else if (members a).isEmpty || (members b).isEmpty then some V.none
  else match relNames a, relNames b with
    | some na, some nb =>
      let common := na.filter (fun n => nb.contains n)
      some (V.mkSet ((members a).flatMap (fun x => (members b).filterMap (fun y =>
        if tproj x common = tproj y common then some (combine o common x y) else none))))
    | _, _ => none

def with_ (v t : V) : Option V := if isSet v then some (V.mkSet (t :: members v)) else none
def without (v t : V) : Option V :=
  if isSet v then some (V.mkSet ((members v).filter (fun m => !decide (m = t)))) else none
def union (a b : V) : Option V := if isSet a && isSet b then some (V.mkSet (members a ++ members b)) else none

/-- `where .n < k` / `where .n = k` on numbers -/
def where_ (n : String) (lt : Bool) (k : Int) (v : V) : Option V :=
  if !isSet v then none
  else if (members v).all (fun t => match tget t n with | some (.num _) => true | _ => false) then
    some (V.mkSet ((members v).filter (fun t =>
      match tget t n with | some (.num x) => cmpK lt k x | _ => false)))
  else none

/-- results rebuilt tuple by tuple -/
inductive Derived
  | nest (attrs : List String) (as_ : String)    -- v nest |attrs|as
  | unnest (attr : String)                        -- v unnest attr
  | rank (as_ by_ : String)                       -- v rank (as: .by)
  | map (keep from_ to_ : String) (k : Int)       -- v => (keep: .keep, to: .from + k)
  deriving Inhabited

def Derived.eval (d : Derived) (v : V) : Option V :=
  match relNames v with
  | none => if isSet v && (members v).isEmpty then some V.none else none
  | some ns =>
    match d with
    | .nest attrs as_ =>
      if attrs.isEmpty || !attrs.all ns.contains || ns.all attrs.contains ||
          (ns.filter (fun n => !attrs.contains n)).contains as_ then none
      else
        some (V.mkSet ((members v).map (fun t =>
          tmerge (tbut t attrs) (V.mkTup [(as_, V.mkSet (((members v).filter (fun u => tbut u attrs = tbut t attrs)).map
            (fun u => tproj u attrs)))]))))
    | .unnest attr =>
      if !ns.contains attr then none
      else if (members v).all (fun t => match tget t attr with
          | some (.set us) => us.all (fun u => isTuple u && (tnames u).all (fun n => n = attr || !ns.contains n))
          | _ => false) then
        some (V.mkSet ((members v).flatMap (fun t =>
          match tget t attr with
          | some (.set us) => us.map (fun u => tmerge (tbut t [attr]) u)
          | _ => [])))
      else none
    | .rank as_ by_ =>
      if !ns.contains by_ || !(members v).all (fun t => match tget t by_ with | some (.num _) => true | _ => false) then none
      else
        some (V.mkSet ((members v).map (fun t =>
          let x := match tget t by_ with | some (.num x) => x | _ => 0
          let r := ((members v).filter (fun u => match tget u by_ with | some (.num y) => decide (y < x) | _ => false)).length
          tmerge (V.mkTup [(as_, .num r)]) (tbut t [as_]))))
    | .map keep from_ to_ k =>
      if !ns.contains keep || !ns.contains from_ || keep = to_ then none
      else if (members v).all (fun t => match tget t from_ with | some (.num _) => true | _ => false) then
        some (V.mkSet ((members v).map (fun t =>
          V.mkTup [(keep, (tget t keep).getD (.num 0)),
                   (to_, match tget t from_ with | some (.num x) => .num (x + k) | _ => .num 0)])))
      else none

end Spec

/-! ## operations of a relational history -/

inductive ROp
  | lit (names : List Nat) (rows : List (List V))      -- {|names| (row), …}
  | join (o : JoinOp) (i j : Nat)                      -- vI o vJ
  | with_ (i : Nat) (t : List (Nat × V))               -- vI with (n: v, …)
  | without (i : Nat) (t : List (Nat × V))
  | where_ (i : Nat) (n : Nat) (lt : Bool) (k : Int)   -- vI where .n < k   /   .n = k
  | union (i j : Nat)                                  -- vI | vJ
  | derived (d : Spec.Derived) (i : Nat)               -- nest / unnest / rank / =>
  deriving Inhabited

def tupleV (t : List (Nat × V)) : V := V.mkTup (t.map (fun p => (nameOf p.1, p.2)))

namespace Spec
def getV (vals : List (Option V)) (i : Nat) : Option V := (vals[i]?).bind id

def step (vals : List (Option V)) : ROp → Option V
  | .lit names rows =>
    some (V.mkSet (rows.map (fun r => V.mkTup ((names.zip r).map (fun p => (nameOf p.1, p.2))))))
  | .join o i j => (getV vals i).bind (fun a => (getV vals j).bind (join o a))
  | .with_ i t => (getV vals i).bind (fun v => with_ v (tupleV t))
  | .without i t => (getV vals i).bind (fun v => without v (tupleV t))
  | .where_ i n lt k => (getV vals i).bind (where_ (nameOf n) lt k)
  | .union i j => (getV vals i).bind (fun a => (getV vals j).bind (union a))
  | .derived d i => (getV vals i).bind d.eval
end Spec

/-! ## Impl -/
namespace Impl

structure Cfg where
  headCopy : Bool      -- Relation.Join builds the heading in a slice of its own (repaired)
  valuesCopy : Bool    -- projectedValues.values() always returns a slice of its own (as it does)
  deriving Inhabited

def repaired : Cfg := ⟨true, true⟩

/-- `append` one element at a time (`names = append(names, name)`, `v = append(v, pv.v[index])`) -/
def appendEach (orc : Oracle) (p : Heap × Slice) (cs : List Cell) : Heap × Slice :=
  cs.foldl (fun q c => append orc none q.1 q.2 [c]) p

/-- `make(NamesSlice, 0, cap)` followed by `append`s of the kept names (`minus`, `intersect`) -/
def allocNames (orc : Oracle) (h : Heap) (cap : Nat) (names : List Nat) : Heap × Slice :=
  appendEach orc (mkSlice h none 0 cap) (names.map nameCell)

def isContiguous : List Nat → Bool
  | a :: b :: r => decide (b = a + 1) && isContiguous (b :: r)
  | _ => true

/-- `projectedValues.values()` -/
def projValues (cfg : Cfg) (orc : Oracle) (h : Heap) (row : Slice) (p : List Nat) : Heap × Slice :=
  if p.isEmpty || row.len = 0 then mkSlice h none 0 0                       -- Values{}
  else if !cfg.valuesCopy && p = List.range row.len then (h, row)           -- NOT in /repo: "avoid a copy"
  else if isContiguous p then
    let a := p.headD 0
    let q := mkSlice h none (p.getLastD 0 - a + 1) 0
    (copy q.1 q.2 (((read h row).drop a).take (p.getLastD 0 - a + 1)), q.2)  -- copy(v, pv.v[a:b])
  else
    appendEach orc (mkSlice h none 0 p.length) (p.map (fun i => (read h row).getD i none))

def keyOf (h : Heap) (row : Slice) (key : List Nat) : List Cell := key.map (fun i => (read h row).getD i none)

/-- `JoinKeepEverything`: `append(leftVal.project(leftOutput).values(), rightVal...)` for every matching pair -/
def keepEverything (cfg : Cfg) (orc : Oracle) (h : Heap) (lrows rrows : List Slice)
    (leftKey rightKey leftOut rightOut : List Nat) : Heap × List Slice :=
  lrows.foldl (fun acc l =>
    rrows.foldl (fun acc r =>
      if keyOf acc.1 l leftKey = keyOf acc.1 r rightKey then
        let rv := projValues cfg orc acc.1 r rightOut
        let lv := projValues cfg orc rv.1 l leftOut
        let nr := append orc none lv.1 lv.2 (read lv.1 rv.2)
        (nr.1, acc.2 ++ [nr.2])
      else acc) acc) (h, [])

/-- `joinOneSide` -/
def oneSide (cfg : Cfg) (orc : Oracle) (h : Heap) (base other : List Slice) (key otherKey output : List Nat) :
    Heap × List Slice :=
  let width := (base.headD default).len
  let hit (hh : Heap) (b : Slice) : Bool := other.any (fun o => keyOf hh o otherKey = keyOf hh b key)
  if output = List.range width then
    (h, base.filter (hit h))                                   -- base.Where(…): the very same row slices
  else
    base.foldl (fun acc b =>
      if hit acc.1 b then
        let v := projValues cfg orc acc.1 b output
        (v.1, acc.2 ++ [v.2])
      else acc) (h, [])

/-- `JoinCommonOnly`: the group keys common to both sides (slices made by `valueProjector.mapper`), re-ordered -/
def commonOnly (h : Heap) (lrows rrows : List Slice) (leftKey rightKey leftOut rightOut : List Nat) : Heap × List Slice :=
  let key := if leftOut.isEmpty then rightKey else leftKey
  let value := if leftOut.isEmpty then rightOut else leftOut
  let keys := (lrows.map (fun l => keyOf h l leftKey)).filter (fun k => rrows.any (fun r => keyOf h r rightKey = k))
  keys.eraseDups.foldl (fun acc k =>
    let cs := value.map (fun idx => k.getD ((key.idxOf idx)) none)
    let q := mkSlice acc.1 none cs.length 0
    (copy q.1 q.2 cs, acc.2 ++ [q.2])) (h, [])

def isSubProjection (p p2 : List Nat) : Bool := p.all p2.contains
def hasCommonIndices (p p2 : List Nat) : Bool := p.any p2.contains

/-- `createMode`: bit 0 = OnlyOnLHS, bit 1 = InBoth, bit 2 = OnlyOnRHS -/
def createMode (leftKey rightKey leftOut rightOut : List Nat) : Nat :=
  (if !isSubProjection leftOut leftKey then 1 else 0) +
  (if hasCommonIndices leftOut leftKey != hasCommonIndices rightOut rightKey then 2 else 0) +
  (if !isSubProjection rightOut rightKey then 4 else 0)

/-- `positionalRelation.Join`; `none` = the rows of `---` (true / false) -/
def rowsJoin (cfg : Cfg) (orc : Oracle) (h : Heap) (lrows rrows : List Slice)
    (leftKey rightKey leftOut rightOut : List Nat) : Heap × Option (List Slice) × Bool :=
  match createMode leftKey rightKey leftOut rightOut with
  | 7 | 5 => let r := keepEverything cfg orc h lrows rrows leftKey rightKey leftOut rightOut; (r.1, some r.2, false)
  | 1 | 3 => let r := oneSide cfg orc h lrows rrows leftKey rightKey leftOut; (r.1, some r.2, false)
  | 4 | 6 => let r := oneSide cfg orc h rrows lrows rightKey leftKey rightOut; (r.1, some r.2, false)
  | 2 => let r := commonOnly h lrows rrows leftKey rightKey leftOut rightOut; (r.1, some r.2, false)
  | _ => (h, none, lrows.any (fun l => rrows.any (fun r => keyOf h l leftKey = keyOf h r rightKey)))

def minusN (a b : List Nat) : List Nat := a.filter (fun n => !b.contains n)
def isSubsetN (a b : List Nat) : Bool := a.all b.contains

/-- a NamesSlice handed around by `Joiner`: either an operand's own heading or a slice made on the way -/
structure NS where
  s : Slice
  names : List Nat

/-- the partition of the names per operator (`Joiner`'s second argument) -/
def partition (o : JoinOp) (orc : Oracle) (h : Heap) (l r : RRel) (ln rn common : List Nat) : Heap × NS × NS :=
  let own (x : RRel) (n : List Nat) : NS := ⟨x.attrs, n⟩
  let empty (hh : Heap) : Heap × NS := let q := mkSlice hh none 0 0; (q.1, ⟨q.2, []⟩)
  let minus (hh : Heap) (a b : List Nat) : Heap × NS :=
    let q := allocNames orc hh a.length (minusN a b); (q.1, ⟨q.2, minusN a b⟩)
  match o with
  | .join =>
    if isSubsetN ln rn then let e := empty h; (e.1, e.2, own r rn)
    else if isSubsetN rn ln then let e := empty h; (e.1, own l ln, e.2)
    else let m := minus h rn ln; (m.1, own l ln, m.2)
  | .compose => let a := minus h ln common; let b := minus a.1 rn common; (b.1, a.2, b.2)
  | .common => let c := allocNames orc h common.length common; let e := empty c.1; (e.1, ⟨c.2, common⟩, e.2)
  | .exists_ => let a := empty h; let b := empty a.1; (b.1, a.2, b.2)
  | .rmatch => let e := empty h; (e.1, e.2, own r rn)
  | .lmatch => let e := empty h; (e.1, own l ln, e.2)
  | .rresidue => let e := empty h; let m := minus e.1 rn common; (m.1, e.2, m.2)
  | .lresidue => let m := minus h ln common; let e := empty m.1; (e.1, m.2, e.2)

/-- `r1.attrs.intersect(r2.attrs)`: iterates the longer list -/
def intersectN (a b : List Nat) : List Nat :=
  if a.length > b.length then a.filter b.contains else b.filter a.contains

def indicesOf (names : List Nat) (sel : List Nat) : List Nat := sel.map (fun n => names.idxOf n)
def compose (p idx : List Nat) : List Nat := idx.map (fun i => p.getD i 0)

/-- `Joiner` for two Relations, then `Relation.Join` -/
def joinRel (cfg : Cfg) (orc : Oracle) (o : JoinOp) (h : Heap) (l r : RRel) : Heap × RVal :=
  let ln := namesOf h l
  let rn := namesOf h r
  let common := intersectN ln rn
  let pt := partition o orc h l r ln rn common
  let leftOut := pt.2.1
  let rightOut := pt.2.2
  let leftKey := compose l.p (indicesOf ln common)
  let rightKey := compose r.p (indicesOf rn common)
  let leftOutP := compose l.p (indicesOf ln leftOut.names)
  let rightOutP := compose r.p (indicesOf rn rightOut.names)
  let count := leftOut.names.length + rightOut.names.length
  let rj := rowsJoin cfg orc pt.1 l.rows r.rows leftKey rightKey leftOutP rightOutP
  match rj.2.1 with
  | none => (rj.1, .other (V.bool rj.2.2))
  | some rows =>
    if rows.isEmpty then (rj.1, .other V.none)
    else if rows.length = 1 ∧ count = 0 then (rj.1, .other V.tt)
    else
      let hd :=
        if cfg.headCopy then
          -- attrs := make(NamesSlice, 0, count); attrs = append(attrs, leftOutput...); attrs = append(attrs, rightOutput...)
          let a0 := mkSlice rj.1 none 0 count
          let a1 := append orc none a0.1 a0.2 (read a0.1 leftOut.s)
          append orc none a1.1 a1.2 (read a1.1 rightOut.s)
        else
          -- attrs := append(leftOutput, rightOutput...)
          append orc none rj.1 leftOut.s (read rj.1 rightOut.s)
      (hd.1, .rel ⟨hd.2, List.range count, rows⟩)

/-- `relationBuilder`: names = `TupleOrderedNames` of the first tuple (built by `append`: spare room by the oracle),
one `make(Values, len(names))` per tuple -/
def relOfV (orc : Oracle) (h : Heap) (v : V) : Heap × RVal :=
  match relNames v with
  | none => (h, .other v)
  | some ns =>
    match ns.mapM nameIdx with
    | none => (h, .other v)
    | some idx =>
      if idx.isEmpty then (h, .other v) else
      let hd := allocWith orc h (idx.map nameCell)
      let rs := (members v).foldl (fun acc t =>
        let q := mkSlice acc.1 none ns.length 0
        (store q.1 q.2 0 (ns.map (fun n => tget t n)), acc.2 ++ [q.2])) (hd.1, ([] : List Slice))
      (rs.1, .rel ⟨hd.2, List.range ns.length, rs.2⟩)

/-- a relation literal `{|names| (row), …}` (names in sorted order): the same builder, without the detour through `V` -/
def litRel (orc : Oracle) (h : Heap) (names : List Nat) (rows : List (List V)) : Heap × RVal :=
  if names.isEmpty || rows.isEmpty then (h, .other (if rows.isEmpty then V.none else V.tt)) else
  let hd := allocWith orc h (names.map nameCell)
  let rs := rows.foldl (fun acc r =>
    let q := mkSlice acc.1 none names.length 0
    (store q.1 q.2 0 (r.map some), acc.2 ++ [q.2])) (hd.1, ([] : List Slice))
  (rs.1, .rel ⟨hd.2, List.range names.length, rs.2⟩)

def viaBuilder (orc : Oracle) (h : Heap) : Option V → Heap × RVal
  | some v => relOfV orc h v
  | none => (h, .err)

/-- `Relation.tupleToValues`: `values := make(Values, len(r.attrs))`, `values[r.p[i]] = t.MustGet(name)` -/
def tupleToValues (h : Heap) (r : RRel) (t : List (Nat × V)) : Heap × Slice :=
  let names := namesOf h r
  let q := mkSlice h none names.length 0
  ((names.zip r.p).foldl (fun hh np => store hh q.2 np.2 [(t.find? (·.1 = np.1)).map (·.2)]) q.1, q.2)

def sameAttrs (names : List Nat) (t : List (Nat × V)) : Bool :=
  names.length = t.length && names.all (fun n => t.any (·.1 = n)) && t.all (fun p => names.contains p.1)

/-- `Relation.With` -/
def withR (h : Heap) (x : RVal) (t : List (Nat × V)) : Heap × RVal :=
  match x with
  | .rel r =>
    if sameAttrs (namesOf h r) t then
      let v := tupleToValues h r t
      if r.rows.any (fun s => read v.1 s = read v.1 v.2) then (v.1, .rel r)
      else (v.1, .rel { r with rows := r.rows ++ [v.2] })
    else (h, .other (V.mkSet (tupleV t :: members (snapR h x))))
  | .other v => if Spec.isSet v then (h, .other (V.mkSet (tupleV t :: members v))) else (h, .err)
  | .err => (h, .err)

/-- `Relation.Without` -/
def withoutR (h : Heap) (x : RVal) (t : List (Nat × V)) : Heap × RVal :=
  match x with
  | .rel r =>
    if sameAttrs (namesOf h r) t then
      let v := tupleToValues h r t
      let rows := r.rows.filter (fun s => read v.1 s != read v.1 v.2)
      if rows.isEmpty then (v.1, .other V.none) else (v.1, .rel { r with rows := rows })
    else (h, x)
  | .other v =>
    if Spec.isSet v then (h, .other (V.mkSet ((members v).filter (fun m => !decide (m = tupleV t))))) else (h, .err)
  | .err => (h, .err)

/-- `Relation.Where`: a sub-set of the same rows under the same heading -/
def whereR (h : Heap) (x : RVal) (n : Nat) (lt : Bool) (k : Int) : RVal :=
  match x with
  | .rel r =>
    let names := namesOf h r
    let col := r.p.getD (names.idxOf n) 0
    if !names.contains n || !r.rows.all (fun s => match (read h s).getD col none with | some (.num _) => true | _ => false)
    then .err
    else
      let rows := r.rows.filter (fun s =>
        match (read h s).getD col none with
        | some (.num x) => cmpK lt k x
        | _ => false)
      if rows.isEmpty then .other V.none else .rel { r with rows := rows }
  | .other v => if Spec.isSet v ∧ (members v).isEmpty then .other V.none else .err
  | .err => .err

/-- `Union` of two relations over the same names: `a = a.With(e)` for every `e` of `b` -/
def unionR (orc : Oracle) (h : Heap) (a b : RVal) : Heap × RVal :=
  match a, b with
  | .err, _ => (h, .err)
  | _, .err => (h, .err)
  | .rel ra, .rel rb =>
    let na := namesOf h ra
    let nb := namesOf h rb
    if isSubsetN na nb && isSubsetN nb na then
      rb.rows.foldl (fun acc s =>
        withR acc.1 acc.2 ((nb.zip rb.p).map (fun np => (np.1, ((read acc.1 s).getD np.2 none).getD (V.num 0)))))
        (h, .rel ra)
    else viaBuilder orc h (Spec.union (snapR h a) (snapR h b))
  | _, _ =>
    if Spec.isSet (snapR h a) ∧ (members (snapR h a)).isEmpty then (h, b)
    else if Spec.isSet (snapR h b) ∧ (members (snapR h b)).isEmpty then (h, a)
    else viaBuilder orc h (Spec.union (snapR h a) (snapR h b))

structure St where
  h : Heap
  vals : List RVal
  deriving Inhabited

def init : St := ⟨[], []⟩

def run1 (cfg : Cfg) (orc : Oracle) (st : St) : ROp → Heap × RVal
  | .lit names rows => litRel orc st.h names rows
  | .join o i j =>
    (match st.vals.getD i .err, st.vals.getD j .err with
     | .err, _ => (st.h, .err)
     | _, .err => (st.h, .err)
     | .rel l, .rel r => joinRel cfg orc o st.h l r
     | a, b =>
       -- an empty operand gives {}; anything else goes through GenericJoin and the set builder
       viaBuilder orc st.h (Spec.join o (snapR st.h a) (snapR st.h b)))
  | .with_ i t => withR st.h (st.vals.getD i .err) t
  | .without i t => withoutR st.h (st.vals.getD i .err) t
  | .where_ i n lt k => (st.h, whereR st.h (st.vals.getD i .err) n lt k)
  | .union i j => unionR orc st.h (st.vals.getD i .err) (st.vals.getD j .err)
  | .derived d i =>
    (match st.vals.getD i .err with
     | .err => (st.h, .err)
     | x => viaBuilder orc st.h (d.eval (snapR st.h x)))

def step (cfg : Cfg) (orc : Oracle) (st : St) (op : ROp) : St :=
  let r := run1 cfg orc st op
  { h := r.1, vals := st.vals ++ [r.2] }

def runAll (cfg : Cfg) (orc : Oracle) (ops : List ROp) (st : St) : St := ops.foldl (step cfg orc) st

end Impl
end Arrai.C03.Rel
