/-
  C03 — values are immutable.

  `Impl`: strings, byte arrays and arrays as Go represents them — a slice header into a shared
  heap of backing arrays (Heap.lean) — and the operations of rel/value_set_{str,bytes,array}.go,
  rel/expr_offset.go, rel/expr_seqmap.go, rel/ops_rel.go, rel/pattern_array.go and
  syntax/std_seq*.go that re-slice, copy, store or append, transliterated over that heap.
  `rep = true` is the repaired `String.with`/`Bytes.with` (copy, then append); `rep = false` is the
  code as found (`append(s.s, c)` straight onto the receiver's slice).

  `Spec`: what each operation means on `V` (finite sets of tuples) — no heap, so immutable by
  construction.  Core-only.
-/
import Arrai.C03.Heap

namespace Arrai.C03

inductive Kind | S | B | A
  deriving DecidableEq, Inhabited, Repr

def Kind.attr : Kind → String
  | .S => "@char" | .B => "@byte" | .A => "@item"

/-- what `make` fills a new array with (rune 0, byte 0, nil) -/
def Kind.zero : Kind → Cell
  | .S => some (.num 0) | .B => some (.num 0) | .A => none

/-- what `asString` / `asBytes` / `asArray` leave in a cell no tuple was given for (rune -1, byte 0, nil) -/
def Kind.fill : Kind → Cell
  | .B => some (.num 0)
  | _ => none

/-- a value as the Go code holds it -/
inductive HVal
  | seq (k : Kind) (s : Slice) (off : Int) (aux : Nat)  -- String{s,offset,holes} / Bytes{b,offset} / Array{values,offset,count}
  | other (v : V)                                        -- anything whose payload is not a slice (frozen's structures)
  | err
  deriving Inhabited

def HVal.slice? : HVal → Option Slice
  | .seq _ s _ _ => some s
  | _ => none

/-- the denotation of a value, read through the heap -/
def snap (h : Heap) : HVal → V
  | .seq k s off _ => V.mkSeq k.attr off (read h s)
  | .other v => v
  | .err => V.none

/-- the payload cells of a value, read through the heap (structured; used by the witness theorems) -/
def cells (h : Heap) : HVal → List Cell
  | .seq _ s _ _ => read h s
  | _ => []

def hnone : HVal := .other V.none

/-! ## small helpers on `V` -/

def members : V → List V
  | .set xs => xs
  | _ => []

def tupleOf (k : Kind) (at_ : Int) (x : V) : V := V.mkTup [("@", .num at_), (k.attr, x)]

def kindOfAttr (n : String) : Option Kind :=
  if n = "@char" then some .S else if n = "@byte" then some .B else if n = "@item" then some .A else none

/-- `(@: i, @char|@byte|@item: x)` -/
def decodeTuple : V → Option (Kind × Int × V)
  | .tup [("@", .num i), (n, x)] => (kindOfAttr n).map (fun k => (k, i, x))
  | _ => none

def validElem (k : Kind) (x : V) : Bool :=
  match k, x with
  | .S, .num n => decide (0 ≤ n)
  | .B, .num n => decide (0 ≤ n ∧ n < 256)
  | .A, _ => true
  | _, _ => false

def decodeAll (k : Kind) : List V → Option (List (Int × V))
  | [] => some []
  | t :: r =>
    match decodeTuple t, decodeAll k r with
    | some (k', i, x), some ps => if k' = k ∧ validElem k x then some ((i, x) :: ps) else none
    | _, _ => none

/-- a non-empty set all of whose members are tuples of one sequence kind -/
def decodeSeq (v : V) : Option (Kind × List (Int × V)) :=
  match members v with
  | [] => none
  | t :: r =>
    match decodeTuple t with
    | some (k, _, _) => (decodeAll k (t :: r)).map (fun ps => (k, ps))
    | none => none

def minIdx : List (Int × V) → Int
  | [] => 0
  | [(i, _)] => i
  | (i, _) :: r => min i (minIdx r)
def maxIdx : List (Int × V) → Int
  | [] => 0
  | [(i, _)] => i
  | (i, _) :: r => max i (maxIdx r)

/-- index/value pairs of the non-hole cells -/
def pairsOf (off : Int) : List Cell → List (Int × V)
  | [] => []
  | some x :: r => (off, x) :: pairsOf (off + 1) r
  | none :: r => pairsOf (off + 1) r

def countSome (cs : List Cell) : Nat := (cs.filter Option.isSome).length
def countNone (cs : List Cell) : Nat := (cs.filter Option.isNone).length

def leadingNone : List Cell → Nat
  | none :: r => leadingNone r + 1
  | _ => 0

/-! ## Impl: the constructors -/
namespace Impl

/-- `NewOffsetString(s, offset)` -/
def newOffsetString (h : Heap) (s : Slice) (off : Int) : HVal :=
  if s.len = 0 then hnone else .seq .S s off (countNone (read h s))

/-- `NewOffsetBytes(b, offset)` -/
def newOffsetBytes (s : Slice) (off : Int) : HVal :=
  if s.len = 0 then hnone else .seq .B s off 0

/-- first loop of `NewOffsetArray`: `values = values[i:]`, `offset += i` at the first non-nil (if any, and if `i > 0`) -/
def trimFront (h : Heap) (s : Slice) (off : Int) : Slice × Int :=
  let i := leadingNone (read h s)
  if 0 < i ∧ i < (read h s).length then (reslice s i s.len, off + i) else (s, off)

/-- second loop: `values = values[:i+1]` at the last non-nil -/
def trimBack (h : Heap) (s : Slice) : Slice :=
  let t := leadingNone (read h s).reverse
  if 0 < t ∧ t < (read h s).length then reslice s 0 (s.len - t) else s

/-- `NewOffsetArray(offset, values...)`: trims holes from both ends BY RE-SLICING, counts the rest -/
def newOffsetArray (h : Heap) (off : Int) (s : Slice) : HVal :=
  let a := trimFront h s off
  let s2 := trimBack h a.1
  if s2.len = 0 then hnone
  else if countSome (read h s2) = 0 then hnone      -- nothing but holes: the trimming only stops at a non-hole
  else .seq .A s2 a.2 (countSome (read h s2))

/-- `asString` / `asBytes` / `asArray` (the set builder's `Finish` for one bucket): a fresh array
spanning the smallest to the largest index -/
def asSeq (k : Kind) (h : Heap) (ps : List (Int × V)) : Heap × HVal :=
  match ps with
  | [] => (h, hnone)
  | _ :: _ =>
    let lo := minIdx ps
    let n := (maxIdx ps - lo + 1).toNat
    let p := mkSlice h k.fill n 0
    let h2 := ps.foldl (fun hh iv => store hh p.2 (iv.1 - lo).toNat [some iv.2]) p.1
    (h2, .seq k p.2 lo (match k with | .S => n - ps.length | .B => 0 | .A => countSome (read h2 p.2)))

/-- `SetBuilder.Finish` on the members of `v`: one bucket of char/byte/item tuples is rebuilt as a
String/Bytes/Array in a fresh array; anything else lives in frozen's structures -/
def finishV (h : Heap) (v : V) : Heap × HVal :=
  match decodeSeq v with
  | some (k, ps) => asSeq k h ps
  | none => (h, .other v)

/-- `s.index(pos)` -/
def index (off : Int) (len : Nat) (pos : Int) : Int :=
  if 0 ≤ pos - off ∧ pos - off ≤ len then pos - off else -1

/-! ### String / Bytes -/

/-- `String.with` / `Bytes.with` -/
def seqWith (rep : Bool) (orc : Oracle) (k : Kind) (h : Heap) (s : Slice) (off : Int) (aux : Nat)
    (at_ : Int) (c : V) : Heap × HVal :=
  let cs := read h s
  let i := index off s.len at_
  if 0 ≤ i ∧ i < s.len ∧ cs[i.toNat]? = some (some c) then
    (h, .seq k s off aux)
  else if i = s.len then
    if rep then
      -- append(append(make([]T, 0, 1+len(s.s)), s.s...), c)
      let p1 := mkSlice h k.zero 0 (1 + s.len)
      let p2 := append orc k.zero p1.1 p1.2 cs
      let p3 := append orc k.zero p2.1 p2.2 [some c]
      (p3.1, .seq k p3.2 off aux)
    else
      -- append(s.s, c)
      let p := append orc k.zero h s [some c]
      (p.1, .seq k p.2 off aux)
  else if at_ = off - 1 then
    -- append(append(make([]T, 0, 1+len(s.s)), c), s.s...)
    let p1 := mkSlice h k.zero 0 (1 + s.len)
    let p2 := append orc k.zero p1.1 p1.2 [some c]
    let p3 := append orc k.zero p2.1 p2.2 cs
    (p3.1, .seq k p3.2 (off - 1) aux)
  else if k = .S ∧ ¬ (0 ≤ i ∧ i < s.len ∧ (cs[i.toNat]?).bind id ≠ none) then
    -- String.with filling a hole or adding beyond either end: rebuilt as a sparse String through the set builder
    finishV h (V.mkSet (tupleOf k at_ c :: members (V.mkSeq k.attr off cs)))
  else
    -- newGenericSetFromSet(s).With(tuple) (a second char / byte at an occupied index; Bytes.with away from the ends):
    -- leaves the slice world
    (h, .other (V.mkSet (tupleOf k at_ c :: members (V.mkSeq k.attr off cs))))

/-- `String.trimHoles`: `s.s[1:]` while the first rune is a hole, then `s.s[:len-1]` while the last one is -/
def trimHoles (h : Heap) (s : Slice) (off : Int) (holes : Nat) : Slice × Int × Nat :=
  let i := leadingNone (read h s)
  let s1 := reslice s i s.len
  let t := leadingNone (read h s1).reverse
  (reslice s1 0 (s1.len - t), off + i, holes - i - t)

/-- `String.Without` -/
def strWithout (h : Heap) (s : Slice) (off : Int) (holes : Nat) (at_ : Int) (c : V) : Heap × HVal :=
  let cs := read h s
  let i := index off s.len at_
  let r : Heap × Slice × Int × Nat :=
    if i = 0 ∧ cs[0]? = some (some c) then
      (h, reslice s 1 s.len, off + 1, holes)
    else if i = (s.len : Int) - 1 ∧ cs[s.len - 1]? = some (some c) then
      (h, reslice s 0 (s.len - 1), off, holes)
    else if 0 < i ∧ i < (s.len : Int) - 1 ∧ cs[i.toNat]? = some (some c) then
      let p := mkSlice h (Kind.zero .S) s.len 0
      let h2 := copy p.1 p.2 cs
      let h3 := store h2 p.2 i.toNat [none]
      (h3, p.2, off, holes + 1)
    else (h, s, off, holes)
  let t := trimHoles r.1 r.2.1 r.2.2.1 r.2.2.2
  if t.1.len - t.2.2 = 0 then (r.1, hnone) else (r.1, .seq .S t.1 t.2.1 t.2.2)

/-- `Bytes.Without`: at an end a re-slice, in the middle a generic set -/
def bytesWithout (h : Heap) (s : Slice) (off : Int) (at_ : Int) (c : V) : Heap × HVal :=
  let cs := read h s
  let i := index off s.len at_
  if 0 ≤ i ∧ i < s.len ∧ cs[i.toNat]? = some (some c) then
    if s.len = 1 then (h, hnone)
    else if i = 0 then (h, .seq .B (reslice s 1 s.len) (off + 1) 0)
    else if i = (s.len : Int) - 1 then (h, .seq .B (reslice s 0 i.toNat) off 0)
    else (h, .other (V.mkSet ((members (V.mkSeq (Kind.attr .B) off cs)).filter (fun m => !decide (m = tupleOf .B at_ c)))))
  else (h, .seq .B s off 0)

/-! ### Array -/

/-- `Array.clone` -/
def clone (h : Heap) (s : Slice) : Heap × Slice :=
  let p := mkSlice h none s.len 0
  (copy p.1 p.2 (read h s), p.2)

/-- `Array.withItem` -/
def withItem (h : Heap) (s : Slice) (off : Int) (count : Nat) (at_ : Int) (item : V) : Heap × HVal :=
  let cs := read h s
  let idx := at_ - off
  if idx < 0 then
    let p := mkSlice h none (s.len + (-idx).toNat) 0
    let h2 := copy p.1 (reslice p.2 (-idx).toNat p.2.len) cs
    -- b.values[0] is nil here
    (store h2 p.2 0 [some item], .seq .A p.2 (off + idx) (count + 1))
  else if (s.len : Int) ≤ idx then
    let p := mkSlice h none (idx.toNat + 1) 0
    let h2 := copy p.1 p.2 cs
    (store h2 p.2 idx.toNat [some item], .seq .A p.2 off (count + 1))
  else if cs[idx.toNat]? = some (some item) then
    (h, .seq .A s off count)
  else
    let p := mkSlice h none s.len 0
    let h2 := copy p.1 p.2 cs
    if cs[idx.toNat]? = some none then
      (store h2 p.2 idx.toNat [some item], .seq .A p.2 off (count + 1))
    else   -- a second item at an occupied index: newGenericSetFromSet(a).With(tuple)
      (h2, .other (V.mkSet (tupleOf .A at_ item :: members (V.mkSeq (Kind.attr .A) off cs))))

/-- `Array.Without` -/
def arrWithout (h : Heap) (s : Slice) (off : Int) (count : Nat) (at_ : Int) (item : V) : Heap × HVal :=
  let cs := read h s
  let i := at_ - off
  if 0 ≤ i ∧ i < s.len ∧ cs[i.toNat]? = some (some item) then
    -- removing an end may expose holes: NewOffsetArray trims them
    if at_ = off then (h, newOffsetArray h (off + 1) (reslice s 1 s.len))
    else if at_ = off + s.len - 1 then (h, newOffsetArray h off (reslice s 0 (s.len - 1)))
    else
      let p := clone h s
      let h2 := store p.1 p.2 i.toNat [none]
      if count - 1 = 0 then (h2, hnone) else (h2, .seq .A p.2 off (count - 1))
  else (h, .seq .A s off count)

/-- the cells of `Array.Where`'s clone after the loop: non-matching items become nil -/
def whereCells (p : Int → V → Bool) (off : Int) : List Cell → List Cell
  | [] => []
  | some x :: r => (if p off x then some x else none) :: whereCells p (off + 1) r
  | none :: r => none :: whereCells p (off + 1) r

/-- `Array.Where` -/
def arrWhere (h : Heap) (s : Slice) (off : Int) (p : Int → V → Bool) : Heap × HVal :=
  let c := clone h s
  let cs' := whereCells p off (read h s)
  let h2 := store c.1 c.2 0 cs'       -- result.values[i] = nil, one store per non-match
  if countSome cs' = 0 then (h2, hnone)
  else
    let i := leadingNone cs'
    let s1 := if 0 < i then reslice c.2 i c.2.len else c.2
    let t := leadingNone (read h2 s1).reverse
    let s2 := if 0 < t then reslice s1 0 (s1.len - t) else s1
    (h2, .seq .A s2 (off + i) (countSome cs'))

end Impl

/-! ## predicates and functions the generated programs use -/

inductive Pred
  | atLt (n : Int) | atGe (n : Int) | atEven | atOdd | valLt (n : Int) | valGe (n : Int)
  deriving Inhabited, Repr

def Pred.eval : Pred → Int → V → Bool
  | .atLt n, i, _ => decide (i < n)
  | .atGe n, i, _ => decide (n ≤ i)
  | .atEven, i, _ => decide (i % 2 = 0)
  | .atOdd, i, _ => decide (i % 2 ≠ 0)
  | .valLt n, _, .num x => decide (x < n)
  | .valGe n, _, .num x => decide (n ≤ x)
  | _, _, _ => false

/-- does the predicate evaluate without error on this element?  (`<` on a non-number is an error) -/
def Pred.defined : Pred → V → Bool
  | .valLt _, .num _ => true
  | .valGe _, .num _ => true
  | .valLt _, _ => false
  | .valGe _, _ => false
  | _, _ => true

inductive Fn
  | add (k : Int) | const (k : Int)
  deriving Inhabited, Repr

def Fn.eval : Fn → V → Option V
  | .add k, .num n => some (.num (n + k))
  | .add _, _ => none
  | .const k, _ => some (.num k)

/-! ## list functions of //seq (dense sequences) -/

def hasPrefix : List V → List V → Bool
  | [], _ => true
  | _ :: _, [] => false
  | p :: ps, x :: xs => decide (p = x) && hasPrefix ps xs

def hasSuffix (p s : List V) : Bool := hasPrefix p.reverse s.reverse

/-- `search(subject, sub)`: first index of a window equal to `sub` -/
def searchFrom (sub : List V) : Nat → List V → Option Nat
  | start, [] => if sub.isEmpty then some start else none
  | start, x :: xs => if hasPrefix sub (x :: xs) then some start else searchFrom sub (start + 1) xs

def search (subject sub : List V) : Option Nat := searchFrom sub 0 subject

/-- the `[start, end)` windows of the pieces `arraySplit` cuts (non-empty delimiter) -/
def pieceBounds (d : List V) : Nat → Nat → List V → List (Nat × Nat)
  | 0, start, s => [(start, start + s.length)]
  | fuel + 1, start, s =>
    match search s d with
    | some i => (start, start + i) :: pieceBounds d fuel (start + i + d.length) (s.drop (i + d.length))
    | none => [(start, start + s.length)]

/-- textbook split by a non-empty delimiter -/
def splitGo (d : List V) : Nat → List V → List V → List (List V)
  | _, acc, [] => [acc.reverse]
  | skip + 1, acc, _ :: xs => splitGo d skip acc xs
  | 0, acc, x :: xs =>
    if hasPrefix d (x :: xs) then acc.reverse :: splitGo d (d.length - 1) [] xs
    else splitGo d 0 (x :: acc) xs

def joinL (d : List V) : List (List V) → List V
  | [] => []
  | [x] => x
  | x :: y :: r => x ++ d ++ joinL d (y :: r)

/-! ## operations of a history -/

inductive Op
  | root (k : Kind) (off : Int) (cs : List Cell)      -- a literal string / byte array / array
  | const (v : V)                                      -- any other literal
  | with_ (i : Nat) (k : Kind) (at_ : Int) (x : V)     -- vI with (@: at, @k: x)
  | without (i : Nat) (k : Kind) (at_ : Int) (x : V)   -- vI without (@: at, @k: x)
  | offset (i : Nat) (n : Int)                         -- n\vI
  | where_ (i : Nat) (p : Pred)                        -- vI where p
  | smap (i : Nat) (f : Fn)                            -- vI >> f
  | concat (i j : Nat)                                 -- vI ++ vJ
  | union (i j : Nat)                                  -- vI | vJ
  | join (i j : Nat)                                   -- vI <&> vJ
  | rest (i k : Nat)                                   -- let [_, …k…, ...r] = vI; r
  | front (i k : Nat)                                  -- let [...r, _, …k…] = vI; r
  | trimPrefix (p s : Nat)                             -- //seq.trim_prefix(vP, vS)
  | trimSuffix (p s : Nat)
  | sub (o n s : Nat)                                  -- //seq.sub(vO, vN, vS)
  | split (d s : Nat)                                  -- //seq.split(vD, vS)
  | piece (d s k : Nat)                                -- //seq.split(vD, vS)(k)
  | sjoin (d s : Nat)                                  -- //seq.join(vD, vS)
  | repeat_ (n i : Nat)                                -- //seq.repeat(n, vI)
  | sconcat (i j : Nat)                                -- //seq.concat([vI, vJ])
  deriving Inhabited

/-! ## Spec: the meaning of the operations on `V` (`none` = the evaluation fails) -/
namespace Spec

def isSeqOrEmpty (v : V) : Bool := (members v).isEmpty && (match v with | .set _ => true | _ => false) || (decodeSeq v).isSome

def shiftAt (n : Int) (t : V) : V :=
  match decodeTuple t with
  | some (k, i, x) => tupleOf k (i + n) x
  | none => t

def isSet : V → Bool
  | .set _ => true
  | _ => false

def with_ (v t : V) : Option V := if isSet v then some (V.mkSet (t :: members v)) else none
def without (v t : V) : Option V :=
  if isSet v then some (V.mkSet ((members v).filter (fun m => !decide (m = t)))) else none

def offset (n : Int) (v : V) : Option V :=
  if isSeqOrEmpty v then some (V.mkSet ((members v).map (shiftAt n))) else none

def where_ (p : Pred) (v : V) : Option V :=
  if !isSet v then none
  else if (members v).all (fun t => match decodeTuple t with | some (_, _, x) => p.defined x | none => false) then
    some (V.mkSet ((members v).filter (fun t =>
      match decodeTuple t with | some (_, i, x) => p.eval i x | none => false)))
  else none

def mapTuples (f : Fn) : List V → Option (List V)
  | [] => some []
  | t :: r =>
    match decodeTuple t, mapTuples f r with
    | some (k, i, x), some r' =>
      match f.eval x with
      | some y => if validElem k y then some (tupleOf k i y :: r') else none
      | none => none
    | _, _ => none

def smap (f : Fn) (v : V) : Option V :=
  if isSeqOrEmpty v then (mapTuples f (members v)).map V.mkSet else none

def hasAt : V → Bool
  | .tup as => as.any (fun p => p.1 = "@" && (match p.2 with | .num _ => true | _ => false))
  | _ => false

def shiftAny (n : Int) : V → V
  | .tup as => V.mkTup (as.map (fun p => if p.1 = "@" then (p.1, match p.2 with | .num i => .num (i + n) | w => w) else p))
  | w => w

/-- `a ++ b`: every member of `b` moves up by the number of members of `a` -/
def concat (a b : V) : Option V :=
  if isSet a && isSet b && (members b).all hasAt then
    some (V.mkSet (members a ++ (members b).map (shiftAny (members a).length)))
  else none

def union (a b : V) : Option V :=
  if isSet a && isSet b then some (V.mkSet (members a ++ members b)) else none

def attrsOf : V → Option (List (String × V))
  | .tup as => some as
  | _ => none

def joinTuples (x y : List (String × V)) : Option V :=
  if x.all (fun p => y.all (fun q => p.1 ≠ q.1 || decide (p.2 = q.2))) then
    some (V.mkTup (x ++ y.filter (fun q => x.all (fun p => p.1 ≠ q.1))))
  else none

def allTuples (v : V) : Bool := (members v).all (fun t => (attrsOf t).isSome)

/-- natural join `a <&> b` of two sets of tuples -/
def join (a b : V) : Option V :=
  if isSet a && isSet b && allTuples a && allTuples b then
    some (V.mkSet ((members a).flatMap (fun x => (members b).filterMap (fun y =>
      match attrsOf x, attrsOf y with
      | some ax, some ay => joinTuples ax ay
      | _, _ => none))))
  else none

/-- a dense sequence starting at index 0 -/
def dense (v : V) : Option (Kind × List V) :=
  match decodeSeq v with
  | some (k, ps) =>
    if (ps.map (·.1)) = (List.range ps.length).map Int.ofNat then some (k, ps.map (·.2)) else none
  | none => none

def enc (k : Kind) (xs : List V) : V := V.mkSeq k.attr 0 (xs.map some)

def rest (k : Nat) (v : V) : Option V :=
  match dense v with
  | some (.A, xs) => if k ≤ xs.length then some (enc .A (xs.drop k)) else none
  | _ => none

def front (k : Nat) (v : V) : Option V :=
  match dense v with
  | some (.A, xs) => if k ≤ xs.length then some (enc .A (xs.take (xs.length - k))) else none
  | _ => none

/-- //seq functions on two/three dense non-empty sequences of one kind -/
def seq2 (f : Kind → List V → List V → Option V) (a b : V) : Option V :=
  match dense a, dense b with
  | some (ka, xa), some (kb, xb) => if ka = kb then f ka xa xb else none
  | _, _ => none

def trimPrefix : V → V → Option V :=
  seq2 (fun k p s => some (enc k (if hasPrefix p s then s.drop p.length else s)))
def trimSuffix : V → V → Option V :=
  seq2 (fun k p s => some (enc k (if hasSuffix p s then s.take (s.length - p.length) else s)))
def splitL (d s : List V) : List (List V) := splitGo d 0 [] s
def split : V → V → Option V :=
  seq2 (fun k d s => some (V.mkArr ((splitL d s).map (enc k))))
def piece (n : Nat) : V → V → Option V :=
  seq2 (fun k d s => ((splitL d s)[n]?).map (enc k))
def sub (o n s : V) : Option V :=
  match dense o, dense n, dense s with
  | some (ko, xo), some (kn, xn), some (ks, xs) =>
    if ko = ks ∧ kn = ks then some (enc ks (joinL xn (splitL xo xs))) else none
  | _, _, _ => none

def denseItems (k : Kind) : List V → Option (List (List V))
  | [] => some []
  | x :: r =>
    match (if (members x).isEmpty then some (k, []) else dense x), denseItems k r with
    | some (k', xs), some r' => if k' = k then some (xs :: r') else none
    | _, _ => none

/-- `//seq.join(d, [s₁, …])` for strings and arrays -/
def sjoin (d s : V) : Option V :=
  match dense d, dense s with
  | some (kd, xd), some (.A, items) =>
    match denseItems kd items with
    | some xss => if kd = .B then none else some (enc kd (joinL xd xss))
    | none => none
  | _, _ => none

def repeat_ (n : Nat) (v : V) : Option V :=
  match dense v with
  | some (k, xs) => if k = .B then none else some (enc k ((List.replicate n xs).flatten))
  | none => none

def sconcat (a b : V) : Option V :=
  seq2 (fun k x y => some (enc k (x ++ y))) a b

def getV (vals : List (Option V)) (i : Nat) : Option V := (vals[i]?).bind id

/-- the value an operation denotes, given the values denoted so far -/
def step (vals : List (Option V)) : Op → Option V
  | .root k off cs => some (V.mkSeq k.attr off cs)
  | .const v => some v
  | .with_ i k at_ x => (getV vals i).bind (fun v => with_ v (tupleOf k at_ x))
  | .without i k at_ x => (getV vals i).bind (fun v => without v (tupleOf k at_ x))
  | .offset i n => (getV vals i).bind (offset n)
  | .where_ i p => (getV vals i).bind (where_ p)
  | .smap i f => (getV vals i).bind (smap f)
  | .concat i j => (getV vals i).bind (fun a => (getV vals j).bind (concat a))
  | .union i j => (getV vals i).bind (fun a => (getV vals j).bind (union a))
  | .join i j => (getV vals i).bind (fun a => (getV vals j).bind (join a))
  | .rest i k => (getV vals i).bind (rest k)
  | .front i k => (getV vals i).bind (front k)
  | .trimPrefix p s => (getV vals p).bind (fun a => (getV vals s).bind (trimPrefix a))
  | .trimSuffix p s => (getV vals p).bind (fun a => (getV vals s).bind (trimSuffix a))
  | .sub o n s => (getV vals o).bind (fun a => (getV vals n).bind (fun b => (getV vals s).bind (sub a b)))
  | .split d s => (getV vals d).bind (fun a => (getV vals s).bind (split a))
  | .piece d s k => (getV vals d).bind (fun a => (getV vals s).bind (piece k a))
  | .sjoin d s => (getV vals d).bind (fun a => (getV vals s).bind (sjoin a))
  | .repeat_ n i => (getV vals i).bind (repeat_ n)
  | .sconcat i j => (getV vals i).bind (fun a => (getV vals j).bind (sconcat a))

def run (ops : List Op) : List (Option V) :=
  ops.foldl (fun vals op => vals ++ [step vals op]) []

end Spec

/-! ## Impl: one step of a history over the heap -/
namespace Impl

structure St where
  h : Heap
  vals : List HVal
  deriving Inhabited

/-- `pure` results: computed by enumerating operands (reads only) and rebuilt by the set builder -/
def viaBuilder (h : Heap) : Option V → Heap × HVal
  | some v => finishV h v
  | none => (h, .err)

/-- `a <&> b` on sequences (`GenericJoin`): per-key results are united with `Union`, i.e. element by element with `With`,
in frozen's iteration order.  For arrays that ends as an Array in arrays allocated on the way (`withItem` always copies);
for strings / byte arrays the order decides between a String and a generic set: modelled as "not slice-backed". -/
def joinResult (h : Heap) : Option V → Heap × HVal
  | some v =>
    (match decodeSeq v with
     | some (.A, ps) => asSeq .A h ps
     | _ => (h, .other v))
  | none => (h, .err)

/-- a Go string/[]byte conversion of a computed result (`rel.NewString([]rune(…))`): fresh array, oracle's spare room -/
def freshSeq (orc : Oracle) (k : Kind) (h : Heap) (xs : List V) : Heap × HVal :=
  if xs.isEmpty then (h, hnone)
  else
    let p := allocWith orc h (xs.map some)
    (p.1, .seq k p.2 0 (match k with | .A => xs.length | _ => 0))

def freshOpt (orc : Oracle) (k : Kind) (h : Heap) : Option (List V) → Heap × HVal
  | some xs => freshSeq orc k h xs
  | none => (h, .err)

/-- `x.With(t)` for any `x` -/
def withV (rep : Bool) (orc : Oracle) (h : Heap) (x : HVal) (k : Kind) (at_ : Int) (c : V) : Heap × HVal :=
  match x with
  | .seq k' s off aux =>
    if k' = k ∧ validElem k c then
      (match k with
       | .A => withItem h s off aux at_ c
       | _ => seqWith rep orc k h s off aux at_ c)
    else (h, .other (V.mkSet (tupleOf k at_ c :: members (snap h x))))   -- toUnionSetWithItem
  | .other v =>
    if Spec.isSet v then
      (if (members v).isEmpty then finishV h (V.mkSet [tupleOf k at_ c])   -- EmptySet.With → NewSet(v)
       else (h, .other (V.mkSet (tupleOf k at_ c :: members v))))
    else (h, .err)
  | .err => (h, .err)

def withoutV (h : Heap) (x : HVal) (k : Kind) (at_ : Int) (c : V) : Heap × HVal :=
  match x with
  | .seq k' s off aux =>
    if k' = k then
      (match k with
       | .S => strWithout h s off aux at_ c
       | .B => bytesWithout h s off at_ c
       | .A => arrWithout h s off aux at_ c)
    else (h, x)
  | .other v =>
    if Spec.isSet v then (h, .other (V.mkSet ((members v).filter (fun m => !decide (m = tupleOf k at_ c)))))
    else (h, .err)
  | .err => (h, .err)

/-- `OffsetExpr.Eval` -/
def offsetV (h : Heap) (x : HVal) (n : Int) : HVal :=
  match x with
  | .seq .A s off _ => newOffsetArray h (off + n) s
  | .seq .B s off _ => newOffsetBytes s (off + n)
  | .seq .S s off _ => newOffsetString h s (off + n)
  | .other v => if Spec.isSet v ∧ (members v).isEmpty then hnone else .err
  | .err => .err

/-- `Set.Where` -/
def whereV (h : Heap) (x : HVal) (p : Pred) : Heap × HVal :=
  match x with
  | .seq .A s off _ =>
    if (read h s).all (fun c => match c with | some v => p.defined v | none => true) then arrWhere h s off p.eval
    else (h, .err)
  | _ => viaBuilder h (Spec.where_ p (snap h x))     -- String.Where / Bytes.Where: enumerate, builder, Finish

def mapCells (f : Fn) (k : Kind) : List Cell → Option (List Cell)
  | [] => some []
  | c :: r =>
    match mapCells f k r with
    | none => none
    | some r' =>
      match c with
      | none => some (none :: r')     -- a hole (nil item, negative rune) is kept: there is no value to transform
      | some v =>
        match f.eval v with
        | some y => if validElem k y then some (some y :: r') else none
        | none => none

/-- `SeqArrowExpr.Eval` (`>>`): `make` a slice of the same length, fill it, re-wrap with the same offset -/
def smapV (h : Heap) (x : HVal) (f : Fn) : Heap × HVal :=
  match x with
  | .seq k s off _ =>
    (match mapCells f k (read h s) with
     | some cs' =>
       let p := mkSlice h k.zero s.len 0
       let h2 := store p.1 p.2 0 cs'
       (h2, match k with
            | .S => newOffsetString h2 p.2 off
            | .B => newOffsetBytes p.2 off
            | .A => newOffsetArray h2 off p.2)
     | none => (h, .err))
  | .other v => if Spec.isSet v ∧ (members v).isEmpty then (h, hnone) else (h, .err)
  | .err => (h, .err)

/-- `Union(a, b)`: same-bucket operands are united by `a = a.With(e)` for every `e` of `b` -/
def unionV (rep : Bool) (orc : Oracle) (h : Heap) (a b : HVal) : Heap × HVal :=
  match a, b with
  | .err, _ => (h, .err)
  | _, .err => (h, .err)
  | .seq ka sa offa auxa, .seq kb sb offb _ =>
    if ka = kb then
      (pairsOf offb (read h sb)).foldl (fun p iv => withV rep orc p.1 p.2 kb iv.1 iv.2) (h, .seq ka sa offa auxa)
    else viaBuilder h (Spec.union (snap h a) (snap h b))
  | _, _ =>
    if Spec.isSet (snap h a) ∧ (members (snap h a)).isEmpty then (h, b)
    else if Spec.isSet (snap h b) ∧ (members (snap h b)).isEmpty then (h, a)
    else viaBuilder h (Spec.union (snap h a) (snap h b))

/-- the dense cells of a value, if it is a hole-free sequence at offset 0 -/
def denseCells (h : Heap) : HVal → Option (Kind × Slice × List V)
  | .seq k s off _ =>
    if off = 0 then ((read h s).mapM id).map (fun xs => (k, s, xs)) else none
  | _ => none

/-- `append` chunk after chunk (the loops of arraySub / arrayJoin / repeat) -/
def appendAll (orc : Oracle) (z : Cell) (p : Heap × Slice) (chunks : List (List Cell)) : Heap × Slice :=
  chunks.foldl (fun q vs => append orc z q.1 q.2 vs) p

def subChunks (old new : List V) : Nat → List V → List (List V)
  | 0, s => [s]
  | fuel + 1, s =>
    match search s old with
    | some i => s.take i :: new :: subChunks old new fuel (s.drop (i + old.length))
    | none => [s]

/-- `let [_, …, ...r] = x; r` and `let [...r, _, …] = x; r` (`ArrayPattern.Bind`): `NewArray(values[i:j]...)` -/
def restV (h : Heap) (x : HVal) (k : Nat) (fromEnd : Bool) : HVal :=
  match x with
  | .seq .A s off count =>
    -- an array pattern describes consecutive items from index 0: `array.offset != 0 || array.count != len(array.values)`
    -- is an error; then `array.Values()[i : i+offset+1]`
    if k ≤ count ∧ count = s.len ∧ off = 0 then
      (if fromEnd then newOffsetArray h 0 (reslice s 0 (count - k))
       else newOffsetArray h 0 (reslice s k count))
    else .err
  | _ => .err

def run1 (rep : Bool) (orc : Oracle) (st : St) : Op → Heap × HVal
  | .root k off cs =>
    let p := allocWith orc st.h cs
    (p.1, match k with
          | .S => newOffsetString p.1 p.2 off
          | .B => newOffsetBytes p.2 off
          | .A => newOffsetArray p.1 off p.2)
  | .const v => (st.h, .other v)
  | .with_ i k at_ x => withV rep orc st.h (st.vals.getD i .err) k at_ x
  | .without i k at_ x => withoutV st.h (st.vals.getD i .err) k at_ x
  | .offset i n => (st.h, offsetV st.h (st.vals.getD i .err) n)
  | .where_ i p => whereV st.h (st.vals.getD i .err) p
  | .smap i f => smapV st.h (st.vals.getD i .err) f
  | .concat i j =>      -- Concatenate: enumerate both into a SetBuilder, Finish
    viaBuilder st.h (Spec.concat (snap st.h (st.vals.getD i .err)) (snap st.h (st.vals.getD j .err)))
  | .union i j => unionV rep orc st.h (st.vals.getD i .err) (st.vals.getD j .err)
  | .join i j =>
    joinResult st.h (Spec.join (snap st.h (st.vals.getD i .err)) (snap st.h (st.vals.getD j .err)))
  | .rest i k => (st.h, restV st.h (st.vals.getD i .err) k false)
  | .front i k => (st.h, restV st.h (st.vals.getD i .err) k true)
  | .trimPrefix p s =>
    (match denseCells st.h (st.vals.getD p .err), denseCells st.h (st.vals.getD s .err) with
     | some (kp, _, xp), some (ks, ss, xs) =>
       if kp ≠ ks then (st.h, .err)
       else (match ks with
         | .B =>   -- rel.NewBytes(subjectBytes[len(prefixBytes):])
           if hasPrefix xp xs then (st.h, newOffsetBytes (reslice ss xp.length ss.len) 0) else (st.h, .seq .B ss 0 0)
         | .S => freshSeq orc .S st.h (if hasPrefix xp xs then xs.drop xp.length else xs)
         | .A =>   -- Difference(subject, prefix).Shift(-n): through the builder
           if hasPrefix xp xs then viaBuilder st.h (some (Spec.enc .A (xs.drop xp.length)))
           else (st.h, st.vals.getD s .err))
     | _, _ => (st.h, .err))
  | .trimSuffix p s =>
    (match denseCells st.h (st.vals.getD p .err), denseCells st.h (st.vals.getD s .err) with
     | some (kp, _, xp), some (ks, ss, xs) =>
       if kp ≠ ks then (st.h, .err)
       else (match ks with
         | .B =>   -- rel.NewBytes(subjectBytes[:len(subjectBytes)-len(suffixBytes)])
           if hasSuffix xp xs then (st.h, newOffsetBytes (reslice ss 0 (ss.len - xp.length)) 0)
           else (st.h, .seq .B ss 0 0)
         | .S => freshSeq orc .S st.h (if hasSuffix xp xs then xs.take (xs.length - xp.length) else xs)
         | .A =>
           if hasSuffix xp xs then viaBuilder st.h (some (Spec.enc .A (xs.take (xs.length - xp.length))))
           else (st.h, st.vals.getD s .err))
     | _, _ => (st.h, .err))
  | .sub o n s =>
    (match denseCells st.h (st.vals.getD o .err), denseCells st.h (st.vals.getD n .err),
           denseCells st.h (st.vals.getD s .err) with
     | some (ko, _, xo), some (kn, _, xn), some (ks, _, xs) =>
       if ko ≠ ks ∨ kn ≠ ks then (st.h, .err)
       else (match ks with
         | .A =>   -- arraySub: result := make([]Value, 0, Count); append … in a loop; NewArray(result...)
           let p := mkSlice st.h none 0 xs.length
           let q := appendAll orc none p ((subChunks xo xn (xs.length + 1) xs).map (·.map some))
           (q.1, newOffsetArray q.1 0 q.2)
         | k => freshSeq orc k st.h (joinL xn (Spec.splitL xo xs)))
     | _, _, _ => (st.h, .err))
  | .split d s =>
    (match denseCells st.h (st.vals.getD d .err), denseCells st.h (st.vals.getD s .err) with
     | some (kd, _, xd), some (ks, _, xs) =>
       if kd ≠ ks then (st.h, .err)
       else   -- the container array is fresh; its items are values (denotations)
         freshSeq orc .A st.h ((Spec.splitL xd xs).map (Spec.enc ks))
     | _, _ => (st.h, .err))
  | .piece d s k =>
    (match denseCells st.h (st.vals.getD d .err), denseCells st.h (st.vals.getD s .err) with
     | some (kd, _, xd), some (ks, ss, xs) =>
       if kd ≠ ks then (st.h, .err)
       else (match ks with
         | .A =>   -- arraySplit: rel.NewArray(subjectVals[:i]...) — a window of the subject's own array
           (match (pieceBounds xd (xs.length + 1) 0 xs)[k]? with
            | some (a, b) => (st.h, newOffsetArray st.h 0 (reslice ss a b))
            | none => (st.h, .err))
         | kk => freshOpt orc kk st.h ((Spec.splitL xd xs)[k]?))
     | _, _ => (st.h, .err))
  | .sjoin d s =>
    (match denseCells st.h (st.vals.getD d .err), denseCells st.h (st.vals.getD s .err) with
     | some (kd, _, xd), some (.A, _, items) =>
       (match Spec.denseItems kd items with
        | some xss =>
          (match kd with
           | .A =>   -- arrayJoin: result := make([]Value, 0, Count); append joiner / item values
             let p := mkSlice st.h none 0 items.length
             let chunks := (xss.zipIdx.map (fun xi => if xi.2 = 0 then [xi.1] else [xd, xi.1])).flatten
             let q := appendAll orc none p (chunks.map (·.map some))
             (q.1, newOffsetArray q.1 0 q.2)
           | .S => freshSeq orc .S st.h (joinL xd xss)
           | .B => (st.h, .err))
        | none => (st.h, .err))
     | _, _ => (st.h, .err))
  | .repeat_ n i =>
    (match denseCells st.h (st.vals.getD i .err) with
     | some (.A, _, xs) =>   -- values := []Value{}; for … { values = append(values, seqValues...) }
       let p := mkSlice st.h none 0 0
       let q := appendAll orc none p (List.replicate n (xs.map some))
       (q.1, newOffsetArray q.1 0 q.2)
     | some (.S, _, xs) => freshSeq orc .S st.h ((List.replicate n xs).flatten)
     | _ => (st.h, .err))
  | .sconcat i j =>
    (match denseCells st.h (st.vals.getD i .err), denseCells st.h (st.vals.getD j .err) with
     | some (ki, _, xi), some (kj, _, xj) =>
       if ki ≠ kj then (st.h, .err)
       else (match ki with
         | .S => freshSeq orc .S st.h (xi ++ xj)     -- strings.Builder, []rune(…)
         | _ => viaBuilder st.h (Spec.concat (snap st.h (st.vals.getD i .err)) (snap st.h (st.vals.getD j .err))))
     | _, _ => (st.h, .err))

def step (rep : Bool) (orc : Oracle) (st : St) (op : Op) : St :=
  let r := run1 rep orc st op
  { h := r.1, vals := st.vals ++ [r.2] }

def runAll (rep : Bool) (orc : Oracle) (ops : List Op) (st : St) : St := ops.foldl (step rep orc) st

def init : St := { h := [], vals := [] }

end Impl

end Arrai.C03
