/-
  C03 case generator, relational histories: `vK := op(vI [, vJ])` over relation values.
  Steps: relation literals; the eight join operators on ANY two earlier values — results of earlier joins included,
  the same parent joined again and again with different (one-to-many) partners; with / without / where / | ;
  nest / unnest / rank / => .  Same `hist` protocol as the sequence histories (Gen.lean): the harness runs every
  step through the rel API (join expression nodes, Set.With/Without, rel.NewSet) or by scoped evaluation, re-reads every
  earlier value after every step, and evaluates the whole history as one nested-let program.
  spec = `Rel.Spec.step` on `V`; model = the heap model of headings and rows (`Rel.Impl.step`, as repaired).
-/
import Arrai.C03.Rel
import Arrai.Core.Lit

namespace Arrai.C03.Rel

def numSrc (v : V) : String :=
  match v with
  | .num n => Lit.numSrc n
  | _ => "0"

def namesSrc (ns : List Nat) : String := ", ".intercalate (ns.map nameOf)

def tupleSrc (t : List (Nat × V)) : String :=
  "(" ++ ", ".intercalate (t.map (fun p => nameOf p.1 ++ ": " ++ numSrc p.2)) ++ ")"

def Spec.Derived.src : Spec.Derived → String
  | .nest attrs as_ => s!"nest |{", ".intercalate attrs}|{as_}"
  | .unnest attr => s!"unnest {attr}"
  | .rank as_ by_ => s!"rank ({as_}: .{by_})"
  | .map keep from_ to_ k => s!"=> ({keep}: .{keep}, {to_}: .{from_} + {Lit.numSrc k})"

def ROp.src : ROp → String
  | .lit names rows =>
    "{|" ++ namesSrc names ++ "| " ++ ", ".intercalate (rows.map (fun r => "(" ++ ", ".intercalate (r.map numSrc) ++ ")")) ++ "}"
  | .join o i j => s!"v{i} {o.sym} v{j}"
  | .with_ i t => s!"v{i} with {tupleSrc t}"
  | .without i t => s!"v{i} without {tupleSrc t}"
  | .where_ i n lt k => s!"v{i} where .{nameOf n} {if lt then "<" else "="} {Lit.numSrc k}"
  | .union i j => s!"v{i} | v{j}"
  | .derived d i => s!"v{i} {d.src}"

def tupleApi (t : List (Nat × V)) : String := ",".intercalate (t.map (fun p => nameOf p.1 ++ "=" ++ numSrc p.2))

/-- the harness' direct-API form: `rr names;row;row…`, `j <op> I J`, `tw I n=v,…`, `two I n=v,…`, `un I J` -/
def ROp.api : ROp → String
  | .lit names rows =>
    "rr " ++ ";".intercalate ((",".intercalate (names.map nameOf)) :: rows.map (fun r => ",".intercalate (r.map numSrc)))
  | .join o i j => s!"j {o.sym} {i} {j}"
  | .with_ i t => s!"tw {i} {tupleApi t}"
  | .without i t => s!"two {i} {tupleApi t}"
  | .union i j => s!"un {i} {j}"
  | _ => "-"

structure RG where
  ops : List ROp := []
  steps : List String := []
  vals : List (Option V) := []
  st : Impl.St := Impl.init
  salt : Nat := 1
  deriving Inhabited

def RG.n (g : RG) : Nat := g.vals.length

def RG.push (g : RG) (op : ROp) (useApi : Bool) : Option RG :=
  match Spec.step g.vals op with
  | some v =>
    some { g with ops := g.ops ++ [op], steps := g.steps ++ [(if useApi then op.api else "-") ++ " ## " ++ op.src],
                  vals := g.vals ++ [some v], st := Impl.step Impl.repaired (oracleOf' g.salt) g.st op }
  | none => none
where oracleOf' (salt : Nat) : Oracle := fun n => (n * 5 + salt) % 3

/-- the relation values so far: index, names (as indices into `nameTable`), rows as name/value lists; only relations
all of whose cells are numbers carry their rows -/
structure RInfo where
  i : Nat
  names : List Nat
  rows : List (List (Nat × V))
  allNum : Bool
  deriving Inhabited

def infoOfV (i : Nat) (v : V) : Option RInfo :=
  match relNames v with
  | some ns =>
    match ns.mapM nameIdx with
    | some idx =>
      if idx.isEmpty then none else
      let rows := (members v).map (fun t => idx.map (fun n => (n, (tget t (nameOf n)).getD (.num 0))))
      some ⟨i, idx, rows, rows.all (fun r => r.all (fun p => match p.2 with | .num _ => true | _ => false))⟩
    | none => none
  | none => none

def RG.rels (g : RG) : List RInfo :=
  (List.range g.n).filterMap (fun i => (Spec.getV g.vals i).bind (infoOfV i))

def genJoinOp : Gen JoinOp := do
  let r ← rand 14
  pure (match r with
    | 0 | 1 | 2 | 3 | 4 | 5 => .join
    | 6 | 7 => .compose
    | 8 => .common | 9 => .exists_ | 10 => .rmatch | 11 => .lmatch | 12 => .rresidue | _ => .lresidue)

def genVal : Gen V := do pure (.num (← rand 4))

/-- a literal over 1–3 names (sorted), 1–4 rows -/
def genLitOver (names : List Nat) : Gen ROp := do
  let m := 1 + (← rand 4)
  let rows ← genList m (genList names.length genVal)
  pure (.lit names rows.eraseDups)

def genNames : Gen (List Nat) := do
  let k ← pick [1, 2, 2, 3, 3, 3, 4]
  let all := [0, 1, 2, 3, 4, 5, 6]
  let picked ← genList k (pick all)
  pure (picked.eraseDups.mergeSort (· ≤ ·))

def relOpNames : List String :=
  ["joinNew", "joinNew", "joinNew", "joinAgain", "joinAgain", "joinAgain", "joinChain", "joinChain", "joinAny", "joinAny",
   "with", "without",
   "where", "union", "nest", "unnest", "rank", "map", "lit"]

def genRelStep (g : RG) : Gen RG := do
  let name ← pick relOpNames
  let useApi ← chance 3 4
  let rels := g.rels
  let fallback : Gen RG := do
    let ns ← genNames
    let l ← genLitOver ns
    pure ((g.push l (← chance 1 2)).getD g)
  if rels.isEmpty || name == "lit" then fallback else
  let r ← pick rels
  let orElse (o : Option RG) : Gen RG := match o with | some g' => pure g' | none => fallback
  match name with
  | "joinNew" | "joinAgain" | "joinChain" => do
    -- a partner made for `r`: shares one attribute (with r's own values, one-to-many) and brings a new one.
    -- `joinChain`: the parent is itself the result of a join.  `joinAgain`: the parent has ALREADY been the left operand
    -- of a join — the same parent extended a second time with a different partner (branching), mostly by the same operator.
    let joins := rels.filter (fun x => match g.ops.getD x.i default with | .join .. => true | _ => false)
    let usedLeft := g.ops.filterMap (fun o => match o with | .join jo i _ => some (i, jo) | _ => none)
    let again := rels.filter (fun x => usedLeft.any (·.1 = x.i))
    let r ← if name == "joinChain" && !joins.isEmpty then pick joins
            else if name == "joinAgain" && !again.isEmpty then pick again else pure r
    let prevOp := (usedLeft.find? (·.1 = r.i)).map (·.2)
    if !r.allNum then fallback else
    let shared ← pick r.names
    let freshNames := [0, 1, 2, 3, 4, 5, 6].filter (fun n => !r.names.contains n)
    let withShared ← chance 2 3
    if freshNames.isEmpty then fallback else
    let nw ← pick freshNames
    let keys := (r.rows.filterMap (fun row => (row.find? (·.1 = shared)).map (·.2))).eraseDups
    let m := 1 + (← rand 3)
    let rowsNew ← genList m (do
      let k ← pick keys
      let v ← genVal
      pure (if withShared then (if shared < nw then [k, v] else [v, k]) else [v]))
    let names := if withShared then (if shared < nw then [shared, nw] else [nw, shared]) else [nw]
    let some g1 := g.push (.lit names rowsNew.eraseDups) (← chance 1 2) | fallback
    let o ← match prevOp with
      | some po => do if name == "joinAgain" && (← chance 2 3) then pure po else genJoinOp
      | none => genJoinOp
    let flip ← if name == "joinAgain" then pure false else chance 1 5
    orElse (g1.push (if flip then .join o g.n r.i else .join o r.i g.n) useApi)
  | "joinAny" => do
    let r2 ← pick rels
    orElse (g.push (.join (← genJoinOp) r.i r2.i) useApi)
  | "with" => do
    if !r.allNum then fallback else
    let base ← pick r.rows
    let t ← base.mapM (fun p => do if (← chance 1 2) then pure (p.1, ← genVal) else pure p)
    orElse (g.push (.with_ r.i t) useApi)
  | "without" => do
    if !r.allNum then fallback else
    orElse (g.push (.without r.i (← pick r.rows)) useApi)
  | "where" => do
    if !r.allNum then fallback else
    orElse (g.push (.where_ r.i (← pick r.names) (← chance 1 2) (Int.ofNat (← rand 4))) false)
  | "union" => do
    if !r.allNum then fallback else
    let same := rels.filter (fun x => x.names = r.names && x.i ≠ r.i)
    if !same.isEmpty && (← chance 1 2) then orElse (g.push (.union r.i (← pick same).i) useApi)
    else
      let some g1 := g.push (← genLitOver r.names) (← chance 1 2) | fallback
      orElse (g1.push (.union r.i g.n) useApi)
  | "nest" => do
    if r.names.length < 2 then fallback else
    let k := 1 + (← rand (r.names.length - 1))
    let attrs := (r.names.drop (r.names.length - k)).map nameOf
    orElse (g.push (.derived (.nest attrs "n") r.i) false)
  | "unnest" => do
    if r.names.contains 8 then orElse (g.push (.derived (.unnest "n") r.i) false) else fallback
  | "rank" => do
    if !r.allNum then fallback else
    orElse (g.push (.derived (.rank "r" (nameOf (← pick r.names))) r.i) false)
  | _ => do
    if !r.allNum then fallback else
    orElse (g.push (.derived (.map (nameOf (← pick r.names)) (nameOf (← pick r.names)) "z" (Int.ofNat (← rand 3))) r.i) false)

def relObs (vals : List String) : String := "stable;prog=ok;" ++ ";".intercalate vals

def relCases (id stratum : String) (g : RG) : List Case :=
  [{ id := id, cls := "good", kind := "hist", stratum := stratum,
     model := relObs (g.st.vals.map (fun x => match x with | .err => "error" | _ => (snapR g.st.h x).canon)),
     spec := relObs (g.vals.map (fun o => match o with | some v => v.canon | none => "error")),
     payload := "strict" :: g.steps }]

def genRelHist (idx : Nat) : Gen (List Case) := do
  let mut g : RG := { salt := ← rand 3 }
  let nroots := 1 + (← rand 2)
  for _ in [0:nroots] do
    let l ← genLitOver (← genNames)
    g := (g.push l (← chance 1 2)).getD g
  let steps := 3 + (← rand 8)
  for _ in [0:steps] do
    if g.n < nroots + steps + 2 then
      g := ← genRelStep g
  pure (relCases s!"C03-r{idx}" "rel" g)

def relOfOps (id : String) (ops : List (ROp × Bool)) : List Case :=
  relCases id "corpus-rel" (ops.foldl (fun g o => (g.push o.1 o.2).getD g) ({} : RG))

def n1 (n : Int) : V := .num n

/-- witnesses: the heading defect repaired by the C04 fix; chained joins on a join result (the shape in which a `values()`
that returned the row itself would let `JoinKeepEverything` append in place); one-to-many partner -/
def relCorpus : List Case :=
  relOfOps "C03-corpus-rel-heading"
    [(.lit [0, 1, 2] [[n1 1, n1 2, n1 3]], false), (.lit [0, 3] [[n1 1, n1 4]], false), (.lit [0, 4] [[n1 1, n1 5]], false),
     (.join .join 0 1, false), (.join .join 0 2, false), (.join .join 3 4, false)]
  ++ relOfOps "C03-corpus-rel-heading-api"
    [(.lit [0, 1, 2] [[n1 1, n1 2, n1 3]], true), (.lit [0, 3] [[n1 1, n1 4]], true), (.lit [0, 4] [[n1 1, n1 5]], true),
     (.join .join 0 1, true), (.join .join 0 2, true), (.join .join 3 4, true)]
  ++ relOfOps "C03-corpus-rel-rows"
    [(.lit [0, 1] [[n1 1, n1 2]], false), (.lit [2] [[n1 3]], false), (.join .join 0 1, false), (.lit [3] [[n1 4]], false),
     (.lit [3] [[n1 5]], false), (.join .join 2 3, false), (.join .join 2 4, false)]
  ++ relOfOps "C03-corpus-rel-rows-api"
    [(.lit [0, 1] [[n1 1, n1 2]], true), (.lit [2] [[n1 3]], true), (.join .join 0 1, true), (.lit [3] [[n1 4]], true),
     (.lit [3] [[n1 5]], true), (.join .join 2 3, true), (.join .join 2 4, true)]
  ++ relOfOps "C03-corpus-rel-one-to-many"
    [(.lit [0, 1] [[n1 1, n1 2]], false), (.lit [2] [[n1 3]], false), (.join .join 0 1, true),
     (.lit [3] [[n1 4], [n1 5]], false), (.join .join 2 3, true), (.join .compose 2 3, false)]

end Arrai.C03.Rel
