/-
  C03 — relations: heading and every row of every relation lie inside their backing arrays (`Slice.WF`); established by
  the literal/builder constructors and preserved by every relational operation of Rel.lean (as repaired).
-/
import Arrai.C03.WF
import Arrai.C03.RelLemmas

namespace Arrai.C03.Rel
open Arrai.C03

/-- heading and rows lie inside their arrays -/
def WFR (h : Heap) (x : RVal) : Prop := ∀ s, s ∈ x.slices → s.WF h

def WFOKR (h : Heap) (p : Heap × RVal) : Prop := Shape h p.1 ∧ WFR p.1 p.2

theorem wfr_other (h : Heap) (v : V) : WFR h (.other v) := by intro s hs; simp [RVal.slices] at hs
theorem wfr_err (h : Heap) : WFR h .err := by intro s hs; simp [RVal.slices] at hs
theorem WFR.shape {h h' : Heap} {x : RVal} (w : WFR h x) (sh : Shape h h') : WFR h' x := fun s hs => (w s hs).shape sh
theorem wfokr_same {h : Heap} {x : RVal} (w : WFR h x) : WFOKR h (h, x) := ⟨Shape.refl h, w⟩
theorem WFOKR.trans {h : Heap} {p q : Heap × RVal} (a : WFOKR h p) (b : WFOKR p.1 q) : WFOKR h q := ⟨a.1.trans b.1, b.2⟩

theorem wfr_rel {h : Heap} {r : RRel} (ha : r.attrs.WF h) (hr : ∀ s, s ∈ r.rows → s.WF h) : WFR h (.rel r) := by
  intro s hs
  simp only [RVal.slices, List.mem_cons] at hs
  rcases hs with rfl | hs
  · exact ha
  · exact hr s hs

theorem FW.appendEach {h : Heap} (orc : Oracle) (cs : List Cell) {q : Heap × Slice} (f : FW h q) :
    FW h (Impl.appendEach orc q cs) := by
  unfold Impl.appendEach
  induction cs generalizing q with
  | nil => exact f
  | cons c r ih => exact ih (f.append orc none [c])

theorem fw_allocNames {h h1 : Heap} (sh : Shape h h1) (orc : Oracle) (cap : Nat) (names : List Nat) :
    FW h (Impl.allocNames orc h1 cap names) := FW.appendEach orc _ (FW.ofMk sh none 0 cap)

theorem fw_projValues {h h1 : Heap} (sh : Shape h h1) (orc : Oracle) (row : Slice) (p : List Nat) :
    FW h (Impl.projValues Impl.repaired orc h1 row p) := by
  unfold Impl.projValues
  simp only [Impl.repaired, Bool.not_true, Bool.false_and]
  split
  · exact FW.ofMk sh none 0 0
  · simp only [Bool.false_eq_true, if_false]
    split
    · exact (FW.ofMk sh none _ 0).copy _
    · exact FW.appendEach orc _ (FW.ofMk sh none 0 p.length)

/-- an accumulator of well-formed rows -/
structure AccW (h : Heap) (p : Heap × List Slice) : Prop where
  shape : Shape h p.1
  wf : ∀ s, s ∈ p.2 → s.WF p.1

theorem AccW.start {h h1 : Heap} (sh : Shape h h1) : AccW h (h1, []) := ⟨sh, fun _ hs => by simp at hs⟩

theorem AccW.push {h : Heap} {p : Heap × List Slice} (a : AccW h p) {q : Heap × Slice} (f : FW p.1 q) :
    AccW h (q.1, p.2 ++ [q.2]) :=
  ⟨a.shape.trans f.shape, fun s hs => by
    rcases List.mem_append.1 hs with hs | hs
    · exact (a.wf s hs).shape f.shape
    · simp at hs; subst hs; exact f.wf⟩

theorem FW.rebase {h h1 : Heap} {q : Heap × Slice} (sh : Shape h h1) (f : FW h1 q) : FW h q := ⟨sh.trans f.shape, f.wf⟩

theorem accw_keepEverything {h h1 : Heap} (sh : Shape h h1) (orc : Oracle) (lrows rrows : List Slice)
    (lk rk lo ro : List Nat) : AccW h (Impl.keepEverything Impl.repaired orc h1 lrows rrows lk rk lo ro) := by
  unfold Impl.keepEverything
  have inner : ∀ (l : Slice) (rr : List Slice) (acc : Heap × List Slice), AccW h acc →
      AccW h (rr.foldl (fun acc r =>
        if Impl.keyOf acc.1 l lk = Impl.keyOf acc.1 r rk then
          let rv := Impl.projValues Impl.repaired orc acc.1 r ro
          let lv := Impl.projValues Impl.repaired orc rv.1 l lo
          let nr := append orc none lv.1 lv.2 (read lv.1 rv.2)
          (nr.1, acc.2 ++ [nr.2])
        else acc) acc) := by
    intro l rr
    induction rr with
    | nil => intro acc a; exact a
    | cons r rest ih =>
      intro acc a
      simp only [List.foldl_cons]
      apply ih
      split
      · have o1 : FW acc.1 (Impl.projValues Impl.repaired orc acc.1 r ro) := fw_projValues (Shape.refl _) orc r ro
        have o2 : FW acc.1 (Impl.projValues Impl.repaired orc (Impl.projValues Impl.repaired orc acc.1 r ro).1 l lo) :=
          fw_projValues o1.shape orc l lo
        exact a.push (o2.append orc none _)
      · exact a
  have outer : ∀ (ll : List Slice) (acc : Heap × List Slice), AccW h acc →
      AccW h (ll.foldl (fun acc l => rrows.foldl (fun acc r =>
        if Impl.keyOf acc.1 l lk = Impl.keyOf acc.1 r rk then
          let rv := Impl.projValues Impl.repaired orc acc.1 r ro
          let lv := Impl.projValues Impl.repaired orc rv.1 l lo
          let nr := append orc none lv.1 lv.2 (read lv.1 rv.2)
          (nr.1, acc.2 ++ [nr.2])
        else acc) acc) acc) := by
    intro ll
    induction ll with
    | nil => intro acc a; exact a
    | cons l rest ih => intro acc a; exact ih _ (inner l rrows acc a)
  exact outer lrows _ (AccW.start sh)

theorem accw_oneSide {h h1 : Heap} (sh : Shape h h1) (orc : Oracle) (bs os : List Slice)
    (key okey out : List Nat) (hb : ∀ s, s ∈ bs → s.WF h1) :
    AccW h (Impl.oneSide Impl.repaired orc h1 bs os key okey out) := by
  unfold Impl.oneSide
  simp only []
  split
  · exact ⟨sh, fun s hs => hb s (List.mem_filter.1 hs).1⟩
  · have : ∀ (l : List Slice) (acc : Heap × List Slice), AccW h acc →
        AccW h (l.foldl (fun acc b =>
          if os.any (fun o => Impl.keyOf acc.1 o okey = Impl.keyOf acc.1 b key) = true then
            let v := Impl.projValues Impl.repaired orc acc.1 b out
            (v.1, acc.2 ++ [v.2])
          else acc) acc) := by
      intro l
      induction l with
      | nil => intro acc a; exact a
      | cons b rest ih =>
        intro acc a
        simp only [List.foldl_cons]
        apply ih
        split
        · exact a.push (fw_projValues (Shape.refl _) orc b out)
        · exact a
    exact this bs _ (AccW.start sh)

theorem accw_commonOnly {h h1 : Heap} (sh : Shape h h1) (lrows rrows : List Slice)
    (lk rk lo ro : List Nat) : AccW h (Impl.commonOnly h1 lrows rrows lk rk lo ro) := by
  unfold Impl.commonOnly
  simp only []
  have : ∀ (l : List (List Cell)) (acc : Heap × List Slice), AccW h acc →
      AccW h (l.foldl (fun acc k =>
        let cs := (if lo.isEmpty = true then ro else lo).map
          (fun idx => k.getD (List.idxOf idx (if lo.isEmpty = true then rk else lk)) none)
        let q := mkSlice acc.1 none cs.length 0
        (copy q.1 q.2 cs, acc.2 ++ [q.2])) acc) := by
    intro l
    induction l with
    | nil => intro acc a; exact a
    | cons k rest ih =>
      intro acc a
      simp only [List.foldl_cons]
      apply ih
      exact a.push ((FW.ofMk (Shape.refl _) none _ 0).copy _)
  exact this _ _ (AccW.start sh)

theorem accw_rowsJoin {h h1 : Heap} (sh : Shape h h1) (orc : Oracle) (lrows rrows : List Slice)
    (lk rk lo ro : List Nat) (hl : ∀ s, s ∈ lrows → s.WF h1) (hr : ∀ s, s ∈ rrows → s.WF h1) :
    AccW h ((Impl.rowsJoin Impl.repaired orc h1 lrows rrows lk rk lo ro).1,
      ((Impl.rowsJoin Impl.repaired orc h1 lrows rrows lk rk lo ro).2.1).getD []) := by
  unfold Impl.rowsJoin
  split
  · exact accw_keepEverything sh orc lrows rrows lk rk lo ro
  · exact accw_keepEverything sh orc lrows rrows lk rk lo ro
  · exact accw_oneSide sh orc lrows rrows lk rk lo hl
  · exact accw_oneSide sh orc lrows rrows lk rk lo hl
  · exact accw_oneSide sh orc rrows lrows rk lk ro hr
  · exact accw_oneSide sh orc rrows lrows rk lk ro hr
  · exact accw_commonOnly sh lrows rrows lk rk lo ro
  · exact AccW.start sh

structure PartW (h : Heap) (p : Heap × Impl.NS × Impl.NS) : Prop where
  shape : Shape h p.1
  l : p.2.1.s.WF p.1
  r : p.2.2.s.WF p.1

theorem partW (o : JoinOp) (orc : Oracle) (h : Heap) (l r : RRel) (ln rn common : List Nat)
    (hl : l.attrs.WF h) (hr : r.attrs.WF h) : PartW h (Impl.partition o orc h l r ln rn common) := by
  have e := fun (hh : Heap) => FW.ofMk (Shape.refl hh) none 0 0
  have m := fun (hh : Heap) (a b : List Nat) => fw_allocNames (Shape.refl hh) orc a.length (Impl.minusN a b)
  unfold Impl.partition
  simp only []
  cases o with
  | join =>
    simp only []
    split
    · exact ⟨(e h).shape, (e h).wf, hr.shape (e h).shape⟩
    · split
      · exact ⟨(e h).shape, hl.shape (e h).shape, (e h).wf⟩
      · exact ⟨(m h rn ln).shape, hl.shape (m h rn ln).shape, (m h rn ln).wf⟩
  | compose =>
    have a := m h ln common
    have b := m (Impl.allocNames orc h ln.length (Impl.minusN ln common)).1 rn common
    exact ⟨a.shape.trans b.shape, a.wf.shape b.shape, b.wf⟩
  | common =>
    have a := fw_allocNames (Shape.refl h) orc common.length common
    have b := e (Impl.allocNames orc h common.length common).1
    exact ⟨a.shape.trans b.shape, a.wf.shape b.shape, b.wf⟩
  | exists_ =>
    have a := e h
    have b := e (mkSlice h none 0 0).1
    exact ⟨a.shape.trans b.shape, a.wf.shape b.shape, b.wf⟩
  | rmatch => exact ⟨(e h).shape, (e h).wf, hr.shape (e h).shape⟩
  | lmatch => exact ⟨(e h).shape, hl.shape (e h).shape, (e h).wf⟩
  | rresidue =>
    have a := e h
    have b := m (mkSlice h none 0 0).1 rn common
    exact ⟨a.shape.trans b.shape, a.wf.shape b.shape, b.wf⟩
  | lresidue =>
    have a := m h ln common
    have b := e (Impl.allocNames orc h ln.length (Impl.minusN ln common)).1
    exact ⟨a.shape.trans b.shape, a.wf.shape b.shape, b.wf⟩

/-- `Relation.Join` as repaired -/
theorem wfokr_joinRel (orc : Oracle) (o : JoinOp) (h : Heap) (l r : RRel) (wl : WFR h (.rel l)) (wr : WFR h (.rel r)) :
    WFOKR h (Impl.joinRel Impl.repaired orc o h l r) := by
  have hla : l.attrs.WF h := wl _ (by simp [RVal.slices])
  have hra : r.attrs.WF h := wr _ (by simp [RVal.slices])
  have hlr : ∀ s, s ∈ l.rows → s.WF h := fun s hs => wl _ (by simp [RVal.slices, hs])
  have hrr : ∀ s, s ∈ r.rows → s.WF h := fun s hs => wr _ (by simp [RVal.slices, hs])
  unfold Impl.joinRel
  simp only []
  have pt := partW o orc h l r (namesOf h l) (namesOf h r) (Impl.intersectN (namesOf h l) (namesOf h r)) hla hra
  generalize Impl.partition o orc h l r (namesOf h l) (namesOf h r) (Impl.intersectN (namesOf h l) (namesOf h r)) = P at pt
  have hlr' : ∀ s, s ∈ l.rows → s.WF P.1 := fun s hs => (hlr s hs).shape pt.shape
  have hrr' : ∀ s, s ∈ r.rows → s.WF P.1 := fun s hs => (hrr s hs).shape pt.shape
  have rj := accw_rowsJoin pt.shape orc l.rows r.rows
    (Impl.compose l.p (Impl.indicesOf (namesOf h l) (Impl.intersectN (namesOf h l) (namesOf h r))))
    (Impl.compose r.p (Impl.indicesOf (namesOf h r) (Impl.intersectN (namesOf h l) (namesOf h r))))
    (Impl.compose l.p (Impl.indicesOf (namesOf h l) P.2.1.names))
    (Impl.compose r.p (Impl.indicesOf (namesOf h r) P.2.2.names)) hlr' hrr'
  generalize Impl.rowsJoin Impl.repaired orc P.1 l.rows r.rows _ _ _ _ = R at rj
  split
  · exact ⟨rj.shape, wfr_other _ _⟩
  · rename_i rows hrows
    rw [hrows] at rj
    simp only [Option.getD_some] at rj
    split
    · exact ⟨rj.shape, wfr_other _ _⟩
    · split
      · exact ⟨rj.shape, wfr_other _ _⟩
      · simp only [Impl.repaired, if_true]
        have a0 : FW R.1 (mkSlice R.1 none 0 (P.2.1.names.length + P.2.2.names.length)) := FW.ofMk (Shape.refl _) none 0 _
        have a1 := a0.append orc none (read (mkSlice R.1 none 0 (P.2.1.names.length + P.2.2.names.length)).1 P.2.1.s)
        have a2 := a1.append orc none (read (append orc none (mkSlice R.1 none 0 (P.2.1.names.length + P.2.2.names.length)).1
          (mkSlice R.1 none 0 (P.2.1.names.length + P.2.2.names.length)).2
          (read (mkSlice R.1 none 0 (P.2.1.names.length + P.2.2.names.length)).1 P.2.1.s)).1 P.2.2.s)
        exact ⟨rj.shape.trans a2.shape, wfr_rel a2.wf (fun s hs => (rj.wf s hs).shape a2.shape)⟩

theorem accw_rowsOfTuples {h h1 : Heap} (sh : Shape h h1) {α : Type} (n : Nat) (cellsOf : α → List Cell) (l : List α) :
    AccW h (l.foldl (fun acc t =>
      let q := mkSlice acc.1 none n 0
      (store q.1 q.2 0 (cellsOf t), acc.2 ++ [q.2])) (h1, ([] : List Slice))) := by
  have : ∀ (l : List α) (acc : Heap × List Slice), AccW h acc →
      AccW h (l.foldl (fun acc t =>
        let q := mkSlice acc.1 none n 0
        (store q.1 q.2 0 (cellsOf t), acc.2 ++ [q.2])) acc) := by
    intro l
    induction l with
    | nil => intro acc a; exact a
    | cons t rest ih =>
      intro acc a
      simp only [List.foldl_cons]
      apply ih
      exact a.push ((FW.ofMk (Shape.refl _) none n 0).store 0 _)
  exact this l _ (AccW.start sh)

theorem wfokr_relOfV (orc : Oracle) (h : Heap) (v : V) : WFOKR h (Impl.relOfV orc h v) := by
  unfold Impl.relOfV
  split
  · exact wfokr_same (wfr_other h v)
  · rename_i ns _
    split
    · exact wfokr_same (wfr_other h v)
    · rename_i idx _
      split
      · exact wfokr_same (wfr_other h v)
      · simp only []
        have hd := FW.ofAlloc (Shape.refl h) orc (idx.map nameCell)
        have a := accw_rowsOfTuples (Shape.refl (allocWith orc h (idx.map nameCell)).1) ns.length
          (fun t => ns.map (fun n => tget t n)) (members v)
        exact ⟨hd.shape.trans a.shape, wfr_rel (hd.wf.shape a.shape) a.wf⟩

theorem wfokr_litRel (orc : Oracle) (h : Heap) (names : List Nat) (rows : List (List V)) :
    WFOKR h (Impl.litRel orc h names rows) := by
  unfold Impl.litRel
  split
  · exact wfokr_same (wfr_other h _)
  · simp only []
    have hd := FW.ofAlloc (Shape.refl h) orc (names.map nameCell)
    have a := accw_rowsOfTuples (Shape.refl (allocWith orc h (names.map nameCell)).1) names.length
      (fun r : List V => r.map some) rows
    exact ⟨hd.shape.trans a.shape, wfr_rel (hd.wf.shape a.shape) a.wf⟩

theorem wfokr_viaBuilder (orc : Oracle) (h : Heap) (o : Option V) : WFOKR h (Impl.viaBuilder orc h o) := by
  cases o with
  | none => exact wfokr_same (wfr_err h)
  | some v => exact wfokr_relOfV orc h v

theorem fw_tupleToValues (h : Heap) (r : RRel) (t : List (Nat × V)) : FW h (Impl.tupleToValues h r t) := by
  unfold Impl.tupleToValues
  simp only []
  exact FW.foldStore _ (fun np : Nat × Nat => np.2) (fun np => [(t.find? (·.1 = np.1)).map (·.2)]) _
    (FW.ofMk (Shape.refl h) none _ 0)

theorem wfokr_withR (h : Heap) (x : RVal) (t : List (Nat × V)) (w : WFR h x) : WFOKR h (Impl.withR h x t) := by
  unfold Impl.withR
  cases x with
  | rel r =>
    simp only []
    have v := fw_tupleToValues h r t
    split
    · split
      · exact ⟨v.shape, w.shape v.shape⟩
      · refine ⟨v.shape, wfr_rel ((w _ (by simp [RVal.slices])).shape v.shape) ?_⟩
        intro s hs
        rcases List.mem_append.1 hs with hs | hs
        · exact (w _ (by simp [RVal.slices, hs])).shape v.shape
        · simp at hs; subst hs; exact v.wf
    · exact wfokr_same (wfr_other h _)
  | other v =>
    simp only []
    split
    · exact wfokr_same (wfr_other h _)
    · exact wfokr_same (wfr_err h)
  | err => exact wfokr_same (wfr_err h)

theorem wfokr_withoutR (h : Heap) (x : RVal) (t : List (Nat × V)) (w : WFR h x) : WFOKR h (Impl.withoutR h x t) := by
  unfold Impl.withoutR
  cases x with
  | rel r =>
    simp only []
    have v := fw_tupleToValues h r t
    split
    · split
      · exact ⟨v.shape, wfr_other _ _⟩
      · refine ⟨v.shape, wfr_rel ((w _ (by simp [RVal.slices])).shape v.shape) ?_⟩
        intro s hs
        exact (w _ (by simp [RVal.slices, (List.mem_filter.1 hs).1])).shape v.shape
    · exact wfokr_same w
  | other v =>
    simp only []
    split
    · exact wfokr_same (wfr_other h _)
    · exact wfokr_same (wfr_err h)
  | err => exact wfokr_same (wfr_err h)

theorem wfr_whereR (h : Heap) (x : RVal) (n : Nat) (lt : Bool) (k : Int) (w : WFR h x) :
    WFR h (Impl.whereR h x n lt k) := by
  unfold Impl.whereR
  cases x with
  | rel r =>
    simp only []
    split
    · exact wfr_err h
    · split
      · exact wfr_other h _
      · refine wfr_rel (w _ (by simp [RVal.slices])) ?_
        intro s hs
        exact w _ (by simp [RVal.slices, (List.mem_filter.1 hs).1])
  | other v =>
    simp only []
    split
    · exact wfr_other h _
    · exact wfr_err h
  | err => exact wfr_err h

theorem wfokr_unionR (orc : Oracle) (h : Heap) (a b : RVal) (wa : WFR h a) (wb : WFR h b) :
    WFOKR h (Impl.unionR orc h a b) := by
  unfold Impl.unionR
  split
  · exact wfokr_same (wfr_err h)
  · exact wfokr_same (wfr_err h)
  · rename_i ra rb
    simp only []
    split
    · have : ∀ (l : List Slice) (acc : Heap × RVal), WFOKR h acc →
          WFOKR h (l.foldl (fun acc s => Impl.withR acc.1 acc.2
            (((namesOf h rb).zip rb.p).map (fun np => (np.1, ((read acc.1 s).getD np.2 none).getD (V.num 0))))) acc) := by
        intro l
        induction l with
        | nil => intro acc a; exact a
        | cons s rest ih => intro acc a; exact ih _ (a.trans (wfokr_withR acc.1 acc.2 _ a.2))
      exact this rb.rows _ (wfokr_same wa)
    · exact wfokr_viaBuilder _ _ _
  · split
    · exact wfokr_same wb
    · split
      · exact wfokr_same wa
      · exact wfokr_viaBuilder _ _ _

/-! ### one step -/

def InvWFR (st : Impl.St) : Prop := ∀ x, x ∈ st.vals → WFR st.h x

theorem InvWFR.getD {st : Impl.St} (inv : InvWFR st) (i : Nat) : WFR st.h (st.vals.getD i .err) := by
  unfold List.getD
  cases e : st.vals[i]? with
  | none => exact wfr_err _
  | some x => exact inv x (List.mem_of_getElem? e)

theorem invWFR_init : InvWFR Impl.init := by intro x hx; simp [Impl.init] at hx

theorem wfokr_run1 (orc : Oracle) (st : Impl.St) (inv : InvWFR st) (op : ROp) :
    WFOKR st.h (Impl.run1 Impl.repaired orc st op) := by
  cases op with
  | lit names rows => exact wfokr_litRel _ _ _ _
  | join o i j =>
    simp only [Impl.run1]
    have li := inv.getD i
    have lj := inv.getD j
    split
    · exact wfokr_same (wfr_err _)
    · exact wfokr_same (wfr_err _)
    · rename_i l r hl hr
      rw [hl] at li; rw [hr] at lj
      exact wfokr_joinRel orc o st.h l r li lj
    · exact wfokr_viaBuilder _ _ _
  | with_ i t => exact wfokr_withR st.h _ t (inv.getD i)
  | without i t => exact wfokr_withoutR st.h _ t (inv.getD i)
  | where_ i n lt k => exact wfokr_same (wfr_whereR st.h _ n lt k (inv.getD i))
  | union i j => exact wfokr_unionR orc st.h _ _ (inv.getD i) (inv.getD j)
  | derived d i =>
    simp only [Impl.run1]
    split
    · exact wfokr_same (wfr_err _)
    · exact wfokr_viaBuilder _ _ _

end Arrai.C03.Rel
