/-
  C03 — relations: every transliterated operation (as repaired, and with `values()` copying as it does) stores only
  into arrays it allocated itself, and the heading and all rows of its result lie in the new heap.
-/
import Arrai.C03.Rel
import Arrai.C03.Lemmas

namespace Arrai.C03.Rel
open Arrai.C03

/-- heading and rows point into the heap -/
def LiveR (h : Heap) (x : RVal) : Prop := ∀ s, s ∈ x.slices → s.arr < h.length

def OpOKR (h : Heap) (p : Heap × RVal) : Prop := Frame h.length h p.1 ∧ LiveR p.1 p.2

theorem liveR_other (h : Heap) (v : V) : LiveR h (.other v) := by intro s hs; simp [RVal.slices] at hs
theorem liveR_err (h : Heap) : LiveR h .err := by intro s hs; simp [RVal.slices] at hs
theorem LiveR.mono {h h' : Heap} {x : RVal} (l : LiveR h x) (hl : h.length ≤ h'.length) : LiveR h' x :=
  fun s hs => Nat.lt_of_lt_of_le (l s hs) hl

theorem snapR_frame {h h' : Heap} (f : Frame h.length h h') {x : RVal} (l : LiveR h x) : snapR h' x = snapR h x := by
  cases x with
  | rel r =>
    have ha : read h' r.attrs = read h r.attrs := read_frame f _ (l _ (by simp [RVal.slices]))
    have hr : ∀ s, s ∈ r.rows → read h' s = read h s := fun s hs => read_frame f _ (l _ (by simp [RVal.slices, hs]))
    simp only [snapR, namesOf, ha]
    congr 1
    apply List.map_congr_left
    intro s hs
    rw [hr s hs]
  | other v => rfl
  | err => rfl

theorem rcells_frame {h h' : Heap} (f : Frame h.length h h') {x : RVal} (l : LiveR h x) : rcells h' x = rcells h x := by
  cases x with
  | rel r =>
    have ha : read h' r.attrs = read h r.attrs := read_frame f _ (l _ (by simp [RVal.slices]))
    have hr : ∀ s, s ∈ r.rows → read h' s = read h s := fun s hs => read_frame f _ (l _ (by simp [RVal.slices, hs]))
    simp only [rcells, ha]
    congr 1
    exact List.map_congr_left hr
  | other v => rfl
  | err => rfl

/-! ### building blocks -/

/-- the current heap is a framed extension of the heap the operation started from -/
def Good (base : Nat) (h0 h : Heap) : Prop := Frame base h0 h ∧ base ≤ h.length

/-- an action from `h` that produced a slice in an array of its own -/
structure Ok (base : Nat) (h0 h : Heap) (q : Heap × Slice) : Prop where
  good : Good base h0 q.1
  ge : base ≤ q.2.arr
  lt : q.2.arr < q.1.length
  mono : h.length ≤ q.1.length

theorem Good.start (h : Heap) : Good h.length h h := ⟨Frame.refl _ _, Nat.le_refl _⟩

theorem ok_mkSlice {base : Nat} {h0 h : Heap} (g : Good base h0 h) (z : Cell) (n sp : Nat) : Ok base h0 h (mkSlice h z n sp) :=
  ⟨⟨g.1.trans (frame_mkSlice base h z n sp g.2), by have := g.2; simp; omega⟩, g.2, by simp, by simp⟩

theorem ok_allocWith {base : Nat} {h0 h : Heap} (g : Good base h0 h) (orc : Oracle) (cs : List Cell) :
    Ok base h0 h (allocWith orc h cs) :=
  ⟨⟨g.1.trans (frame_allocWith base orc h cs g.2), by have := g.2; simp; omega⟩, g.2, by simp, by simp⟩

theorem append_len_mono (orc : Oracle) (z : Cell) (h : Heap) (s : Slice) (vs : List Cell) :
    h.length ≤ (append orc z h s vs).1.length := by
  unfold append; split <;> simp

theorem ok_append {base : Nat} {h0 h : Heap} (g : Good base h0 h) (orc : Oracle) (z : Cell) (s : Slice) (vs : List Cell)
    (hs : base ≤ s.arr) (hl : s.arr < h.length) : Ok base h0 h (append orc z h s vs) :=
  have a := frame_append base orc z h s vs g.2 hs hl
  ⟨⟨g.1.trans a.1, Nat.le_trans g.2 (append_len_mono orc z h s vs)⟩, a.2.1, a.2.2, append_len_mono orc z h s vs⟩

theorem Ok.append {base : Nat} {h0 h : Heap} {q : Heap × Slice} (o : Ok base h0 h q) (orc : Oracle) (z : Cell)
    (vs : List Cell) : Ok base h0 h (Arrai.C03.append orc z q.1 q.2 vs) :=
  have a := ok_append o.good orc z q.2 vs o.ge o.lt
  ⟨a.good, a.ge, a.lt, Nat.le_trans o.mono a.mono⟩

theorem Ok.store {base : Nat} {h0 h : Heap} {q : Heap × Slice} (o : Ok base h0 h q) (i : Nat) (vs : List Cell) :
    Ok base h0 h (Arrai.C03.store q.1 q.2 i vs, q.2) :=
  ⟨⟨o.good.1.trans (frame_store base q.1 q.2 i vs o.ge), by simpa using o.good.2⟩, o.ge, by simpa using o.lt,
   by simpa using o.mono⟩

theorem Ok.copy {base : Nat} {h0 h : Heap} {q : Heap × Slice} (o : Ok base h0 h q) (vs : List Cell) :
    Ok base h0 h (Arrai.C03.copy q.1 q.2 vs, q.2) := o.store 0 _

theorem Ok.appendEach {base : Nat} {h0 h : Heap} (orc : Oracle) (cs : List Cell) {q : Heap × Slice} (o : Ok base h0 h q) :
    Ok base h0 h (Impl.appendEach orc q cs) := by
  unfold Impl.appendEach
  induction cs generalizing q with
  | nil => exact o
  | cons c r ih => exact ih (o.append orc none [c])

theorem Ok.foldStore {base : Nat} {h0 h : Heap} {α : Type} (t : Slice) (g : α → Nat) (w : α → List Cell) (xs : List α)
    {hh : Heap} (o : Ok base h0 h (hh, t)) :
    Ok base h0 h (xs.foldl (fun a x => Arrai.C03.store a t (g x) (w x)) hh, t) := by
  induction xs generalizing hh with
  | nil => exact o
  | cons x r ih => exact ih (o.store (g x) (w x))

theorem ok_allocNames {base : Nat} {h0 h : Heap} (g : Good base h0 h) (orc : Oracle) (cap : Nat) (names : List Nat) :
    Ok base h0 h (Impl.allocNames orc h cap names) :=
  Ok.appendEach orc _ (ok_mkSlice g none 0 cap)

/-- `projectedValues.values()` as it is: every branch hands back a slice made in the call -/
theorem ok_projValues {base : Nat} {h0 h : Heap} (g : Good base h0 h) (orc : Oracle) (row : Slice) (p : List Nat) :
    Ok base h0 h (Impl.projValues Impl.repaired orc h row p) := by
  unfold Impl.projValues
  simp only [Impl.repaired, Bool.not_true, Bool.false_and]
  split
  · exact ok_mkSlice g none 0 0
  · simp only [Bool.false_eq_true, if_false]
    split
    · exact (ok_mkSlice g none _ 0).copy _
    · exact Ok.appendEach orc _ (ok_mkSlice g none 0 p.length)

/-- an accumulator of rows: all of them lie in the current heap -/
structure Acc (base : Nat) (h0 h : Heap) (p : Heap × List Slice) : Prop where
  good : Good base h0 p.1
  mono : h.length ≤ p.1.length
  live : ∀ s, s ∈ p.2 → s.arr < p.1.length

theorem Acc.start {base : Nat} {h0 h : Heap} (g : Good base h0 h) : Acc base h0 h (h, []) :=
  ⟨g, Nat.le_refl _, fun _ hs => by simp at hs⟩

theorem Acc.push {base : Nat} {h0 h : Heap} {p : Heap × List Slice} (a : Acc base h0 h p) {q : Heap × Slice}
    (o : Ok base h0 p.1 q) : Acc base h0 h (q.1, p.2 ++ [q.2]) :=
  ⟨o.good, Nat.le_trans a.mono o.mono, fun s hs => by
    rcases List.mem_append.1 hs with hs | hs
    · exact Nat.lt_of_lt_of_le (a.live s hs) o.mono
    · simp at hs; subst hs; exact o.lt⟩

theorem acc_keepEverything {base : Nat} {h0 h : Heap} (g : Good base h0 h) (orc : Oracle) (lrows rrows : List Slice)
    (lk rk lo ro : List Nat) : Acc base h0 h (Impl.keepEverything Impl.repaired orc h lrows rrows lk rk lo ro) := by
  unfold Impl.keepEverything
  have inner : ∀ (l : Slice) (rr : List Slice) (acc : Heap × List Slice), Acc base h0 h acc →
      Acc base h0 h (rr.foldl (fun acc r =>
        if Impl.keyOf acc.1 l lk = Impl.keyOf acc.1 r rk then
          let rv := Impl.projValues Impl.repaired orc acc.1 r ro
          let lv := Impl.projValues Impl.repaired orc rv.1 l lo
          let nr := append orc none lv.1 lv.2 (read lv.1 rv.2)
          (nr.1, acc.2 ++ [nr.2])
        else acc) acc) := by
    intro l rr
    induction rr with
    | nil => intro acc a; exact a
    | cons r rest ih =>
      intro acc a
      simp only [List.foldl_cons]
      apply ih
      split
      · have o1 := ok_projValues a.good orc r ro
        have o2 := ok_projValues o1.good orc l lo
        have o3 := o2.append orc none (read (Impl.projValues Impl.repaired orc (Impl.projValues Impl.repaired orc acc.1 r ro).1 l lo).1
          (Impl.projValues Impl.repaired orc acc.1 r ro).2)
        exact a.push ⟨o3.good, o3.ge, o3.lt, Nat.le_trans o1.mono o3.mono⟩
      · exact a
  have outer : ∀ (ll : List Slice) (acc : Heap × List Slice), Acc base h0 h acc →
      Acc base h0 h (ll.foldl (fun acc l => rrows.foldl (fun acc r =>
        if Impl.keyOf acc.1 l lk = Impl.keyOf acc.1 r rk then
          let rv := Impl.projValues Impl.repaired orc acc.1 r ro
          let lv := Impl.projValues Impl.repaired orc rv.1 l lo
          let nr := append orc none lv.1 lv.2 (read lv.1 rv.2)
          (nr.1, acc.2 ++ [nr.2])
        else acc) acc) acc) := by
    intro ll
    induction ll with
    | nil => intro acc a; exact a
    | cons l rest ih => intro acc a; exact ih _ (inner l rrows acc a)
  exact outer lrows _ (Acc.start g)

theorem acc_oneSide {base : Nat} {h0 h : Heap} (g : Good base h0 h) (orc : Oracle) (bs os : List Slice)
    (key okey out : List Nat) (hb : ∀ s, s ∈ bs → s.arr < h.length) :
    Acc base h0 h (Impl.oneSide Impl.repaired orc h bs os key okey out) := by
  unfold Impl.oneSide
  simp only []
  split
  · exact ⟨g, Nat.le_refl _, fun s hs => hb s (List.mem_filter.1 hs).1⟩
  · have : ∀ (l : List Slice) (acc : Heap × List Slice), Acc base h0 h acc →
        Acc base h0 h (l.foldl (fun acc b =>
          if os.any (fun o => Impl.keyOf acc.1 o okey = Impl.keyOf acc.1 b key) = true then
            let v := Impl.projValues Impl.repaired orc acc.1 b out
            (v.1, acc.2 ++ [v.2])
          else acc) acc) := by
      intro l
      induction l with
      | nil => intro acc a; exact a
      | cons b rest ih =>
        intro acc a
        simp only [List.foldl_cons]
        apply ih
        split
        · exact a.push (ok_projValues a.good orc b out)
        · exact a
    exact this bs _ (Acc.start g)

theorem acc_commonOnly {base : Nat} {h0 h : Heap} (g : Good base h0 h) (lrows rrows : List Slice)
    (lk rk lo ro : List Nat) : Acc base h0 h (Impl.commonOnly h lrows rrows lk rk lo ro) := by
  unfold Impl.commonOnly
  simp only []
  have : ∀ (l : List (List Cell)) (acc : Heap × List Slice), Acc base h0 h acc →
      Acc base h0 h (l.foldl (fun acc k =>
        let cs := (if lo.isEmpty = true then ro else lo).map
          (fun idx => k.getD (List.idxOf idx (if lo.isEmpty = true then rk else lk)) none)
        let q := mkSlice acc.1 none cs.length 0
        (copy q.1 q.2 cs, acc.2 ++ [q.2])) acc) := by
    intro l
    induction l with
    | nil => intro acc a; exact a
    | cons k rest ih =>
      intro acc a
      simp only [List.foldl_cons]
      apply ih
      exact a.push ((ok_mkSlice a.good none _ 0).copy _)
  exact this _ _ (Acc.start g)

/-- the rows of a join lie in the heap (when there are rows at all) -/
theorem acc_rowsJoin {base : Nat} {h0 h : Heap} (g : Good base h0 h) (orc : Oracle) (lrows rrows : List Slice)
    (lk rk lo ro : List Nat) (hl : ∀ s, s ∈ lrows → s.arr < h.length) (hr : ∀ s, s ∈ rrows → s.arr < h.length) :
    Acc base h0 h ((Impl.rowsJoin Impl.repaired orc h lrows rrows lk rk lo ro).1,
      ((Impl.rowsJoin Impl.repaired orc h lrows rrows lk rk lo ro).2.1).getD []) := by
  unfold Impl.rowsJoin
  split
  · exact acc_keepEverything g orc lrows rrows lk rk lo ro
  · exact acc_keepEverything g orc lrows rrows lk rk lo ro
  · exact acc_oneSide g orc lrows rrows lk rk lo hl
  · exact acc_oneSide g orc lrows rrows lk rk lo hl
  · exact acc_oneSide g orc rrows lrows rk lk ro hr
  · exact acc_oneSide g orc rrows lrows rk lk ro hr
  · exact acc_commonOnly g lrows rrows lk rk lo ro
  · exact Acc.start g

/-- what `Joiner` hands to `Relation.Join`: both name slices lie in the (possibly extended) heap -/
structure PartOk (base : Nat) (h0 h : Heap) (p : Heap × Impl.NS × Impl.NS) : Prop where
  good : Good base h0 p.1
  mono : h.length ≤ p.1.length
  l : p.2.1.s.arr < p.1.length
  r : p.2.2.s.arr < p.1.length

theorem partOk {base : Nat} {h0 h : Heap} (g : Good base h0 h) (o : JoinOp) (orc : Oracle) (l r : RRel)
    (ln rn common : List Nat) (hl : l.attrs.arr < h.length) (hr : r.attrs.arr < h.length) :
    PartOk base h0 h (Impl.partition o orc h l r ln rn common) := by
  have e := fun {hh : Heap} (gg : Good base h0 hh) => ok_mkSlice gg none 0 0
  have m := fun {hh : Heap} (gg : Good base h0 hh) (a b : List Nat) => ok_allocNames gg orc a.length (Impl.minusN a b)
  unfold Impl.partition
  simp only []
  cases o with
  | join =>
    simp only []
    split
    · exact ⟨(e g).good, (e g).mono, (e g).lt, Nat.lt_of_lt_of_le hr (e g).mono⟩
    · split
      · exact ⟨(e g).good, (e g).mono, Nat.lt_of_lt_of_le hl (e g).mono, (e g).lt⟩
      · exact ⟨(m g rn ln).good, (m g rn ln).mono, Nat.lt_of_lt_of_le hl (m g rn ln).mono, (m g rn ln).lt⟩
  | compose =>
    have a := m g ln common
    have b := m a.good rn common
    exact ⟨b.good, Nat.le_trans a.mono b.mono, Nat.lt_of_lt_of_le a.lt b.mono, b.lt⟩
  | common =>
    have a := ok_allocNames g orc common.length common
    have b := e a.good
    exact ⟨b.good, Nat.le_trans a.mono b.mono, Nat.lt_of_lt_of_le a.lt b.mono, b.lt⟩
  | exists_ =>
    have a := e g
    have b := e a.good
    exact ⟨b.good, Nat.le_trans a.mono b.mono, Nat.lt_of_lt_of_le a.lt b.mono, b.lt⟩
  | rmatch => exact ⟨(e g).good, (e g).mono, (e g).lt, Nat.lt_of_lt_of_le hr (e g).mono⟩
  | lmatch => exact ⟨(e g).good, (e g).mono, Nat.lt_of_lt_of_le hl (e g).mono, (e g).lt⟩
  | rresidue =>
    have a := e g
    have b := m a.good rn common
    exact ⟨b.good, Nat.le_trans a.mono b.mono, Nat.lt_of_lt_of_le a.lt b.mono, b.lt⟩
  | lresidue =>
    have a := m g ln common
    have b := e a.good
    exact ⟨b.good, Nat.le_trans a.mono b.mono, Nat.lt_of_lt_of_le a.lt b.mono, b.lt⟩

theorem opOKR_same {h : Heap} {x : RVal} (l : LiveR h x) : OpOKR h (h, x) := ⟨Frame.refl _ _, l⟩

theorem liveR_rel {h : Heap} {r : RRel} (ha : r.attrs.arr < h.length) (hr : ∀ s, s ∈ r.rows → s.arr < h.length) :
    LiveR h (.rel r) := by
  intro s hs
  simp only [RVal.slices, List.mem_cons] at hs
  rcases hs with rfl | hs
  · exact ha
  · exact hr s hs

/-- `Relation.Join` as repaired -/
theorem opOKR_joinRel (orc : Oracle) (o : JoinOp) (h : Heap) (l r : RRel) (ll : LiveR h (.rel l)) (lr : LiveR h (.rel r)) :
    OpOKR h (Impl.joinRel Impl.repaired orc o h l r) := by
  have hla : l.attrs.arr < h.length := ll _ (by simp [RVal.slices])
  have hra : r.attrs.arr < h.length := lr _ (by simp [RVal.slices])
  have hlr : ∀ s, s ∈ l.rows → s.arr < h.length := fun s hs => ll _ (by simp [RVal.slices, hs])
  have hrr : ∀ s, s ∈ r.rows → s.arr < h.length := fun s hs => lr _ (by simp [RVal.slices, hs])
  unfold Impl.joinRel
  simp only []
  have pt := partOk (Good.start h) o orc l r (namesOf h l) (namesOf h r) (Impl.intersectN (namesOf h l) (namesOf h r)) hla hra
  generalize Impl.partition o orc h l r (namesOf h l) (namesOf h r) (Impl.intersectN (namesOf h l) (namesOf h r)) = P at pt
  have hlr' : ∀ s, s ∈ l.rows → s.arr < P.1.length := fun s hs => Nat.lt_of_lt_of_le (hlr s hs) pt.mono
  have hrr' : ∀ s, s ∈ r.rows → s.arr < P.1.length := fun s hs => Nat.lt_of_lt_of_le (hrr s hs) pt.mono
  have rj := acc_rowsJoin pt.good orc l.rows r.rows
    (Impl.compose l.p (Impl.indicesOf (namesOf h l) (Impl.intersectN (namesOf h l) (namesOf h r))))
    (Impl.compose r.p (Impl.indicesOf (namesOf h r) (Impl.intersectN (namesOf h l) (namesOf h r))))
    (Impl.compose l.p (Impl.indicesOf (namesOf h l) P.2.1.names))
    (Impl.compose r.p (Impl.indicesOf (namesOf h r) P.2.2.names)) hlr' hrr'
  generalize Impl.rowsJoin Impl.repaired orc P.1 l.rows r.rows _ _ _ _ = R at rj
  split
  · exact ⟨rj.good.1, liveR_other _ _⟩
  · rename_i rows hrows
    rw [hrows] at rj
    simp only [Option.getD_some] at rj
    split
    · exact ⟨rj.good.1, liveR_other _ _⟩
    · split
      · exact ⟨rj.good.1, liveR_other _ _⟩
      · simp only [Impl.repaired, if_true]
        have a0 := ok_mkSlice rj.good none 0 (P.2.1.names.length + P.2.2.names.length)
        have a1 := a0.append orc none (read (mkSlice R.1 none 0 (P.2.1.names.length + P.2.2.names.length)).1 P.2.1.s)
        have a2 := a1.append orc none (read (append orc none (mkSlice R.1 none 0 (P.2.1.names.length + P.2.2.names.length)).1
          (mkSlice R.1 none 0 (P.2.1.names.length + P.2.2.names.length)).2
          (read (mkSlice R.1 none 0 (P.2.1.names.length + P.2.2.names.length)).1 P.2.1.s)).1 P.2.2.s)
        refine ⟨a2.good.1, liveR_rel a2.lt (fun s hs => Nat.lt_of_lt_of_le (rj.live s hs) a2.mono)⟩

theorem opOKR_relOfV (orc : Oracle) (h : Heap) (v : V) : OpOKR h (Impl.relOfV orc h v) := by
  unfold Impl.relOfV
  split
  · exact opOKR_same (liveR_other h v)
  · rename_i ns _
    split
    · exact opOKR_same (liveR_other h v)
    · rename_i idx _
      split
      · exact opOKR_same (liveR_other h v)
      · simp only []
        have hd := ok_allocWith (Good.start h) orc (idx.map nameCell)
        have : ∀ (l : List V) (acc : Heap × List Slice), Acc h.length h (allocWith orc h (idx.map nameCell)).1 acc →
            Acc h.length h (allocWith orc h (idx.map nameCell)).1 (l.foldl (fun acc t =>
              let q := mkSlice acc.1 none ns.length 0
              (store q.1 q.2 0 (ns.map (fun n => tget t n)), acc.2 ++ [q.2])) acc) := by
          intro l
          induction l with
          | nil => intro acc a; exact a
          | cons t rest ih =>
            intro acc a
            simp only [List.foldl_cons]
            apply ih
            exact a.push ((ok_mkSlice a.good none ns.length 0).store 0 _)
        have a := this (members v) _ (Acc.start hd.good)
        exact ⟨a.good.1, liveR_rel (Nat.lt_of_lt_of_le hd.lt a.mono) a.live⟩

theorem opOKR_litRel (orc : Oracle) (h : Heap) (names : List Nat) (rows : List (List V)) :
    OpOKR h (Impl.litRel orc h names rows) := by
  unfold Impl.litRel
  split
  · exact opOKR_same (liveR_other h _)
  · simp only []
    have hd := ok_allocWith (Good.start h) orc (names.map nameCell)
    have : ∀ (l : List (List V)) (acc : Heap × List Slice), Acc h.length h (allocWith orc h (names.map nameCell)).1 acc →
        Acc h.length h (allocWith orc h (names.map nameCell)).1 (l.foldl (fun acc r =>
          let q := mkSlice acc.1 none names.length 0
          (store q.1 q.2 0 (r.map some), acc.2 ++ [q.2])) acc) := by
      intro l
      induction l with
      | nil => intro acc a; exact a
      | cons t rest ih =>
        intro acc a
        simp only [List.foldl_cons]
        apply ih
        exact a.push ((ok_mkSlice a.good none names.length 0).store 0 _)
    have a := this rows _ (Acc.start hd.good)
    exact ⟨a.good.1, liveR_rel (Nat.lt_of_lt_of_le hd.lt a.mono) a.live⟩

theorem opOKR_viaBuilder (orc : Oracle) (h : Heap) (o : Option V) : OpOKR h (Impl.viaBuilder orc h o) := by
  cases o with
  | none => exact opOKR_same (liveR_err h)
  | some v => exact opOKR_relOfV orc h v

theorem ok_tupleToValues {base : Nat} {h0 h : Heap} (g : Good base h0 h) (r : RRel) (t : List (Nat × V)) :
    Ok base h0 h (Impl.tupleToValues h r t) := by
  unfold Impl.tupleToValues
  simp only []
  exact Ok.foldStore _ (fun np : Nat × Nat => np.2) (fun np => [(t.find? (·.1 = np.1)).map (·.2)]) _
    (ok_mkSlice g none _ 0)

theorem opOKR_withR (h : Heap) (x : RVal) (t : List (Nat × V)) (l : LiveR h x) : OpOKR h (Impl.withR h x t) := by
  unfold Impl.withR
  cases x with
  | rel r =>
    simp only []
    have v := ok_tupleToValues (Good.start h) r t
    split
    · split
      · exact ⟨v.good.1, l.mono v.mono⟩
      · refine ⟨v.good.1, liveR_rel (Nat.lt_of_lt_of_le (l _ (by simp [RVal.slices])) v.mono) ?_⟩
        intro s hs
        rcases List.mem_append.1 hs with hs | hs
        · exact Nat.lt_of_lt_of_le (l _ (by simp [RVal.slices, hs])) v.mono
        · simp at hs; subst hs; exact v.lt
    · exact opOKR_same (liveR_other h _)
  | other v =>
    simp only []
    split
    · exact opOKR_same (liveR_other h _)
    · exact opOKR_same (liveR_err h)
  | err => exact opOKR_same (liveR_err h)

theorem opOKR_withoutR (h : Heap) (x : RVal) (t : List (Nat × V)) (l : LiveR h x) : OpOKR h (Impl.withoutR h x t) := by
  unfold Impl.withoutR
  cases x with
  | rel r =>
    simp only []
    have v := ok_tupleToValues (Good.start h) r t
    split
    · split
      · exact ⟨v.good.1, liveR_other _ _⟩
      · refine ⟨v.good.1, liveR_rel (Nat.lt_of_lt_of_le (l _ (by simp [RVal.slices])) v.mono) ?_⟩
        intro s hs
        exact Nat.lt_of_lt_of_le (l _ (by simp [RVal.slices, (List.mem_filter.1 hs).1])) v.mono
    · exact opOKR_same l
  | other v =>
    simp only []
    split
    · exact opOKR_same (liveR_other h _)
    · exact opOKR_same (liveR_err h)
  | err => exact opOKR_same (liveR_err h)

theorem liveR_whereR (h : Heap) (x : RVal) (n : Nat) (lt : Bool) (k : Int) (l : LiveR h x) :
    LiveR h (Impl.whereR h x n lt k) := by
  unfold Impl.whereR
  cases x with
  | rel r =>
    simp only []
    split
    · exact liveR_err h
    · split
      · exact liveR_other h _
      · refine liveR_rel (l _ (by simp [RVal.slices])) ?_
        intro s hs
        exact l _ (by simp [RVal.slices, (List.mem_filter.1 hs).1])
  | other v =>
    simp only []
    split
    · exact liveR_other h _
    · exact liveR_err h
  | err => exact liveR_err h

theorem OpOKR.trans {h : Heap} {p q : Heap × RVal} (a : OpOKR h p) (b : OpOKR p.1 q) : OpOKR h q := by
  refine ⟨⟨Nat.le_trans a.1.1 b.1.1, fun i hi => ?_⟩, b.2⟩
  rw [b.1.2 i (Nat.lt_of_lt_of_le hi a.1.1), a.1.2 i hi]

theorem opOKR_unionR (orc : Oracle) (h : Heap) (a b : RVal) (la : LiveR h a) (lb : LiveR h b) :
    OpOKR h (Impl.unionR orc h a b) := by
  unfold Impl.unionR
  split
  · exact opOKR_same (liveR_err h)
  · exact opOKR_same (liveR_err h)
  · rename_i ra rb
    simp only []
    split
    · have : ∀ (l : List Slice) (acc : Heap × RVal), OpOKR h acc →
          OpOKR h (l.foldl (fun acc s => Impl.withR acc.1 acc.2
            (((namesOf h rb).zip rb.p).map (fun np => (np.1, ((read acc.1 s).getD np.2 none).getD (V.num 0))))) acc) := by
        intro l
        induction l with
        | nil => intro acc a; exact a
        | cons s rest ih => intro acc a; exact ih _ (a.trans (opOKR_withR acc.1 acc.2 _ a.2))
      exact this rb.rows _ (opOKR_same la)
    · exact opOKR_viaBuilder _ _ _
  · split
    · exact opOKR_same lb
    · split
      · exact opOKR_same la
      · exact opOKR_viaBuilder _ _ _

/-! ### one step -/

def InvR (st : Impl.St) : Prop := ∀ x, x ∈ st.vals → LiveR st.h x

theorem InvR.getD {st : Impl.St} (inv : InvR st) (i : Nat) : LiveR st.h (st.vals.getD i .err) := by
  unfold List.getD
  cases e : st.vals[i]? with
  | none => exact liveR_err _
  | some x => exact inv x (List.mem_of_getElem? e)

theorem invR_init : InvR Impl.init := by intro x hx; simp [Impl.init] at hx

theorem opOKR_run1 (orc : Oracle) (st : Impl.St) (inv : InvR st) (op : ROp) :
    OpOKR st.h (Impl.run1 Impl.repaired orc st op) := by
  cases op with
  | lit names rows => exact opOKR_litRel _ _ _ _
  | join o i j =>
    simp only [Impl.run1]
    have li := inv.getD i
    have lj := inv.getD j
    split
    · exact opOKR_same (liveR_err _)
    · exact opOKR_same (liveR_err _)
    · rename_i l r hl hr
      rw [hl] at li; rw [hr] at lj
      exact opOKR_joinRel orc o st.h l r li lj
    · exact opOKR_viaBuilder _ _ _
  | with_ i t => exact opOKR_withR st.h _ t (inv.getD i)
  | without i t => exact opOKR_withoutR st.h _ t (inv.getD i)
  | where_ i n lt k => exact opOKR_same (liveR_whereR st.h _ n lt k (inv.getD i))
  | union i j => exact opOKR_unionR orc st.h _ _ (inv.getD i) (inv.getD j)
  | derived d i =>
    simp only [Impl.run1]
    split
    · exact opOKR_same (liveR_err _)
    · exact opOKR_viaBuilder _ _ _

end Arrai.C03.Rel
