/-
  C03 — the heap of Go backing arrays.

  A Go slice is a window `{arr, lo, len, cap}` onto a backing array; several slices may look at
  the same array.  `append` writes IN PLACE when `len < cap` and otherwise copies to a fresh
  array whose capacity the runtime chooses (here: an ORACLE, so that nothing proved depends on
  Go's growth policy).  Re-slicing `s[i:j]`, `copy`, `make` and indexed stores complete the
  vocabulary in which rel/value_set_{str,bytes,array}.go manipulate the payload of strings,
  byte arrays and arrays.

  Cells hold `Option V`: a rune/byte/item is `some v`; a hole (rune -1 in a String, `nil` in an
  Array) is `none`.  Core-only.
-/
import Arrai.Core.Canon

namespace Arrai.C03

abbrev Cell := Option V
abbrev Heap := List (List Cell)

structure Slice where
  arr : Nat
  lo : Nat
  len : Nat
  cap : Nat
  deriving DecidableEq, Inhabited, Repr

/-- spare capacity the runtime adds to allocation number `n` (= number of arrays allocated so far) -/
abbrev Oracle := Nat → Nat

/-- the elements seen through a slice -/
def read (h : Heap) (s : Slice) : List Cell := ((h.getD s.arr []).drop s.lo).take s.len

/-- overwrite `xs[k], xs[k+1], …` with `vs` (never changes the length: an array cannot grow) -/
def overwrite : List Cell → Nat → List Cell → List Cell
  | [], _, _ => []
  | x :: xs, 0, [] => x :: xs
  | _ :: xs, 0, v :: vs => v :: overwrite xs 0 vs
  | x :: xs, k + 1, vs => x :: overwrite xs k vs

def updArr : Heap → Nat → (List Cell → List Cell) → Heap
  | [], _, _ => []
  | x :: r, 0, f => f x :: r
  | x :: r, a + 1, f => x :: updArr r a f

/-- `s[i], s[i+1], … = vs…` : the only primitive that writes -/
def store (h : Heap) (s : Slice) (i : Nat) (vs : List Cell) : Heap :=
  updArr h s.arr (fun a => overwrite a (s.lo + i) vs)

/-- `make([]T, n, n + spare)` -/
def mkSlice (h : Heap) (zero : Cell) (n spare : Nat) : Heap × Slice :=
  (h ++ [List.replicate (n + spare) zero], { arr := h.length, lo := 0, len := n, cap := n + spare })

/-- `s[i:j]` -/
def reslice (s : Slice) (i j : Nat) : Slice :=
  { arr := s.arr, lo := s.lo + i, len := j - i, cap := s.cap - i }

/-- Go's `append(s, vs...)` -/
def append (orc : Oracle) (zero : Cell) (h : Heap) (s : Slice) (vs : List Cell) : Heap × Slice :=
  if s.len + vs.length ≤ s.cap then
    (store h s s.len vs, { s with len := s.len + vs.length })
  else
    let p := mkSlice h zero (s.len + vs.length) (orc h.length)
    (store p.1 p.2 0 (read h s ++ vs), p.2)

/-- Go's `copy(dst, src)` (`src` already read) -/
def copy (h : Heap) (dst : Slice) (src : List Cell) : Heap := store h dst 0 (src.take dst.len)

/-- a slice conversion / literal: a fresh array holding `cells` plus the oracle's spare room -/
def allocWith (orc : Oracle) (h : Heap) (cells : List Cell) : Heap × Slice :=
  (h ++ [cells ++ List.replicate (orc h.length) none],
   { arr := h.length, lo := 0, len := cells.length, cap := cells.length + orc h.length })

/-! ## frame: which arrays an action may have written -/

/-- `h'` extends `h` and every array with index below `base` is untouched -/
def Frame (base : Nat) (h h' : Heap) : Prop :=
  h.length ≤ h'.length ∧ ∀ a, a < base → h'.getD a [] = h.getD a []

theorem Frame.refl (base : Nat) (h : Heap) : Frame base h h := ⟨Nat.le_refl _, fun _ _ => rfl⟩

theorem Frame.trans {base : Nat} {h₁ h₂ h₃ : Heap} (a : Frame base h₁ h₂) (b : Frame base h₂ h₃) :
    Frame base h₁ h₃ :=
  ⟨Nat.le_trans a.1 b.1, fun i hi => (b.2 i hi).trans (a.2 i hi)⟩

theorem length_updArr (h : Heap) (a : Nat) (f : List Cell → List Cell) : (updArr h a f).length = h.length := by
  induction h generalizing a with
  | nil => rfl
  | cons x r ih => cases a <;> simp [updArr, ih]

theorem getD_updArr_ne (h : Heap) (a b : Nat) (f : List Cell → List Cell) (hne : b ≠ a) :
    (updArr h a f).getD b [] = h.getD b [] := by
  induction h generalizing a b with
  | nil => rfl
  | cons x r ih =>
    cases a with
    | zero =>
      cases b with
      | zero => exact absurd rfl hne
      | succ b => simp [updArr]
    | succ a =>
      cases b with
      | zero => simp [updArr]
      | succ b =>
        have : b ≠ a := fun e => hne (by omega)
        simpa [updArr] using ih a b this

theorem frame_store (base : Nat) (h : Heap) (s : Slice) (i : Nat) (vs : List Cell) (hs : base ≤ s.arr) :
    Frame base h (store h s i vs) :=
  ⟨by simp [store, length_updArr], fun a ha => getD_updArr_ne h s.arr a _ (by omega)⟩

theorem getD_append_lt (h : Heap) (x : List Cell) (a : Nat) (ha : a < h.length) :
    (h ++ [x]).getD a [] = h.getD a [] := by
  simp [List.getD, List.getElem?_append_left ha]

theorem frame_snoc (base : Nat) (h : Heap) (x : List Cell) (hb : base ≤ h.length) : Frame base h (h ++ [x]) :=
  ⟨by simp, fun a ha => getD_append_lt h x a (by omega)⟩

theorem frame_mkSlice (base : Nat) (h : Heap) (z : Cell) (n sp : Nat) (hb : base ≤ h.length) :
    Frame base h (mkSlice h z n sp).1 := frame_snoc base h _ hb

theorem frame_allocWith (base : Nat) (orc : Oracle) (h : Heap) (cs : List Cell) (hb : base ≤ h.length) :
    Frame base h (allocWith orc h cs).1 := frame_snoc base h _ hb

@[simp] theorem mkSlice_arr (h : Heap) (z : Cell) (n sp : Nat) : (mkSlice h z n sp).2.arr = h.length := rfl
@[simp] theorem mkSlice_len (h : Heap) (z : Cell) (n sp : Nat) : (mkSlice h z n sp).1.length = h.length + 1 := by
  simp [mkSlice]
@[simp] theorem allocWith_arr (orc : Oracle) (h : Heap) (cs : List Cell) : (allocWith orc h cs).2.arr = h.length := rfl
@[simp] theorem allocWith_len (orc : Oracle) (h : Heap) (cs : List Cell) :
    (allocWith orc h cs).1.length = h.length + 1 := by simp [allocWith]
@[simp] theorem store_len (h : Heap) (s : Slice) (i : Nat) (vs : List Cell) : (store h s i vs).length = h.length := by
  simp [store, length_updArr]
@[simp] theorem copy_len (h : Heap) (s : Slice) (vs : List Cell) : (copy h s vs).length = h.length := by
  simp [copy]
@[simp] theorem reslice_arr (s : Slice) (i j : Nat) : (reslice s i j).arr = s.arr := rfl

theorem frame_copy (base : Nat) (h : Heap) (s : Slice) (vs : List Cell) (hs : base ≤ s.arr) :
    Frame base h (copy h s vs) := frame_store base h s 0 _ hs

/-- `append` to a slice that lives in an array allocated at or after `base` leaves everything below `base` alone;
the result again lives at or after `base`, inside the new heap -/
theorem frame_append (base : Nat) (orc : Oracle) (z : Cell) (h : Heap) (s : Slice) (vs : List Cell)
    (hb : base ≤ h.length) (hs : base ≤ s.arr) (hl : s.arr < h.length) :
    Frame base h (append orc z h s vs).1 ∧ base ≤ (append orc z h s vs).2.arr ∧
      (append orc z h s vs).2.arr < (append orc z h s vs).1.length := by
  unfold append
  split
  · exact ⟨frame_store base h s _ vs hs, hs, by simpa using hl⟩
  · refine ⟨(frame_mkSlice base h z _ _ hb).trans (frame_store base _ _ _ _ (by simpa using hb)), by simpa using hb, ?_⟩
    simp

/-- reading through a slice whose array is below `base` is unaffected by a framed action -/
theorem read_frame {base : Nat} {h h' : Heap} (f : Frame base h h') (s : Slice) (hs : s.arr < base) :
    read h' s = read h s := by
  unfold read
  rw [f.2 s.arr hs]

end Arrai.C03
