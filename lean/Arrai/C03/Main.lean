import Arrai.Core.DriverMain
import Arrai.C03.Gen

def main (args : List String) : IO UInt32 := Arrai.driverMain Arrai.C03.gen args
