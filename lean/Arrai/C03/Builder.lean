/-
  C03 — the set builder is faithful: `asString` / `asBytes` / `asArray` (Impl.asSeq) and `SetBuilder.Finish`
  (Impl.finishV) yield a value that DENOTES the set of tuples handed in — provided no two tuples sit at the same
  index with different values (the "superimposed" case the representation cannot hold) and, for byte arrays, there is
  no gap (asBytes fills gaps with 0).
-/
import Arrai.C03.Refine

namespace Arrai.C03
open Impl

theorem getElem?_set_one (cs : List Cell) (i : Nat) (x : Cell) (j : Nat) (hi : i < cs.length) :
    (cs.take i ++ [x] ++ cs.drop (i + 1))[j]? = if j = i then some x else cs[j]? := by
  by_cases hji : j < i
  · rw [List.append_assoc, List.getElem?_append_left (by simp; omega), List.getElem?_take, if_pos hji, if_neg (by omega)]
  · by_cases e : j = i
    · subst e
      rw [List.append_assoc, List.getElem?_append_right (by simp; omega), if_pos rfl]
      simp [Nat.min_eq_left (Nat.le_of_lt hi)]
    · rw [if_neg e, List.getElem?_append_right (by simp; omega), List.getElem?_drop]
      congr 1; simp; omega

/-- a loop of single-cell stores into one well-formed slice: cell `j` ends up holding the value of the entry that targets
`j` (entries targeting the same cell agree), or what it held before -/
theorem read_foldStore {α : Type} (t : Slice) (g : α → Nat) (val : α → V) :
    ∀ (ps : List α) (h1 : Heap), t.WF h1 → (∀ a, a ∈ ps → g a < t.len) →
      (∀ a b, a ∈ ps → b ∈ ps → g a = g b → val a = val b) → ∀ j,
      (read (ps.foldl (fun hh a => store hh t (g a) [some (val a)]) h1) t)[j]? =
        match ps.find? (fun a => decide (g a = j)) with
        | some a => some (some (val a))
        | none => (read h1 t)[j]?
  | [], h1, _, _, _, j => by simp
  | a :: r, h1, w, hb, hf, j => by
    have w' : t.WF (store h1 t (g a) [some (val a)]) := w.shape (shape_store _ _ _ _)
    have ih := read_foldStore t g val r (store h1 t (g a) [some (val a)]) w'
      (fun b hb' => hb b (List.mem_cons_of_mem _ hb'))
      (fun b c hb' hc' => hf b c (List.mem_cons_of_mem _ hb') (List.mem_cons_of_mem _ hc')) j
    have hga : g a < t.len := hb a (by simp)
    have hl := read_length w
    have hr : (read (store h1 t (g a) [some (val a)]) t)[j]? = if j = g a then some (some (val a)) else (read h1 t)[j]? := by
      rw [read_store_self h1 t (g a) [some (val a)] w (by simp; omega)]
      exact getElem?_set_one (read h1 t) (g a) (some (val a)) j (by omega)
    simp only [List.foldl_cons]
    rw [ih, hr]
    by_cases e : g a = j
    · simp only [List.find?_cons, e, decide_true]
      cases hfind : r.find? (fun a => decide (g a = j)) with
      | none => simp
      | some b =>
        have hbm := List.mem_of_find?_eq_some hfind
        have hgb : g b = j := by simpa using List.find?_some hfind
        simp only []
        rw [hf a b (by simp) (List.mem_cons_of_mem _ hbm) (by omega)]
    · have e' : ¬ j = g a := fun x => e x.symm
      simp only [List.find?_cons, e, decide_false]
      cases hfind : r.find? (fun a => decide (g a = j)) with
      | none => simp [e']
      | some b => rfl

theorem minIdx_le : ∀ (ps : List (Int × V)) (p : Int × V), p ∈ ps → minIdx ps ≤ p.1
  | [], p, hp => by simp at hp
  | [(i, _)], p, hp => by simp at hp; subst hp; simp [minIdx]
  | (i, x) :: q :: r, p, hp => by
    have ih := minIdx_le (q :: r)
    simp only [minIdx]
    rcases List.mem_cons.1 hp with rfl | hp
    · exact Int.min_le_left _ _
    · exact Int.le_trans (Int.min_le_right _ _) (ih p hp)

theorem le_maxIdx : ∀ (ps : List (Int × V)) (p : Int × V), p ∈ ps → p.1 ≤ maxIdx ps
  | [], p, hp => by simp at hp
  | [(i, _)], p, hp => by simp at hp; subst hp; simp [maxIdx]
  | (i, x) :: q :: r, p, hp => by
    have ih := le_maxIdx (q :: r)
    simp only [maxIdx]
    rcases List.mem_cons.1 hp with rfl | hp
    · exact Int.le_max_left _ _
    · exact Int.le_trans (ih p hp) (Int.le_max_right _ _)

/-- no two entries at one index with different values -/
def Functional (ps : List (Int × V)) : Prop := ∀ a b, a ∈ ps → b ∈ ps → a.1 = b.1 → a.2 = b.2

/-- every index between the smallest and the largest is taken -/
def Gapless (ps : List (Int × V)) : Prop := ∀ i : Int, minIdx ps ≤ i → i ≤ maxIdx ps → ∃ p, p ∈ ps ∧ p.1 = i

/-- `asString` / `asArray` / `asBytes` denote the tuples they were given -/
theorem asSeq_faithful (k : Kind) (h : Heap) (ps : List (Int × V)) (hne : ps ≠ []) (hf : Functional ps)
    (hb : k = .B → Gapless ps) :
    snap (asSeq k h ps).1 (asSeq k h ps).2 = V.mkSet (ps.map (fun p => tup k p.1 p.2)) := by
  cases ps with
  | nil => exact absurd rfl hne
  | cons p0 r0 =>
    have hmem0 : p0 ∈ p0 :: r0 := by simp
    unfold asSeq
    simp only [snap]
    generalize p0 :: r0 = ps at *
    have hq := wf_mkSlice h k.fill ((maxIdx ps - minIdx ps + 1).toNat) 0
    have hcells := read_foldStore (mkSlice h k.fill ((maxIdx ps - minIdx ps + 1).toNat) 0).2
      (fun iv : Int × V => (iv.1 - minIdx ps).toNat) (fun iv => iv.2) ps _ hq
      (fun a ha => by
        have h1 := minIdx_le ps a ha; have h2 := le_maxIdx ps a ha
        simp only [mkSlice]; omega)
      (fun a b ha hb' e => hf a b ha hb' (by
        have h1 := minIdx_le ps a ha; have h2 := minIdx_le ps b hb'
        omega))
    unfold V.mkSeq
    apply mkSet_congr
    intro x
    rw [mem_seqMembers, List.mem_map]
    constructor
    · rintro ⟨j, v, hj, rfl⟩
      rw [hcells j] at hj
      cases hfind : ps.find? (fun a => decide ((a.1 - minIdx ps).toNat = j)) with
      | some a =>
        rw [hfind] at hj
        simp at hj
        have ham := List.mem_of_find?_eq_some hfind
        have hga : (a.1 - minIdx ps).toNat = j := by simpa using List.find?_some hfind
        have h1 := minIdx_le ps a ham
        exact ⟨a, ham, by rw [← hj]; congr 1; omega⟩
      | none =>
        rw [hfind] at hj
        simp only [] at hj
        rw [read_mkSlice_self] at hj
        have hjn := pos_of_getElem? hj
        simp only [List.length_replicate] at hjn
        rw [List.getElem?_replicate, if_pos hjn] at hj
        cases k with
        | S => simp [Kind.fill] at hj
        | A => simp [Kind.fill] at hj
        | B =>
          exfalso
          obtain ⟨p, hp, hpi⟩ := hb rfl (minIdx ps + j) (by omega) (by
            have := minIdx_le ps p0 hmem0; have := le_maxIdx ps p0 hmem0; omega)
          have := List.find?_eq_none.1 hfind p hp
          simp at this
          omega
    · rintro ⟨a, ham, rfl⟩
      have h1 := minIdx_le ps a ham
      have h2 := le_maxIdx ps a ham
      refine ⟨(a.1 - minIdx ps).toNat, a.2, ?_, by congr 1; omega⟩
      rw [hcells]
      cases hfind : ps.find? (fun b => decide ((b.1 - minIdx ps).toNat = (a.1 - minIdx ps).toNat)) with
      | some b =>
        have hbm := List.mem_of_find?_eq_some hfind
        have hgb : (b.1 - minIdx ps).toNat = (a.1 - minIdx ps).toNat := by simpa using List.find?_some hfind
        have h3 := minIdx_le ps b hbm
        simp only []
        rw [hf b a hbm ham (by omega)]
      | none =>
        have := List.find?_eq_none.1 hfind a ham
        simp at this

/-! ### decoding -/

theorem kindOfAttr_some {n : String} {k : Kind} (h : kindOfAttr n = some k) : n = k.attr := by
  unfold kindOfAttr at h
  split at h
  · simp at h; subst h; assumption
  · split at h
    · simp at h; subst h; assumption
    · split at h
      · simp at h; subst h; assumption
      · simp at h

theorem decodeTuple_some {t : V} {k : Kind} {i : Int} {x : V} (h : decodeTuple t = some (k, i, x)) : t = tup k i x := by
  unfold decodeTuple at h
  split at h
  · rename_i i' n x'
    simp only [Option.map_eq_some_iff] at h
    obtain ⟨k', hk, e⟩ := h
    simp at e
    obtain ⟨rfl, rfl, rfl⟩ := e
    rw [kindOfAttr_some hk]; rfl
  · simp at h

theorem decodeAll_spec (k : Kind) : ∀ (ms : List V) (ps : List (Int × V)), decodeAll k ms = some ps →
    ms = ps.map (fun p => tup k p.1 p.2)
  | [], ps, h => by simp [decodeAll] at h; subst h; rfl
  | t :: r, ps, h => by
    simp only [decodeAll] at h
    split at h
    · rename_i k' i x ps' ht hr
      split at h
      · rename_i hc
        simp at h; subst h
        obtain ⟨rfl, _⟩ := hc
        simp [decodeTuple_some ht, decodeAll_spec k' r ps' hr]
      · simp at h
    · simp at h

theorem decodeSeq_spec {v : V} {k : Kind} {ps : List (Int × V)} (h : decodeSeq v = some (k, ps)) :
    members v = ps.map (fun p => tup k p.1 p.2) ∧ ps ≠ [] := by
  unfold decodeSeq at h
  split at h
  · simp at h
  · rename_i t r hm
    split at h
    · rename_i k' _ _ ht
      simp only [Option.map_eq_some_iff] at h
      obtain ⟨ps', hd, e⟩ := h
      simp at e
      obtain ⟨rfl, rfl⟩ := e
      have := decodeAll_spec k' (t :: r) ps' hd
      rw [hm]
      refine ⟨this, ?_⟩
      intro e; subst e; simp at this
    · simp at h

/-- `SetBuilder.Finish` denotes the set it was given (canonical `v`, no two members at one index with different values,
byte tuples without gaps) -/
theorem finishV_faithful (h : Heap) (v : V) (l : List V) (hv : v = V.mkSet l)
    (hf : ∀ k ps, decodeSeq v = some (k, ps) → Functional ps ∧ (k = .B → Gapless ps)) :
    snap (finishV h v).1 (finishV h v).2 = v := by
  unfold finishV
  split
  · rename_i k ps hd
    obtain ⟨hm, hne⟩ := decodeSeq_spec hd
    rw [asSeq_faithful k h ps hne (hf k ps hd).1 (hf k ps hd).2, ← hm, hv]
    apply mkSet_congr
    intro x
    exact mem_members_mkSet l x
  · rfl

end Arrai.C03
