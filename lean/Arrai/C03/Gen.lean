/-
  C03 case generator: branching histories `vK := op(vI [, vJ])` over 1–3 root values.
  Cases:
    hist       the harness runs the history step by step (rel API / scoped evaluation) AND as one
               nested-let program, re-reads every earlier value after every step; spec = "stable;prog=ok;"
               + the canon of every value by the `V`-level semantics (`Spec.step`); model = the same read
               through the heap model (`Impl.step`, repaired), which is stepped alongside the
               specification while generating and also tells the generator what Go's representation
               looks like (trailing hole cells, slice-backed or not).
    histshare  (every 4th history) informational: do two live values share a backing array with spare
               capacity?  (model says "noshare", spec accepts anything: counted as drift only)
  thorough adds every history of length <= 4 over {with at end, without at end, with at front} on a
  string, a byte array and an array, with every choice of operand (`exhaustive`).
  `loose` histories contain steps whose RESULT is known to be computed wrongly for reasons that
  belong to other properties (Bytes.Without truncation, bytes with holes, String.with's generic-set
  fall-back): those values and everything derived from them are TAINTED — printed as "_" by both
  sides — but still watched for stability like every other value.
-/
import Arrai.C03.Model
import Arrai.C03.GenRel
import Arrai.Core.Lit

namespace Arrai.C03

/-! ## source text -/

mutual
def vSrc : V → String
  | .num n => Lit.numSrc n
  | .tup as => "(" ++ ", ".intercalate (attrsSrc as) ++ ")"
  | .set xs => "{" ++ ", ".intercalate (listSrc xs) ++ "}"
def attrsSrc : List (String × V) → List String
  | [] => []
  | (n, v) :: r => (Lit.nameSrc n ++ ": " ++ vSrc v) :: attrsSrc r
def listSrc : List V → List String
  | [] => []
  | v :: r => vSrc v :: listSrc r
end

def cellNat : Cell → Nat
  | some (.num n) => n.toNat
  | _ => 0

def rootSrc (k : Kind) (off : Int) (cs : List Cell) : String :=
  match k with
  | .S => Lit.offSrc off ("'" ++ String.join (cs.map (fun c => Lit.charSrc (cellNat c))) ++ "'")
  | .B => Lit.offSrc off ("<<" ++ ", ".intercalate (cs.map (fun c => toString (cellNat c))) ++ ">>")
  | .A => Lit.offSrc off ("[" ++ ", ".intercalate (cs.map (fun c => match c with | some v => vSrc v | none => "")) ++ "]")

def kindTag : Kind → String | .S => "S" | .B => "B" | .A => "A"

def tupSrc (k : Kind) (at_ : Int) (x : V) : String := s!"(@: {Lit.numSrc at_}, {k.attr}: {vSrc x})"

def Pred.src (k : Kind) : Pred → String
  | .atLt n => s!".@ < {Lit.numSrc n}"
  | .atGe n => s!".@ >= {Lit.numSrc n}"
  | .atEven => ".@ % 2 = 0"
  | .atOdd => ".@ % 2 != 0"
  | .valLt n => s!".{k.attr} < {Lit.numSrc n}"
  | .valGe n => s!".{k.attr} >= {Lit.numSrc n}"

def Fn.src : Fn → String
  | .add k => s!"\\x x + {Lit.numSrc k}"
  | .const k => s!"\\x {Lit.numSrc k}"

def under (n : Nat) : String := String.join (List.replicate n "_, ")

/-- arr.ai source of an operation (operands are the names v0, v1, …) and the harness' direct-API form -/
def Op.src (kOf : Nat → Kind) : Op → String
  | .root k off cs => rootSrc k off cs
  | .const v => vSrc v
  | .with_ i k at_ x => s!"v{i} with {tupSrc k at_ x}"
  | .without i k at_ x => s!"v{i} without {tupSrc k at_ x}"
  | .offset i n => s!"({Lit.numSrc n})\\v{i}"
  | .where_ i p => s!"v{i} where {p.src (kOf i)}"
  | .smap i f => s!"v{i} >> {f.src}"
  | .concat i j => s!"v{i} ++ v{j}"
  | .union i j => s!"v{i} | v{j}"
  | .join i j => s!"v{i} <&> v{j}"
  | .rest i k => s!"(let [{under k}...r] = v{i}; r)"
  | .front i k => s!"(let [...r{String.join (List.replicate k ", _")}] = v{i}; r)"
  | .trimPrefix p s => s!"//seq.trim_prefix(v{p}, v{s})"
  | .trimSuffix p s => s!"//seq.trim_suffix(v{p}, v{s})"
  | .sub o n s => s!"//seq.sub(v{o}, v{n}, v{s})"
  | .split d s => s!"//seq.split(v{d}, v{s})"
  | .piece d s k => s!"//seq.split(v{d}, v{s})({k})"
  | .sjoin d s => s!"//seq.join(v{d}, v{s})"
  | .repeat_ n i => s!"//seq.repeat({n}, v{i})"
  | .sconcat i j => s!"//seq.concat([v{i}, v{j}])"

def Op.operands : Op → List Nat
  | .root .. => []
  | .const _ => []
  | .with_ i .. => [i]
  | .without i .. => [i]
  | .offset i _ => [i]
  | .where_ i _ => [i]
  | .smap i _ => [i]
  | .concat i j => [i, j]
  | .union i j => [i, j]
  | .join i j => [i, j]
  | .rest i _ => [i]
  | .front i _ => [i]
  | .trimPrefix p s => [p, s]
  | .trimSuffix p s => [p, s]
  | .sub o n s => [o, n, s]
  | .split d s => [d, s]
  | .piece d s _ => [d, s]
  | .sjoin d s => [d, s]
  | .repeat_ _ i => [i]
  | .sconcat i j => [i, j]

def cellApi : Cell → Option String
  | some (.num n) => some (toString n)
  | none => some "_"
  | _ => none

def Op.api : Op → String
  | .root k off cs =>
    (match cs.mapM cellApi with
     | some xs => s!"r {kindTag k} {off} " ++ " ".intercalate xs
     | none => "-")
  | .with_ i k at_ (.num n) => s!"w {i} {kindTag k} {at_} {n}"
  | .without i k at_ (.num n) => s!"wo {i} {kindTag k} {at_} {n}"
  | .concat i j => s!"cat {i} {j}"
  | .union i j => s!"un {i} {j}"
  | _ => "-"

/-! ## generator state -/

structure Info where
  k : Kind
  lo : Int
  hi : Int
  ps : List (Int × V)
  deriving Inhabited

def infoOf (v : V) : Option Info :=
  (decodeSeq v).map (fun kp => ⟨kp.1, minIdx kp.2, maxIdx kp.2, kp.2⟩)

def Info.dense (i : Info) : Bool := i.ps.length = (i.hi - i.lo + 1).toNat
def Info.dense0 (i : Info) : Bool := i.dense && i.lo = 0
def Info.len (i : Info) : Nat := (i.hi - i.lo + 1).toNat
def Info.allNum (i : Info) : Bool := i.ps.all (fun p => match p.2 with | .num _ => true | _ => false)
def Info.valAt (i : Info) (at_ : Int) : Option V := (i.ps.find? (fun p => p.1 = at_)).map (·.2)
/-- the elements in index order (dense values) -/
def Info.elems (i : Info) : List V :=
  (List.range i.len).filterMap (fun (j : Nat) => i.valAt (i.lo + (j : Int)))

def oracleOf (salt : Nat) : Oracle := fun n => (n * 7 + salt) % 3

structure GState where
  ops : List Op := []
  steps : List String := []
  vals : List (Option V) := []
  st : Impl.St := Impl.init       -- the heap model, stepped alongside (it mirrors Go's representation)
  salt : Nat := 1
  taint : List Bool := []         -- value k is computed wrongly today for reasons of other properties (or derives from such)
  deriving Inhabited

def GState.loose (g : GState) : Bool := g.taint.any id

def GState.n (g : GState) : Nat := g.vals.length
def GState.val (g : GState) (i : Nat) : Option V := Spec.getV g.vals i
def GState.info (g : GState) (i : Nat) : Option Info := (g.val i).bind infoOf
def GState.kOf (g : GState) (i : Nat) : Kind := ((g.info i).map (·.k)).getD .A
/-- in Go's representation: a hole-free slice at offset 0 -/
def GState.mdense (g : GState) (i : Nat) : Bool := (Impl.denseCells g.st.h (g.st.vals.getD i .err)).isSome
/-- in Go's representation: a String / Bytes / Array (not a generic set or relation that merely denotes a sequence) -/
def GState.mseq (g : GState) (i : Nat) : Bool :=
  match g.st.vals.getD i .err with
  | .seq .. => true
  | _ => false
/-- in Go's representation: no hole cell at all (leading, inner or trailing) -/
def GState.mfull (g : GState) (i : Nat) : Bool :=
  match g.st.vals.getD i .err with
  | .seq _ s _ _ => (read g.st.h s).all Option.isSome
  | _ => false

/-- results that today's code is known to compute wrongly for reasons of other properties (C01/C02):
a byte array with holes (asBytes fills them with 0), and a string / byte array that left the slice
representation (`with` away from the ends: generic set inside a union set) -/
def looseResult (op : Op) (v : V) (m : HVal) : Bool :=
  match infoOf v with
  | some inf =>
    (inf.k = .B && !inf.dense) ||
    (inf.k ≠ .A && (match m with | .other _ => true | _ => false) &&
      (match op with | .with_ .. => true | .union .. => true | _ => false))
  | none => false

/-- results nobody can look at today: an Array whose slice ends in a nil cell (left behind by `Array.Without` at the
end when the slot before it is a hole) sends `arrayValueEnumerator.MoveNext` into an endless loop — a C02/C10 defect;
such steps are not generated -/
def hangs (h : Heap) : HVal → Bool
  | .seq .A s _ _ => (read h s).getLast? == some none
  | _ => false

/-- append a step if it evaluates (by the specification) to a value -/
def GState.push (g : GState) (op : Op) (useApi : Bool) (loose : Bool := false) : Option GState :=
  match Spec.step g.vals op with
  | some v =>
    let api := if useApi then op.api else "-"
    let st' := Impl.step true (oracleOf g.salt) g.st op
    if hangs st'.h (st'.vals.getD g.n .err) then none else
    some { g with ops := g.ops ++ [op], steps := g.steps ++ [api ++ " ## " ++ op.src g.kOf],
                  vals := g.vals ++ [some v], st := st',
                  taint := g.taint ++ [loose || looseResult op v (st'.vals.getD g.n .err) ||
                                       op.operands.any (fun i => g.taint.getD i false)] }
  | none => none

def genElem (k : Kind) : Gen V := do
  match k with
  | .S => pure (.num (97 + (← rand 24)))
  | .B => pure (.num (← rand 200))
  | .A => pure (.num (← rand 40))

def genKind : Gen Kind := do
  pure (match (← rand 3) with | 0 => .S | 1 => .B | _ => .A)

def genRoot (k : Kind) (minLen : Nat) : Gen Op := do
  let n := minLen + (← rand 4)
  let xs ← genList n (genElem k)
  let off ← Lit.genOff
  let mut cs : List Cell := []
  let mut i := 0
  for x in xs do
    let hole ← chance 1 6
    cs := cs ++ [if k = .A && hole && 0 < i && i + 1 < n then none else some x]
    i := i + 1
  pure (.root k off cs)

/-- indices of the values that are sequences (optionally of one kind) -/
def GState.seqs (g : GState) (k? : Option Kind := none) : List Nat :=
  (List.range g.n).filter (fun i =>
    match g.info i with
    | some inf => (match k? with | some k => inf.k = k | none => true)
    | none => false)

def pickNat (xs : List Nat) : Gen Nat := do
  let i ← rand xs.length
  pure (xs.getD i 0)

/-- a window of `xs` (non-empty when `xs` is) -/
def genWindow (xs : List V) : Gen (List V) := do
  if xs.isEmpty then pure [] else
  let st ← rand xs.length
  let ln ← rand 2
  pure ((xs.drop st).take (ln + 1))

def opNames : List String :=
  ["withEnd", "withEnd", "withEnd", "withFront", "withFront", "withSame", "withHole", "withFar",
   "withoutEnd", "withoutEnd", "withoutEnd", "withoutFront", "withoutFront", "withoutMid", "withoutMid", "withoutAbsent",
   "offset", "where", "where", "smap", "concat", "concat", "union", "union", "join",
   "rest", "front", "trimPrefix", "trimSuffix", "sub", "split", "piece", "sjoin", "repeat", "sconcat", "root"]

/-- all indices of a union's operands agree where they overlap -/
def compatible (a b : Info) : Bool :=
  b.ps.all (fun p => match a.valAt p.1 with | some x => decide (x = p.2) | none => true)

/-- is `b` either inside `a` or a dense run starting right after `a`'s last index?  (String/Bytes `|` stays in the
slice representation exactly then) -/
def unionClean (a b : Info) : Bool :=
  b.ps.all (fun p => a.valAt p.1 == some p.2) || (b.dense && b.lo = a.hi + 1)

/-- one more step (or a few: a fresh pattern root first) -/
def genStep (g : GState) : Gen GState := do
  let name ← pick opNames
  let useApi ← chance 3 4
  let seqs := g.seqs
  let fallback : Gen GState := do
    let k ← genKind
    let r ← genRoot k 1
    pure ((g.push r (← chance 1 2)).getD g)
  if seqs.isEmpty || name == "root" then fallback else
  let i ← pickNat seqs
  let some inf := g.info i | fallback
  let k := inf.k
  let orElse (o : Option GState) : Gen GState := match o with | some g' => pure g' | none => fallback
  match name with
  | "withEnd" => do orElse (g.push (.with_ i k (inf.hi + 1) (← genElem k)) useApi)
  | "withFront" => do orElse (g.push (.with_ i k (inf.lo - 1) (← genElem k)) useApi)
  | "withSame" => do
    let p ← pick inf.ps
    orElse (g.push (.with_ i k p.1 p.2) useApi)
  | "withHole" => do
    -- arrays: fill a hole, or extend past the end leaving a hole
    if k = .A then
      let holes := (List.range inf.len).filter (fun (j : Nat) => (inf.valAt (inf.lo + (j : Int))).isNone)
      let at_ : Int := if holes.isEmpty then inf.hi + 2 else inf.lo + ((holes.getD 0 0 : Nat) : Int)
      orElse (g.push (.with_ i k at_ (← genElem k)) useApi)
    else orElse (g.push (.with_ i k (inf.hi + 1) (← genElem k)) useApi)
  | "withFar" => do
    -- strings / byte arrays: leaves the slice representation (generic-set fall-back): loose
    if k = .A then orElse (g.push (.with_ i k (inf.hi + 3) (← genElem k)) useApi)
    else orElse (g.push (.with_ i k (inf.hi + 2) (← genElem k)) useApi true)
  | "withoutEnd" => orElse ((inf.valAt inf.hi).bind (fun x => g.push (.without i k inf.hi x) useApi))
  | "withoutFront" => do
    -- Bytes.Without away from the end truncates (C01): mostly stay at the end for byte arrays
    if k = .B && (← chance 3 4) then orElse ((inf.valAt inf.hi).bind (fun x => g.push (.without i k inf.hi x) useApi)) else
    orElse ((inf.valAt inf.lo).bind (fun x => g.push (.without i k inf.lo x) useApi (k = .B && inf.len > 1)))
  | "withoutMid" => do
    if k = .B && (← chance 3 4) then orElse ((inf.valAt inf.hi).bind (fun x => g.push (.without i k inf.hi x) useApi)) else
    let p ← pick inf.ps
    orElse (g.push (.without i k p.1 p.2) useApi (k = .B && p.1 ≠ inf.hi))
  | "withoutAbsent" => do orElse (g.push (.without i k (inf.hi + 1) (← genElem k)) useApi)
  | "offset" => do
    let n ← randInt (-2) 3
    if g.mseq i then orElse (g.push (.offset i n) false) else fallback
  | "where" => do
    -- byte arrays cannot have holes (asBytes zero-fills them: C01): cut them at an index only, mostly
    let r ← if k = .B then (do if (← chance 9 10) then rand 2 else rand 6) else rand 6
    let mid : Int := inf.lo + (inf.len / 2 : Nat)
    let p : Pred := match r with
      | 0 => .atLt mid | 1 => .atGe mid | 2 => .atEven | 3 => .atOdd
      | 4 => if inf.allNum then .valLt (match k with | .S => 109 | .B => 100 | .A => 20) else .atEven
      | _ => if inf.allNum then .valGe (match k with | .S => 109 | .B => 100 | .A => 20) else .atOdd
    orElse (g.push (.where_ i p) false)
  | "smap" => do
    let c ← chance 1 4
    let f : Fn := if c then .const (match k with | .S => 120 | _ => 7) else .add 1
    if (k = .S && !g.mfull i) || !inf.allNum || !g.mseq i then fallback else orElse (g.push (.smap i f) false)
  | "concat" => do
    let js := g.seqs (some k)
    let j ← pickNat js
    let some jn := g.info j | fallback
    if inf.dense0 && jn.lo ≥ 0 then orElse (g.push (.concat i j) useApi) else fallback
  | "union" => do
    let js := g.seqs (some k)
    let j ← pickNat js
    let some jn := g.info j | fallback
    if !compatible inf jn then fallback
    else orElse (g.push (.union i j) useApi (k ≠ .A && !unionClean inf jn))
  | "join" => do
    let js := g.seqs (some k)
    let j ← pickNat js
    -- strings / byte arrays: the representation of the result depends on frozen's iteration order (C01/C02 territory)
    orElse (g.push (.join i j) false (k ≠ .A))
  | "rest" => do
    if k = .A && inf.dense0 && g.mdense i then orElse (g.push (.rest i (← rand (min 3 (inf.len + 1)))) false) else fallback
  | "front" => do
    if k = .A && inf.dense0 && g.mdense i then orElse (g.push (.front i (← rand (min 3 (inf.len + 1)))) false) else fallback
  | "repeat" => do
    if inf.dense0 && g.mdense i && k ≠ .B then orElse (g.push (.repeat_ (← rand 4) i) false) else fallback
  | "sconcat" => do
    let js := (g.seqs (some k)).filter (fun j => ((g.info j).map (·.dense0)).getD false && g.mdense j)
    if inf.dense0 && g.mdense i && !js.isEmpty then orElse (g.push (.sconcat i (← pickNat js)) false) else fallback
  | _ => do
    -- //seq functions with a pattern that is a window of the subject: a new root for the pattern first
    if !inf.dense0 || !g.mdense i then fallback else
    let w ← genWindow inf.elems
    if w.isEmpty then fallback else
    let some g1 := g.push (.root k 0 (w.map some)) false | fallback
    let p := g.n
    match name with
    | "trimPrefix" =>
      let pre := inf.elems.take w.length
      let c ← chance 1 2
      if c then
        let some g1' := g.push (.root k 0 (pre.map some)) false | fallback
        orElse (g1'.push (.trimPrefix p i) false)
      else orElse (g1.push (.trimPrefix p i) false)
    | "trimSuffix" =>
      let suf := inf.elems.drop (inf.len - w.length)
      let c ← chance 1 2
      if c then
        let some g1' := g.push (.root k 0 (suf.map some)) false | fallback
        orElse (g1'.push (.trimSuffix p i) false)
      else orElse (g1.push (.trimSuffix p i) false)
    | "sub" => do
      let nw ← genList ((← rand 2) + 1) (genElem k)
      let some g2 := g1.push (.root k 0 (nw.map some)) false | fallback
      orElse (g2.push (.sub p (p + 1) i) false)
    | "split" => orElse (g1.push (.split p i) false)
    | "piece" => do
      let cnt := (Spec.splitL w inf.elems).length
      orElse (g1.push (.piece p i (← rand cnt)) false)
    | _ => do
      -- join inverts split
      if k = .B then fallback else
      let some g2 := g1.push (.split p i) false | fallback
      orElse (g2.push (.sjoin p (p + 1)) false)

def obsOf (g : GState) (vals : List String) : String :=
  "stable;prog=ok;" ++ ";".intercalate ((vals.zip g.taint).map (fun p => if p.2 then "_" else p.1))

def specObs (g : GState) : String :=
  obsOf g (g.vals.map (fun o => match o with | some v => v.canon | none => "error"))

def modelObs (g : GState) : String :=
  obsOf g (g.st.vals.map (fun x => match x with | .err => "error" | _ => (snap g.st.h x).canon))

/-- "strict", or "loose:" + the indices of the values whose content is not compared -/
def modeOf (g : GState) : String :=
  if g.loose then
    "loose:" ++ ",".intercalate (((List.range g.n).filter (fun i => g.taint.getD i false)).map toString)
  else "strict"

def casesOf (id stratum : String) (g : GState) (share : Bool) : List Case :=
  let mode := modeOf g
  let c1 : Case := { id := id, cls := "good", kind := "hist", stratum := stratum ++ (if g.loose then "/loose" else ""),
                     model := modelObs g, spec := specObs g, payload := mode :: g.steps }
  if share then
    [c1, { id := id ++ "-share", cls := "good", kind := "histshare", stratum := "share",
           model := "noshare", spec := "!panic", payload := mode :: g.steps }]
  else [c1]

def genHist (idx : Nat) : Gen (List Case) := do
  let nroots := 1 + (← rand 3)
  let mut g : GState := { salt := ← rand 3 }
  for _ in [0:nroots] do
    let k ← genKind
    let r ← genRoot k 2
    g := (g.push r (← chance 1 2)).getD g
  let steps := 3 + (← rand 10)
  for _ in [0:steps] do
    if g.n < nroots + steps then
      g := ← genStep g
  pure (casesOf s!"C03-{idx}" "hist" g (idx % 4 == 0))

/-! ## exhaustive: every history of length ≤ 4 over {with at end, without at end, with at front} -/

/-- `choices` enumerates, for a history with `n` values, (op code, operand) -/
def exhChoices (n : Nat) : List (Nat × Nat) :=
  (List.range 3).flatMap (fun c => (List.range n).map (fun i => (c, i)))

def exhApply (k : Kind) (g : GState) (c : Nat × Nat) (fresh : Int) : GState :=
  let i := c.2
  let x : V := .num fresh
  let op : Option Op :=
    match g.val i with
    | none => none
    | some v =>
      match infoOf v with
      | some inf =>
        (match c.1 with
         | 0 => some (.with_ i k (inf.hi + 1) x)
         | 1 => (inf.valAt inf.hi).map (fun y => .without i k inf.hi y)
         | _ => some (.with_ i k (inf.lo - 1) x))
      | none =>   -- the empty set
        (match c.1 with
         | 0 => some (.with_ i k 0 x)
         | 1 => some (.without i k 0 x)
         | _ => some (.with_ i k (-1) x))
  match op with
  | some o => (g.push o ((c.1 + i) % 3 != 0)).getD g
  | none => g

def exhRoot (k : Kind) : Op :=
  match k with
  | .S => .root .S 0 [some (.num 97), some (.num 98), some (.num 99)]
  | .B => .root .B 0 [some (.num 1), some (.num 2), some (.num 3)]
  | .A => .root .A 0 [some (.num 1), some (.num 2), some (.num 3)]

def exhFresh (k : Kind) (step : Nat) : Int :=
  match k with
  | .S => 100 + step
  | _ => 10 + step

def exhGo (k : Kind) (pathId : String) (g : GState) (depth : Nat) : Nat → List Case
  | 0 => if depth = 0 then [] else casesOf s!"C03-x{kindTag k}{pathId}" "exhaustive" g false
  | fuel + 1 =>
    (if depth = 0 then [] else casesOf s!"C03-x{kindTag k}{pathId}" "exhaustive" g false) ++
    (exhChoices g.n).flatMap (fun c =>
      exhGo k (pathId ++ s!"-{c.1}{c.2}") (exhApply k g c (exhFresh k depth)) (depth + 1) fuel)

def exhaustive : List Case :=
  [Kind.S, Kind.B, Kind.A].flatMap (fun k => exhGo k "" (((({} : GState).push (exhRoot k) false)).getD {}) 0 4)

/-! ## corpus: the witnesses of the repaired defect and minimised shapes -/

def ofOps (id : String) (ops : List (Op × Bool)) : List Case :=
  let g := ops.foldl (fun g o => (g.push o.1 o.2).getD g) ({} : GState)
  casesOf id "corpus" g true

def corpus : List Case :=
  let abc : List Cell := [some (.num 97), some (.num 98), some (.num 99)]
  let b123 : List Cell := [some (.num 1), some (.num 2), some (.num 3)]
  -- siblings: let a='abc'; [a with (@:3,@char:100), a with (@:3,@char:101)]   (was ['abce','abce'])
  ofOps "C03-corpus-siblings" [(.root .S 0 abc, false), (.with_ 0 .S 3 (.num 100), false), (.with_ 0 .S 3 (.num 101), false)]
  ++ ofOps "C03-corpus-siblings-api" [(.root .S 0 abc, false), (.with_ 0 .S 3 (.num 100), true), (.with_ 0 .S 3 (.num 101), true)]
  -- a descendant overwrote its ancestor: b = a without last; c = b with x   (a was 'abd')
  ++ ofOps "C03-corpus-ancestor" [(.root .S 0 abc, false), (.without 0 .S 2 (.num 99), false), (.with_ 1 .S 2 (.num 100), false)]
  ++ ofOps "C03-corpus-ancestor-bytes" [(.root .B 0 b123, false), (.without 0 .B 2 (.num 3), true), (.with_ 1 .B 2 (.num 9), true)]
  -- Bytes.Without in the middle re-slices b.b[:i] (its result is wrong for C01's reasons: loose)
  ++ ofOps "C03-corpus-bytes-mid" [(.root .B 0 b123, false), (.without 0 .B 1 (.num 2), false), (.with_ 1 .B 1 (.num 9), false)]
  -- union appends element by element
  ++ ofOps "C03-corpus-union" [(.root .S 0 abc, false), (.root .S 3 [some (.num 100)], false), (.root .S 3 [some (.num 101)], false),
      (.union 0 1, false), (.union 0 2, false)]
  -- //seq.trim_suffix on bytes re-slices; then with at the end
  ++ ofOps "C03-corpus-trim" [(.root .B 0 b123, false), (.root .B 0 [some (.num 3)], false), (.trimSuffix 1 0, false),
      (.with_ 2 .B 2 (.num 7), false)]
  -- array pieces of //seq.split and `...rest` are windows of the subject's own array
  ++ ofOps "C03-corpus-piece" [(.root .A 0 [some (.num 1), some (.num 0), some (.num 2)], false), (.root .A 0 [some (.num 0)], false),
      (.piece 1 0 0, false), (.with_ 2 .A 1 (.num 9), false), (.front 0 1, false), (.with_ 4 .A 2 (.num 8), false)]

def gen (seed n : Nat) (thorough : Bool) : List Case := Id.run do
  let mut out : List (List Case) := [Rel.relCorpus, corpus]
  for i in [0:n] do
    -- every third history is a relational one (joins on join results, headings and rows)
    let (cs, _) := (if i % 3 == 2 then Rel.genRelHist i else genHist i).run (seedOf seed (300000 + i))
    out := cs :: out
  if thorough then out := exhaustive :: out
  pure out.reverse.flatten

end Arrai.C03
