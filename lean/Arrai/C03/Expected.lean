/-
  C03 — hand-written expectations about the WRITE SITES of rel/*.go and syntax/std_seq*.go
  (`x[i] = v`, `append(x, …)`, `copy(x, …)`), against which `extract/facts_c03.go`'s regenerated
  tables are compared by `decide` in Arrai/Proofs/C03.lean on every run.

  `nonfreshNoted`: every site whose destination is NOT storage allocated in the same function
  (classes param / field / local), each with a note: `model: …` = the heap model covers it (and how),
  `n/a: …` = reviewed, not the payload of a value.  On the tree as found this list had two more rows —
  ("rel/value_set_str.go", "String.with", "append s.s", "param") and
  ("rel/value_set_bytes.go", "Bytes.with", "append b.b", "param") — the defect repaired by
  "fix: String.with and Bytes.with copy before appending at the end".
  `summary`: number of write sites per file and class.
-/
namespace Arrai.C03.Expected

/-- how a non-fresh write site is accounted for -/
inductive Cover
  | model (by_ : String) (why : String)   -- transliterated in the heap model (Impl.…)
  | na (why : String)                      -- reviewed: not the payload of a value
  deriving Inhabited

def Cover.isModel : Cover → Bool
  | .model _ _ => true
  | .na _ => false

def nonfreshNoted : List ((String × String × String × String) × Cover) := [
  (("rel/expr_reduce_median.go", "float64Heap.Push", "append *h", "param"),
    .na "container/heap of float64 inside `median`; never a value's payload"),
  (("rel/expr_reduce_median.go", "float64Heap.Swap", "store h[i]", "param"),
    .na "container/heap of float64 inside `median`; never a value's payload"),
  (("rel/expr_reduce_median.go", "float64Heap.Swap", "store h[j]", "param"),
    .na "container/heap of float64 inside `median`; never a value's payload"),
  (("rel/ops_rel.go", "GenericJoin", "store slots[slotKey]", "local"),
    .na "a Go map local to the join"),
  (("rel/ops_set.go", "OrderBy", "store o.keys[i]", "field"),
    .na "`orderer` allocated two lines above with make(); scratch for sort"),
  (("rel/ops_set.go", "OrderBy", "store o.values[i]", "field"),
    .na "`orderer` allocated two lines above with make(); scratch for sort"),
  (("rel/ops_set.go", "orderer.Swap", "store o.keys[i]", "param"),
    .na "sort.Interface over OrderBy's scratch slices"),
  (("rel/ops_set.go", "orderer.Swap", "store o.keys[j]", "param"),
    .na "sort.Interface over OrderBy's scratch slices"),
  (("rel/ops_set.go", "orderer.Swap", "store o.values[i]", "param"),
    .na "sort.Interface over OrderBy's scratch slices"),
  (("rel/ops_set.go", "orderer.Swap", "store o.values[j]", "param"),
    .na "sort.Interface over OrderBy's scratch slices"),
  (("rel/ops_set_rank.go", "newRanker", "append r.entries", "field"),
    .na "ranker scratch, `r` allocated in the same function"),
  (("rel/ops_set_rank.go", "rankerSlice.Swap", "store o.entries[i]", "param"),
    .na "sort.Interface over the ranker's scratch"),
  (("rel/ops_set_rank.go", "rankerSlice.Swap", "store o.entries[j]", "param"),
    .na "sort.Interface over the ranker's scratch"),
  (("rel/value.go", "arraiTags", "store tags[i]", "local"),
    .na "local string slice returned by strings.Split"),
  (("rel/value_kind.go", "registerKind", "store kinds[kind]", "local"),
    .na "package-level kind registry (a map), written at init"),
  (("rel/value_set_array.go", "Array.Where", "store result.values[i]", "field"),
    .model "Impl.arrWhere" "`result := a.clone()`; the store goes to the clone"),
  (("rel/value_set_array.go", "Array.Without", "store result.values[i]", "field"),
    .model "Impl.arrWithout" "`result := a.clone()`; the store goes to the clone"),
  (("rel/value_set_builder.go", "SetBuilder.Add", "store b.buckets[bucket]", "param"),
    .na "the builder's bucket map; a builder is not a value"),
  (("rel/value_set_builder.go", "genericSetBuilder.Add", "append b.values", "param"),
    .model "Impl.finishV/asSeq" "the builder's own value list, copied into a fresh array by Finish"),
  (("rel/value_set_dict.go", "dictEntryTupleSort.Swap", "store s[a]", "param"),
    .na "sort.Interface over the fresh slice built by Dict.OrderedEntries"),
  (("rel/value_set_dict.go", "dictEntryTupleSort.Swap", "store s[b]", "param"),
    .na "sort.Interface over the fresh slice built by Dict.OrderedEntries"),
  (("rel/value_set_generic.go", "ValueList.Swap", "store vl[i]", "param"),
    .na "sort.Interface over slices produced by OrderedValues (fresh per call)"),
  (("rel/value_set_generic.go", "ValueList.Swap", "store vl[j]", "param"),
    .na "sort.Interface over slices produced by OrderedValues (fresh per call)"),
  (("rel/value_set_relpos.go", "positionalRelation.JoinKeepEverything", "append leftVal.project(leftOutput).values()", "local"),
    .model "Op.join via the builder" "`values()` returns a slice made in that call (make/Values{}), so the append target is fresh"),
  (("rel/value_tuple.go", "NewTuple", "store attrs[0]", "param"),
    .na "swaps the two Attr of the caller's variadic argument list; attrs are copied into the tuple builder"),
  (("rel/value_tuple.go", "NewTuple", "store attrs[1]", "param"),
    .na "swaps the two Attr of the caller's variadic argument list; attrs are copied into the tuple builder"),
  (("rel/value_tuple.go", "TupleOrderedNames", "append t.names", "param"),
    .na "memoised sorted name list inside a GenericTuple (sync.Once); does not change what the tuple denotes"),
  (("syntax/std_seq_array_helper.go", "arraySub", "append append(result,newArray.Values()...)", "local"),
    .model "Op.sub" "`result` is make([]Value, 0, n) in the same function; the inner append(result, …) is the argument of the outer one"),
  (("syntax/std_seq_array_helper.go", "arraySub", "append append(result,subjectVals[:i]...)", "local"),
    .model "Op.sub" "`result` is make([]Value, 0, n) in the same function; the inner append(result, …) is the argument of the outer one")
]

def nonfresh : List (String × String × String × String) := nonfreshNoted.map (·.1)

def summary : List (String × Nat) := [
  ("rel/astnode_value.go fresh", 6),
  ("rel/expr.go fresh", 1),
  ("rel/expr_array.go fresh", 2),
  ("rel/expr_bytes.go fresh", 3),
  ("rel/expr_dict.go fresh", 2),
  ("rel/expr_reduce_median.go param", 3),
  ("rel/expr_rel.go fresh", 11),
  ("rel/expr_seqmap.go fresh", 5),
  ("rel/expr_tuple.go fresh", 4),
  ("rel/json.go fresh", 9),
  ("rel/names.go fresh", 2),
  ("rel/ops_rel.go local", 1),
  ("rel/ops_set.go field", 2),
  ("rel/ops_set.go fresh", 1),
  ("rel/ops_set.go param", 4),
  ("rel/ops_set_rank.go field", 1),
  ("rel/ops_set_rank.go fresh", 1),
  ("rel/ops_set_rank.go param", 2),
  ("rel/ops_tuple.go fresh", 4),
  ("rel/pattern_array.go fresh", 3),
  ("rel/pattern_dict.go fresh", 5),
  ("rel/pattern_expr.go fresh", 1),
  ("rel/pattern_set.go fresh", 3),
  ("rel/pattern_tuple.go fresh", 2),
  ("rel/scope.go fresh", 1),
  ("rel/value.go fresh", 7),
  ("rel/value.go local", 1),
  ("rel/value_kind.go local", 1),
  ("rel/value_set_array.go field", 2),
  ("rel/value_set_array.go fresh", 8),
  ("rel/value_set_builder.go param", 2),
  ("rel/value_set_bytes.go fresh", 6),
  ("rel/value_set_dict.go fresh", 2),
  ("rel/value_set_dict.go param", 2),
  ("rel/value_set_generic.go fresh", 1),
  ("rel/value_set_generic.go param", 2),
  ("rel/value_set_rel.go fresh", 14),
  ("rel/value_set_relpos.go fresh", 3),
  ("rel/value_set_relpos.go local", 1),
  ("rel/value_set_str.go fresh", 9),
  ("rel/value_set_union.go fresh", 2),
  ("rel/value_tuple.go fresh", 6),
  ("rel/value_tuple.go param", 3),
  ("rel/value_values.go fresh", 5),
  ("syntax/std_seq.go fresh", 3),
  ("syntax/std_seq_array_helper.go fresh", 9),
  ("syntax/std_seq_array_helper.go local", 2),
  ("syntax/std_seq_bytes_helper.go fresh", 3)
]

end Arrai.C03.Expected
