/-
  C03 — hand-written expectations about the WRITE SITES of rel/*.go and syntax/std_seq*.go
  (`x[i] = v`, `append(x, …)`, `copy(x, …)`), against which `extract/facts_c03.go`'s regenerated
  tables are compared by `decide` in Arrai/Proofs/C03.lean on every run.

  `nonfreshNoted`: every site whose destination is NOT storage allocated in the same function
  (classes param / field / local / call), each with a note: `.model …` = the heap model covers it (and how),
  `.na …` = reviewed, not the payload of a value.  On the tree as found this list had three more rows —
  ("rel/value_set_str.go", "String.with", "append s.s", "param"),
  ("rel/value_set_bytes.go", "Bytes.with", "append b.b", "param") — repaired by
  "fix: String.with and Bytes.with copy before appending at the end" — and
  ("rel/value_set_rel.go", "Relation.Join", "append leftOutput", "param") — a relation's heading is part of the value;
  repaired by the C04 fix (theorem rel_alias_heading_before_repair is its witness in the heap model).
  `summary`: number of write sites per file and class.
  `callees`: for every function whose RESULT a write site's destination comes from (class `call`, or a `local` defined
  by a call), plus the slice-returning helpers the heap model relies on and the accessors that hand out a value's own
  slice: the classification of every return statement ("fresh" = all of them return make / composite literal /
  append(make…) / a local defined only so).  `assumedFresh`: the ones whose freshness the model (and the safety of a
  write site) depends on.
-/
namespace Arrai.C03.Expected

/-- how a non-fresh write site is accounted for -/
inductive Cover
  | model (by_ : String) (why : String)   -- transliterated in the heap model (Impl.…)
  | na (why : String)                      -- reviewed: not the payload of a value
  deriving Inhabited

def Cover.isModel : Cover → Bool
  | .model _ _ => true
  | .na _ => false

def nonfreshNoted : List ((String × String × String × String) × Cover) := [
  (("rel/expr_reduce_median.go", "float64Heap.Push", "append *h", "param"),
    .na "container/heap of float64 inside `median`; never a value's payload"),
  (("rel/expr_reduce_median.go", "float64Heap.Swap", "store h[i]", "param"),
    .na "container/heap of float64 inside `median`; never a value's payload"),
  (("rel/expr_reduce_median.go", "float64Heap.Swap", "store h[j]", "param"),
    .na "container/heap of float64 inside `median`; never a value's payload"),
  (("rel/ops_rel.go", "GenericJoin", "store slots[slotKey]", "local"),
    .na "a Go map local to the join"),
  (("rel/ops_set.go", "OrderBy", "store o.keys[i]", "field"),
    .na "`orderer` allocated two lines above with make(); scratch for sort"),
  (("rel/ops_set.go", "OrderBy", "store o.values[i]", "field"),
    .na "`orderer` allocated two lines above with make(); scratch for sort"),
  (("rel/ops_set.go", "orderer.Swap", "store o.keys[i]", "param"),
    .na "sort.Interface over OrderBy's scratch slices"),
  (("rel/ops_set.go", "orderer.Swap", "store o.keys[j]", "param"),
    .na "sort.Interface over OrderBy's scratch slices"),
  (("rel/ops_set.go", "orderer.Swap", "store o.values[i]", "param"),
    .na "sort.Interface over OrderBy's scratch slices"),
  (("rel/ops_set.go", "orderer.Swap", "store o.values[j]", "param"),
    .na "sort.Interface over OrderBy's scratch slices"),
  (("rel/ops_set_rank.go", "newRanker", "append r.entries", "field"),
    .na "ranker scratch, `r` allocated in the same function"),
  (("rel/ops_set_rank.go", "rankerSlice.Swap", "store o.entries[i]", "param"),
    .na "sort.Interface over the ranker's scratch"),
  (("rel/ops_set_rank.go", "rankerSlice.Swap", "store o.entries[j]", "param"),
    .na "sort.Interface over the ranker's scratch"),
  (("rel/value.go", "arraiTags", "store tags[i]", "local"),
    .na "local string slice returned by strings.Split"),
  (("rel/value_kind.go", "registerKind", "store kinds[kind]", "local"),
    .na "package-level kind registry (a map), written at init"),
  (("rel/value_set_array.go", "Array.Where", "store result.values[i]", "field"),
    .model "Impl.arrWhere" "`result := a.clone()`; the store goes to the clone"),
  (("rel/value_set_array.go", "Array.Without", "store result.values[i]", "field"),
    .model "Impl.arrWithout" "`result := a.clone()`; the store goes to the clone"),
  (("rel/value_set_builder.go", "SetBuilder.Add", "store b.buckets[bucket]", "param"),
    .na "the builder's bucket map; a builder is not a value"),
  (("rel/value_set_builder.go", "genericSetBuilder.Add", "append b.values", "param"),
    .model "Impl.finishV/asSeq" "the builder's own value list, copied into a fresh array by Finish"),
  (("rel/value_set_dict.go", "dictEntryTupleSort.Swap", "store s[a]", "param"),
    .na "sort.Interface over the fresh slice built by Dict.OrderedEntries"),
  (("rel/value_set_dict.go", "dictEntryTupleSort.Swap", "store s[b]", "param"),
    .na "sort.Interface over the fresh slice built by Dict.OrderedEntries"),
  (("rel/value_set_generic.go", "ValueList.Swap", "store vl[i]", "param"),
    .na "sort.Interface over slices produced by OrderedValues (fresh per call)"),
  (("rel/value_set_generic.go", "ValueList.Swap", "store vl[j]", "param"),
    .na "sort.Interface over slices produced by OrderedValues (fresh per call)"),
  (("rel/value_set_relpos.go", "positionalRelation.JoinKeepEverything", "append leftVal.project(leftOutput).values()", "call"),
    .model "Rel.Impl.keepEverything" "the append target is the result of `projectedValues.values()`: safe only because that callee returns a slice of its own on every path — see `callees` / `callees_assumed_fresh` (a `values()` that returns `pv.v` makes this append write into a shared row: theorem rel_alias_rows_if_values_returns_row)"),
  (("rel/value_tuple.go", "NewTuple", "store attrs[0]", "param"),
    .na "swaps the two Attr of the caller's variadic argument list; attrs are copied into the tuple builder"),
  (("rel/value_tuple.go", "NewTuple", "store attrs[1]", "param"),
    .na "swaps the two Attr of the caller's variadic argument list; attrs are copied into the tuple builder"),
  (("rel/value_tuple.go", "TupleOrderedNames", "append t.names", "param"),
    .na "memoised sorted name list inside a GenericTuple (sync.Once); does not change what the tuple denotes"),
  (("syntax/std_seq_array_helper.go", "arraySub", "append append(result,newArray.Values()...)", "call"),
    .model "Op.sub" "`result` is make([]Value, 0, n) in the same function; the inner append(result, …) is the argument of the outer one"),
  (("syntax/std_seq_array_helper.go", "arraySub", "append append(result,subjectVals[:i]...)", "call"),
    .model "Op.sub" "`result` is make([]Value, 0, n) in the same function; the inner append(result, …) is the argument of the outer one")
]

def nonfresh : List (String × String × String × String) := nonfreshNoted.map (·.1)

def summary : List (String × Nat) := [
  ("rel/astnode_value.go fresh", 6),
  ("rel/expr.go fresh", 1),
  ("rel/expr_array.go fresh", 2),
  ("rel/expr_bytes.go fresh", 3),
  ("rel/expr_dict.go fresh", 2),
  ("rel/expr_reduce_median.go param", 3),
  ("rel/expr_rel.go fresh", 11),
  ("rel/expr_seqmap.go fresh", 5),
  ("rel/expr_tuple.go fresh", 4),
  ("rel/json.go fresh", 9),
  ("rel/names.go fresh", 2),
  ("rel/ops_rel.go local", 1),
  ("rel/ops_set.go field", 2),
  ("rel/ops_set.go fresh", 1),
  ("rel/ops_set.go param", 4),
  ("rel/ops_set_rank.go field", 1),
  ("rel/ops_set_rank.go fresh", 1),
  ("rel/ops_set_rank.go param", 2),
  ("rel/ops_tuple.go fresh", 4),
  ("rel/pattern_array.go fresh", 3),
  ("rel/pattern_dict.go fresh", 5),
  ("rel/pattern_expr.go fresh", 1),
  ("rel/pattern_set.go fresh", 3),
  ("rel/pattern_tuple.go fresh", 2),
  ("rel/scope.go fresh", 1),
  ("rel/value.go fresh", 7),
  ("rel/value.go local", 1),
  ("rel/value_kind.go local", 1),
  ("rel/value_set_array.go field", 2),
  ("rel/value_set_array.go fresh", 8),
  ("rel/value_set_builder.go param", 2),
  ("rel/value_set_bytes.go fresh", 6),
  ("rel/value_set_dict.go fresh", 2),
  ("rel/value_set_dict.go param", 2),
  ("rel/value_set_generic.go fresh", 1),
  ("rel/value_set_generic.go param", 2),
  ("rel/value_set_rel.go fresh", 14),
  ("rel/value_set_relpos.go call", 1),
  ("rel/value_set_relpos.go fresh", 3),
  ("rel/value_set_str.go fresh", 9),
  ("rel/value_set_union.go fresh", 2),
  ("rel/value_tuple.go fresh", 6),
  ("rel/value_tuple.go param", 3),
  ("rel/value_values.go fresh", 5),
  ("syntax/std_seq.go fresh", 3),
  ("syntax/std_seq_array_helper.go call", 2),
  ("syntax/std_seq_array_helper.go fresh", 9),
  ("syntax/std_seq_bytes_helper.go fresh", 3)
]

/-- (file, function, verdict): "fresh", or `class:expr` for every return statement -/
def callees : List (String × String × String) := [
  ("rel/value_set_array.go", "Array.Values", "param:a.values"),
  ("rel/value_set_array.go", "Array.clone", "param:a"),
  ("rel/value_set_array.go", "asArray", "fresh"),
  ("rel/value_set_bytes.go", "Bytes.Bytes", "param:b.b"),
  ("rel/value_set_bytes.go", "asBytes", "fresh"),
  ("rel/value_set_rel.go", "Relation.AttrsName", "param:r.attrs"),
  ("rel/value_set_rel.go", "Relation.getIndices", "fresh"),
  ("rel/value_set_rel.go", "Relation.tupleToValues", "fresh"),
  ("rel/value_set_rel.go", "RelationValuesEnumerator.Values", "call:e.i.Values().project(e.p).values()"),
  ("rel/value_set_relpos.go", "positionalRelationValuesEnumerator.Values", "local:e.i.Value().(Values)"),
  ("rel/value_set_str.go", "asString", "fresh"),
  ("rel/value_tuple.go", "NamesSlice.GetSorted", "fresh"),
  ("rel/value_tuple.go", "NamesSlice.intersect", "fresh"),
  ("rel/value_tuple.go", "NamesSlice.minus", "fresh"),
  ("rel/value_values.go", "projectedValues.values", "fresh"),
  ("rel/value_values.go", "valueProjector.compose", "fresh"),
  ("rel/value_values.go", "valueProjector.mapper", "local:func(elinterface{})interface{}{returnel.; local:func(elinterface{})interface{}{v:=make(V")
]

/-- callees that MUST return storage of their own: a write site (`JoinKeepEverything`'s append onto `values()`) or the
heap model (`Rel.Impl.projValues`, `allocNames`, `tupleToValues`, `asSeq`) relies on it.  `Array.clone` returns its
receiver copy with `values` replaced by a slice made in the call (classified `param:a` syntactically): covered by
`Impl.clone` and listed in `callees` so that any change shows. -/
def assumedFresh : List String :=
  ["projectedValues.values", "NamesSlice.minus", "NamesSlice.intersect", "NamesSlice.GetSorted",
   "valueProjector.compose", "Relation.getIndices", "Relation.tupleToValues", "asString", "asBytes", "asArray"]

/-- "copy constructors" of rel/: functions that derive a value by copying an existing struct value and re-assigning some
fields — (type, function, fields assigned, REFERENCE fields (pointer / map / slice / func / chan / sync.*) left shared with the
original).  A shared reference is harmless only if nothing is ever written through it after construction:
`Array.Shift` shares `values` (never written: C03_history); `Relation.newBody` shares `attrs`, `p` (read only: Rel.lean) and
`attrMap` (filled once in `newRelation`, read only afterwards).  A lazily filled memo added to such a struct (e.g. a
`canon *canonicalRows` behind a sync.Once) shows up here as a new shared field of `newBody` and must be reset there. -/
def copyCtors : List (String × String × String × String) := [
  ("Array", "Array.Shift", "offset", "values:slice"),
  ("Array", "Array.clone", "values", ""),
  ("Array", "Array.withItem", "count,offset,values", ""),
  ("Relation", "Relation.newBody", "rows", "attrMap:map,attrs:slice,p:slice")
]

end Arrai.C03.Expected
