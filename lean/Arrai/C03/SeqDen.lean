/-
  C03 — what a sequence of cells denotes, and how the list operations the heap model performs on cells
  (append at the end, prepend, drop the first / the last, blank one cell, trim holes, shift the offset)
  correspond to the `V`-level specification (`Spec.with_`, `Spec.without`, `Spec.offset`).
-/
import Arrai.C03.Model

namespace Arrai.C03

theorem mkSet_congr {l1 l2 : List V} (h : ∀ x, x ∈ l1 ↔ x ∈ l2) : V.mkSet l1 = V.mkSet l2 := by
  unfold V.mkSet
  congr 1
  apply FinSet.sorted_ext _ _ (FinSet.sorted_mk _) (FinSet.sorted_mk _)
  intro x
  rw [FinSet.mem_mk, FinSet.mem_mk]
  exact h x

theorem mem_members_mkSet (l : List V) (x : V) : x ∈ members (V.mkSet l) ↔ x ∈ l := by
  simp only [members, V.mkSet]; exact FinSet.mem_mk l x

/-- the tuple `(@: i, @char|@byte|@item: x)` in normal form -/
def tup (k : Kind) (i : Int) (x : V) : V := .tup [("@", .num i), (k.attr, x)]

theorem tupleOf_eq (k : Kind) (i : Int) (x : V) : tupleOf k i x = tup k i x := by
  cases k <;> simp [tupleOf, tup, V.mkTup, V.insAttr, Kind.attr]

theorem tup_inj {k : Kind} {i j : Int} {x y : V} : tup k i x = tup k j y ↔ i = j ∧ x = y := by
  simp [tup]

theorem seqMembers_cons_some (k : Kind) (off : Int) (c : V) (cs : List Cell) :
    V.seqMembers k.attr off (some c :: cs) = tup k off c :: V.seqMembers k.attr (off + 1) cs := by
  cases k <;> simp [V.seqMembers, tup, V.mkTup, V.insAttr, Kind.attr]

theorem seqMembers_cons_none (k : Kind) (off : Int) (cs : List Cell) :
    V.seqMembers k.attr off (none :: cs) = V.seqMembers k.attr (off + 1) cs := by
  simp [V.seqMembers]

theorem seqMembers_append (k : Kind) (off : Int) (a b : List Cell) :
    V.seqMembers k.attr off (a ++ b) = V.seqMembers k.attr off a ++ V.seqMembers k.attr (off + a.length) b := by
  induction a generalizing off with
  | nil => simp [V.seqMembers]
  | cons c r ih =>
    have e : off + 1 + (r.length : Int) = off + ((r.length + 1 : Nat) : Int) := by omega
    cases c with
    | none => simp only [List.cons_append, seqMembers_cons_none, ih, List.length_cons, e]
    | some v => simp only [List.cons_append, seqMembers_cons_some, ih, List.length_cons, e]

/-- the members of a sequence: one tuple per non-hole cell -/
theorem mem_seqMembers (k : Kind) (off : Int) (cs : List Cell) (x : V) :
    x ∈ V.seqMembers k.attr off cs ↔ ∃ (j : Nat) (v : V), cs[j]? = some (some v) ∧ x = tup k (off + j) v := by
  induction cs generalizing off with
  | nil => simp [V.seqMembers]
  | cons c r ih =>
    cases c with
    | none =>
      rw [seqMembers_cons_none, ih]
      constructor
      · rintro ⟨j, v, hj, rfl⟩
        exact ⟨j + 1, v, by simpa using hj, by congr 1; push_cast; omega⟩
      · rintro ⟨j, v, hj, rfl⟩
        cases j with
        | zero => simp at hj
        | succ j => exact ⟨j, v, by simpa using hj, by congr 1; push_cast; omega⟩
    | some a =>
      rw [seqMembers_cons_some, List.mem_cons, ih]
      constructor
      · rintro (rfl | ⟨j, v, hj, rfl⟩)
        · exact ⟨0, a, by simp, by simp⟩
        · exact ⟨j + 1, v, by simpa using hj, by congr 1; push_cast; omega⟩
      · rintro ⟨j, v, hj, rfl⟩
        cases j with
        | zero => left; simp at hj; subst hj; simp
        | succ j => right; exact ⟨j, v, by simpa using hj, by congr 1; push_cast; omega⟩

theorem mem_mkSeq (k : Kind) (off : Int) (cs : List Cell) (x : V) :
    x ∈ members (V.mkSeq k.attr off cs) ↔ ∃ (j : Nat) (v : V), cs[j]? = some (some v) ∧ x = tup k (off + j) v := by
  unfold V.mkSeq
  rw [mem_members_mkSet, mem_seqMembers]

theorem isSet_mkSeq (name : String) (off : Int) (cs : List Cell) : Spec.isSet (V.mkSeq name off cs) = true := rfl

/-- two cell lists denote the same sequence when they have the same non-hole cells at the same absolute indices -/
theorem mkSeq_congr (k : Kind) (off off' : Int) (cs cs' : List Cell)
    (h : ∀ (i : Int) (v : V), (∃ j : Nat, cs[j]? = some (some v) ∧ i = off + j) ↔ (∃ j : Nat, cs'[j]? = some (some v) ∧ i = off' + j)) :
    V.mkSeq k.attr off cs = V.mkSeq k.attr off' cs' := by
  unfold V.mkSeq
  apply mkSet_congr
  intro x
  rw [mem_seqMembers, mem_seqMembers]
  constructor
  · rintro ⟨j, v, hj, rfl⟩
    obtain ⟨j', hj', e⟩ := (h (off + j) v).1 ⟨j, hj, rfl⟩
    exact ⟨j', v, hj', by rw [e]⟩
  · rintro ⟨j, v, hj, rfl⟩
    obtain ⟨j', hj', e⟩ := (h (off' + j) v).2 ⟨j, hj, rfl⟩
    exact ⟨j', v, hj', by rw [e]⟩

/-! ### with -/

/-- adding `(@: i, x)` to a sequence, in terms of cells: the result cells `cs'` (at `off'`) hold what `cs` held, plus `x` at `i` -/
theorem with_refines (k : Kind) (off off' : Int) (cs cs' : List Cell) (i : Int) (x : V)
    (h : ∀ (a : Int) (v : V), (∃ j : Nat, cs'[j]? = some (some v) ∧ a = off' + j) ↔
      ((∃ j : Nat, cs[j]? = some (some v) ∧ a = off + j) ∨ (a = i ∧ v = x))) :
    Spec.with_ (V.mkSeq k.attr off cs) (tupleOf k i x) = some (V.mkSeq k.attr off' cs') := by
  simp only [Spec.with_, isSet_mkSeq, if_true, Option.some.injEq]
  rw [tupleOf_eq]
  conv => rhs; unfold V.mkSeq
  apply mkSet_congr
  intro y
  rw [List.mem_cons, mem_mkSeq, mem_seqMembers]
  constructor
  · rintro (rfl | ⟨j, v, hj, rfl⟩)
    · obtain ⟨j', hj', e⟩ := (h i x).2 (Or.inr ⟨rfl, rfl⟩)
      exact ⟨j', x, hj', by rw [e]⟩
    · obtain ⟨j', hj', e⟩ := (h (off + j) v).2 (Or.inl ⟨j, hj, rfl⟩)
      exact ⟨j', v, hj', by rw [e]⟩
  · rintro ⟨j, v, hj, rfl⟩
    rcases (h (off' + j) v).1 ⟨j, hj, rfl⟩ with ⟨j', hj', e⟩ | ⟨e1, e2⟩
    · right; exact ⟨j', v, hj', by rw [e]⟩
    · left; rw [e1, e2]

/-! ### without -/

theorem without_refines (k : Kind) (off off' : Int) (cs cs' : List Cell) (i : Int) (x : V)
    (h : ∀ (a : Int) (v : V), (∃ j : Nat, cs'[j]? = some (some v) ∧ a = off' + j) ↔
      ((∃ j : Nat, cs[j]? = some (some v) ∧ a = off + j) ∧ ¬ (a = i ∧ v = x))) :
    Spec.without (V.mkSeq k.attr off cs) (tupleOf k i x) = some (V.mkSeq k.attr off' cs') := by
  simp only [Spec.without, isSet_mkSeq, if_true, Option.some.injEq]
  rw [tupleOf_eq]
  conv => rhs; unfold V.mkSeq
  apply mkSet_congr
  intro y
  rw [List.mem_filter, mem_mkSeq, mem_seqMembers]
  constructor
  · rintro ⟨⟨j, v, hj, rfl⟩, hne⟩
    have hne' : ¬ (off + (j : Int) = i ∧ v = x) := by
      rintro ⟨e1, e2⟩
      subst e1; subst e2
      simp at hne
    obtain ⟨j', hj', e⟩ := (h (off + j) v).2 ⟨⟨j, hj, rfl⟩, hne'⟩
    exact ⟨j', v, hj', by rw [e]⟩
  · rintro ⟨j, v, hj, rfl⟩
    obtain ⟨⟨j', hj', e⟩, hne⟩ := (h (off' + j) v).1 ⟨j, hj, rfl⟩
    refine ⟨⟨j', v, hj', by rw [e]⟩, ?_⟩
    simp only [Bool.not_eq_true', decide_eq_false_iff_not]
    intro e2
    rw [tup_inj] at e2
    exact hne e2

end Arrai.C03
