/-
  C03 — the heap of backing arrays, second layer of lemmas:
  * `Slice.WF`: a slice lies inside its array (`lo + cap ≤ length of the array`, `len ≤ cap`, the array exists);
  * `Shape`: the arrays of a heap keep their lengths (every primitive only ever extends the heap);
  * read-after-write: what `read` sees after `mkSlice`, `allocWith`, `store`, `copy`, `append`.
-/
import Arrai.C03.Heap

namespace Arrai.C03

/-- the slice lies inside its backing array -/
structure Slice.WF (h : Heap) (s : Slice) : Prop where
  arr : s.arr < h.length
  inb : s.lo + s.cap ≤ (h.getD s.arr []).length
  len : s.len ≤ s.cap

/-- `h'` has at least the arrays of `h`, with the same lengths -/
def Shape (h h' : Heap) : Prop :=
  h.length ≤ h'.length ∧ ∀ a, a < h.length → (h'.getD a []).length = (h.getD a []).length

theorem Shape.refl (h : Heap) : Shape h h := ⟨Nat.le_refl _, fun _ _ => rfl⟩
theorem Shape.trans {h₁ h₂ h₃ : Heap} (a : Shape h₁ h₂) (b : Shape h₂ h₃) : Shape h₁ h₃ :=
  ⟨Nat.le_trans a.1 b.1, fun i hi => (b.2 i (Nat.lt_of_lt_of_le hi a.1)).trans (a.2 i hi)⟩

theorem Slice.WF.shape {h h' : Heap} {s : Slice} (w : s.WF h) (sh : Shape h h') : s.WF h' :=
  ⟨Nat.lt_of_lt_of_le w.arr sh.1, by rw [sh.2 _ w.arr]; exact w.inb, w.len⟩

theorem Frame.shape {h h' : Heap} (f : Frame h.length h h') : Shape h h' :=
  ⟨f.1, fun a ha => by rw [f.2 a ha]⟩

theorem length_overwrite (xs : List Cell) (k : Nat) (vs : List Cell) : (overwrite xs k vs).length = xs.length := by
  induction xs generalizing k vs with
  | nil => rfl
  | cons x r ih =>
    cases k with
    | zero => cases vs <;> simp [overwrite, ih]
    | succ k => simp [overwrite, ih]

theorem getD_updArr_eq' (h : Heap) (a : Nat) (f : List Cell → List Cell) (ha : a < h.length) :
    (updArr h a f).getD a [] = f (h.getD a []) := by
  induction h generalizing a with
  | nil => simp at ha
  | cons x r ih =>
    cases a with
    | zero => simp [updArr]
    | succ a => simpa [updArr] using ih a (by simpa using ha)

theorem getD_updArr_ge (h : Heap) (a : Nat) (f : List Cell → List Cell) (ha : h.length ≤ a) : updArr h a f = h := by
  induction h generalizing a with
  | nil => rfl
  | cons x r ih =>
    cases a with
    | zero => simp at ha
    | succ a => simp [updArr, ih a (by simpa using ha)]

theorem shape_store (h : Heap) (s : Slice) (i : Nat) (vs : List Cell) : Shape h (store h s i vs) := by
  refine ⟨by simp, fun a ha => ?_⟩
  unfold store
  by_cases e : a = s.arr
  · subst e; rw [getD_updArr_eq' _ _ _ ha, length_overwrite]
  · rw [getD_updArr_ne _ _ _ _ e]

theorem shape_copy (h : Heap) (s : Slice) (vs : List Cell) : Shape h (copy h s vs) := shape_store h s 0 _

theorem shape_snoc (h : Heap) (x : List Cell) : Shape h (h ++ [x]) :=
  ⟨by simp, fun a ha => by rw [getD_append_lt h x a ha]⟩

theorem shape_mkSlice (h : Heap) (z : Cell) (n sp : Nat) : Shape h (mkSlice h z n sp).1 := shape_snoc h _
theorem shape_allocWith (orc : Oracle) (h : Heap) (cs : List Cell) : Shape h (allocWith orc h cs).1 := shape_snoc h _

theorem shape_append (orc : Oracle) (z : Cell) (h : Heap) (s : Slice) (vs : List Cell) : Shape h (append orc z h s vs).1 := by
  unfold append
  split
  · exact shape_store _ _ _ _
  · exact (shape_mkSlice h z _ _).trans (shape_store _ _ _ _)

theorem getD_snoc_self' (h : Heap) (x : List Cell) : (h ++ [x]).getD h.length [] = x := by simp [List.getD]

theorem wf_mkSlice (h : Heap) (z : Cell) (n sp : Nat) : (mkSlice h z n sp).2.WF (mkSlice h z n sp).1 :=
  ⟨by simp, by simp [mkSlice], by simp [mkSlice]⟩

theorem wf_allocWith (orc : Oracle) (h : Heap) (cs : List Cell) : (allocWith orc h cs).2.WF (allocWith orc h cs).1 :=
  ⟨by simp, by simp [allocWith], by simp [allocWith]⟩

theorem wf_append (orc : Oracle) (z : Cell) (h : Heap) (s : Slice) (vs : List Cell) (w : s.WF h) :
    (append orc z h s vs).2.WF (append orc z h s vs).1 := by
  unfold append
  split
  · rename_i hfit
    have w' := w.shape (shape_store h s s.len vs)
    exact ⟨w'.arr, w'.inb, hfit⟩
  · exact (wf_mkSlice h z _ _).shape (shape_store _ _ _ _)

/-- `s[i:j]` of a well-formed slice, with Go's own bounds check `i ≤ j ≤ cap` -/
theorem wf_reslice {h : Heap} {s : Slice} (w : s.WF h) (i j : Nat) (hij : i ≤ j) (hj : j ≤ s.cap) : (reslice s i j).WF h :=
  ⟨w.arr, by have := w.inb; simp only [reslice]; omega, by simp only [reslice]; omega⟩

theorem read_length {h : Heap} {s : Slice} (w : s.WF h) : (read h s).length = s.len := by
  have := w.inb; have := w.len
  simp only [read, List.length_take, List.length_drop]; omega

/-! ### read-after-write, element-wise -/

theorem getElem?_overwrite (xs : List Cell) (k : Nat) (vs : List Cell) (j : Nat) :
    (overwrite xs k vs)[j]? = if k ≤ j ∧ j < k + vs.length ∧ j < xs.length then vs[j - k]? else xs[j]? := by
  induction xs generalizing k vs j with
  | nil => simp [overwrite]
  | cons x r ih =>
    cases k with
    | zero =>
      cases vs with
      | nil => simp [overwrite]
      | cons v vr =>
        cases j with
        | zero => simp [overwrite]
        | succ j =>
          simp only [overwrite, List.getElem?_cons_succ, ih, List.length_cons]
          have e : j + 1 - 0 = (j - 0) + 1 := by omega
          by_cases c : 0 ≤ j ∧ j < 0 + vr.length ∧ j < r.length
          · rw [if_pos c, if_pos (by omega), e]; simp
          · rw [if_neg c, if_neg (by omega)]
    | succ k =>
      cases j with
      | zero => simp [overwrite]
      | succ j =>
        simp only [overwrite, List.getElem?_cons_succ, ih, List.length_cons]
        have e : j + 1 - (k + 1) = j - k := by omega
        by_cases c : k ≤ j ∧ j < k + vs.length ∧ j < r.length
        · rw [if_pos c, if_pos (by omega), e]
        · rw [if_neg c, if_neg (by omega)]

theorem getElem?_read (h : Heap) (s : Slice) (j : Nat) :
    (read h s)[j]? = if j < s.len then (h.getD s.arr [])[s.lo + j]? else none := by
  simp only [read, List.getElem?_take]
  split
  · simp [List.getElem?_drop]
  · rfl

/-- reading a slice of another array is unaffected by a store -/
theorem read_store_other (h : Heap) (t : Slice) (i : Nat) (vs : List Cell) (s : Slice) (hne : s.arr ≠ t.arr) :
    read (store h t i vs) s = read h s := by
  unfold read store
  rw [getD_updArr_ne _ _ _ _ hne]

/-- reading the stored-into slice itself -/
theorem read_store_self (h : Heap) (t : Slice) (i : Nat) (vs : List Cell) (w : t.WF h) (hfit : i + vs.length ≤ t.len) :
    read (store h t i vs) t = (read h t).take i ++ vs ++ (read h t).drop (i + vs.length) := by
  have hl := read_length w
  have hinb := w.inb; have hlen := w.len
  apply List.ext_getElem?
  intro j
  rw [getElem?_read]
  unfold store
  rw [getD_updArr_eq' _ _ _ w.arr, getElem?_overwrite]
  by_cases hj : j < t.len
  · rw [if_pos hj]
    by_cases c1 : j < i
    · rw [if_neg (by omega)]
      rw [List.append_assoc, List.getElem?_append_left (by simp [hl]; omega)]
      rw [List.getElem?_take, if_pos c1, getElem?_read, if_pos hj]
    · by_cases c2 : j < i + vs.length
      · rw [if_pos (by omega)]
        rw [List.append_assoc, List.getElem?_append_right (by simp [hl]; omega)]
        rw [List.getElem?_append_left (by simp [hl]; omega)]
        congr 1
        simp [hl]; omega
      · rw [if_neg (by omega)]
        rw [List.getElem?_append_right (by simp [hl]; omega)]
        rw [List.getElem?_drop, getElem?_read]
        have e : i + vs.length + (j - (List.take i (read h t) ++ vs).length) = j := by simp [hl]; omega
        rw [e, if_pos hj]
  · rw [if_neg hj]
    symm
    apply List.getElem?_eq_none
    simp [hl]; omega

theorem read_mkSlice_self (h : Heap) (z : Cell) (n sp : Nat) : read (mkSlice h z n sp).1 (mkSlice h z n sp).2 = List.replicate n z := by
  simp [read, mkSlice, List.take_replicate]

theorem read_allocWith_self (orc : Oracle) (h : Heap) (cs : List Cell) : read (allocWith orc h cs).1 (allocWith orc h cs).2 = cs := by
  simp [read, allocWith]

theorem read_snoc_old (h : Heap) (x : List Cell) (s : Slice) (hs : s.arr < h.length) : read (h ++ [x]) s = read h s := by
  unfold read; rw [getD_append_lt h x _ hs]

theorem read_mkSlice_old (h : Heap) (z : Cell) (n sp : Nat) (s : Slice) (hs : s.arr < h.length) :
    read (mkSlice h z n sp).1 s = read h s := read_snoc_old h _ s hs

theorem read_allocWith_old (orc : Oracle) (h : Heap) (cs : List Cell) (s : Slice) (hs : s.arr < h.length) :
    read (allocWith orc h cs).1 s = read h s := read_snoc_old h _ s hs

/-- Go's `append`: whichever branch is taken, the result reads as the old contents followed by the new elements -/
theorem read_append (orc : Oracle) (z : Cell) (h : Heap) (s : Slice) (vs : List Cell) (w : s.WF h) :
    read (append orc z h s vs).1 (append orc z h s vs).2 = read h s ++ vs := by
  have hl := read_length w
  unfold append
  split
  · rename_i hfit
    -- in place: the cells [len, len + n) of the same array
    have w2 : Slice.WF h { s with len := s.len + vs.length } := ⟨w.arr, w.inb, hfit⟩
    have e : store h s s.len vs = store h { s with len := s.len + vs.length } s.len vs := rfl
    rw [e, read_store_self h _ s.len vs w2 (Nat.le_refl _)]
    have r2 : read h { s with len := s.len + vs.length } = read h s ++ (read h { s with len := s.len + vs.length }).drop s.len := by
      have : read h s = (read h { s with len := s.len + vs.length }).take s.len := by
        simp [read, List.take_take]
      rw [this, List.take_append_drop]
    have hl2 := read_length w2
    have t1 : (read h { s with len := s.len + vs.length }).take s.len = read h s := by simp [read, List.take_take]
    rw [t1]
    have t2 : (read h { s with len := s.len + vs.length }).drop (s.len + vs.length) = [] := by
      apply List.drop_eq_nil_of_le; simp [hl2]
    rw [t2]; simp
  · -- moved: a fresh array holding exactly the old contents and the new elements
    have wm := wf_mkSlice h z (s.len + vs.length) (orc h.length)
    rw [read_store_self _ _ 0 (read h s ++ vs) wm (by simp [hl, mkSlice])]
    have : (read (mkSlice h z (s.len + vs.length) (orc h.length)).1 (mkSlice h z (s.len + vs.length) (orc h.length)).2).drop
        (0 + (read h s ++ vs).length) = [] := by
      apply List.drop_eq_nil_of_le; simp [read_mkSlice_self, hl]
    rw [this]; simp

/-- `copy(dst, src)` onto a whole well-formed destination -/
theorem read_copy_self (h : Heap) (t : Slice) (src : List Cell) (w : t.WF h) :
    read (copy h t src) t = src.take t.len ++ (read h t).drop (src.take t.len).length := by
  unfold copy
  rw [read_store_self h t 0 _ w (by simp; omega)]
  simp

end Arrai.C03
