/-
  C03 — refinement: the value an operation of the heap model yields DENOTES what the specification says
  (`Spec.with_`, `Spec.without`, `Spec.offset` on `V`), for the operations that work on the slices directly
  (String/Bytes.with at either end or on a present element, Array.withItem, String/Bytes/Array.Without at an end, in
  the middle, or of an absent element, trimHoles / NewOffsetArray's trimming, OffsetExpr).
-/
import Arrai.C03.SeqDen
import Arrai.C03.WF

namespace Arrai.C03
open Impl

/-- `some (snap …)` of a result, `none` for a failed evaluation -/
def snapO (p : Heap × HVal) : Option V :=
  match p.2 with
  | .err => none
  | x => some (snap p.1 x)

theorem snapO_seq (h : Heap) (k : Kind) (s : Slice) (off : Int) (aux : Nat) :
    snapO (h, .seq k s off aux) = some (V.mkSeq k.attr off (read h s)) := rfl
theorem snapO_other (h : Heap) (v : V) : snapO (h, .other v) = some v := rfl

/-! ### list facts -/

theorem getElem?_toNat_of {cs : List Cell} {i : Int} {c : V} (h0 : 0 ≤ i) (e : cs[i.toNat]? = some (some c)) :
    ∃ j : Nat, cs[j]? = some (some c) ∧ i = (j : Int) := ⟨i.toNat, e, by omega⟩

theorem leadingNone_take (cs : List Cell) : ∀ j, j < leadingNone cs → cs[j]? = some none := by
  induction cs with
  | nil => intro j hj; simp [leadingNone] at hj
  | cons c r ih =>
    intro j hj
    cases c with
    | some v => simp [leadingNone] at hj
    | none =>
      cases j with
      | zero => rfl
      | succ j => simp only [leadingNone] at hj; simpa using ih j (by omega)

/-- dropping leading holes (and shifting the offset) does not change what the cells denote -/
theorem mkSeq_drop_leading (k : Kind) (off : Int) (cs : List Cell) (i : Nat) (hi : ∀ j, j < i → cs[j]? = some none ∨ cs[j]? = none) :
    V.mkSeq k.attr (off + i) (cs.drop i) = V.mkSeq k.attr off cs := by
  apply mkSeq_congr
  intro a v
  constructor
  · rintro ⟨j, hj, rfl⟩
    exact ⟨i + j, by simpa [List.getElem?_drop] using hj, by push_cast; omega⟩
  · rintro ⟨j, hj, rfl⟩
    have hij : i ≤ j := by
      rcases Nat.lt_or_ge j i with hlt | hge
      · rcases hi j hlt with e | e <;> rw [e] at hj <;> simp at hj
      · exact hge
    exact ⟨j - i, by rw [List.getElem?_drop]; have : i + (j - i) = j := by omega
                     rw [this]; exact hj, by push_cast; omega⟩

/-- dropping trailing cells that hold no value does not change what the cells denote -/
theorem mkSeq_take_trailing (k : Kind) (off : Int) (cs : List Cell) (n : Nat) (hn : ∀ j, n ≤ j → cs[j]? = some none ∨ cs[j]? = none) :
    V.mkSeq k.attr off (cs.take n) = V.mkSeq k.attr off cs := by
  apply mkSeq_congr
  intro a v
  constructor
  · rintro ⟨j, hj, rfl⟩
    rw [List.getElem?_take] at hj
    split at hj
    · exact ⟨j, hj, rfl⟩
    · simp at hj
  · rintro ⟨j, hj, rfl⟩
    have hjn : j < n := by
      rcases Nat.lt_or_ge j n with hlt | hge
      · exact hlt
      · rcases hn j hge with e | e <;> rw [e] at hj <;> simp at hj
    exact ⟨j, by rw [List.getElem?_take, if_pos hjn]; exact hj, rfl⟩

/-! ### reading re-slices -/

theorem read_reslice (h : Heap) (s : Slice) (i j : Nat) (w : s.WF h) (hij : i ≤ j) (hj : j ≤ s.len) :
    read h (reslice s i j) = ((read h s).drop i).take (j - i) := by
  have hinb := w.inb; have hlen := w.len
  apply List.ext_getElem?
  intro n
  rw [getElem?_read, List.getElem?_take]
  by_cases c : n < j - i
  · rw [if_pos (show n < (reslice s i j).len from c), if_pos c, List.getElem?_drop, getElem?_read, if_pos (by omega)]
    show (h.getD s.arr [])[s.lo + i + n]? = _
    congr 1; omega
  · rw [if_neg (show ¬ n < (reslice s i j).len from c), if_neg c]

/-! ### String.with / Bytes.with — the three slice cases -/

theorem index_eq {off : Int} {len : Nat} {at_ : Int} (h : 0 ≤ index off len at_) : index off len at_ = at_ - off := by
  unfold index at h ⊢
  split
  · rfl
  · rename_i c; rw [if_neg c] at h; omega

/-- `with` of an element that is already there: the value itself, and that is what the specification says -/
theorem with_present (k : Kind) (off : Int) (cs : List Cell) (at_ : Int) (c : V) (i : Int) (hi : i = at_ - off) (h0 : 0 ≤ i)
    (hc : cs[i.toNat]? = some (some c)) :
    Spec.with_ (V.mkSeq k.attr off cs) (tupleOf k at_ c) = some (V.mkSeq k.attr off cs) := by
  apply with_refines
  intro a v
  constructor
  · intro hx; exact Or.inl hx
  · rintro (hx | ⟨rfl, rfl⟩)
    · exact hx
    · exact ⟨i.toNat, hc, by omega⟩

/-- `with` at the end: the cells followed by the new element -/
theorem with_end (k : Kind) (off : Int) (cs : List Cell) (c : V) :
    Spec.with_ (V.mkSeq k.attr off cs) (tupleOf k (off + cs.length) c) = some (V.mkSeq k.attr off (cs ++ [some c])) := by
  apply with_refines
  intro a v
  constructor
  · rintro ⟨j, hj, rfl⟩
    by_cases hjl : j < cs.length
    · left; exact ⟨j, by rw [List.getElem?_append_left hjl] at hj; exact hj, rfl⟩
    · right
      rw [List.getElem?_append_right (by omega)] at hj
      have : j - cs.length = 0 := by
        rcases Nat.eq_zero_or_pos (j - cs.length) with e | hpos
        · exact e
        · have : ([some c] : List Cell)[j - cs.length]? = none := by
            apply List.getElem?_eq_none; simp; omega
          rw [this] at hj; simp at hj
      rw [this] at hj
      simp at hj
      exact ⟨by omega, hj.symm⟩
  · rintro (⟨j, hj, rfl⟩ | ⟨rfl, rfl⟩)
    · exact ⟨j, by rw [List.getElem?_append_left (pos_of_getElem? hj)]; exact hj, rfl⟩
    · exact ⟨cs.length, by simp, rfl⟩

/-- `with` just before the front: the new element followed by the cells, one index lower -/
theorem with_front (k : Kind) (off : Int) (cs : List Cell) (c : V) :
    Spec.with_ (V.mkSeq k.attr off cs) (tupleOf k (off - 1) c) = some (V.mkSeq k.attr (off - 1) (some c :: cs)) := by
  apply with_refines
  intro a v
  constructor
  · rintro ⟨j, hj, rfl⟩
    cases j with
    | zero => right; simp at hj; exact ⟨by simp, hj.symm⟩
    | succ j => left; exact ⟨j, by simpa using hj, by push_cast; omega⟩
  · rintro (⟨j, hj, rfl⟩ | ⟨rfl, rfl⟩)
    · exact ⟨j + 1, by simpa using hj, by push_cast; omega⟩
    · exact ⟨0, by simp, by simp⟩

/-! ### Without — at the front, at the end, in the middle, absent -/

theorem without_front (k : Kind) (off : Int) (cs : List Cell) (c : V) (hc : cs[0]? = some (some c)) :
    Spec.without (V.mkSeq k.attr off cs) (tupleOf k off c) = some (V.mkSeq k.attr (off + 1) (cs.drop 1)) := by
  apply without_refines
  intro a v
  constructor
  · rintro ⟨j, hj, rfl⟩
    refine ⟨⟨j + 1, by simpa [List.getElem?_drop, Nat.add_comm] using hj, by push_cast; omega⟩, ?_⟩
    rintro ⟨e, _⟩; omega
  · rintro ⟨⟨j, hj, rfl⟩, hne⟩
    cases j with
    | zero =>
      exfalso; apply hne
      rw [hc] at hj; simp at hj
      exact ⟨by simp, hj.symm⟩
    | succ j => exact ⟨j, by simpa [List.getElem?_drop, Nat.add_comm] using hj, by push_cast; omega⟩

theorem without_end (k : Kind) (off : Int) (cs : List Cell) (c : V) (hc : cs[cs.length - 1]? = some (some c)) :
    Spec.without (V.mkSeq k.attr off cs) (tupleOf k (off + ((cs.length - 1 : Nat) : Int)) c)
      = some (V.mkSeq k.attr off (cs.take (cs.length - 1))) := by
  apply without_refines
  intro a v
  constructor
  · rintro ⟨j, hj, rfl⟩
    rw [List.getElem?_take] at hj
    split at hj
    · rename_i hlt
      exact ⟨⟨j, hj, rfl⟩, by rintro ⟨e, _⟩; omega⟩
    · simp at hj
  · rintro ⟨⟨j, hj, rfl⟩, hne⟩
    have hjl := pos_of_getElem? hj
    by_cases hlast : j = cs.length - 1
    · exfalso; apply hne
      subst hlast
      rw [hc] at hj; simp at hj
      exact ⟨rfl, hj.symm⟩
    · exact ⟨j, by rw [List.getElem?_take, if_pos (by omega)]; exact hj, rfl⟩

/-- blanking cell `i` (the middle case: a copy with `newS[i] = -1` / `result.values[i] = nil`) -/
theorem without_mid (k : Kind) (off : Int) (cs : List Cell) (i : Nat) (c : V) (hc : cs[i]? = some (some c)) :
    Spec.without (V.mkSeq k.attr off cs) (tupleOf k (off + i) c)
      = some (V.mkSeq k.attr off (cs.take i ++ [none] ++ cs.drop (i + 1))) := by
  have hil := pos_of_getElem? hc
  have key : ∀ j, (cs.take i ++ [none] ++ cs.drop (i + 1))[j]? = if j = i then some none else cs[j]? := by
    intro j
    by_cases hji : j < i
    · rw [List.append_assoc, List.getElem?_append_left (by simp; omega), List.getElem?_take, if_pos hji, if_neg (by omega)]
    · by_cases e : j = i
      · subst e
        rw [List.append_assoc, List.getElem?_append_right (by simp; omega), if_pos rfl]
        simp [Nat.min_eq_left (Nat.le_of_lt hil)]
      · rw [if_neg e, List.getElem?_append_right (by simp; omega), List.getElem?_drop]
        congr 1; simp; omega
  apply without_refines
  intro a v
  constructor
  · rintro ⟨j, hj, rfl⟩
    rw [key] at hj
    split at hj
    · simp at hj
    · rename_i hne
      exact ⟨⟨j, hj, rfl⟩, by rintro ⟨e, _⟩; apply hne; omega⟩
  · rintro ⟨⟨j, hj, rfl⟩, hne⟩
    refine ⟨j, ?_, rfl⟩
    rw [key]
    split
    · rename_i e
      exfalso; apply hne
      subst e; rw [hc] at hj; simp at hj
      exact ⟨rfl, hj.symm⟩
    · exact hj

/-- removing something that is not there -/
theorem without_absent (k : Kind) (off : Int) (cs : List Cell) (at_ : Int) (c : V)
    (hno : ¬ ∃ j : Nat, cs[j]? = some (some c) ∧ at_ = off + j) :
    Spec.without (V.mkSeq k.attr off cs) (tupleOf k at_ c) = some (V.mkSeq k.attr off cs) := by
  apply without_refines
  intro a v
  constructor
  · rintro ⟨j, hj, rfl⟩
    exact ⟨⟨j, hj, rfl⟩, by rintro ⟨e, rfl⟩; exact hno ⟨j, hj, e.symm⟩⟩
  · rintro ⟨hx, _⟩; exact hx

/-! ### OffsetExpr: the same cells under a shifted offset -/

theorem decodeTuple_tup (k : Kind) (i : Int) (x : V) : decodeTuple (tup k i x) = some (k, i, x) := by
  cases k <;> simp [tup, decodeTuple, kindOfAttr, Kind.attr]

theorem shiftAt_tup (n : Int) (k : Kind) (i : Int) (x : V) : Spec.shiftAt n (tup k i x) = tup k (i + n) x := by
  simp [Spec.shiftAt, decodeTuple_tup, tupleOf_eq]

/-- shifting every member by `n` is the same cells at offset `off + n` -/
theorem offset_members (k : Kind) (off n : Int) (cs : List Cell) :
    V.mkSet ((members (V.mkSeq k.attr off cs)).map (Spec.shiftAt n)) = V.mkSeq k.attr (off + n) cs := by
  conv => rhs; unfold V.mkSeq
  apply mkSet_congr
  intro y
  rw [List.mem_map, mem_seqMembers]
  constructor
  · rintro ⟨x, hx, rfl⟩
    obtain ⟨j, v, hj, rfl⟩ := (mem_mkSeq k off cs x).1 hx
    exact ⟨j, v, hj, by rw [shiftAt_tup]; congr 1; omega⟩
  · rintro ⟨j, v, hj, rfl⟩
    exact ⟨tup k (off + j) v, (mem_mkSeq k off cs _).2 ⟨j, v, hj, rfl⟩, by rw [shiftAt_tup]; congr 1; omega⟩

end Arrai.C03
