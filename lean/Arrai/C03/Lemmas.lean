/-
  C03 — helper lemmas: every transliterated operation (as repaired) writes only into arrays it
  allocated itself (`Frame`), and its result lives in the new heap (`Live`).
-/
import Arrai.C03.Model

namespace Arrai.C03

/-- the value's slice (if it has one) points into the heap -/
def Live (h : Heap) (x : HVal) : Prop := ∀ s, x.slice? = some s → s.arr < h.length

/-- what every operation must satisfy: arrays that existed before are untouched, the result is live -/
def OpOK (h : Heap) (p : Heap × HVal) : Prop := Frame h.length h p.1 ∧ Live p.1 p.2

/-- a slice in an array allocated since `h0` (whose length is `base`) -/
structure Fresh (base : Nat) (h0 : Heap) (p : Heap × Slice) : Prop where
  frame : Frame base h0 p.1
  ge : base ≤ p.2.arr
  lt : p.2.arr < p.1.length

theorem live_other (h : Heap) (v : V) : Live h (.other v) := by intro s hs; simp [HVal.slice?] at hs
theorem live_err (h : Heap) : Live h .err := by intro s hs; simp [HVal.slice?] at hs
theorem live_hnone (h : Heap) : Live h hnone := live_other h _
theorem live_seq {h : Heap} {k : Kind} {s : Slice} {off : Int} {aux : Nat} (hs : s.arr < h.length) :
    Live h (.seq k s off aux) := by
  intro t ht; simp [HVal.slice?] at ht; subst ht; exact hs
theorem live_seq_iff {h : Heap} {k : Kind} {s : Slice} {off : Int} {aux : Nat} :
    Live h (.seq k s off aux) ↔ s.arr < h.length :=
  ⟨fun l => l s rfl, live_seq⟩

theorem Live.mono {h h' : Heap} {x : HVal} (l : Live h x) (hl : h.length ≤ h'.length) : Live h' x :=
  fun s hs => Nat.lt_of_lt_of_le (l s hs) hl

/-- reading a live value through a heap that differs only in newer arrays -/
theorem snap_frame {h h' : Heap} (f : Frame h.length h h') {x : HVal} (l : Live h x) : snap h' x = snap h x := by
  cases x with
  | seq k s off aux => simp only [snap]; rw [read_frame f s (l s rfl)]
  | other v => rfl
  | err => rfl

theorem cells_frame {h h' : Heap} (f : Frame h.length h h') {x : HVal} (l : Live h x) : cells h' x = cells h x := by
  cases x with
  | seq k s off aux => simp only [cells]; rw [read_frame f s (l s rfl)]
  | other v => rfl
  | err => rfl

/-! ### building blocks -/

theorem Fresh.ofMk {base : Nat} {h0 h : Heap} (f : Frame base h0 h) (hb : base ≤ h.length) (z : Cell) (n sp : Nat) :
    Fresh base h0 (mkSlice h z n sp) :=
  ⟨f.trans (frame_mkSlice base h z n sp hb), hb, by simp⟩

theorem Fresh.ofAlloc {base : Nat} {h0 h : Heap} (f : Frame base h0 h) (hb : base ≤ h.length) (orc : Oracle)
    (cs : List Cell) : Fresh base h0 (allocWith orc h cs) :=
  ⟨f.trans (frame_allocWith base orc h cs hb), hb, by simp⟩

theorem Fresh.base_le {base : Nat} {h0 : Heap} {p : Heap × Slice} (f : Fresh base h0 p) : base ≤ p.1.length :=
  Nat.le_of_lt (Nat.lt_of_le_of_lt f.ge f.lt)

theorem Fresh.append {base : Nat} {h0 : Heap} {p : Heap × Slice} (f : Fresh base h0 p) (orc : Oracle) (z : Cell)
    (vs : List Cell) : Fresh base h0 (Arrai.C03.append orc z p.1 p.2 vs) :=
  have a := frame_append base orc z p.1 p.2 vs f.base_le f.ge f.lt
  ⟨f.frame.trans a.1, a.2.1, a.2.2⟩

theorem Fresh.store {base : Nat} {h0 : Heap} {p : Heap × Slice} (f : Fresh base h0 p) (i : Nat) (vs : List Cell) :
    Fresh base h0 (Arrai.C03.store p.1 p.2 i vs, p.2) :=
  ⟨f.frame.trans (frame_store base p.1 p.2 i vs f.ge), f.ge, by simpa using f.lt⟩

theorem Fresh.copy {base : Nat} {h0 : Heap} {p : Heap × Slice} (f : Fresh base h0 p) (vs : List Cell) :
    Fresh base h0 (Arrai.C03.copy p.1 p.2 vs, p.2) := f.store 0 _

theorem Fresh.storeAt {base : Nat} {h0 : Heap} {p : Heap × Slice} (f : Fresh base h0 p) (t : Slice)
    (ht : t.arr = p.2.arr) (i : Nat) (vs : List Cell) : Fresh base h0 (Arrai.C03.store p.1 t i vs, p.2) :=
  ⟨f.frame.trans (frame_store base p.1 t i vs (by rw [ht]; exact f.ge)), f.ge, by simpa using f.lt⟩

theorem Fresh.reslice {base : Nat} {h0 : Heap} {p : Heap × Slice} (f : Fresh base h0 p) (i j : Nat) :
    Fresh base h0 (p.1, Arrai.C03.reslice p.2 i j) := ⟨f.frame, f.ge, f.lt⟩

theorem Fresh.appendAll {base : Nat} {h0 : Heap} (orc : Oracle) (z : Cell) (chunks : List (List Cell))
    {p : Heap × Slice} (f : Fresh base h0 p) : Fresh base h0 (Impl.appendAll orc z p chunks) := by
  unfold Impl.appendAll
  induction chunks generalizing p with
  | nil => exact f
  | cons c r ih => exact ih (f.append orc z c)

theorem Fresh.foldStore {base : Nat} {h0 : Heap} {α : Type} (t : Slice) (g : α → Nat) (w : α → List Cell) (xs : List α)
    {h : Heap} (f : Fresh base h0 (h, t)) :
    Fresh base h0 (xs.foldl (fun hh x => Arrai.C03.store hh t (g x) (w x)) h, t) := by
  induction xs generalizing h with
  | nil => exact f
  | cons x r ih => exact ih (f.store (g x) (w x))

/-- the start of every operation: nothing has happened yet -/
theorem Frame.start (h : Heap) : Frame h.length h h := Frame.refl _ _

theorem OpOK.ofFresh {h : Heap} {p : Heap × Slice} (f : Fresh h.length h p) (k : Kind) (off : Int) (aux : Nat) :
    OpOK h (p.1, .seq k p.2 off aux) := ⟨f.frame, live_seq f.lt⟩

theorem OpOK.same {h : Heap} {x : HVal} (l : Live h x) : OpOK h (h, x) := ⟨Frame.start h, l⟩

theorem OpOK.frame_live {h h' : Heap} {x : HVal} (f : Frame h.length h h') (l : Live h' x) : OpOK h (h', x) := ⟨f, l⟩

/-! ### constructors keep the array of the slice they are given -/

/-- every slice of `x` lies in array `a` -/
def InArr (x : HVal) (a : Nat) : Prop := ∀ t, x.slice? = some t → t.arr = a

theorem InArr.live {x : HVal} {a : Nat} (i : InArr x a) {h : Heap} (ha : a < h.length) : Live h x :=
  fun t ht => by rw [i t ht]; exact ha

theorem inArr_hnone (a : Nat) : InArr hnone a := by intro t ht; simp [hnone, HVal.slice?] at ht
theorem inArr_seq (k : Kind) (s : Slice) (off : Int) (aux : Nat) : InArr (.seq k s off aux) s.arr := by
  intro t ht; simp [HVal.slice?] at ht; subst ht; rfl

theorem inArr_newOffsetString (h : Heap) (s : Slice) (off : Int) : InArr (Impl.newOffsetString h s off) s.arr := by
  unfold Impl.newOffsetString; split
  · exact inArr_hnone _
  · exact inArr_seq _ _ _ _

theorem inArr_newOffsetBytes (s : Slice) (off : Int) : InArr (Impl.newOffsetBytes s off) s.arr := by
  unfold Impl.newOffsetBytes; split
  · exact inArr_hnone _
  · exact inArr_seq _ _ _ _

theorem trimFront_arr (h : Heap) (s : Slice) (off : Int) : (Impl.trimFront h s off).1.arr = s.arr := by
  unfold Impl.trimFront; simp only []; split <;> rfl

theorem trimBack_arr (h : Heap) (s : Slice) : (Impl.trimBack h s).arr = s.arr := by
  unfold Impl.trimBack; simp only []; split <;> rfl

theorem inArr_newOffsetArray (h : Heap) (off : Int) (s : Slice) : InArr (Impl.newOffsetArray h off s) s.arr := by
  unfold Impl.newOffsetArray
  simp only []
  split
  · exact inArr_hnone _
  · split
    · exact inArr_hnone _
    · intro t ht
      simp only [HVal.slice?, Option.some.injEq] at ht
      subst ht
      rw [trimBack_arr, trimFront_arr]

/-! ### the operations -/

theorem opOK_asSeq (k : Kind) (h : Heap) (ps : List (Int × V)) : OpOK h (Impl.asSeq k h ps) := by
  unfold Impl.asSeq
  cases ps with
  | nil => exact OpOK.same (live_hnone h)
  | cons p r =>
    simp only []
    have f0 : Fresh h.length h (mkSlice h k.fill
        ((maxIdx (p :: r) - minIdx (p :: r) + 1).toNat) 0) := Fresh.ofMk (Frame.start h) (Nat.le_refl _) _ _ _
    have f1 := Fresh.foldStore (mkSlice h k.fill
        ((maxIdx (p :: r) - minIdx (p :: r) + 1).toNat) 0).2
        (fun iv : Int × V => (iv.1 - minIdx (p :: r)).toNat) (fun iv => [some iv.2]) (p :: r) f0
    exact OpOK.ofFresh f1 _ _ _

theorem opOK_finishV (h : Heap) (v : V) : OpOK h (Impl.finishV h v) := by
  unfold Impl.finishV
  split
  · exact opOK_asSeq _ _ _
  · exact OpOK.same (live_other h v)

theorem opOK_viaBuilder (h : Heap) (o : Option V) : OpOK h (Impl.viaBuilder h o) := by
  cases o with
  | none => exact OpOK.same (live_err h)
  | some v => exact opOK_finishV h v

theorem opOK_joinResult (h : Heap) (o : Option V) : OpOK h (Impl.joinResult h o) := by
  cases o with
  | none => exact OpOK.same (live_err h)
  | some v =>
    simp only [Impl.joinResult]
    split
    · exact opOK_asSeq _ _ _
    · exact OpOK.same (live_other h v)

theorem opOK_freshSeq (orc : Oracle) (k : Kind) (h : Heap) (xs : List V) : OpOK h (Impl.freshSeq orc k h xs) := by
  unfold Impl.freshSeq
  split
  · exact OpOK.same (live_hnone h)
  · exact OpOK.ofFresh (Fresh.ofAlloc (Frame.start h) (Nat.le_refl _) orc _) _ _ _

theorem opOK_freshOpt (orc : Oracle) (k : Kind) (h : Heap) (o : Option (List V)) : OpOK h (Impl.freshOpt orc k h o) := by
  cases o with
  | none => exact OpOK.same (live_err h)
  | some xs => exact opOK_freshSeq orc k h xs

/-- the repaired `String.with` / `Bytes.with` -/
theorem opOK_seqWith (orc : Oracle) (k : Kind) (h : Heap) (s : Slice) (off : Int) (aux : Nat) (at_ : Int) (c : V)
    (hs : s.arr < h.length) : OpOK h (Impl.seqWith true orc k h s off aux at_ c) := by
  unfold Impl.seqWith
  simp only [if_true]
  have f1 : Fresh h.length h (mkSlice h k.zero 0 (1 + s.len)) := Fresh.ofMk (Frame.start h) (Nat.le_refl _) _ _ _
  split
  · exact OpOK.same (live_seq hs)
  · split
    · exact OpOK.ofFresh ((f1.append orc k.zero _).append orc k.zero _) _ _ _
    · split
      · exact OpOK.ofFresh ((f1.append orc k.zero _).append orc k.zero _) _ _ _
      · split
        · exact opOK_finishV _ _
        · exact OpOK.same (live_other h _)

theorem inArr_trimHoles (h : Heap) (s : Slice) (off : Int) (holes : Nat) : (Impl.trimHoles h s off holes).1.arr = s.arr := rfl

theorem opOK_strWithout (h : Heap) (s : Slice) (off : Int) (holes : Nat) (at_ : Int) (c : V)
    (hs : s.arr < h.length) : OpOK h (Impl.strWithout h s off holes at_ c) := by
  unfold Impl.strWithout
  simp only []
  have f1 : Fresh h.length h (mkSlice h (Kind.zero .S) s.len 0) := Fresh.ofMk (Frame.start h) (Nat.le_refl _) _ _ _
  have f3 := (f1.copy (read h s)).store (Impl.index off s.len at_).toNat [none]
  -- whichever case applies, the result's slice is a re-slice (trimHoles) of the receiver's or of the fresh copy
  split <;> rename_i h1
  · split
    · exact OpOK.same (live_hnone h)
    · exact OpOK.same (live_seq (by rw [inArr_trimHoles]; exact hs))
  · split <;> rename_i h2
    · split
      · exact OpOK.same (live_hnone h)
      · exact OpOK.same (live_seq (by rw [inArr_trimHoles]; exact hs))
    · split <;> rename_i h3
      · split
        · exact ⟨f3.frame, live_hnone _⟩
        · exact ⟨f3.frame, live_seq (by rw [inArr_trimHoles]; exact f3.lt)⟩
      · split
        · exact OpOK.same (live_hnone h)
        · exact OpOK.same (live_seq (by rw [inArr_trimHoles]; exact hs))

theorem opOK_bytesWithout (h : Heap) (s : Slice) (off : Int) (at_ : Int) (c : V)
    (hs : s.arr < h.length) : OpOK h (Impl.bytesWithout h s off at_ c) := by
  unfold Impl.bytesWithout
  simp only []
  split
  · split
    · exact OpOK.same (live_hnone h)
    · split
      · exact OpOK.same (live_seq hs)
      · split
        · exact OpOK.same (live_seq hs)
        · exact OpOK.same (live_other h _)
  · exact OpOK.same (live_seq hs)

theorem fresh_clone (h : Heap) (s : Slice) : Fresh h.length h (Impl.clone h s) :=
  (Fresh.ofMk (Frame.start h) (Nat.le_refl _) none s.len 0).copy (read h s)

theorem opOK_withItem (h : Heap) (s : Slice) (off : Int) (count : Nat) (at_ : Int) (item : V)
    (hs : s.arr < h.length) : OpOK h (Impl.withItem h s off count at_ item) := by
  unfold Impl.withItem
  simp only []
  split
  · have f1 : Fresh h.length h (mkSlice h none (s.len + (-(at_ - off)).toNat) 0) :=
      Fresh.ofMk (Frame.start h) (Nat.le_refl _) _ _ _
    have f2 := f1.storeAt (reslice (mkSlice h none (s.len + (-(at_ - off)).toNat) 0).2 (-(at_ - off)).toNat
      (mkSlice h none (s.len + (-(at_ - off)).toNat) 0).2.len) rfl 0 ((read h s).take
        (reslice (mkSlice h none (s.len + (-(at_ - off)).toNat) 0).2 (-(at_ - off)).toNat
      (mkSlice h none (s.len + (-(at_ - off)).toNat) 0).2.len).len)
    exact OpOK.ofFresh (f2.store 0 [some item]) _ _ _
  · split
    · have f1 : Fresh h.length h (mkSlice h none ((at_ - off).toNat + 1) 0) :=
        Fresh.ofMk (Frame.start h) (Nat.le_refl _) _ _ _
      exact OpOK.ofFresh ((f1.copy (read h s)).store _ [some item]) _ _ _
    · split
      · exact OpOK.same (live_seq hs)
      · have f1 : Fresh h.length h (mkSlice h none s.len 0) := Fresh.ofMk (Frame.start h) (Nat.le_refl _) _ _ _
        split
        · exact OpOK.ofFresh ((f1.copy (read h s)).store _ [some item]) _ _ _
        · exact ⟨(f1.copy (read h s)).frame, live_other _ _⟩

theorem opOK_arrWithout (h : Heap) (s : Slice) (off : Int) (count : Nat) (at_ : Int) (item : V)
    (hs : s.arr < h.length) : OpOK h (Impl.arrWithout h s off count at_ item) := by
  unfold Impl.arrWithout
  simp only []
  split
  · split
    · exact OpOK.same ((inArr_newOffsetArray h _ (reslice s 1 s.len)).live hs)
    · split
      · exact OpOK.same ((inArr_newOffsetArray h _ (reslice s 0 (s.len - 1))).live hs)
      · have f := (fresh_clone h s).store (at_ - off).toNat [none]
        split
        · exact ⟨f.frame, live_hnone _⟩
        · exact OpOK.ofFresh f _ _ _
  · exact OpOK.same (live_seq hs)

theorem opOK_arrWhere (h : Heap) (s : Slice) (off : Int) (p : Int → V → Bool) : OpOK h (Impl.arrWhere h s off p) := by
  unfold Impl.arrWhere
  simp only []
  have f := (fresh_clone h s).store 0 (Impl.whereCells p off (read h s))
  split
  · exact ⟨f.frame, live_hnone _⟩
  · refine ⟨f.frame, live_seq ?_⟩
    have := f.lt
    split <;> split <;> simpa using this

theorem opOK_withV (orc : Oracle) (h : Heap) (x : HVal) (k : Kind) (at_ : Int) (c : V) (l : Live h x) :
    OpOK h (Impl.withV true orc h x k at_ c) := by
  unfold Impl.withV
  cases x with
  | seq k' s off aux =>
    have hs := live_seq_iff.1 l
    simp only []
    split
    · cases k with
      | S => exact opOK_seqWith orc _ h s off aux at_ c hs
      | B => exact opOK_seqWith orc _ h s off aux at_ c hs
      | A => exact opOK_withItem h s off aux at_ c hs
    · exact OpOK.same (live_other h _)
  | other v =>
    simp only []
    split
    · split
      · exact opOK_finishV h _
      · exact OpOK.same (live_other h _)
    · exact OpOK.same (live_err h)
  | err => exact OpOK.same (live_err h)

theorem opOK_withoutV (h : Heap) (x : HVal) (k : Kind) (at_ : Int) (c : V) (l : Live h x) :
    OpOK h (Impl.withoutV h x k at_ c) := by
  unfold Impl.withoutV
  cases x with
  | seq k' s off aux =>
    have hs := live_seq_iff.1 l
    simp only []
    split
    · cases k with
      | S => exact opOK_strWithout h s off aux at_ c hs
      | B => exact opOK_bytesWithout h s off at_ c hs
      | A => exact opOK_arrWithout h s off aux at_ c hs
    · exact OpOK.same l
  | other v =>
    simp only []
    split
    · exact OpOK.same (live_other h _)
    · exact OpOK.same (live_err h)
  | err => exact OpOK.same (live_err h)

theorem live_offsetV (h : Heap) (x : HVal) (n : Int) (l : Live h x) : Live h (Impl.offsetV h x n) := by
  unfold Impl.offsetV
  cases x with
  | seq k s off aux =>
    have hs := live_seq_iff.1 l
    cases k with
    | S => exact (inArr_newOffsetString h s _).live hs
    | B => exact (inArr_newOffsetBytes s _).live hs
    | A => exact (inArr_newOffsetArray h _ s).live hs
  | other v =>
    simp only []
    split
    · exact live_hnone h
    · exact live_err h
  | err => exact live_err h

theorem opOK_whereV (h : Heap) (x : HVal) (p : Pred) : OpOK h (Impl.whereV h x p) := by
  unfold Impl.whereV
  split
  · split
    · exact opOK_arrWhere _ _ _ _
    · exact OpOK.same (live_err h)
  · exact opOK_viaBuilder _ _

theorem opOK_smapV (h : Heap) (x : HVal) (f : Fn) : OpOK h (Impl.smapV h x f) := by
  unfold Impl.smapV
  cases x with
  | seq k s off aux =>
    simp only []
    split
    · rename_i cs' _
      have f2 := (Fresh.ofMk (Frame.start h) (Nat.le_refl _) k.zero s.len 0).store 0 cs'
      refine ⟨f2.frame, ?_⟩
      cases k with
      | S => exact (inArr_newOffsetString _ _ _).live f2.lt
      | B => exact (inArr_newOffsetBytes _ _).live f2.lt
      | A => exact (inArr_newOffsetArray _ _ _).live f2.lt
    · exact OpOK.same (live_err h)
  | other v =>
    simp only []
    split
    · exact OpOK.same (live_hnone h)
    · exact OpOK.same (live_err h)
  | err => exact OpOK.same (live_err h)

/-- operations compose: a later operation's frame is relative to the heap it starts from -/
theorem OpOK.trans {h : Heap} {p : Heap × HVal} {q : Heap × HVal} (a : OpOK h p) (b : OpOK p.1 q) : OpOK h q := by
  refine ⟨?_, b.2⟩
  refine ⟨Nat.le_trans a.1.1 b.1.1, fun i hi => ?_⟩
  rw [b.1.2 i (Nat.lt_of_lt_of_le hi a.1.1), a.1.2 i hi]

theorem opOK_foldWith (orc : Oracle) (k : Kind) (ivs : List (Int × V)) (h : Heap) (p : Heap × HVal) (a : OpOK h p) :
    OpOK h (ivs.foldl (fun p iv => Impl.withV true orc p.1 p.2 k iv.1 iv.2) p) := by
  induction ivs generalizing p with
  | nil => exact a
  | cons iv r ih => exact ih _ (a.trans (opOK_withV orc p.1 p.2 k iv.1 iv.2 a.2))

theorem opOK_unionV (orc : Oracle) (h : Heap) (a b : HVal) (la : Live h a) (lb : Live h b) :
    OpOK h (Impl.unionV true orc h a b) := by
  unfold Impl.unionV
  split
  · exact OpOK.same (live_err h)
  · exact OpOK.same (live_err h)
  · split
    · exact opOK_foldWith orc _ _ h _ (OpOK.same la)
    · exact opOK_viaBuilder _ _
  · split
    · exact OpOK.same lb
    · split
      · exact OpOK.same la
      · exact opOK_viaBuilder _ _

theorem live_restV (h : Heap) (x : HVal) (k : Nat) (e : Bool) (l : Live h x) : Live h (Impl.restV h x k e) := by
  unfold Impl.restV
  split
  · rename_i s _ count
    have hs : s.arr < h.length := l s rfl
    split
    · split
      · exact (inArr_newOffsetArray h 0 (reslice s 0 (count - k))).live hs
      · exact (inArr_newOffsetArray h 0 (reslice s k count)).live hs
    · exact live_err h
  · exact live_err h

/-- `denseCells` hands back the value's own slice -/
theorem denseCells_slice {h : Heap} {x : HVal} {k : Kind} {s : Slice} {xs : List V}
    (e : Impl.denseCells h x = some (k, s, xs)) : x.slice? = some s := by
  unfold Impl.denseCells at e
  cases x with
  | seq k' s' off aux =>
    simp only [] at e
    split at e
    · simp only [Option.map_eq_some_iff] at e
      obtain ⟨_, _, e⟩ := e
      simp at e
      simp [HVal.slice?, e.2.1]
    · simp at e
  | other v => simp at e
  | err => simp at e

theorem opOK_arrLoop (orc : Oracle) (h : Heap) (n : Nat) (chunks : List (List Cell)) :
    OpOK h ((Impl.appendAll orc none (mkSlice h none 0 n) chunks).1,
      Impl.newOffsetArray (Impl.appendAll orc none (mkSlice h none 0 n) chunks).1 0
        (Impl.appendAll orc none (mkSlice h none 0 n) chunks).2) := by
  have f := Fresh.appendAll orc none chunks (Fresh.ofMk (Frame.start h) (Nat.le_refl _) none 0 n)
  exact ⟨f.frame, (inArr_newOffsetArray _ _ _).live f.lt⟩

/-! ### one step of a history -/

/-- every value created so far lives in the heap -/
def Inv (st : Impl.St) : Prop := ∀ x, x ∈ st.vals → Live st.h x

theorem Inv.getD {st : Impl.St} (inv : Inv st) (i : Nat) : Live st.h (st.vals.getD i .err) := by
  unfold List.getD
  cases e : st.vals[i]? with
  | none => exact live_err _
  | some x => exact inv x (List.mem_of_getElem? e)

theorem inv_init : Inv Impl.init := by intro x hx; simp [Impl.init] at hx

/-- the repaired operations write only into arrays they allocated themselves -/
theorem opOK_run1 (orc : Oracle) (st : Impl.St) (inv : Inv st) (op : Op) : OpOK st.h (Impl.run1 true orc st op) := by
  cases op with
  | root k off cs =>
    simp only [Impl.run1]
    have f := Fresh.ofAlloc (Frame.start st.h) (Nat.le_refl _) orc cs
    refine ⟨f.frame, ?_⟩
    cases k with
    | S => exact (inArr_newOffsetString _ _ _).live f.lt
    | B => exact (inArr_newOffsetBytes _ _).live f.lt
    | A => exact (inArr_newOffsetArray _ _ _).live f.lt
  | const v => exact OpOK.same (live_other _ v)
  | with_ i k at_ x => exact opOK_withV orc st.h _ k at_ x (inv.getD i)
  | without i k at_ x => exact opOK_withoutV st.h _ k at_ x (inv.getD i)
  | offset i n => exact OpOK.same (live_offsetV st.h _ n (inv.getD i))
  | where_ i p => exact opOK_whereV st.h _ p
  | smap i f => exact opOK_smapV st.h _ f
  | concat i j => exact opOK_viaBuilder _ _
  | union i j => exact opOK_unionV orc st.h _ _ (inv.getD i) (inv.getD j)
  | join i j => exact opOK_joinResult _ _
  | rest i k => exact OpOK.same (live_restV st.h _ k false (inv.getD i))
  | front i k => exact OpOK.same (live_restV st.h _ k true (inv.getD i))
  | trimPrefix p s =>
    simp only [Impl.run1]
    split
    · rename_i kp _ xp ks ss xs e1 e2
      have hss : ss.arr < st.h.length := inv.getD s ss (denseCells_slice e2)
      split
      · exact OpOK.same (live_err _)
      · cases ks with
        | S => exact opOK_freshSeq _ _ _ _
        | B =>
          simp only []
          split
          · exact OpOK.same ((inArr_newOffsetBytes _ _).live hss)
          · exact OpOK.same (live_seq hss)
        | A =>
          simp only []
          split
          · exact opOK_viaBuilder _ _
          · exact OpOK.same (inv.getD s)
    · exact OpOK.same (live_err _)
  | trimSuffix p s =>
    simp only [Impl.run1]
    split
    · rename_i kp _ xp ks ss xs e1 e2
      have hss : ss.arr < st.h.length := inv.getD s ss (denseCells_slice e2)
      split
      · exact OpOK.same (live_err _)
      · cases ks with
        | S => exact opOK_freshSeq _ _ _ _
        | B =>
          simp only []
          split
          · exact OpOK.same ((inArr_newOffsetBytes _ _).live hss)
          · exact OpOK.same (live_seq hss)
        | A =>
          simp only []
          split
          · exact opOK_viaBuilder _ _
          · exact OpOK.same (inv.getD s)
    · exact OpOK.same (live_err _)
  | sub o n s =>
    simp only [Impl.run1]
    split
    · rename_i ko _ xo kn _ xn ks _ xs e1 e2 e3
      split
      · exact OpOK.same (live_err _)
      · cases ks with
        | S => exact opOK_freshSeq _ _ _ _
        | B => exact opOK_freshSeq _ _ _ _
        | A => exact opOK_arrLoop orc st.h _ _
    · exact OpOK.same (live_err _)
  | split d s =>
    simp only [Impl.run1]
    split
    · split
      · exact OpOK.same (live_err _)
      · exact opOK_freshSeq _ _ _ _
    · exact OpOK.same (live_err _)
  | piece d s k =>
    simp only [Impl.run1]
    split
    · rename_i kd _ xd ks ss xs e1 e2
      have hss : ss.arr < st.h.length := inv.getD s ss (denseCells_slice e2)
      split
      · exact OpOK.same (live_err _)
      · cases ks with
        | S => exact opOK_freshOpt _ _ _ _
        | B => exact opOK_freshOpt _ _ _ _
        | A =>
          simp only []
          split
          · exact OpOK.same ((inArr_newOffsetArray _ _ _).live hss)
          · exact OpOK.same (live_err _)
    · exact OpOK.same (live_err _)
  | sjoin d s =>
    simp only [Impl.run1]
    split
    · rename_i kd _ xd _ items e1 e2
      split
      · cases kd with
        | S => exact opOK_freshSeq _ _ _ _
        | B => exact OpOK.same (live_err _)
        | A => exact opOK_arrLoop orc st.h _ _
      · exact OpOK.same (live_err _)
    · exact OpOK.same (live_err _)
  | repeat_ n i =>
    simp only [Impl.run1]
    split
    · exact opOK_arrLoop orc st.h _ _
    · exact opOK_freshSeq _ _ _ _
    · exact OpOK.same (live_err _)
  | sconcat i j =>
    simp only [Impl.run1]
    split
    · rename_i ki _ xi kj _ xj e1 e2
      split
      · exact OpOK.same (live_err _)
      · cases ki with
        | S => exact opOK_freshSeq _ _ _ _
        | B => exact opOK_viaBuilder _ _
        | A => exact opOK_viaBuilder _ _
    · exact OpOK.same (live_err _)

/-! ### what the repaired `with` computes -/

section WithValue
open Impl
theorem getD_snoc_self (h : Heap) (x : List Cell) : (h ++ [x]).getD h.length [] = x := by simp [List.getD]

theorem getD_updArr_eq (h : Heap) (a : Nat) (f : List Cell → List Cell) (ha : a < h.length) :
    (updArr h a f).getD a [] = f (h.getD a []) := by
  induction h generalizing a with
  | nil => simp at ha
  | cons x r ih =>
    cases a with
    | zero => simp [updArr]
    | succ a => simpa [updArr] using ih a (by simpa using ha)

theorem overwrite_nil (xs : List Cell) (k : Nat) : overwrite xs k [] = xs := by
  induction xs generalizing k with
  | nil => rfl
  | cons x r ih => cases k <;> simp [overwrite, ih]

theorem overwrite_zero_replicate (n : Nat) (z : Cell) (cs : List Cell) (h : cs.length ≤ n) :
    overwrite (List.replicate n z) 0 cs = cs ++ List.replicate (n - cs.length) z := by
  induction cs generalizing n with
  | nil => simp [overwrite_nil]
  | cons c r ih =>
    cases n with
    | zero => simp at h
    | succ n => simp [List.replicate_succ, overwrite, ih n (by simpa using h)]

theorem overwrite_at_end (cs rest : List Cell) (c x : Cell) :
    overwrite (cs ++ x :: rest) cs.length [c] = cs ++ c :: rest := by
  induction cs with
  | nil => simp [overwrite, overwrite_nil]
  | cons a r ih => simp [overwrite, ih]

/-- the repaired `String.with` / `Bytes.with` at the end: the result reads as the old contents followed by the new
element (for a slice that lies inside its array) — so the "copy" is a copy -/
theorem seqWith_end_cells (orc : Oracle) (k : Kind) (h : Heap) (s : Slice) (off : Int) (aux : Nat) (c : V)
    (hlen : (read h s).length = s.len) :
    cells (seqWith true orc k h s off aux (off + s.len) c).1 (seqWith true orc k h s off aux (off + s.len) c).2
      = read h s ++ [some c] := by
  have hi : index off s.len (off + s.len) = s.len := by
    have e : off + (s.len : Int) - off = (s.len : Int) := by omega
    simp [index, e]
  unfold seqWith
  simp only [hi]
  have h1 : ¬ ((0:Int) ≤ (s.len:Int) ∧ (s.len:Int) < (s.len:Int) ∧ (read h s)[(s.len:Int).toNat]? = some (some c)) := by
    intro hh; omega
  rw [if_neg h1]
  simp only [if_true]
  -- the two appends are in place, inside the array made for the result
  have e2 : append orc k.zero (mkSlice h k.zero 0 (1 + s.len)).1 (mkSlice h k.zero 0 (1 + s.len)).2 (read h s)
      = (store (h ++ [List.replicate (1 + s.len) k.zero]) ⟨h.length, 0, 0, 1 + s.len⟩ 0 (read h s),
         ⟨h.length, 0, s.len, 1 + s.len⟩) := by
    simp [append, mkSlice, hlen]
  rw [e2]
  have e3 : append orc k.zero (store (h ++ [List.replicate (1 + s.len) k.zero]) ⟨h.length, 0, 0, 1 + s.len⟩ 0 (read h s))
      ⟨h.length, 0, s.len, 1 + s.len⟩ [some c]
      = (store (store (h ++ [List.replicate (1 + s.len) k.zero]) ⟨h.length, 0, 0, 1 + s.len⟩ 0 (read h s))
          ⟨h.length, 0, s.len, 1 + s.len⟩ s.len [some c], ⟨h.length, 0, s.len + 1, 1 + s.len⟩) := by
    simp [append]; omega
  rw [e3]
  clear e2 e3 h1
  generalize read h s = cs at hlen ⊢
  simp only [cells, read, store]
  rw [getD_updArr_eq _ _ _ (by simp [length_updArr]), getD_updArr_eq _ _ _ (by simp), getD_snoc_self]
  simp only [Nat.zero_add, List.drop_zero]
  rw [overwrite_zero_replicate _ _ _ (by omega)]
  have e : 1 + s.len - cs.length = 1 := by omega
  rw [e]
  simp only [List.replicate_one]
  have hl := overwrite_at_end cs [] (some c) k.zero
  rw [hlen] at hl
  rw [hl]
  exact List.take_of_length_le (by simp [hlen])

end WithValue

end Arrai.C03
