/-
  C03 — in-bounds well-formedness of the sequence values: every slice a value holds lies inside its backing array
  (`Slice.WF`), is established by every constructor and preserved by every (repaired) operation; every operation keeps
  the lengths of all existing arrays (`Shape`), so values made earlier stay well-formed.
-/
import Arrai.C03.HeapLemmas
import Arrai.C03.Lemmas

namespace Arrai.C03

/-- the value's slice (if any) lies inside its backing array -/
def WFH (h : Heap) : HVal → Prop
  | .seq _ s _ _ => s.WF h
  | _ => True

theorem WFH.shape {h h' : Heap} {x : HVal} (w : WFH h x) (sh : Shape h h') : WFH h' x := by
  cases x with
  | seq k s off aux => exact Slice.WF.shape w sh
  | other v => trivial
  | err => trivial

/-- what every operation must satisfy: array lengths kept, result well-formed -/
def WFOK (h : Heap) (p : Heap × HVal) : Prop := Shape h p.1 ∧ WFH p.1 p.2

theorem WFOK.same {h : Heap} {x : HVal} (w : WFH h x) : WFOK h (h, x) := ⟨Shape.refl h, w⟩
theorem wfh_hnone (h : Heap) : WFH h hnone := trivial
theorem wfh_other (h : Heap) (v : V) : WFH h (.other v) := trivial
theorem wfh_err (h : Heap) : WFH h .err := trivial

theorem WFOK.trans {h : Heap} {p q : Heap × HVal} (a : WFOK h p) (b : WFOK p.1 q) : WFOK h q := ⟨a.1.trans b.1, b.2⟩

/-- a well-formed slice produced on the way from `h` -/
structure FW (h : Heap) (p : Heap × Slice) : Prop where
  shape : Shape h p.1
  wf : p.2.WF p.1

theorem FW.ofMk {h h1 : Heap} (sh : Shape h h1) (z : Cell) (n sp : Nat) : FW h (mkSlice h1 z n sp) :=
  ⟨sh.trans (shape_mkSlice h1 z n sp), wf_mkSlice h1 z n sp⟩
theorem FW.ofAlloc {h h1 : Heap} (sh : Shape h h1) (orc : Oracle) (cs : List Cell) : FW h (allocWith orc h1 cs) :=
  ⟨sh.trans (shape_allocWith orc h1 cs), wf_allocWith orc h1 cs⟩
theorem FW.append {h : Heap} {p : Heap × Slice} (f : FW h p) (orc : Oracle) (z : Cell) (vs : List Cell) :
    FW h (Arrai.C03.append orc z p.1 p.2 vs) :=
  ⟨f.shape.trans (shape_append orc z p.1 p.2 vs), wf_append orc z p.1 p.2 vs f.wf⟩
/-- a store anywhere keeps every slice well-formed -/
theorem FW.storeAny {h : Heap} {p : Heap × Slice} (f : FW h p) (t : Slice) (i : Nat) (vs : List Cell) :
    FW h (Arrai.C03.store p.1 t i vs, p.2) :=
  ⟨f.shape.trans (shape_store p.1 t i vs), f.wf.shape (shape_store p.1 t i vs)⟩
theorem FW.store {h : Heap} {p : Heap × Slice} (f : FW h p) (i : Nat) (vs : List Cell) :
    FW h (Arrai.C03.store p.1 p.2 i vs, p.2) := f.storeAny p.2 i vs
theorem FW.copy {h : Heap} {p : Heap × Slice} (f : FW h p) (vs : List Cell) :
    FW h (Arrai.C03.copy p.1 p.2 vs, p.2) := f.storeAny p.2 0 _
theorem FW.copyAny {h : Heap} {p : Heap × Slice} (f : FW h p) (t : Slice) (vs : List Cell) :
    FW h (Arrai.C03.copy p.1 t vs, p.2) := f.storeAny t 0 _
theorem FW.reslice {h : Heap} {p : Heap × Slice} (f : FW h p) (i j : Nat) (hij : i ≤ j) (hj : j ≤ p.2.cap) :
    FW h (p.1, Arrai.C03.reslice p.2 i j) := ⟨f.shape, wf_reslice f.wf i j hij hj⟩

theorem FW.appendAll {h : Heap} (orc : Oracle) (z : Cell) (chunks : List (List Cell)) {p : Heap × Slice} (f : FW h p) :
    FW h (Impl.appendAll orc z p chunks) := by
  unfold Impl.appendAll
  induction chunks generalizing p with
  | nil => exact f
  | cons c r ih => exact ih (f.append orc z c)

theorem FW.foldStore {h : Heap} {α : Type} (t : Slice) (g : α → Nat) (w : α → List Cell) (xs : List α) {hh : Heap}
    (f : FW h (hh, t)) : FW h (xs.foldl (fun a x => Arrai.C03.store a t (g x) (w x)) hh, t) := by
  induction xs generalizing hh with
  | nil => exact f
  | cons x r ih => exact ih (f.store (g x) (w x))

theorem WFOK.ofFW {h : Heap} {p : Heap × Slice} (f : FW h p) (k : Kind) (off : Int) (aux : Nat) :
    WFOK h (p.1, .seq k p.2 off aux) := ⟨f.shape, f.wf⟩

/-! ### constructors -/

theorem wfh_newOffsetString {h : Heap} {s : Slice} (w : s.WF h) (off : Int) : WFH h (Impl.newOffsetString h s off) := by
  unfold Impl.newOffsetString; split
  · trivial
  · exact w

theorem wfh_newOffsetBytes {h : Heap} {s : Slice} (w : s.WF h) (off : Int) : WFH h (Impl.newOffsetBytes s off) := by
  unfold Impl.newOffsetBytes; split
  · trivial
  · exact w

theorem wf_trimFront {h : Heap} {s : Slice} (w : s.WF h) (off : Int) : (Impl.trimFront h s off).1.WF h := by
  unfold Impl.trimFront
  simp only []
  split
  · rename_i c
    have := read_length w
    exact wf_reslice w _ _ (by omega) w.len
  · exact w

theorem wf_trimBack {h : Heap} {s : Slice} (w : s.WF h) : (Impl.trimBack h s).WF h := by
  unfold Impl.trimBack
  simp only []
  split
  · have := w.len
    exact wf_reslice w _ _ (Nat.zero_le _) (by omega)
  · exact w

theorem wfh_newOffsetArray {h : Heap} {s : Slice} (w : s.WF h) (off : Int) : WFH h (Impl.newOffsetArray h off s) := by
  unfold Impl.newOffsetArray
  simp only []
  split
  · trivial
  · split
    · trivial
    · exact wf_trimBack (wf_trimFront w off)

theorem wfok_asSeq (k : Kind) (h : Heap) (ps : List (Int × V)) : WFOK h (Impl.asSeq k h ps) := by
  unfold Impl.asSeq
  cases ps with
  | nil => exact WFOK.same (wfh_hnone h)
  | cons p r =>
    simp only []
    have f0 : FW h (mkSlice h k.fill
        ((maxIdx (p :: r) - minIdx (p :: r) + 1).toNat) 0) := FW.ofMk (Shape.refl h) _ _ _
    have f1 := FW.foldStore (mkSlice h k.fill
        ((maxIdx (p :: r) - minIdx (p :: r) + 1).toNat) 0).2
        (fun iv : Int × V => (iv.1 - minIdx (p :: r)).toNat) (fun iv => [some iv.2]) (p :: r) f0
    exact WFOK.ofFW f1 _ _ _

theorem wfok_finishV (h : Heap) (v : V) : WFOK h (Impl.finishV h v) := by
  unfold Impl.finishV
  split
  · exact wfok_asSeq _ _ _
  · exact WFOK.same trivial

theorem wfok_viaBuilder (h : Heap) (o : Option V) : WFOK h (Impl.viaBuilder h o) := by
  cases o with
  | none => exact WFOK.same trivial
  | some v => exact wfok_finishV h v

theorem wfok_joinResult (h : Heap) (o : Option V) : WFOK h (Impl.joinResult h o) := by
  cases o with
  | none => exact WFOK.same trivial
  | some v =>
    simp only [Impl.joinResult]
    split
    · exact wfok_asSeq _ _ _
    · exact WFOK.same trivial

theorem wfok_freshSeq (orc : Oracle) (k : Kind) (h : Heap) (xs : List V) : WFOK h (Impl.freshSeq orc k h xs) := by
  unfold Impl.freshSeq
  split
  · exact WFOK.same trivial
  · exact WFOK.ofFW (FW.ofAlloc (Shape.refl h) orc _) _ _ _

theorem wfok_freshOpt (orc : Oracle) (k : Kind) (h : Heap) (o : Option (List V)) : WFOK h (Impl.freshOpt orc k h o) := by
  cases o with
  | none => exact WFOK.same trivial
  | some xs => exact wfok_freshSeq orc k h xs

/-! ### String / Bytes / Array operations -/

theorem wfok_seqWith (orc : Oracle) (k : Kind) (h : Heap) (s : Slice) (off : Int) (aux : Nat) (at_ : Int) (c : V)
    (w : s.WF h) : WFOK h (Impl.seqWith true orc k h s off aux at_ c) := by
  unfold Impl.seqWith
  simp only [if_true]
  have f1 : FW h (mkSlice h k.zero 0 (1 + s.len)) := FW.ofMk (Shape.refl h) _ _ _
  split
  · exact WFOK.same w
  · split
    · exact WFOK.ofFW ((f1.append orc k.zero _).append orc k.zero _) _ _ _
    · split
      · exact WFOK.ofFW ((f1.append orc k.zero _).append orc k.zero _) _ _ _
      · split
        · exact wfok_finishV _ _
        · exact WFOK.same trivial

theorem pos_of_getElem? {α : Type} {l : List α} {i : Nat} {x : α} (e : l[i]? = some x) : i < l.length :=
  (List.getElem?_eq_some_iff.1 e).1

theorem leadingNone_le' (cs : List Cell) : leadingNone cs ≤ cs.length := by
  induction cs with
  | nil => simp [leadingNone]
  | cons c r ih =>
    cases c with
    | none => simp [leadingNone]; omega
    | some v => simp [leadingNone]

theorem wf_trimHoles {h : Heap} {s : Slice} (w : s.WF h) (off : Int) (holes : Nat) : (Impl.trimHoles h s off holes).1.WF h := by
  unfold Impl.trimHoles
  simp only []
  have hl := read_length w
  have hle := leadingNone_le' (read h s)
  have w1 : (reslice s (leadingNone (read h s)) s.len).WF h := wf_reslice w _ _ (by omega) w.len
  exact wf_reslice w1 0 _ (Nat.zero_le _) (by have := w1.len; omega)

theorem wfok_strWithout (h : Heap) (s : Slice) (off : Int) (holes : Nat) (at_ : Int) (c : V) (w : s.WF h) :
    WFOK h (Impl.strWithout h s off holes at_ c) := by
  unfold Impl.strWithout
  simp only []
  have hl := read_length w
  have hlen := w.len
  have f1 : FW h (mkSlice h (Kind.zero .S) s.len 0) := FW.ofMk (Shape.refl h) _ _ _
  split <;> rename_i h1
  · have hp := pos_of_getElem? h1.2
    have w1 : (reslice s 1 s.len).WF h := wf_reslice w 1 s.len (by omega) hlen
    split
    · exact WFOK.same trivial
    · exact WFOK.same (wf_trimHoles w1 _ _)
  · split <;> rename_i h2
    · have w1 : (reslice s 0 (s.len - 1)).WF h := wf_reslice w 0 (s.len - 1) (Nat.zero_le _) (by omega)
      split
      · exact WFOK.same trivial
      · exact WFOK.same (wf_trimHoles w1 _ _)
    · split <;> rename_i h3
      · have f3 := (f1.copy (read h s)).store (Impl.index off s.len at_).toNat [none]
        split
        · exact ⟨f3.shape, trivial⟩
        · exact ⟨f3.shape, wf_trimHoles f3.wf _ _⟩
      · split
        · exact WFOK.same trivial
        · exact WFOK.same (wf_trimHoles w _ _)

theorem wfok_bytesWithout (h : Heap) (s : Slice) (off : Int) (at_ : Int) (c : V) (w : s.WF h) :
    WFOK h (Impl.bytesWithout h s off at_ c) := by
  unfold Impl.bytesWithout
  simp only []
  have hlen := w.len
  split
  · rename_i hc
    split
    · exact WFOK.same trivial
    · split
      · exact WFOK.same (wf_reslice w 1 s.len (by omega) hlen)
      · split
        · exact WFOK.same (wf_reslice w 0 _ (Nat.zero_le _) (by omega))
        · exact WFOK.same trivial
  · exact WFOK.same w

theorem fw_clone (h : Heap) (s : Slice) : FW h (Impl.clone h s) :=
  (FW.ofMk (Shape.refl h) none s.len 0).copy (read h s)

theorem wfok_withItem (h : Heap) (s : Slice) (off : Int) (count : Nat) (at_ : Int) (item : V) (w : s.WF h) :
    WFOK h (Impl.withItem h s off count at_ item) := by
  unfold Impl.withItem
  simp only []
  split
  · have f1 : FW h (mkSlice h none (s.len + (-(at_ - off)).toNat) 0) := FW.ofMk (Shape.refl h) _ _ _
    exact WFOK.ofFW ((f1.copyAny _ _).store 0 [some item]) _ _ _
  · split
    · have f1 : FW h (mkSlice h none ((at_ - off).toNat + 1) 0) := FW.ofMk (Shape.refl h) _ _ _
      exact WFOK.ofFW ((f1.copy (read h s)).store _ [some item]) _ _ _
    · split
      · exact WFOK.same w
      · have f1 : FW h (mkSlice h none s.len 0) := FW.ofMk (Shape.refl h) _ _ _
        split
        · exact WFOK.ofFW ((f1.copy (read h s)).store _ [some item]) _ _ _
        · exact ⟨(f1.copy (read h s)).shape, trivial⟩

theorem wfok_arrWithout (h : Heap) (s : Slice) (off : Int) (count : Nat) (at_ : Int) (item : V) (w : s.WF h) :
    WFOK h (Impl.arrWithout h s off count at_ item) := by
  unfold Impl.arrWithout
  simp only []
  have hlen := w.len
  split
  · rename_i hc
    split
    · exact WFOK.same (wfh_newOffsetArray (wf_reslice w 1 s.len (by omega) hlen) _)
    · split
      · exact WFOK.same (wfh_newOffsetArray (wf_reslice w 0 (s.len - 1) (Nat.zero_le _) (by omega)) _)
      · have f := (fw_clone h s).store (at_ - off).toNat [none]
        split
        · exact ⟨f.shape, trivial⟩
        · exact WFOK.ofFW f _ _ _
  · exact WFOK.same w

theorem leadingNone_le (cs : List Cell) : leadingNone cs ≤ cs.length := by
  induction cs with
  | nil => simp [leadingNone]
  | cons c r ih =>
    cases c with
    | none => simp [leadingNone]; omega
    | some v => simp [leadingNone]

theorem length_whereCells (p : Int → V → Bool) (off : Int) (cs : List Cell) : (Impl.whereCells p off cs).length = cs.length := by
  induction cs generalizing off with
  | nil => rfl
  | cons c r ih => cases c <;> simp [Impl.whereCells, ih]

theorem wf_ite {h : Heap} {c : Prop} [Decidable c] {a b : Slice} (wa : c → a.WF h) (wb : ¬c → b.WF h) :
    (if c then a else b).WF h := by
  split
  · exact wa ‹_›
  · exact wb ‹_›

theorem wfok_arrWhere (h : Heap) (s : Slice) (off : Int) (p : Int → V → Bool) (w : s.WF h) :
    WFOK h (Impl.arrWhere h s off p) := by
  unfold Impl.arrWhere
  simp only []
  have f := (fw_clone h s).store 0 (Impl.whereCells p off (read h s))
  have hl := read_length w
  have hcl : (Impl.clone h s).2.len = s.len := rfl
  have hcap := f.wf.len
  split
  · exact ⟨f.shape, trivial⟩
  · refine ⟨f.shape, ?_⟩
    have hle := leadingNone_le (Impl.whereCells p off (read h s))
    rw [length_whereCells, hl] at hle
    show Slice.WF _ _
    have w1 : Slice.WF (store (Impl.clone h s).1 (Impl.clone h s).2 0 (Impl.whereCells p off (read h s)))
        (if 0 < leadingNone (Impl.whereCells p off (read h s)) then
          reslice (Impl.clone h s).2 (leadingNone (Impl.whereCells p off (read h s))) (Impl.clone h s).2.len
         else (Impl.clone h s).2) := by
      split
      · exact wf_reslice f.wf _ _ (by rw [hcl]; exact hle) hcap
      · exact f.wf
    exact wf_ite (fun _ => wf_reslice w1 0 _ (Nat.zero_le _) (by have := w1.len; omega)) (fun _ => w1)

theorem wfok_withV (orc : Oracle) (h : Heap) (x : HVal) (k : Kind) (at_ : Int) (c : V) (w : WFH h x) :
    WFOK h (Impl.withV true orc h x k at_ c) := by
  unfold Impl.withV
  cases x with
  | seq k' s off aux =>
    simp only []
    split
    · cases k with
      | S => exact wfok_seqWith orc _ h s off aux at_ c w
      | B => exact wfok_seqWith orc _ h s off aux at_ c w
      | A => exact wfok_withItem h s off aux at_ c w
    · exact WFOK.same trivial
  | other v =>
    simp only []
    split
    · split
      · exact wfok_finishV h _
      · exact WFOK.same trivial
    · exact WFOK.same trivial
  | err => exact WFOK.same trivial

theorem wfok_withoutV (h : Heap) (x : HVal) (k : Kind) (at_ : Int) (c : V) (w : WFH h x) :
    WFOK h (Impl.withoutV h x k at_ c) := by
  unfold Impl.withoutV
  cases x with
  | seq k' s off aux =>
    simp only []
    split
    · cases k with
      | S => exact wfok_strWithout h s off aux at_ c w
      | B => exact wfok_bytesWithout h s off at_ c w
      | A => exact wfok_arrWithout h s off aux at_ c w
    · exact WFOK.same w
  | other v =>
    simp only []
    split
    · exact WFOK.same trivial
    · exact WFOK.same trivial
  | err => exact WFOK.same trivial

theorem wfh_offsetV (h : Heap) (x : HVal) (n : Int) (w : WFH h x) : WFH h (Impl.offsetV h x n) := by
  unfold Impl.offsetV
  cases x with
  | seq k s off aux =>
    cases k with
    | S => exact wfh_newOffsetString w _
    | B => exact wfh_newOffsetBytes w _
    | A => exact wfh_newOffsetArray w _
  | other v =>
    simp only []
    split <;> trivial
  | err => trivial

theorem wfok_whereV (h : Heap) (x : HVal) (p : Pred) (w : WFH h x) : WFOK h (Impl.whereV h x p) := by
  unfold Impl.whereV
  split
  · split
    · exact wfok_arrWhere _ _ _ _ w
    · exact WFOK.same trivial
  · exact wfok_viaBuilder _ _

theorem wfok_smapV (h : Heap) (x : HVal) (f : Fn) : WFOK h (Impl.smapV h x f) := by
  unfold Impl.smapV
  cases x with
  | seq k s off aux =>
    simp only []
    split
    · rename_i cs' _
      have f2 := (FW.ofMk (Shape.refl h) k.zero s.len 0).store 0 cs'
      refine ⟨f2.shape, ?_⟩
      cases k with
      | S => exact wfh_newOffsetString f2.wf _
      | B => exact wfh_newOffsetBytes f2.wf _
      | A => exact wfh_newOffsetArray f2.wf _
    · exact WFOK.same trivial
  | other v =>
    simp only []
    split <;> exact WFOK.same trivial
  | err => exact WFOK.same trivial

theorem wfok_foldWith (orc : Oracle) (k : Kind) (ivs : List (Int × V)) (h : Heap) (p : Heap × HVal) (a : WFOK h p) :
    WFOK h (ivs.foldl (fun p iv => Impl.withV true orc p.1 p.2 k iv.1 iv.2) p) := by
  induction ivs generalizing p with
  | nil => exact a
  | cons iv r ih => exact ih _ (a.trans (wfok_withV orc p.1 p.2 k iv.1 iv.2 a.2))

theorem wfok_unionV (orc : Oracle) (h : Heap) (a b : HVal) (wa : WFH h a) (wb : WFH h b) :
    WFOK h (Impl.unionV true orc h a b) := by
  unfold Impl.unionV
  split
  · exact WFOK.same trivial
  · exact WFOK.same trivial
  · split
    · exact wfok_foldWith orc _ _ h _ (WFOK.same wa)
    · exact wfok_viaBuilder _ _
  · split
    · exact WFOK.same wb
    · split
      · exact WFOK.same wa
      · exact wfok_viaBuilder _ _

theorem wfh_restV (h : Heap) (x : HVal) (k : Nat) (e : Bool) (w : WFH h x) : WFH h (Impl.restV h x k e) := by
  unfold Impl.restV
  split
  · rename_i s _ count
    have hlen := Slice.WF.len w
    split
    · rename_i hc
      split
      · exact wfh_newOffsetArray (wf_reslice w 0 (count - k) (Nat.zero_le _) (by have := hc.2.1; omega)) _
      · exact wfh_newOffsetArray (wf_reslice w k count hc.1 (by have := hc.2.1; omega)) _
    · trivial
  · trivial

/-! ### list facts behind the //seq helpers' re-slices -/

theorem hasPrefix_length {p s : List V} (hp : hasPrefix p s = true) : p.length ≤ s.length := by
  induction p generalizing s with
  | nil => simp
  | cons a r ih =>
    cases s with
    | nil => simp [hasPrefix] at hp
    | cons b t =>
      simp only [hasPrefix, Bool.and_eq_true] at hp
      have := ih hp.2
      simp; omega

theorem mapM_id_length : ∀ {l : List Cell} {xs : List V}, l.mapM id = some xs → xs.length = l.length
  | [], xs, e => by simp at e; subst e; rfl
  | none :: r, xs, e => by simp at e
  | some v :: r, xs, e => by
    simp only [List.mapM_cons, id, Option.bind_eq_bind, Option.bind_some] at e
    cases hr : r.mapM id with
    | none => rw [hr] at e; simp at e
    | some ys =>
      rw [hr] at e
      simp at e
      subst e
      simp [mapM_id_length hr]

theorem denseCells_wf {h : Heap} {x : HVal} {k : Kind} {s : Slice} {xs : List V}
    (e : Impl.denseCells h x = some (k, s, xs)) (w : WFH h x) : s.WF h ∧ xs.length = s.len := by
  unfold Impl.denseCells at e
  cases x with
  | seq k' s' off aux =>
    simp only [] at e
    split at e
    · simp only [Option.map_eq_some_iff] at e
      obtain ⟨ys, hm, e⟩ := e
      simp at e
      obtain ⟨_, rfl, rfl⟩ := e
      exact ⟨w, (mapM_id_length hm).trans (read_length w)⟩
    · simp at e
  | other v => simp at e
  | err => simp at e

theorem searchFrom_bound (sub : List V) : ∀ (l : List V) (st r : Nat), searchFrom sub st l = some r →
    st ≤ r ∧ (r - st) + sub.length ≤ l.length
  | [], st, r, e => by
    simp only [searchFrom] at e
    split at e
    · rename_i he
      simp at e; subst e
      have : sub = [] := by simpa using he
      subst this; simp
    · simp at e
  | x :: xs, st, r, e => by
    simp only [searchFrom] at e
    split at e
    · rename_i hp
      simp at e; subst e
      have := hasPrefix_length hp
      simp at this ⊢; omega
    · have := searchFrom_bound sub xs (st + 1) r e
      simp; omega

theorem search_bound {s d : List V} {i : Nat} (e : search s d = some i) : i + d.length ≤ s.length := by
  have := searchFrom_bound d s 0 i e
  omega

theorem pieceBounds_bound (d : List V) : ∀ (fuel start : Nat) (s : List V) (a b : Nat),
    (a, b) ∈ pieceBounds d fuel start s → start ≤ a ∧ a ≤ b ∧ b ≤ start + s.length
  | 0, start, s, a, b, hm => by
    simp [pieceBounds] at hm; omega
  | fuel + 1, start, s, a, b, hm => by
    simp only [pieceBounds] at hm
    split at hm
    · rename_i i hs
      have hb := search_bound hs
      rcases List.mem_cons.1 hm with e | hm
      · simp at e; omega
      · have := pieceBounds_bound d fuel (start + i + d.length) (s.drop (i + d.length)) a b hm
        simp at this; omega
    · simp at hm; omega

/-! ### one step -/

def InvWF (st : Impl.St) : Prop := ∀ x, x ∈ st.vals → WFH st.h x

theorem InvWF.getD {st : Impl.St} (inv : InvWF st) (i : Nat) : WFH st.h (st.vals.getD i .err) := by
  unfold List.getD
  cases e : st.vals[i]? with
  | none => trivial
  | some x => exact inv x (List.mem_of_getElem? e)

theorem invWF_init : InvWF Impl.init := by intro x hx; simp [Impl.init] at hx

theorem wfok_arrLoop (orc : Oracle) (h : Heap) (n : Nat) (chunks : List (List Cell)) :
    WFOK h ((Impl.appendAll orc none (mkSlice h none 0 n) chunks).1,
      Impl.newOffsetArray (Impl.appendAll orc none (mkSlice h none 0 n) chunks).1 0
        (Impl.appendAll orc none (mkSlice h none 0 n) chunks).2) := by
  have f := FW.appendAll orc none chunks (FW.ofMk (Shape.refl h) none 0 n)
  exact ⟨f.shape, wfh_newOffsetArray f.wf _⟩

/-- every (repaired) operation keeps all array lengths and yields a value whose slice lies inside its array -/
theorem wfok_run1 (orc : Oracle) (st : Impl.St) (inv : InvWF st) (op : Op) : WFOK st.h (Impl.run1 true orc st op) := by
  cases op with
  | root k off cs =>
    simp only [Impl.run1]
    have f := FW.ofAlloc (Shape.refl st.h) orc cs
    refine ⟨f.shape, ?_⟩
    cases k with
    | S => exact wfh_newOffsetString f.wf _
    | B => exact wfh_newOffsetBytes f.wf _
    | A => exact wfh_newOffsetArray f.wf _
  | const v => exact WFOK.same trivial
  | with_ i k at_ x => exact wfok_withV orc st.h _ k at_ x (inv.getD i)
  | without i k at_ x => exact wfok_withoutV st.h _ k at_ x (inv.getD i)
  | offset i n => exact WFOK.same (wfh_offsetV st.h _ n (inv.getD i))
  | where_ i p => exact wfok_whereV st.h _ p (inv.getD i)
  | smap i f => exact wfok_smapV st.h _ f
  | concat i j => exact wfok_viaBuilder _ _
  | union i j => exact wfok_unionV orc st.h _ _ (inv.getD i) (inv.getD j)
  | join i j => exact wfok_joinResult _ _
  | rest i k => exact WFOK.same (wfh_restV st.h _ k false (inv.getD i))
  | front i k => exact WFOK.same (wfh_restV st.h _ k true (inv.getD i))
  | trimPrefix p s =>
    simp only [Impl.run1]
    split
    · rename_i kp _ xp ks ss xs e1 e2
      have hw := denseCells_wf e2 (inv.getD s)
      split
      · exact WFOK.same trivial
      · cases ks with
        | S => exact wfok_freshSeq _ _ _ _
        | B =>
          simp only []
          split
          · rename_i hp
            have := hasPrefix_length hp
            exact WFOK.same (wfh_newOffsetBytes (wf_reslice hw.1 _ _ (by omega) hw.1.len) _)
          · exact WFOK.same hw.1
        | A =>
          simp only []
          split
          · exact wfok_viaBuilder _ _
          · exact WFOK.same (inv.getD s)
    · exact WFOK.same trivial
  | trimSuffix p s =>
    simp only [Impl.run1]
    split
    · rename_i kp _ xp ks ss xs e1 e2
      have hw := denseCells_wf e2 (inv.getD s)
      split
      · exact WFOK.same trivial
      · cases ks with
        | S => exact wfok_freshSeq _ _ _ _
        | B =>
          simp only []
          split
          · exact WFOK.same (wfh_newOffsetBytes (wf_reslice hw.1 0 _ (Nat.zero_le _) (by have := hw.1.len; omega)) _)
          · exact WFOK.same hw.1
        | A =>
          simp only []
          split
          · exact wfok_viaBuilder _ _
          · exact WFOK.same (inv.getD s)
    · exact WFOK.same trivial
  | sub o n s =>
    simp only [Impl.run1]
    split
    · rename_i ko _ xo kn _ xn ks _ xs e1 e2 e3
      split
      · exact WFOK.same trivial
      · cases ks with
        | S => exact wfok_freshSeq _ _ _ _
        | B => exact wfok_freshSeq _ _ _ _
        | A => exact wfok_arrLoop orc st.h _ _
    · exact WFOK.same trivial
  | split d s =>
    simp only [Impl.run1]
    split
    · split
      · exact WFOK.same trivial
      · exact wfok_freshSeq _ _ _ _
    · exact WFOK.same trivial
  | piece d s k =>
    simp only [Impl.run1]
    split
    · rename_i kd _ xd ks ss xs e1 e2
      have hw := denseCells_wf e2 (inv.getD s)
      split
      · exact WFOK.same trivial
      · cases ks with
        | S => exact wfok_freshOpt _ _ _ _
        | B => exact wfok_freshOpt _ _ _ _
        | A =>
          simp only []
          split
          · rename_i a b hab
            have hb := pieceBounds_bound xd (xs.length + 1) 0 xs a b (List.mem_of_getElem? hab)
            exact WFOK.same (wfh_newOffsetArray (wf_reslice hw.1 a b hb.2.1 (by have := hw.1.len; omega)) _)
          · exact WFOK.same trivial
    · exact WFOK.same trivial
  | sjoin d s =>
    simp only [Impl.run1]
    split
    · rename_i kd _ xd _ items e1 e2
      split
      · cases kd with
        | S => exact wfok_freshSeq _ _ _ _
        | B => exact WFOK.same trivial
        | A => exact wfok_arrLoop orc st.h _ _
      · exact WFOK.same trivial
    · exact WFOK.same trivial
  | repeat_ n i =>
    simp only [Impl.run1]
    split
    · exact wfok_arrLoop orc st.h _ _
    · exact wfok_freshSeq _ _ _ _
    · exact WFOK.same trivial
  | sconcat i j =>
    simp only [Impl.run1]
    split
    · rename_i ki _ xi kj _ xj e1 e2
      split
      · exact WFOK.same trivial
      · cases ki with
        | S => exact wfok_freshSeq _ _ _ _
        | B => exact wfok_viaBuilder _ _
        | A => exact wfok_viaBuilder _ _
    · exact WFOK.same trivial

end Arrai.C03
