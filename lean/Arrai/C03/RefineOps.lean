/-
  C03 — refinement, heap level: `snapO (operation over the heap) = Spec.operation (snapshots of the operands)`.
-/
import Arrai.C03.Builder

namespace Arrai.C03
open Impl

theorem attr_inj {k k' : Kind} (h : k.attr = k'.attr) : k = k' := by
  cases k <;> cases k' <;> simp [Kind.attr] at h <;> rfl

theorem tup_kind {k k' : Kind} {i j : Int} {x y : V} (h : tup k i x = tup k' j y) : k = k' := by
  simp [tup] at h; exact attr_inj h.2.1

/-- the cells of the repaired `append(append(make([]T, 0, 1+n), a...), b...)` -/
theorem read_mk_append2 (orc : Oracle) (z : Cell) (h : Heap) (n : Nat) (a b : List Cell) :
    read (append orc z (append orc z (mkSlice h z 0 n).1 (mkSlice h z 0 n).2 a).1
        (append orc z (mkSlice h z 0 n).1 (mkSlice h z 0 n).2 a).2 b).1
      (append orc z (append orc z (mkSlice h z 0 n).1 (mkSlice h z 0 n).2 a).1
        (append orc z (mkSlice h z 0 n).1 (mkSlice h z 0 n).2 a).2 b).2 = a ++ b := by
  have w1 := wf_mkSlice h z 0 n
  have w2 := wf_append orc z _ _ a w1
  rw [read_append orc z _ _ b w2, read_append orc z _ _ a w1, read_mkSlice_self]
  simp

/-- the set-builder branch of `String.with` (filling a hole, adding beyond an end): faithful because the new index is free -/
theorem finishV_with_free (h : Heap) (k : Kind) (hk : k ≠ .B) (off : Int) (cs : List Cell) (at_ : Int) (c : V)
    (hfree : ¬ ∃ (j : Nat) (v : V), cs[j]? = some (some v) ∧ at_ = off + j) :
    snap (finishV h (V.mkSet (tupleOf k at_ c :: members (V.mkSeq k.attr off cs)))).1
         (finishV h (V.mkSet (tupleOf k at_ c :: members (V.mkSeq k.attr off cs)))).2
      = V.mkSet (tupleOf k at_ c :: members (V.mkSeq k.attr off cs)) := by
  apply finishV_faithful h _ _ rfl
  intro k' ps hd
  obtain ⟨hm, _⟩ := decodeSeq_spec hd
  -- every entry of `ps` is the new tuple or a cell of `cs`
  have hmem : ∀ p, p ∈ ps → (k' = k) ∧ ((p.1 = at_ ∧ p.2 = c) ∨ ∃ j : Nat, cs[j]? = some (some p.2) ∧ p.1 = off + j) := by
    intro p hp
    have : tup k' p.1 p.2 ∈ members (V.mkSet (tupleOf k at_ c :: members (V.mkSeq k.attr off cs))) := by
      rw [hm]; exact List.mem_map.2 ⟨p, hp, rfl⟩
    rw [mem_members_mkSet, List.mem_cons, tupleOf_eq] at this
    rcases this with e | hx
    · have hk' := tup_kind e
      subst hk'
      rw [tup_inj] at e
      exact ⟨rfl, Or.inl e⟩
    · obtain ⟨j, v, hj, e⟩ := (mem_mkSeq k off cs _).1 hx
      have hk' := tup_kind e
      subst hk'
      rw [tup_inj] at e
      exact ⟨rfl, Or.inr ⟨j, by rw [e.2]; exact hj, e.1⟩⟩
  constructor
  · intro a b ha hb e
    rcases (hmem a ha).2 with ⟨a1, a2⟩ | ⟨j, hj, ej⟩ <;> rcases (hmem b hb).2 with ⟨b1, b2⟩ | ⟨j', hj', ej'⟩
    · rw [a2, b2]
    · exact absurd ⟨j', b.2, hj', by omega⟩ hfree
    · exact absurd ⟨j, a.2, hj, by omega⟩ hfree
    · have : j = j' := by omega
      subst this
      rw [hj] at hj'; simp at hj'; exact hj'
  · intro hB
    cases ps with
    | nil => exact absurd rfl (decodeSeq_spec hd).2
    | cons p r => exact absurd ((hmem p (by simp)).1 ▸ hB) hk

/-- `String.with` / `Bytes.with` (as repaired, as merged): the result denotes `receiver with tuple` -/
theorem seqWith_refines (orc : Oracle) (k : Kind) (h : Heap) (s : Slice) (off : Int) (aux : Nat) (at_ : Int) (c : V)
    (w : s.WF h) :
    snapO (seqWith true orc k h s off aux at_ c) = Spec.with_ (V.mkSeq k.attr off (read h s)) (tupleOf k at_ c) := by
  have hl := read_length w
  unfold seqWith
  simp only [if_true]
  split
  · -- already there
    rename_i hc
    rw [snapO_seq]
    exact (with_present k off (read h s) at_ c _ (index_eq hc.1) hc.1 hc.2.2).symm
  · split
    · -- at the end: a copy followed by the new element
      rename_i _ he
      have hi := index_eq (by rw [he]; omega : 0 ≤ index off s.len at_)
      have hat : at_ = off + ((read h s).length : Int) := by rw [hl]; omega
      rw [snapO_seq, read_mk_append2, hat]
      exact (with_end k off (read h s) c).symm
    · split
      · -- just before the front
        rename_i _ _ hf
        rw [snapO_seq, read_mk_append2, hf]
        exact (with_front k off (read h s) c).symm
      · split
        · -- String: rebuilt through the set builder (the index is free)
          rename_i hp _ _ hb
          have hfree : ¬ ∃ (j : Nat) (v : V), (read h s)[j]? = some (some v) ∧ at_ = off + j := by
            rintro ⟨j, v, hj, e⟩
            have hjl := pos_of_getElem? hj
            apply hb.2
            have hidx : index off s.len at_ = (j : Int) := by
              unfold index; rw [if_pos (by omega)]; omega
            refine ⟨by omega, by omega, ?_⟩
            rw [hidx]; simp [hj]
          have hk : k ≠ .B := by rw [hb.1]; decide
          have := finishV_with_free h k hk off (read h s) at_ c hfree
          unfold snapO
          split
          · rename_i he
            -- finishV never fails
            exfalso
            unfold finishV at he
            split at he
            · rename_i k' ps _
              unfold asSeq at he
              cases ps <;> simp [hnone] at he
            · simp at he
          · rename_i x hx _
            simp only [Spec.with_, isSet_mkSeq, if_true]
            congr 1
        · -- a generic set
          rw [snapO_other]
          simp [Spec.with_, isSet_mkSeq]

/-! ### Bytes.Without -/

theorem bytesWithout_refines (h : Heap) (s : Slice) (off : Int) (at_ : Int) (c : V) (w : s.WF h) :
    snapO (bytesWithout h s off at_ c) = Spec.without (V.mkSeq (Kind.attr .B) off (read h s)) (tupleOf .B at_ c) := by
  have hl := read_length w
  have hlen := w.len
  unfold bytesWithout
  simp only []
  split
  · rename_i hc
    have hi := index_eq hc.1
    split
    · -- the only byte
      rename_i h1
      have hi0 : index off s.len at_ = 0 := by omega
      have hat : at_ = off := by omega
      rw [hi0] at hc
      have := without_front .B off (read h s) c (by simpa using hc.2.2)
      rw [hat, this]
      show some V.none = _
      congr 1
      have : (read h s).drop 1 = [] := by apply List.drop_eq_nil_of_le; omega
      rw [this]; rfl
    · split
      · rename_i _ h0
        have hat : at_ = off := by omega
        rw [h0] at hc
        rw [snapO_seq, read_reslice h s 1 s.len w (by omega) (Nat.le_refl _), hat,
          without_front .B off (read h s) c (by simpa using hc.2.2)]
        congr 2
        apply List.take_of_length_le; simp [hl]
      · split
        · rename_i _ _ hlast
          have hnat : (index off s.len at_).toNat = (read h s).length - 1 := by rw [hl]; omega
          have hat : at_ = off + (((read h s).length - 1 : Nat) : Int) := by rw [hl]; omega
          have e1 : read h (reslice s 0 (index off s.len at_).toNat) = (read h s).take ((read h s).length - 1) := by
            rw [read_reslice h s 0 _ w (Nat.zero_le _) (by omega), hnat]; simp
          rw [snapO_seq, e1, hat, without_end .B off (read h s) c (by rw [← hnat]; exact hc.2.2)]
        · rw [snapO_other]
          simp [Spec.without, isSet_mkSeq]
  · rename_i hc
    rw [snapO_seq]
    symm
    apply without_absent
    rintro ⟨j, hj, e⟩
    apply hc
    have hjl := pos_of_getElem? hj
    have hidx : index off s.len at_ = (j : Int) := by unfold index; rw [if_pos (by omega)]; omega
    exact ⟨by omega, by omega, by rw [hidx]; simpa using hj⟩

/-! ### OffsetExpr on strings and byte arrays -/

theorem offset_refines_flat (h : Heap) (k : Kind) (hk : k ≠ .A) (s : Slice) (off : Int) (aux : Nat) (n : Int) (hne : s.len ≠ 0) :
    snap h (offsetV h (.seq k s off aux) n) = V.mkSet ((members (V.mkSeq k.attr off (read h s))).map (Spec.shiftAt n)) := by
  rw [offset_members]
  cases k with
  | A => exact absurd rfl hk
  | S => simp [offsetV, newOffsetString, hne, snap]
  | B => simp [offsetV, newOffsetBytes, hne, snap]

/-! ### NewOffsetArray: trimming holes by re-slicing keeps the denotation -/

theorem seqMembers_no_some (k : Kind) (off : Int) (cs : List Cell) (h0 : countSome cs = 0) : V.seqMembers k.attr off cs = [] := by
  induction cs generalizing off with
  | nil => simp [V.seqMembers]
  | cons c r ih =>
    cases c with
    | none =>
      rw [seqMembers_cons_none]
      exact ih _ (by simpa [countSome] using h0)
    | some v => simp [countSome] at h0

theorem leadingNone_reverse (cs : List Cell) (j : Nat) (h1 : cs.length - leadingNone cs.reverse ≤ j) (h2 : j < cs.length) :
    cs[j]? = some none := by
  have := leadingNone_take cs.reverse (cs.length - 1 - j) (by have := leadingNone_le' cs.reverse; simp at this; omega)
  rw [List.getElem?_reverse (by omega)] at this
  have e : cs.length - 1 - (cs.length - 1 - j) = j := by omega
  rw [e] at this
  exact this

theorem read_trimFront {h : Heap} {s : Slice} (w : s.WF h) (off : Int) :
    V.mkSeq (Kind.attr .A) (trimFront h s off).2 (read h (trimFront h s off).1) = V.mkSeq (Kind.attr .A) off (read h s) := by
  have hl := read_length w
  unfold trimFront
  simp only []
  split
  · rename_i hc
    rw [read_reslice h s _ s.len w (by omega) (Nat.le_refl _)]
    have : ((read h s).drop (leadingNone (read h s))).take (s.len - leadingNone (read h s)) = (read h s).drop (leadingNone (read h s)) := by
      apply List.take_of_length_le; simp [hl]
    rw [this]
    exact mkSeq_drop_leading .A off (read h s) _ (fun j hj => Or.inl (leadingNone_take _ j hj))
  · rfl

theorem read_trimBack {h : Heap} {s : Slice} (w : s.WF h) (off : Int) :
    V.mkSeq (Kind.attr .A) off (read h (trimBack h s)) = V.mkSeq (Kind.attr .A) off (read h s) := by
  have hl := read_length w
  unfold trimBack
  simp only []
  split
  · rename_i hc
    rw [read_reslice h s 0 _ w (Nat.zero_le _) (by omega)]
    simp only [List.drop_zero, Nat.sub_zero]
    apply mkSeq_take_trailing
    intro j hj
    by_cases hjl : j < (read h s).length
    · left; exact leadingNone_reverse _ j (by rw [hl]; exact hj) hjl
    · right; exact List.getElem?_eq_none (by omega)
  · rfl

/-- `NewOffsetArray(offset, values...)` denotes the array of its cells at that offset -/
theorem snap_newOffsetArray {h : Heap} {s : Slice} (w : s.WF h) (off : Int) :
    snap h (newOffsetArray h off s) = V.mkSeq (Kind.attr .A) off (read h s) := by
  have e : V.mkSeq (Kind.attr .A) (trimFront h s off).2 (read h (trimBack h (trimFront h s off).1))
      = V.mkSeq (Kind.attr .A) off (read h s) := by
    rw [read_trimBack (wf_trimFront w off), read_trimFront w]
  unfold newOffsetArray
  simp only []
  split
  · rename_i h0
    rw [← e]
    have : read h (trimBack h (trimFront h s off).1) = [] := by
      have := read_length (wf_trimBack (wf_trimFront w off))
      rw [h0] at this
      exact List.eq_nil_of_length_eq_zero this
    rw [this]; rfl
  · split
    · rename_i _ h0
      rw [← e]
      unfold V.mkSeq
      rw [seqMembers_no_some .A _ _ h0]; rfl
    · exact e

theorem newOffsetArray_ne_err (h : Heap) (off : Int) (s : Slice) : newOffsetArray h off s ≠ .err := by
  unfold newOffsetArray
  simp only []
  split
  · simp [hnone]
  · split <;> simp [hnone]

theorem snapO_newOffsetArray {h : Heap} {s : Slice} (w : s.WF h) (off : Int) :
    snapO (h, newOffsetArray h off s) = some (V.mkSeq (Kind.attr .A) off (read h s)) := by
  unfold snapO
  split
  · rename_i he; exact absurd he (newOffsetArray_ne_err h off s)
  · simp only []; rw [snap_newOffsetArray w]

/-- `n\array` -/
theorem offset_refines_arr (h : Heap) (s : Slice) (off : Int) (aux : Nat) (n : Int) (w : s.WF h) :
    snap h (offsetV h (.seq .A s off aux) n) = V.mkSet ((members (V.mkSeq (Kind.attr .A) off (read h s))).map (Spec.shiftAt n)) := by
  rw [offset_members]
  exact snap_newOffsetArray w _

/-! ### Array.Without -/

theorem arrWithout_refines (h : Heap) (s : Slice) (off : Int) (count : Nat) (at_ : Int) (item : V) (w : s.WF h)
    (hcount : count = countSome (read h s)) :
    snapO (arrWithout h s off count at_ item) = Spec.without (V.mkSeq (Kind.attr .A) off (read h s)) (tupleOf .A at_ item) := by
  have hl := read_length w
  have hlen := w.len
  unfold arrWithout
  simp only []
  split
  · rename_i hc
    split
    · -- the first item: NewOffsetArray(offset+1, values[1:]...)
      rename_i h0
      have hz : (at_ - off).toNat = 0 := by omega
      rw [hz] at hc
      rw [snapO_newOffsetArray (wf_reslice w 1 s.len (by omega) hlen), read_reslice h s 1 s.len w (by omega) (Nat.le_refl _),
        h0, without_front .A off (read h s) item hc.2.2]
      congr 2
      apply List.take_of_length_le; simp [hl]
    · split
      · -- the last item
        rename_i _ hlast
        have hnat : (at_ - off).toNat = (read h s).length - 1 := by rw [hl]; omega
        have hat : at_ = off + (((read h s).length - 1 : Nat) : Int) := by rw [hl]; omega
        have e1 : read h (reslice s 0 (s.len - 1)) = (read h s).take ((read h s).length - 1) := by
          rw [read_reslice h s 0 _ w (Nat.zero_le _) (by omega), hl]; simp
        rw [snapO_newOffsetArray (wf_reslice w 0 (s.len - 1) (Nat.zero_le _) (by omega)), e1, hat,
          without_end .A off (read h s) item (by rw [← hnat]; exact hc.2.2)]
      · -- in the middle: a clone with the cell blanked
        rename_i hf hlast
        have hi : (at_ - off).toNat < (read h s).length := by rw [hl]; omega
        have hat : at_ = off + (((at_ - off).toNat : Nat) : Int) := by omega
        have hcells : read (store (clone h s).1 (clone h s).2 (at_ - off).toNat [none]) (clone h s).2
            = (read h s).take (at_ - off).toNat ++ [none] ++ (read h s).drop ((at_ - off).toNat + 1) := by
          have wc : (clone h s).2.WF (clone h s).1 := (fw_clone h s).wf
          have rc : read (clone h s).1 (clone h s).2 = read h s := by
            unfold clone
            simp only []
            rw [read_copy_self _ _ _ (wf_mkSlice h none s.len 0)]
            have t1 : (read h s).take (mkSlice h none s.len 0).2.len = read h s :=
              List.take_of_length_le (by simp [mkSlice, hl])
            rw [t1]
            have t2 : (read (mkSlice h none s.len 0).1 (mkSlice h none s.len 0).2).drop (read h s).length = [] :=
              List.drop_eq_nil_of_le (by simp [read_mkSlice_self, hl])
            rw [t2]; simp
          rw [read_store_self _ _ _ _ wc (by simp [clone, mkSlice]; omega), rc]
          simp
        have hw := without_mid .A off (read h s) (at_ - off).toNat item hc.2.2
        rw [← hat] at hw
        split
        · -- nothing left
          rename_i hz
          rw [hw]
          show some V.none = _
          congr 1
          unfold V.mkSeq
          rw [seqMembers_no_some]
          · rfl
          · -- count - 1 = 0 and the cell blanked was the only item
            have hsplit : read h s = (read h s).take (at_ - off).toNat ++ [some item] ++ (read h s).drop ((at_ - off).toNat + 1) := by
              apply List.ext_getElem?
              intro j
              rw [getElem?_set_one _ _ _ _ hi]
              split
              · rename_i e; rw [e]; exact hc.2.2
              · rfl
            have : countSome (read h s) = countSome ((read h s).take (at_ - off).toNat ++ [none] ++ (read h s).drop ((at_ - off).toNat + 1)) + 1 := by
              conv => lhs; rw [hsplit]
              simp [countSome, List.filter_append]
              omega
            omega
        · rw [snapO_seq, hcells, hw]
  · rename_i hc
    rw [snapO_seq]
    symm
    apply without_absent
    rintro ⟨j, hj, e⟩
    apply hc
    have hjl := pos_of_getElem? hj
    have hj' : (at_ - off).toNat = j := by omega
    exact ⟨by omega, by omega, by rw [hj']; exact hj⟩

/-! ### Array.withItem -/

theorem store_reslice (h : Heap) (s : Slice) (m j : Nat) (vs : List Cell) : store h (reslice s m j) 0 vs = store h s m vs := by
  simp [store, reslice]

/-- a fresh array of `n` nils, `cs` copied to position `m`, then cell `q` set to `x` -/
theorem read_build (h : Heap) (n m q : Nat) (cs : List Cell) (x : Cell) (hm : m + cs.length ≤ n) (hq : q < n) (j : Nat) :
    (read (store (store (mkSlice h none n 0).1 (mkSlice h none n 0).2 m cs) (mkSlice h none n 0).2 q [x]) (mkSlice h none n 0).2)[j]? =
      if j = q then some x else if m ≤ j ∧ j < m + cs.length then cs[j - m]? else if j < n then some none else none := by
  have w0 := wf_mkSlice h none n 0
  have w1 : (mkSlice h none n 0).2.WF (store (mkSlice h none n 0).1 (mkSlice h none n 0).2 m cs) := w0.shape (shape_store _ _ _ _)
  have hn : (mkSlice h none n 0).2.len = n := rfl
  have r1 : read (store (mkSlice h none n 0).1 (mkSlice h none n 0).2 m cs) (mkSlice h none n 0).2
      = (List.replicate n none).take m ++ cs ++ (List.replicate n none).drop (m + cs.length) := by
    rw [read_store_self _ _ m cs w0 (by rw [hn]; exact hm), read_mkSlice_self]
  rw [read_store_self _ _ q [x] w1 (by rw [hn]; simp; omega), r1]
  have hlen : ((List.replicate n none).take m ++ cs ++ (List.replicate n (none : Cell)).drop (m + cs.length)).length = n := by
    simp; omega
  simp only [List.length_singleton]
  rw [getElem?_set_one _ q x j (by rw [hlen]; exact hq)]
  by_cases e : j = q
  · rw [if_pos e, if_pos e]
  · rw [if_neg e, if_neg e]
    by_cases c1 : j < m
    · rw [if_neg (by omega), if_pos (by omega), List.append_assoc, List.getElem?_append_left (by simp; omega)]
      simp [List.getElem?_replicate]; omega
    · by_cases c2 : j < m + cs.length
      · rw [if_pos ⟨by omega, c2⟩, List.append_assoc, List.getElem?_append_right (by simp; omega),
          List.getElem?_append_left (by simp; omega)]
        congr 1; simp; omega
      · rw [if_neg (by omega), List.getElem?_append_right (by simp; omega), List.getElem?_drop]
        by_cases c3 : j < n
        · rw [if_pos c3, List.getElem?_replicate, if_pos (by simp; omega)]
        · rw [if_neg c3, List.getElem?_replicate, if_neg (by simp; omega)]

/-- `Array.withItem`: prepending with a gap, appending with a gap, an item that is there, filling a hole, and the generic
set for a second item at an occupied index -/
theorem withItem_refines (h : Heap) (s : Slice) (off : Int) (count : Nat) (at_ : Int) (item : V) (w : s.WF h) :
    snapO (withItem h s off count at_ item) = Spec.with_ (V.mkSeq (Kind.attr .A) off (read h s)) (tupleOf .A at_ item) := by
  have hl := read_length w
  unfold withItem
  simp only []
  split
  · -- before the front
    rename_i hneg
    rw [snapO_seq]
    symm
    apply with_refines
    intro a v
    have hm : (-(at_ - off)).toNat + (read h s).length ≤ s.len + (-(at_ - off)).toNat := by omega
    have hcopy : copy (mkSlice h none (s.len + (-(at_ - off)).toNat) 0).1
        (reslice (mkSlice h none (s.len + (-(at_ - off)).toNat) 0).2 (-(at_ - off)).toNat
          (mkSlice h none (s.len + (-(at_ - off)).toNat) 0).2.len) (read h s)
        = store (mkSlice h none (s.len + (-(at_ - off)).toNat) 0).1 (mkSlice h none (s.len + (-(at_ - off)).toNat) 0).2
            (-(at_ - off)).toNat (read h s) := by
      unfold copy
      rw [store_reslice]
      congr 1
      apply List.take_of_length_le
      simp [reslice, mkSlice, hl]
    rw [hcopy]
    have key := read_build h (s.len + (-(at_ - off)).toNat) (-(at_ - off)).toNat 0 (read h s) (some item) hm (by omega)
    constructor
    · rintro ⟨j, hj, rfl⟩
      rw [key j] at hj
      split at hj
      · rename_i e; right; simp at hj; exact ⟨by omega, hj.symm⟩
      · split at hj
        · left; exact ⟨j - (-(at_ - off)).toNat, hj, by omega⟩
        · split at hj <;> simp at hj
    · rintro (⟨j, hj, rfl⟩ | ⟨rfl, rfl⟩)
      · have hjl := pos_of_getElem? hj
        refine ⟨(-(at_ - off)).toNat + j, ?_, by omega⟩
        rw [key, if_neg (by omega), if_pos (by omega)]
        have : (-(at_ - off)).toNat + j - (-(at_ - off)).toNat = j := by omega
        rw [this]; exact hj
      · exact ⟨0, by rw [key, if_pos rfl], by omega⟩
  · split
    · -- beyond the end
      rename_i hnn hge
      rw [snapO_seq]
      symm
      apply with_refines
      intro a v
      have hcopy : copy (mkSlice h none ((at_ - off).toNat + 1) 0).1 (mkSlice h none ((at_ - off).toNat + 1) 0).2 (read h s)
          = store (mkSlice h none ((at_ - off).toNat + 1) 0).1 (mkSlice h none ((at_ - off).toNat + 1) 0).2 0 (read h s) := by
        unfold copy
        congr 1
        apply List.take_of_length_le
        simp [mkSlice, hl]; omega
      rw [hcopy]
      have key := read_build h ((at_ - off).toNat + 1) 0 (at_ - off).toNat (read h s) (some item) (by omega) (by omega)
      constructor
      · rintro ⟨j, hj, rfl⟩
        rw [key j] at hj
        split at hj
        · right; simp at hj; exact ⟨by omega, hj.symm⟩
        · split at hj
          · left; exact ⟨j, by simpa using hj, rfl⟩
          · split at hj <;> simp at hj
      · rintro (⟨j, hj, rfl⟩ | ⟨rfl, rfl⟩)
        · have hjl := pos_of_getElem? hj
          refine ⟨j, ?_, rfl⟩
          rw [key, if_neg (by omega), if_pos (by omega)]
          simpa using hj
        · exact ⟨(a - off).toNat, by rw [key, if_pos rfl], by omega⟩
    · split
      · -- the item is there
        rename_i hnn hlt hc
        rw [snapO_seq]
        exact (with_present .A off (read h s) at_ item (at_ - off) rfl (by omega) hc).symm
      · rename_i hnn hlt hne
        have hcopy : copy (mkSlice h none s.len 0).1 (mkSlice h none s.len 0).2 (read h s)
            = store (mkSlice h none s.len 0).1 (mkSlice h none s.len 0).2 0 (read h s) := by
          unfold copy
          congr 1
          apply List.take_of_length_le
          simp [mkSlice, hl]
        split
        · -- filling a hole
          rename_i hhole
          rw [snapO_seq, hcopy]
          symm
          apply with_refines
          intro a v
          have key := read_build h s.len 0 (at_ - off).toNat (read h s) (some item) (by omega) (by omega)
          constructor
          · rintro ⟨j, hj, rfl⟩
            rw [key j] at hj
            split at hj
            · right; simp at hj; exact ⟨by omega, hj.symm⟩
            · split at hj
              · left; exact ⟨j, by simpa using hj, rfl⟩
              · split at hj <;> simp at hj
          · rintro (⟨j, hj, rfl⟩ | ⟨rfl, rfl⟩)
            · have hjl := pos_of_getElem? hj
              refine ⟨j, ?_, rfl⟩
              have hne' : j ≠ (at_ - off).toNat := by
                intro e; rw [e, hhole] at hj; simp at hj
              rw [key, if_neg hne', if_pos (by omega)]
              simpa using hj
            · exact ⟨(a - off).toNat, by rw [key, if_pos rfl], by omega⟩
        · -- a generic set
          rw [snapO_other]
          simp [Spec.with_, isSet_mkSeq]

/-! ### String.Without (with trimHoles) -/

theorem countNone_append (a b : List Cell) : countNone (a ++ b) = countNone a + countNone b := by
  simp [countNone, List.filter_append]

theorem countNone_le (cs : List Cell) : countNone cs ≤ cs.length := by
  simp [countNone]; exact List.length_filter_le _ _

theorem countNone_all_none (cs : List Cell) (h : ∀ j, j < cs.length → cs[j]? = some none) : countNone cs = cs.length := by
  induction cs with
  | nil => rfl
  | cons c r ih =>
    have h0 := h 0 (by simp)
    simp at h0
    subst h0
    have := ih (fun j hj => by have := h (j + 1) (by simp; omega); simpa using this)
    simp [countNone] at this ⊢
    exact this

/-- a list all of whose cells are holes denotes nothing -/
theorem mkSeq_all_none (k : Kind) (off : Int) (cs : List Cell) (h : cs.length ≤ countNone cs) : V.mkSeq k.attr off cs = V.none := by
  have hs : countSome cs = 0 := by
    have h1 : countSome cs + countNone cs = cs.length := by
      induction cs with
      | nil => rfl
      | cons c r ih =>
        have hr : r.length ≤ countNone r := by
          cases c <;> simp [countNone] at h ⊢ <;> omega
        cases c <;> simp [countSome, countNone] at ih ⊢ <;> have := ih hr <;> omega
    omega
  unfold V.mkSeq
  rw [seqMembers_no_some k off cs hs]; rfl

theorem trimHoles_spec {h : Heap} {s : Slice} (w : s.WF h) (off : Int) (holes : Nat) (hh : holes = countNone (read h s)) :
    V.mkSeq (Kind.attr .S) (trimHoles h s off holes).2.1 (read h (trimHoles h s off holes).1) = V.mkSeq (Kind.attr .S) off (read h s) ∧
    (trimHoles h s off holes).2.2 = countNone (read h (trimHoles h s off holes).1) ∧
    (read h (trimHoles h s off holes).1).length = (trimHoles h s off holes).1.len := by
  have hl := read_length w
  have hle := leadingNone_le' (read h s)
  have w1 : (reslice s (leadingNone (read h s)) s.len).WF h := wf_reslice w _ _ (by omega) w.len
  have r1 : read h (reslice s (leadingNone (read h s)) s.len) = (read h s).drop (leadingNone (read h s)) := by
    rw [read_reslice h s _ s.len w (by omega) (Nat.le_refl _)]
    apply List.take_of_length_le; simp [hl]
  have hl1 := read_length w1
  have hle1 := leadingNone_le' (read h (reslice s (leadingNone (read h s)) s.len)).reverse
  simp only [List.length_reverse] at hle1
  have w2 : (trimHoles h s off holes).1.WF h := wf_trimHoles w off holes
  have r2 : read h (trimHoles h s off holes).1 = ((read h s).drop (leadingNone (read h s))).take
      (((read h s).drop (leadingNone (read h s))).length - leadingNone ((read h s).drop (leadingNone (read h s))).reverse) := by
    unfold trimHoles
    simp only []
    rw [read_reslice h _ 0 _ w1 (Nat.zero_le _) (by omega), r1]
    simp only [List.drop_zero, Nat.sub_zero]
    congr 1
    rw [← r1, hl1]
  refine ⟨?_, ?_, read_length w2⟩
  · rw [r2]
    show V.mkSeq _ (off + (leadingNone (read h s) : Int)) _ = _
    rw [mkSeq_take_trailing .S _ _ _ (fun j hj => by
      by_cases hjl : j < ((read h s).drop (leadingNone (read h s))).length
      · left; exact leadingNone_reverse _ j hj hjl
      · right; exact List.getElem?_eq_none (by omega))]
    exact mkSeq_drop_leading .S off (read h s) _ (fun j hj => Or.inl (leadingNone_take _ j hj))
  · -- the hole count follows the trimming
    rw [r2]
    show holes - leadingNone (read h s) - leadingNone (read h (reslice s (leadingNone (read h s)) s.len)).reverse = _
    rw [r1]
    generalize hd : (read h s).drop (leadingNone (read h s)) = d
    have e1 : countNone (read h s) = leadingNone (read h s) + countNone d := by
      conv => lhs; rw [← List.take_append_drop (leadingNone (read h s)) (read h s)]
      rw [countNone_append, hd, countNone_all_none _ (fun j hj => by
        rw [List.getElem?_take, if_pos (by simp at hj; omega)]
        exact leadingNone_take _ j (by simp at hj; omega))]
      simp; omega
    have e2 : countNone d = countNone (d.take (d.length - leadingNone d.reverse)) + leadingNone d.reverse := by
      have hled := leadingNone_le' d.reverse
      simp only [List.length_reverse] at hled
      conv => lhs; rw [← List.take_append_drop (d.length - leadingNone d.reverse) d]
      rw [countNone_append, countNone_all_none (d.drop (d.length - leadingNone d.reverse)) (fun j hj => by
        rw [List.getElem?_drop]
        simp at hj
        exact leadingNone_reverse d _ (by omega) (by omega))]
      simp; omega
    omega

theorem strWithout_refines (h : Heap) (s : Slice) (off : Int) (holes : Nat) (at_ : Int) (c : V) (w : s.WF h)
    (hh : holes = countNone (read h s)) :
    snapO (strWithout h s off holes at_ c) = Spec.without (V.mkSeq (Kind.attr .S) off (read h s)) (tupleOf .S at_ c) := by
  have hl := read_length w
  have hlen := w.len
  -- the common tail: trimHoles, then None when nothing is left
  have tail : ∀ (h' : Heap) (s' : Slice) (off' : Int) (holes' : Nat), s'.WF h' → holes' = countNone (read h' s') →
      snapO (if (trimHoles h' s' off' holes').1.len - (trimHoles h' s' off' holes').2.2 = 0 then (h', hnone)
             else (h', .seq .S (trimHoles h' s' off' holes').1 (trimHoles h' s' off' holes').2.1 (trimHoles h' s' off' holes').2.2))
        = some (V.mkSeq (Kind.attr .S) off' (read h' s')) := by
    intro h' s' off' holes' w' hh'
    obtain ⟨e1, e2, e3⟩ := trimHoles_spec w' off' holes' hh'
    split
    · rename_i hz
      show some V.none = _
      rw [← e1, mkSeq_all_none .S _ _ (by omega)]
    · rw [snapO_seq, e1]
  unfold strWithout
  simp only []
  split
  · -- the first char
    rename_i hc
    have hi := index_eq (by rw [hc.1]; omega : 0 ≤ index off s.len at_)
    have hat : at_ = off := by omega
    have w1 : (reslice s 1 s.len).WF h := wf_reslice w 1 s.len (by have := pos_of_getElem? hc.2; omega) hlen
    have r1 : read h (reslice s 1 s.len) = (read h s).drop 1 := by
      rw [read_reslice h s 1 s.len w (by have := pos_of_getElem? hc.2; omega) (Nat.le_refl _)]
      apply List.take_of_length_le; simp [hl]
    rw [tail h _ _ _ w1 (by
      rw [r1, hh]
      conv => lhs; rw [← List.take_append_drop 1 (read h s)]
      rw [countNone_append]
      have : (read h s).take 1 = [some c] := by
        cases hr : read h s with
        | nil => rw [hr] at hc; simp at hc
        | cons x r => rw [hr] at hc; simp at hc; simp [hc.2]
      rw [this]; simp [countNone]), r1, hat]
    exact (without_front .S off (read h s) c hc.2).symm
  · split
    · -- the last char
      rename_i _ hc
      have hi := index_eq (by rw [hc.1]; have := pos_of_getElem? hc.2; omega : 0 ≤ index off s.len at_)
      have hpos := pos_of_getElem? hc.2
      have hat : at_ = off + (((read h s).length - 1 : Nat) : Int) := by rw [hl]; omega
      have w1 : (reslice s 0 (s.len - 1)).WF h := wf_reslice w 0 (s.len - 1) (Nat.zero_le _) (by omega)
      have r1 : read h (reslice s 0 (s.len - 1)) = (read h s).take ((read h s).length - 1) := by
        rw [read_reslice h s 0 _ w (Nat.zero_le _) (by omega), hl]; simp
      rw [tail h _ _ _ w1 (by
        rw [r1, hh]
        conv => lhs; rw [← List.take_append_drop ((read h s).length - 1) (read h s)]
        rw [countNone_append]
        have : (read h s).drop ((read h s).length - 1) = [some c] := by
          apply List.ext_getElem?
          intro j
          rw [List.getElem?_drop]
          cases j with
          | zero => rw [hl]; simpa using hc.2
          | succ j => rw [List.getElem?_eq_none (by omega)]; simp
        rw [this]; simp [countNone]), r1, hat]
      exact (without_end .S off (read h s) c (by rw [hl]; exact hc.2)).symm
    · split
      · -- in the middle: a copy with the char blanked
        rename_i _ _ hc
        have hi := index_eq (by omega : 0 ≤ index off s.len at_)
        have hnat : (index off s.len at_).toNat < (read h s).length := by rw [hl]; omega
        have hat : at_ = off + (((index off s.len at_).toNat : Nat) : Int) := by omega
        have wq := wf_mkSlice h (Kind.zero .S) s.len 0
        have hcopy : copy (mkSlice h (Kind.zero .S) s.len 0).1 (mkSlice h (Kind.zero .S) s.len 0).2 (read h s)
            = store (mkSlice h (Kind.zero .S) s.len 0).1 (mkSlice h (Kind.zero .S) s.len 0).2 0 (read h s) := by
          unfold copy; congr 1; apply List.take_of_length_le; simp [mkSlice, hl]
        have w2 : (mkSlice h (Kind.zero .S) s.len 0).2.WF
            (store (copy (mkSlice h (Kind.zero .S) s.len 0).1 (mkSlice h (Kind.zero .S) s.len 0).2 (read h s))
              (mkSlice h (Kind.zero .S) s.len 0).2 (index off s.len at_).toNat [none]) :=
          (wq.shape (shape_copy _ _ _)).shape (shape_store _ _ _ _)
        have rq : read (store (copy (mkSlice h (Kind.zero .S) s.len 0).1 (mkSlice h (Kind.zero .S) s.len 0).2 (read h s))
              (mkSlice h (Kind.zero .S) s.len 0).2 (index off s.len at_).toNat [none]) (mkSlice h (Kind.zero .S) s.len 0).2
            = (read h s).take (index off s.len at_).toNat ++ [none] ++ (read h s).drop ((index off s.len at_).toNat + 1) := by
          have rc : read (copy (mkSlice h (Kind.zero .S) s.len 0).1 (mkSlice h (Kind.zero .S) s.len 0).2 (read h s))
              (mkSlice h (Kind.zero .S) s.len 0).2 = read h s := by
            rw [read_copy_self _ _ _ wq]
            have t1 : (read h s).take (mkSlice h (Kind.zero .S) s.len 0).2.len = read h s :=
              List.take_of_length_le (by simp [mkSlice, hl])
            rw [t1]
            have t2 : (read (mkSlice h (Kind.zero .S) s.len 0).1 (mkSlice h (Kind.zero .S) s.len 0).2).drop (read h s).length = [] :=
              List.drop_eq_nil_of_le (by simp [read_mkSlice_self, hl])
            rw [t2]; simp
          rw [read_store_self _ _ _ _ (wq.shape (shape_copy _ _ _)) (by simp [mkSlice]; omega), rc]
          simp
        have hsplit : read h s = (read h s).take (index off s.len at_).toNat ++ [some c] ++ (read h s).drop ((index off s.len at_).toNat + 1) := by
          apply List.ext_getElem?
          intro j
          rw [getElem?_set_one _ _ _ _ hnat]
          split
          · rename_i e; rw [e]; exact hc.2.2
          · rfl
        rw [tail _ _ _ _ w2 (by
          rw [rq, hh]
          conv => lhs; rw [hsplit]
          simp [countNone]
          omega), rq]
        have hw := without_mid .S off (read h s) (index off s.len at_).toNat c hc.2.2
        rw [← hat] at hw
        exact hw.symm
      · -- not there
        rename_i h1 h2 h3
        rw [tail h s off holes w hh]
        symm
        apply without_absent
        rintro ⟨j, hj, e⟩
        have hjl := pos_of_getElem? hj
        have hidx : index off s.len at_ = (j : Int) := by unfold index; rw [if_pos (by omega)]; omega
        by_cases hj0 : j = 0
        · apply h1; subst hj0; exact ⟨by omega, hj⟩
        · by_cases hjlast : j = s.len - 1
          · apply h2; refine ⟨by omega, ?_⟩; rw [← hjlast]; exact hj
          · apply h3; exact ⟨by omega, by omega, by rw [hidx]; simpa using hj⟩

/-! ### assembling: `x.With(t)`, `x.Without(t)`, the set builder -/

theorem finishV_ne_err (h : Heap) (v : V) : (finishV h v).2 ≠ .err := by
  unfold finishV
  split
  · rename_i k ps _
    unfold asSeq
    cases ps <;> simp [hnone]
  · simp

theorem snapO_finishV (h : Heap) (v : V) : snapO (finishV h v) = some (snap (finishV h v).1 (finishV h v).2) := by
  unfold snapO
  split
  · rename_i he; exact absurd he (finishV_ne_err h v)
  · rfl

/-- whatever is computed as "specification, then the set builder" denotes the specified set — when the builder can hold it -/
theorem viaBuilder_refines (h : Heap) (o : Option V) (hcanon : ∀ v, o = some v → ∃ l, v = V.mkSet l)
    (hf : ∀ v, o = some v → ∀ k ps, decodeSeq v = some (k, ps) → Functional ps ∧ (k = .B → Gapless ps)) :
    snapO (viaBuilder h o) = o := by
  cases o with
  | none => rfl
  | some v =>
    obtain ⟨l, hl⟩ := hcanon v rfl
    show snapO (finishV h v) = some v
    rw [snapO_finishV, finishV_faithful h v l hl (hf v rfl)]

theorem members_mkSet_singleton (t : V) : members (V.mkSet [t]) = [t] := rfl

/-- `x.With(tuple)` for any `x` the model can hold (`validElem`: a char tuple carries a non-negative number, a byte tuple a byte) -/
theorem withV_refines (orc : Oracle) (h : Heap) (x : HVal) (k : Kind) (at_ : Int) (c : V) (w : WFH h x) :
    snapO (withV true orc h x k at_ c) = (snapO (h, x)).bind (fun v => Spec.with_ v (tupleOf k at_ c)) := by
  unfold withV
  cases x with
  | seq k' s off aux =>
    simp only [snapO_seq, Option.bind_some]
    split
    · rename_i hk
      obtain ⟨rfl, _⟩ := hk
      cases k' with
      | S => exact seqWith_refines orc .S h s off aux at_ c w
      | B => exact seqWith_refines orc .B h s off aux at_ c w
      | A => exact withItem_refines h s off aux at_ c w
    · rw [snapO_other]
      simp [Spec.with_, isSet_mkSeq, snap]
  | other v =>
    simp only [snapO_other, Option.bind_some]
    split
    · rename_i hs
      split
      · rename_i he
        have hm : members v = [] := by simpa using he
        rw [snapO_finishV]
        simp only [Spec.with_, hs, if_true, hm]
        congr 1
        apply finishV_faithful h _ [tupleOf k at_ c] rfl
        intro k' ps hd
        obtain ⟨hmm, hne⟩ := decodeSeq_spec hd
        rw [members_mkSet_singleton] at hmm
        cases ps with
        | nil => exact absurd rfl hne
        | cons p r =>
          cases r with
          | cons q r' => simp at hmm
          | nil =>
            refine ⟨fun a b ha hb _ => by simp at ha hb; rw [ha, hb], fun _ i h1 h2 => ⟨p, by simp, ?_⟩⟩
            simp [minIdx, maxIdx] at h1 h2; omega
      · rw [snapO_other]
        simp [Spec.with_, hs]
    · rename_i hs
      simp [snapO, Spec.with_, hs]
  | err => rfl

/-- the cached counts agree with the cells: `holes` of a String, `count` of an Array -/
def AuxOK (h : Heap) : HVal → Prop
  | .seq .S s _ aux => aux = countNone (read h s)
  | .seq .A s _ aux => aux = countSome (read h s)
  | _ => True

/-- `x.Without(tuple)` -/
theorem withoutV_refines (h : Heap) (x : HVal) (k : Kind) (at_ : Int) (c : V) (w : WFH h x) (ha : AuxOK h x)
    (hsame : ∀ k' s off aux, x = .seq k' s off aux → k' = k) :
    snapO (withoutV h x k at_ c) = (snapO (h, x)).bind (fun v => Spec.without v (tupleOf k at_ c)) := by
  unfold withoutV
  cases x with
  | seq k' s off aux =>
    have hk := hsame k' s off aux rfl
    subst hk
    simp only [snapO_seq, Option.bind_some, if_true]
    cases k' with
    | S => exact strWithout_refines h s off aux at_ c w ha
    | B => exact bytesWithout_refines h s off at_ c w
    | A => exact arrWithout_refines h s off aux at_ c w ha
  | other v =>
    simp only [snapO_other, Option.bind_some]
    split
    · rename_i hs
      rw [snapO_other]
      simp [Spec.without, hs]
    · rename_i hs
      simp [snapO, Spec.without, hs]
  | err => rfl

/-- `n\x` for a String, Bytes or Array -/
theorem offsetV_refines (h : Heap) (k : Kind) (s : Slice) (off : Int) (aux : Nat) (n : Int) (w : s.WF h) :
    snap h (offsetV h (.seq k s off aux) n) = V.mkSet ((members (V.mkSeq k.attr off (read h s))).map (Spec.shiftAt n)) := by
  cases k with
  | A => exact offset_refines_arr h s off aux n w
  | S =>
    by_cases hne : s.len = 0
    · have : read h s = [] := List.eq_nil_of_length_eq_zero ((read_length w).trans hne)
      simp [offsetV, newOffsetString, hne, snap, this, hnone]; rfl
    · exact offset_refines_flat h .S (by decide) s off aux n hne
  | B =>
    by_cases hne : s.len = 0
    · have : read h s = [] := List.eq_nil_of_length_eq_zero ((read_length w).trans hne)
      simp [offsetV, newOffsetBytes, hne, snap, this, hnone]; rfl
    · exact offset_refines_flat h .B (by decide) s off aux n hne

end Arrai.C03
