/-
  C03 — nested payloads: why array ITEMS may be held as denotations.

  In Go an Array's backing array holds REFERENCES (interface values) to its items; an item that is itself a String,
  Bytes or Array has a payload slice of its own, somewhere else in the heap.  The heap model (Model.lean) does not follow
  these references: an array cell holds the item's denotation `V`, computed when the cell is written.

  `NVal` is the reference-following view: a tree whose nodes carry the payload slices.  `nden h x` reads it through the
  heap `h` (descending into the items), `NLive h x` says that every slice of the tree lies in `h`, `Agrees h x` says that
  the model's cells of every array node are exactly the denotations of the items referred to.

  The reduction: an operation only ever READS or COPIES item references; the only stores it makes go to arrays it
  allocated itself (`Frame`, proved for every operation in Lemmas.lean).  Hence (`nden_frame`) following the references
  through any later heap yields what it yielded before, and (`agrees_frame`, `snap_eq_nden`) the model's frozen
  denotations coincide with the reference-following reading at every later time, to any depth of nesting.
-/
import Arrai.C03.Lemmas

namespace Arrai.C03

/-- a value with its references followed -/
inductive NVal where
  | atom (v : V)                                              -- no payload slice (numbers, tuples, generic sets, {})
  | flat (k : Kind) (s : Slice) (off : Int)                   -- String / Bytes / an Array of atoms: cells are atoms
  | arr (s : Slice) (off : Int) (kids : List (Option NVal))   -- Array: cell i of `s` refers to kids[i] (none = nil)

mutual
/-- the denotation, following references through the heap -/
def nden (h : Heap) : NVal → V
  | .atom v => v
  | .flat k s off => V.mkSeq k.attr off (read h s)
  | .arr _ off kids => V.mkSeq "@item" off (ndenList h kids)
def ndenList (h : Heap) : List (Option NVal) → List (Option V)
  | [] => []
  | none :: r => none :: ndenList h r
  | some x :: r => some (nden h x) :: ndenList h r
end

mutual
/-- every slice of the tree lies in the heap -/
def NLive (h : Heap) : NVal → Prop
  | .atom _ => True
  | .flat _ s _ => s.arr < h.length
  | .arr s _ kids => s.arr < h.length ∧ NLiveList h kids
def NLiveList (h : Heap) : List (Option NVal) → Prop
  | [] => True
  | none :: r => NLiveList h r
  | some x :: r => NLive h x ∧ NLiveList h r
end

mutual
/-- the model's cells of every array node are the denotations of the items referred to -/
def Agrees (h : Heap) : NVal → Prop
  | .atom _ => True
  | .flat _ _ _ => True
  | .arr s _ kids => read h s = ndenList h kids ∧ AgreesList h kids
def AgreesList (h : Heap) : List (Option NVal) → Prop
  | [] => True
  | none :: r => AgreesList h r
  | some x :: r => Agrees h x ∧ AgreesList h r
end

/-- what the heap model holds for the root of the tree -/
def NVal.toH : NVal → HVal
  | .atom v => .other v
  | .flat k s off => .seq k s off 0
  | .arr s off _ => .seq .A s off 0

mutual
/-- following the references through a later heap gives what it gave before: no operation writes into an item's payload -/
theorem nden_frame {h h' : Heap} (f : Frame h.length h h') (x : NVal) (l : NLive h x) : nden h' x = nden h x := by
  cases x with
  | atom v => rfl
  | flat k s off =>
    simp only [NLive] at l
    simp only [nden, read_frame f s l]
  | arr s off kids =>
    simp only [NLive] at l
    simp only [nden, ndenList_frame f kids l.2]
theorem ndenList_frame {h h' : Heap} (f : Frame h.length h h') (xs : List (Option NVal)) (l : NLiveList h xs) :
    ndenList h' xs = ndenList h xs := by
  cases xs with
  | nil => rfl
  | cons x r =>
    cases x with
    | none =>
      simp only [NLiveList] at l
      simp only [ndenList, ndenList_frame f r l]
    | some y =>
      simp only [NLiveList] at l
      simp only [ndenList, nden_frame f y l.1, ndenList_frame f r l.2]
end

mutual
theorem nlive_mono {h h' : Heap} (hl : h.length ≤ h'.length) (x : NVal) (l : NLive h x) : NLive h' x := by
  cases x with
  | atom v => trivial
  | flat k s off => simp only [NLive] at l ⊢; omega
  | arr s off kids =>
    simp only [NLive] at l ⊢
    exact ⟨by omega, nliveList_mono hl kids l.2⟩
theorem nliveList_mono {h h' : Heap} (hl : h.length ≤ h'.length) (xs : List (Option NVal)) (l : NLiveList h xs) :
    NLiveList h' xs := by
  cases xs with
  | nil => trivial
  | cons x r =>
    cases x with
    | none => simp only [NLiveList] at l ⊢; exact nliveList_mono hl r l
    | some y => simp only [NLiveList] at l ⊢; exact ⟨nlive_mono hl y l.1, nliveList_mono hl r l.2⟩
end

mutual
/-- … and the model's frozen item denotations keep coinciding with the items referred to -/
theorem agrees_frame {h h' : Heap} (f : Frame h.length h h') (x : NVal) (l : NLive h x) (a : Agrees h x) : Agrees h' x := by
  cases x with
  | atom v => trivial
  | flat k s off => trivial
  | arr s off kids =>
    simp only [NLive] at l
    simp only [Agrees] at a ⊢
    exact ⟨by rw [read_frame f s l.1, ndenList_frame f kids l.2]; exact a.1, agreesList_frame f kids l.2 a.2⟩
theorem agreesList_frame {h h' : Heap} (f : Frame h.length h h') (xs : List (Option NVal)) (l : NLiveList h xs)
    (a : AgreesList h xs) : AgreesList h' xs := by
  cases xs with
  | nil => trivial
  | cons x r =>
    cases x with
    | none =>
      simp only [NLiveList] at l
      simp only [AgreesList] at a ⊢
      exact agreesList_frame f r l a
    | some y =>
      simp only [NLiveList] at l
      simp only [AgreesList] at a ⊢
      exact ⟨agrees_frame f y l.1 a.1, agreesList_frame f r l.2 a.2⟩
end

/-- where the model agrees with the tree, its snapshot IS the reference-following denotation -/
theorem snap_eq_nden {h : Heap} (x : NVal) (a : Agrees h x) : snap h x.toH = nden h x := by
  cases x with
  | atom v => rfl
  | flat k s off => rfl
  | arr s off kids =>
    simp only [Agrees] at a
    simp only [NVal.toH, snap, nden, Kind.attr, a.1]

/-- the abstraction is sound across any framed change of the heap: freezing an item's denotation when the cell is written
and following the reference later are the same thing -/
theorem abstraction_sound {h h' : Heap} (f : Frame h.length h h') (x : NVal) (l : NLive h x) (a : Agrees h x) :
    snap h' x.toH = nden h' x ∧ nden h' x = nden h x ∧ snap h' x.toH = snap h x.toH := by
  have a' := agrees_frame f x l a
  refine ⟨snap_eq_nden x a', nden_frame f x l, ?_⟩
  rw [snap_eq_nden x a', snap_eq_nden x a, nden_frame f x l]

/-- putting an item into an array: a node whose cells are the items' current denotations agrees, if the items do -/
theorem agrees_arr {h : Heap} (s : Slice) (off : Int) (kids : List (Option NVal)) (hc : read h s = ndenList h kids)
    (ak : AgreesList h kids) : Agrees h (.arr s off kids) := by
  simp only [Agrees]; exact ⟨hc, ak⟩

end Arrai.C03
