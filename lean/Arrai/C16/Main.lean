import Arrai.Core.DriverMain
import Arrai.C16.Gen

def main (args : List String) : IO UInt32 := Arrai.driverMain Arrai.C16.gen args
